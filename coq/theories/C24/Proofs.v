(** C24 — lemmas about the pslice operations and the per-event invariants. *)
From Coq Require Import List NArith ZArith Bool Arith Lia Permutation.
From Coq Require Import ZifyBool ZifyNat ZifyN.
Import ListNotations.
Require Import Aurora.C24.Model.
Local Open Scope N_scope.

(** ---------- peers ---------- *)
Lemma peer_eqb_eq (a b : peer) : peer_eqb a b = true <-> a = b.
Proof.
  destruct a as [x i], b as [y j]; unfold peer_eqb; cbn [fst snd].
  rewrite andb_true_iff, Nat.eqb_eq, N.eqb_eq. split.
  - intros [H1 H2]; now subst.
  - intros H; inversion H; auto.
Qed.
Lemma peer_eqb_refl a : peer_eqb a a = true.
Proof. now apply peer_eqb_eq. Qed.
Lemma peer_eqb_neq (a b : peer) : peer_eqb a b = false <-> a <> b.
Proof.
  split.
  - intros H E. apply peer_eqb_eq in E. congruence.
  - intros H. destruct (peer_eqb a b) eqn:E; auto. apply peer_eqb_eq in E. contradiction.
Qed.
Lemma peer_eq_dec (a b : peer) : {a = b} + {a <> b}.
Proof.
  destruct (peer_eqb a b) eqn:E; [left; now apply peer_eqb_eq | right; now apply peer_eqb_neq].
Qed.

Lemma memb_In p l : memb p l = true <-> In p l.
Proof.
  unfold memb. rewrite existsb_exists. split.
  - intros [x [Hx He]]. apply peer_eqb_eq in He. now subst.
  - intros H. exists p. split; auto. apply peer_eqb_refl.
Qed.
Lemma memb_false p l : memb p l = false <-> ~ In p l.
Proof.
  split.
  - intros H Hin. apply memb_In in Hin. congruence.
  - intros H. destruct (memb p l) eqn:E; auto. apply memb_In in E. contradiction.
Qed.

(** ---------- remove_all / set_add ---------- *)
Lemma In_remove_all q p l : In q (remove_all p l) <-> q <> p /\ In q l.
Proof.
  induction l as [|x t IH]; cbn [remove_all].
  - cbn. tauto.
  - destruct (peer_eqb p x) eqn:E.
    + apply peer_eqb_eq in E. subst x. rewrite IH. cbn. split.
      * intros [H1 H2]; auto.
      * intros [H1 [H2|H2]]; [congruence | auto].
    + apply peer_eqb_neq in E. cbn. rewrite IH. split.
      * intros [H|[H1 H2]]; [subst; split; auto | auto].
      * intros [H1 [H2|H2]]; auto.
Qed.
Lemma NoDup_remove_all p l : NoDup l -> NoDup (remove_all p l).
Proof.
  induction 1 as [|x t Hx Ht IH]; cbn [remove_all]; [constructor|].
  destruct (peer_eqb p x); auto. constructor; auto.
  rewrite In_remove_all. tauto.
Qed.
Lemma In_set_add q p l : In q (set_add p l) <-> q = p \/ In q l.
Proof.
  unfold set_add. destruct (memb p l) eqn:E.
  - apply memb_In in E. split; [auto | intros [H|H]; subst; auto].
  - cbn. split; intros [H|H]; auto.
Qed.
Lemma NoDup_set_add p l : NoDup l -> NoDup (set_add p l).
Proof.
  intros H. unfold set_add. destruct (memb p l) eqn:E; auto.
  apply memb_false in E. now constructor.
Qed.

(** ---------- swap_remove ---------- *)
Lemma swap_remove_notin p l : ~ In p l -> swap_remove p l = l.
Proof.
  induction l as [|x t IH]; intros H; cbn [swap_remove]; auto.
  destruct (peer_eqb p x) eqn:E.
  - apply peer_eqb_eq in E. subst. exfalso. apply H. now left.
  - f_equal. apply IH. intros Hin. apply H. now right.
Qed.

Lemma last_removelast_perm (y : peer) (t : list peer) :
  t <> [] -> Permutation t (last t y :: removelast t).
Proof.
  intros H. rewrite (app_removelast_last y H) at 1.
  apply Permutation_sym, Permutation_cons_append.
Qed.

Lemma swap_remove_perm p l : In p l -> Permutation l (p :: swap_remove p l).
Proof.
  induction l as [|x t IH]; intros H; [destruct H|].
  cbn [swap_remove]. destruct (peer_eqb p x) eqn:E.
  - apply peer_eqb_eq in E. subst x. destruct t as [|y t']; [reflexivity|].
    constructor. apply last_removelast_perm. discriminate.
  - apply peer_eqb_neq in E. destruct H as [H|H]; [congruence|].
    specialize (IH H). rewrite perm_swap. now constructor.
Qed.

Lemma In_swap_remove_sub q p l : In q (swap_remove p l) -> In q l.
Proof.
  intros H. destruct (in_dec peer_eq_dec p l) as [Hp|Hp].
  - apply (Permutation_in _ (Permutation_sym (swap_remove_perm p l Hp))). now right.
  - now rewrite (swap_remove_notin _ _ Hp) in H.
Qed.
Lemma In_swap_remove_other q p l : q <> p -> In q l -> In q (swap_remove p l).
Proof.
  intros Hne H. destruct (in_dec peer_eq_dec p l) as [Hp|Hp].
  - apply (Permutation_in _ (swap_remove_perm p l Hp)) in H. destruct H; [congruence | auto].
  - now rewrite (swap_remove_notin _ _ Hp).
Qed.
Lemma NoDup_swap_remove p l : NoDup l -> NoDup (swap_remove p l).
Proof.
  intros H. destruct (in_dec peer_eq_dec p l) as [Hp|Hp].
  - apply (Permutation_NoDup (swap_remove_perm p l Hp)) in H. now inversion H.
  - now rewrite (swap_remove_notin _ _ Hp).
Qed.
Lemma swap_remove_gone p l : NoDup l -> ~ In p (swap_remove p l).
Proof.
  intros H. destruct (in_dec peer_eq_dec p l) as [Hp|Hp].
  - apply (Permutation_NoDup (swap_remove_perm p l Hp)) in H. now inversion H.
  - now rewrite (swap_remove_notin _ _ Hp).
Qed.

(** ---------- upd ---------- *)
Lemma upd_length b f s : length (upd b f s) = length s.
Proof.
  revert b; induction s as [|l t IH]; intros [|b]; cbn [upd length]; auto.
Qed.
Lemma nth_upd_same b f s : (b < length s)%nat -> nth b (upd b f s) [] = f (nth b s []).
Proof.
  revert b; induction s as [|l t IH]; intros [|b] H; cbn [upd nth length] in *; try lia; auto.
  apply IH. lia.
Qed.
Lemma nth_upd_other b b' f s : b <> b' -> nth b' (upd b f s) [] = nth b' s [].
Proof.
  revert b b'; induction s as [|l t IH]; intros [|b] [|b'] H; cbn [upd nth]; auto; try congruence.
Qed.

(** ---------- well-formed pslices ---------- *)
Definition ps_mem (cfg : config) (p : peer) (s : pslice) : Prop := In p (ps_bin s (pbin cfg p)).

Record wf_ps (cfg : config) (s : pslice) : Prop := {
  wf_len : length s = c_nb cfg;
  wf_bins : forall b q, In q (nth b s []) -> pbin cfg q = b
}.
Definition nodup_ps (s : pslice) : Prop := forall b, NoDup (nth b s []).

Lemma pbin_lt cfg p : (1 <= c_nb cfg)%nat -> (pbin cfg p < c_nb cfg)%nat.
Proof. unfold pbin. lia. Qed.

Lemma ps_exists_mem cfg p s : ps_exists cfg p s = true <-> ps_mem cfg p s.
Proof. unfold ps_exists, ps_mem. apply memb_In. Qed.

Lemma nth_repeat_nil (n b : nat) : nth b (repeat (@nil peer) n) [] = [].
Proof. revert b; induction n; intros [|b]; cbn; auto. Qed.

Lemma wf_new cfg : wf_ps cfg (ps_new (c_nb cfg)).
Proof.
  split.
  - unfold ps_new. apply repeat_length.
  - intros b q H. unfold ps_new in H. rewrite nth_repeat_nil in H. destruct H.
Qed.
Lemma nodup_new n : nodup_ps (ps_new n).
Proof. intros b. unfold ps_new. rewrite nth_repeat_nil. constructor. Qed.
Lemma mem_new cfg p : ~ ps_mem cfg p (ps_new (c_nb cfg)).
Proof. unfold ps_mem, ps_bin, ps_new. rewrite nth_repeat_nil. auto. Qed.

(** generic: updating the bin of [p] with a function on lists *)
Lemma wf_upd cfg p f s :
  wf_ps cfg s -> (forall l q, In q (f l) -> In q l \/ q = p) -> wf_ps cfg (upd (pbin cfg p) f s).
Proof.
  intros [Hl Hb] Hf. split.
  - now rewrite upd_length.
  - intros b q H. destruct (Nat.eq_dec (pbin cfg p) b) as [E|E].
    + subst b. destruct (Nat.lt_ge_cases (pbin cfg p) (length s)) as [Hlt|Hge].
      * rewrite nth_upd_same in H by auto. apply Hf in H. destruct H as [H|H]; [now apply Hb | now subst].
      * rewrite nth_overflow in H by (rewrite upd_length; lia). destruct H.
    + rewrite nth_upd_other in H by auto. now apply Hb.
Qed.

Lemma mem_upd_iff cfg p f s q :
  (pbin cfg p < length s)%nat ->
  (ps_mem cfg q (upd (pbin cfg p) f s) <->
   (if Nat.eq_dec (pbin cfg p) (pbin cfg q) then In q (f (ps_bin s (pbin cfg p))) else ps_mem cfg q s)).
Proof.
  intros Hlt. unfold ps_mem, ps_bin. destruct (Nat.eq_dec (pbin cfg p) (pbin cfg q)) as [E|E].
  - rewrite <- E. now rewrite nth_upd_same.
  - now rewrite nth_upd_other.
Qed.

(** add1 *)
Lemma len_add1 cfg p s : length (ps_add1 cfg p s) = length s.
Proof. unfold ps_add1. destruct (ps_exists cfg p s); auto. apply upd_length. Qed.

Lemma wf_add1 cfg p s : wf_ps cfg s -> wf_ps cfg (ps_add1 cfg p s).
Proof.
  intros H. unfold ps_add1. destruct (ps_exists cfg p s); auto.
  apply wf_upd; auto. intros l q Hq. apply in_app_or in Hq. destruct Hq as [Hq|[Hq|[]]]; auto.
Qed.

Lemma mem_add1 cfg p s q :
  (pbin cfg p < length s)%nat -> (ps_mem cfg q (ps_add1 cfg p s) <-> q = p \/ ps_mem cfg q s).
Proof.
  intros Hlt. unfold ps_add1. destruct (ps_exists cfg p s) eqn:E.
  - apply ps_exists_mem in E. split; [auto | intros [H|H]; subst; auto].
  - rewrite mem_upd_iff by auto. destruct (Nat.eq_dec (pbin cfg p) (pbin cfg q)) as [Eb|Eb].
    + rewrite in_app_iff. unfold ps_mem. rewrite <- Eb. cbn. split.
      * intros [H|[H|[]]]; auto.
      * intros [H|H]; auto.
    + split; auto. intros [H|H]; auto. subst. congruence.
Qed.

Lemma nodup_add1 cfg p s : nodup_ps s -> nodup_ps (ps_add1 cfg p s).
Proof.
  intros H. unfold ps_add1. destruct (ps_exists cfg p s) eqn:E; auto.
  intros b. destruct (Nat.eq_dec (pbin cfg p) b) as [Eb|Eb].
  - subst b. destruct (Nat.lt_ge_cases (pbin cfg p) (length s)) as [Hlt|Hge].
    + rewrite nth_upd_same by auto.
      assert (Hn : ~ In p (nth (pbin cfg p) s [])).
      { intros Hin. apply ps_exists_mem in Hin. congruence. }
      apply Permutation_NoDup with (l := p :: nth (pbin cfg p) s []).
      * apply Permutation_cons_append.
      * constructor; auto.
    + rewrite nth_overflow by (rewrite upd_length; lia). constructor.
  - rewrite nth_upd_other by auto. apply H.
Qed.

(** remove *)
Lemma len_remove cfg p s : length (ps_remove cfg p s) = length s.
Proof. apply upd_length. Qed.

Lemma wf_remove cfg p s : wf_ps cfg s -> wf_ps cfg (ps_remove cfg p s).
Proof.
  intros H. apply wf_upd; auto. intros l q Hq. left. eapply In_swap_remove_sub; eauto.
Qed.

Lemma nodup_remove cfg p s : nodup_ps s -> nodup_ps (ps_remove cfg p s).
Proof.
  intros H b. unfold ps_remove. destruct (Nat.eq_dec (pbin cfg p) b) as [Eb|Eb].
  - subst b. destruct (Nat.lt_ge_cases (pbin cfg p) (length s)) as [Hlt|Hge].
    + rewrite nth_upd_same by auto. apply NoDup_swap_remove, H.
    + rewrite nth_overflow by (rewrite upd_length; lia). constructor.
  - rewrite nth_upd_other by auto. apply H.
Qed.

Lemma mem_remove_sub cfg p s q : ps_mem cfg q (ps_remove cfg p s) -> ps_mem cfg q s.
Proof.
  unfold ps_remove. destruct (Nat.lt_ge_cases (pbin cfg p) (length s)) as [Hlt|Hge].
  - rewrite mem_upd_iff by auto. destruct (Nat.eq_dec _ _) as [E|E]; auto.
    intros H. apply In_swap_remove_sub in H. unfold ps_mem. now rewrite <- E.
  - unfold ps_mem, ps_bin. destruct (Nat.eq_dec (pbin cfg p) (pbin cfg q)) as [E|E].
    + rewrite <- E. rewrite nth_overflow by (rewrite upd_length; lia). intros [].
    + now rewrite nth_upd_other.
Qed.

Lemma mem_remove_other cfg p s q : q <> p -> ps_mem cfg q s -> ps_mem cfg q (ps_remove cfg p s).
Proof.
  intros Hne H. unfold ps_remove. destruct (Nat.lt_ge_cases (pbin cfg p) (length s)) as [Hlt|Hge].
  - rewrite mem_upd_iff by auto. destruct (Nat.eq_dec _ _) as [E|E]; auto.
    apply In_swap_remove_other; auto. unfold ps_mem in H. now rewrite E.
  - unfold ps_mem, ps_bin in *. destruct (Nat.eq_dec (pbin cfg p) (pbin cfg q)) as [E|E].
    + rewrite <- E in H. rewrite nth_overflow in H by lia. destruct H.
    + now rewrite nth_upd_other.
Qed.

Lemma mem_remove_gone cfg p s : nodup_ps s -> ~ ps_mem cfg p (ps_remove cfg p s).
Proof.
  intros Hn. unfold ps_remove, ps_mem, ps_bin.
  destruct (Nat.lt_ge_cases (pbin cfg p) (length s)) as [Hlt|Hge].
  - rewrite nth_upd_same by auto. apply swap_remove_gone, Hn.
  - rewrite nth_overflow by (rewrite upd_length; lia). auto.
Qed.

Lemma mem_remove cfg p s q :
  nodup_ps s -> (ps_mem cfg q (ps_remove cfg p s) <-> q <> p /\ ps_mem cfg q s).
Proof.
  intros Hn. split.
  - intros H. split; [|eapply mem_remove_sub; eauto].
    intros E. subst. eapply mem_remove_gone; eauto.
  - intros [H1 H2]. now apply mem_remove_other.
Qed.

(** batch add: only what the subset theorem needs *)
Lemma len_add_batch cfg ps s : length (ps_add_batch cfg ps s) = length s.
Proof.
  unfold ps_add_batch. generalize (batch_new cfg s ps []) as l.
  intros l. revert s. induction l as [|x t IH]; intros s; cbn [fold_left]; auto.
  rewrite IH. apply upd_length.
Qed.

Lemma mem_add_batch_keep cfg ps s q : ps_mem cfg q s -> ps_mem cfg q (ps_add_batch cfg ps s).
Proof.
  unfold ps_add_batch. generalize (batch_new cfg s ps []) as l.
  intros l. revert s. induction l as [|x t IH]; intros s H; cbn [fold_left]; auto.
  apply IH. destruct (Nat.lt_ge_cases (pbin cfg x) (length s)) as [Hlt|Hge].
  - rewrite mem_upd_iff by auto. destruct (Nat.eq_dec _ _) as [E|E]; auto.
    apply in_or_app. left. unfold ps_mem in H. now rewrite E.
  - unfold ps_mem, ps_bin in *. destruct (Nat.eq_dec (pbin cfg x) (pbin cfg q)) as [E|E].
    + rewrite <- E in H. rewrite nth_overflow in H by lia. destruct H.
    + now rewrite nth_upd_other.
Qed.

Lemma len_add cfg ps s : length (ps_add cfg ps s) = length s.
Proof.
  unfold ps_add. destruct ps as [|p [|p' t]]; try apply len_add_batch. apply len_add1.
Qed.
Lemma mem_add_keep cfg ps s q :
  (1 <= c_nb cfg)%nat -> length s = c_nb cfg -> ps_mem cfg q s -> ps_mem cfg q (ps_add cfg ps s).
Proof.
  intros Hnb Hl H. unfold ps_add. destruct ps as [|p [|p' t]]; try now apply mem_add_batch_keep.
  apply mem_add1; auto. rewrite Hl. now apply pbin_lt.
Qed.

(** ---------- what is reported: EachPeer order = bins from the deepest, each in slice order ---------- *)
Lemma map_snd_combine_seq (s : pslice) a : map snd (combine (seq a (length s)) s) = s.
Proof.
  revert a; induction s as [|l t IH]; intros a; cbn; auto. now rewrite IH.
Qed.

Lemma map_fst_tag bl : map fst (tag bl) = snd bl.
Proof.
  unfold tag. rewrite map_map. cbn. apply map_id.
Qed.

Lemma reported_concat s : reported s = concat (rev s).
Proof.
  unfold reported, each. rewrite flat_map_concat_map, concat_map, map_map.
  rewrite (map_ext _ snd) by apply map_fst_tag.
  rewrite map_rev. unfold binned. now rewrite map_snd_combine_seq.
Qed.

Lemma In_concat_nth (s : pslice) q : In q (concat s) <-> exists b, In q (nth b s []).
Proof.
  rewrite in_concat. split.
  - intros [l [Hl Hq]]. apply (In_nth _ _ []) in Hl. destruct Hl as [b [_ Hb]]. exists b. now rewrite Hb.
  - intros [b Hb]. destruct (Nat.lt_ge_cases b (length s)) as [Hlt|Hge].
    + exists (nth b s []). split; auto. now apply nth_In.
    + rewrite nth_overflow in Hb by auto. destruct Hb.
Qed.

Lemma In_reported s q : In q (reported s) <-> exists b, In q (nth b s []).
Proof.
  rewrite reported_concat, <- In_concat_nth, !in_concat. split.
  - intros [l [Hl Hq]]. exists l. split; auto. now apply in_rev.
  - intros [l [Hl Hq]]. exists l. split; auto. now apply in_rev in Hl.
Qed.

Lemma In_reported_mem cfg s q : wf_ps cfg s -> (In q (reported s) <-> ps_mem cfg q s).
Proof.
  intros [Hl Hb]. rewrite In_reported. unfold ps_mem, ps_bin. split.
  - intros [b H]. now rewrite (Hb _ _ H).
  - intros H. eauto.
Qed.
Lemma mem_In_reported cfg s q : ps_mem cfg q s -> In q (reported s).
Proof. intros H. apply In_reported. now exists (pbin cfg q). Qed.

Lemma concat_rev_perm (s : pslice) : Permutation (concat (rev s)) (concat s).
Proof.
  induction s as [|l t IH]; cbn; auto.
  rewrite concat_app. cbn. rewrite app_nil_r.
  rewrite Permutation_app_comm. now apply Permutation_app_head.
Qed.

Lemma NoDup_concat_bins cfg (a : nat) (s : pslice) :
  (forall i q, In q (nth i s []) -> pbin cfg q = (a + i)%nat) ->
  (forall i, NoDup (nth i s [])) -> NoDup (concat s).
Proof.
  revert a; induction s as [|l t IH]; intros a Hb Hn; cbn [concat]; [constructor|].
  assert (Hl : NoDup l) by apply (Hn 0%nat).
  assert (Ht : NoDup (concat t)).
  { apply (IH (S a)).
    - intros i q H. rewrite (Hb (S i) q H). lia.
    - intros i. apply (Hn (S i)). }
  clear IH. induction l as [|x l IHl]; cbn; auto.
  inversion Hl; subst. constructor.
  - rewrite in_app_iff. intros [H|H]; [contradiction|].
    apply In_concat_nth in H. destruct H as [i Hi].
    pose proof (Hb (S i) x Hi) as E1. pose proof (Hb 0%nat x (or_introl eq_refl)) as E2. lia.
  - apply IHl; auto.
    + intros i q H. destruct i; [apply (Hb 0%nat); now right | apply (Hb (S i)); auto].
    + intros i. destruct i; [auto | apply (Hn (S i))].
Qed.

Lemma NoDup_reported cfg s : wf_ps cfg s -> nodup_ps s -> NoDup (reported s).
Proof.
  intros [Hl Hb] Hn. rewrite reported_concat.
  apply (Permutation_NoDup (Permutation_sym (concat_rev_perm s))).
  apply (NoDup_concat_bins cfg 0); auto.
Qed.

(** ---------- invariant of the connected slice against the live set ---------- *)
Record InvC (cfg : config) (c : pslice) (L : list peer) : Prop := {
  ic_wf : wf_ps cfg c;
  ic_nd : nodup_ps c;
  ic_mem : forall q, ps_mem cfg q c <-> In q L;
  ic_ndl : NoDup L
}.

Section Steps.
Variable cfg : config.
Hypothesis Hnb : (1 <= c_nb cfg)%nat.

Lemma InvC_init : InvC cfg (conn (init cfg)) [].
Proof.
  split; cbn [conn init].
  - apply wf_new.
  - apply nodup_new.
  - intros q. split; [intros H; now apply mem_new in H | intros []].
  - constructor.
Qed.

Lemma InvC_add c L p : InvC cfg c L -> InvC cfg (ps_add1 cfg p c) (set_add p L).
Proof.
  intros [Hw Hn Hm Hl]. split.
  - now apply wf_add1.
  - now apply nodup_add1.
  - intros q. rewrite mem_add1, In_set_add, Hm; [tauto|].
    rewrite (wf_len _ _ Hw). now apply pbin_lt.
  - now apply NoDup_set_add.
Qed.

Lemma InvC_remove c L p : InvC cfg c L -> InvC cfg (ps_remove cfg p c) (remove_all p L).
Proof.
  intros [Hw Hn Hm Hl]. split.
  - now apply wf_remove.
  - now apply nodup_remove.
  - intros q. rewrite mem_remove, In_remove_all, Hm by auto. tauto.
  - now apply NoDup_remove_all.
Qed.

(** peers dropped by our own successful p2p.Disconnect calls *)
Definition drop (calls : list peer) (L : list peer) : list peer :=
  if c_cb cfg then fold_left (fun acc v => remove_all v acc) calls L else L.

Lemma drop_nil L : drop [] L = L.
Proof. unfold drop. now destruct (c_cb cfg). Qed.
Lemma drop_cons v calls L : drop (v :: calls) L = drop calls (drop [v] L).
Proof. unfold drop. now destruct (c_cb cfg). Qed.

Lemma InvC_p2p_disc st L v :
  InvC cfg (conn st) L -> InvC cfg (conn (p2p_disc cfg st v)) (drop [v] L).
Proof.
  intros H. unfold p2p_disc, drop. destruct (c_cb cfg); auto.
  cbn [fold_left disconnected conn]. now apply InvC_remove.
Qed.

(** the live set after an inbound attempt: dropped peers leave, the peer enters iff admitted *)
Definition after_inbound (p : peer) (r : resp) (calls : list peer) (L : list peer) : list peer :=
  match r with ROk => set_add p (drop calls L) | _ => drop calls L end.

Lemma InvC_on_connected st L p bfail :
  InvC cfg (conn st) L ->
  let '(st', r, calls) := on_connected cfg st p bfail in
  InvC cfg (conn st') (after_inbound p r calls L) /\ (r = ROk \/ r = RErrAnnounce).
Proof.
  intros H. unfold on_connected.
  destruct (c_disc cfg && bfail && announce_targets st p).
  - split; [|auto]. cbn [after_inbound]. now apply InvC_p2p_disc.
  - split; [|auto]. cbn [after_inbound conn]. rewrite drop_nil. now apply InvC_add.
Qed.

Lemma InvC_connected st L p force bfail victim :
  InvC cfg (conn st) L ->
  let '(st', r, calls) := connected cfg st p force bfail victim in
  InvC cfg (conn st') (after_inbound p r calls L).
Proof.
  intros H. unfold connected.
  destruct (oversaturated cfg st p && negb (is_protected st p)).
  - destruct (c_boot cfg).
    + destruct (evict_candidates cfg st p) as [|c0 cs] eqn:Ec.
      * cbn [after_inbound]. now rewrite drop_nil.
      * set (v := nth _ _ _).
        pose proof (InvC_p2p_disc st L v H) as H1.
        pose proof (InvC_on_connected (p2p_disc cfg st v) (drop [v] L) p bfail H1) as H2.
        destruct (on_connected cfg (p2p_disc cfg st v) p bfail) as [[st2 r] calls].
        destruct H2 as [H2 Hr]. unfold after_inbound in *. rewrite drop_cons.
        exact H2.
    + destruct force.
      * pose proof (InvC_on_connected st L p bfail H) as H2.
        destruct (on_connected cfg st p bfail) as [[st2 r] calls]. tauto.
      * cbn [after_inbound]. now rewrite drop_nil.
  - pose proof (InvC_on_connected st L p bfail H) as H2.
    destruct (on_connected cfg st p bfail) as [[st2 r] calls]. tauto.
Qed.

Lemma live_step_connected L p f b v r calls :
  live_step (c_cb cfg) L (EConnected p f b v, r, calls) = after_inbound p r calls L.
Proof.
  unfold live_step, after_inbound, drop. destruct r; reflexivity.
Qed.

Lemma drop_unfold calls L :
  (if c_cb cfg then fold_left (fun acc v => remove_all v acc) calls L else L) = drop calls L.
Proof. reflexivity. Qed.

Lemma InvC_step st L e :
  InvC cfg (conn st) L ->
  let '(st', r, calls) := step cfg st e in
  InvC cfg (conn st') (live_step (c_cb cfg) L (e, r, calls)).
Proof.
  intros H. destruct e as [p f b v|p boot|p|p f1 f2|p|ps|ps|p pub|nb']; cbn [step].
  - pose proof (InvC_connected st L p f b v H) as H1.
    destruct (connected cfg st p f b v) as [[st' r] calls].
    now rewrite live_step_connected.
  - unfold outbound. destruct boot; unfold live_step; rewrite drop_unfold, drop_nil; cbn [conn]; auto.
    now apply InvC_add.
  - unfold live_step; rewrite drop_unfold, drop_nil; cbn [disconnected conn].
    now apply InvC_remove.
  - unfold disconnect_force. destruct f1.
    + unfold live_step; rewrite drop_unfold, drop_nil. auto.
    + pose proof (InvC_p2p_disc st L p H) as H1. destruct f2.
      * unfold live_step; rewrite drop_unfold. exact H1.
      * unfold live_step; rewrite drop_unfold. cbn [conn]. now apply InvC_remove.
  - unfold live_step; rewrite drop_unfold, drop_nil. auto.
  - unfold live_step; rewrite drop_unfold, drop_nil. auto.
  - unfold live_step; rewrite drop_unfold, drop_nil. auto.
  - unfold reach. unfold live_step; rewrite drop_unfold, drop_nil; auto.
  - unfold live_step; rewrite drop_unfold, drop_nil. auto.
Qed.

Lemma InvC_run h : forall st L,
  InvC cfg (conn st) L ->
  InvC cfg (conn (snd (run cfg st h))) (fold_left (live_step (c_cb cfg)) (fst (run cfg st h)) L).
Proof.
  induction h as [|e t IH]; intros st L H; cbn [run]; auto.
  pose proof (InvC_step st L e H) as H1.
  destruct (step cfg st e) as [[st1 r] calls].
  specialize (IH st1 _ H1).
  destruct (run cfg st1 t) as [log st2]. cbn [fst snd fold_left] in *. exact IH.
Qed.

End Steps.

(** ---------- exactness of the connected report ---------- *)
Lemma connected_exact (cfg : config) (h : list event) :
  (1 <= c_nb cfg)%nat ->
  let log := fst (run cfg (init cfg) h) in
  let st := snd (run cfg (init cfg) h) in
  NoDup (reported (conn st)) /\
  forall p, In p (reported (conn st)) <-> In p (live (c_cb cfg) log).
Proof.
  intros Hnb log st.
  pose proof (InvC_run cfg Hnb h (init cfg) [] (InvC_init cfg)) as [Hw Hn Hm Hl].
  fold st in Hw, Hn, Hm. fold log in Hm, Hl. split.
  - eapply NoDup_reported; eauto.
  - intros p. rewrite (In_reported_mem cfg) by auto. apply Hm.
Qed.

(** ---------- outbound connections to boot nodes are never counted ---------- *)
Definition adds (x : entry) (p : peer) : Prop :=
  match x with
  | (EConnected q _ _ _, ROk, _) => q = p
  | (EOutbound q false, _, _) => q = p
  | _ => False
  end.

Lemma In_fold_remove_all q calls L :
  In q (fold_left (fun acc v => remove_all v acc) calls L) -> In q L.
Proof.
  revert L; induction calls as [|v t IH]; intros L H; cbn [fold_left] in H; auto.
  apply IH in H. apply In_remove_all in H. tauto.
Qed.

Lemma live_step_sub cb L x q : In q (live_step cb L x) -> In q L \/ adds x q.
Proof.
  destruct x as [[e r] calls]. unfold live_step.
  set (L1 := if cb then _ else L).
  assert (H1 : In q L1 -> In q L).
  { unfold L1. destruct cb; auto. apply In_fold_remove_all. }
  destruct e as [p f b v|p boot|p|p f1 f2|p|ps|ps|p pub|nb']; cbn [adds].
  - destruct r; auto. rewrite In_set_add. intros [H|H]; auto.
  - destruct boot; [auto|]. destruct r; rewrite ?In_set_add; try (intros [H|H]; auto); auto.
  - rewrite In_remove_all. tauto.
  - destruct r; rewrite ?In_remove_all; tauto.
  - auto.
  - auto.
  - auto.
  - auto.
  - auto.
Qed.

Lemma live_fold_sub cb log : forall L q,
  In q (fold_left (live_step cb) log L) -> In q L \/ exists x, In x log /\ adds x q.
Proof.
  induction log as [|x t IH]; intros L q H; cbn [fold_left] in H; auto.
  apply IH in H. destruct H as [H|[y [Hy Ha]]].
  - apply live_step_sub in H. destruct H as [H|H]; auto. right. exists x. split; auto. now left.
  - right. exists y. split; auto. now right.
Qed.

Lemma run_events cfg h : forall st, map (fun x : entry => fst (fst x)) (fst (run cfg st h)) = h.
Proof.
  induction h as [|e t IH]; intros st; cbn [run]; auto.
  destruct (step cfg st e) as [[st1 r] calls]. specialize (IH st1).
  destruct (run cfg st1 t) as [log st2]. cbn [fst map] in *. now rewrite IH.
Qed.

(** an event that can make [p] counted: an inbound connection of [p], or an outbound one not to a boot node *)
Definition may_count (p : peer) (e : event) : bool :=
  match e with
  | EConnected q _ _ _ => peer_eqb q p
  | EOutbound q boot => peer_eqb q p && negb boot
  | _ => false
  end.

Lemma bootnode_never_counted (cfg : config) (h : list event) (p : peer) :
  (1 <= c_nb cfg)%nat ->
  forallb (fun e => negb (may_count p e)) h = true ->
  ~ In p (reported (conn (snd (run cfg (init cfg) h)))).
Proof.
  intros Hnb Hh Hin.
  apply (connected_exact cfg h Hnb) in Hin. unfold live in Hin.
  apply live_fold_sub in Hin. destruct Hin as [[]|[x [Hx Ha]]].
  assert (He : In (fst (fst x)) h).
  { rewrite <- (run_events cfg h (init cfg)). now apply (in_map (fun x : entry => fst (fst x))). }
  rewrite forallb_forall in Hh. specialize (Hh _ He).
  destruct x as [[e r] calls]. cbn [fst] in *.
  destruct e as [q f b v|q boot|q|q f1 f2|q|ps|ps|q pub|nb']; cbn [adds may_count] in *; try contradiction.
  - destruct r; try contradiction. subst. now rewrite peer_eqb_refl in Hh.
  - destruct boot; try contradiction. subst. now rewrite peer_eqb_refl in Hh.
Qed.

(** ---------- every connected peer is also known ---------- *)
Record InvK (cfg : config) (st : state) : Prop := {
  ik_len : length (known st) = c_nb cfg;
  ik_sub : forall q, ps_mem cfg q (conn st) -> ps_mem cfg q (known st)
}.

Definition wf_entry (L : list peer) (e : event) : Prop :=
  match e with EOutbound p true => ~ In p L | _ => True end.

Section Known.
Variable cfg : config.
Hypothesis Hnb : (1 <= c_nb cfg)%nat.

Lemma InvK_init : InvK cfg (init cfg).
Proof.
  split; cbn [init known conn].
  - apply repeat_length.
  - intros q H. now apply mem_new in H.
Qed.

Lemma InvK_disconnected st v : InvK cfg st -> InvK cfg (disconnected cfg st v).
Proof.
  intros [Hl Hs]. split; cbn [disconnected known conn]; auto.
  intros q H. apply Hs. eapply mem_remove_sub; eauto.
Qed.
Lemma InvK_p2p_disc st v : InvK cfg st -> InvK cfg (p2p_disc cfg st v).
Proof. intros H. unfold p2p_disc. destruct (c_cb cfg); auto. now apply InvK_disconnected. Qed.

Lemma InvK_add_both st L p pr pu d t :
  InvC cfg (conn st) L -> InvK cfg st ->
  InvK cfg (mkState (ps_add1 cfg p (conn st)) (ps_add1 cfg p (known st)) pr pu d t).
Proof.
  intros HC [Hl Hs]. split; cbn [known conn].
  - now rewrite len_add1.
  - intros q H. apply mem_add1 in H.
    + apply mem_add1; [rewrite Hl; now apply pbin_lt|]. destruct H; auto.
    + rewrite (wf_len _ _ (ic_wf _ _ _ HC)). now apply pbin_lt.
Qed.

Lemma InvK_on_connected st L p bfail :
  InvC cfg (conn st) L -> InvK cfg st -> InvK cfg (fst (fst (on_connected cfg st p bfail))).
Proof.
  intros HC HK. unfold on_connected. destruct (c_disc cfg && bfail && announce_targets st p); cbn [fst].
  - now apply InvK_p2p_disc.
  - eapply InvK_add_both; eauto.
Qed.

Lemma InvK_step st L e :
  InvC cfg (conn st) L -> InvK cfg st -> wf_entry L e -> InvK cfg (fst (fst (step cfg st e))).
Proof.
  intros HC HK Hwf. destruct e as [p f b v|p boot|p|p f1 f2|p|ps|ps|p pub|nb']; cbn [step].
  - unfold connected. destruct (oversaturated cfg st p && negb (is_protected st p)).
    + destruct (c_boot cfg).
      * destruct (evict_candidates cfg st p) as [|c0 cs]; cbn [fst]; auto.
        set (v0 := nth _ _ _).
        pose proof (InvK_on_connected (p2p_disc cfg st v0) _ p b (InvC_p2p_disc cfg st L v0 HC) (InvK_p2p_disc st v0 HK)) as H2.
        destruct (on_connected cfg (p2p_disc cfg st v0) p b) as [[st2 r] calls]. exact H2.
      * destruct f; cbn [fst]; auto. eapply InvK_on_connected; eauto.
    + eapply InvK_on_connected; eauto.
  - unfold outbound. destruct boot; cbn [fst].
    + destruct HK as [Hl Hs]. split; cbn [known conn].
      * now rewrite len_remove.
      * intros q H. apply mem_remove_other; auto.
        intros E. subst q. apply Hwf. now apply (ic_mem _ _ _ HC).
    + eapply InvK_add_both; eauto.
  - cbn [fst]. now apply InvK_disconnected.
  - unfold disconnect_force. destruct f1; cbn [fst]; auto.
    pose proof (InvK_p2p_disc st p HK) as H1.
    pose proof (InvC_p2p_disc cfg st L p HC) as HC1.
    destruct f2; cbn [fst]; auto.
    destruct H1 as [Hl Hs]. split; cbn [known conn].
    + now rewrite len_remove.
    + intros q H. apply (mem_remove _ _ _ _ (ic_nd _ _ _ HC1)) in H. destruct H as [Hne H].
      apply mem_remove_other; auto.
  - cbn [fst]. auto.
  - cbn [fst]. destruct HK as [Hl Hs]. split; cbn [known conn].
    + now rewrite len_add.
    + intros q H. apply mem_add_keep; auto.
  - cbn [fst]. destruct HK as [Hl Hs]. split; auto.
  - cbn [fst]. unfold reach. destruct HK as [Hl Hs]. split; auto.
  - cbn [fst]. destruct HK as [Hl Hs]. split; auto.
Qed.

Lemma wf_log_head cb L e r calls t :
  wf_log cb L ((e, r, calls) :: t) = true -> wf_entry L e /\ wf_log cb (live_step cb L (e, r, calls)) t = true.
Proof.
  cbn [wf_log]. rewrite andb_true_iff. intros [H1 H2]. split; auto.
  destruct e as [p f b v|p boot|p|p f1 f2|p|ps|ps|p pub|nb']; cbn [wf_entry]; auto.
  destruct boot; auto. apply memb_false. now destruct (memb p L).
Qed.

Lemma InvK_run h : forall st L,
  InvC cfg (conn st) L -> InvK cfg st ->
  wf_log (c_cb cfg) L (fst (run cfg st h)) = true ->
  InvK cfg (snd (run cfg st h)).
Proof.
  induction h as [|e t IH]; intros st L HC HK Hwf; cbn [run] in *; auto.
  pose proof (InvC_step cfg Hnb st L e HC) as HC1.
  pose proof (InvK_step st L e HC HK) as HK1.
  destruct (step cfg st e) as [[st1 r] calls]. cbn [fst] in HK1.
  specialize (IH st1 (live_step (c_cb cfg) L (e, r, calls)) HC1).
  destruct (run cfg st1 t) as [log st2]. cbn [fst snd] in *.
  apply wf_log_head in Hwf. destruct Hwf as [Hw1 Hw2]. auto.
Qed.

End Known.

Lemma connected_subset_known (cfg : config) (h : list event) :
  (1 <= c_nb cfg)%nat ->
  wf_log (c_cb cfg) [] (fst (run cfg (init cfg) h)) = true ->
  forall p, In p (reported (conn (snd (run cfg (init cfg) h)))) ->
            In p (reported (known (snd (run cfg (init cfg) h)))).
Proof.
  intros Hnb Hwf p Hp.
  pose proof (InvC_run cfg Hnb h (init cfg) [] (InvC_init cfg)) as HC.
  pose proof (InvK_run cfg Hnb h (init cfg) [] (InvC_init cfg) (InvK_init cfg) Hwf) as HK.
  apply (mem_In_reported cfg). apply (ik_sub _ _ HK).
  apply (In_reported_mem cfg); auto. apply (ic_wf _ _ _ HC).
Qed.

(** ---------- admission: the saturation test against the live set ---------- *)
Lemma filter_map_length {A B} (g : B -> bool) (f : A -> B) (l : list A) :
  length (filter g (map f l)) = length (filter (fun x => g (f x)) l).
Proof.
  induction l as [|x t IH]; cbn; auto. destruct (g (f x)); cbn; now rewrite IH.
Qed.

Lemma Permutation_filter_len {A} (f : A -> bool) (l l' : list A) :
  Permutation l l' -> length (filter f l) = length (filter f l').
Proof.
  induction 1 as [|x l l' HP IH|x y l|l1 l2 l3 H1 IH1 H2 IH2]; cbn; auto.
  - destruct (f x); cbn; now rewrite IH.
  - destruct (f x), (f y); cbn; auto.
  - congruence.
Qed.

Lemma In_combine_seq (s : pslice) : forall a b l,
  In (b, l) (combine (seq a (length s)) s) -> (a <= b)%nat /\ nth (b - a) s [] = l.
Proof.
  induction s as [|x t IH]; intros a b l H; cbn in H; [destruct H|].
  destruct H as [H|H].
  - inversion H; subst. split; [lia|]. now rewrite Nat.sub_diag.
  - apply IH in H. destruct H as [H1 H2]. split; [lia|].
    replace (b - a)%nat with (S (b - S a)) by lia. exact H2.
Qed.

Lemma each_snd cfg (c : pslice) x :
  wf_ps cfg c -> In x (each c) -> snd x = N.of_nat (pbin cfg (fst x)).
Proof.
  intros [Hl Hb] H. unfold each in H. apply in_flat_map in H. destruct H as [[b l] [Hbl Hx]].
  apply in_rev in Hbl. unfold binned in Hbl. apply In_combine_seq in Hbl. destruct Hbl as [_ Hn].
  unfold tag in Hx. cbn [fst snd] in Hx. apply in_map_iff in Hx. destruct Hx as [q [Hq1 Hq2]].
  subst x. cbn [fst snd]. rewrite Nat.sub_0_r in Hn. subst l. now rewrite (Hb _ _ Hq2).
Qed.

Lemma count_bin_reported cfg st (b : nat) :
  wf_ps cfg (conn st) ->
  count_bin cfg (unreach st) (N.of_nat b) (conn st) =
  N.of_nat (length (filter (in_bin_counted cfg st b) (reported (conn st)))).
Proof.
  intros Hw. unfold count_bin, reported. rewrite filter_map_length. do 2 f_equal.
  apply filter_ext_in. intros x Hx. unfold counted, in_bin_counted.
  rewrite (each_snd cfg _ x Hw Hx).
  replace (N.of_nat (pbin cfg (fst x)) =? N.of_nat b) with (Nat.eqb (pbin cfg (fst x)) b).
  - destruct (unreach st (fst x)), (Nat.eqb (pbin cfg (fst x)) b), (is_static cfg (fst x)); reflexivity.
  - destruct (Nat.eqb_spec (pbin cfg (fst x)) b) as [E|E]; symmetry.
    + apply N.eqb_eq. now rewrite E.
    + apply N.eqb_neq. lia.
Qed.

Lemma oversaturated_is_spec cfg st L p :
  InvC cfg (conn st) L ->
  oversaturated cfg st p = oversaturated_spec cfg st L (prox cfg p).
Proof.
  intros [Hw Hn Hm Hl]. unfold oversaturated, oversaturated_spec, bin_saturated.
  rewrite (N.leb_antisym (N.of_nat (prox cfg p))).
  destruct (N.of_nat (prox cfg p) <? potential_depth cfg (thr st) (unreach st) (known st)); cbn [negb snd andb]; auto.
  rewrite count_bin_reported by auto. do 2 f_equal.
  apply Permutation_filter_len. apply NoDup_Permutation; auto.
  - eapply NoDup_reported; eauto.
  - intros q. rewrite (In_reported_mem cfg) by auto. apply Hm.
Qed.

(** return value of an inbound attempt on a node that is not in boot-node mode *)
Lemma connected_resp_nonboot cfg st p force bfail victim :
  c_boot cfg = false ->
  let r := snd (fst (connected cfg st p force bfail victim)) in
  (r = RErrOversaturated <-> oversaturated cfg st p && negb (is_protected st p) && negb force = true) /\
  (r = ROk \/ r = RErrOversaturated \/ r = RErrAnnounce) /\
  (r = RErrAnnounce <-> (oversaturated cfg st p && negb (is_protected st p) && negb force = false) /\
                        c_disc cfg && bfail && announce_targets st p = true).
Proof.
  intros Hb. unfold connected, on_connected. rewrite Hb.
  destruct (oversaturated cfg st p && negb (is_protected st p)), force,
           (c_disc cfg && bfail && announce_targets st p);
    cbn [fst snd andb negb]; intuition (try discriminate; auto).
Qed.

Lemma pick_spec cfg st L p :
  InvC cfg (conn st) L ->
  pick cfg st p = c_boot cfg || is_protected st p || negb (oversaturated_spec cfg st L (prox cfg p)).
Proof.
  intros H. unfold pick. rewrite <- (oversaturated_is_spec cfg st L p H).
  destruct (c_boot cfg), (is_protected st p); reflexivity.
Qed.

(** boot-node mode: one counted peer of the bin is dropped to make room *)
Lemma connected_boot cfg st p force bfail victim :
  c_boot cfg = true -> oversaturated cfg st p = true -> is_protected st p = false ->
  let '(st', r, calls) := connected cfg st p force bfail victim in
  (evict_candidates cfg st p = [] /\ r = RErrEmptyBin /\ st' = st /\ calls = []) \/
  (exists v rest, calls = v :: rest /\ In v (ps_bin (conn st) (prox cfg p)) /\ is_static cfg v = false /\
                  (r = ROk \/ r = RErrAnnounce)).
Proof.
  intros Hb Ho Hp. unfold connected. rewrite Hb, Ho, Hp. cbn [negb andb].
  destruct (evict_candidates cfg st p) as [|c0 cs] eqn:Ec; [left; auto|].
  set (v := nth _ _ _).
  assert (Hv : In v (c0 :: cs)).
  { unfold v. apply nth_In. apply Nat.mod_upper_bound. cbn. lia. }
  rewrite <- Ec in Hv. unfold evict_candidates in Hv. apply filter_In in Hv. destruct Hv as [Hv1 Hv2].
  unfold on_connected. destruct (c_disc cfg && bfail && announce_targets (p2p_disc cfg st v) p); right.
  - exists v, [p]. repeat split; auto. now destruct (is_static cfg v).
  - exists v, []. repeat split; auto. now destruct (is_static cfg v).
Qed.

(** the known slice keeps its number of bins *)
Lemma known_p2p_disc cfg st v : known (p2p_disc cfg st v) = known st.
Proof. unfold p2p_disc. now destruct (c_cb cfg). Qed.

Lemma on_connected_ok_known cfg st p bfail :
  let '(st', r, calls) := on_connected cfg st p bfail in
  (r = ROk -> known st' = ps_add1 cfg p (known st)) /\ length (known st') = length (known st).
Proof.
  unfold on_connected. destruct (c_disc cfg && bfail && announce_targets st p).
  - split; [discriminate|]. now rewrite known_p2p_disc.
  - cbn [known]. split; auto. apply len_add1.
Qed.

Lemma connected_known cfg st p force bfail victim :
  let '(st', r, calls) := connected cfg st p force bfail victim in
  (r = ROk -> known st' = ps_add1 cfg p (known st)) /\ length (known st') = length (known st).
Proof.
  unfold connected. destruct (oversaturated cfg st p && negb (is_protected st p)).
  - destruct (c_boot cfg).
    + destruct (evict_candidates cfg st p) as [|c0 cs]; [split; [discriminate|auto]|].
      set (v := nth _ _ _).
      pose proof (on_connected_ok_known cfg (p2p_disc cfg st v) p bfail) as H.
      destruct (on_connected cfg (p2p_disc cfg st v) p bfail) as [[st2 r] calls].
      now rewrite known_p2p_disc in H.
    + destruct force; [apply on_connected_ok_known | split; [discriminate|auto]].
  - apply on_connected_ok_known.
Qed.

Lemma connected_ok_known cfg st p force bfail victim :
  let '(st', r, calls) := connected cfg st p force bfail victim in
  r = ROk -> known st' = ps_add1 cfg p (known st).
Proof.
  pose proof (connected_known cfg st p force bfail victim) as H.
  destruct (connected cfg st p force bfail victim) as [[st' r] calls]. tauto.
Qed.

Lemma known_len_step cfg st e : length (known (fst (fst (step cfg st e)))) = length (known st).
Proof.
  destruct e as [p f b v|p boot|p|p f1 f2|p|ps|ps|p pub|nb']; cbn [step].
  - pose proof (connected_known cfg st p f b v) as H.
    destruct (connected cfg st p f b v) as [[st' r] calls]. cbn [fst]. tauto.
  - unfold outbound. destruct boot; cbn [fst known]; [apply len_remove | apply len_add1].
  - reflexivity.
  - unfold disconnect_force. destruct f1; cbn [fst]; auto.
    destruct f2; cbn [fst known]; rewrite ?len_remove; now rewrite known_p2p_disc.
  - reflexivity.
  - cbn [fst known]. apply len_add.
  - reflexivity.
  - reflexivity.
  - reflexivity.
Qed.

Lemma known_len_run cfg h : forall st, length (known (snd (run cfg st h))) = length (known st).
Proof.
  induction h as [|e t IH]; intros st; cbn [run]; auto.
  pose proof (known_len_step cfg st e) as H1.
  destruct (step cfg st e) as [[st1 r] calls]. cbn [fst] in H1. specialize (IH st1).
  destruct (run cfg st1 t) as [log st2]. cbn [snd] in *. congruence.
Qed.

(** ---------- history-level statements ---------- *)
Section Reachable.
Variable cfg : config.
Hypothesis Hnb : (1 <= c_nb cfg)%nat.
Variable h : list event.
Let log := fst (run cfg (init cfg) h).
Let st := snd (run cfg (init cfg) h).
Let L := live (c_cb cfg) log.

Lemma reach_InvC : InvC cfg (conn st) L.
Proof. exact (InvC_run cfg Hnb h (init cfg) [] (InvC_init cfg)). Qed.

Lemma admission p bfail victim :
  c_boot cfg = false -> is_protected st p = false ->
  snd (fst (step cfg st (EConnected p false bfail victim))) = ROk ->
  oversaturated_spec cfg st L (prox cfg p) = false.
Proof.
  intros Hb Hp Hr. cbn [step] in Hr.
  destruct (connected_resp_nonboot cfg st p false bfail victim Hb) as [H1 _].
  rewrite <- (oversaturated_is_spec cfg st L p reach_InvC).
  destruct (oversaturated cfg st p) eqn:E; auto.
  rewrite Hp in H1. cbn [negb andb] in H1. destruct H1 as [_ H1]. rewrite H1 in Hr by auto. discriminate.
Qed.

Lemma inbound_response p force bfail victim :
  c_boot cfg = false ->
  let r := snd (fst (step cfg st (EConnected p force bfail victim))) in
  (r = RErrOversaturated <->
     oversaturated_spec cfg st L (prox cfg p) && negb (is_protected st p) && negb force = true) /\
  (r = ROk \/ r = RErrOversaturated \/ r = RErrAnnounce) /\
  (r = RErrAnnounce -> c_disc cfg = true /\ bfail = true).
Proof.
  intros Hb r. unfold r. cbn [step].
  destruct (connected_resp_nonboot cfg st p force bfail victim Hb) as [H1 [H2 H3]].
  rewrite <- (oversaturated_is_spec cfg st L p reach_InvC). split; [exact H1|]. split; [exact H2|].
  intros E. apply H3 in E. destruct E as [_ E].
  destruct (c_disc cfg), bfail; cbn [andb] in E; try discriminate; auto.
Qed.

Lemma admitted_is_reported p force bfail victim :
  let '(st', r, calls) := step cfg st (EConnected p force bfail victim) in
  r = ROk -> In p (reported (conn st')) /\ In p (reported (known st')).
Proof.
  cbn [step].
  pose proof (InvC_connected cfg Hnb st L p force bfail victim reach_InvC) as H1.
  pose proof (connected_ok_known cfg st p force bfail victim) as H2.
  destruct (connected cfg st p force bfail victim) as [[st' r] calls].
  intros Hr. subst r. cbn [after_inbound] in H1. split.
  - apply (mem_In_reported cfg). apply (ic_mem _ _ _ H1). apply In_set_add. now left.
  - apply (mem_In_reported cfg). rewrite (H2 eq_refl). apply mem_add1; auto.
    unfold st. rewrite known_len_run. cbn [init known]. unfold ps_new. rewrite repeat_length. now apply pbin_lt.
Qed.

Lemma pick_response p :
  snd (fst (step cfg st (EPick p))) =
  RBool (c_boot cfg || is_protected st p || negb (oversaturated_spec cfg st L (prox cfg p))).
Proof. cbn [step fst snd]. now rewrite (pick_spec cfg st L p reach_InvC). Qed.

Lemma bootnode_eviction p force bfail victim :
  c_boot cfg = true -> is_protected st p = false ->
  oversaturated_spec cfg st L (prox cfg p) = true ->
  let '(st', r, calls) := step cfg st (EConnected p force bfail victim) in
  (r = RErrEmptyBin /\ st' = st /\ calls = []) \/
  (exists v rest, calls = v :: rest /\ In v (reported (conn st)) /\ pbin cfg v = prox cfg p /\
                  is_static cfg v = false /\ (r = ROk \/ r = RErrAnnounce)).
Proof.
  intros Hb Hp Ho. rewrite <- (oversaturated_is_spec cfg st L p reach_InvC) in Ho.
  cbn [step]. pose proof (connected_boot cfg st p force bfail victim Hb Ho Hp) as H.
  destruct (connected cfg st p force bfail victim) as [[st' r] calls].
  destruct H as [[_ H]|[v [rest [H1 [H2 [H3 H4]]]]]]; [left; auto|right].
  exists v, rest. repeat split; auto.
  - apply In_reported. now exists (prox cfg p).
  - apply (wf_bins _ _ (ic_wf _ _ _ reach_InvC) _ _ H2).
Qed.

End Reachable.
