(** C24 — lemmas about the pslice operations and the per-event invariants. *)
From Coq Require Import List NArith ZArith Bool Arith Lia Permutation.
From Coq Require Import ZifyBool ZifyNat ZifyN.
Import ListNotations.
Require Import Aurora.C24.Model.
Local Open Scope N_scope.

(** ---------- peers ---------- *)
Lemma peer_eqb_eq (a b : peer) : peer_eqb a b = true <-> a = b.
Proof.
  destruct a as [x i], b as [y j]; unfold peer_eqb; cbn [fst snd].
  rewrite andb_true_iff, Nat.eqb_eq, N.eqb_eq. split.
  - intros [H1 H2]; now subst.
  - intros H; inversion H; auto.
Qed.
Lemma peer_eqb_refl a : peer_eqb a a = true.
Proof. now apply peer_eqb_eq. Qed.
Lemma peer_eqb_neq (a b : peer) : peer_eqb a b = false <-> a <> b.
Proof.
  split.
  - intros H E. apply peer_eqb_eq in E. congruence.
  - intros H. destruct (peer_eqb a b) eqn:E; auto. apply peer_eqb_eq in E. contradiction.
Qed.
Lemma peer_eq_dec (a b : peer) : {a = b} + {a <> b}.
Proof.
  destruct (peer_eqb a b) eqn:E; [left; now apply peer_eqb_eq | right; now apply peer_eqb_neq].
Qed.

Lemma memb_In p l : memb p l = true <-> In p l.
Proof.
  unfold memb. rewrite existsb_exists. split.
  - intros [x [Hx He]]. apply peer_eqb_eq in He. now subst.
  - intros H. exists p. split; auto. apply peer_eqb_refl.
Qed.
Lemma memb_false p l : memb p l = false <-> ~ In p l.
Proof.
  split.
  - intros H Hin. apply memb_In in Hin. congruence.
  - intros H. destruct (memb p l) eqn:E; auto. apply memb_In in E. contradiction.
Qed.

(** ---------- remove_all / set_add ---------- *)
Lemma In_remove_all q p l : In q (remove_all p l) <-> q <> p /\ In q l.
Proof.
  induction l as [|x t IH]; cbn [remove_all].
  - cbn. tauto.
  - destruct (peer_eqb p x) eqn:E.
    + apply peer_eqb_eq in E. subst x. rewrite IH. cbn. split.
      * intros [H1 H2]; auto.
      * intros [H1 [H2|H2]]; [congruence | auto].
    + apply peer_eqb_neq in E. cbn. rewrite IH. split.
      * intros [H|[H1 H2]]; [subst; split; auto | auto].
      * intros [H1 [H2|H2]]; auto.
Qed.
Lemma NoDup_remove_all p l : NoDup l -> NoDup (remove_all p l).
Proof.
  induction 1 as [|x t Hx Ht IH]; cbn [remove_all]; [constructor|].
  destruct (peer_eqb p x); auto. constructor; auto.
  rewrite In_remove_all. tauto.
Qed.
Lemma In_set_add q p l : In q (set_add p l) <-> q = p \/ In q l.
Proof.
  unfold set_add. destruct (memb p l) eqn:E.
  - apply memb_In in E. split; [auto | intros [H|H]; subst; auto].
  - cbn. split; intros [H|H]; auto.
Qed.
Lemma NoDup_set_add p l : NoDup l -> NoDup (set_add p l).
Proof.
  intros H. unfold set_add. destruct (memb p l) eqn:E; auto.
  apply memb_false in E. now constructor.
Qed.

(** ---------- swap_remove ---------- *)
Lemma swap_remove_notin p l : ~ In p l -> swap_remove p l = l.
Proof.
  induction l as [|x t IH]; intros H; cbn [swap_remove]; auto.
  destruct (peer_eqb p x) eqn:E.
  - apply peer_eqb_eq in E. subst. exfalso. apply H. now left.
  - f_equal. apply IH. intros Hin. apply H. now right.
Qed.

Lemma last_removelast_perm (y : peer) (t : list peer) :
  t <> [] -> Permutation t (last t y :: removelast t).
Proof.
  intros H. rewrite (app_removelast_last y H) at 1.
  apply Permutation_sym, Permutation_cons_append.
Qed.

Lemma swap_remove_perm p l : In p l -> Permutation l (p :: swap_remove p l).
Proof.
  induction l as [|x t IH]; intros H; [destruct H|].
  cbn [swap_remove]. destruct (peer_eqb p x) eqn:E.
  - apply peer_eqb_eq in E. subst x. destruct t as [|y t']; [reflexivity|].
    constructor. apply last_removelast_perm. discriminate.
  - apply peer_eqb_neq in E. destruct H as [H|H]; [congruence|].
    specialize (IH H). rewrite perm_swap. now constructor.
Qed.

Lemma In_swap_remove_sub q p l : In q (swap_remove p l) -> In q l.
Proof.
  intros H. destruct (in_dec peer_eq_dec p l) as [Hp|Hp].
  - apply (Permutation_in _ (Permutation_sym (swap_remove_perm p l Hp))). now right.
  - now rewrite (swap_remove_notin _ _ Hp) in H.
Qed.
Lemma In_swap_remove_other q p l : q <> p -> In q l -> In q (swap_remove p l).
Proof.
  intros Hne H. destruct (in_dec peer_eq_dec p l) as [Hp|Hp].
  - apply (Permutation_in _ (swap_remove_perm p l Hp)) in H. destruct H; [congruence | auto].
  - now rewrite (swap_remove_notin _ _ Hp).
Qed.
Lemma NoDup_swap_remove p l : NoDup l -> NoDup (swap_remove p l).
Proof.
  intros H. destruct (in_dec peer_eq_dec p l) as [Hp|Hp].
  - apply (Permutation_NoDup (swap_remove_perm p l Hp)) in H. now inversion H.
  - now rewrite (swap_remove_notin _ _ Hp).
Qed.
Lemma swap_remove_gone p l : NoDup l -> ~ In p (swap_remove p l).
Proof.
  intros H. destruct (in_dec peer_eq_dec p l) as [Hp|Hp].
  - apply (Permutation_NoDup (swap_remove_perm p l Hp)) in H. now inversion H.
  - now rewrite (swap_remove_notin _ _ Hp).
Qed.

(** ---------- upd ---------- *)
Lemma upd_length b f s : length (upd b f s) = length s.
Proof.
  revert b; induction s as [|l t IH]; intros [|b]; cbn [upd length]; auto.
Qed.
Lemma nth_upd_same b f s : (b < length s)%nat -> nth b (upd b f s) [] = f (nth b s []).
Proof.
  revert b; induction s as [|l t IH]; intros [|b] H; cbn [upd nth length] in *; try lia; auto.
  apply IH. lia.
Qed.
Lemma nth_upd_other b b' f s : b <> b' -> nth b' (upd b f s) [] = nth b' s [].
Proof.
  revert b b'; induction s as [|l t IH]; intros [|b] [|b'] H; cbn [upd nth]; auto; try congruence.
Qed.

(** ---------- well-formed pslices ---------- *)
Definition ps_mem (cfg : config) (p : peer) (s : pslice) : Prop := In p (ps_bin s (pbin cfg p)).

Record wf_ps (cfg : config) (s : pslice) : Prop := {
  wf_len : length s = c_nb cfg;
  wf_bins : forall b q, In q (nth b s []) -> pbin cfg q = b
}.
Definition nodup_ps (s : pslice) : Prop := forall b, NoDup (nth b s []).

Lemma pbin_lt cfg p : (1 <= c_nb cfg)%nat -> (pbin cfg p < c_nb cfg)%nat.
Proof. unfold pbin. lia. Qed.

Lemma ps_exists_mem cfg p s : ps_exists cfg p s = true <-> ps_mem cfg p s.
Proof. unfold ps_exists, ps_mem. apply memb_In. Qed.

Lemma nth_repeat_nil (n b : nat) : nth b (repeat (@nil peer) n) [] = [].
Proof. revert b; induction n; intros [|b]; cbn; auto. Qed.

Lemma wf_new cfg : wf_ps cfg (ps_new (c_nb cfg)).
Proof.
  split.
  - unfold ps_new. apply repeat_length.
  - intros b q H. unfold ps_new in H. rewrite nth_repeat_nil in H. destruct H.
Qed.
Lemma nodup_new n : nodup_ps (ps_new n).
Proof. intros b. unfold ps_new. rewrite nth_repeat_nil. constructor. Qed.
Lemma mem_new cfg p : ~ ps_mem cfg p (ps_new (c_nb cfg)).
Proof. unfold ps_mem, ps_bin, ps_new. rewrite nth_repeat_nil. auto. Qed.

(** generic: updating the bin of [p] with a function on lists *)
Lemma wf_upd cfg p f s :
  wf_ps cfg s -> (forall l q, In q (f l) -> In q l \/ q = p) -> wf_ps cfg (upd (pbin cfg p) f s).
Proof.
  intros [Hl Hb] Hf. split.
  - now rewrite upd_length.
  - intros b q H. destruct (Nat.eq_dec (pbin cfg p) b) as [E|E].
    + subst b. destruct (Nat.lt_ge_cases (pbin cfg p) (length s)) as [Hlt|Hge].
      * rewrite nth_upd_same in H by auto. apply Hf in H. destruct H as [H|H]; [now apply Hb | now subst].
      * rewrite nth_overflow in H by (rewrite upd_length; lia). destruct H.
    + rewrite nth_upd_other in H by auto. now apply Hb.
Qed.

Lemma mem_upd_iff cfg p f s q :
  (pbin cfg p < length s)%nat ->
  (ps_mem cfg q (upd (pbin cfg p) f s) <->
   (if Nat.eq_dec (pbin cfg p) (pbin cfg q) then In q (f (ps_bin s (pbin cfg p))) else ps_mem cfg q s)).
Proof.
  intros Hlt. unfold ps_mem, ps_bin. destruct (Nat.eq_dec (pbin cfg p) (pbin cfg q)) as [E|E].
  - rewrite <- E. now rewrite nth_upd_same.
  - now rewrite nth_upd_other.
Qed.

(** add1 *)
Lemma len_add1 cfg p s : length (ps_add1 cfg p s) = length s.
Proof. unfold ps_add1. destruct (ps_exists cfg p s); auto. apply upd_length. Qed.

Lemma wf_add1 cfg p s : wf_ps cfg s -> wf_ps cfg (ps_add1 cfg p s).
Proof.
  intros H. unfold ps_add1. destruct (ps_exists cfg p s); auto.
  apply wf_upd; auto. intros l q Hq. apply in_app_or in Hq. destruct Hq as [Hq|[Hq|[]]]; auto.
Qed.

Lemma mem_add1 cfg p s q :
  (pbin cfg p < length s)%nat -> (ps_mem cfg q (ps_add1 cfg p s) <-> q = p \/ ps_mem cfg q s).
Proof.
  intros Hlt. unfold ps_add1. destruct (ps_exists cfg p s) eqn:E.
  - apply ps_exists_mem in E. split; [auto | intros [H|H]; subst; auto].
  - rewrite mem_upd_iff by auto. destruct (Nat.eq_dec (pbin cfg p) (pbin cfg q)) as [Eb|Eb].
    + rewrite in_app_iff. unfold ps_mem. rewrite <- Eb. cbn. split.
      * intros [H|[H|[]]]; auto.
      * intros [H|H]; auto.
    + split; auto. intros [H|H]; auto. subst. congruence.
Qed.

Lemma nodup_add1 cfg p s : nodup_ps s -> nodup_ps (ps_add1 cfg p s).
Proof.
  intros H. unfold ps_add1. destruct (ps_exists cfg p s) eqn:E; auto.
  intros b. destruct (Nat.eq_dec (pbin cfg p) b) as [Eb|Eb].
  - subst b. destruct (Nat.lt_ge_cases (pbin cfg p) (length s)) as [Hlt|Hge].
    + rewrite nth_upd_same by auto.
      assert (Hn : ~ In p (nth (pbin cfg p) s [])).
      { intros Hin. apply ps_exists_mem in Hin. congruence. }
      apply Permutation_NoDup with (l := p :: nth (pbin cfg p) s []).
      * apply Permutation_cons_append.
      * constructor; auto.
    + rewrite nth_overflow by (rewrite upd_length; lia). constructor.
  - rewrite nth_upd_other by auto. apply H.
Qed.

(** remove *)
Lemma len_remove cfg p s : length (ps_remove cfg p s) = length s.
Proof. apply upd_length. Qed.

Lemma wf_remove cfg p s : wf_ps cfg s -> wf_ps cfg (ps_remove cfg p s).
Proof.
  intros H. apply wf_upd; auto. intros l q Hq. left. eapply In_swap_remove_sub; eauto.
Qed.

Lemma nodup_remove cfg p s : nodup_ps s -> nodup_ps (ps_remove cfg p s).
Proof.
  intros H b. unfold ps_remove. destruct (Nat.eq_dec (pbin cfg p) b) as [Eb|Eb].
  - subst b. destruct (Nat.lt_ge_cases (pbin cfg p) (length s)) as [Hlt|Hge].
    + rewrite nth_upd_same by auto. apply NoDup_swap_remove, H.
    + rewrite nth_overflow by (rewrite upd_length; lia). constructor.
  - rewrite nth_upd_other by auto. apply H.
Qed.

Lemma mem_remove_sub cfg p s q : ps_mem cfg q (ps_remove cfg p s) -> ps_mem cfg q s.
Proof.
  unfold ps_remove. destruct (Nat.lt_ge_cases (pbin cfg p) (length s)) as [Hlt|Hge].
  - rewrite mem_upd_iff by auto. destruct (Nat.eq_dec _ _) as [E|E]; auto.
    intros H. apply In_swap_remove_sub in H. unfold ps_mem. now rewrite <- E.
  - unfold ps_mem, ps_bin. destruct (Nat.eq_dec (pbin cfg p) (pbin cfg q)) as [E|E].
    + rewrite <- E. rewrite nth_overflow by (rewrite upd_length; lia). intros [].
    + now rewrite nth_upd_other.
Qed.

Lemma mem_remove_other cfg p s q : q <> p -> ps_mem cfg q s -> ps_mem cfg q (ps_remove cfg p s).
Proof.
  intros Hne H. unfold ps_remove. destruct (Nat.lt_ge_cases (pbin cfg p) (length s)) as [Hlt|Hge].
  - rewrite mem_upd_iff by auto. destruct (Nat.eq_dec _ _) as [E|E]; auto.
    apply In_swap_remove_other; auto. unfold ps_mem in H. now rewrite E.
  - unfold ps_mem, ps_bin in *. destruct (Nat.eq_dec (pbin cfg p) (pbin cfg q)) as [E|E].
    + rewrite <- E in H. rewrite nth_overflow in H by lia. destruct H.
    + now rewrite nth_upd_other.
Qed.

Lemma mem_remove_gone cfg p s : nodup_ps s -> ~ ps_mem cfg p (ps_remove cfg p s).
Proof.
  intros Hn. unfold ps_remove, ps_mem, ps_bin.
  destruct (Nat.lt_ge_cases (pbin cfg p) (length s)) as [Hlt|Hge].
  - rewrite nth_upd_same by auto. apply swap_remove_gone, Hn.
  - rewrite nth_overflow by (rewrite upd_length; lia). auto.
Qed.

Lemma mem_remove cfg p s q :
  nodup_ps s -> (ps_mem cfg q (ps_remove cfg p s) <-> q <> p /\ ps_mem cfg q s).
Proof.
  intros Hn. split.
  - intros H. split; [|eapply mem_remove_sub; eauto].
    intros E. subst. eapply mem_remove_gone; eauto.
  - intros [H1 H2]. now apply mem_remove_other.
Qed.

(** batch add: only what the subset theorem needs *)
Lemma len_add_batch cfg ps s : length (ps_add_batch cfg ps s) = length s.
Proof.
  unfold ps_add_batch. generalize (filter (fun p => negb (ps_exists cfg p s)) ps) as l.
  intros l. revert s. induction l as [|x t IH]; intros s; cbn [fold_left]; auto.
  rewrite IH. apply upd_length.
Qed.

Lemma mem_add_batch_keep cfg ps s q : ps_mem cfg q s -> ps_mem cfg q (ps_add_batch cfg ps s).
Proof.
  unfold ps_add_batch. generalize (filter (fun p => negb (ps_exists cfg p s)) ps) as l.
  intros l. revert s. induction l as [|x t IH]; intros s H; cbn [fold_left]; auto.
  apply IH. destruct (Nat.lt_ge_cases (pbin cfg x) (length s)) as [Hlt|Hge].
  - rewrite mem_upd_iff by auto. destruct (Nat.eq_dec _ _) as [E|E]; auto.
    apply in_or_app. left. unfold ps_mem in H. now rewrite E.
  - unfold ps_mem, ps_bin in *. destruct (Nat.eq_dec (pbin cfg x) (pbin cfg q)) as [E|E].
    + rewrite <- E in H. rewrite nth_overflow in H by lia. destruct H.
    + now rewrite nth_upd_other.
Qed.

Lemma len_add cfg ps s : length (ps_add cfg ps s) = length s.
Proof.
  unfold ps_add. destruct ps as [|p [|p' t]]; try apply len_add_batch. apply len_add1.
Qed.
Lemma mem_add_keep cfg ps s q :
  (1 <= c_nb cfg)%nat -> length s = c_nb cfg -> ps_mem cfg q s -> ps_mem cfg q (ps_add cfg ps s).
Proof.
  intros Hnb Hl H. unfold ps_add. destruct ps as [|p [|p' t]]; try now apply mem_add_batch_keep.
  apply mem_add1; auto. rewrite Hl. now apply pbin_lt.
Qed.

(** ---------- what is reported: EachPeer order = bins from the deepest, each in slice order ---------- *)
Lemma map_snd_combine_seq (s : pslice) a : map snd (combine (seq a (length s)) s) = s.
Proof.
  revert a; induction s as [|l t IH]; intros a; cbn; auto. now rewrite IH.
Qed.

Lemma map_fst_tag bl : map fst (tag bl) = snd bl.
Proof.
  unfold tag. rewrite map_map. cbn. apply map_id.
Qed.

Lemma reported_concat s : reported s = concat (rev s).
Proof.
  unfold reported, each. rewrite flat_map_concat_map, concat_map, map_map.
  rewrite (map_ext _ snd) by apply map_fst_tag.
  rewrite map_rev. unfold binned. now rewrite map_snd_combine_seq.
Qed.

Lemma In_concat_nth (s : pslice) q : In q (concat s) <-> exists b, In q (nth b s []).
Proof.
  rewrite in_concat. split.
  - intros [l [Hl Hq]]. apply (In_nth _ _ []) in Hl. destruct Hl as [b [_ Hb]]. exists b. now rewrite Hb.
  - intros [b Hb]. destruct (Nat.lt_ge_cases b (length s)) as [Hlt|Hge].
    + exists (nth b s []). split; auto. now apply nth_In.
    + rewrite nth_overflow in Hb by auto. destruct Hb.
Qed.

Lemma In_reported s q : In q (reported s) <-> exists b, In q (nth b s []).
Proof.
  rewrite reported_concat, <- In_concat_nth, !in_concat. split.
  - intros [l [Hl Hq]]. exists l. split; auto. now apply in_rev.
  - intros [l [Hl Hq]]. exists l. split; auto. now apply in_rev in Hl.
Qed.

Lemma In_reported_mem cfg s q : wf_ps cfg s -> (In q (reported s) <-> ps_mem cfg q s).
Proof.
  intros [Hl Hb]. rewrite In_reported. unfold ps_mem, ps_bin. split.
  - intros [b H]. now rewrite (Hb _ _ H).
  - intros H. eauto.
Qed.
Lemma mem_In_reported cfg s q : ps_mem cfg q s -> In q (reported s).
Proof. intros H. apply In_reported. now exists (pbin cfg q). Qed.

Lemma concat_rev_perm (s : pslice) : Permutation (concat (rev s)) (concat s).
Proof.
  induction s as [|l t IH]; cbn; auto.
  rewrite concat_app. cbn. rewrite app_nil_r.
  rewrite Permutation_app_comm. now apply Permutation_app_head.
Qed.

Lemma NoDup_concat_bins cfg (a : nat) (s : pslice) :
  (forall i q, In q (nth i s []) -> pbin cfg q = (a + i)%nat) ->
  (forall i, NoDup (nth i s [])) -> NoDup (concat s).
Proof.
  revert a; induction s as [|l t IH]; intros a Hb Hn; cbn [concat]; [constructor|].
  assert (Hl : NoDup l) by apply (Hn 0%nat).
  assert (Ht : NoDup (concat t)).
  { apply (IH (S a)).
    - intros i q H. rewrite (Hb (S i) q H). lia.
    - intros i. apply (Hn (S i)). }
  clear IH. induction l as [|x l IHl]; cbn; auto.
  inversion Hl; subst. constructor.
  - rewrite in_app_iff. intros [H|H]; [contradiction|].
    apply In_concat_nth in H. destruct H as [i Hi].
    pose proof (Hb (S i) x Hi) as E1. pose proof (Hb 0%nat x (or_introl eq_refl)) as E2. lia.
  - apply IHl; auto.
    + intros i q H. destruct i; [apply (Hb 0%nat); now right | apply (Hb (S i)); auto].
    + intros i. destruct i; [auto | apply (Hn (S i))].
Qed.

Lemma NoDup_reported cfg s : wf_ps cfg s -> nodup_ps s -> NoDup (reported s).
Proof.
  intros [Hl Hb] Hn. rewrite reported_concat.
  apply (Permutation_NoDup (Permutation_sym (concat_rev_perm s))).
  apply (NoDup_concat_bins cfg 0); auto.
Qed.

(** ---------- invariant of the connected slice against the live set ---------- *)
Record InvC (cfg : config) (c : pslice) (L : list peer) : Prop := {
  ic_wf : wf_ps cfg c;
  ic_nd : nodup_ps c;
  ic_mem : forall q, ps_mem cfg q c <-> In q L;
  ic_ndl : NoDup L
}.

Section Steps.
Variable cfg : config.
Hypothesis Hnb : (1 <= c_nb cfg)%nat.

Lemma InvC_init : InvC cfg (conn (init cfg)) [].
Proof.
  split; cbn [conn init].
  - apply wf_new.
  - apply nodup_new.
  - intros q. split; [intros H; now apply mem_new in H | intros []].
  - constructor.
Qed.

Lemma InvC_add c L p : InvC cfg c L -> InvC cfg (ps_add1 cfg p c) (set_add p L).
Proof.
  intros [Hw Hn Hm Hl]. split.
  - now apply wf_add1.
  - now apply nodup_add1.
  - intros q. rewrite mem_add1, In_set_add, Hm; [tauto|].
    rewrite (wf_len _ _ Hw). now apply pbin_lt.
  - now apply NoDup_set_add.
Qed.

Lemma InvC_remove c L p : InvC cfg c L -> InvC cfg (ps_remove cfg p c) (remove_all p L).
Proof.
  intros [Hw Hn Hm Hl]. split.
  - now apply wf_remove.
  - now apply nodup_remove.
  - intros q. rewrite mem_remove, In_remove_all, Hm by auto. tauto.
  - now apply NoDup_remove_all.
Qed.

(** peers dropped by our own successful p2p.Disconnect calls *)
Definition drop (calls : list peer) (L : list peer) : list peer :=
  if c_cb cfg then fold_left (fun acc v => remove_all v acc) calls L else L.

Lemma drop_nil L : drop [] L = L.
Proof. unfold drop. now destruct (c_cb cfg). Qed.
Lemma drop_cons v calls L : drop (v :: calls) L = drop calls (drop [v] L).
Proof. unfold drop. now destruct (c_cb cfg). Qed.

Lemma InvC_p2p_disc st L v :
  InvC cfg (conn st) L -> InvC cfg (conn (p2p_disc cfg st v)) (drop [v] L).
Proof.
  intros H. unfold p2p_disc, drop. destruct (c_cb cfg); auto.
  cbn [fold_left disconnected conn]. now apply InvC_remove.
Qed.

(** the live set after an inbound attempt: dropped peers leave, the peer enters iff admitted *)
Definition after_inbound (p : peer) (r : resp) (calls : list peer) (L : list peer) : list peer :=
  match r with ROk => set_add p (drop calls L) | _ => drop calls L end.

Lemma InvC_on_connected st L p bfail :
  InvC cfg (conn st) L ->
  let '(st', r, calls) := on_connected cfg st p bfail in
  InvC cfg (conn st') (after_inbound p r calls L) /\ (r = ROk \/ r = RErrAnnounce).
Proof.
  intros H. unfold on_connected.
  destruct (c_disc cfg && bfail && announce_targets st p).
  - split; [|auto]. cbn [after_inbound]. now apply InvC_p2p_disc.
  - split; [|auto]. cbn [after_inbound conn]. rewrite drop_nil. now apply InvC_add.
Qed.

Lemma InvC_connected st L p force bfail victim :
  InvC cfg (conn st) L ->
  let '(st', r, calls) := connected cfg st p force bfail victim in
  InvC cfg (conn st') (after_inbound p r calls L).
Proof.
  intros H. unfold connected.
  destruct (oversaturated cfg st p && negb (is_protected st p)).
  - destruct (c_boot cfg).
    + destruct (evict_candidates cfg st p) as [|c0 cs] eqn:Ec.
      * cbn [after_inbound]. now rewrite drop_nil.
      * set (v := nth _ _ _).
        pose proof (InvC_p2p_disc st L v H) as H1.
        pose proof (InvC_on_connected (p2p_disc cfg st v) (drop [v] L) p bfail H1) as H2.
        destruct (on_connected cfg (p2p_disc cfg st v) p bfail) as [[st2 r] calls].
        destruct H2 as [H2 Hr]. unfold after_inbound in *. rewrite drop_cons.
        exact H2.
    + destruct force.
      * pose proof (InvC_on_connected st L p bfail H) as H2.
        destruct (on_connected cfg st p bfail) as [[st2 r] calls]. tauto.
      * cbn [after_inbound]. now rewrite drop_nil.
  - pose proof (InvC_on_connected st L p bfail H) as H2.
    destruct (on_connected cfg st p bfail) as [[st2 r] calls]. tauto.
Qed.

Lemma live_step_connected L p f b v r calls :
  live_step (c_cb cfg) L (EConnected p f b v, r, calls) = after_inbound p r calls L.
Proof.
  unfold live_step, after_inbound, drop. destruct r; reflexivity.
Qed.

Lemma drop_unfold calls L :
  (if c_cb cfg then fold_left (fun acc v => remove_all v acc) calls L else L) = drop calls L.
Proof. reflexivity. Qed.

Lemma InvC_step st L e :
  InvC cfg (conn st) L ->
  let '(st', r, calls) := step cfg st e in
  InvC cfg (conn st') (live_step (c_cb cfg) L (e, r, calls)).
Proof.
  intros H. destruct e as [p f b v|p boot|p|p f1 f2|p|ps|ps|p pub]; cbn [step].
  - pose proof (InvC_connected st L p f b v H) as H1.
    destruct (connected cfg st p f b v) as [[st' r] calls].
    now rewrite live_step_connected.
  - unfold outbound. destruct boot; unfold live_step; rewrite drop_unfold, drop_nil; cbn [conn]; auto.
    now apply InvC_add.
  - unfold live_step; rewrite drop_unfold, drop_nil; cbn [disconnected conn].
    now apply InvC_remove.
  - unfold disconnect_force. destruct f1.
    + unfold live_step; rewrite drop_unfold, drop_nil. auto.
    + pose proof (InvC_p2p_disc st L p H) as H1. destruct f2.
      * unfold live_step; rewrite drop_unfold. exact H1.
      * unfold live_step; rewrite drop_unfold. cbn [conn]. now apply InvC_remove.
  - unfold live_step; rewrite drop_unfold, drop_nil. auto.
  - unfold live_step; rewrite drop_unfold, drop_nil. auto.
  - unfold live_step; rewrite drop_unfold, drop_nil. auto.
  - unfold reach. destruct pub; unfold live_step; rewrite drop_unfold, drop_nil; auto.
Qed.

Lemma InvC_run h : forall st L,
  InvC cfg (conn st) L ->
  InvC cfg (conn (snd (run cfg st h))) (fold_left (live_step (c_cb cfg)) (fst (run cfg st h)) L).
Proof.
  induction h as [|e t IH]; intros st L H; cbn [run]; auto.
  pose proof (InvC_step st L e H) as H1.
  destruct (step cfg st e) as [[st1 r] calls].
  specialize (IH st1 _ H1).
  destruct (run cfg st1 t) as [log st2]. cbn [fst snd fold_left] in *. exact IH.
Qed.

End Steps.

(** ---------- exactness of the connected report ---------- *)
Lemma connected_exact (cfg : config) (h : list event) :
  (1 <= c_nb cfg)%nat ->
  let log := fst (run cfg (init cfg) h) in
  let st := snd (run cfg (init cfg) h) in
  NoDup (reported (conn st)) /\
  forall p, In p (reported (conn st)) <-> In p (live (c_cb cfg) log).
Proof.
  intros Hnb log st.
  pose proof (InvC_run cfg Hnb h (init cfg) [] (InvC_init cfg)) as [Hw Hn Hm Hl].
  fold st in Hw, Hn, Hm. fold log in Hm, Hl. split.
  - eapply NoDup_reported; eauto.
  - intros p. rewrite (In_reported_mem cfg) by auto. apply Hm.
Qed.
