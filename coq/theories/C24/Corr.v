(** C24 — correspondence: one case = one history driven synchronously against a
    fresh [kademlia.Kad] (stubs for p2p / discovery / addressbook), with what
    the implementation returned and reported after every call. [check_case]
    re-runs the history on the model and compares step by step. *)
From Coq Require Import List NArith ZArith Bool Arith.
Import ListNotations.
Require Import Aurora.Base.Corr Aurora.Consts.
Require Export Aurora.C24.Model.
Local Open Scope N_scope.

(** Compact case syntax: a peer is named by its index [id] in the universe of the
    history; [univ] gives, per index, what boson.Proximity(base, addr) returned. *)
Definition peer_of (univ : list N) (i : N) : peer := (N.to_nat (nth (N.to_nat i) univ 0), i).
Definition peers_of (univ : list N) (l : list N) : list peer := map (peer_of univ) l.

Inductive cev :=
| KConn (p : N) (force bfail : bool) (victim : N)
| KOut (p : N) (boot : bool)
| KDisc (p : N)
| KForce (p : N) (p2pfail abfail : bool)
| KPick (p : N)
| KAdd (ps : list N)
| KProt (ps : list N)
| KReach (p : N) (pub : bool)
| KRs (ps : list N)
| KNew (binmax : N).            (* Reachable(p, Public) for each p in turn; observed after the last *)

Definition events_of (univ : list N) (e : cev) : list event :=
  match e with
  | KConn p f b v => [EConnected (peer_of univ p) f b (N.to_nat v)]
  | KOut p b => [EOutbound (peer_of univ p) b]
  | KDisc p => [EDisconnected (peer_of univ p)]
  | KForce p a b => [EDisconnectForce (peer_of univ p) a b]
  | KPick p => [EPick (peer_of univ p)]
  | KAdd ps => [EAddPeers (peers_of univ ps)]
  | KProt ps => [EProtect (peers_of univ ps)]
  | KReach p b => [EReach (peer_of univ p) b]
  | KRs ps => map (fun p => EReach (peer_of univ p) true) ps
  | KNew b => [ENewKad b]
  end.

(** several calls in a row: last return value, all p2p.Disconnect calls *)
Fixpoint steps (cfg : config) (st : state) (es : list event) (r : resp) (calls : list peer) : outcome :=
  match es with
  | [] => (st, r, calls)
  | x :: t => let '(st1, r1, c1) := step cfg st x in steps cfg st1 t r1 (calls ++ c1)
  end.

(** observation after one call (peers by index) *)
Record obs := mkObs {
  o_resp : resp;                      (* return value (error class) *)
  o_calls : list N;                   (* successful p2p.Disconnect calls made by Kad during the call *)
  o_depth : N;                        (* NeighborhoodDepth() *)
  o_probe : N;                        (* bin probed with the saturation function after the call *)
  o_sat : bool * bool;                (* (saturated, oversaturated) of that bin *)
  o_dump : option (list N * list N)   (* EachPeer / EachKnownPeer, in iteration order *)
}.

(** compact constructors used by the generated case files (parsing cost of a case
    file is per token): [code] packs resp / depth / probe / saturated / oversaturated *)
Definition resp_of_code (c : N) : resp :=
  match c with
  | 0 => ROk | 1 => RBool false | 2 => RBool true | 3 => RErrOversaturated
  | 4 => RErrEmptyBin | 5 => RErrAnnounce | 6 => RErrP2P | _ => RErrAddressbook
  end.
Definition O3 (code : N) (calls : list N) (dump : option (list N * list N)) : obs :=
  mkObs (resp_of_code (code / 4096)) calls ((code / 128) mod 32) ((code / 4) mod 32)
        (N.odd (code / 2), N.odd code) dump.
Definition O1 (code : N) : obs := O3 code [] None.
Definition O2 (code : N) (calls : list N) : obs := O3 code calls None.
Definition OD (code : N) (calls c k : list N) : obs := O3 code calls (Some (c, k)).
Definition KC (p : N) : cev := KConn p false false 0.
Definition KR (p : N) : cev := KReach p true.
Definition e : list N := [].

Inductive case :=
| CHist (nn qs sat over bootover : N) (boot : bool) (static : list N) (disc cb : bool)
        (univ : list N) (h : list cev) (o : list obs).

Definition mk_cfg (nn qs sat over bootover : N) (boot : bool) (static : list peer) (disc cb : bool) : config :=
  mkConfig (Z.to_nat Consts.boson_MaxBins) (Z.to_N Consts.boson_MaxPO) nn qs sat over bootover boot static
           (Z.to_N Consts.boson_MaxPO) disc cb.

Definition resp_eqb (a b : resp) : bool :=
  match a, b with
  | ROk, ROk | RErrOversaturated, RErrOversaturated | RErrEmptyBin, RErrEmptyBin
  | RErrAnnounce, RErrAnnounce | RErrP2P, RErrP2P | RErrAddressbook, RErrAddressbook => true
  | RBool x, RBool y => Bool.eqb x y
  | _, _ => false
  end.

Definition ids_eqb := list_eqb N.eqb.
Definition ids (l : list peer) : list N := map snd l.

(** the model's observation for a step, shaped like the implementation's *)
Definition model_obs (cfg : config) (st : state) (r : resp) (calls : list peer) (ob : obs) : obs :=
  mkObs r (ids calls) (depth st) (o_probe ob)
        (bin_saturated cfg (thr st) (unreach st) (o_probe ob) (known st) (conn st))
        (match o_dump ob with
         | None => None
         | Some _ => Some (ids (reported (conn st)), ids (reported (known st)))
         end).

Definition obs_eqb (a b : obs) : bool :=
  resp_eqb (o_resp a) (o_resp b) && ids_eqb (o_calls a) (o_calls b) && (o_depth a =? o_depth b) &&
  (o_probe a =? o_probe b) &&
  Bool.eqb (fst (o_sat a)) (fst (o_sat b)) && Bool.eqb (snd (o_sat a)) (snd (o_sat b)) &&
  option_eqb (pair_eqb ids_eqb ids_eqb) (o_dump a) (o_dump b).

(** first step at which model and implementation differ: (index, model, observed) *)
Fixpoint first_diff (cfg : config) (univ : list N) (st : state) (h : list cev) (o : list obs) (i : nat) : option (nat * option obs * option obs) :=
  match h, o with
  | [], [] => None
  | e :: h', ob :: o' =>
      let '(st1, r, calls) := steps cfg st (events_of univ e) ROk [] in
      let m := model_obs cfg st1 r calls ob in
      if obs_eqb m ob then first_diff cfg univ st1 h' o' (S i) else Some (i, Some m, Some ob)
  | [], ob :: _ => Some (i, None, Some ob)
  | _ :: _, [] => Some (i, None, None)
  end.

Definition explain_case (c : case) :=
  match c with
  | CHist nn qs sat over bootover boot static disc cb univ h o =>
      let cfg := mk_cfg nn qs sat over bootover boot (peers_of univ static) disc cb in
      first_diff cfg univ (init cfg) h o 0
  end.

Definition check_case (c : case) : bool :=
  match explain_case c with None => true | Some _ => false end.
