(** C24 — property theorems only.  The general lemmas (Proofs.v) hold for every
    configuration with at least one bin; here the number of bins and the largest
    proximity are the constants re-extracted from pkg/boson on every run, and
    every theorem is parametric in the saturation thresholds (package variables
    that kademlia.New rewrites from Options.BinMaxPeers), the node mode, the
    static peers, the radius, and the environment switches of the model.

    Vocabulary: [run cfg (init cfg) h = (log, st)] — the Kad after the history [h]
    of calls, [log] the calls with their return values and the p2p.Disconnect calls
    Kad made; [reported (conn st)] / [reported (known st)] — what EachPeer /
    EachKnownPeer enumerate; [live cb log] — the peers connected (inbound admitted, or
    outbound to a non-boot node) and not since disconnected, read off the log only. *)
From Coq Require Import List NArith ZArith Bool Arith Lia.
Import ListNotations.
Require Import Aurora.Consts Aurora.C24.Model Aurora.C24.Proofs.
Local Open Scope N_scope.

Definition MaxBins : nat := Z.to_nat Consts.boson_MaxBins.
Definition MaxPO : N := Z.to_N Consts.boson_MaxPO.

(** a configuration as kademlia.New builds it: 32 bins, proximities up to 31 *)
Definition kad_cfg_ok (cfg : config) : Prop := c_nb cfg = MaxBins /\ c_maxpo cfg = MaxPO.

(** side conditions on the constants, re-checked by computation on every run:
    at least one bin; a proximity is always a valid bin index; the thresholds are
    non-negative (the model holds them in [N]; Go converts nnLowWatermark to uint) *)
Lemma consts_ok_C24 :
  ((1 <=? Consts.boson_MaxBins) && (0 <=? Consts.boson_MaxPO) && (Consts.boson_MaxPO <? Consts.boson_MaxBins) &&
   (0 <=? Consts.kademlia_nnLowWatermark) && (0 <=? Consts.kademlia_quickSaturationPeers) &&
   (0 <=? Consts.kademlia_saturationPeers) && (0 <=? Consts.kademlia_overSaturationPeers) &&
   (0 <=? Consts.kademlia_bootNodeOverSaturationPeers))%Z = true.
Proof. vm_compute. reflexivity. Qed.

Lemma nb_ok cfg : kad_cfg_ok cfg -> (1 <= c_nb cfg)%nat.
Proof. intros [H _]. rewrite H. apply Nat.leb_le. vm_compute. reflexivity. Qed.

(** the bin a peer is filed under is its proximity (MaxPO < MaxBins) *)
Theorem C24_bin_is_proximity : forall cfg p, kad_cfg_ok cfg -> pbin cfg p = prox cfg p.
Proof.
  intros cfg p [H1 H2]. unfold pbin, prox. rewrite H1, H2.
  assert (E : (N.to_nat MaxPO <= MaxBins - 1)%nat) by (apply Nat.leb_le; vm_compute; reflexivity).
  lia.
Qed.
Print Assumptions C24_bin_is_proximity.

(** "the peers the topology reports as connected are exactly the full nodes connected and
    not since disconnected": after any history EachPeer reports no peer twice, and reports
    [p] iff [p] is in the live set. *)
Theorem C24_connected_exact : forall (cfg : config) (h : list event),
  kad_cfg_ok cfg ->
  let log := fst (run cfg (init cfg) h) in
  let st := snd (run cfg (init cfg) h) in
  NoDup (reported (conn st)) /\
  forall p, In p (reported (conn st)) <-> In p (live (c_cb cfg) log).
Proof. intros cfg h Hc. exact (connected_exact cfg h (nb_ok cfg Hc)). Qed.
Print Assumptions C24_connected_exact.

(** "outbound connections to boot nodes are never counted": if every connection event of
    [p] in the history is an outbound connection with boot-node mode, [p] is not reported. *)
Theorem C24_outbound_bootnode_never_counted : forall (cfg : config) (h : list event) (p : peer),
  kad_cfg_ok cfg ->
  forallb (fun e => negb (may_count p e)) h = true ->
  ~ In p (reported (conn (snd (run cfg (init cfg) h)))).
Proof. intros cfg h p Hc. exact (bootnode_never_counted cfg h p (nb_ok cfg Hc)). Qed.
Print Assumptions C24_outbound_bootnode_never_counted.

(** "every connected peer is also known", for the histories a p2p layer can produce: an
    outbound boot-node connection is reported only for a peer that is not counted as
    connected at that moment ([wf_log]; see [C24_wf_hypothesis_is_needed]). *)
Theorem C24_connected_subset_known : forall (cfg : config) (h : list event),
  kad_cfg_ok cfg ->
  wf_log (c_cb cfg) [] (fst (run cfg (init cfg) h)) = true ->
  forall p, In p (reported (conn (snd (run cfg (init cfg) h)))) ->
            In p (reported (known (snd (run cfg (init cfg) h)))).
Proof. intros cfg h Hc. exact (connected_subset_known cfg h (nb_ok cfg Hc)). Qed.
Print Assumptions C24_connected_subset_known.

(** "an unprotected inbound full node is admitted only if its bin is not oversaturated":
    after any history, if Connected(p, force=false) of an unprotected [p] returns nil on a
    node not in boot-node mode, then the bin of [p] is not oversaturated — it is not below
    the potential depth of the known peers, or fewer than the over-saturation threshold of
    the live peers of that bin are reachable and non-static. *)
Theorem C24_admission : forall (cfg : config) (h : list event) (p : peer) (bfail : bool) (victim : nat),
  kad_cfg_ok cfg -> c_boot cfg = false ->
  let log := fst (run cfg (init cfg) h) in
  let st := snd (run cfg (init cfg) h) in
  is_protected st p = false ->
  snd (fst (step cfg st (EConnected p false bfail victim))) = ROk ->
  oversaturated_spec cfg st (live (c_cb cfg) log) (prox cfg p) = false.
Proof. intros cfg h p bfail victim Hc. exact (admission cfg (nb_ok cfg Hc) h p bfail victim). Qed.
Print Assumptions C24_admission.

(** the return value of every inbound attempt on a node not in boot-node mode: rejected with
    ErrOversaturated iff the bin is oversaturated, the peer unprotected and the connection not
    forced; otherwise nil, or the error of a failed announcement *)
Theorem C24_inbound_response : forall (cfg : config) (h : list event) (p : peer) (force bfail : bool) (victim : nat),
  kad_cfg_ok cfg -> c_boot cfg = false ->
  let log := fst (run cfg (init cfg) h) in
  let st := snd (run cfg (init cfg) h) in
  let r := snd (fst (step cfg st (EConnected p force bfail victim))) in
  (r = RErrOversaturated <->
     oversaturated_spec cfg st (live (c_cb cfg) log) (prox cfg p) && negb (is_protected st p) && negb force = true) /\
  (r = ROk \/ r = RErrOversaturated \/ r = RErrAnnounce) /\
  (r = RErrAnnounce -> c_disc cfg = true /\ bfail = true).
Proof. intros cfg h p force bfail victim Hc. exact (inbound_response cfg (nb_ok cfg Hc) h p force bfail victim). Qed.
Print Assumptions C24_inbound_response.

(** an admitted peer is reported as connected and as known right after the call *)
Theorem C24_admitted_is_reported : forall (cfg : config) (h : list event) (p : peer) (force bfail : bool) (victim : nat),
  kad_cfg_ok cfg ->
  let '(st', r, _) := step cfg (snd (run cfg (init cfg) h)) (EConnected p force bfail victim) in
  r = ROk -> In p (reported (conn st')) /\ In p (reported (known st')).
Proof. intros cfg h p force bfail victim Hc. exact (admitted_is_reported cfg (nb_ok cfg Hc) h p force bfail victim). Qed.
Print Assumptions C24_admitted_is_reported.

(** Pick answers true exactly in boot-node mode, for a protected peer, or when the bin is
    not oversaturated *)
Theorem C24_pick : forall (cfg : config) (h : list event) (p : peer),
  kad_cfg_ok cfg ->
  let log := fst (run cfg (init cfg) h) in
  let st := snd (run cfg (init cfg) h) in
  snd (fst (step cfg st (EPick p))) =
  RBool (c_boot cfg || is_protected st p || negb (oversaturated_spec cfg st (live (c_cb cfg) log) (prox cfg p))).
Proof. intros cfg h p Hc. exact (pick_response cfg (nb_ok cfg Hc) h p). Qed.
Print Assumptions C24_pick.

(** boot-node mode: an unprotected inbound peer for an oversaturated bin is let in only
    after p2p.Disconnect of one reported, non-static peer of that very bin (any index the
    random draw may give), unless the bin has no such peer *)
Theorem C24_bootnode_eviction : forall (cfg : config) (h : list event) (p : peer) (force bfail : bool) (victim : nat),
  kad_cfg_ok cfg -> c_boot cfg = true ->
  let log := fst (run cfg (init cfg) h) in
  let st := snd (run cfg (init cfg) h) in
  is_protected st p = false ->
  oversaturated_spec cfg st (live (c_cb cfg) log) (prox cfg p) = true ->
  let '(st', r, calls) := step cfg st (EConnected p force bfail victim) in
  (r = RErrEmptyBin /\ st' = st /\ calls = []) \/
  (exists v rest, calls = v :: rest /\ In v (reported (conn st)) /\ pbin cfg v = prox cfg p /\
                  is_static cfg v = false /\ (r = ROk \/ r = RErrAnnounce)).
Proof. intros cfg h p force bfail victim Hc. exact (bootnode_eviction cfg (nb_ok cfg Hc) h p force bfail victim). Qed.
Print Assumptions C24_bootnode_eviction.

(** ---- non-vacuity and necessity examples ---- *)
Definition thr_cfg (nn qs sat over bootover : N) (boot : bool) : config :=
  mkConfig MaxBins MaxPO nn qs sat over bootover boot [] MaxPO true true.
(** the thresholds as the Go source initialises them *)
Definition default_cfg : config :=
  thr_cfg (Z.to_N Consts.kademlia_nnLowWatermark) (Z.to_N Consts.kademlia_quickSaturationPeers)
          (Z.to_N Consts.kademlia_saturationPeers) (Z.to_N Consts.kademlia_overSaturationPeers)
          (Z.to_N Consts.kademlia_bootNodeOverSaturationPeers) false.

Definition peers_in (b n : nat) : list peer := map (fun i => (b, N.of_nat (100 * b + i))) (seq 0 n).
(** know everybody, everybody public, connect bins 3,2,1 (4 peers each), then [n0] peers of bin 0 *)
Definition ramp (n0 : nat) : list event :=
  let all := peers_in 0 (n0 + 2) ++ peers_in 1 4 ++ peers_in 2 4 ++ peers_in 3 4 in
  EAddPeers all :: map (fun p => EReach p true) all ++
  map (fun p => EConnected p false false 0) (peers_in 3 4 ++ peers_in 2 4 ++ peers_in 1 4 ++ peers_in 0 n0).

(** with the thresholds of the Go source: after [overSaturationPeers] admitted peers in bin 0
    the history is well-formed, the bin is oversaturated, an unprotected unforced peer is
    rejected, Pick says no, and the hypotheses of [C24_admission] held one peer earlier *)
Example C24_hypotheses_satisfiable :
  let cfg := default_cfg in
  let n := N.to_nat (c_over cfg) in
  let newp : peer := (0%nat, N.of_nat n) in
  let r1 := run cfg (init cfg) (ramp n) in
  let r0 := run cfg (init cfg) (ramp (n - 1)) in
  kad_cfg_ok cfg /\
  wf_log (c_cb cfg) [] (fst r1) = true /\
  length (live (c_cb cfg) (fst r1)) = (n + 12)%nat /\
  oversaturated_spec cfg (snd r1) (live (c_cb cfg) (fst r1)) 0 = true /\
  snd (fst (step cfg (snd r1) (EConnected newp false false 0))) = RErrOversaturated /\
  snd (fst (step cfg (snd r1) (EPick newp))) = RBool false /\
  snd (fst (step cfg (snd r1) (EConnected newp true false 0))) = ROk /\
  is_protected (snd r0) newp = false /\
  snd (fst (step cfg (snd r0) (EConnected newp false false 0))) = ROk.
Proof. vm_compute. repeat split; reflexivity. Qed.

(** boot-node mode at small thresholds: the oversaturated bin evicts *)
Example C24_bootnode_example :
  let cfg := thr_cfg 3 1 2 5 5 true in
  let r1 := run cfg (init cfg) (ramp 5) in
  oversaturated_spec cfg (snd r1) (live (c_cb cfg) (fst r1)) 0 = true /\
  snd (step cfg (snd r1) (EConnected (0%nat, 5) false false 7)) = [(0%nat, 2)] /\
  snd (fst (step cfg (snd r1) (EConnected (0%nat, 5) false false 7))) = ROk.
Proof. vm_compute. repeat split; reflexivity. Qed.

(** the hypothesis [wf_log] of [C24_connected_subset_known] cannot be dropped: an outbound
    boot-node connection reported for a peer that is counted as connected removes it from the
    known peers only (replayed on the Go code by the corpus case
    "illformed-outbound-bootnode-on-connected-peer": the implementation agrees) *)
Example C24_wf_hypothesis_is_needed :
  let cfg := default_cfg in
  let p : peer := (1%nat, 7) in
  let r := run cfg (init cfg) [EConnected p false false 0; EOutbound p true] in
  wf_log (c_cb cfg) [] (fst r) = false /\
  reported (conn (snd r)) = [p] /\ reported (known (snd r)) = [].
Proof. vm_compute. repeat split; reflexivity. Qed.
