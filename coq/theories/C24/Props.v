(** C24 — property theorems only. *)
From Coq Require Import List NArith ZArith Bool Arith.
Import ListNotations.
Require Import Aurora.Consts Aurora.C24.Model Aurora.C24.Proofs.
Local Open Scope N_scope.

(** "the peers the topology reports as connected are exactly the full nodes connected and
    not since disconnected": after any history, on any Kad configuration with at least one
    bin, EachPeer reports no peer twice and reports [p] iff [p] is in the live set read off
    the log of calls and return values. *)
Theorem C24_connected_exact : forall (cfg : config) (h : list event),
  (1 <= c_nb cfg)%nat ->
  let log := fst (run cfg (init cfg) h) in
  let st := snd (run cfg (init cfg) h) in
  NoDup (reported (conn st)) /\
  forall p, In p (reported (conn st)) <-> In p (live (c_cb cfg) log).
Proof. exact connected_exact. Qed.
Print Assumptions C24_connected_exact.
