(** C14 — pin counters across a crash inside a collection run, WITHOUT any
    hypothesis on the pyramid table: the direct writes of the run only lower
    counters and its batch only deletes pin entries, so after a crash every
    pin counter lies between its value after the completed run and its value
    before the run (an unpinned chunk counts as 0).  In particular a chunk that
    is still pinned after the run is pinned after the crash, and no counter
    ever exceeds its old value. *)
From Coq Require Import List NArith ZArith Bool Lia.
Import ListNotations.
Require Import Aurora.C11.Model Aurora.C11.Maps Aurora.C14.Model Aurora.C14.ProofsGroups Aurora.C14.ProofsCrash.
Local Open Scope N_scope.

Definition pval (s : state) (a : addr) : N := match pin_get s a with Some v => v | None => 0 end.

(** direct pin writes that do not raise a counter *)
Fixpoint pdec (s : state) (D : list write) : Prop :=
  match D with
  | [] => True
  | w :: r => (exists a v pc, w = WPin a v /\ pin_get s a = Some pc /\ v <= pc) /\ pdec (apply_write s w) r
  end.
Lemma pdec_app D1 : forall s D2, pdec s (D1 ++ D2) <-> pdec s D1 /\ pdec (commit s D1) D2.
Proof.
  induction D1 as [|w D1 IH]; intros s D2; simpl; [tauto|].
  rewrite IH. unfold commit. simpl. tauto.
Qed.
Lemma pdec_le a D : forall s, pdec s D -> pval (commit s D) a <= pval s a.
Proof.
  induction D as [|w D IH]; intros s H; [apply N.le_refl|].
  destruct H as [(a' & v & pc & -> & P & L) R]. unfold commit in *. simpl.
  eapply N.le_trans; [apply IH; exact R|].
  unfold pval, pin_get in *. simpl.
  destruct (cmp_bytes a a') eqn:E.
  - apply cmp_bytes_eq in E. subst a'. rewrite (alookup_ainsert_same cmp_bytes cmp_bytes_eq), P. exact L.
  - rewrite (alookup_ainsert_other cmp_bytes cmp_bytes_eq); [apply N.le_refl|]. intros ->. now rewrite cmp_bytes_refl in E.
  - rewrite (alookup_ainsert_other cmp_bytes cmp_bytes_eq); [apply N.le_refl|]. intros ->. now rewrite cmp_bytes_refl in E.
Qed.

(** batches that write no pin counter (they may delete pin entries) *)
Definition nopin (w : write) : Prop := match w with WPin _ _ => False | _ => True end.
Lemma nopin_le a B : forall s, Forall nopin B -> pval (commit s B) a <= pval s a.
Proof.
  induction B as [|w B IH]; intros s H; [apply N.le_refl|].
  inversion H as [|? ? H1 H2]; subst. unfold commit in *. simpl.
  eapply N.le_trans; [apply IH; exact H2|].
  destruct w; try apply N.le_refl; try contradiction.
  unfold pval, pin_get. simpl.
  destruct (cmp_bytes a a0) eqn:E.
  - apply cmp_bytes_eq in E. subst. rewrite (alookup_aremove_same cmp_bytes). apply N.le_0_l.
  - rewrite (alookup_aremove_other cmp_bytes cmp_bytes_eq); [apply N.le_refl|]. intros ->. now rewrite cmp_bytes_refl in E.
  - rewrite (alookup_aremove_other cmp_bytes cmp_bytes_eq); [apply N.le_refl|]. intros ->. now rewrite cmp_bytes_refl in E.
Qed.

Lemma gc_chunks_pdec l : forall s, pdec s (gc_chunks_d s l).
Proof.
  induction l as [|[cid num] l IH]; intros s; simpl; [exact I|].
  destruct (pin_get s cid) as [pc|] eqn:P; [|apply IH].
  destruct (num <? pc); [|apply IH]. simpl. split; [|apply IH].
  exists cid, (pc - num), pc. repeat split; [exact P | apply N.le_sub_l].
Qed.
Lemma gc_evict_pdec cands : forall s pyr, pdec s (gc_evict_d s pyr cands).
Proof.
  induction cands as [|[k c] cands IH]; intros s pyr; simpl; [exact I|].
  destruct (alookup cmp_bytes (snd k) pyr) as [chunks|]; [|apply IH].
  destruct (mem_addr (snd k) (s_dirty s)); [apply IH|].
  apply pdec_app. split; [apply gc_chunks_pdec | apply IH].
Qed.

Lemma gc_chunks_nopin l : forall s b cnt, Forall nopin b -> Forall nopin (snd (fst (gc_chunks s b cnt l))).
Proof.
  induction l as [|[cid num] l IH]; intros s b cnt H; simpl; [exact H|].
  assert (S1 : forall w, nopin w -> Forall nopin (b ++ [w])) by (intros w Hw; apply Forall_app; split; [exact H | repeat constructor; exact Hw]).
  destruct (pin_get s cid) as [pc|].
  - destruct (num <? pc); [apply IH; exact H|].
    destruct (data_has s cid); apply IH.
    + apply Forall_app. split; [apply S1; exact I | repeat constructor].
    + apply S1. exact I.
  - destruct (data_has s cid); apply IH; [apply S1; exact I | exact H].
Qed.
Lemma gc_evict_nopin cands : forall s b cnt pyr rec, Forall nopin b ->
  Forall nopin (snd (fst (fst (gc_evict s b cnt pyr cands rec)))).
Proof.
  induction cands as [|[k c] cands IH]; intros s b cnt pyr rec H; simpl; [exact H|].
  destruct (alookup cmp_bytes (snd k) pyr) as [chunks|]; [|apply IH; exact H].
  destruct (mem_addr (snd k) (s_dirty s)); [apply IH; exact H|].
  pose proof (gc_chunks_nopin chunks s b 0 H) as C.
  destruct (gc_chunks s b 0 chunks) as [[s' b'] n]. simpl in C. apply IH. exact C.
Qed.
Lemma recycled_nopin (recycled : list (gckey * N)) :
  Forall nopin (flat_map (fun kc => [WDataDel (snd (fst kc)); WAccessDel (snd (fst kc)); WGcDel (fst kc)]) recycled).
Proof. induction recycled as [|x l IH]; simpl; [constructor|]. repeat constructor. exact IH. Qed.

Section Bound.
  Variable po : addr -> N.
  Variable capacity : N.

  Theorem crash_pins_gc_bound s pyr k a :
    let post := fst (step po capacity s (OGcEnd pyr)) in
    let c := recovered po k s (OGcEnd pyr) in
    pval post a <= pval c a /\ pval c a <= pval s a.
  Proof.
    cbv zeta. unfold recovered.
    assert (RP : forall x, pval (fst (reopen x)) a = pval x a) by (intros x; unfold pval, pin_get; now rewrite reopen_pin).
    rewrite RP.
    assert (P : pval (fst (step po capacity s (OGcEnd pyr))) a = pval (apply_groups s (groups po s (OGcEnd pyr))) a).
    { destruct (groups_full po capacity s (OGcEnd pyr)) as (_ & _ & _ & E & _). unfold pval, pin_get. now rewrite E. }
    rewrite P. clear P RP. unfold crash. simpl groups.
    destruct (s_gcrun s) as [ctx|]; [|destruct k; simpl; split; apply N.le_refl].
    pose proof (gc_evict_pdec (g_cands ctx) s pyr) as PD.
    pose proof (gc_evict_nopin (g_cands ctx) s [] 0 pyr [] (Forall_nil _)) as NP.
    destruct (gc_evict s [] 0 pyr (g_cands ctx) []) as [[[s1 b1] cnt] recycled]. simpl in NP.
    set (D := gc_evict_d s pyr (g_cands ctx)) in *.
    match goal with |- context [singles D ++ [?B]] => set (Bt := B) end.
    assert (NB : Forall nopin Bt).
    { unfold Bt. apply Forall_app. split; [apply Forall_app; split; [exact NP | apply recycled_nopin] | repeat constructor]. }
    assert (FULL : apply_groups s (singles D ++ [Bt]) = commit (commit (commit s (firstn k D)) (skipn k D)) Bt).
    { rewrite apply_groups_app, apply_groups_singles. unfold apply_groups. cbn [fold_left].
      rewrite <- (firstn_skipn k D) at 1. rewrite commit_app. reflexivity. }
    rewrite <- (firstn_skipn k D) in PD. apply pdec_app in PD. destruct PD as [PD1 PD2].
    assert (CH : pval (apply_groups s (singles D ++ [Bt])) a <= pval (commit s (firstn k D)) a /\
                 pval (commit s (firstn k D)) a <= pval s a).
    { rewrite FULL. split; [|apply pdec_le; exact PD1].
      eapply N.le_trans; [apply nopin_le; exact NB|]. apply pdec_le. exact PD2. }
    destruct (Nat.le_gt_cases k (length D)) as [H|H].
    - assert (PRE : apply_groups s (firstn k (singles D ++ [Bt])) = commit s (firstn k D)).
      { rewrite firstn_app. unfold singles at 2. rewrite map_length.
        replace (k - length D)%nat with 0%nat by lia. simpl firstn. rewrite app_nil_r.
        unfold singles. rewrite firstn_map. apply (apply_groups_singles (firstn k D)). }
      rewrite PRE. exact CH.
    - rewrite firstn_all2 by (rewrite app_length; unfold singles; rewrite map_length; simpl; lia).
      split; [apply N.le_refl|]. destruct CH as [C1 C2]. eapply N.le_trans; eassumption.
  Qed.
End Bound.
