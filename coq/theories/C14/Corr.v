(** C14 — correspondence.  The harness runs a history on the real
    [localstore.DB] over the fault-injecting storage driver
    (shed.Register("verifcrash", ...), harness/crashx).  For a TARGET operation
    of the history (quick tier: the last one and one more; thorough tier: every
    one) it counts the driver-level write groups n the operation performs
    (direct Put / Delete, batch Commit) and, for EVERY k = 0..n, replays the
    history on a fresh store, lets the first k groups of the target through,
    refuses everything after them, reopens [localstore.New] on the same
    storage and dumps all indexes.

    [check_case] replays the history on the model and demands, per target:
      - the dump taken just before the target equals the model state,
      - the model's number of write groups equals n,
      - for every k the dump after crash+reopen equals
        [reopen (crash_seq s ops k)], index by index and counter by counter.
    A target is a list of model operations: one for an ordinary call; for a
    collection run [OGcBegin; operations interleaved at the iterator hook;
    OGcEnd] (a crash point then lies in one of the interleaved operations or
    in the eviction phase).

    The case language (operations, dumps, address universe) is that of
    [Aurora.C11.Corr]. *)
From Coq Require Import List NArith ZArith Bool.
Import ListNotations.
Require Import Aurora.Base.Corr Aurora.Consts.
Require Export Aurora.C11.Model Aurora.C11.Corr Aurora.C14.Model.
Local Open Scope N_scope.

Inductive cops := OE | OC (o : cop) (t : cops).
Inductive dumps := DE | DC (d : cdump) (t : dumps).
(** [Crash pre rs]: dump before the target; dumps after crash at k = 0, 1, ..., n and reopen *)
Inductive cinfo := NoCrash | Crash (pre : cdump) (rs : dumps).
Inductive csteps := TE | TC (ops : cops) (ci : cinfo) (t : csteps).
(** BIG operations (thousands of index operations in one batch): the history is
    described by a generator descriptor, not listed — [n] chunks with the
    addresses [big_addr 0 .. n-1]: pinned upload of all of them in one call,
    one [Set(ModeSetSync)] of all, the first two pinned once more, one
    [Set(ModeSetRemove)] of all.  Observed, per operation: the number of
    driver-level writes, and a summary of the dump after crash+reopen at every
    crash point (sizes of the four indexes, gcSize, total of the pin counters,
    total of the GCounters: 7 numbers per crash point). *)
Inductive bigobs := GE | GO (cnt : N) (sums : nl) (t : bigobs).
Inductive case :=
| CCrash (base : nl) (cap : N) (univ : univs) (st : csteps)
| CBig (n : N) (obs : bigobs).

Fixpoint cops_list (univ : list addr) (l : cops) : list op :=
  match l with OE => [] | OC o t => tr_op univ o :: cops_list univ t end.
Fixpoint dumps_len (l : dumps) : nat := match l with DE => 0%nat | DC _ t => S (dumps_len t) end.

Definition run_ops (po : addr -> N) (cap : N) (s : state) (ops : list op) : state :=
  fold_left (fun st o => fst (step po cap st o)) ops s.

(** persisted components only (the dump before a target is taken in the
    running process; its in-memory collection state is not compared) *)
Definition pstate_eqb (m o : state) : bool :=
  state_eqb (set_gcrun m None []) (set_gcrun o None []).

(** what went wrong: [BadPre]: the store before the target is not the model's;
    [BadCount n]: the model performs n write groups, the driver saw another
    number; [BadCrash k s]: after a crash at k and reopen the model predicts s *)
Inductive why := BadPre (s : state) | BadCount (n : nat) | BadCrash (k : nat) (s : state).

Fixpoint check_rs (po : addr -> N) (cap : N) (univ : list addr) (s : state) (ops : list op)
         (ob : state) (rs : dumps) (k : nat) : option why * state :=
  match rs with
  | DE => (None, ob)
  | DC d rest =>
      let m := fst (reopen (crash_seq po cap s ops k)) in
      let ob' := tr_dump univ ob d in
      if state_eqb m ob' then check_rs po cap univ s ops ob' rest (S k)
      else (Some (BadCrash k m), ob')
  end.

Fixpoint first_bad (po : addr -> N) (cap : N) (univ : list addr) (s ob : state) (st : csteps) (i : N)
  : option (N * why) :=
  match st with
  | TE => None
  | TC cs ci rest =>
      let ops := cops_list univ cs in
      let s' := run_ops po cap s ops in
      match ci with
      | NoCrash => first_bad po cap univ s' ob rest (i + 1)
      | Crash pre rs =>
          let obp := tr_dump univ ob pre in
          if negb (pstate_eqb s obp) then Some (i, BadPre s)
          else if negb (Nat.eqb (S (groups_seq po cap s ops)) (dumps_len rs)) then Some (i, BadCount (groups_seq po cap s ops))
          else
            match check_rs po cap univ s ops obp rs 0 with
            | (Some w, _) => Some (i, w)
            | (None, ob') => first_bad po cap univ s' ob' rest (i + 1)
            end
      end
  end.

(** *** big operations *)
Definition big_addr (i : N) : addr := [1; i / 256; i mod 256; 9].
Definition big_addrs (n : N) : list addr := map (fun i => big_addr (N.of_nat i)) (seq 0 (N.to_nat n)).
Definition big_cap : N := 1000000.
Definition big_hist (n : N) : list op :=
  [ OPut 10 PUploadPin None (map (fun a => (a, [nth 2 a 0])) (big_addrs n));
    OSet 20 SSync None (big_addrs n);
    OSet 30 SPin None [big_addr 0; big_addr 1];
    OSet 40 SRemove None (big_addrs n) ].
Definition summary (s : state) : list N :=
  [ N.of_nat (length (s_data s)); N.of_nat (length (s_access s)); N.of_nat (length (s_gc s));
    N.of_nat (length (s_pin s)); s_gcsize s;
    fold_left (fun acc kv => acc + snd kv) (s_pin s) 0; gc_sum (s_gc s) ].
Fixpoint take_n {A} (k : nat) (l : list A) : list A * list A :=
  match k, l with
  | S k', x :: t => let '(a, b) := take_n k' t in (x :: a, b)
  | _, _ => ([], l)
  end.
(** crash points k = 0..cnt of one operation against the observed summaries;
    [gs] = the operation's write groups, computed once: the store after a crash
    at k is [reopen (apply_groups s (firstn k gs))] = [recovered po k s o] *)
Fixpoint check_sums (s : state) (gs : list (list write)) (k : nat) (fuel : nat) (sums : list N) : option why :=
  match fuel with
  | O => match sums with [] => None | _ => Some (BadCount (length sums)) end
  | S f =>
      let '(obs, rest) := take_n 7 sums in
      let m := fst (reopen (apply_groups s (firstn k gs))) in
      if list_eqb N.eqb (summary m) obs then check_sums s gs (S k) f rest
      else Some (BadCrash k (set_data (set_access (set_pin m []) []) []))   (* the counters; the big indexes are not printed *)
  end.
(** the next operation starts from [apply_groups s gs], which is the C11 step on
    every persisted component (theorem C14_all_groups_is_the_operation; no
    collection is running in these histories) *)
Fixpoint big_bad (po : addr -> N) (s : state) (ops : list op) (obs : bigobs) (i : N) : option (N * why) :=
  match ops, obs with
  | [], GE => None
  | o :: rest, GO cnt sums t =>
      let gs := groups po s o in
      let n := length gs in
      if negb (Nat.eqb n (N.to_nat cnt)) then Some (i, BadCount n)
      else match check_sums s gs 0 (S n) (nl_list sums) with
           | Some w => Some (i, w)
           | None => big_bad po (apply_groups s gs) rest t (i + 1)
           end
  | _, _ => Some (i, BadCount 0)
  end.

Definition run_case (c : case) :=
  match c with
  | CCrash base cap univ st => first_bad (po_of (nl_list base)) cap (univ_list univ) init init st 0
  | CBig n obs => big_bad (po_of [0; 0; 0; 0]) init (big_hist n) obs 0
  end.
Definition check_case (c : case) : bool := match run_case c with None => true | Some _ => false end.
(** on a mismatch: (index of the target step, what the model says) *)
Definition explain_case (c : case) := run_case c.
