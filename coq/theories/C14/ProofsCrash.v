(** C14 — what a crash at any write group followed by [reopen] can produce. *)
From Coq Require Import List NArith ZArith Bool Lia.
Import ListNotations.
Require Import Aurora.C11.Model Aurora.C11.Maps Aurora.C14.Model Aurora.C14.ProofsGroups.
Local Open Scope N_scope.

(** ** clause (3) holds after every reopen, whatever was on the disk *)
Lemma reopen_counter x : counter_ok (fst (reopen x)).
Proof.
  unfold counter_ok, reopen. simpl. destruct (s_gcsize x <? gc_sum64 (s_gc x)) eqn:E; simpl.
  - apply N.le_refl.
  - now apply N.ltb_ge in E.
Qed.

(** ** [reopen] touches the counter only *)
Lemma reopen_data x : s_data (fst (reopen x)) = s_data x.
Proof. unfold reopen. simpl. destruct (_ <? _); reflexivity. Qed.
Lemma reopen_access x : s_access (fst (reopen x)) = s_access x.
Proof. unfold reopen. simpl. destruct (_ <? _); reflexivity. Qed.
Lemma reopen_gc x : s_gc (fst (reopen x)) = s_gc x.
Proof. unfold reopen. simpl. destruct (_ <? _); reflexivity. Qed.
Lemma reopen_pin x : s_pin (fst (reopen x)) = s_pin x.
Proof. unfold reopen. simpl. destruct (_ <? _); reflexivity. Qed.
Lemma reopen_bins x : s_bins (fst (reopen x)) = s_bins x.
Proof. unfold reopen. simpl. destruct (_ <? _); reflexivity. Qed.

Lemma same_chunks_fields x y :
  s_data x = s_data y -> s_access x = s_access y -> (forall a, pin_has x a = pin_has y a) ->
  (forall k, ahas cmp_gckey k (s_gc x) = ahas cmp_gckey k (s_gc y)) -> s_bins x = s_bins y ->
  same_chunks x y.
Proof.
  intros A B C D E. unfold same_chunks, data_get, access_get, bin_get. rewrite A, B, E. repeat split; auto.
Qed.
Lemma same_chunks_reopen x : same_chunks (fst (reopen x)) x.
Proof.
  apply same_chunks_fields.
  - apply reopen_data.
  - apply reopen_access.
  - intros a. unfold pin_has. now rewrite reopen_pin.
  - intros k. now rewrite reopen_gc.
  - apply reopen_bins.
Qed.
Lemma same_chunks_trans x y z : same_chunks x y -> same_chunks y z -> same_chunks x z.
Proof.
  intros (A & B & C & D & E) (A' & B' & C' & D' & E'). repeat split; intros; congruence.
Qed.
Lemma same_chunks_peq x y : peq x y -> same_chunks x y.
Proof.
  intros (A & B & C & D & E & F). apply same_chunks_fields; auto.
  - intros a. unfold pin_has. now rewrite D.
  - intros k. now rewrite C.
Qed.

(** clause (1) only looks at which chunks are in which index *)
Lemma same_chunks_chunks_ok x y : same_chunks x y -> chunks_ok y -> chunks_ok x.
Proof.
  intros (A & B & C & D & E) H a. destruct (H a) as [P|(P1 & P2 & P3 & P4)].
  - left. unfold data_has, ahas in *. fold (data_get x a). fold (data_get y a) in P. now rewrite A.
  - right. repeat split.
    + now rewrite A.
    + now rewrite B.
    + specialize (C a). unfold pin_has, ahas in C. fold (pin_get x a) in C. fold (pin_get y a) in C.
      rewrite P3 in C. destruct (pin_get x a); [discriminate | reflexivity].
    + intros t b. specialize (D (t, b, a)). specialize (P4 t b). unfold ahas in D.
      fold (gc_get x (t, b, a)) in D. fold (gc_get y (t, b, a)) in D. rewrite P4 in D.
      destruct (gc_get x (t, b, a)); [discriminate | reflexivity].
Qed.

(** the decidable form of clause (1) *)
Lemma chunks_okb_ok s : chunks_okb s = true <-> chunks_ok s.
Proof.
  unfold chunks_okb. rewrite forallb_forall. split.
  - intros H a. destruct (data_has s a) eqn:Dh; [now left | right].
    assert (N1 : forall x, In x (map fst (s_access s) ++ map fst (s_pin s) ++ map (fun kc => snd (fst kc)) (s_gc s)) -> x <> a).
    { intros x Hi -> . apply H in Hi. congruence. }
    repeat split.
    + unfold data_has, ahas in Dh. fold (data_get s a) in Dh. destruct (data_get s a); [discriminate | reflexivity].
    + destruct (access_get s a) as [v|] eqn:E; [|reflexivity]. exfalso.
      apply (alookup_Some_in cmp_bytes cmp_bytes_eq) in E. apply (N1 a); [|reflexivity].
      apply in_or_app. left. apply in_map_iff. now exists (a, v).
    + destruct (pin_get s a) as [v|] eqn:E; [|reflexivity]. exfalso.
      apply (alookup_Some_in cmp_bytes cmp_bytes_eq) in E. apply (N1 a); [|reflexivity].
      apply in_or_app. right. apply in_or_app. left. apply in_map_iff. now exists (a, v).
    + intros t b. destruct (gc_get s (t, b, a)) as [v|] eqn:E; [|reflexivity]. exfalso.
      apply (alookup_Some_in cmp_gckey cmp_gckey_eq) in E. apply (N1 a); [|reflexivity].
      apply in_or_app. right. apply in_or_app. right. apply in_map_iff. now exists ((t, b, a), v).
  - intros H x Hi. destruct (H x) as [P|(P1 & P2 & P3 & P4)]; [exact P | exfalso].
    apply in_app_or in Hi. destruct Hi as [Hi|Hi]; [|apply in_app_or in Hi; destruct Hi as [Hi|Hi]].
    + apply (alookup_None_notin cmp_bytes cmp_bytes_eq) in P2. contradiction.
    + apply (alookup_None_notin cmp_bytes cmp_bytes_eq) in P3. contradiction.
    + apply in_map_iff in Hi. destruct Hi as [[[[t b] a'] v] [E Hi]]. simpl in E. subst a'.
      specialize (P4 t b). apply (alookup_None_notin cmp_gckey cmp_gckey_eq) in P4. apply P4.
      apply in_map_iff. now exists ((t, b, x), v).
Qed.

Section Crash.
  Variable po : addr -> N.
  Variable capacity : N.

  (** ** the two kinds of crash point of an operation that commits at most
      once: inside the direct writes (a prefix of value-only writes reached the
      disk), or after the last group (the operation completed) *)
  Lemma crash_cases s o k : single_commit o = true ->
    (exists D, ((is_gc_end o = false /\ gco s D) \/ (is_gc_end o = true /\ pno s D)) /\ crash po k s o = commit s D) \/
    peq (crash po k s o) (fst (step po capacity s o)).
  Proof.
    intros SC. destruct (groups_shape po s o SC) as (D & tail & E & L & K).
    unfold crash. destruct (Nat.le_gt_cases k (length D)) as [H|H].
    - left. exists (firstn k D). split.
      + destruct K as [[K1 K2]|[K1 K2]]; [left | right]; split; auto using gco_firstn, pno_firstn.
      + rewrite E, firstn_app. unfold singles at 2. rewrite map_length.
        replace (k - length D)%nat with 0%nat by lia. simpl. rewrite app_nil_r.
        unfold singles. rewrite firstn_map. apply (apply_groups_singles (firstn k D)).
    - right. rewrite firstn_all2.
      + apply groups_full.
      + rewrite E, app_length. unfold singles. rewrite map_length. lia.
  Qed.

  (** an operation without direct writes is atomic: the recovered store is the
      reopened store of before or of after the operation *)
  Lemma crash_atomic s o k : (length (groups po s o) <= 1)%nat ->
    recovered po k s o = fst (reopen s) \/ recovered po k s o = fst (reopen (fst (step po capacity s o))).
  Proof.
    intros L. unfold recovered, crash. destruct k as [|k].
    - left. reflexivity.
    - right. rewrite firstn_all2 by lia. apply peq_reopen, groups_full.
  Qed.

  (** ** chunk-level atomicity (clause 1, relative form) and pin counters of
      every operation but a collection run (clause 2) *)
  Lemma crash_chunks s o k : single_commit o = true ->
    let c := recovered po k s o in
    same_chunks c s \/ same_chunks c (fst (step po capacity s o)).
  Proof.
    intros SC c. unfold c, recovered. destruct (crash_cases s o k SC) as [(D & K & E)|P].
    - left. rewrite E. eapply same_chunks_trans; [apply same_chunks_reopen|].
      destruct K as [[_ K]|[_ K]].
      + destruct (gco_commit D s K) as (A & B & C & D' & F & G).
        apply same_chunks_fields; auto. intros a. unfold pin_has. now rewrite C.
      + destruct (pno_commit D s K) as (A & B & C & D' & F & G).
        apply same_chunks_fields; auto. intros kk. now rewrite C.
    - right. rewrite (peq_reopen _ _ P). apply same_chunks_reopen.
  Qed.

  Lemma crash_pins_not_gc s o k : single_commit o = true -> is_gc_end o = false ->
    let c := recovered po k s o in
    (forall a, pin_get c a = pin_get s a) \/ (forall a, pin_get c a = pin_get (fst (step po capacity s o)) a).
  Proof.
    intros SC NG c. unfold c, recovered. destruct (crash_cases s o k SC) as [(D & K & E)|P].
    - left. intros a. unfold pin_get. rewrite reopen_pin, E.
      destruct K as [[_ K]|[K _]]; [|congruence].
      destruct (gco_commit D s K) as (_ & _ & C & _). now rewrite C.
    - right. intros a. rewrite (peq_reopen _ _ P). unfold pin_get. now rewrite reopen_pin.
  Qed.

  (** in a collection run the data, access and gc indexes, the bin ids and the
      counter are those of before or of after: only pin counters move early *)
  Lemma crash_gc_fields s pyr k :
    let c := recovered po k s (OGcEnd pyr) in
    (s_data c = s_data s /\ s_access c = s_access s /\ s_gc c = s_gc s /\ s_bins c = s_bins s) \/
    c = fst (reopen (fst (step po capacity s (OGcEnd pyr)))).
  Proof.
    intros c. unfold c, recovered. destruct (crash_cases s (OGcEnd pyr) k eq_refl) as [(D & K & E)|P].
    - left. rewrite E. destruct K as [[K _]|[_ K]]; [discriminate|].
      destruct (pno_commit D s K) as (A & B & C & D' & _).
      rewrite reopen_data, reopen_access, reopen_gc, reopen_bins. auto.
    - right. now apply peq_reopen.
  Qed.
End Crash.
