(** C14 — property theorems only.  Model: [Aurora.C11.Model] (pkg/localstore at
    HEAD) presented as atomic write groups by [Aurora.C14.Model]; a crash keeps
    a prefix of the groups of the interrupted operation, then [reopen].
    goleveldb's atomicity of one Put / one batch and its recovery are trusted. *)
From Coq Require Import List NArith ZArith Bool Lia.
Import ListNotations.
Require Import Aurora.Consts Aurora.C11.Model Aurora.C14.Model Aurora.C14.ProofsGroups Aurora.C14.ProofsCrash
  Aurora.C14.ProofsPins Aurora.C14.ProofsBound Aurora.C14.ProofsMain Aurora.C14.Witness.
Local Open Scope N_scope.

(** the modes the correspondence translates are the ones of pkg/storage, and
    the candidate limit of a collection run is the one of pkg/localstore *)
Lemma consts_ok_C14 :
  (Consts.localstore_gcBatchSize =? 10000)%Z && (0 <=? Consts.boson_MaxPO)%Z &&
  (Consts.storage_ModeSetPin =? 2)%Z && (Consts.storage_ModePutRequestPin =? 3)%Z = true.
Proof. vm_compute. reflexivity. Qed.

(** The write groups ARE the operation: applying all of them gives the state
    of the C11 step on every persisted component (so a "crash" after the last
    group is the completed call, and every earlier crash point is a proper
    prefix of what the call writes). *)
Theorem C14_all_groups_is_the_operation : forall (po : addr -> N) (cap : N) (h : list op) (o : op),
  let s := exec po cap init h in
  peq (apply_groups s (groups po s o)) (fst (step po cap s o)) /\
  recovered po (length (groups po s o)) s o = fst (reopen (fst (step po cap s o))).
Proof.
  intros po cap h o s. split; [apply groups_full|].
  unfold recovered, crash. rewrite firstn_all. apply peq_reopen, groups_full.
Qed.
Print Assumptions C14_all_groups_is_the_operation.

(** Clause (3), in full: for every history, every operation (reads included)
    and every crash point, after reopening the cached-chunk counter is at
    least the total [localstore.New] recomputes. *)
Theorem C14_counter_at_least_recomputed : forall (po : addr -> N) (cap : N) (h : list op) (o : op) (k : nat),
  counter_ok (recovered po k (exec po cap init h) o).
Proof. intros po cap h o k. exact (recovered_counter po k _ o). Qed.
Print Assumptions C14_counter_at_least_recomputed.

(** The conjunction of the three clauses is FALSE for the code.  Two cached
    files share a chunk that is pinned three times; a collection run evicts
    both.  The run writes the chunk's pin counter directly, once per file
    (3 -> 2 -> 1), before its batch.  A crash after the first of the three
    write groups leaves 2: neither the value before (3) nor after (1) the
    interrupted run — although the store reopened before the run, and the
    store reopened after the completed run, satisfy all three clauses. *)
Theorem C14_crash_safe_refuted :
  exists (po : addr -> N) (cap : N) (h : list op) (o : op) (k : nat),
    let s := exec po cap init h in
    let post := fst (step po cap s o) in
    (k < length (groups po s o))%nat /\
    consistent s post (fst (reopen s)) /\
    consistent s post (fst (reopen post)) /\
    ~ consistent s post (recovered po k s o).
Proof.
  exists po0, 2, h_gc, o_gc, 1%nat. cbv zeta.
  split; [vm_compute; lia|]. split; [|split].
  - split; [apply chunks_okb_ok; vm_compute; reflexivity|]. split; [|apply reopen_counter].
    intros a. left. unfold pin_get. now rewrite reopen_pin.
  - split; [apply chunks_okb_ok; vm_compute; reflexivity|]. split; [|apply reopen_counter].
    intros a. right. unfold pin_get. now rewrite reopen_pin.
  - intros (_ & P & _). specialize (P x1). vm_compute in P. destruct P; discriminate.
Qed.
Print Assumptions C14_crash_safe_refuted.

(** Clause (1) read ABSOLUTELY ("in the data index or in no index at all") fails
    without any crash: removing a cached root without a file context leaves
    its gc entry behind.  That is a bookkeeping flaw of the completed call, not
    of crash handling; the partial theorem therefore states clause (1)
    relative to the stores before and after the interrupted call. *)
Theorem C14_chunks_clause_refuted_without_crash :
  exists (po : addr -> N) (cap : N) (h : list op),
    let s := exec po cap init h in
    s_gcrun s = None /\ ~ chunks_ok s /\ ~ chunks_ok (fst (reopen s)).
Proof.
  exists po0, 100, h_rm. cbv zeta. split; [reflexivity|].
  split; intros H; apply chunks_okb_ok in H; vm_compute in H; discriminate.
Qed.
Print Assumptions C14_chunks_clause_refuted_without_crash.

(** What holds, for every history, every operation and EVERY crash point k
    ([c] = the store [localstore.New] finds and repairs after the crash):
    - clause (3);
    - in a collection run, WHATEVER the pyramid table: every pin counter lies
      between its value after the completed run and its value before the run
      ([pval]: not pinned = 0) — the run's direct writes only lower counters,
      its batch only deletes pin entries; so the damage of the refuted clause
      is bounded: no counter above its old value, none below its final value,
      a chunk still pinned after the run is pinned after the crash;
    and for every operation that commits at most one batch (everything but a
    multi-get in request mode, a read):
    - clause (1), relative: [c] holds exactly the chunks of before the call, or
      exactly those of after it — data and access entries with their values,
      the same addresses pinned, the same gc keys, the same bin ids; hence a
      crash never creates a half-present chunk: if the stores before and
      after satisfy the absolute clause, so does [c];
    - clause (2): outside a collection run ALL pin counters are those of
      before or ALL are those of after; in a collection run each pin counter
      is the one of before or of after PROVIDED no chunk address occurs twice
      in the pyramids of the chunkinfo table (the excluded class is the one of
      the refutation: a pinned chunk in two evicted files / twice in a file);
    - an operation with at most one write group is atomic: [c] is the reopened
      store of before or of after. *)
Theorem C14_crash_safe_partial : forall (po : addr -> N) (cap : N) (h : list op) (o : op) (k : nat),
  let s := exec po cap init h in
  let post := fst (step po cap s o) in
  let c := recovered po k s o in
  counter_ok c /\
  (is_gc_end o = true -> forall a, pval post a <= pval c a /\ pval c a <= pval s a) /\
  (single_commit o = true ->
     (same_chunks c s \/ same_chunks c post) /\
     (chunks_ok s -> chunks_ok post -> chunks_ok c) /\
     (is_gc_end o = false ->
        (forall a, pin_get c a = pin_get s a) \/ (forall a, pin_get c a = pin_get post a)) /\
     (NoDup (op_cids o) -> pins_ok s post c) /\
     ((length (groups po s o) <= 1)%nat -> c = fst (reopen s) \/ c = fst (reopen post))).
Proof. intros po cap h o k. exact (crash_safe_from po cap (exec po cap init h) o k). Qed.
Print Assumptions C14_crash_safe_partial.

(** non-vacuity: pinning a cached three-chunk file in one call performs three
    write groups (GCounter 3 -> 2 directly, 2 -> 1 directly, then the batch);
    after a crash behind the first one the counter is 3, the recomputed total
    2, no pin counter has moved, and all three clauses hold; the collection
    run of the refutation has three groups as well, its pyramid table repeats
    a chunk address, and a table without repetition exists for the same store *)
Example C14_example :
  let s := s_pin0 in
  let c := recovered po0 1 s o_pin in
  length (groups po0 s o_pin) = 3%nat /\
  s_gcsize c = 3 /\ gc_sum64 (s_gc c) = 2 /\ s_pin c = [] /\
  consistent s (fst (step po0 100 s o_pin)) c /\
  length (groups po0 s_gc0 o_gc) = 3%nat /\ ~ NoDup (op_cids o_gc) /\
  NoDup (op_cids (OGcEnd [(R, [(x1, 1); (x2, 1)]); (R2, [(x3, 1)])])).
Proof.
  cbv zeta. split; [vm_compute; reflexivity|]. split; [vm_compute; reflexivity|].
  split; [vm_compute; reflexivity|]. split; [vm_compute; reflexivity|]. split; [|split; [vm_compute; reflexivity|split]].
  - split; [apply chunks_okb_ok; vm_compute; reflexivity|]. split.
    + intros a. left. vm_compute. reflexivity.
    + apply reopen_counter.
  - intros H. vm_compute in H. inversion H as [|? ? N1 _]. apply N1. right. now left.
  - vm_compute. repeat constructor; simpl; intuition discriminate.
Qed.
