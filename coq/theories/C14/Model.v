(** C14 — crashes of the local store.  Definitions only.

    The model of pkg/localstore is [Aurora.C11.Model] (code at HEAD, repaired
    setPin).  There an operation applies its DIRECT writes ([gcIndex.Put] in
    [setPin], [pinIndex.Put] in [collectGarbage]) to the state at once and
    collects everything else in a batch that [commit] applies atomically.
    Here the same operation is presented as the list of ATOMIC WRITE GROUPS it
    hands to the storage driver, in order: each direct Put is one group, the
    batch commit is one group (also when the batch is empty: the driver's
    Commit is still called).  The lists of direct writes are computed by
    functions that follow the recursion of the C11 loops ([spi_direct],
    [put_loop_d], [set_loop_d], [gc_chunks_d], [gc_evict_d]); that applying
    all groups gives exactly the C11 step is proved in ProofsGroups.v.

    A crash keeps a prefix of the groups ([crash k]); [recovered] is the state
    [localstore.New] finds and repairs ([reopen]).  leveldb's own atomicity
    of one Put / one batch and its recovery are TRUSTED: a group is applied
    completely or not at all. *)
From Coq Require Import List NArith ZArith Bool.
Import ListNotations.
Require Export Aurora.C11.Model.
Local Open Scope N_scope.

Section Crash.
  Variable po : addr -> N.
  Variable capacity : N.

  (** *** direct writes *)

  (** the direct write of [setPin(batch, item, rootItem)] (mirror of
      [set_pin_item]): the GCounter decrement of a found gc entry whose
      GCounter is not 1 *)
  Definition spi_direct (s : state) (root : option addr) (rbin : N) : list write :=
    match root with
    | None => []
    | Some r =>
        match access_get s r with
        | None => []
        | Some ats =>
            match data_get s r with
            | None => []
            | Some e =>
                let k := (ats, mergeN (d_bin e) rbin, r) in
                match gc_get s k with
                | None => []
                | Some c => if c =? 1 then [] else [WGc k (wsub c 1)]
                end
            end
        end
    end.

  (** one iteration of the put loops *)
  Definition put_one_d (mode : pmode) (root : option addr) (s : state) (acc : putacc) (c : chunk) : list write :=
    let '(a, _) := c in
    if mem_addr a (pa_seen acc) then []
    else
      match mode with
      | PRequestPin =>
          if data_has s a then []
          else
            let '(id, _) := inc_bin_id s (pa_bins acc) (po a) in
            spi_direct s root (if bytes_eqb a (root_bytes root) then id else 0)
      | PUploadPin => spi_direct s root 0
      | _ => []
      end.

  Fixpoint put_loop_d (t : N) (mode : pmode) (root : option addr) (s : state) (b : list write)
           (acc : putacc) (chs : list chunk) : list write :=
    match chs with
    | [] => []
    | c :: rest =>
        match put_one po t mode root s b acc c with
        | Ok acc' s' b' => put_one_d mode root s acc c ++ put_loop_d t mode root s' b' acc' rest
        | Fail _ _ => []
        end
    end.

  Definition set_one_d (mode : smode) (root : option addr) (s : state) (a : addr) : list write :=
    match mode with
    | SPin => if data_has s a then spi_direct s root 0 else []
    | _ => []
    end.

  Fixpoint set_loop_d (t : N) (mode : smode) (root : option addr) (s : state) (b : list write)
           (addrs : list addr) : list write :=
    match addrs with
    | [] => []
    | a :: rest =>
        match set_one t mode root s b a with
        | Ok _ s' b' => set_one_d mode root s a ++ set_loop_d t mode root s' b' rest
        | Fail _ _ => []
        end
    end.

  (** the direct [pinIndex.Put]s of the DelFile callback *)
  Fixpoint gc_chunks_d (s : state) (l : list (addr * N)) : list write :=
    match l with
    | [] => []
    | (cid, num) :: rest =>
        match pin_get s cid with
        | Some pc =>
            if num <? pc
            then WPin cid (pc - num) :: gc_chunks_d (apply_write s (WPin cid (pc - num))) rest
            else gc_chunks_d s rest
        | None => gc_chunks_d s rest
        end
    end.

  Fixpoint gc_evict_d (s : state) (pyr : pyramids) (cands : list (gckey * N)) : list write :=
    match cands with
    | [] => []
    | (k, _) :: rest =>
        let a := snd k in
        match alookup cmp_bytes a pyr with
        | None => gc_evict_d s pyr rest
        | Some chunks =>
            if mem_addr a (s_dirty s) then gc_evict_d s pyr rest
            else
              let D := gc_chunks_d s chunks in
              D ++ gc_evict_d (commit s D) (aremove cmp_bytes a pyr) rest
        end
    end.

  (** *** the batch that is committed *)

  (** [incGCSizeInBatch] appended to the batch (mirror of [finish]) *)
  Definition finish_batch (s : state) (b : list write) (change : Z) : list write :=
    if (change =? 0)%Z then b
    else
      let g := s_gcsize s in
      if (0 <? change)%Z then b ++ [WGcSize (wadd g (Z.to_N change))]
      else
        let c := Z.to_N (- change) in
        if g <? c then b else b ++ [WGcSize (g - c)].

  (** the batch of one [updateGC] that reaches [batch.Commit] (mirror of [update_gc]) *)
  Definition update_gc_g (t : N) (a : addr) (bin0 : N) (s : state) : list (list write) :=
    let ats := match access_get s a with Some x => x | None => 0 end in
    if ats =? 0 then []
    else
      let ob := if bin0 =? 0
                then match data_get s a with Some e => Some (d_bin e) | None => None end
                else Some bin0 in
      match ob with
      | None => []
      | Some bin =>
          let k := (ats, bin, a) in
          match gc_get s k with
          | None => []
          | Some c => [[WGcDel k; WGc (t, bin, a) c; WAccess a t]]
          end
      end.

  Fixpoint update_gc_items_g (t : N) (items : list (addr * dentry)) (s : state) : list (list write) :=
    match items with
    | [] => []
    | (a, e) :: rest => update_gc_g t a (d_bin e) s ++ update_gc_items_g t rest (update_gc t a (d_bin e) s)
    end.

  Definition singles (D : list write) : list (list write) := map (fun w => [w]) D.

  Definition acc0 : putacc := {| pa_bins := []; pa_exist := []; pa_change := 0; pa_seen := [] |}.

  (** *** an operation as its list of atomic write groups *)
  Definition groups (s : state) (o : op) : list (list write) :=
    match o with
    | OPut t mode root chs =>
        let fast := match chs with
                    | [(a, _)] => negb (pin_mode mode) && data_has s a
                    | _ => false
                    end in
        if fast then []
        else
          let s1 := mark_dirty s (map fst chs) in
          match mode with
          | PInvalid => []
          | _ =>
              let D := put_loop_d t mode root s1 [] acc0 chs in
              match put_loop po t mode root s1 [] acc0 chs with
              | Fail _ _ => singles D
              | Ok acc s' b =>
                  singles D ++ [finish_batch s' (b ++ map (fun pi => WBin (fst pi) (snd pi)) (pa_bins acc)) (pa_change acc)]
              end
          end
    | OSet t mode root addrs =>
        let s1 := mark_dirty s addrs in
        match mode with
        | SInvalid => []
        | _ =>
            let D := set_loop_d t mode root s1 [] addrs in
            match set_loop t mode root s1 [] 0%Z addrs with
            | Fail _ _ => singles D
            | Ok ch s' b => singles D ++ [finish_batch s' b ch]
            end
        end
    | OGet t mode root a =>
        match data_get s a with
        | None => []
        | Some e =>
            match mode with
            | GRequest => if root_is_zero root then update_gc_g t a (d_bin e) s
                          else update_gc_g t (root_bytes root) 0 s
            | _ => []
            end
        end
    | OGetMulti t mode addrs =>
        match fill_data s addrs with
        | None => []
        | Some items => match mode with GRequest => update_gc_items_g t items s | _ => [] end
        end
    | OHas _ _ | OHasMulti _ _ | OGcBegin _ _ => []
    | OGcEnd pyr =>
        match s_gcrun s with
        | None => []
        | Some ctx =>
            let D := gc_evict_d s pyr (g_cands ctx) in
            let '(s1, b1, cnt, recycled) := gc_evict s [] 0 pyr (g_cands ctx) [] in
            let g := s_gcsize s1 in
            let b2 := b1 ++ flat_map (fun kc => [WDataDel (snd (fst kc)); WAccessDel (snd (fst kc)); WGcDel (fst kc)]) recycled in
            let cnt1 := wadd cnt (N.of_nat (length recycled)) in
            let cnt2 := match recycled with [] => g | _ => cnt1 end in
            let cur := if cnt2 <=? g then g - cnt2 else 0 in
            singles D ++ [b2 ++ [WGcSize cur]]
        end
    | OReopen =>
        (* the start-up repair is one direct Put of the gcSize field *)
        let cur := gc_sum64 (s_gc s) in
        if s_gcsize s <? cur then [[WGcSize cur]] else []
    end.

  (** *** crash and recovery *)
  Definition apply_groups (s : state) (gs : list (list write)) : state := fold_left commit gs s.

  (** the storage after a crash that let the first [k] groups through
      ([k >= length (groups s o)]: the operation completed) *)
  Definition crash (k : nat) (s : state) (o : op) : state := apply_groups s (firstn k (groups s o)).

  (** what [localstore.New] finds and repairs afterwards *)
  Definition recovered (k : nat) (s : state) (o : op) : state := fst (reopen (crash k s o)).

  (** a crash somewhere in a sequence of operations (used by the
      correspondence for a collection run, which is [OGcBegin], the operations
      interleaved at the iterator hook, [OGcEnd]): [k] groups of the whole
      sequence get through *)
  Fixpoint crash_seq (s : state) (ops : list op) (k : nat) : state :=
    match ops with
    | [] => s
    | o :: rest =>
        let n := length (groups s o) in
        if (k <? n)%nat then crash k s o
        else crash_seq (fst (step po capacity s o)) rest (k - n)
    end.
  Fixpoint groups_seq (s : state) (ops : list op) : nat :=
    match ops with
    | [] => 0%nat
    | o :: rest => (length (groups s o) + groups_seq (fst (step po capacity s o)) rest)%nat
    end.

  (** *** the property's three clauses, literally *)

  (** (1) every chunk is either present (in the retrieval data index, with its
      value) or fully absent: in no index at all *)
  Definition chunk_absent (s : state) (a : addr) : Prop :=
    data_get s a = None /\ access_get s a = None /\ pin_get s a = None /\
    forall t b, gc_get s (t, b, a) = None.
  Definition chunks_ok (s : state) : Prop :=
    forall a, data_has s a = true \/ chunk_absent s a.

  (** (2) pin counts equal their value before or after the interrupted operation *)
  Definition pins_ok (pre post s : state) : Prop :=
    forall a, pin_get s a = pin_get pre a \/ pin_get s a = pin_get post a.

  (** (3) the cached-chunk counter is at least the recomputed total (the total
      [localstore.New] recomputes: the uint64 sum of the GCounter values) *)
  Definition counter_ok (s : state) : Prop := gc_sum64 (s_gc s) <= s_gcsize s.

  Definition consistent (pre post s : state) : Prop :=
    chunks_ok s /\ pins_ok pre post s /\ counter_ok s.

  (** decidable form of clause (1): every address that occurs in the access,
      pin or gc index has a data entry *)
  Definition chunks_okb (s : state) : bool :=
    forallb (data_has s) (map fst (s_access s) ++ map fst (s_pin s) ++ map (fun kc => snd (fst kc)) (s_gc s)).

  (** *** what a crash may and may not change (statement of the partial theorem) *)

  (** the same chunks with the same values in the same indexes: data and
      access entries equal, the same addresses pinned, the same gc keys, the
      same bin ids.  (GCounter / PinCounter VALUES are not compared here: they
      are what the direct writes change; clauses (2) and (3) speak about them.) *)
  Definition same_chunks (x y : state) : Prop :=
    (forall a, data_get x a = data_get y a) /\
    (forall a, access_get x a = access_get y a) /\
    (forall a, pin_has x a = pin_has y a) /\
    (forall k, ahas cmp_gckey k (s_gc x) = ahas cmp_gckey k (s_gc y)) /\
    (forall p, bin_get x p = bin_get y p).

  (** operations that commit at most one batch (everything except a
      multi-get in request mode, which runs one updateGC batch per chunk and
      is a read, outside the property's list of operations) *)
  Definition single_commit (o : op) : bool :=
    match o with OGetMulti _ GRequest _ => false | _ => true end.

  Definition is_gc_end (o : op) : bool := match o with OGcEnd _ => true | _ => false end.

  (** chunk addresses of every pyramid of the chunkinfo table *)
  Definition pyr_cids (pyr : pyramids) : list addr := flat_map (fun p => map fst (snd p)) pyr.
  Definition op_cids (o : op) : list addr := match o with OGcEnd pyr => pyr_cids pyr | _ => [] end.
End Crash.
