(** C14 — evaluated histories (each is also a corpus case of the harness and
    reproduces on the Go code). *)
From Coq Require Import List NArith ZArith Bool.
Import ListNotations.
Require Import Aurora.C11.Model Aurora.C14.Model.
Local Open Scope N_scope.

Definition po0 : addr -> N := fun _ => 0.
Definition R : addr := [1]. Definition R2 : addr := [2].
Definition x1 : addr := [11]. Definition x2 : addr := [12]. Definition x3 : addr := [13].
Definition req (t : N) (root a : addr) := OPut t PRequest (Some root) [(a, [t])].

(** two cached files that share chunk x1: A = R{x1,x2}, B = R2{x1,x3} *)
Definition cacheA := [req 10 R R; req 11 R x1; req 12 R x2].
Definition cacheB := [req 13 R2 R2; req 14 R2 x1; req 15 R2 x3].
Definition pyrAB : pyramids := [(R, [(x1, 1); (x2, 1)]); (R2, [(x1, 1); (x3, 1)])].
Definition pin1 (t : N) (a : addr) := OSet t SPin None [a].

(** the shared chunk pinned three times, capacity 2 (target 1), the run has chosen both files *)
Definition h_gc : list op := cacheA ++ cacheB ++ [pin1 20 x1; pin1 21 x1; pin1 22 x1; OGcBegin 1 10000].
Definition s_gc0 : state := exec po0 2 init h_gc.
Definition o_gc : op := OGcEnd pyrAB.

(** removal of a cached root without a file context: its gc entry stays *)
Definition h_rm : list op := [req 10 R R; OSet 11 SRemove None [R]].

(** pin a cached 3-chunk file in one call: two direct GCounter writes, then the batch *)
Definition o_pin : op := OSet 20 SPin (Some R) [R; x1; x2].
Definition s_pin0 : state := exec po0 100 init cacheA.
