(** C14 — pin counters across a crash inside a collection run (clause 2).
    The run rewrites pin counters with DIRECT writes, one per pyramid entry
    whose chunk is pinned more often than the entry's number.  When no chunk
    address occurs twice in the pyramids of the chunkinfo table, every pin
    counter is written at most once in the whole run (directly or by the batch),
    hence after a crash it has its value of before or of after.  (With a chunk
    in two evicted files it is written twice: Props.v has the counterexample.) *)
From Coq Require Import List NArith ZArith Bool Lia.
Import ListNotations.
Require Import Aurora.C11.Model Aurora.C11.Maps Aurora.C14.Model Aurora.C14.ProofsGroups Aurora.C14.ProofsCrash.
Local Open Scope N_scope.

(** writes that touch the pin entry of [a] *)
Definition touchb (a : addr) (w : write) : bool :=
  match w with
  | WPin a' _ => bytes_eqb a a'
  | WPinDel a' => bytes_eqb a a'
  | _ => false
  end.
Definition tc (a : addr) (W : list write) : nat := length (filter (touchb a) W).
Definition cntb (a : addr) (l : list addr) : nat := length (filter (bytes_eqb a) l).

Lemma tc_app a x y : tc a (x ++ y) = (tc a x + tc a y)%nat.
Proof. unfold tc. now rewrite filter_app, app_length. Qed.
Lemma cntb_app a x y : cntb a (x ++ y) = (cntb a x + cntb a y)%nat.
Proof. unfold cntb. now rewrite filter_app, app_length. Qed.
Lemma tc_cons a w W : tc a (w :: W) = ((if touchb a w then 1 else 0) + tc a W)%nat.
Proof. unfold tc. simpl. destruct (touchb a w); reflexivity. Qed.
Lemma cntb_cons a x l : cntb a (x :: l) = ((if bytes_eqb a x then 1 else 0) + cntb a l)%nat.
Proof. unfold cntb. simpl. destruct (bytes_eqb a x); reflexivity. Qed.

Lemma cntb_notin a l : ~ In a l -> cntb a l = 0%nat.
Proof.
  induction l as [|x l IH]; intros H; [reflexivity|]. rewrite cntb_cons.
  destruct (bytes_eqb a x) eqn:E.
  - apply bytes_eqb_eq in E. subst. exfalso. apply H. now left.
  - rewrite IH; [reflexivity|]. intros Hi. apply H. now right.
Qed.
Lemma cntb_nodup a l : NoDup l -> (cntb a l <= 1)%nat.
Proof.
  induction 1 as [|x l Hn Hd IH]; [unfold cntb; simpl; lia|]. rewrite cntb_cons.
  destruct (bytes_eqb a x) eqn:E; [|lia].
  apply bytes_eqb_eq in E. subst. rewrite cntb_notin by exact Hn. lia.
Qed.

(** a write that does not touch [a] leaves its pin entry alone *)
Lemma untouched_write a w s : touchb a w = false -> pin_get (apply_write s w) a = pin_get s a.
Proof.
  destruct w; simpl; intros H; try reflexivity; unfold pin_get; simpl.
  - apply (alookup_ainsert_other cmp_bytes cmp_bytes_eq). intros ->. now rewrite bytes_eqb_refl in H.
  - apply (alookup_aremove_other cmp_bytes cmp_bytes_eq). intros ->. now rewrite bytes_eqb_refl in H.
Qed.
Lemma untouched a W : forall s, tc a W = 0%nat -> pin_get (commit s W) a = pin_get s a.
Proof.
  induction W as [|w W IH]; intros s H; [reflexivity|]. rewrite tc_cons in H.
  destruct (touchb a w) eqn:E; [lia|]. unfold commit in *. simpl. rewrite IH by lia. now apply untouched_write.
Qed.

(** ** at most one pin write per pyramid entry *)
Lemma tc_snoc_pindel a b cid : tc a (b ++ [WPinDel cid]) = (tc a b + (if bytes_eqb a cid then 1 else 0))%nat.
Proof. rewrite tc_app, tc_cons. simpl. unfold tc. simpl. lia. Qed.
Lemma tc_snoc_datadel a b cid : tc a (b ++ [WDataDel cid]) = tc a b.
Proof. rewrite tc_app. unfold tc at 2. simpl. lia. Qed.

Lemma gc_chunks_count a l : forall s b cnt,
  (tc a (gc_chunks_d s l) + tc a (snd (fst (gc_chunks s b cnt l))) <= tc a b + cntb a (map fst l))%nat.
Proof.
  induction l as [|[cid num] l IH]; intros s b cnt; simpl; [unfold cntb; simpl; lia|].
  rewrite cntb_cons.
  destruct (pin_get s cid) as [pc|].
  - destruct (num <? pc).
    + rewrite tc_cons. cbn [touchb]. specialize (IH (apply_write s (WPin cid (pc - num))) b cnt). cbn [apply_write] in IH.
      destruct (bytes_eqb a cid); lia.
    + destruct (data_has s cid).
      * specialize (IH s ((b ++ [WPinDel cid]) ++ [WDataDel cid]) (wadd cnt 1)).
        rewrite tc_snoc_datadel, tc_snoc_pindel in IH. lia.
      * specialize (IH s (b ++ [WPinDel cid]) cnt).
        rewrite tc_snoc_pindel in IH. lia.
  - destruct (data_has s cid).
    + specialize (IH s (b ++ [WDataDel cid]) (wadd cnt 1)).
      rewrite tc_snoc_datadel in IH. lia.
    + specialize (IH s b cnt). lia.
Qed.

Lemma cntb_aremove a r (pyr : pyramids) : (cntb a (pyr_cids (aremove cmp_bytes r pyr)) <= cntb a (pyr_cids pyr))%nat.
Proof.
  induction pyr as [|[k v] pyr IH]; simpl; [lia|].
  destruct (cmp_bytes r k); simpl; rewrite ?cntb_app; lia.
Qed.
Lemma cntb_alookup a r (pyr : pyramids) chunks : alookup cmp_bytes r pyr = Some chunks ->
  (cntb a (map fst chunks) + cntb a (pyr_cids (aremove cmp_bytes r pyr)) <= cntb a (pyr_cids pyr))%nat.
Proof.
  induction pyr as [|[k v] pyr IH]; simpl; [discriminate|].
  destruct (cmp_bytes r k); intros H.
  - inversion H; subst. rewrite cntb_app. pose proof (cntb_aremove a r pyr). lia.
  - simpl. rewrite !cntb_app. specialize (IH H). lia.
  - simpl. rewrite !cntb_app. specialize (IH H). lia.
Qed.

Lemma gc_evict_count a cands : forall s b cnt pyr rec,
  (tc a (gc_evict_d s pyr cands) + tc a (snd (fst (fst (gc_evict s b cnt pyr cands rec)))) <= tc a b + cntb a (pyr_cids pyr))%nat.
Proof.
  induction cands as [|[k c] cands IH]; intros s b cnt pyr rec; simpl; [lia|].
  destruct (alookup cmp_bytes (snd k) pyr) as [chunks|] eqn:L; [|apply IH].
  destruct (mem_addr (snd k) (s_dirty s)); [apply IH|].
  pose proof (gc_chunks_count a chunks s b 0) as C1.
  destruct (gc_chunks_spec chunks s b 0) as [A _].
  destruct (gc_chunks s b 0 chunks) as [[s' b'] n]. simpl in A, C1. subst s'.
  specialize (IH (commit s (gc_chunks_d s chunks)) b' (wadd cnt n) (aremove cmp_bytes (snd k) pyr) (rec ++ [(k, c)])).
  pose proof (cntb_alookup a _ _ _ L). rewrite tc_app. lia.
Qed.

Lemma tc_recycled a (recycled : list (gckey * N)) :
  tc a (flat_map (fun kc => [WDataDel (snd (fst kc)); WAccessDel (snd (fst kc)); WGcDel (fst kc)]) recycled) = 0%nat.
Proof. induction recycled as [|x l IH]; [reflexivity|]. simpl. exact IH. Qed.

Lemma tc_split a D k : tc a D = (tc a (firstn k D) + tc a (skipn k D))%nat.
Proof. rewrite <- tc_app. now rewrite firstn_skipn. Qed.

Section Pins.
  Variable po : addr -> N.
  Variable capacity : N.

  (** clause (2) for a collection run over a table without repeated chunk addresses *)
  Theorem crash_pins_gc s pyr k : NoDup (pyr_cids pyr) ->
    pins_ok s (fst (step po capacity s (OGcEnd pyr))) (recovered po k s (OGcEnd pyr)).
  Proof.
    intros ND a. unfold recovered.
    assert (RP : forall x, pin_get (fst (reopen x)) a = pin_get x a) by (intros x; unfold pin_get; now rewrite reopen_pin).
    rewrite !RP.
    assert (P : pin_get (fst (step po capacity s (OGcEnd pyr))) a = pin_get (apply_groups s (groups po s (OGcEnd pyr))) a).
    { destruct (groups_full po capacity s (OGcEnd pyr)) as (_ & _ & _ & E & _). unfold pin_get. now rewrite E. }
    rewrite P. clear P RP. unfold crash. simpl groups.
    destruct (s_gcrun s) as [ctx|]; [|left; destruct k; reflexivity].
    pose proof (gc_evict_count a (g_cands ctx) s [] 0 pyr []) as C.
    destruct (gc_evict s [] 0 pyr (g_cands ctx) []) as [[[s1 b1] cnt] recycled]. simpl in C.
    pose proof (cntb_nodup a _ ND) as C2.
    set (D := gc_evict_d s pyr (g_cands ctx)) in *.
    match goal with |- context [singles D ++ [?B]] => set (Bt := B) end.
    assert (TB : tc a Bt = tc a b1).
    { unfold Bt. rewrite !tc_app, tc_recycled. unfold tc at 2. simpl. lia. }
    assert (FULL : apply_groups s (singles D ++ [Bt]) = commit (commit (commit s (firstn k D)) (skipn k D)) Bt).
    { rewrite apply_groups_app, apply_groups_singles. unfold apply_groups. cbn [fold_left].
      rewrite <- (firstn_skipn k D) at 1. rewrite commit_app. reflexivity. }
    destruct (Nat.le_gt_cases k (length D)) as [H|H].
    - assert (PRE : apply_groups s (firstn k (singles D ++ [Bt])) = commit s (firstn k D)).
      { rewrite firstn_app. unfold singles at 2. rewrite map_length.
        replace (k - length D)%nat with 0%nat by lia. simpl firstn. rewrite app_nil_r.
        unfold singles. rewrite firstn_map. apply (apply_groups_singles (firstn k D)). }
      rewrite PRE, FULL.
      pose proof (tc_split a D k) as S.
      destruct (tc a (firstn k D)) eqn:T0.
      + left. apply untouched. exact T0.
      + right. symmetry. rewrite untouched by lia. apply untouched. lia.
    - right. rewrite firstn_all2; [reflexivity|]. rewrite app_length. unfold singles. rewrite map_length. simpl. lia.
  Qed.
End Pins.
