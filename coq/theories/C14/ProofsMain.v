(** C14 — assembly of the crash lemmas into the statement of Props.v, from an
    ARBITRARY state (reachable or not). *)
From Coq Require Import List NArith ZArith Bool Lia.
Import ListNotations.
Require Import Aurora.C11.Model Aurora.C11.Maps Aurora.C14.Model Aurora.C14.ProofsGroups
  Aurora.C14.ProofsCrash Aurora.C14.ProofsPins Aurora.C14.ProofsBound.
Local Open Scope N_scope.

Section Main.
  Variable po : addr -> N.
  Variable capacity : N.

  Lemma recovered_counter k s o : counter_ok (recovered po k s o).
  Proof. apply reopen_counter. Qed.

  Lemma pins_ok_of_all pre post c :
    (forall a, pin_get c a = pin_get pre a) \/ (forall a, pin_get c a = pin_get post a) -> pins_ok pre post c.
  Proof. intros [H|H] a; [left | right]; apply H. Qed.

  Theorem crash_safe_from s o k :
    let post := fst (step po capacity s o) in
    let c := recovered po k s o in
    counter_ok c /\
    (is_gc_end o = true -> forall a, pval post a <= pval c a /\ pval c a <= pval s a) /\
    (single_commit o = true ->
       (same_chunks c s \/ same_chunks c post) /\
       (chunks_ok s -> chunks_ok post -> chunks_ok c) /\
       (is_gc_end o = false ->
          (forall a, pin_get c a = pin_get s a) \/ (forall a, pin_get c a = pin_get post a)) /\
       (NoDup (op_cids o) -> pins_ok s post c) /\
       ((length (groups po s o) <= 1)%nat -> c = fst (reopen s) \/ c = fst (reopen post))).
  Proof.
    intros post c. split; [apply recovered_counter|]. split.
    { intros G a. destruct o; try discriminate G. exact (crash_pins_gc_bound po capacity s pyr k a). }
    intros SC.
    pose proof (crash_chunks po capacity s o k SC) as CH. fold c post in CH.
    split; [exact CH|]. split; [|split; [|split]].
    - intros H1 H2. destruct CH as [CH|CH]; eapply same_chunks_chunks_ok; eauto.
    - intros NG. exact (crash_pins_not_gc po capacity s o k SC NG).
    - intros ND. destruct (is_gc_end o) eqn:G.
      + destruct o; try discriminate G. exact (crash_pins_gc po capacity s pyr k ND).
      + apply pins_ok_of_all. exact (crash_pins_not_gc po capacity s o k SC G).
    - intros L. exact (crash_atomic po capacity s o k L).
  Qed.
End Main.
