(** C14 — the write groups of [Aurora.C14.Model.groups] ARE the C11
    operation: applying all of them yields the state of [step] (on every
    persisted component), the direct writes listed by the [_d] functions are
    the ones the C11 loops apply to the state, and each of them rewrites the
    VALUE of an entry that exists (a GCounter in put/set, a PinCounter in a
    collection run). *)
From Coq Require Import List NArith ZArith Bool Lia.
Import ListNotations.
Require Import Aurora.C11.Model Aurora.C11.Maps Aurora.C14.Model.
Local Open Scope N_scope.

(** ** equality of the persisted components *)
Definition peq (a b : state) : Prop :=
  s_data a = s_data b /\ s_access a = s_access b /\ s_gc a = s_gc b /\
  s_pin a = s_pin b /\ s_bins a = s_bins b /\ s_gcsize a = s_gcsize b.

Lemma peq_refl a : peq a a.
Proof. repeat split. Qed.
Lemma peq_sym a b : peq a b -> peq b a.
Proof. intros (A & B & C & D & E & F). repeat split; congruence. Qed.
Lemma peq_trans a b c : peq a b -> peq b c -> peq a c.
Proof. intros (A & B & C & D & E & F) (A' & B' & C' & D' & E' & F'). repeat split; congruence. Qed.

Lemma peq_apply_write a b w : peq a b -> peq (apply_write a w) (apply_write b w).
Proof.
  intros (A & B & C & D & E & F). destruct w; simpl; repeat split; simpl; congruence.
Qed.
Lemma peq_commit b : forall x y, peq x y -> peq (commit x b) (commit y b).
Proof.
  unfold commit. induction b as [|w b IH]; simpl; intros x y H; [exact H|].
  apply IH. now apply peq_apply_write.
Qed.
Lemma peq_set_gcrun s v d : peq (set_gcrun s v d) s.
Proof. repeat split. Qed.
Lemma peq_mark_dirty s l : peq (mark_dirty s l) s.
Proof. unfold mark_dirty. destruct (s_gcrun s); [apply peq_set_gcrun | apply peq_refl]. Qed.
Lemma peq_reopen x y : peq x y -> fst (reopen x) = fst (reopen y).
Proof.
  intros (A & B & C & D & E & F). unfold reopen. simpl. rewrite C, F.
  destruct x, y; simpl in *; subst. destruct (_ <? _); reflexivity.
Qed.
Lemma peq_apply_groups gs : forall x y, peq x y -> peq (apply_groups x gs) (apply_groups y gs).
Proof.
  unfold apply_groups. induction gs as [|g gs IH]; simpl; intros x y H; [exact H|].
  apply IH. now apply peq_commit.
Qed.

Lemma commit_app s a b : commit s (a ++ b) = commit (commit s a) b.
Proof. unfold commit. apply fold_left_app. Qed.
Lemma apply_groups_app s a b : apply_groups s (a ++ b) = apply_groups (apply_groups s a) b.
Proof. unfold apply_groups. apply fold_left_app. Qed.
Lemma apply_groups_singles D : forall s, apply_groups s (singles D) = commit s D.
Proof. induction D as [|w D IH]; intros s; simpl; [reflexivity|]. apply IH. Qed.
Lemma commit_dirty b : forall s, s_dirty (commit s b) = s_dirty s.
Proof.
  unfold commit. induction b as [|w b IH]; intros s; simpl; [reflexivity|].
  rewrite IH. destruct w; reflexivity.
Qed.

(** ** lists of value-only direct writes *)
Fixpoint gco (s : state) (D : list write) : Prop :=
  match D with
  | [] => True
  | w :: r => (exists k v, w = WGc k v /\ gc_get s k <> None) /\ gco (apply_write s w) r
  end.
Fixpoint pno (s : state) (D : list write) : Prop :=
  match D with
  | [] => True
  | w :: r => (exists a v, w = WPin a v /\ pin_get s a <> None) /\ pno (apply_write s w) r
  end.
Lemma gco_app D1 : forall s D2, gco s (D1 ++ D2) <-> gco s D1 /\ gco (commit s D1) D2.
Proof.
  induction D1 as [|w D1 IH]; intros s D2; simpl; [tauto|].
  rewrite IH. unfold commit. simpl. tauto.
Qed.
Lemma pno_app D1 : forall s D2, pno s (D1 ++ D2) <-> pno s D1 /\ pno (commit s D1) D2.
Proof.
  induction D1 as [|w D1 IH]; intros s D2; simpl; [tauto|].
  rewrite IH. unfold commit. simpl. tauto.
Qed.
Lemma gco_peq D : forall x y, peq x y -> gco x D -> gco y D.
Proof.
  induction D as [|w D IH]; simpl; intros x y H; [tauto|].
  intros [(k & v & E & G) R]. split.
  - exists k, v. split; [exact E|]. unfold gc_get in *. destruct H as (_ & _ & C & _). now rewrite <- C.
  - apply (IH (apply_write x w)); [now apply peq_apply_write | exact R].
Qed.
Lemma gco_firstn D : forall s n, gco s D -> gco s (firstn n D).
Proof.
  induction D as [|w D IH]; intros s n H; destruct n; simpl; try exact I.
  destruct H as [H R]. split; [exact H | now apply IH].
Qed.
Lemma pno_firstn D : forall s n, pno s D -> pno s (firstn n D).
Proof.
  induction D as [|w D IH]; intros s n H; destruct n; simpl; try exact I.
  destruct H as [H R]. split; [exact H | now apply IH].
Qed.

(** what such writes leave alone *)
Lemma ahas_value_only {K V} (cmp : K -> K -> comparison) (Hc : forall a b, cmp a b = Eq <-> a = b)
      (m : list (K * V)) k v k' :
  alookup cmp k m <> None -> ahas cmp k' (ainsert cmp k v m) = ahas cmp k' m.
Proof.
  intros H. unfold ahas. destruct (Hc k' k) as [_ Hr].
  destruct (cmp k' k) eqn:E.
  - apply Hc in E. subst k'. rewrite (alookup_ainsert_same cmp Hc).
    destruct (alookup cmp k m); [reflexivity | contradiction].
  - rewrite (alookup_ainsert_other cmp Hc); [reflexivity|]. intros EE. apply Hr in EE. congruence.
  - rewrite (alookup_ainsert_other cmp Hc); [reflexivity|]. intros EE. apply Hr in EE. congruence.
Qed.

Lemma gco_commit D : forall s, gco s D ->
  let s' := commit s D in
  s_data s' = s_data s /\ s_access s' = s_access s /\ s_pin s' = s_pin s /\ s_bins s' = s_bins s /\
  s_gcsize s' = s_gcsize s /\ forall k, ahas cmp_gckey k (s_gc s') = ahas cmp_gckey k (s_gc s).
Proof.
  induction D as [|w D IH]; intros s H; simpl; [repeat split|].
  destruct H as [(k & v & -> & G) R]. specialize (IH _ R). simpl in IH.
  destruct IH as (A & B & C & D' & E & F). unfold commit in *. simpl.
  repeat split; try assumption.
  intros k'. rewrite F. simpl. apply (ahas_value_only cmp_gckey cmp_gckey_eq). exact G.
Qed.
Lemma pno_commit D : forall s, pno s D ->
  let s' := commit s D in
  s_data s' = s_data s /\ s_access s' = s_access s /\ s_gc s' = s_gc s /\ s_bins s' = s_bins s /\
  s_gcsize s' = s_gcsize s /\ forall a, pin_has s' a = pin_has s a.
Proof.
  induction D as [|w D IH]; intros s H; simpl; [repeat split|].
  destruct H as [(a & v & -> & G) R]. specialize (IH _ R). simpl in IH.
  destruct IH as (A & B & C & D' & E & F). unfold commit in *. simpl.
  repeat split; try assumption.
  intros a'. rewrite F. unfold pin_has. simpl. apply (ahas_value_only cmp_bytes cmp_bytes_eq). exact G.
Qed.

Section Groups.
  Variable po : addr -> N.
  Variable capacity : N.

  (** ** setPin *)
  Lemma spi_spec s b a root rbin :
    match set_pin_item s b a root rbin with
    | Ok _ s' _ => s' = commit s (spi_direct s root rbin)
    | Fail _ s' => s' = s
    end.
  Proof.
    unfold set_pin_item, spi_direct. destruct root as [r|]; [|reflexivity].
    destruct (access_get s r); [|reflexivity]. destruct (data_get s r); [|reflexivity].
    destruct (gc_get s _); [|reflexivity]. destruct (_ =? 1); reflexivity.
  Qed.
  Lemma spi_gco s root rbin : gco s (spi_direct s root rbin).
  Proof.
    unfold spi_direct. destruct root as [r|]; [|exact I].
    destruct (access_get s r); [|exact I]. destruct (data_get s r); [|exact I].
    destruct (gc_get s _) eqn:G; [|exact I]. destruct (_ =? 1); [exact I|].
    simpl. split; [|exact I]. eexists _, _. split; [reflexivity|]. rewrite G. discriminate.
  Qed.

  (** ** the put loop *)
  Lemma put_one_spec t mode root s b acc c :
    match put_one po t mode root s b acc c with
    | Ok _ s' _ => s' = commit s (put_one_d po mode root s acc c)
    | Fail _ s' => s' = s
    end.
  Proof.
    unfold put_one, put_one_d. destruct c as [a d]. destruct (mem_addr a (pa_seen acc)); [reflexivity|].
    destruct mode; try reflexivity.
    - destruct (data_has s a); [reflexivity|]. destruct (inc_bin_id s (pa_bins acc) (po a)) as [id bins'].
      unfold set_gc_root. destruct root as [r|]; [|reflexivity].
      destruct (access_get s r); destruct (if _ =? 0 then _ else _); reflexivity.
    - destruct (data_has s a); [reflexivity|]. destruct (inc_bin_id s (pa_bins acc) (po a)) as [id bins']. reflexivity.
    - destruct (data_has s a).
      + pose proof (spi_spec s b a root 0) as H. destruct (set_pin_item s b a root 0); exact H.
      + destruct (inc_bin_id s (pa_bins acc) (po a)) as [id bins'].
        match goal with |- context [set_pin_item s ?bb a root 0] => pose proof (spi_spec s bb a root 0) as H; destruct (set_pin_item s bb a root 0); exact H end.
    - destruct (data_has s a); [reflexivity|]. destruct (inc_bin_id s (pa_bins acc) (po a)) as [id bins'].
      match goal with |- context [set_pin_item s ?bb a root ?rb] => pose proof (spi_spec s bb a root rb) as H; destruct (set_pin_item s bb a root rb); exact H end.
  Qed.
  Lemma put_one_gco mode root s acc c : gco s (put_one_d po mode root s acc c).
  Proof.
    unfold put_one_d. destruct c as [a d]. destruct (mem_addr _ _); [exact I|].
    destruct mode; try exact I.
    - apply spi_gco.
    - destruct (data_has s a); [exact I|]. destruct (inc_bin_id _ _ _). apply spi_gco.
  Qed.

  Lemma put_loop_spec t mode root chs : forall s b acc,
    (match put_loop po t mode root s b acc chs with
     | Ok _ s' _ => s' = commit s (put_loop_d po t mode root s b acc chs)
     | Fail _ s' => s' = commit s (put_loop_d po t mode root s b acc chs)
     end) /\ gco s (put_loop_d po t mode root s b acc chs).
  Proof.
    induction chs as [|c chs IH]; intros s b acc; simpl; [split; [reflexivity | exact I]|].
    pose proof (put_one_spec t mode root s b acc c) as H1.
    pose proof (put_one_gco mode root s acc c) as H2.
    destruct (put_one po t mode root s b acc c) as [acc' s' b'|e s'].
    - specialize (IH s' b' acc'). destruct IH as [IH1 IH2]. subst s'. split.
      + rewrite commit_app. destruct (put_loop _ _ _ _ _ _ _ _); exact IH1.
      + apply gco_app. split; assumption.
    - subst s'. split; [reflexivity | exact I].
  Qed.

  (** ** the set loop *)
  Lemma set_one_spec t mode root s b a :
    match set_one t mode root s b a with
    | Ok _ s' _ => s' = commit s (set_one_d mode root s a)
    | Fail _ s' => s' = s
    end.
  Proof.
    unfold set_one, set_one_d. destruct mode.
    - unfold set_sync. destruct (data_get s a); [|reflexivity]. destruct (access_get s a); destruct (pin_has s a); reflexivity.
    - unfold set_remove. destruct (data_get s a); [|reflexivity].
      destruct (pin_get s a) as [pc|].
      + destruct (0 <? wsub pc 1); [reflexivity|].
        destruct (access_get s (root_bytes root)); [|reflexivity]. destruct (data_get s (root_bytes root)); [|reflexivity].
        destruct (gc_get s _); [|reflexivity]. destruct (1 <? _); reflexivity.
      + destruct (access_get s (root_bytes root)); [|reflexivity]. destruct (data_get s (root_bytes root)); [|reflexivity].
        destruct (gc_get s _); [|reflexivity]. destruct (1 <? _); reflexivity.
    - destruct (data_has s a); [|reflexivity].
      pose proof (spi_spec s b a root 0) as H. destruct (set_pin_item s b a root 0); exact H.
    - unfold set_unpin. destruct (pin_get s a) as [pc|]; [|reflexivity]. destruct (1 <? pc); [reflexivity|].
      destruct root as [r|]; [|reflexivity]. destruct (access_get s r); destruct (data_get s r); reflexivity.
    - reflexivity.
  Qed.
  Lemma set_one_gco mode root s a : gco s (set_one_d mode root s a).
  Proof. unfold set_one_d. destruct mode; try exact I. destruct (data_has s a); [apply spi_gco | exact I]. Qed.

  Lemma set_loop_spec t mode root addrs : forall s b ch,
    (match set_loop t mode root s b ch addrs with
     | Ok _ s' _ => s' = commit s (set_loop_d t mode root s b addrs)
     | Fail _ s' => s' = commit s (set_loop_d t mode root s b addrs)
     end) /\ gco s (set_loop_d t mode root s b addrs).
  Proof.
    induction addrs as [|a addrs IH]; intros s b ch; simpl; [split; [reflexivity | exact I]|].
    pose proof (set_one_spec t mode root s b a) as H1.
    pose proof (set_one_gco mode root s a) as H2.
    destruct (set_one t mode root s b a) as [c s' b'|e s'].
    - specialize (IH s' b' (ch + c)%Z). destruct IH as [IH1 IH2]. subst s'. split.
      + rewrite commit_app. destruct (set_loop _ _ _ _ _ _ _); exact IH1.
      + apply gco_app. split; assumption.
    - subst s'. split; [reflexivity | exact I].
  Qed.

  (** ** [finish] = commit of [finish_batch] *)
  Lemma finish_spec s b ch : fst (finish capacity s b ch) = commit s (finish_batch s b ch).
  Proof.
    unfold finish, finish_batch. destruct (ch =? 0)%Z; [reflexivity|].
    destruct (0 <? ch)%Z; [reflexivity|]. destruct (_ <? _); reflexivity.
  Qed.

  (** ** the collection run *)
  Lemma gc_chunks_spec l : forall s b cnt,
    fst (fst (gc_chunks s b cnt l)) = commit s (gc_chunks_d s l) /\ pno s (gc_chunks_d s l).
  Proof.
    induction l as [|[cid num] l IH]; intros s b cnt; simpl; [split; [reflexivity | exact I]|].
    destruct (pin_get s cid) as [pc|] eqn:P.
    - destruct (num <? pc).
      + destruct (IH (apply_write s (WPin cid (pc - num))) b cnt) as [A B]. split; [exact A|].
        simpl. split; [|exact B]. eexists _, _. split; [reflexivity|]. rewrite P. discriminate.
      + destruct (data_has s cid); apply IH.
    - destruct (data_has s cid); apply IH.
  Qed.

  Lemma gc_evict_spec cands : forall s b cnt pyr rec,
    fst (fst (fst (gc_evict s b cnt pyr cands rec))) = commit s (gc_evict_d s pyr cands) /\
    pno s (gc_evict_d s pyr cands).
  Proof.
    induction cands as [|[k c] cands IH]; intros s b cnt pyr rec; simpl; [split; [reflexivity | exact I]|].
    destruct (alookup cmp_bytes (snd k) pyr) as [chunks|]; [|apply IH].
    destruct (mem_addr (snd k) (s_dirty s)); [apply IH|].
    destruct (gc_chunks_spec chunks s b 0) as [A B].
    destruct (gc_chunks s b 0 chunks) as [[s' b'] n]. simpl in A. subst s'.
    destruct (IH (commit s (gc_chunks_d s chunks)) b' (wadd cnt n) (aremove cmp_bytes (snd k) pyr) (rec ++ [(k, c)])) as [A' B'].
    split.
    - rewrite commit_app. exact A'.
    - apply pno_app. split; assumption.
  Qed.

  (** ** updateGC *)
  Lemma update_gc_spec t a bin0 s : peq (update_gc t a bin0 s) (apply_groups s (update_gc_g t a bin0 s)).
  Proof.
    unfold update_gc, update_gc_g.
    assert (HA : access_get (mark_dirty s [a]) a = access_get s a) by (unfold mark_dirty; destruct (s_gcrun s); reflexivity).
    assert (HD : data_get (mark_dirty s [a]) a = data_get s a) by (unfold mark_dirty; destruct (s_gcrun s); reflexivity).
    assert (HG : forall k, gc_get (mark_dirty s [a]) k = gc_get s k) by (intros k; unfold mark_dirty; destruct (s_gcrun s); reflexivity).
    rewrite HA, HD. destruct (match access_get s a with Some x => x | None => 0 end =? 0); [apply peq_mark_dirty|].
    destruct (if bin0 =? 0 then _ else _) as [bin|]; [|apply peq_mark_dirty].
    rewrite HG. destruct (gc_get s _); [|apply peq_mark_dirty].
    unfold apply_groups. cbn [fold_left]. apply peq_commit. apply peq_mark_dirty.
  Qed.

  Lemma update_gc_items_spec t items : forall s x, peq x s ->
    peq (fold_left (fun st ae => update_gc t (fst ae) (d_bin (snd ae)) st) items s)
        (apply_groups x (update_gc_items_g t items s)).
  Proof.
    induction items as [|[a e] items IH]; intros s x H; simpl; [now apply peq_sym|].
    rewrite apply_groups_app. apply IH.
    apply peq_sym. eapply peq_trans; [apply update_gc_spec|]. apply peq_apply_groups. now apply peq_sym.
  Qed.

  (** ** all groups = the C11 step, on every persisted component *)
  Theorem groups_full s o : peq (apply_groups s (groups po s o)) (fst (step po capacity s o)).
  Proof.
    destruct o as [t mode root chs|t mode root a|t mode addrs|mode a|mode addrs|t mode root addrs|tg bs|pyr|]; simpl.
    - (* put *)
      unfold put.
      destruct (match chs with [(a, _)] => negb (pin_mode mode) && data_has s a | _ => false end); [apply peq_refl|].
      assert (G : forall mode', mode' = mode -> mode <> PInvalid ->
        peq (apply_groups s
               (match put_loop po t mode' root (mark_dirty s (map fst chs)) [] acc0 chs with
                | Ok acc s' b => singles (put_loop_d po t mode' root (mark_dirty s (map fst chs)) [] acc0 chs) ++
                     [finish_batch s' (b ++ map (fun pi => WBin (fst pi) (snd pi)) (pa_bins acc)) (pa_change acc)]
                | Fail _ _ => singles (put_loop_d po t mode' root (mark_dirty s (map fst chs)) [] acc0 chs)
                end))
            (fst (match put_loop po t mode' root (mark_dirty s (map fst chs)) [] acc0 chs with
                  | Ok acc s' b =>
                      let b' := b ++ map (fun pi => WBin (fst pi) (snd pi)) (pa_bins acc) in
                      let '(s'', trig) := finish capacity s' b' (pa_change acc) in (s'', RPut (inr (pa_exist acc)) trig)
                  | Fail e s' => (s', RPut (inl e) false)
                  end))).
      { intros mode' -> _.
        destruct (put_loop_spec t mode root chs (mark_dirty s (map fst chs)) [] acc0) as [A _].
        destruct (put_loop po t mode root (mark_dirty s (map fst chs)) [] acc0 chs) as [acc s' b|e s'].
        - cbv zeta. pose proof (finish_spec s' (b ++ map (fun pi => WBin (fst pi) (snd pi)) (pa_bins acc)) (pa_change acc)) as F.
          destruct (finish capacity s' _ _) as [s'' trig]. simpl in F. simpl. subst s''.
          rewrite apply_groups_app, apply_groups_singles. simpl. apply peq_commit. subst s'.
          apply peq_commit. apply peq_sym, peq_mark_dirty.
        - simpl. rewrite apply_groups_singles. subst s'. apply peq_commit. apply peq_sym, peq_mark_dirty. }
      destruct mode; try (apply G; [reflexivity | discriminate]).
      simpl. apply peq_sym, peq_mark_dirty.
    - (* get *)
      unfold get. destruct (data_get s a) as [e|]; [|apply peq_refl].
      destruct mode; try apply peq_refl.
      + destruct (root_is_zero root); simpl; apply peq_sym, update_gc_spec.
      + destruct (pin_get s a); apply peq_refl.
    - (* get multi *)
      unfold get_multi. destruct (fill_data s addrs) as [items|]; [|apply peq_refl].
      destruct mode; try apply peq_refl.
      + simpl. apply peq_sym. apply update_gc_items_spec. apply peq_refl.
      + destruct (forallb _ _); apply peq_refl.
    - apply peq_refl.
    - apply peq_refl.
    - (* set *)
      unfold set.
      assert (G : forall mode', mode' = mode -> mode <> SInvalid ->
        peq (apply_groups s
               (match set_loop t mode' root (mark_dirty s addrs) [] 0%Z addrs with
                | Ok ch s' b => singles (set_loop_d t mode' root (mark_dirty s addrs) [] addrs) ++ [finish_batch s' b ch]
                | Fail _ _ => singles (set_loop_d t mode' root (mark_dirty s addrs) [] addrs)
                end))
            (fst (match set_loop t mode' root (mark_dirty s addrs) [] 0%Z addrs with
                  | Ok ch s' b => let '(s'', trig) := finish capacity s' b ch in (s'', RSet None trig)
                  | Fail e s' => (s', RSet (Some e) false)
                  end))).
      { intros mode' -> _.
        destruct (set_loop_spec t mode root addrs (mark_dirty s addrs) [] 0%Z) as [A _].
        destruct (set_loop t mode root (mark_dirty s addrs) [] 0%Z addrs) as [ch s' b|e s'].
        - pose proof (finish_spec s' b ch) as F.
          destruct (finish capacity s' b ch) as [s'' trig]. simpl in F. simpl. subst s''.
          rewrite apply_groups_app, apply_groups_singles. simpl. apply peq_commit. subst s'.
          apply peq_commit. apply peq_sym, peq_mark_dirty.
        - simpl. rewrite apply_groups_singles. subst s'. apply peq_commit. apply peq_sym, peq_mark_dirty. }
      destruct mode; try (apply G; [reflexivity | discriminate]).
      simpl. apply peq_sym, peq_mark_dirty.
    - (* gc begin *)
      unfold gc_begin. destruct (s_gcrun s); [apply peq_refl|]. destruct (_ <=? _); [apply peq_refl|].
      simpl. apply peq_sym, peq_set_gcrun.
    - (* gc end *)
      unfold gc_end. destruct (s_gcrun s) as [ctx|]; [|apply peq_refl].
      destruct (gc_evict_spec (g_cands ctx) s [] 0 pyr []) as [A _].
      destruct (gc_evict s [] 0 pyr (g_cands ctx) []) as [[[s1 b1] cnt] recycled]. simpl in A. subst s1.
      cbv zeta. simpl fst. rewrite apply_groups_app, apply_groups_singles. simpl.
      apply peq_sym. eapply peq_trans; [apply peq_set_gcrun|]. apply peq_refl.
    - (* reopen *)
      unfold reopen. simpl. destruct (_ <? _); simpl; apply peq_sym; [|apply peq_set_gcrun].
      eapply peq_trans; [apply peq_set_gcrun|]. apply peq_refl.
  Qed.

  (** ** shape of the group list of an operation that commits at most once:
      value-only direct writes, then at most one batch *)
  Theorem groups_shape s o : single_commit o = true ->
    exists D tail, groups po s o = singles D ++ tail /\ (length tail <= 1)%nat /\
      ((is_gc_end o = false /\ gco s D) \/ (is_gc_end o = true /\ pno s D)).
  Proof.
    intros SC.
    assert (E0 : forall tail, (length tail <= 1)%nat -> is_gc_end o = false ->
               exists D tail', tail = singles D ++ tail' /\ (length tail' <= 1)%nat /\
                 ((is_gc_end o = false /\ gco s D) \/ (is_gc_end o = true /\ pno s D))).
    { intros tail H G. exists [], tail. split; [reflexivity|]. split; [exact H|]. left. split; [exact G | exact I]. }
    destruct o as [t mode root chs|t mode root a|t mode addrs|mode a|mode addrs|t mode root addrs|tg bs|pyr|]; simpl.
    - destruct (match chs with [(a, _)] => negb (pin_mode mode) && data_has s a | _ => false end); [apply (E0 []); [simpl; lia | reflexivity]|].
      destruct (put_loop_spec t mode root chs (mark_dirty s (map fst chs)) [] acc0) as [_ B].
      apply (gco_peq _ _ s (peq_mark_dirty s (map fst chs))) in B.
      destruct mode; try (apply (E0 []); [simpl; lia | reflexivity]);
        (destruct (put_loop po t _ root (mark_dirty s (map fst chs)) [] acc0 chs) as [acc s' b|e s'];
         [eexists _, [_]; split; [reflexivity|]; split; [simpl; lia|]; left; split; [reflexivity | exact B]
         |eexists _, []; split; [now rewrite app_nil_r|]; split; [simpl; lia|]; left; split; [reflexivity | exact B]]).
    - destruct (data_get s a) as [e|]; [|apply (E0 []); [simpl; lia | reflexivity]].
      assert (U : forall a' b', (length (update_gc_g t a' b' s) <= 1)%nat).
      { intros a' b'. unfold update_gc_g. destruct (_ =? 0); [simpl; lia|].
        destruct (if b' =? 0 then _ else _); [|simpl; lia]. destruct (gc_get s _); simpl; lia. }
      destruct mode; try (apply (E0 []); [simpl; lia | reflexivity]).
      destruct (root_is_zero root); apply E0; try reflexivity; apply U.
    - destruct mode; try discriminate SC;
        (destruct (fill_data s addrs); apply (E0 []); try reflexivity; simpl; lia).
    - apply (E0 []); [simpl; lia | reflexivity].
    - apply (E0 []); [simpl; lia | reflexivity].
    - destruct (set_loop_spec t mode root addrs (mark_dirty s addrs) [] 0%Z) as [_ B].
      apply (gco_peq _ _ s (peq_mark_dirty s addrs)) in B.
      destruct mode; try (apply (E0 []); [simpl; lia | reflexivity]);
        (destruct (set_loop t _ root (mark_dirty s addrs) [] 0%Z addrs) as [ch s' b|e s'];
         [eexists _, [_]; split; [reflexivity|]; split; [simpl; lia|]; left; split; [reflexivity | exact B]
         |eexists _, []; split; [now rewrite app_nil_r|]; split; [simpl; lia|]; left; split; [reflexivity | exact B]]).
    - apply (E0 []); [simpl; lia | reflexivity].
    - destruct (s_gcrun s) as [ctx|].
      + destruct (gc_evict_spec (g_cands ctx) s [] 0 pyr []) as [_ B].
        destruct (gc_evict s [] 0 pyr (g_cands ctx) []) as [[[s1 b1] cnt] recycled].
        eexists _, [_]. split; [reflexivity|]. split; [simpl; lia|]. right. split; [reflexivity | exact B].
      + exists [], []. split; [reflexivity|]. split; [simpl; lia|]. right. split; [reflexivity | exact I].
    - apply E0; [|reflexivity]. destruct (_ <? _); simpl; lia.
  Qed.
End Groups.
