(** C05 / C34 — lemmas about the model of pkg/crypto ([Sig]). *)
From Coq Require Import List NArith ZArith Bool Arith Lia ZifyBool ZifyNat ZifyN.
Import ListNotations.
Require Import Aurora.C05.Sig.
Local Open Scope N_scope.
Ltac Zify.zify_post_hook ::= Z.div_mod_to_equations.

(** Textbook laws of the primitives (premises of the theorems; assumptions
    about Keccak / btcec, never about aurorafs):
    - Keccak-256 and SHA3-256 digests are 32 bytes;
    - SignCompact returns 65 bytes, recovery byte 27..30 (uncompressed form),
      low s;
    - RecoverCompact of a signature made by SignCompact over the same digest
      yields the signer's public key. *)
Record Laws (P : prims) : Prop := {
  K_len : forall x, length (K P x) = 32%nat;
  S3_len : forall x, length (S3 P x) = 32%nat;
  sign_len : forall k d, length (raw_sign P k d) = 65%nat;
  sign_canon : forall k d v rs, raw_sign P k d = v :: rs -> canonical (rs ++ [v]) = true;
  recover_sign : forall k d, raw_recover P (raw_sign P k d) d = Some (pub P k)
}.

Lemma bytes_eqb_eq a b : bytes_eqb a b = true <-> a = b.
Proof.
  revert b; induction a as [|x a IH]; intros [|y b]; simpl; split; intros Hq;
    try reflexivity; try discriminate.
  - apply andb_true_iff in Hq as [H1 H2]. apply N.eqb_eq in H1. apply IH in H2. now subst.
  - inversion Hq; subst. apply andb_true_iff; split; [apply N.eqb_refl | now apply IH].
Qed.
Lemma bytes_eqb_refl a : bytes_eqb a a = true.
Proof. now apply bytes_eqb_eq. Qed.
Lemma bytes_eqb_neq a b : bytes_eqb a b = false <-> a <> b.
Proof.
  split.
  - intros Hf He. apply bytes_eqb_eq in He. congruence.
  - intros Hn. destruct (bytes_eqb a b) eqn:E; [|reflexivity]. apply bytes_eqb_eq in E. contradiction.
Qed.
Lemma bytes_eq_dec (a b : bytes) : {a = b} + {a <> b}.
Proof. destruct (bytes_eqb a b) eqn:E; [left; now apply bytes_eqb_eq | right; now apply bytes_eqb_neq]. Qed.

Lemma sub_ok l lo hi : (lo <= hi)%nat -> (hi <= length l)%nat ->
  sub l lo hi = Some (firstn (hi - lo) (skipn lo l)).
Proof.
  intros H1 H2. unfold sub.
  apply Nat.leb_le in H1. apply Nat.leb_le in H2. now rewrite H1, H2.
Qed.

Lemma app_inv_len {A} (a b c d : list A) : length a = length c -> a ++ b = c ++ d -> a = c /\ b = d.
Proof.
  revert c; induction a as [|x a IH]; intros [|y c] Hl He; simpl in *; try discriminate.
  - now split.
  - inversion He; subst. destruct (IH c) as [-> ->]; auto.
Qed.

(** ---- lengths of the fixed-width encodings ---- *)
Lemma be_bytes_len n v : length (be_bytes n v) = n.
Proof. revert v; induction n as [|n IH]; intros v; simpl; [reflexivity|]. rewrite app_length, IH. simpl. lia. Qed.
Lemma le_bytes_len n v : length (le_bytes n v) = n.
Proof. revert v; induction n as [|n IH]; intros v; simpl; [reflexivity|]. now rewrite IH. Qed.

Lemma be_app l x : be (l ++ [x]) = be l * 256 + x.
Proof. unfold be. now rewrite fold_left_app. Qed.

(** [be_bytes n] is injective below 256^n *)
Lemma be_be_bytes n v : v < 256 ^ N.of_nat n -> be (be_bytes n v) = v.
Proof.
  revert v; induction n as [|n IH]; intros v Hv.
  - simpl in *. change (256 ^ 0) with 1 in Hv. cbn. lia.
  - cbn [be_bytes]. rewrite be_app, IH.
    + pose proof (N.div_mod v 256). lia.
    + rewrite Nat2N.inj_succ, N.pow_succ_r' in Hv.
      apply N.div_lt_upper_bound; lia.
Qed.
Lemma be_bytes_inj n v w : v < 256 ^ N.of_nat n -> w < 256 ^ N.of_nat n ->
  be_bytes n v = be_bytes n w -> v = w.
Proof. intros Hv Hw He. rewrite <- (be_be_bytes n v Hv), <- (be_be_bytes n w Hw). now rewrite He. Qed.

(** ---- sign / recover ---- *)

Lemma crypto_sign_shape P (L : Laws P) k data :
  exists v rs, raw_sign P k (hash_with_prefix P data) = v :: rs /\ length rs = 64%nat /\
               crypto_sign P k data = rs ++ [v].
Proof.
  pose proof (sign_len P L k (hash_with_prefix P data)) as Hl.
  unfold crypto_sign. destruct (raw_sign P k (hash_with_prefix P data)) as [|v rs]; simpl in Hl; [discriminate|].
  exists v, rs. repeat split. lia.
Qed.

Lemma crypto_sign_len P (L : Laws P) k data : length (crypto_sign P k data) = 65%nat.
Proof.
  destruct (crypto_sign_shape P L k data) as (v & rs & _ & Hl & ->).
  rewrite app_length. simpl. lia.
Qed.

Lemma crypto_sign_canonical P (L : Laws P) k data : canonical (crypto_sign P k data) = true.
Proof.
  destruct (crypto_sign_shape P L k data) as (v & rs & Hr & Hl & ->).
  eapply sign_canon; eauto.
Qed.

(** [Recover(Sign(data), data)] is the signer's public key *)
Lemma recover_sign_ok P (L : Laws P) k data :
  crypto_recover P (crypto_sign P k data) data = ROk (pub P k).
Proof.
  pose proof (crypto_sign_len P L k data) as Hlen.
  pose proof (crypto_sign_canonical P L k data) as Hc.
  destruct (crypto_sign_shape P L k data) as (v & rs & Hr & Hl & He).
  unfold crypto_recover. rewrite Hlen, Hc. cbn [Nat.eqb negb].
  change (Nat.eqb 65 65) with true. cbn [negb].
  rewrite He.
  replace (nth 64 (rs ++ [v]) 0) with v.
  2:{ rewrite app_nth2 by lia. rewrite Hl. now rewrite Nat.sub_diag. }
  replace (firstn 64 (rs ++ [v])) with rs.
  2:{ rewrite firstn_app, Hl, Nat.sub_diag. change (firstn 0 [v]) with (@nil N). rewrite app_nil_r. symmetry. apply firstn_all2. lia. }
  rewrite <- Hr. now rewrite (recover_sign P L).
Qed.

(** what [Recover] accepts is 65 bytes in canonical form *)
Lemma recover_ok_inv P sig data pk :
  crypto_recover P sig data = ROk pk ->
  length sig = 65%nat /\ canonical sig = true /\
  raw_recover P (nth 64 sig 0 :: firstn 64 sig) (hash_with_prefix P data) = Some pk.
Proof.
  unfold crypto_recover. intros Hq.
  destruct (Nat.eqb (length sig) 65) eqn:E1; cbn [negb] in Hq; [|discriminate].
  destruct (canonical sig) eqn:E2; cbn [negb] in Hq; [|discriminate].
  destruct (raw_recover P _ _) eqn:E3; [|discriminate].
  inversion Hq; subst. apply Nat.eqb_eq in E1. auto.
Qed.

(** the standard re-encodings of an accepted signature are rejected:
    recovery byte + 4 (btcec's compressed-key flag) and the twin (r, N - s) *)
Lemma noncanonical_rejected P sig data :
  length sig = 65%nat -> canonical sig = false -> crypto_recover P sig data = RErr RecNonCanon.
Proof. intros Hl Hc. unfold crypto_recover. rewrite Hl, Hc. reflexivity. Qed.

Lemma flag_variant_noncanonical sig sig' :
  canonical sig = true -> nth 64 sig' 0 = nth 64 sig 0 + 4 -> canonical sig' = false.
Proof.
  unfold canonical. intros Hc Hv. rewrite Hv.
  destruct (27 <=? nth 64 sig 0) eqn:E1; [|discriminate].
  destruct (nth 64 sig 0 <=? 30) eqn:E2; [|discriminate].
  apply N.leb_le in E1.
  assert (nth 64 sig 0 + 4 <=? 30 = false) as -> by (apply N.leb_gt; lia).
  now rewrite andb_false_r.
Qed.

Lemma twin_noncanonical sig sig' :
  canonical sig = true ->
  be (firstn 32 (skipn 32 sig')) = secp_n - be (firstn 32 (skipn 32 sig)) ->
  canonical sig' = false.
Proof.
  unfold canonical. intros Hc Hs. rewrite Hs.
  apply andb_true_iff in Hc as [_ Hc]. apply N.leb_le in Hc.
  assert (secp_n - be (firstn 32 (skipn 32 sig)) <=? secp_half_n = false) as ->.
  { apply N.leb_gt.
    assert (Hn : secp_n = 2 * secp_half_n + 1) by (vm_compute; reflexivity).
    remember (be (firstn 32 (skipn 32 sig))) as s eqn:Es. remember secp_half_n as h eqn:Eh.
    rewrite Hn. lia. }
  now rewrite andb_false_r.
Qed.

(** ---- prefix ---- *)
Lemma eth_prefix_split data : eth_prefix data = eth_magic ++ dec (N.of_nat (length data)) ++ data.
Proof. reflexivity. Qed.
