(** C05 — model of pkg/soc/soc.go, pkg/soc/validator.go and the parts of
    pkg/cac/cac.go they call. Definitions only; the cryptographic primitives
    are the abstract [prims] of [Sig]. *)
From Coq Require Import List NArith Bool Arith.
Import ListNotations.
Require Import Aurora.C05.Sig.
Local Open Scope N_scope.

(** constants of the Go packages (instantiated from [Consts] in Props/Corr) *)
Record params := {
  IdSize : nat;         (* soc.IdSize *)
  SigSize : nat;        (* soc.SignatureSize *)
  SpanSize : nat;       (* boson.SpanSize *)
  AddrSize : nat;       (* crypto.AddressSize *)
  MinChunk : nat;       (* soc.minChunkSize *)
  ChunkSize : N         (* boson.ChunkSize *)
}.

(** boson.Chunk: address and data *)
Record chunk := { c_addr : bytes; c_data : bytes }.

Inductive err :=
| EWrongChunkSize      (* soc: chunk length is less than minimum *)
| ECacTooLarge         (* cac: data too large *)
| ECacTooShort         (* cac: short chunk data *)
| ERecover (e : rec_err)  (* crypto.Recover failed *)
| EInvalidAddress.     (* soc: invalid address (owner not AddressSize bytes) *)

Inductive outcome (A : Type) := Ok (a : A) | Err (e : err) | Panic.
Arguments Ok {A} a. Arguments Err {A} e. Arguments Panic {A}.

Definition bind {A B} (x : outcome A) (f : A -> outcome B) : outcome B :=
  match x with Ok a => f a | Err e => Err e | Panic => Panic end.
Definition slice (l : bytes) (lo hi : nat) : outcome bytes :=
  match sub l lo hi with Some r => Ok r | None => Panic end.

Section Model.
Context (p : params) (P : prims).

(** ---- cac.go ---- *)

(** [newWithSpan(data, span)]: address = BMT(span, data), chunk data = span || data *)
Definition cac_new_with_span (data span : bytes) : chunk :=
  {| c_addr := bmt P span data; c_data := span ++ data |}.

(** [cac.New(payload)] *)
Definition cac_new (payload : bytes) : outcome chunk :=
  if ChunkSize p <? N.of_nat (length payload) then Err ECacTooLarge
  else if Nat.eqb (length payload) 0 then Err ECacTooShort
  else Ok (cac_new_with_span payload (le_bytes (SpanSize p) (N.of_nat (length payload)))).

(** [cac.NewWithDataSpan(data)] *)
Definition cac_new_with_data_span (data : bytes) : outcome chunk :=
  if ChunkSize p + N.of_nat (SpanSize p) <? N.of_nat (length data) then Err ECacTooLarge
  else if (length data <? SpanSize p)%nat then Err ECacTooShort
  else
    bind (slice data (SpanSize p) (length data)) (fun payload =>
    bind (slice data 0 (SpanSize p)) (fun span =>
    Ok (cac_new_with_span payload span))).

(** ---- soc.go ---- *)

Record soc := { s_id : bytes; s_owner : bytes; s_sig : bytes; s_chunk : chunk }.

(** [hash(values...)]: one Keccak over the concatenation *)
Definition soc_hash (a b : bytes) : bytes := K P (a ++ b).

(** [CreateAddress(id, owner)] *)
Definition create_address (id owner : bytes) : bytes := soc_hash id owner.

(** [SOC.address()] *)
Definition soc_address (s : soc) : outcome bytes :=
  if negb (Nat.eqb (length (s_owner s)) (AddrSize p)) then Err EInvalidAddress
  else Ok (create_address (s_id s) (s_owner s)).

(** [SOC.toBytes()] *)
Definition to_bytes (s : soc) : bytes := s_id s ++ s_sig s ++ c_data (s_chunk s).

(** [SOC.Chunk()] *)
Definition soc_chunk (s : soc) : outcome chunk :=
  bind (soc_address s) (fun a => Ok {| c_addr := a; c_data := to_bytes s |}).

(** [soc.New(id, ch).Sign(signer)] with the default signer of key [k] *)
Definition soc_sign (k id : bytes) (ch : chunk) : outcome chunk :=
  let owner := eth_of P (pub P k) in
  if negb (Nat.eqb (length owner) (AddrSize p)) then Err EInvalidAddress
  else
    let to_sign := soc_hash id (c_addr ch) in
    let sig := crypto_sign P k to_sign in
    soc_chunk {| s_id := id; s_owner := owner; s_sig := sig; s_chunk := ch |}.

(** [recoverAddress(signature, digest)] *)
Definition recover_address (sig digest : bytes) : outcome bytes :=
  match crypto_recover P sig digest with
  | ROk pk => Ok (eth_of P pk)
  | RErr e => Err (ERecover e)
  end.

(** [FromChunk(sch)] on the chunk's data *)
Definition from_chunk (data : bytes) : outcome soc :=
  if (length data <? MinChunk p)%nat then Err EWrongChunkSize
  else
    bind (slice data 0 (IdSize p)) (fun id =>
    bind (slice data (IdSize p) (IdSize p + SigSize p)) (fun sig =>
    bind (slice data (IdSize p + SigSize p) (length data)) (fun rest =>
    bind (cac_new_with_data_span rest) (fun ch =>
    let to_sign := soc_hash id (c_addr ch) in
    bind (recover_address sig to_sign) (fun owner =>
    if negb (Nat.eqb (length owner) (AddrSize p)) then Err EInvalidAddress
    else Ok {| s_id := id; s_owner := owner; s_sig := sig; s_chunk := ch |}))))).

(** validator.go [Valid(ch)] *)
Definition valid (ch : chunk) : outcome bool :=
  match from_chunk (c_data ch) with
  | Ok s =>
      match soc_address s with
      | Ok a => Ok (bytes_eqb (c_addr ch) a)
      | Err _ => Ok false
      | Panic => Panic
      end
  | Err _ => Ok false
  | Panic => Panic
  end.

End Model.
