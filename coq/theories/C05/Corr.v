(** C05 — correspondence: the harness runs the real pkg/soc / pkg/cac /
    pkg/crypto functions and records inputs, the real primitives' outputs
    (as a table) and what the functions returned; [check_case] recomputes the
    model's answer with the table-backed primitives. *)
From Coq Require Import List NArith ZArith Bool Arith.
Import ListNotations.
Require Import Aurora.Consts Aurora.C05.Model.
Require Export Aurora.C05.Sig Aurora.C05.Tables.
Local Open Scope N_scope.

Definition PP : params :=
  {| IdSize := Z.to_nat Consts.soc_IdSize; SigSize := Z.to_nat Consts.soc_SignatureSize;
     SpanSize := Z.to_nat Consts.boson_SpanSize; AddrSize := Z.to_nat Consts.crypto_AddressSize;
     MinChunk := Z.to_nat Consts.soc_minChunkSize; ChunkSize := Z.to_N Consts.boson_ChunkSize |}.

(** error classes as the harness numbers them *)
Definition err_class (e : err) : N :=
  match e with
  | EWrongChunkSize => 1
  | ECacTooLarge => 2
  | ECacTooShort => 3
  | ERecover RecLen => 4
  | ERecover RecNonCanon => 5   (* one class with RecRaw, see Tables.rec_class *)
  | ERecover RecRaw => 5
  | EInvalidAddress => 7
  end.

Inductive ochunk := OC (addr data : bytes) | OCErr (c : N) | OCPanic.
Inductive osoc := OS (id owner sig caddr cdata : bytes) | OSErr (c : N) | OSPanic.
Inductive obool := OB (b : bool) | OBPanic.
(** compact view of a parsed SOC: owner and wrapped address *)
Inductive osum := OSum (owner caddr : bytes) | OSumErr (c : N) | OSumPanic.

Definition ochunk_of (r : outcome chunk) : ochunk :=
  match r with Ok c => OC (c_addr c) (c_data c) | Err e => OCErr (err_class e) | Panic => OCPanic end.
Definition osoc_of (r : outcome soc) : osoc :=
  match r with
  | Ok s => OS (s_id s) (s_owner s) (s_sig s) (c_addr (s_chunk s)) (c_data (s_chunk s))
  | Err e => OSErr (err_class e) | Panic => OSPanic end.
Definition osum_of (r : outcome soc) : osum :=
  match r with
  | Ok s => OSum (s_owner s) (c_addr (s_chunk s))
  | Err e => OSumErr (err_class e) | Panic => OSumPanic end.
Definition obool_of (r : outcome bool) : obool :=
  match r with Ok b => OB b | Err _ => OBPanic | Panic => OBPanic end.

Definition ochunk_eqb (a b : ochunk) : bool :=
  match a, b with
  | OC x y, OC x' y' => bytes_eqb x x' && bytes_eqb y y'
  | OCErr c, OCErr c' => c =? c'
  | OCPanic, OCPanic => true
  | _, _ => false
  end.
Definition osoc_eqb (a b : osoc) : bool :=
  match a, b with
  | OS a1 a2 a3 a4 a5, OS b1 b2 b3 b4 b5 =>
      bytes_eqb a1 b1 && bytes_eqb a2 b2 && bytes_eqb a3 b3 && bytes_eqb a4 b4 && bytes_eqb a5 b5
  | OSErr c, OSErr c' => c =? c'
  | OSPanic, OSPanic => true
  | _, _ => false
  end.
Definition osum_eqb (a b : osum) : bool :=
  match a, b with
  | OSum x y, OSum x' y' => bytes_eqb x x' && bytes_eqb y y'
  | OSumErr c, OSumErr c' => c =? c'
  | OSumPanic, OSumPanic => true
  | _, _ => false
  end.
Definition obool_eqb (a b : obool) : bool :=
  match a, b with OB x, OB y => Bool.eqb x y | OBPanic, OBPanic => true | _, _ => false end.

(** an alteration of a serialized chunk or of its address *)
Inductive mutation :=
| MData (pos : nat) (bs : bytes)   (* overwrite data[pos : pos+len bs] *)
| MAddr (pos : nat) (bs : bytes)   (* overwrite address[pos : pos+len bs] *)
| MAppend (bs : bytes)             (* data ++ bs *)
| MTrunc (n : nat).                (* data[:n] *)

Definition splice (l : bytes) (pos : nat) (bs : bytes) : bytes :=
  firstn pos l ++ bs ++ skipn (pos + length bs) l.
Definition mutate (m : mutation) (c : chunk) : chunk :=
  match m with
  | MData pos bs => {| c_addr := c_addr c; c_data := splice (c_data c) pos bs |}
  | MAddr pos bs => {| c_addr := splice (c_addr c) pos bs; c_data := c_data c |}
  | MAppend bs => {| c_addr := c_addr c; c_data := c_data c ++ bs |}
  | MTrunc n => {| c_addr := c_addr c; c_data := firstn n (c_data c) |}
  end.

(** one alteration: the extra table entries it needs, what FromChunk and
    Valid returned on the altered chunk *)
Definition mut_obs := (mutation * list entry * osum * obool)%type.

Inductive case :=
| CPrefix (data obs : bytes)                                     (* addEthereumPrefix *)
| CSecp (n : N)                                                  (* btcec.S256().N *)
| CRecover (T : list entry) (sig data : bytes) (obs : orec)      (* crypto.Recover *)
| CSignData (T : list entry) (k data obs : bytes)                (* defaultSigner.Sign *)
| CCacNew (T : list entry) (payload : bytes) (obs : ochunk)      (* cac.New *)
| CSocSign (T : list entry) (k id caddr cdata : bytes) (obs : ochunk)  (* soc.New(id, ch).Sign *)
| CChunk (T : list entry) (addr data : bytes) (ofrom : osoc)
         (oaddr : option bytes) (ovalid : obool)                 (* FromChunk, its Chunk().Address(), Valid *)
| CMutGroup (T : list entry) (addr data : bytes) (muts : list mut_obs).

Definition model_from (T : list entry) (data : bytes) := from_chunk PP (prims_of T) data.
Definition model_addr (T : list entry) (data : bytes) : option bytes :=
  match model_from T data with
  | Ok s => match soc_address PP (prims_of T) s with Ok a => Some a | _ => None end
  | _ => None
  end.
Definition model_valid (T : list entry) (addr data : bytes) :=
  valid PP (prims_of T) {| c_addr := addr; c_data := data |}.

Definition check_mut (T : list entry) (c : chunk) (m : mut_obs) : bool :=
  match m with
  | (mu, Tm, of, ov) =>
      let c' := mutate mu c in
      let T' := Tm ++ T in
      osum_eqb (osum_of (model_from T' (c_data c'))) of &&
      obool_eqb (obool_of (model_valid T' (c_addr c') (c_data c'))) ov
  end.

Definition check_case (c : case) : bool :=
  match c with
  | CPrefix data obs => bytes_eqb (eth_prefix data) obs
  | CSecp n => secp_n =? n
  | CRecover T sig data obs => orec_eqb (orec_of (crypto_recover (prims_of T) sig data)) obs
  | CSignData T k data obs => bytes_eqb (crypto_sign (prims_of T) k data) obs
  | CCacNew T payload obs => ochunk_eqb (ochunk_of (cac_new PP (prims_of T) payload)) obs
  | CSocSign T k id caddr cdata obs =>
      ochunk_eqb (ochunk_of (soc_sign PP (prims_of T) k id {| c_addr := caddr; c_data := cdata |})) obs
  | CChunk T addr data ofrom oaddr ovalid =>
      osoc_eqb (osoc_of (model_from T data)) ofrom &&
      obytes_eqb (model_addr T data) oaddr &&
      obool_eqb (obool_of (model_valid T addr data)) ovalid
  | CMutGroup T addr data muts =>
      forallb (check_mut T {| c_addr := addr; c_data := data |}) muts
  end.

(** printed on a mismatch: what the model computed *)
Inductive explained :=
| XBytes (model : bytes)
| XN (model : N)
| XRec (model : orec)
| XChunk (model : ochunk)
| XSoc (model : osoc) (maddr : option bytes) (mvalid : obool)
| XMut (index : nat) (m : mutation) (model : osum) (mvalid : obool) (obs : osum) (ovalid : obool)
| XNone.

Fixpoint first_bad (T : list entry) (c : chunk) (muts : list mut_obs) (i : nat) : explained :=
  match muts with
  | [] => XNone
  | m :: rest =>
      if check_mut T c m then first_bad T c rest (S i)
      else match m with
           | (mu, Tm, of, ov) =>
               let c' := mutate mu c in
               XMut i mu (osum_of (model_from (Tm ++ T) (c_data c')))
                    (obool_of (model_valid (Tm ++ T) (c_addr c') (c_data c'))) of ov
           end
  end.

Definition explain_case (c : case) : explained :=
  match c with
  | CPrefix data _ => XBytes (eth_prefix data)
  | CSecp _ => XN secp_n
  | CRecover T sig data _ => XRec (orec_of (crypto_recover (prims_of T) sig data))
  | CSignData T k data _ => XBytes (crypto_sign (prims_of T) k data)
  | CCacNew T payload _ => XChunk (ochunk_of (cac_new PP (prims_of T) payload))
  | CSocSign T k id caddr cdata _ =>
      XChunk (ochunk_of (soc_sign PP (prims_of T) k id {| c_addr := caddr; c_data := cdata |}))
  | CChunk T addr data _ _ _ =>
      XSoc (osoc_of (model_from T data)) (model_addr T data) (obool_of (model_valid T addr data))
  | CMutGroup T addr data muts => first_bad T {| c_addr := addr; c_data := data |} muts 0
  end.
