(** C05 — lemmas about the model of pkg/soc. *)
From Coq Require Import List NArith ZArith Bool Arith Lia ZifyBool ZifyNat ZifyN.
Import ListNotations.
Require Import Aurora.C05.Sig Aurora.C05.SigProofs Aurora.C05.Model.
Local Open Scope N_scope.
Ltac Zify.zify_post_hook ::= Z.div_mod_to_equations.

Lemma firstn_len_app {A} (a b : list A) n : length a = n -> firstn n (a ++ b) = a.
Proof.
  intros <-. rewrite firstn_app, Nat.sub_diag, firstn_all. simpl. apply app_nil_r.
Qed.
Lemma skipn_len_app {A} (a b : list A) n : length a = n -> skipn n (a ++ b) = b.
Proof.
  intros <-. rewrite skipn_app, Nat.sub_diag, skipn_all. reflexivity.
Qed.

Section Proofs.
Context (p : params) (P : prims).
(* side conditions on the Go constants (closed by computation in Props) *)
Hypothesis Hsig : SigSize p = 65%nat.
Hypothesis Haddr : AddrSize p = 20%nat.
Hypothesis Hmin : MinChunk p = (IdSize p + SigSize p + SpanSize p)%nat.

Notation Id := (IdSize p).
Notation Sg := (SigSize p).
Notation Sp := (SpanSize p).

Lemma slice_ok l lo hi : (lo <= hi)%nat -> (hi <= length l)%nat ->
  slice l lo hi = Ok (firstn (hi - lo) (skipn lo l)).
Proof. intros H1 H2. unfold slice. now rewrite sub_ok. Qed.

(** a wrapped chunk's data is acceptable to [cac.NewWithDataSpan] *)
Definition wrapped_ok (w : bytes) : Prop :=
  (Sp <= length w)%nat /\ N.of_nat (length w) <= ChunkSize p + N.of_nat Sp.

(** the chunk [cac.NewWithDataSpan] builds from [w] *)
Definition cac_of (w : bytes) : chunk := cac_new_with_span P (skipn Sp w) (firstn Sp w).

Lemma cac_of_data w : c_data (cac_of w) = w.
Proof. unfold cac_of, cac_new_with_span. cbn [c_data]. apply firstn_skipn. Qed.

Lemma cac_wds_spec w :
  cac_new_with_data_span p P w =
    if ChunkSize p + N.of_nat Sp <? N.of_nat (length w) then Err ECacTooLarge
    else if (length w <? Sp)%nat then Err ECacTooShort
    else Ok (cac_of w).
Proof.
  unfold cac_new_with_data_span.
  destruct (ChunkSize p + N.of_nat Sp <? N.of_nat (length w)); [reflexivity|].
  destruct (length w <? Sp)%nat eqn:E; [reflexivity|].
  apply Nat.ltb_ge in E.
  rewrite slice_ok by lia. cbn [bind].
  rewrite slice_ok by lia. cbn [bind].
  unfold cac_of. f_equal. f_equal.
  - apply firstn_all2. rewrite skipn_length. lia.
  - rewrite Nat.sub_0_r. reflexivity.
Qed.

Lemma cac_wds_ok w : wrapped_ok w -> cac_new_with_data_span p P w = Ok (cac_of w).
Proof.
  intros [H1 H2]. rewrite cac_wds_spec.
  assert (ChunkSize p + N.of_nat Sp <? N.of_nat (length w) = false) as -> by (apply N.ltb_ge; lia).
  assert ((length w <? Sp)%nat = false) as -> by (apply Nat.ltb_ge; lia).
  reflexivity.
Qed.

Lemma cac_wds_ok_inv w ch : cac_new_with_data_span p P w = Ok ch -> wrapped_ok w /\ ch = cac_of w.
Proof.
  rewrite cac_wds_spec.
  destruct (ChunkSize p + N.of_nat Sp <? N.of_nat (length w)) eqn:E1; [discriminate|].
  destruct (length w <? Sp)%nat eqn:E2; [discriminate|].
  intros Hq. inversion Hq. apply N.ltb_ge in E1. apply Nat.ltb_ge in E2.
  split; [split; lia | reflexivity].
Qed.

Lemma cac_wds_no_panic w : cac_new_with_data_span p P w <> Panic.
Proof.
  rewrite cac_wds_spec.
  destruct (_ <? _); [discriminate|]. destruct (_ <? _)%nat; discriminate.
Qed.

(** a chunk is a well-formed content-addressed chunk *)
Definition proper (ch : chunk) : Prop := cac_new_with_data_span p P (c_data ch) = Ok ch.

Lemma proper_inv ch : proper ch ->
  wrapped_ok (c_data ch) /\ c_addr ch = bmt P (firstn Sp (c_data ch)) (skipn Sp (c_data ch)).
Proof.
  intros Hp. apply cac_wds_ok_inv in Hp as [Hw He]. split; [exact Hw|].
  rewrite He at 1. reflexivity.
Qed.

Lemma cac_of_proper w : wrapped_ok w -> proper (cac_of w).
Proof. intros Hw. unfold proper. rewrite cac_of_data. now apply cac_wds_ok. Qed.

Lemma cac_new_proper payload :
  (0 < length payload)%nat -> N.of_nat (length payload) <= ChunkSize p ->
  exists ch, cac_new p P payload = Ok ch /\ proper ch /\
             c_data ch = le_bytes Sp (N.of_nat (length payload)) ++ payload /\
             c_addr ch = bmt P (le_bytes Sp (N.of_nat (length payload))) payload.
Proof.
  intros H0 H1. unfold cac_new.
  assert (ChunkSize p <? N.of_nat (length payload) = false) as -> by (apply N.ltb_ge; lia).
  assert (Nat.eqb (length payload) 0 = false) as -> by (apply Nat.eqb_neq; lia).
  eexists. split; [reflexivity|].
  remember (le_bytes Sp (N.of_nat (length payload))) as span eqn:Es.
  assert (Hl : length span = Sp) by (subst; apply le_bytes_len).
  split; [|split; reflexivity].
  unfold proper, cac_new_with_span. cbn [c_data].
  rewrite cac_wds_ok.
  - unfold cac_of, cac_new_with_span. rewrite (firstn_len_app _ _ _ Hl), (skipn_len_app _ _ _ Hl). reflexivity.
  - split; rewrite app_length; lia.
Qed.

(** ---- FromChunk ---- *)

Lemma from_chunk_short (data : bytes) : (length data < MinChunk p)%nat -> from_chunk p P data = Err EWrongChunkSize.
Proof. intros H. unfold from_chunk. apply Nat.ltb_lt in H. now rewrite H. Qed.

Lemma split_data (data : bytes) : (MinChunk p <= length data)%nat ->
  exists id sig w, data = id ++ sig ++ w /\ length id = Id /\ length sig = Sg /\ (Sp <= length w)%nat.
Proof.
  intros H. exists (firstn Id data), (firstn Sg (skipn Id data)), (skipn Sg (skipn Id data)).
  repeat split.
  - now rewrite !firstn_skipn.
  - rewrite firstn_length. lia.
  - rewrite firstn_length, skipn_length. lia.
  - rewrite !skipn_length. lia.
Qed.

(** the body of [FromChunk] after the three slices *)
Definition from_parts (id sig w : bytes) : outcome soc :=
  bind (cac_new_with_data_span p P w) (fun ch =>
  bind (recover_address P sig (soc_hash P id (c_addr ch))) (fun owner =>
  if negb (Nat.eqb (length owner) (AddrSize p)) then Err EInvalidAddress
  else Ok {| s_id := id; s_owner := owner; s_sig := sig; s_chunk := ch |})).

Lemma from_chunk_app id sig w : length id = Id -> length sig = Sg ->
  from_chunk p P (id ++ sig ++ w) =
    if (length w <? Sp)%nat then Err EWrongChunkSize else from_parts id sig w.
Proof.
  intros Hi Hs. unfold from_chunk.
  assert (Hlen : length (id ++ sig ++ w) = (Id + Sg + length w)%nat) by (rewrite !app_length; lia).
  rewrite Hlen, Hmin.
  destruct (length w <? Sp)%nat eqn:E.
  - apply Nat.ltb_lt in E. assert ((Id + Sg + length w <? Id + Sg + Sp)%nat = true) as -> by (apply Nat.ltb_lt; lia).
    reflexivity.
  - apply Nat.ltb_ge in E. assert ((Id + Sg + length w <? Id + Sg + Sp)%nat = false) as -> by (apply Nat.ltb_ge; lia).
    rewrite slice_ok by lia. cbn [bind].
    rewrite slice_ok by lia. cbn [bind].
    rewrite slice_ok by lia. cbn [bind].
    rewrite Nat.sub_0_r. cbn [skipn].
    rewrite (firstn_len_app _ _ _ Hi).
    rewrite (skipn_len_app _ _ _ Hi).
    replace (Id + Sg - Id)%nat with Sg by lia.
    rewrite (firstn_len_app _ _ _ Hs).
    assert (Hsk : skipn (Id + Sg) (id ++ sig ++ w) = w).
    { rewrite app_assoc. apply skipn_len_app. rewrite app_length. lia. }
    rewrite Hsk.
    replace (Id + Sg + length w - (Id + Sg))%nat with (length w) by lia.
    rewrite firstn_all. reflexivity.
Qed.

Lemma from_chunk_no_panic data : from_chunk p P data <> Panic.
Proof.
  destruct (Nat.lt_ge_cases (length data) (MinChunk p)) as [H|H].
  - rewrite from_chunk_short by exact H. discriminate.
  - destruct (split_data data H) as (id & sig & w & -> & Hi & Hs & Hw).
    rewrite from_chunk_app by assumption.
    destruct (length w <? Sp)%nat; [discriminate|].
    unfold from_parts.
    pose proof (cac_wds_no_panic w) as Hc.
    destruct (cac_new_with_data_span p P w) as [ch| |]; cbn [bind]; try discriminate; [|contradiction].
    unfold recover_address. destruct (crypto_recover P sig _); cbn [bind]; [|discriminate].
    destruct (negb _); discriminate.
Qed.

(** what [FromChunk] accepts: the exact decomposition *)
Record accepts (data id sig w pk : bytes) : Prop := {
  acc_data : data = id ++ sig ++ w;
  acc_id : length id = Id;
  acc_sig : length sig = Sg;
  acc_w : wrapped_ok w;
  acc_rec : crypto_recover P sig (K P (id ++ bmt P (firstn Sp w) (skipn Sp w))) = ROk pk;
  acc_owner : length (eth_of P pk) = AddrSize p
}.

Definition soc_of (id sig w pk : bytes) : soc :=
  {| s_id := id; s_owner := eth_of P pk; s_sig := sig; s_chunk := cac_of w |}.

Lemma from_chunk_intro data id sig w pk : accepts data id sig w pk ->
  from_chunk p P data = Ok (soc_of id sig w pk).
Proof.
  intros [-> Hi Hs Hw Hr Ho]. rewrite from_chunk_app by assumption.
  destruct Hw as [Hw1 Hw2].
  assert ((length w <? Sp)%nat = false) as -> by (apply Nat.ltb_ge; lia).
  unfold from_parts. rewrite cac_wds_ok by (split; assumption). cbn [bind].
  unfold recover_address, soc_hash. change (c_addr (cac_of w)) with (bmt P (firstn Sp w) (skipn Sp w)).
  rewrite Hr. cbn [bind]. rewrite Ho, Nat.eqb_refl. reflexivity.
Qed.

Lemma from_chunk_ok_inv data s : from_chunk p P data = Ok s ->
  exists id sig w pk, accepts data id sig w pk /\ s = soc_of id sig w pk.
Proof.
  intros Hq.
  destruct (Nat.lt_ge_cases (length data) (MinChunk p)) as [H|H].
  { rewrite from_chunk_short in Hq by exact H. discriminate. }
  destruct (split_data data H) as (id & sig & w & -> & Hi & Hs & Hw).
  rewrite from_chunk_app in Hq by assumption.
  destruct (length w <? Sp)%nat; [discriminate|].
  unfold from_parts in Hq.
  destruct (cac_new_with_data_span p P w) as [ch| |] eqn:Ec; cbn [bind] in Hq; try discriminate.
  apply cac_wds_ok_inv in Ec as [Hwo ->].
  unfold recover_address, soc_hash in Hq. change (c_addr (cac_of w)) with (bmt P (firstn Sp w) (skipn Sp w)) in Hq.
  destruct (crypto_recover P sig _) as [pk|e] eqn:Er; cbn [bind] in Hq; [|discriminate].
  destruct (Nat.eqb (length (eth_of P pk)) (AddrSize p)) eqn:Eo; cbn [negb] in Hq; [|discriminate].
  inversion Hq; subst s. apply Nat.eqb_eq in Eo.
  exists id, sig, w, pk. split; [constructor; auto | reflexivity].
Qed.

Lemma accepts_fun data id sig w pk id' sig' w' pk' :
  accepts data id sig w pk -> accepts data id' sig' w' pk' ->
  id = id' /\ sig = sig' /\ w = w' /\ pk = pk'.
Proof.
  intros [Hd Hi Hs Hw Hr Ho] [Hd' Hi' Hs' Hw' Hr' Ho'].
  rewrite Hd in Hd'. apply app_inv_len in Hd' as [-> Hd']; [|lia].
  apply app_inv_len in Hd' as [-> ->]; [|lia].
  rewrite Hr in Hr'. inversion Hr'. auto.
Qed.

(** ---- Valid ---- *)

Lemma valid_total ch : exists b, valid p P ch = Ok b.
Proof.
  unfold valid. pose proof (from_chunk_no_panic (c_data ch)) as Hn.
  destruct (from_chunk p P (c_data ch)) as [s|e|]; [|eauto|contradiction].
  unfold soc_address. destruct (negb _); eauto.
Qed.

Lemma valid_iff ch :
  valid p P ch = Ok true <->
  exists id sig w pk, accepts (c_data ch) id sig w pk /\ c_addr ch = K P (id ++ eth_of P pk).
Proof.
  unfold valid. split.
  - destruct (from_chunk p P (c_data ch)) as [s|e|] eqn:Ef; try discriminate.
    apply from_chunk_ok_inv in Ef as (id & sig & w & pk & Ha & ->).
    unfold soc_address, soc_of. cbn [s_owner s_id].
    rewrite (acc_owner _ _ _ _ _ Ha), Nat.eqb_refl. cbn [negb].
    intros Hq. inversion Hq as [Hb]. apply bytes_eqb_eq in Hb.
    exists id, sig, w, pk. split; [exact Ha | exact Hb].
  - intros (id & sig & w & pk & Ha & Hb).
    rewrite (from_chunk_intro _ _ _ _ _ Ha).
    unfold soc_address, soc_of. cbn [s_owner s_id].
    rewrite (acc_owner _ _ _ _ _ Ha), Nat.eqb_refl. cbn [negb].
    unfold create_address, soc_hash. rewrite Hb, bytes_eqb_refl. reflexivity.
Qed.

(** the address of a valid single-owner chunk is determined by its data *)
Lemma valid_address_unique a1 a2 d :
  valid p P {| c_addr := a1; c_data := d |} = Ok true ->
  valid p P {| c_addr := a2; c_data := d |} = Ok true -> a1 = a2.
Proof.
  intros H1 H2. apply valid_iff in H1 as (id & sig & w & pk & Ha & Hb).
  apply valid_iff in H2 as (id' & sig' & w' & pk' & Ha' & Hb').
  cbn [c_addr c_data] in *.
  destruct (accepts_fun _ _ _ _ _ _ _ _ _ Ha Ha') as (-> & -> & -> & ->). congruence.
Qed.

Lemma valid_short ch : (length (c_data ch) < MinChunk p)%nat -> valid p P ch = Ok false.
Proof. intros H. unfold valid. now rewrite from_chunk_short. Qed.

(** ---- Sign, then parse ---- *)
Section WithLaws.
Hypothesis L : Laws P.

Lemma eth_len pk : length (eth_of P pk) = AddrSize p.
Proof. unfold eth_of. rewrite skipn_length, (K_len P L), Haddr. reflexivity. Qed.

Definition signed_sig (k id : bytes) (ch : chunk) : bytes := crypto_sign P k (K P (id ++ c_addr ch)).

Lemma sign_roundtrip k id ch :
  length id = Id -> proper ch ->
  let sig := signed_sig k id ch in
  let sch := {| c_addr := K P (id ++ eth_of P (pub P k)); c_data := id ++ sig ++ c_data ch |} in
  soc_sign p P k id ch = Ok sch /\
  from_chunk p P (c_data sch) =
    Ok {| s_id := id; s_owner := eth_of P (pub P k); s_sig := sig; s_chunk := ch |} /\
  valid p P sch = Ok true.
Proof.
  intros Hi Hp sig sch.
  destruct (proper_inv ch Hp) as [Hw Ha].
  assert (Hacc : accepts (c_data sch) id sig (c_data ch) (pub P k)).
  { constructor; auto.
    - subst sig. unfold signed_sig. rewrite Hsig. apply (crypto_sign_len P L).
    - rewrite <- Ha. apply (recover_sign_ok P L).
    - apply eth_len. }
  assert (Hch : cac_of (c_data ch) = ch).
  { apply cac_wds_ok_inv in Hp as [_ Hq]. now symmetry. }
  split; [|split].
  - unfold soc_sign. rewrite eth_len, Nat.eqb_refl. cbn [negb].
    unfold soc_chunk, soc_address. cbn [s_owner s_id]. rewrite eth_len, Nat.eqb_refl. cbn [negb bind].
    reflexivity.
  - rewrite (from_chunk_intro _ _ _ _ _ Hacc). unfold soc_of. now rewrite Hch.
  - apply valid_iff. exists id, sig, (c_data ch), (pub P k). split; [exact Hacc | reflexivity].
Qed.

(** ---- alteration ---- *)

(** an explicit break of one of the primitives, relative to the one signature
    that key [k] issued ([sig] over [digest]) *)
Definition Break (k sig digest : bytes) : Prop :=
  (exists x y, x <> y /\ K P x = K P y) \/
  (exists pk, pk <> pub P k /\ eth_of P pk = eth_of P (pub P k)) \/
  (exists s1 p1 s2 p2, (s1, p1) <> (s2, p2) /\ bmt P s1 p1 = bmt P s2 p2) \/
  (exists sig' d', (sig', d') <> (sig, digest) /\ crypto_recover P sig' d' = ROk (pub P k)).

Lemma mutation_data k id ch data' :
  length id = Id -> proper ch ->
  let digest := K P (id ++ c_addr ch) in
  let sig := signed_sig k id ch in
  data' <> id ++ sig ++ c_data ch ->
  valid p P {| c_addr := K P (id ++ eth_of P (pub P k)); c_data := data' |} = Ok true ->
  Break k sig digest.
Proof.
  intros Hi Hp digest sig Hne Hv.
  destruct (proper_inv ch Hp) as [Hw Ha].
  apply valid_iff in Hv as (id' & sig' & w' & pk' & Hacc & Hb). cbn [c_addr c_data] in *.
  destruct Hacc as [Hd Hi' Hs' Hw' Hr' Ho'].
  destruct (bytes_eq_dec (id ++ eth_of P (pub P k)) (id' ++ eth_of P pk')) as [He|He].
  2:{ left. eauto. }
  apply app_inv_len in He as [<- He]; [|lia].
  destruct (bytes_eq_dec pk' (pub P k)) as [->|Hpk].
  2:{ right; left. exists pk'. split; [exact Hpk | now symmetry]. }
  set (d' := K P (id ++ bmt P (firstn Sp w') (skipn Sp w'))) in *.
  destruct (bytes_eq_dec sig' sig) as [->|Hsg].
  2:{ right; right; right. exists sig', d'. split; [|exact Hr']. intros Hq. inversion Hq. contradiction. }
  destruct (bytes_eq_dec d' digest) as [Hdg|Hdg].
  2:{ right; right; right. exists sig, d'. split; [|exact Hr']. intros Hq. inversion Hq. contradiction. }
  subst d' digest.
  destruct (bytes_eq_dec (id ++ bmt P (firstn Sp w') (skipn Sp w')) (id ++ c_addr ch)) as [Hx|Hx].
  2:{ left. eauto. }
  apply app_inv_head in Hx. rewrite Ha in Hx.
  right; right; left.
  exists (firstn Sp w'), (skipn Sp w'), (firstn Sp (c_data ch)), (skipn Sp (c_data ch)).
  split; [|exact Hx].
  intros Hq. inversion Hq as [[H1 H2]]. apply Hne. rewrite Hd. do 2 f_equal.
  rewrite <- (firstn_skipn Sp w'), <- (firstn_skipn Sp (c_data ch)). now rewrite H1, H2.
Qed.

(** the two standard re-encodings of the signature of a valid chunk are rejected *)
Lemma malleated_rejected a id sig w sig' :
  length id = Id -> length sig = Sg -> length sig' = Sg ->
  valid p P {| c_addr := a; c_data := id ++ sig ++ w |} = Ok true ->
  nth 64 sig' 0 = nth 64 sig 0 + 4 \/
  be (firstn 32 (skipn 32 sig')) = secp_n - be (firstn 32 (skipn 32 sig)) ->
  from_chunk p P (id ++ sig' ++ w) = Err (ERecover RecNonCanon) /\
  valid p P {| c_addr := a; c_data := id ++ sig' ++ w |} = Ok false.
Proof.
  intros Hi Hs Hs' Hv Hm.
  apply valid_iff in Hv as (id0 & sig0 & w0 & pk & Hacc & _). cbn [c_data] in Hacc.
  destruct Hacc as [Hd Hi0 Hs0 Hw0 Hr0 Ho0].
  apply app_inv_len in Hd as [<- Hd]; [|lia].
  apply app_inv_len in Hd as [<- <-]; [|lia].
  apply recover_ok_inv in Hr0 as (_ & Hc & _).
  assert (Hc' : canonical sig' = false).
  { destruct Hm as [Hm|Hm]; [eapply flag_variant_noncanonical | eapply twin_noncanonical]; eauto. }
  assert (Hf : from_chunk p P (id ++ sig' ++ w) = Err (ERecover RecNonCanon)).
  { rewrite from_chunk_app by assumption. destruct Hw0 as [Hw1 Hw2].
    assert ((length w <? Sp)%nat = false) as -> by (apply Nat.ltb_ge; lia).
    unfold from_parts. rewrite cac_wds_ok by (split; assumption). cbn [bind].
    unfold recover_address. rewrite noncanonical_rejected; [reflexivity | lia | exact Hc']. }
  split; [exact Hf|]. unfold valid. cbn [c_data]. now rewrite Hf.
Qed.

End WithLaws.
End Proofs.

(** ---- statements assembled for Props ---- *)
Section Assembled.
Context (p : params) (P : prims).
Hypothesis Hsig : SigSize p = 65%nat.
Hypothesis Haddr : AddrSize p = 20%nat.
Hypothesis Hmin : MinChunk p = (IdSize p + SigSize p + SpanSize p)%nat.
Hypothesis L : Laws P.

(** sign a payload, parse it back *)
Lemma sign_payload_roundtrip k id payload :
  length id = IdSize p -> (0 < length payload)%nat -> N.of_nat (length payload) <= ChunkSize p ->
  exists ch,
    cac_new p P payload = Ok ch /\
    let owner := eth_of P (pub P k) in
    let sig := crypto_sign P k (K P (id ++ c_addr ch)) in
    let sch := {| c_addr := K P (id ++ owner); c_data := id ++ sig ++ c_data ch |} in
    soc_sign p P k id ch = Ok sch /\
    from_chunk p P (c_data sch) = Ok {| s_id := id; s_owner := owner; s_sig := sig; s_chunk := ch |} /\
    valid p P sch = Ok true.
Proof.
  intros Hi H0 H1.
  destruct (cac_new_proper p P Hsig Haddr Hmin payload H0 H1) as (ch & Hc & Hp & _).
  exists ch. split; [exact Hc|].
  exact (sign_roundtrip p P Hsig Haddr Hmin L k id ch Hi Hp).
Qed.

(** the address and serialization of whatever [Sign] returns *)
Lemma sign_address k id ch sch :
  soc_sign p P k id ch = Ok sch ->
  c_addr sch = K P (id ++ eth_of P (pub P k)) /\
  c_data sch = id ++ crypto_sign P k (K P (id ++ c_addr ch)) ++ c_data ch.
Proof.
  unfold soc_sign, soc_chunk, soc_address. cbn [s_owner s_id].
  destruct (negb (Nat.eqb (length (eth_of P (pub P k))) (AddrSize p))); [discriminate|].
  cbn [bind]. intros Hq. inversion Hq. split; reflexivity.
Qed.

(** with an idealised unforgeability premise for key [k] (the only pair
    that recovers [k]'s public key is the one [k] signed), an altered chunk
    under the same address is valid only through an explicit collision *)
Lemma mutation_data_ideal k id ch data' :
  length id = IdSize p -> proper p P ch ->
  let digest := K P (id ++ c_addr ch) in
  let sig := signed_sig P k id ch in
  (forall sig' d', crypto_recover P sig' d' = ROk (pub P k) -> (sig', d') = (sig, digest)) ->
  data' <> id ++ sig ++ c_data ch ->
  valid p P {| c_addr := K P (id ++ eth_of P (pub P k)); c_data := data' |} = Ok true ->
  (exists x y, x <> y /\ K P x = K P y) \/
  (exists pk, pk <> pub P k /\ eth_of P pk = eth_of P (pub P k)) \/
  (exists s1 p1 s2 p2, (s1, p1) <> (s2, p2) /\ bmt P s1 p1 = bmt P s2 p2).
Proof.
  intros Hi Hp digest sig Hu Hne Hv.
  destruct (mutation_data p P Hsig Haddr Hmin k id ch data' Hi Hp Hne Hv) as [H|[H|[H|H]]]; auto.
  destruct H as (sig' & d' & Hd & Hr). exfalso. apply Hd. now apply Hu.
Qed.

End Assembled.
