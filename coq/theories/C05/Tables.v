(** C05 / C34 — correspondence support: the abstract primitives instantiated
    by tables of what the REAL primitives returned (Keccak, SHA3, BMT hasher,
    btcec sign / recover, multiaddr parser), recorded by the harness. What the
    correspondence then compares is the logic around them: byte layout,
    offsets, which bytes are hashed and signed, what is compared with what.

    A query that is not in the table yields a value containing the non-byte
    256, which can never equal anything the implementation returned. *)
From Coq Require Import List NArith ZArith Bool Arith.
From Coq Require Export Uint63.
Import ListNotations.
Require Import Aurora.C05.Sig.
Local Open Scope N_scope.

(** Byte strings in generated case files are packed seven bytes per
    primitive-integer literal (big-endian; the last literal holds the
    remaining 1..7 bytes): primitive integer literals are read natively,
    which makes the case files several times faster to load than lists of
    [N] literals. [pk n l] is the [n]-byte string. *)
Definition int_bytes (k : nat) (x : int) : bytes := be_bytes k (Z.to_N (Uint63.to_Z x)).
Fixpoint unpack (n : nat) (l : list int) : bytes :=
  match l with
  | [] => []
  | x :: l' => let k := Nat.min n 7 in int_bytes k x ++ unpack (n - k) l'
  end.
Definition pk (n : nat) (l : list int) : bytes := unpack n l.

Inductive entry :=
| EK (x y : bytes)                       (* Keccak256(x) = y *)
| ES3 (x y : bytes)                      (* SHA3-256(x) = y *)
| EBmt (span payload y : bytes)          (* BMT hash with header span over payload *)
| EPub (k y : bytes)                     (* public key X||Y of private key k *)
| ESign (k d y : bytes)                  (* btcec.SignCompact(k, d, false) = y *)
| ERec (s d : bytes) (r : option bytes)  (* btcec.RecoverCompact(s, d) *)
| EMa (x : bytes) (b : bool).            (* ma.NewMultiaddrBytes(x) succeeds *)

Definition miss : bytes := [256].

Fixpoint lk_K (T : list entry) (x : bytes) : bytes :=
  match T with
  | [] => miss
  | EK a y :: T' => if bytes_eqb a x then y else lk_K T' x
  | _ :: T' => lk_K T' x
  end.
Fixpoint lk_S3 (T : list entry) (x : bytes) : bytes :=
  match T with
  | [] => miss
  | ES3 a y :: T' => if bytes_eqb a x then y else lk_S3 T' x
  | _ :: T' => lk_S3 T' x
  end.
Fixpoint lk_bmt (T : list entry) (s pl : bytes) : bytes :=
  match T with
  | [] => miss
  | EBmt a b y :: T' => if bytes_eqb a s && bytes_eqb b pl then y else lk_bmt T' s pl
  | _ :: T' => lk_bmt T' s pl
  end.
Fixpoint lk_pub (T : list entry) (k : bytes) : bytes :=
  match T with
  | [] => miss
  | EPub a y :: T' => if bytes_eqb a k then y else lk_pub T' k
  | _ :: T' => lk_pub T' k
  end.
Fixpoint lk_sign (T : list entry) (k d : bytes) : bytes :=
  match T with
  | [] => miss
  | ESign a b y :: T' => if bytes_eqb a k && bytes_eqb b d then y else lk_sign T' k d
  | _ :: T' => lk_sign T' k d
  end.
Fixpoint lk_rec (T : list entry) (s d : bytes) : option bytes :=
  match T with
  | [] => Some miss
  | ERec a b r :: T' => if bytes_eqb a s && bytes_eqb b d then r else lk_rec T' s d
  | _ :: T' => lk_rec T' s d
  end.
Fixpoint lk_ma (T : list entry) (x : bytes) : option bool :=
  match T with
  | [] => None
  | EMa a b :: T' => if bytes_eqb a x then Some b else lk_ma T' x
  | _ :: T' => lk_ma T' x
  end.

Definition prims_of (T : list entry) : prims :=
  {| K := lk_K T; S3 := lk_S3 T; bmt := lk_bmt T; pub := lk_pub T;
     raw_sign := lk_sign T; raw_recover := lk_rec T;
     ma_valid := fun x => match lk_ma T x with Some b => b | None => false end |}.

(** observation helpers *)
Definition obytes_eqb (a b : option bytes) : bool :=
  match a, b with Some x, Some y => bytes_eqb x y | None, None => true | _, _ => false end.

(** result of [crypto.Recover]: public key or error class (1 = wrong length,
    2 = signature rejected: non-canonical encoding or btcec failure; the two
    are one class because the harness classifies errors by sentinel identity
    and must also build against a tree without the new sentinel) *)
Inductive orec := OR (pk : bytes) | ORErr (c : N).
Definition rec_class (e : rec_err) : N :=
  match e with RecLen => 1 | RecNonCanon => 2 | RecRaw => 2 end.
Definition orec_of (r : rres) : orec :=
  match r with ROk pk => OR pk | RErr e => ORErr (rec_class e) end.
Definition orec_eqb (a b : orec) : bool :=
  match a, b with
  | OR x, OR y => bytes_eqb x y
  | ORErr x, ORErr y => x =? y
  | _, _ => false
  end.
