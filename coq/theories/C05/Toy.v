(** C05 / C34 — a toy instance of the abstract primitives that satisfies every
    law of [SigProofs.Laws]; used only by the non-vacuity examples (the
    premises of the theorems are satisfiable). It is not a cryptographic
    scheme. *)
From Coq Require Import List NArith ZArith Bool Arith.
Import ListNotations.
Require Import Aurora.C05.Sig Aurora.C05.SigProofs.
Local Open Scope N_scope.

Definition pad32 (x : bytes) : bytes := firstn 32 (x ++ repeat 0 32).
Definition toyP : prims :=
  {| K := fun x => pad32 (map (fun b => (b + 1) mod 256) x);
     S3 := pad32;
     bmt := fun s pl => pad32 (s ++ pl);
     pub := pad32;
     raw_sign := fun k d => 27 :: pad32 k ++ repeat 0 32;
     raw_recover := fun s d => Some (firstn 32 (tl s));
     ma_valid := fun _ => true |}.

Lemma pad32_len x : length (pad32 x) = 32%nat.
Proof. unfold pad32. rewrite firstn_length, app_length, repeat_length. apply Nat.min_l. apply Nat.le_add_l. Qed.

Lemma toy_laws : Laws toyP.
Proof.
  constructor; cbn [K S3 raw_sign raw_recover pub toyP].
  - intros x. apply pad32_len.
  - intros x. apply pad32_len.
  - intros k d. cbn [length]. rewrite app_length, pad32_len, repeat_length. reflexivity.
  - intros k d v rs Hq. remember (repeat 0 32) as z32 eqn:Ez in Hq. injection Hq as <- <-. subst z32. unfold canonical.
    assert (H64 : nth 64 ((pad32 k ++ repeat 0 32) ++ [27]) 0 = 27).
    { rewrite app_nth2; rewrite app_length, pad32_len, repeat_length; [reflexivity | apply Nat.le_refl]. }
    rewrite H64.
    assert (Hs : firstn 32 (skipn 32 ((pad32 k ++ repeat 0 32) ++ [27])) = repeat 0 32).
    { rewrite <- app_assoc. rewrite skipn_app, pad32_len, Nat.sub_diag.
      rewrite skipn_all2 by (rewrite pad32_len; apply Nat.le_refl).
      cbn [app skipn]. rewrite firstn_app, repeat_length, Nat.sub_diag.
      rewrite firstn_all2 by (rewrite repeat_length; apply Nat.le_refl).
      cbn [firstn]. apply app_nil_r. }
    rewrite Hs. vm_compute. reflexivity.
  - intros k d. cbn [tl]. f_equal. rewrite firstn_app, pad32_len, Nat.sub_diag.
    rewrite firstn_all2 by (rewrite pad32_len; apply Nat.le_refl). cbn [firstn]. apply app_nil_r.
Qed.

