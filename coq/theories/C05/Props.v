(** C05 — property theorems only. Each is closed by [exact <lemma>] and
    followed by [Print Assumptions]. The lemmas are parametric in the Go
    constants and in the cryptographic primitives; here the constants are the
    ones re-extracted from the Go source on every run ([Consts.v]) and the
    primitives stay universally quantified ([forall P : prims]), with their
    textbook laws ([Laws P]) as a premise where a theorem needs them. *)
From Coq Require Import List NArith ZArith Bool Arith.
Import ListNotations.
Require Import Aurora.Consts Aurora.C05.Sig Aurora.C05.SigProofs Aurora.C05.Model Aurora.C05.Proofs Aurora.C05.Toy.
Local Open Scope N_scope.

Definition PP : params :=
  {| IdSize := Z.to_nat Consts.soc_IdSize; SigSize := Z.to_nat Consts.soc_SignatureSize;
     SpanSize := Z.to_nat Consts.boson_SpanSize; AddrSize := Z.to_nat Consts.crypto_AddressSize;
     MinChunk := Z.to_nat Consts.soc_minChunkSize; ChunkSize := Z.to_N Consts.boson_ChunkSize |}.

(** side conditions on the constants, re-checked by computation on every run *)
Lemma consts_ok_C05 :
  (SigSize PP =? 65)%nat && (AddrSize PP =? 20)%nat &&
  (MinChunk PP =? IdSize PP + SigSize PP + SpanSize PP)%nat &&
  (1 <=? ChunkSize PP) && (1 <=? IdSize PP)%nat &&
  (0 <=? Consts.soc_IdSize)%Z && (0 <=? Consts.soc_SignatureSize)%Z && (0 <=? Consts.boson_SpanSize)%Z &&
  (0 <=? Consts.crypto_AddressSize)%Z && (0 <=? Consts.soc_minChunkSize)%Z && (0 <=? Consts.boson_ChunkSize)%Z = true.
Proof. vm_compute. reflexivity. Qed.
Lemma Hsig : SigSize PP = 65%nat. Proof. vm_compute. reflexivity. Qed.
Lemma Haddr : AddrSize PP = 20%nat. Proof. vm_compute. reflexivity. Qed.
Lemma Hmin : MinChunk PP = (IdSize PP + SigSize PP + SpanSize PP)%nat. Proof. vm_compute. reflexivity. Qed.

(** "A single-owner chunk signed with a key is valid and parses back to the
    same id, owner (the key's Ethereum address) and wrapped chunk" *)
Theorem C05_sign_valid_roundtrip : forall (P : prims), Laws P ->
  forall k id payload : bytes,
  length id = IdSize PP -> (0 < length payload)%nat -> N.of_nat (length payload) <= ChunkSize PP ->
  exists ch,
    cac_new PP P payload = Ok ch /\
    let owner := eth_of P (pub P k) in
    let sig := crypto_sign P k (K P (id ++ c_addr ch)) in
    let sch := {| c_addr := K P (id ++ owner); c_data := id ++ sig ++ c_data ch |} in
    soc_sign PP P k id ch = Ok sch /\
    from_chunk PP P (c_data sch) = Ok {| s_id := id; s_owner := owner; s_sig := sig; s_chunk := ch |} /\
    valid PP P sch = Ok true.
Proof. intros P L. exact (sign_payload_roundtrip PP P Hsig Haddr Hmin L). Qed.
Print Assumptions C05_sign_valid_roundtrip.

(** "and its address is keccak256(id || owner)" — for every chunk Sign returns *)
Theorem C05_address : forall (P : prims) (k id : bytes) (ch sch : chunk),
  soc_sign PP P k id ch = Ok sch ->
  c_addr sch = K P (id ++ eth_of P (pub P k)) /\
  c_data sch = id ++ crypto_sign P k (K P (id ++ c_addr ch)) ++ c_data ch.
Proof. intros P. exact (sign_address PP P). Qed.
Print Assumptions C05_address.

(** "accepted as single-owner only if its signature over keccak256(id ||
    wrapped address) recovers the owner its address commits to" — exact
    characterisation of [Valid] *)
Theorem C05_valid_sound : forall (P : prims) (ch : chunk),
  valid PP P ch = Ok true <->
  exists id sig w pk : bytes,
    (c_data ch = id ++ sig ++ w /\ length id = IdSize PP /\ length sig = SigSize PP /\
     ((SpanSize PP <= length w)%nat /\ N.of_nat (length w) <= ChunkSize PP + N.of_nat (SpanSize PP)) /\
     crypto_recover P sig (K P (id ++ bmt P (firstn (SpanSize PP) w) (skipn (SpanSize PP) w))) = ROk pk /\
     length (eth_of P pk) = AddrSize PP) /\
    c_addr ch = K P (id ++ eth_of P pk).
Proof.
  intros P ch. rewrite (valid_iff PP P Hsig Haddr Hmin ch).
  split; intros (id & sig & w & pk & Ha & Hb); exists id, sig, w, pk; (split; [|exact Hb]).
  - destruct Ha as [H1 H2 H3 H4 H5 H6]. exact (conj H1 (conj H2 (conj H3 (conj H4 (conj H5 H6))))).
  - destruct Ha as (H1 & H2 & H3 & H4 & H5 & H6). constructor; assumption.
Qed.
Print Assumptions C05_valid_sound.

(** "altering the ... address makes it invalid": the data determines the address *)
Theorem C05_address_determined : forall (P : prims) (a1 a2 d : bytes),
  valid PP P {| c_addr := a1; c_data := d |} = Ok true ->
  valid PP P {| c_addr := a2; c_data := d |} = Ok true -> a1 = a2.
Proof. intros P. exact (valid_address_unique PP P Hsig Haddr Hmin). Qed.
Print Assumptions C05_address_determined.

(** "altering the id, signature, wrapped payload ... makes it invalid": any
    other data that is valid under the address of an honestly signed chunk
    exhibits a Keccak collision, a collision of the 160-bit truncated Keccak
    on public keys, a BMT collision, or a forgery: a (signature, digest) pair
    other than the one the key issued that recovers the key *)
Theorem C05_mutation : forall (P : prims)
  (k id : bytes) (ch : chunk) (data' : bytes),
  length id = IdSize PP -> proper PP P ch ->
  let digest := K P (id ++ c_addr ch) in
  let sig := signed_sig P k id ch in
  data' <> id ++ sig ++ c_data ch ->
  valid PP P {| c_addr := K P (id ++ eth_of P (pub P k)); c_data := data' |} = Ok true ->
  Break P k sig digest.
Proof. intros P. exact (mutation_data PP P Hsig Haddr Hmin). Qed.
Print Assumptions C05_mutation.

(** the same with idealised unforgeability for the signing key as a premise:
    only explicit hash collisions remain *)
Theorem C05_mutation_ideal : forall (P : prims)
  (k id : bytes) (ch : chunk) (data' : bytes),
  length id = IdSize PP -> proper PP P ch ->
  let digest := K P (id ++ c_addr ch) in
  let sig := signed_sig P k id ch in
  (forall sig' d', crypto_recover P sig' d' = ROk (pub P k) -> (sig', d') = (sig, digest)) ->
  data' <> id ++ sig ++ c_data ch ->
  valid PP P {| c_addr := K P (id ++ eth_of P (pub P k)); c_data := data' |} = Ok true ->
  (exists x y, x <> y /\ K P x = K P y) \/
  (exists pk, pk <> pub P k /\ eth_of P pk = eth_of P (pub P k)) \/
  (exists s1 p1 s2 p2, (s1, p1) <> (s2, p2) /\ bmt P s1 p1 = bmt P s2 p2).
Proof. intros P. exact (mutation_data_ideal PP P Hsig Haddr Hmin). Qed.
Print Assumptions C05_mutation_ideal.

(** the two re-encodings of a signature that ECDSA recovery itself cannot
    tell apart (recovery byte + 4; (r, N - s)) are rejected after
    fix-recover-canonical *)
Theorem C05_reencoded_signature_rejected : forall (P : prims) (a id sig w sig' : bytes),
  length id = IdSize PP -> length sig = SigSize PP -> length sig' = SigSize PP ->
  valid PP P {| c_addr := a; c_data := id ++ sig ++ w |} = Ok true ->
  nth 64 sig' 0 = nth 64 sig 0 + 4 \/
  be (firstn 32 (skipn 32 sig')) = secp_n - be (firstn 32 (skipn 32 sig)) ->
  from_chunk PP P (id ++ sig' ++ w) = Err (ERecover RecNonCanon) /\
  valid PP P {| c_addr := a; c_data := id ++ sig' ++ w |} = Ok false.
Proof. intros P. exact (malleated_rejected PP P Hsig Haddr Hmin). Qed.
Print Assumptions C05_reencoded_signature_rejected.

(** "< minChunkSize bytes -> error, no panic" and totality on every input *)
Theorem C05_short_and_total : forall (P : prims) (ch : chunk),
  from_chunk PP P (c_data ch) <> Panic /\ (exists b, valid PP P ch = Ok b) /\
  ((length (c_data ch) < MinChunk PP)%nat ->
   from_chunk PP P (c_data ch) = Err EWrongChunkSize /\ valid PP P ch = Ok false).
Proof.
  intros P ch. split; [exact (from_chunk_no_panic PP P Hsig Haddr Hmin (c_data ch))|].
  split; [exact (valid_total PP P Hsig Haddr Hmin ch)|].
  intros H. split; [exact (from_chunk_short PP P (c_data ch) H) | exact (valid_short PP P ch H)].
Qed.
Print Assumptions C05_short_and_total.

(** non-vacuity: a toy instance of the primitives ([Toy.toyP]) satisfies every
    law, and an honestly signed chunk over it is valid (so the premises of the
    theorems above are satisfiable) *)
Example C05_hyps_satisfiable :
  Laws toyP /\
  let k := [7; 7; 7] in let id := repeat 9 32 in let payload := [1; 2; 3] in
  length id = IdSize PP /\ (0 < length payload)%nat /\ N.of_nat (length payload) <= ChunkSize PP /\
  exists ch sch, cac_new PP toyP payload = Ok ch /\ soc_sign PP toyP k id ch = Ok sch /\
                 valid PP toyP sch = Ok true /\ length (c_data sch) = 108%nat.
Proof.
  split; [exact toy_laws|]. cbn zeta. split; [reflexivity|]. split; [cbn; repeat constructor|].
  split; [vm_compute; discriminate|].
  eexists. eexists. split; [vm_compute; reflexivity|]. split; [vm_compute; reflexivity|].
  split; vm_compute; reflexivity.
Qed.
