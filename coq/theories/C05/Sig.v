(** C05 / C34 — model of pkg/crypto/signer.go (Sign, Recover, the EIP-191
    prefix) and pkg/crypto/crypto.go (NewEthereumAddress, NewOverlayAddress).
    Definitions only.

    The cryptographic primitives are abstract: a record [prims] holds the
    hash functions, the secp256k1 compact sign / recover functions of btcec
    and the Binary-Merkle-Tree chunk hash. Every theorem quantifies over all
    [prims]; laws about them are explicit premises ([Laws] in Proofs).
    In the correspondence the record is instantiated by tables of what the
    real primitives returned.

    Bytes are [N]. A private key is an opaque byte string, a public key is
    the 64 bytes X||Y (what [elliptic.Marshal(..)[1:]] yields). *)
From Coq Require Import List NArith Bool Arith.
Import ListNotations.
Local Open Scope N_scope.

Definition bytes := list N.

Record prims := {
  K : bytes -> bytes;                   (* sha3.NewLegacyKeccak256 (= boson.NewHasher) *)
  S3 : bytes -> bytes;                  (* sha3.Sum256 *)
  bmt : bytes -> bytes -> bytes;        (* bmt hasher: SetHeader(span); Write(payload); Hash *)
  pub : bytes -> bytes;                 (* private key -> public key X||Y *)
  raw_sign : bytes -> bytes -> bytes;   (* btcec.SignCompact(key, digest, false): v || r || s *)
  raw_recover : bytes -> bytes -> option bytes; (* btcec.RecoverCompact(v || r || s, digest) *)
  ma_valid : bytes -> bool              (* ma.NewMultiaddrBytes succeeds *)
}.

(** ---- byte helpers ---- *)

Fixpoint bytes_eqb (a b : bytes) : bool :=
  match a, b with
  | [], [] => true
  | x :: a', y :: b' => (x =? y) && bytes_eqb a' b'
  | _, _ => false
  end.

(** big-endian value ([big.Int.SetBytes]) *)
Definition be (l : bytes) : N := fold_left (fun acc b => acc * 256 + b) l 0.

(** [n] big-endian bytes of [v] (low [8n] bits), as [binary.BigEndian.PutUint64] for n = 8 *)
Fixpoint be_bytes (n : nat) (v : N) : bytes :=
  match n with
  | O => []
  | S n' => be_bytes n' (v / 256) ++ [v mod 256]
  end.
(** little-endian, as [binary.LittleEndian.PutUint64] for n = 8 *)
Fixpoint le_bytes (n : nat) (v : N) : bytes :=
  match n with
  | O => []
  | S n' => (v mod 256) :: le_bytes n' (v / 256)
  end.

(** Go slice expression [l[lo:hi]]; [None] is the run-time panic *)
Definition sub (l : bytes) (lo hi : nat) : option bytes :=
  if (lo <=? hi)%nat && (hi <=? length l)%nat then Some (firstn (hi - lo) (skipn lo l)) else None.

(** decimal digits of [n] as ASCII ([%d]); exact below 10^20 *)
Fixpoint dec_aux (fuel : nat) (n : N) (acc : bytes) : bytes :=
  match fuel with
  | O => acc
  | S f => let acc' := (48 + n mod 10) :: acc in
           if n / 10 =? 0 then acc' else dec_aux f (n / 10) acc'
  end.
Definition dec (n : N) : bytes := dec_aux 20 n [].

(** ---- signer.go ---- *)

(** "\x19Ethereum Signed Message:\n" *)
Definition eth_magic : bytes :=
  [25; 69;116;104;101;114;101;117;109; 32; 83;105;103;110;101;100; 32;
   77;101;115;115;97;103;101; 58; 10].

(** [addEthereumPrefix]: fmt.Sprintf("\x19Ethereum Signed Message:\n%d%s", len(data), data) *)
Definition eth_prefix (data : bytes) : bytes :=
  eth_magic ++ dec (N.of_nat (length data)) ++ data.

Definition hash_with_prefix (P : prims) (data : bytes) : bytes := K P (eth_prefix data).

(** order of the secp256k1 group and its half (N >> 1) *)
Definition secp_n : N := 115792089237316195423570985008687907852837564279074904382605163141518161494337.
Definition secp_half_n : N := secp_n / 2.

Inductive rec_err := RecLen | RecNonCanon | RecRaw.
Inductive rres := ROk (pk : bytes) | RErr (e : rec_err).

(** the canonical-form check of [Recover] (fix-recover-canonical): recovery id
    byte in 27..30 and s (bytes 32..63) at most N/2 *)
Definition canonical (sig : bytes) : bool :=
  let v := nth 64 sig 0 in
  (27 <=? v) && (v <=? 30) && (be (firstn 32 (skipn 32 sig)) <=? secp_half_n).

(** [Recover(signature, data)] *)
Definition crypto_recover (P : prims) (sig data : bytes) : rres :=
  if negb (Nat.eqb (length sig) 65) then RErr RecLen
  else if negb (canonical sig) then RErr RecNonCanon
  else
    (* btcsig[0] = signature[64]; copy(btcsig[1:], signature) *)
    let btcsig := nth 64 sig 0 :: firstn 64 sig in
    match raw_recover P btcsig (hash_with_prefix P data) with
    | Some pk => ROk pk
    | None => RErr RecRaw
    end.

(** [defaultSigner.Sign(data)]: SignCompact, then v moved to the end *)
Definition crypto_sign (P : prims) (k data : bytes) : bytes :=
  match raw_sign P k (hash_with_prefix P data) with
  | [] => []  (* not reachable: SignCompact returns 65 bytes *)
  | v :: rs => rs ++ [v]
  end.

(** ---- crypto.go ---- *)

(** [NewEthereumAddress]: Keccak(X||Y)[12:] *)
Definition eth_of (P : prims) (pk : bytes) : bytes := skipn 12 (K P pk).

(** [NewOverlayAddress(p, networkID)]: sha3.Sum256(Keccak(X||Y)); the
    network id is not used *)
Definition overlay_of (P : prims) (pk : bytes) : bytes := S3 P (K P pk).
