(** C26 — property theorems only.  A history is a list of the atomic actions
    of the two background loops and the API ([Tick a], [Flag k a], [Unflag k],
    [Prune seen], [SweepPeer k] = loop body of block() for one peer, [Sweep] =
    block() without an interleaved tick); every interleaving of the real
    goroutines is such a list, and the theorems quantify over all lists.
    [outputs c s h] are the addresses handed to Blocklister.Blocklist, per
    event; [blocked_in] their concatenation.  [timed_out c n]: n sequencer
    ticks that saw the network available, each [resolution] long, exceed
    [flagTimeout].  Domain of the arithmetic theorems: [config_ok] (what New
    accepts, with a positive resolution) and [no_wrap] (the uint64 sequence
    does not wrap: fewer than 2^64 - timeout events). *)
From Coq Require Import List ZArith NArith Bool.
Import ListNotations.
Require Import Aurora.Consts Aurora.C26.Model Aurora.C26.Proofs Aurora.C26.ProofsSim Aurora.C26.ProofsSpec Aurora.C26.Variant.
Local Open Scope N_scope.

(** the (sequence, deadline) bookkeeping blocklists exactly what counting the
    available ticks of every flag period prescribes, event by event *)
Theorem C26_blocked_iff_timeout : forall c h,
  config_ok c -> no_wrap c h -> outputs c init h = spec_outputs c [] h.
Proof. exact blocked_iff_timeout. Qed.
Print Assumptions C26_blocked_iff_timeout.

(** only after the flag timeout: a blocklisting of k is preceded by an effective
    Flag k with, since then, no Unflag k, no pruning of k, and more available
    time than the flag timeout *)
Theorem C26_blocked_only_after_timeout : forall c h e k,
  config_ok c -> no_wrap c (h ++ [e]) ->
  In k (snd (step c (run c init h) e)) ->
  exists h1 h2, h = h1 ++ Flag k true :: h2 /\ clean k h2 /\ timed_out c (avail_ticks h2).
Proof. exact blocked_only_after_timeout. Qed.
Print Assumptions C26_blocked_only_after_timeout.

(** once the timeout has passed: such a period has been blocklisted already or
    the next sweep (whole, or the loop body reaching k) blocklists k *)
Theorem C26_blocked_once_timeout : forall c h1 h2 k,
  config_ok c -> no_wrap c (h1 ++ Flag k true :: h2 ++ [Sweep]) ->
  absent (run c init h1) k -> clean k h2 -> timed_out c (avail_ticks h2) ->
  In k (blocked_in c (run c init (h1 ++ [Flag k true])) h2) \/
  (In k (snd (step c (run c init (h1 ++ Flag k true :: h2)) Sweep)) /\
   In k (snd (step c (run c init (h1 ++ Flag k true :: h2)) (SweepPeer k)))).
Proof. exact blocked_once_timeout. Qed.
Print Assumptions C26_blocked_once_timeout.

(** the three "never" clauses hold from any state, for any configuration,
    without the no-wrap hypothesis *)
Theorem C26_never_after_unflag : forall c s h1 h2 k,
  no_flag k h2 -> ~ In k (blocked_in c (run c s (h1 ++ [Unflag k])) h2).
Proof. exact never_after_unflag. Qed.
Print Assumptions C26_never_after_unflag.

Theorem C26_never_after_prune : forall c s h1 h2 k seen,
  mem k seen = false -> no_flag k h2 -> ~ In k (blocked_in c (run c s (h1 ++ [Prune seen])) h2).
Proof. exact never_after_prune. Qed.
Print Assumptions C26_never_after_prune.

Theorem C26_at_most_once_per_flag : forall c s h1 e h2 k,
  In k (snd (step c (run c s h1) e)) ->
  NoDup (snd (step c (run c s h1) e)) /\
  (no_flag k h2 -> ~ In k (blocked_in c (run c s (h1 ++ [e])) h2)).
Proof.
  intros c s h1 e h2 k Hin. exact (conj (step_output_nodup c _ e) (at_most_once c s h1 e h2 k Hin)).
Qed.
Print Assumptions C26_at_most_once_per_flag.

(** schedules inside a sweep: from ANY state (whatever interleaving of sweep
    steps with Flag/Unflag/Prune led to it) the step that blocklists x finds x
    flagged and due at that moment; with [C26_never_after_unflag/_prune], which
    quantify over all event lists, no Unflag/Prune of x since the sweep started
    can have happened without a new effective Flag x *)
Theorem C26_blocked_only_if_due_at_its_step : forall c s k x,
  In x (snd (step c s (SweepPeer k))) ->
  x = k /\ exists ba, lookup (flagged s) k = Some ba /\ due (seq s) ba = true.
Proof. exact blocked_only_if_due_now. Qed.
Print Assumptions C26_blocked_only_if_due_at_its_step.

(** NOT about HEAD: the snapshot-then-unlock variant of block() (collect the
    due peers under the lock, blocklist them unlocked without re-checking)
    blocklists a peer after its Unflag with no Flag in between *)
Theorem C26_snapshot_unlock_variant_refuted :
  exists c h1 h2 k,
    config_ok c /\ vno_flag k h2 /\
    In k (vblocked c (vrun c (mkV init []) (h1 ++ [VE (Unflag k)])) h2).
Proof. exact snapshot_variant_refuted. Qed.
Print Assumptions C26_snapshot_unlock_variant_refuted.

(** a whole sweep blocklists exactly the due peers, whatever the map order *)
Theorem C26_sweep_exactly_due : forall c h x,
  let s := run c init h in
  In x (snd (step c s Sweep)) <-> exists ba, lookup (flagged s) x = Some ba /\ due (seq s) ba = true.
Proof.
  intros c h x. cbv zeta. cbn [step]. apply sweep_blocks_exactly_due. apply run_nodup. constructor.
Qed.
Print Assumptions C26_sweep_exactly_due.

(** the constants of the running node (re-read from the Go source each run) *)
Definition prod_config : config := mkConfig Consts.kademlia_flagTimeout Consts.blocker_sequencerResolution.
Lemma consts_ok_C26 :
  new_ok prod_config Consts.kademlia_blockWorkerWakeup = true /\
  (0 <? resolution prod_config)%Z && (flagTimeout prod_config <? 2 ^ 63)%Z = true /\
  timeout_ticks prod_config = Z.to_N (Consts.kademlia_flagTimeout / Consts.blocker_sequencerResolution).
Proof. vm_compute. repeat split. Qed.
Theorem C26_production_config_ok : config_ok prod_config.
Proof. vm_compute. repeat split; reflexivity. Qed.
Print Assumptions C26_production_config_ok.

(** non-vacuity: with flagTimeout 2.5 s and resolution 1 s a peer flagged once
    is blocklisted by the sweep after the third available tick, not the second;
    unavailable ticks do not count *)
Example C26_hyps_satisfiable :
  let c := mkConfig 2500000000 1000000000 in
  let k := [7; 7] in
  let h2 := [Tick true; Tick false; Tick true; Sweep; Flag k true; Tick true] in
  config_ok c /\ no_wrap c ([Flag k true] ++ h2 ++ [Sweep]) /\ clean k h2 /\
  timed_out c (avail_ticks h2) /\ ~ timed_out c 2 /\
  outputs c init (Flag k true :: h2 ++ [Sweep]) = [[]; []; []; []; []; []; []; [k]].
Proof.
  cbv zeta. unfold config_ok, no_wrap, clean, timed_out. cbn [flagTimeout resolution].
  repeat split; try (vm_compute; congruence); repeat constructor.
Qed.
