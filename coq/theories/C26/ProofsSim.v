(** C26 — lemmas, part 2: the (sequence, deadline) bookkeeping of the code
    computes the same blocklistings as counting, per flagged peer, the
    available ticks since its flag period started. *)
From Coq Require Import List ZArith NArith Bool Lia.
Import ListNotations.
Require Import Aurora.Base.Corr Aurora.C26.Model Aurora.C26.Proofs.
Local Open Scope N_scope.

(** ---- the timeout in ticks ---- *)
Lemma timeout_ticks_spec c : config_ok c ->
  (Z.of_N (timeout_ticks c) = flagTimeout c / resolution c)%Z /\ 1 <= timeout_ticks c /\ timeout_ticks c < 2 ^ 63.
Proof.
  intros [HR [HF HB]]. unfold timeout_ticks.
  assert (Hq : (Z.quot (flagTimeout c) (resolution c) = flagTimeout c / resolution c)%Z)
    by (apply Z.quot_div_nonneg; lia).
  rewrite Hq.
  assert (H1 : (1 <= flagTimeout c / resolution c)%Z) by (apply Z.div_le_lower_bound; lia).
  assert (H2 : (flagTimeout c / resolution c < 2 ^ 63)%Z) by (apply Z.div_lt_upper_bound; nia).
  rewrite Z.mod_small by lia. split; [rewrite Z2N.id; lia|]. split; lia.
Qed.
Lemma timed_out_iff c n : config_ok c -> (timeout_ticks c < n <-> timed_out c n).
Proof.
  intros Hc. destruct (timeout_ticks_spec c Hc) as [HT _]. destruct Hc as [HR [HF HB]].
  unfold timed_out. split.
  - intros Hlt. assert (Hz : (flagTimeout c / resolution c < Z.of_N n)%Z) by lia.
    destruct (Z.lt_ge_cases (flagTimeout c) (Z.of_N n * resolution c)) as [H|H]; [exact H|].
    assert (Z.of_N n <= flagTimeout c / resolution c)%Z by (apply Z.div_le_lower_bound; lia). lia.
  - intros Hlt. assert (flagTimeout c / resolution c < Z.of_N n)%Z by (apply Z.div_lt_upper_bound; lia). lia.
Qed.
Lemma timed_outb_iff c n : timed_outb c n = true <-> timed_out c n.
Proof. unfold timed_outb, timed_out. apply Z.ltb_lt. Qed.

(** ---- abstraction: deadlines from counters ---- *)
Definition absf (sq T : N) (sp : sstate) : list (key * N) := map (fun kv => (fst kv, sq + T - snd kv)) sp.
Definition Rel (c : config) (s : state) (sp : sstate) : Prop :=
  flagged s = absf (seq s) (timeout_ticks c) sp /\ Forall (fun kv => snd kv <= seq s) sp.

Lemma keys_absf sq T sp : map fst (absf sq T sp) = map fst sp.
Proof. unfold absf. rewrite map_map. reflexivity. Qed.
Lemma lookup_absf sq T sp k : lookup (absf sq T sp) k = option_map (fun n => sq + T - n) (lookup sp k).
Proof.
  induction sp as [|[k' n] sp IH]; cbn; [reflexivity|]. destruct (key_eqb k k'); [reflexivity | exact IH].
Qed.
Lemma filter_key_absf (p : key -> bool) sq T sp :
  filter (fun kv => p (fst kv)) (absf sq T sp) = absf sq T (filter (fun kv => p (fst kv)) sp).
Proof.
  unfold absf. induction sp as [|[k' n] sp IH]; [reflexivity|]. cbn [map filter fst snd].
  destruct (p k'); cbn [map fst snd]; [f_equal|]; exact IH.
Qed.
Lemma remove_key_absf sq T sp k : remove_key (absf sq T sp) k = absf sq T (remove_key sp k).
Proof. unfold remove_key. apply (filter_key_absf (fun x => negb (key_eqb k x))). Qed.
Lemma Forall_filter {A} (P : A -> Prop) (p : A -> bool) l : Forall P l -> Forall P (filter p l).
Proof.
  induction l as [|x l IH]; cbn; intros H; [constructor|]. inversion H; subst.
  destruct (p x); [constructor; [assumption | now apply IH] | now apply IH].
Qed.
Lemma lookup_in_sstate (sp : sstate) k n : lookup sp k = Some n -> In (k, n) sp.
Proof.
  induction sp as [|[k' n'] sp IH]; cbn; [discriminate|].
  destruct (key_eqb k k') eqn:E; [apply key_eqb_eq in E; subst; intros H; inversion H; now left | intros H; right; now apply IH].
Qed.

Lemma sweep_peer_rel c s sp k : config_ok c -> Rel c s sp ->
  Rel c (fst (sweep_peer s k)) (fst (spec_sweep_peer c sp k)) /\
  snd (sweep_peer s k) = snd (spec_sweep_peer c sp k).
Proof.
  intros Hc [Hf Hle]. unfold sweep_peer, spec_sweep_peer. rewrite Hf, lookup_absf.
  destruct (lookup sp k) as [n|] eqn:L; cbn [option_map]; [|split; [split; assumption | reflexivity]].
  assert (Hn : n <= seq s).
  { apply lookup_in_sstate in L. rewrite Forall_forall in Hle. exact (Hle _ L). }
  destruct (timeout_ticks_spec c Hc) as [_ [HT1 _]].
  assert (Hd : due (seq s) (seq s + timeout_ticks c - n) = timed_outb c n).
  { unfold due. destruct (timed_outb c n) eqn:Eb.
    - apply timed_outb_iff, (timed_out_iff c n Hc) in Eb.
      apply andb_true_iff. split; [apply N.ltb_lt | apply N.ltb_lt]; lia.
    - apply andb_false_iff. right. apply N.ltb_ge.
      destruct (N.lt_ge_cases (timeout_ticks c) n) as [H|H]; [|lia].
      apply (timed_out_iff c n Hc), timed_outb_iff in H. congruence. }
  rewrite Hd. destruct (timed_outb c n); cbn [fst snd]; [|split; [split; assumption | reflexivity]].
  split; [|reflexivity]. split; cbn [flagged seq].
  - apply remove_key_absf.
  - now apply Forall_filter.
Qed.

Lemma step_rel c s sp e : config_ok c -> Rel c s sp -> seq s + 1 + timeout_ticks c < 2 ^ 64 ->
  Rel c (fst (step c s e)) (fst (spec_step c sp e)) /\ snd (step c s e) = snd (spec_step c sp e).
Proof.
  intros Hc HR Hb. pose proof HR as [Hf Hle].
  destruct e as [a|k a|k|seen|k|]; cbn [step spec_step fst snd].
  - split; [|reflexivity]. destruct a; [|exact HR]. split; cbn [flagged seq].
    + unfold u64. rewrite N.mod_small by lia. rewrite Hf. unfold absf. rewrite map_map. apply map_ext_in.
      intros [k n] Hin. cbn. f_equal. rewrite Forall_forall in Hle. specialize (Hle _ Hin). cbn in Hle. lia.
    + unfold u64. rewrite N.mod_small by lia. rewrite Forall_forall in *. intros [k n] Hin.
      apply in_map_iff in Hin as [[k0 n0] [E Hin]]. inversion E; subst. specialize (Hle _ Hin). cbn in *. lia.
  - split; [|reflexivity]. destruct a; [|exact HR]. rewrite Hf, lookup_absf.
    destruct (lookup sp k) as [n|] eqn:L; cbn [option_map]; [exact HR|]. split; cbn [flagged seq].
    + unfold absf. rewrite map_app. cbn. unfold u64. rewrite N.mod_small by lia.
      do 3 f_equal. lia.
    + apply Forall_app. split; [exact Hle | constructor; [cbn; lia | constructor]].
  - split; [|reflexivity]. split; cbn [flagged seq]; [rewrite Hf; apply remove_key_absf | now apply Forall_filter].
  - split; [|reflexivity]. split; cbn [flagged seq]; [rewrite Hf; apply (filter_key_absf (fun x => mem x seen)) | now apply Forall_filter].
  - now apply sweep_peer_rel.
  - unfold sweep. rewrite Hf, keys_absf.
    apply (fold_sweep_ind2 sweep_peer (spec_sweep_peer c) (Rel c)); [|exact HR].
    intros s1 s2 k0 H. now apply sweep_peer_rel.
Qed.

Lemma step_seq_le c s e : seq s + 1 < 2 ^ 64 -> seq (fst (step c s e)) <= seq s + 1.
Proof.
  intros Hb. destruct e as [a|k a|k|seen|k|]; cbn [step fst].
  - destruct a; cbn [seq]; [unfold u64; rewrite N.mod_small; lia | lia].
  - destruct a; [|lia]. destruct (lookup (flagged s) k); cbn [seq]; lia.
  - cbn [seq]. lia.
  - cbn [seq]. lia.
  - rewrite sweep_peer_seq. lia.
  - unfold sweep.
    assert (H : seq (fst (fold_sweep sweep_peer (map fst (flagged s)) (s, []))) = seq s).
    { apply (fold_sweep_ind sweep_peer (fun s0 _ => seq s0 = seq s)); [|reflexivity].
      intros s0 out k H. now rewrite sweep_peer_seq. }
    rewrite H. lia.
Qed.

Lemma spec_outputs_cons c sp e h :
  spec_outputs c sp (e :: h) = snd (spec_step c sp e) :: spec_outputs c (fst (spec_step c sp e)) h.
Proof. cbn [spec_outputs]. now destruct (spec_step c sp e). Qed.
Lemma spec_run_cons c sp e h : spec_run c sp (e :: h) = spec_run c (fst (spec_step c sp e)) h.
Proof. reflexivity. Qed.
Lemma spec_run_app c sp h1 h2 : spec_run c sp (h1 ++ h2) = spec_run c (spec_run c sp h1) h2.
Proof. unfold spec_run. apply fold_left_app. Qed.

Lemma sim_run c h : config_ok c -> forall s sp,
  Rel c s sp -> seq s + N.of_nat (length h) + timeout_ticks c < 2 ^ 64 ->
  outputs c s h = spec_outputs c sp h /\ Rel c (run c s h) (spec_run c sp h).
Proof.
  intros Hc. induction h as [|e h IH]; intros s sp HR Hb; [split; [reflexivity | exact HR]|].
  cbn [length] in Hb. rewrite Nat2N.inj_succ in Hb.
  destruct (step_rel c s sp e Hc HR) as [HR' Ho]; [lia|].
  pose proof (step_seq_le c s e) as Hs.
  destruct (IH _ _ HR') as [H1 H2]; [lia|].
  rewrite outputs_cons, spec_outputs_cons, run_cons, spec_run_cons, Ho, H1. split; [reflexivity | exact H2].
Qed.

Lemma rel_init c : Rel c init [].
Proof. split; [reflexivity | constructor]. Qed.

Lemma blocked_iff_timeout c h : config_ok c -> no_wrap c h ->
  outputs c init h = spec_outputs c [] h.
Proof.
  intros Hc Hw. apply (sim_run c h Hc init [] (rel_init c)). unfold no_wrap in Hw. cbn [seq init]. lia.
Qed.
