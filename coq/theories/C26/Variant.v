(** C26 — schedules inside a sweep.

    At HEAD the whole of [block()] runs under [b.mu] (deferred unlock), the
    lock is held across the Blocklist call and the callback, and every
    iteration re-reads the map entry and the sequence: the per-peer body
    [SweepPeer k] is the atomic unit, only sequencer ticks can fall between two
    of them.  The theorems of Props.v nevertheless quantify over ALL event
    lists, i.e. also over the interleavings of sweep steps with
    Flag/Unflag/Prune that a finer locking discipline would allow — they hold
    because each step decides on the CURRENT map entry ([blocked_only_if_due_now]).

    The variant below is the other discipline: the due peers are collected under
    the lock ([SnapBegin]), the lock is released, and each collected peer is
    blocklisted without looking at the map again and deleted afterwards
    ([SnapBlock]).  For it the "never after a success" clause is false. *)
From Coq Require Import List ZArith NArith Bool.
Import ListNotations.
Require Import Aurora.Base.Corr Aurora.C26.Model Aurora.C26.Proofs.
Local Open Scope N_scope.

(** HEAD: whatever happened before, the step that blocklists [x] finds [x]
    flagged and due in the state it runs in *)
Lemma blocked_only_if_due_now c s k x :
  In x (snd (step c s (SweepPeer k))) ->
  x = k /\ exists ba, lookup (flagged s) k = Some ba /\ due (seq s) ba = true.
Proof. cbn [step]. apply sweep_peer_out_iff. Qed.

(** ---- the snapshot-then-unlock variant ---- *)
Record vstate := mkV { vs : state; snap : list key }.
Inductive vevent := VE (e : event) | SnapBegin | SnapBlock.

Definition due_keys (s : state) : list key :=
  map fst (filter (fun kv => due (seq s) (snd kv)) (flagged s)).

Definition vstep (c : config) (v : vstate) (e : vevent) : vstate * list key :=
  match e with
  | VE e => (mkV (fst (step c (vs v) e)) (snap v), snd (step c (vs v) e))
  | SnapBegin => (mkV (vs v) (due_keys (vs v)), [])
  | SnapBlock =>
      match snap v with
      | [] => (v, [])
      | k :: r => (mkV (mkState (seq (vs v)) (remove_key (flagged (vs v)) k)) r, [k])
      end
  end.
Fixpoint vblocked (c : config) (v : vstate) (h : list vevent) : list key :=
  match h with
  | [] => []
  | e :: h' => snd (vstep c v e) ++ vblocked c (fst (vstep c v e)) h'
  end.
Definition vrun (c : config) (v : vstate) (h : list vevent) : vstate :=
  fold_left (fun v e => fst (vstep c v e)) h v.
Definition vno_flag (k : key) (h : list vevent) : Prop :=
  Forall (fun e => match e with VE (Flag k' true) => k' <> k | _ => True end) h.

(** witness: a and b flagged, three available ticks (timeout 2 ticks), the
    sweep collects both, b succeeds (Unflag b) while the sweep is busy with a,
    then the sweep blocklists b from its stale snapshot *)
Lemma snapshot_variant_refuted :
  exists c h1 h2 k,
    config_ok c /\ vno_flag k h2 /\
    In k (vblocked c (vrun c (mkV init []) (h1 ++ [VE (Unflag k)])) h2).
Proof.
  exists (mkConfig 2000000000 1000000000).
  exists [VE (Flag [1] true); VE (Flag [2] true); VE (Tick true); VE (Tick true); VE (Tick true); SnapBegin; SnapBlock].
  exists [SnapBlock]. exists [2].
  split; [unfold config_ok; cbn; repeat split; reflexivity|].
  split; [repeat constructor|].
  vm_compute. now left.
Qed.

(** the same schedule against the HEAD step function: b is not blocklisted *)
Lemma head_same_schedule :
  let c := mkConfig 2000000000 1000000000 in
  blocked_in c init [Flag [1] true; Flag [2] true; Tick true; Tick true; Tick true;
                     SweepPeer [1]; Unflag [2]; SweepPeer [2]] = [[1]].
Proof. vm_compute. reflexivity. Qed.
