(** C26 — lemmas, part 3: the declarative reading of the counting machine
    (a blocklisting happens only after a clean flag period longer than the
    timeout, and does happen at the next sweep once it is), transferred to the
    model of the code through the simulation of part 2. *)
From Coq Require Import List ZArith NArith Bool Lia.
Import ListNotations.
Require Import Aurora.Base.Corr Aurora.C26.Model Aurora.C26.Proofs Aurora.C26.ProofsSim.
Local Open Scope N_scope.

Definition tick1 (e : event) : N := match e with Tick true => 1 | _ => 0 end.
Lemma avail_ticks_cons e h : avail_ticks (e :: h) = tick1 e + avail_ticks h.
Proof.
  unfold avail_ticks. cbn [filter]. destruct e as [[|]|k a|k|seen|k|]; cbn [tick1 length]; lia.
Qed.
Lemma avail_ticks_app h1 h2 : avail_ticks (h1 ++ h2) = avail_ticks h1 + avail_ticks h2.
Proof.
  induction h1 as [|e h1 IH]; [cbn; lia|]. cbn [app]. rewrite !avail_ticks_cons, IH. lia.
Qed.
Lemma avail_ticks_nil : avail_ticks [] = 0. Proof. reflexivity. Qed.

Definition clean1 (k : key) (e : event) : Prop :=
  match e with Unflag k' => k' <> k | Prune seen => mem k seen = true | _ => True end.
Lemma clean_snoc k h e : clean k h -> clean1 k e -> clean k (h ++ [e]).
Proof. intros H1 H2. apply Forall_app. split; [exact H1 | constructor; [exact H2 | constructor]]. Qed.

(** ---- one step of the counting machine, seen from one peer ---- *)
Lemma lookup_map_succ (sp : sstate) k :
  lookup (map (fun kv => (fst kv, snd kv + 1)) sp) k = option_map (fun n => n + 1) (lookup sp k).
Proof.
  induction sp as [|[k' n] sp IH]; cbn; [reflexivity|]. destruct (key_eqb k k'); [reflexivity | exact IH].
Qed.

Lemma spec_sweep_peer_sub c sp k' k n :
  lookup (fst (spec_sweep_peer c sp k')) k = Some n -> lookup sp k = Some n.
Proof.
  unfold spec_sweep_peer. destruct (lookup sp k') as [m|]; [|tauto].
  destruct (timed_outb c m); cbn [fst]; [|tauto].
  destruct (key_eq_dec k k') as [->|Hne]; [rewrite lookup_remove_eq; discriminate | now rewrite lookup_remove_neq].
Qed.
Lemma spec_sweep_peer_out c sp k' x :
  In x (snd (spec_sweep_peer c sp k')) -> exists n, lookup sp x = Some n /\ timed_outb c n = true.
Proof.
  unfold spec_sweep_peer. destruct (lookup sp k') as [m|] eqn:L; [|intros []].
  destruct (timed_outb c m) eqn:E; cbn [snd]; [|intros []]. intros [<-|[]]. now exists m.
Qed.
Lemma spec_sweep_sub_out c sp :
  let r := fold_sweep (spec_sweep_peer c) (map fst sp) (sp, []) in
  (forall k n, lookup (fst r) k = Some n -> lookup sp k = Some n) /\
  (forall x, In x (snd r) -> exists n, lookup sp x = Some n /\ timed_outb c n = true).
Proof.
  cbn zeta.
  apply (fold_sweep_ind (spec_sweep_peer c)
          (fun s0 out => (forall k n, lookup s0 k = Some n -> lookup sp k = Some n) /\
                         (forall x, In x out -> exists n, lookup sp x = Some n /\ timed_outb c n = true)));
    [|split; [tauto | intros x []]].
  intros s0 out k [H1 H2]. split.
  - intros k0 n H. apply H1. now apply spec_sweep_peer_sub with (c := c) (k' := k).
  - intros x Hin. apply in_app_or in Hin as [Hin|Hin]; [now apply H2|].
    apply spec_sweep_peer_out in Hin as [n [Hl Ht]]. exists n. split; [now apply H1 | exact Ht].
Qed.

Lemma spec_step_out c sp e x :
  In x (snd (spec_step c sp e)) -> exists n, lookup sp x = Some n /\ timed_outb c n = true.
Proof.
  destruct e as [a|k a|k|seen|k|]; cbn [spec_step snd]; try (intros []).
  - apply spec_sweep_peer_out.
  - apply (proj2 (spec_sweep_sub_out c sp)).
Qed.

(** ---- soundness invariant: every counter belongs to a clean flag period of the history ---- *)
Definition period (h : list event) (k : key) (n : N) : Prop :=
  exists h1 h2, h = h1 ++ Flag k true :: h2 /\ clean k h2 /\ n = avail_ticks h2.
Definition SInv (h : list event) (sp : sstate) : Prop := forall k n, lookup sp k = Some n -> period h k n.

Lemma period_extend h k n e : period h k n -> clean1 k e -> period (h ++ [e]) k (n + tick1 e).
Proof.
  intros [h1 [h2 [E [Hc Hn]]]] He. exists h1, (h2 ++ [e]). split; [|split].
  - rewrite E, <- app_assoc. reflexivity.
  - now apply clean_snoc.
  - rewrite avail_ticks_app, avail_ticks_cons, avail_ticks_nil. lia.
Qed.

Lemma sinv_step c h sp e : SInv h sp -> SInv (h ++ [e]) (fst (spec_step c sp e)).
Proof.
  intros HI k n. destruct e as [a|k' a|k'|seen|k'|]; cbn [spec_step fst].
  - destruct a.
    + rewrite lookup_map_succ. destruct (lookup sp k) as [m|] eqn:L; [|discriminate]. cbn. intros H. inversion H; subst.
      apply (period_extend h k m (Tick true) (HI k m L) I).
    + intros L. replace n with (n + tick1 (Tick false)) by (cbn; lia). apply period_extend; [now apply HI | exact I].
  - assert (Hold : lookup sp k = Some n -> period (h ++ [Flag k' a]) k n).
    { intros L. replace n with (n + tick1 (Flag k' a)) by (cbn; lia). apply period_extend; [now apply HI | exact I]. }
    destruct a; [|exact Hold]. destruct (lookup sp k') eqn:L'; [exact Hold|].
    rewrite lookup_app. destruct (lookup sp k) as [m|] eqn:L; [intros H; inversion H; subst; now apply Hold|].
    cbn. destruct (key_eqb k k') eqn:E; [|discriminate]. apply key_eqb_eq in E. subst k'.
    intros H. inversion H; subst. exists h, []. split; [reflexivity|]. split; [constructor | reflexivity].
  - destruct (key_eq_dec k k') as [->|Hne]; [rewrite lookup_remove_eq; discriminate|].
    rewrite lookup_remove_neq by exact Hne. intros L.
    replace n with (n + tick1 (Unflag k')) by (cbn; lia). apply period_extend; [now apply HI | cbn; congruence].
  - rewrite (lookup_filter_key (fun x => mem x seen)). destruct (mem k seen) eqn:Em; [|discriminate]. intros L.
    replace n with (n + tick1 (Prune seen)) by (cbn; lia). apply period_extend; [now apply HI | exact Em].
  - intros L. apply spec_sweep_peer_sub in L.
    replace n with (n + tick1 (SweepPeer k')) by (cbn; lia). apply period_extend; [now apply HI | exact I].
  - intros L. apply (proj1 (spec_sweep_sub_out c sp)) in L.
    replace n with (n + tick1 Sweep) by (cbn; lia). apply period_extend; [now apply HI | exact I].
Qed.

Lemma sinv_run c h : forall h0 sp, SInv h0 sp -> SInv (h0 ++ h) (spec_run c sp h).
Proof.
  induction h as [|e h IH]; intros h0 sp HI; [now rewrite app_nil_r|].
  rewrite spec_run_cons. replace (h0 ++ e :: h) with ((h0 ++ [e]) ++ h) by (now rewrite <- app_assoc).
  apply IH. now apply sinv_step.
Qed.

(** ---- soundness, on the model of the code ---- *)
Lemma no_wrap_prefix c h1 h2 : no_wrap c (h1 ++ h2) -> no_wrap c h1.
Proof. unfold no_wrap. rewrite app_length, Nat2N.inj_add. lia. Qed.

Lemma blocked_only_after_timeout c h e k :
  config_ok c -> no_wrap c (h ++ [e]) ->
  In k (snd (step c (run c init h) e)) ->
  exists h1 h2, h = h1 ++ Flag k true :: h2 /\ clean k h2 /\ timed_out c (avail_ticks h2).
Proof.
  intros Hc Hw Hin.
  assert (Hw1 : seq init + N.of_nat (length h) + timeout_ticks c < 2 ^ 64).
  { apply no_wrap_prefix in Hw. unfold no_wrap in Hw. cbn [seq init]. lia. }
  destruct (sim_run c h Hc init [] (rel_init c) Hw1) as [_ HR].
  assert (Hs : seq (run c init h) + 1 + timeout_ticks c < 2 ^ 64).
  { destruct HR as [_ Hle]. unfold no_wrap in Hw. rewrite app_length, Nat2N.inj_add in Hw. cbn [length] in Hw.
    assert (Hsl : forall h' s, seq s + N.of_nat (length h') + 1 < 2 ^ 64 -> seq (run c s h') <= seq s + N.of_nat (length h')).
    { induction h' as [|e' h' IH]; intros s Hb; [cbn; lia|]. cbn [length] in Hb. rewrite Nat2N.inj_succ in Hb.
      rewrite run_cons. pose proof (step_seq_le c s e'). specialize (IH (fst (step c s e'))).
      cbn [length]. rewrite Nat2N.inj_succ. lia. }
    specialize (Hsl h init). cbn [seq init] in Hsl. destruct (timeout_ticks_spec c Hc) as [_ [HT _]]. lia. }
  destruct (step_rel c _ _ e Hc HR Hs) as [_ Ho]. rewrite Ho in Hin.
  apply spec_step_out in Hin as [n [L Ht]].
  assert (HI : SInv h (spec_run c [] h)).
  { apply (sinv_run c h [] []). intros k0 n0 H. discriminate. }
  destruct (HI k n L) as [h1 [h2 [E [Hcl Hn]]]]. exists h1, h2. split; [exact E|]. split; [exact Hcl|].
  subst n. now apply timed_outb_iff.
Qed.

(** ---- completeness: a clean flag period longer than the timeout is blocklisted ---- *)
Lemma run_seq_le c h : forall s, seq s + N.of_nat (length h) + 1 < 2 ^ 64 ->
  seq (run c s h) <= seq s + N.of_nat (length h).
Proof.
  induction h as [|e h IH]; intros s Hb; [cbn; lia|]. cbn [length] in Hb |- *. rewrite Nat2N.inj_succ in Hb |- *.
  rewrite run_cons. pose proof (step_seq_le c s e). specialize (IH (fst (step c s e))). lia.
Qed.

Lemma spec_sweep_peer_keep c sp k' k n out :
  (In k out \/ lookup sp k = Some n) ->
  In k (out ++ snd (spec_sweep_peer c sp k')) \/ lookup (fst (spec_sweep_peer c sp k')) k = Some n.
Proof.
  intros [H|H]; [left; apply in_or_app; now left|].
  unfold spec_sweep_peer. destruct (lookup sp k') as [m|] eqn:L; [|right; exact H].
  destruct (timed_outb c m); cbn [fst snd]; [|right; exact H].
  destruct (key_eq_dec k k') as [->|Hne]; [left; apply in_or_app; right; now left | right; now rewrite lookup_remove_neq].
Qed.

Lemma spec_step_keep c sp e k n : lookup sp k = Some n -> clean1 k e ->
  In k (snd (spec_step c sp e)) \/ lookup (fst (spec_step c sp e)) k = Some (n + tick1 e).
Proof.
  intros L He. destruct e as [a|k' a|k'|seen|k'|]; cbn [spec_step fst snd tick1].
  - right. destruct a; [rewrite lookup_map_succ, L; reflexivity | rewrite L; f_equal; lia].
  - right. rewrite N.add_0_r. destruct a; [|exact L]. destruct (lookup sp k'); [exact L|]. now rewrite lookup_app, L.
  - right. rewrite N.add_0_r. cbn in He. now rewrite lookup_remove_neq by congruence.
  - right. rewrite N.add_0_r. cbn in He. rewrite (lookup_filter_key (fun x => mem x seen)). now rewrite He.
  - rewrite N.add_0_r. destruct (spec_sweep_peer_keep c sp k' k n [] (or_intror L)) as [H|H]; [left; exact H | right; exact H].
  - rewrite N.add_0_r.
    apply (fold_sweep_ind (spec_sweep_peer c) (fun s0 out => In k out \/ lookup s0 k = Some n)); [|right; exact L].
    intros s0 out k0 H. now apply spec_sweep_peer_keep.
Qed.

Lemma spec_keep c h : forall sp k n, lookup sp k = Some n -> clean k h ->
  In k (concat (spec_outputs c sp h)) \/ lookup (spec_run c sp h) k = Some (n + avail_ticks h).
Proof.
  induction h as [|e h IH]; intros sp k n L Hc; [right; cbn; rewrite L; f_equal; lia|].
  inversion Hc as [|x l He Hl]; subst. rewrite spec_outputs_cons, spec_run_cons, avail_ticks_cons. cbn [concat].
  destruct (spec_step_keep c sp e k n L He) as [H|H]; [left; apply in_or_app; now left|].
  destruct (IH _ k _ H Hl) as [H1|H1]; [left; apply in_or_app; now right | right; rewrite H1; f_equal; lia].
Qed.

Lemma fold_sweep_out_mono {S : Type} (f : S -> key -> S * list key) ks : forall s out x,
  In x out -> In x (snd (fold_sweep f ks (s, out))).
Proof.
  intros s out x Hin. apply (fold_sweep_ind f (fun _ o => In x o)); [|exact Hin].
  intros s0 o k H. apply in_or_app. now left.
Qed.

Lemma spec_sweep_complete c sp k n : lookup sp k = Some n -> timed_outb c n = true ->
  In k (snd (spec_step c sp Sweep)) /\ In k (snd (spec_step c sp (SweepPeer k))).
Proof.
  intros L Ht. split.
  - cbn [spec_step]. pose proof (lookup_some_in sp k n L) as Hin. apply in_split in Hin as [ks1 [ks2 E]].
    rewrite E, fold_sweep_app.
    match goal with |- context [fold_sweep ?f ks1 ?a] => set (r := fold_sweep f ks1 a) end.
    assert (H1 : In k (snd r) \/ lookup (fst r) k = Some n).
    { unfold r. apply (fold_sweep_ind (spec_sweep_peer c) (fun s0 out => In k out \/ lookup s0 k = Some n)); [|right; exact L].
      intros s0 out k0 H. now apply spec_sweep_peer_keep. }
    clearbody r. destruct r as [s1 o1]. cbn [fst snd] in H1.
    rewrite fold_sweep_cons. apply fold_sweep_out_mono.
    destruct H1 as [H1|H1]; [apply in_or_app; now left|].
    apply in_or_app. right. unfold spec_sweep_peer. rewrite H1, Ht. now left.
  - cbn [spec_step]. unfold spec_sweep_peer. rewrite L, Ht. now left.
Qed.

Lemma rel_absent c s sp k : Rel c s sp -> (absent s k <-> lookup sp k = None).
Proof.
  intros [Hf _]. unfold absent. rewrite Hf, lookup_absf. destruct (lookup sp k); cbn; split; congruence.
Qed.

Lemma blocked_once_timeout c h1 h2 k :
  config_ok c -> no_wrap c (h1 ++ Flag k true :: h2 ++ [Sweep]) ->
  absent (run c init h1) k -> clean k h2 -> timed_out c (avail_ticks h2) ->
  In k (blocked_in c (run c init (h1 ++ [Flag k true])) h2) \/
  (In k (snd (step c (run c init (h1 ++ Flag k true :: h2)) Sweep)) /\
   In k (snd (step c (run c init (h1 ++ Flag k true :: h2)) (SweepPeer k)))).
Proof.
  intros Hc Hw Ha Hcl Hto.
  unfold no_wrap in Hw. rewrite app_length in Hw. cbn [length] in Hw. rewrite app_length in Hw. cbn [length] in Hw.
  rewrite !Nat2N.inj_add, !Nat2N.inj_succ, Nat2N.inj_add in Hw. cbn in Hw.
  destruct (timeout_ticks_spec c Hc) as [_ [HT1 _]].
  (* prefix h1 ++ [Flag k true] *)
  set (p := h1 ++ [Flag k true]).
  assert (Hp : seq init + N.of_nat (length p) + timeout_ticks c < 2 ^ 64).
  { unfold p. rewrite app_length, Nat2N.inj_add. cbn. lia. }
  destruct (sim_run c p Hc init [] (rel_init c) Hp) as [_ HRp].
  assert (HR1 : Rel c (run c init h1) (spec_run c [] h1)).
  { apply (sim_run c h1 Hc init [] (rel_init c)). cbn [seq init]. lia. }
  assert (L0 : lookup (spec_run c [] p) k = Some 0).
  { unfold p. rewrite spec_run_app. cbn [spec_run fold_left spec_step fst].
    apply (rel_absent c _ _ k HR1) in Ha. fold (spec_run c [] h1). rewrite Ha, lookup_app, Ha. cbn. now rewrite key_eqb_refl. }
  assert (Hseqp : seq (run c init p) <= N.of_nat (length p)).
  { pose proof (run_seq_le c p init) as H. cbn [seq init] in H. apply H. unfold p. rewrite app_length, Nat2N.inj_add. cbn. lia. }
  assert (Hlenp : N.of_nat (length p) = N.of_nat (length h1) + 1).
  { unfold p. rewrite app_length, Nat2N.inj_add. reflexivity. }
  (* through h2 *)
  assert (Hb2 : seq (run c init p) + N.of_nat (length h2) + timeout_ticks c < 2 ^ 64) by lia.
  destruct (sim_run c h2 Hc _ _ HRp Hb2) as [Ho2 HR2].
  destruct (spec_keep c h2 _ k 0 L0 Hcl) as [Hin|L2].
  - left. unfold blocked_in. fold p. rewrite Ho2. exact Hin.
  - right.
    assert (Heq : run c init (h1 ++ Flag k true :: h2) = run c (run c init p) h2).
    { unfold p. rewrite <- run_app, <- app_assoc. reflexivity. }
    rewrite Heq.
    assert (Hs : seq (run c (run c init p) h2) + 1 + timeout_ticks c < 2 ^ 64).
    { pose proof (run_seq_le c h2 (run c init p)) as H. lia. }
    rewrite N.add_0_l in L2. apply timed_outb_iff in Hto.
    destruct (spec_sweep_complete c _ k _ L2 Hto) as [C1 C2].
    destruct (step_rel c _ _ Sweep Hc HR2 Hs) as [_ E1]. destruct (step_rel c _ _ (SweepPeer k) Hc HR2 Hs) as [_ E2].
    rewrite E1, E2. split; assumption.
Qed.
