(** C26 — lemmas about the blocker model, part 1: association lists, the
    sweep fold, and the structural facts (no arithmetic): an absent peer is
    never blocklisted until it is flagged again. *)
From Coq Require Import List ZArith NArith Bool Lia.
Import ListNotations.
Require Import Aurora.Base.Corr Aurora.C26.Model.
Local Open Scope N_scope.

(** ---- keys ---- *)
Lemma key_eqb_eq a b : key_eqb a b = true <-> a = b.
Proof. apply bytes_eqb_eq. Qed.
Lemma key_eqb_refl a : key_eqb a a = true.
Proof. now apply key_eqb_eq. Qed.
Lemma key_eqb_neq a b : key_eqb a b = false <-> a <> b.
Proof.
  split.
  - intros Hf Heq. apply key_eqb_eq in Heq. congruence.
  - intros Hne. destruct (key_eqb a b) eqn:E; [apply key_eqb_eq in E; contradiction | reflexivity].
Qed.
Lemma key_eq_dec (a b : key) : {a = b} + {a <> b}.
Proof.
  destruct (key_eqb a b) eqn:E; [left; now apply key_eqb_eq | right; now apply key_eqb_neq].
Qed.
Lemma mem_in k l : mem k l = true <-> In k l.
Proof.
  unfold mem. rewrite existsb_exists. split.
  - intros [x [H1 H2]]. apply key_eqb_eq in H2. now subst.
  - intros H. exists k. split; [exact H | apply key_eqb_refl].
Qed.

(** ---- association lists ---- *)
Section Assoc.
Implicit Types l : list (key * N).

Lemma lookup_app l1 l2 k :
  lookup (l1 ++ l2) k = match lookup l1 k with Some v => Some v | None => lookup l2 k end.
Proof.
  induction l1 as [|[k' v] l1 IH]; cbn; [reflexivity|]. destruct (key_eqb k k'); [reflexivity | exact IH].
Qed.
Lemma lookup_filter_key (p : key -> bool) l k :
  lookup (filter (fun kv => p (fst kv)) l) k = if p k then lookup l k else None.
Proof.
  induction l as [|[k' v] l IH]; cbn; [now destruct (p k)|].
  destruct (p k') eqn:Ep; cbn.
  - destruct (key_eqb k k') eqn:E; [apply key_eqb_eq in E; subst; now rewrite Ep | exact IH].
  - destruct (key_eqb k k') eqn:E; [apply key_eqb_eq in E; subst; rewrite Ep in IH |- *; exact IH | exact IH].
Qed.
Lemma lookup_remove_eq l k : lookup (remove_key l k) k = None.
Proof.
  unfold remove_key. rewrite (lookup_filter_key (fun x => negb (key_eqb k x))). now rewrite key_eqb_refl.
Qed.
Lemma lookup_remove_neq l k k' : k' <> k -> lookup (remove_key l k) k' = lookup l k'.
Proof.
  intros Hne. unfold remove_key. rewrite (lookup_filter_key (fun x => negb (key_eqb k x))).
  assert (E : key_eqb k k' = false) by (apply key_eqb_neq; congruence). now rewrite E.
Qed.
Lemma lookup_none_notin l k : lookup l k = None <-> ~ In k (map fst l).
Proof.
  induction l as [|[k' v] l IH]; cbn; [tauto|].
  destruct (key_eqb k k') eqn:E.
  - apply key_eqb_eq in E. subst. split; [discriminate | intros H; exfalso; apply H; now left].
  - apply key_eqb_neq in E. rewrite IH. split; [intros H [H1|H1]; [congruence | contradiction] | tauto].
Qed.
Lemma lookup_some_in l k v : lookup l k = Some v -> In k (map fst l).
Proof.
  intros H. destruct (in_dec key_eq_dec k (map fst l)) as [Hi|Hn]; [exact Hi|].
  apply lookup_none_notin in Hn. congruence.
Qed.
End Assoc.

Lemma NoDup_snoc {A} (l : list A) x : NoDup l -> ~ In x l -> NoDup (l ++ [x]).
Proof.
  induction l as [|y l IH]; cbn; intros Hn Hx; [constructor; [intros []|constructor]|].
  inversion Hn as [|z l' Hy Hl]; subst. constructor.
  - intros Hin. apply in_app_or in Hin as [Hin|[Hin|[]]]; [contradiction | subst; apply Hx; now left].
  - apply IH; [exact Hl | intros Hin; apply Hx; now right].
Qed.

(** ---- the sweep fold ---- *)
Lemma fold_sweep_ind {S : Type} (f : S -> key -> S * list key) (P : S -> list key -> Prop) :
  (forall s out k, P s out -> P (fst (f s k)) (out ++ snd (f s k))) ->
  forall ks s out, P s out -> P (fst (fold_sweep f ks (s, out))) (snd (fold_sweep f ks (s, out))).
Proof.
  intros Hstep ks. induction ks as [|k ks IH]; intros s out HP; [exact HP|].
  unfold fold_sweep. cbn [fold_left fst snd]. specialize (Hstep s out k HP).
  destruct (f s k) as [s' o]. exact (IH s' (out ++ o) Hstep).
Qed.
Lemma fold_sweep_app {S : Type} (f : S -> key -> S * list key) ks1 ks2 acc :
  fold_sweep f (ks1 ++ ks2) acc = fold_sweep f ks2 (fold_sweep f ks1 acc).
Proof. unfold fold_sweep. apply fold_left_app. Qed.
Lemma fold_sweep_cons {S : Type} (f : S -> key -> S * list key) k ks s out :
  fold_sweep f (k :: ks) (s, out) = fold_sweep f ks (fst (f s k), out ++ snd (f s k)).
Proof. unfold fold_sweep. cbn [fold_left fst snd]. now destruct (f s k). Qed.

(** two folds in lock-step *)
Lemma fold_sweep_ind2 {S1 S2 : Type} (f1 : S1 -> key -> S1 * list key) (f2 : S2 -> key -> S2 * list key)
      (R : S1 -> S2 -> Prop) :
  (forall s1 s2 k, R s1 s2 -> R (fst (f1 s1 k)) (fst (f2 s2 k)) /\ snd (f1 s1 k) = snd (f2 s2 k)) ->
  forall ks s1 s2 out, R s1 s2 ->
    R (fst (fold_sweep f1 ks (s1, out))) (fst (fold_sweep f2 ks (s2, out))) /\
    snd (fold_sweep f1 ks (s1, out)) = snd (fold_sweep f2 ks (s2, out)).
Proof.
  intros Hstep ks. induction ks as [|k ks IH]; intros s1 s2 out HR; [split; [exact HR | reflexivity]|].
  rewrite !fold_sweep_cons. destruct (Hstep s1 s2 k HR) as [H1 H2]. rewrite H2. now apply IH.
Qed.

(** ---- one per-peer sweep step of the model ---- *)
Definition absent (s : state) (k : key) : Prop := lookup (flagged s) k = None.

Lemma sweep_peer_out s k x : In x (snd (sweep_peer s k)) -> x = k /\ ~ absent s k.
Proof.
  unfold sweep_peer, absent. destruct (lookup (flagged s) k) as [ba|] eqn:L; [|intros []].
  destruct (due (seq s) ba); cbn; [|intros []]. intros [H|[]]. split; [now subst | congruence].
Qed.
Lemma sweep_peer_absent s k x : absent s x -> absent (fst (sweep_peer s k)) x.
Proof.
  unfold sweep_peer, absent. intros Ha. destruct (lookup (flagged s) k) as [ba|] eqn:L; [|exact Ha].
  destruct (due (seq s) ba); cbn; [|exact Ha].
  destruct (key_eq_dec x k) as [->|Hne]; [apply lookup_remove_eq | now rewrite lookup_remove_neq].
Qed.
Lemma sweep_peer_removes s k x : In x (snd (sweep_peer s k)) -> absent (fst (sweep_peer s k)) x.
Proof.
  unfold sweep_peer, absent. destruct (lookup (flagged s) k) as [ba|] eqn:L; [|intros []].
  destruct (due (seq s) ba); cbn; [|intros []]. intros [H|[]]. subst. apply lookup_remove_eq.
Qed.
Lemma sweep_peer_seq s k : seq (fst (sweep_peer s k)) = seq s.
Proof.
  unfold sweep_peer. destruct (lookup (flagged s) k) as [ba|]; [|reflexivity]. now destruct (due (seq s) ba).
Qed.

(** a whole sweep: an absent peer stays absent and is not in the output *)
Lemma sweep_absent s x : absent s x -> absent (fst (sweep s)) x /\ ~ In x (snd (sweep s)).
Proof.
  intros Ha. unfold sweep.
  apply (fold_sweep_ind sweep_peer (fun s out => absent s x /\ ~ In x out)); [|split; [exact Ha | intros []]].
  intros s0 out k [H1 H2]. split; [now apply sweep_peer_absent|].
  intros Hin. apply in_app_or in Hin as [Hin|Hin]; [contradiction|].
  apply sweep_peer_out in Hin as [-> Hn]. contradiction.
Qed.
(** every peer in the output of a sweep is absent afterwards, and listed once *)
Lemma sweep_removes s : (forall x, In x (snd (sweep s)) -> absent (fst (sweep s)) x) /\ NoDup (snd (sweep s)).
Proof.
  unfold sweep.
  apply (fold_sweep_ind sweep_peer (fun s out => (forall x, In x out -> absent s x) /\ NoDup out));
    [|split; [intros x [] | constructor]].
  intros s0 out k [H1 H2]. split.
  - intros x Hin. apply in_app_or in Hin as [Hin|Hin]; [apply sweep_peer_absent; now apply H1 | now apply sweep_peer_removes].
  - assert (Hd : snd (sweep_peer s0 k) = [] \/ (snd (sweep_peer s0 k) = [k] /\ ~ absent s0 k)).
    { unfold sweep_peer, absent. destruct (lookup (flagged s0) k) as [ba|] eqn:L; [|now left].
      destruct (due (seq s0) ba); cbn; [right; split; [reflexivity | congruence] | now left]. }
    destruct Hd as [Hd|[Hd Hn]]; rewrite Hd; [now rewrite app_nil_r|].
    apply NoDup_snoc; [exact H2|]. intros Hin. apply Hn. now apply H1.
Qed.

(** exactly the due peers are blocklisted, whatever the iteration order *)
Lemma sweep_peer_lookup_other s k y : y <> k -> lookup (flagged (fst (sweep_peer s k))) y = lookup (flagged s) y.
Proof.
  intros Hne. unfold sweep_peer. destruct (lookup (flagged s) k) as [ba|]; [|reflexivity].
  destruct (due (seq s) ba); cbn; [now apply lookup_remove_neq | reflexivity].
Qed.
Lemma sweep_peer_out_iff s k y :
  In y (snd (sweep_peer s k)) <-> y = k /\ exists ba, lookup (flagged s) k = Some ba /\ due (seq s) ba = true.
Proof.
  unfold sweep_peer. destruct (lookup (flagged s) k) as [ba|] eqn:L.
  - destruct (due (seq s) ba) eqn:D; cbn.
    + split; [intros [H|[]]; split; [now subst | now exists ba] | intros [H _]; now left].
    + split; [intros [] | intros [_ [ba' [H1 H2]]]; inversion H1; subst; congruence].
  - cbn. split; [intros [] | intros [_ [ba' [H1 _]]]; discriminate].
Qed.
Lemma fold_sweep_exact ks : forall s0 out, NoDup ks ->
  forall y, In y (snd (fold_sweep sweep_peer ks (s0, out))) <->
            In y out \/ (In y ks /\ exists ba, lookup (flagged s0) y = Some ba /\ due (seq s0) ba = true).
Proof.
  induction ks as [|k ks IH]; intros s0 out Hnd y.
  - cbn. split; [now left | intros [H|[[] _]]; exact H].
  - inversion Hnd as [|z l Hk Hks]; subst. rewrite fold_sweep_cons, (IH _ _ Hks), sweep_peer_seq, in_app_iff, sweep_peer_out_iff.
    split.
    + intros [[H|[-> H]]|[H1 [ba [H2 H3]]]].
      * now left.
      * right. split; [now left | exact H].
      * right. split; [now right|]. exists ba. split; [|exact H3].
        rewrite sweep_peer_lookup_other in H2; [exact H2 | intros ->; contradiction].
    + intros [H|[[->|H1] [ba [H2 H3]]]].
      * left. now left.
      * left. right. split; [reflexivity | now exists ba].
      * right. split; [exact H1|]. exists ba. split; [|exact H3].
        rewrite sweep_peer_lookup_other; [exact H2 | intros ->; contradiction].
Qed.
Lemma sweep_blocks_exactly_due s x :
  NoDup (map fst (flagged s)) ->
  (In x (snd (sweep s)) <-> exists ba, lookup (flagged s) x = Some ba /\ due (seq s) ba = true).
Proof.
  intros Hnd. unfold sweep. rewrite (fold_sweep_exact _ _ _ Hnd). split.
  - intros [[]|[_ H]]. exact H.
  - intros [ba [H1 H2]]. right. split; [now apply lookup_some_in with (v := ba) | now exists ba].
Qed.

(** ---- histories ---- *)
Lemma run_cons c s e h : run c s (e :: h) = run c (fst (step c s e)) h.
Proof. reflexivity. Qed.
Lemma run_app c s h1 h2 : run c s (h1 ++ h2) = run c (run c s h1) h2.
Proof. unfold run. apply fold_left_app. Qed.
Lemma outputs_cons c s e h : outputs c s (e :: h) = snd (step c s e) :: outputs c (fst (step c s e)) h.
Proof. cbn [outputs]. now destruct (step c s e). Qed.
Lemma blocked_in_cons c s e h : blocked_in c s (e :: h) = snd (step c s e) ++ blocked_in c (fst (step c s e)) h.
Proof. unfold blocked_in. now rewrite outputs_cons. Qed.
Lemma blocked_in_app c h1 : forall s h2, blocked_in c s (h1 ++ h2) = blocked_in c s h1 ++ blocked_in c (run c s h1) h2.
Proof.
  induction h1 as [|e h1 IH]; intros s h2; [reflexivity|].
  cbn [app]. rewrite !blocked_in_cons, run_cons, IH. now rewrite app_assoc.
Qed.

Lemma step_absent c s e k :
  absent s k -> match e with Flag k' true => k' <> k | _ => True end ->
  absent (fst (step c s e)) k /\ ~ In k (snd (step c s e)).
Proof.
  intros Ha He. destruct e as [a|k' a|k'|seen|k'|]; cbn [step fst snd].
  - split; [destruct a; exact Ha | intros []].
  - split; [|intros []]. destruct a; [|exact Ha].
    destruct (lookup (flagged s) k') eqn:L; [exact Ha|]. unfold absent. cbn [flagged].
    rewrite lookup_app. unfold absent in Ha. rewrite Ha. cbn.
    assert (E : key_eqb k k' = false) by (apply key_eqb_neq; congruence). now rewrite E.
  - split; [|intros []]. unfold absent. cbn [flagged].
    destruct (key_eq_dec k k') as [->|Hne]; [apply lookup_remove_eq | now rewrite lookup_remove_neq].
  - split; [|intros []]. unfold absent. cbn [flagged].
    rewrite (lookup_filter_key (fun x => mem x seen)). now destruct (mem k seen).
  - split; [now apply sweep_peer_absent|]. intros Hin. apply sweep_peer_out in Hin as [E Hn]. subst k'. contradiction.
  - now apply sweep_absent.
Qed.

Lemma absent_no_output c h : forall s k, absent s k -> no_flag k h ->
  ~ In k (blocked_in c s h) /\ absent (run c s h) k.
Proof.
  induction h as [|e h IH]; intros s k Ha Hnf; [split; [intros [] | exact Ha]|].
  inversion Hnf as [|x l He Hl]; subst.
  destruct (step_absent c s e k Ha) as [H1 H2]; [destruct e as [a|k' [|]|k'|seen|k'|]; try exact I; exact He|].
  destruct (IH _ k H1 Hl) as [H3 H4]. rewrite blocked_in_cons, run_cons. split; [|exact H4].
  intros Hin. apply in_app_or in Hin as [Hin|Hin]; contradiction.
Qed.

(** whoever is blocklisted by an event is absent right after it; no address twice in one event *)
Lemma step_output_absent c s e k : In k (snd (step c s e)) -> absent (fst (step c s e)) k.
Proof.
  destruct e as [a|k' a|k'|seen|k'|]; cbn [step fst snd]; try (intros []).
  - apply sweep_peer_removes.
  - apply (proj1 (sweep_removes s)).
Qed.
Lemma step_output_nodup c s e : NoDup (snd (step c s e)).
Proof.
  destruct e as [a|k' a|k'|seen|k'|]; cbn [step fst snd]; try constructor.
  - unfold sweep_peer. destruct (lookup (flagged s) k') as [ba|]; [|constructor].
    destruct (due (seq s) ba); cbn; [constructor; [intros []|constructor] | constructor].
  - apply (proj2 (sweep_removes s)).
Qed.

Lemma never_after_unflag c s h1 h2 k :
  no_flag k h2 -> ~ In k (blocked_in c (run c s (h1 ++ [Unflag k])) h2).
Proof.
  intros Hnf. apply (absent_no_output c h2 _ k); [|exact Hnf].
  rewrite run_app. cbn. unfold absent. cbn [flagged]. apply lookup_remove_eq.
Qed.
Lemma never_after_prune c s h1 h2 k seen :
  mem k seen = false -> no_flag k h2 -> ~ In k (blocked_in c (run c s (h1 ++ [Prune seen])) h2).
Proof.
  intros Hm Hnf. apply (absent_no_output c h2 _ k); [|exact Hnf].
  rewrite run_app. cbn. unfold absent. cbn [flagged].
  rewrite (lookup_filter_key (fun x => mem x seen)). now rewrite Hm.
Qed.
Lemma at_most_once c s h1 e h2 k :
  In k (snd (step c (run c s h1) e)) -> no_flag k h2 ->
  ~ In k (blocked_in c (run c s (h1 ++ [e])) h2).
Proof.
  intros Hin Hnf. apply (absent_no_output c h2 _ k); [|exact Hnf].
  rewrite run_app. cbn [run fold_left]. now apply step_output_absent.
Qed.

(** ---- keys of the map stay distinct ---- *)
Lemma nodup_filter_keys (p : key * N -> bool) l : NoDup (map fst l) -> NoDup (map fst (filter p l)).
Proof.
  induction l as [|[k v] l IH]; cbn; intros Hn; [constructor|].
  inversion Hn as [|x l' Hk Hl]; subst. destruct (p (k, v)); cbn; [|now apply IH].
  constructor; [|now apply IH]. intros Hin. apply Hk.
  apply in_map_iff in Hin as [[k2 v2] [E Hin]]. apply filter_In in Hin as [Hin _].
  apply in_map_iff. now exists (k2, v2).
Qed.
Lemma sweep_peer_nodup s k : NoDup (map fst (flagged s)) -> NoDup (map fst (flagged (fst (sweep_peer s k)))).
Proof.
  intros Hn. unfold sweep_peer. destruct (lookup (flagged s) k) as [ba|]; [|exact Hn].
  destruct (due (seq s) ba); cbn; [now apply nodup_filter_keys | exact Hn].
Qed.
Lemma step_nodup c s e : NoDup (map fst (flagged s)) -> NoDup (map fst (flagged (fst (step c s e)))).
Proof.
  intros Hn. destruct e as [a|k' a|k'|seen|k'|]; cbn [step fst].
  - now destruct a.
  - destruct a; [|exact Hn]. destruct (lookup (flagged s) k') eqn:L; [exact Hn|]. cbn [flagged].
    rewrite map_app. cbn. apply NoDup_snoc; [exact Hn | now apply lookup_none_notin].
  - cbn [flagged]. now apply nodup_filter_keys.
  - cbn [flagged]. now apply nodup_filter_keys.
  - now apply sweep_peer_nodup.
  - unfold sweep. apply (fold_sweep_ind sweep_peer (fun s _ => NoDup (map fst (flagged s)))); [|exact Hn].
    intros s0 out k H. now apply sweep_peer_nodup.
Qed.
Lemma run_nodup c h : forall s, NoDup (map fst (flagged s)) -> NoDup (map fst (flagged (run c s h))).
Proof.
  induction h as [|e h IH]; intros s Hn; [exact Hn|]. rewrite run_cons. apply IH. now apply step_nodup.
Qed.
