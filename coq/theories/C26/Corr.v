(** C26 — correspondence: the harness drives a real [blocker.Blocker] (built by
    the real constructor, background loops stopped, ticks and sweeps run
    synchronously through the verif hooks) with a recording Blocklister, and
    records per event the addresses handed to Blocklist (sorted) and, at the
    end, the sequence and the flagged map; [check_case] replays the events on
    the model.  Addresses are indexes into the case's pool. *)
From Coq Require Import List NArith ZArith Bool.
Import ListNotations.
Require Import Aurora.Base.Corr.
Require Export Aurora.C26.Model.
Local Open Scope N_scope.

Inductive iev :=
| ITick (a : bool) | IFlag (i : nat) (a : bool) | IUnflag (i : nat) | IPrune (seen : list nat) | ISweep
(** a sweep during which the sequencer ticked [ticks] times (available), at
    unobserved points of the map iteration *)
| ISweepTicks (ticks : nat).

(** [CNew]: only the constructor: did it panic?
    [CHist]: flagTimeout, resolution, initial sequence, pool, events with the
    observed blocklistings (indexes, sorted by address), final sequence and
    final map (index, deadline) sorted by address *)
Inductive case :=
| CNew (ft res wake : Z) (panicked : bool)
| CHist (ft res : Z) (seq0 : N) (pool : list key) (evs : list (iev * list nat))
        (final_seq : N) (final_map : list (nat * N)).

Definition kof (pool : list key) (i : nat) : key := nth i pool [].

Fixpoint key_ltb (a b : key) : bool :=
  match a, b with
  | [], [] => false
  | [], _ :: _ => true
  | _ :: _, [] => false
  | x :: a', y :: b' => if x <? y then true else if y <? x then false else key_ltb a' b'
  end.
Fixpoint insert_key (x : key) (l : list key) : list key :=
  match l with [] => [x] | y :: l' => if key_ltb y x then y :: insert_key x l' else x :: l end.
Definition sort_keys (l : list key) : list key := fold_right insert_key [] l.
Fixpoint insert_kv (x : key * N) (l : list (key * N)) : list (key * N) :=
  match l with [] => [x] | y :: l' => if key_ltb (fst y) (fst x) then y :: insert_kv x l' else x :: l end.
Definition sort_kvs (l : list (key * N)) : list (key * N) := fold_right insert_kv [] l.

Definition keys_eqb := list_eqb bytes_eqb.
Definition subset (a b : list key) : bool := forallb (fun x => mem x b) a.

(** one observed event against the model; returns the next model state or the
    model's answer on disagreement *)
Definition check_ev (c : config) (pool : list key) (s : state) (e : iev) (obs : list nat)
  : state + (list key * list key) :=
  let o := map (kof pool) obs in
  match e with
  | ISweepTicks n =>
      (* a peer due at every sequence value the sweep can have read (s, s+1,
         .., s+n) must be blocklisted, a blocklisted peer must be due at one
         of them (without wrap-around of the uint64 sequence: "due at s" and
         "due at s+n"); the implementation's choice is then removed from the map *)
      let tick := fun s => fst (step c s (Tick true)) in
      let dues := map (fun j => snd (sweep (Nat.iter j tick s))) (List.seq 0 (S n)) in
      let must := sort_keys (filter (fun k => forallb (mem k) dues) (snd (sweep s))) in
      let may := concat dues in
      let s1 := Nat.iter n tick s in
      if subset must o && subset o may && keys_eqb (sort_keys o) o then
        inl (fold_left (fun s k => mkState (seq s) (remove_key (flagged s) k)) o s1)
      else inr (must ++ [[]] ++ sort_keys may, o)
  | _ =>
      let ev := match e with
                | ITick a => Tick a | IFlag i a => Flag (kof pool i) a | IUnflag i => Unflag (kof pool i)
                | IPrune seen => Prune (map (kof pool) seen) | _ => Sweep end in
      let (s', m) := step c s ev in
      if keys_eqb (sort_keys m) o then inl s' else inr (sort_keys m, o)
  end.

Fixpoint check_evs (c : config) (pool : list key) (s : state) (l : list (iev * list nat)) (i : nat)
  : state + (nat * (list key * list key)) :=
  match l with
  | [] => inl s
  | (e, obs) :: l' =>
      match check_ev c pool s e obs with
      | inl s' => check_evs c pool s' l' (S i)
      | inr d => inr (i, d)
      end
  end.

Definition final_eqb (pool : list key) (s : state) (fs : N) (fm : list (nat * N)) : bool :=
  (seq s =? fs) && list_eqb (pair_eqb bytes_eqb N.eqb) (sort_kvs (flagged s)) (map (fun x => (kof pool (fst x), snd x)) fm).

Definition check_case (c : case) : bool :=
  match c with
  | CNew ft res wake p => Bool.eqb (negb (new_ok (mkConfig ft res) wake)) p
  | CHist ft res seq0 pool evs fs fm =>
      match check_evs (mkConfig ft res) pool (mkState seq0 []) evs 0 with
      | inl s => final_eqb pool s fs fm
      | inr _ => false
      end
  end.

Inductive explanation :=
| ENew (model_panics : bool)
| EEvent (index : nat) (model observed : list key)
| EFinal (model_seq : N) (model_map : list (key * N))
| EOk.
Definition explain_case (c : case) : explanation :=
  match c with
  | CNew ft res wake p => ENew (negb (new_ok (mkConfig ft res) wake))
  | CHist ft res seq0 pool evs fs fm =>
      match check_evs (mkConfig ft res) pool (mkState seq0 []) evs 0 with
      | inl s => if final_eqb pool s fs fm then EOk else EFinal (seq s) (sort_kvs (flagged s))
      | inr (i, (m, o)) => EEvent i m o
      end
  end.
