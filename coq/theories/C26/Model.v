(** C26 — model of pkg/blocker/blocker.go.
    Definitions only (computable); proofs are in Proofs.v.

    State: the monotonic [sequence] (uint64, advanced by the sequencer loop
    only while the network is available) and the map [peers] from an overlay
    address to its [blockAfter] deadline.  The atomic actions (events) are:
      - [Tick a]: one iteration of the sequencer loop; [a] is what
        NetworkStatus() answered;
      - [Flag k a]: Blocker.Flag; [a] is the NetworkStatus() answer read before
        the mutex is taken;
      - [Unflag k], [Prune seen]: Blocker.Unflag / PruneUnseen;
      - [SweepPeer k]: the body of the loop of block() for one peer (the
        sequence is re-read for every peer, so sequencer ticks interleave
        inside a sweep; Flag/Unflag/Prune cannot, they need the mutex);
      - [Sweep]: a whole block() run with no tick in between.
    The output of an event is the list of addresses passed to
    Blocklister.Blocklist (and to the callback). *)
From Coq Require Import List ZArith NArith Bool.
Import ListNotations.
Require Import Aurora.Base.Corr.
Local Open Scope N_scope.

Definition key := list N.
Definition key_eqb : key -> key -> bool := bytes_eqb.

Definition u64 (n : N) : N := n mod 2 ^ 64.

(** configuration: flagTimeout and sequencerResolution, int64 nanoseconds *)
Record config := mkConfig { flagTimeout : Z; resolution : Z }.

(** [New]: panics unless flagTimeout > resolution and wakeUpTime >= resolution *)
Definition new_ok (c : config) (wakeUp : Z) : bool :=
  negb (flagTimeout c <=? resolution c)%Z && negb (wakeUp <? resolution c)%Z.

(** [uint64(b.flagTimeout / sequencerResolution)]: Go's truncated int64
    division, then conversion to uint64 (two's complement) *)
Definition timeout_ticks (c : config) : N :=
  Z.to_N (Z.quot (flagTimeout c) (resolution c) mod 2 ^ 64)%Z.

Record state := mkState { seq : N; flagged : list (key * N) }.
Definition init : state := mkState 0 [].

Fixpoint lookup (l : list (key * N)) (k : key) : option N :=
  match l with
  | [] => None
  | (k', v) :: l' => if key_eqb k k' then Some v else lookup l' k
  end.
Definition remove_key (l : list (key * N)) (k : key) : list (key * N) :=
  filter (fun kv => negb (key_eqb k (fst kv))) l.
Definition mem (k : key) (l : list key) : bool := existsb (key_eqb k) l.

Inductive event :=
| Tick (avail : bool)
| Flag (k : key) (avail : bool)
| Unflag (k : key)
| Prune (seen : list key)
| SweepPeer (k : key)
| Sweep.

(** [0 < peer.blockAfter && peer.blockAfter < b.sequence.Load()] *)
Definition due (sq ba : N) : bool := (0 <? ba) && (ba <? sq).

Definition sweep_peer (s : state) (k : key) : state * list key :=
  match lookup (flagged s) k with
  | Some ba => if due (seq s) ba then (mkState (seq s) (remove_key (flagged s) k), [k]) else (s, [])
  | None => (s, [])
  end.

(** a whole sweep: the per-peer body for every peer of the map, in map order
    (here: list order; the set of results does not depend on it, see
    [sweep_blocks_exactly_due] in Proofs) *)
Definition fold_sweep {S : Type} (f : S -> key -> S * list key) (ks : list key) (acc : S * list key) : S * list key :=
  fold_left (fun acc k => let (s', o) := f (fst acc) k in (s', snd acc ++ o)) ks acc.
Definition sweep (s : state) : state * list key :=
  fold_sweep sweep_peer (map fst (flagged s)) (s, []).

Definition step (c : config) (s : state) (e : event) : state * list key :=
  match e with
  | Tick a => (if a then mkState (u64 (seq s + 1)) (flagged s) else s, [])
  | Flag k a =>
      (if a then
         match lookup (flagged s) k with
         | Some _ => s
         | None => mkState (seq s) (flagged s ++ [(k, u64 (seq s + timeout_ticks c))])
         end
       else s, [])
  | Unflag k => (mkState (seq s) (remove_key (flagged s) k), [])
  | Prune seen => (mkState (seq s) (filter (fun kv => mem (fst kv) seen) (flagged s)), [])
  | SweepPeer k => sweep_peer s k
  | Sweep => sweep s
  end.

Definition run (c : config) (s : state) (h : list event) : state :=
  fold_left (fun s e => fst (step c s e)) h s.

(** outputs of a history, one list per event *)
Fixpoint outputs (c : config) (s : state) (h : list event) : list (list key) :=
  match h with
  | [] => []
  | e :: h' => let (s', o) := step c s e in o :: outputs c s' h'
  end.
Definition blocked_in (c : config) (s : state) (h : list event) : list key := concat (outputs c s h).

(** ---- specification-side objects ---- *)

(** number of iterations of the sequencer loop that saw the network available *)
Definition avail_ticks (h : list event) : N :=
  N.of_nat (length (filter (fun e => match e with Tick true => true | _ => false end) h)).

(** no success ([Unflag k]) and no pruning of [k] as unseen inside [h] *)
Definition clean (k : key) (h : list event) : Prop :=
  Forall (fun e => match e with
                   | Unflag k' => k' <> k
                   | Prune seen => mem k seen = true
                   | _ => True end) h.
(** [k] is not (effectively) flagged inside [h] *)
Definition no_flag (k : key) (h : list event) : Prop :=
  Forall (fun e => match e with Flag k' true => k' <> k | _ => True end) h.

(** "flagged for longer than the flag timeout, counted only while the network
    is available": [n] available ticks of length [resolution] exceed flagTimeout *)
Definition timed_out (c : config) (n : N) : Prop := (flagTimeout c < Z.of_N n * resolution c)%Z.

(** the independent specification machine: per flagged peer, the number of
    available ticks since its flag period started *)
Definition sstate := list (key * N).
Definition timed_outb (c : config) (n : N) : bool := (flagTimeout c <? Z.of_N n * resolution c)%Z.
Definition spec_sweep_peer (c : config) (s : sstate) (k : key) : sstate * list key :=
  match lookup s k with
  | Some n => if timed_outb c n then (remove_key s k, [k]) else (s, [])
  | None => (s, [])
  end.
Definition spec_step (c : config) (s : sstate) (e : event) : sstate * list key :=
  match e with
  | Tick a => (if a then map (fun kv => (fst kv, snd kv + 1)) s else s, [])
  | Flag k a => (if a then match lookup s k with Some _ => s | None => s ++ [(k, 0)] end else s, [])
  | Unflag k => (remove_key s k, [])
  | Prune seen => (filter (fun kv => mem (fst kv) seen) s, [])
  | SweepPeer k => spec_sweep_peer c s k
  | Sweep => fold_sweep (spec_sweep_peer c) (map fst s) (s, [])
  end.
Definition spec_run (c : config) (s : sstate) (h : list event) : sstate :=
  fold_left (fun s e => fst (spec_step c s e)) h s.
Fixpoint spec_outputs (c : config) (s : sstate) (h : list event) : list (list key) :=
  match h with
  | [] => []
  | e :: h' => let (s', o) := spec_step c s e in o :: spec_outputs c s' h'
  end.

(** domain of the arithmetic theorems: a positive resolution, a flag timeout
    New accepts, and a history short enough for the uint64 sequence not to wrap
    (2^64 one-second ticks) *)
Definition config_ok (c : config) : Prop :=
  (0 < resolution c /\ resolution c < flagTimeout c /\ flagTimeout c < 2 ^ 63)%Z.
Definition no_wrap (c : config) (h : list event) : Prop :=
  N.of_nat (length h) + timeout_ticks c < 2 ^ 64.
