(** C27 — property theorems only: each closed by [exact <lemma>] and followed
    by [Print Assumptions].  All of them quantify over the hash function
    [sha] (SHA-256 in the code), over NeighborAlpha [alpha] and MaxTTL
    [maxttl] (run-time variables of routetab) and over all histories [ops]
    of SavePath / Delete / Gc / UsedTime changes / reload from the state
    store, starting from the empty table over an empty store. *)
From Coq Require Import List NArith ZArith Bool Arith.
Import ListNotations.
Require Import Aurora.Consts Aurora.C27.Model Aurora.C27.Proofs.

(** the defaults of the two package variables, re-read from route.go each run *)
Definition Alpha0 : nat := Z.to_nat Consts.routetab_NeighborAlpha.
Definition MaxTTL0 : nat := Z.to_nat Consts.routetab_MaxTTL.
Lemma consts_ok_C27 : (1 <=? Alpha0) && (2 <=? MaxTTL0) && (0 <=? Consts.routetab_NeighborAlpha)%Z = true.
Proof. vm_compute. reflexivity. Qed.

(** "each target has at most the configured number of routes": the in-memory
    route list, what Get and GetNextHop return, and the persisted lists.  No
    hypothesis on the hash or on the shape of the paths. *)
Theorem C27_bounded : forall sha alpha maxttl ops target,
  1 <= alpha ->
  let t := run sha alpha maxttl ops in
  (forall rs, lookup (to_hash target) (t_routes t) = Some rs -> length rs <= alpha) /\
  (forall ps, get t target = Some ps -> length ps <= alpha) /\
  (forall skips, length (next_hops t target skips) <= alpha) /\
  (forall tg rs, In (tg, rs) (s_routes t) -> length rs <= alpha).
Proof. exact bounded_all. Qed.
Print Assumptions C27_bounded.

Theorem C27_bounded_default : forall sha ops target ps,
  get (run sha Alpha0 MaxTTL0 ops) target = Some ps -> length ps <= Alpha0.
Proof. intros sha ops target. exact (proj1 (proj2 (bounded_all sha Alpha0 MaxTTL0 ops target (leb_complete 1 Alpha0 eq_refl)))). Qed.
Print Assumptions C27_bounded_default.

(** "every returned path contains the target before its last hop" (and is one
    of the saved paths).  [WF]: every item of every saved path has 32 bytes
    (the key is SHA-256 of the plain concatenation and the target key is the
    address cropped/padded to 32 bytes — observation O-pathkey-framing);
    [NoColl]: no SHA-256 collision among the paths saved in this history. *)
Theorem C27_path_contains_target : forall sha alpha maxttl ops target ps,
  WF (saved ops) -> NoColl sha (saved ops) -> length target = 32 ->
  get (run sha alpha maxttl ops) target = Some ps ->
  forall items, In items ps -> In target (removelast items) /\ In items (saved ops).
Proof. exact contains_target_all. Qed.
Print Assumptions C27_path_contains_target.

(** "next hops offered for a target are distinct, not in the skip list, and
    are the last hop of a stored path containing the target" (before its
    last hop) — for the repaired GetNextHop. *)
Theorem C27_next_hops : forall sha alpha maxttl ops target skips,
  WF (saved ops) -> NoColl sha (saved ops) -> length target = 32 ->
  let t := run sha alpha maxttl ops in
  NoDup (next_hops t target skips) /\
  forall nh, In nh (next_hops t target skips) ->
    ~ In nh skips /\
    exists k p, In (k, p) (t_paths t) /\ last (p_items p) [] = nh /\ In target (removelast (p_items p)).
Proof. exact next_hops_all. Qed.
Print Assumptions C27_next_hops.

(** "deleted ... paths are never returned": after Delete of a path, and until
    a path with the same key is saved again, no path with that key is stored
    (in memory or in the state store, hence also not after a reload) and Get
    returns no path with that key — in particular not the deleted path.  No
    hypothesis on the hash. *)
Theorem C27_deleted_not_returned : forall sha alpha maxttl ops1 items ops2,
  (forall items', In items' (saved ops2) -> pathkey sha items' <> pathkey sha items) ->
  let t := run sha alpha maxttl (ops1 ++ ODelete items :: ops2) in
  (forall p, ~ In (pathkey sha items, p) (t_paths t)) /\
  (forall p, ~ In (pathkey sha items, p) (s_paths t)) /\
  (forall target ps q, get t target = Some ps -> In q ps -> pathkey sha q <> pathkey sha items).
Proof. exact deleted_all. Qed.
Print Assumptions C27_deleted_not_returned.

(** "... or expired paths are never returned": a stored path whose UsedTime is
    older than the Gc threshold is gone after that Gc, likewise. *)
Theorem C27_expired_not_returned : forall sha alpha maxttl ops1 e ops2 k p,
  In (k, p) (t_paths (run sha alpha maxttl ops1)) -> (e < p_age p)%N ->
  (forall items', In items' (saved ops2) -> pathkey sha items' <> k) ->
  let t := run sha alpha maxttl (ops1 ++ OGc e :: ops2) in
  k = pathkey sha (p_items p) /\
  (forall p', ~ In (k, p') (t_paths t)) /\
  (forall p', ~ In (k, p') (s_paths t)) /\
  (forall target ps q, get t target = Some ps -> In q ps -> pathkey sha q <> k).
Proof. exact expired_all. Qed.
Print Assumptions C27_expired_not_returned.

(** F-route-resume: GetNextHop WITHOUT proposed/C27/fix-route-resume.patch
    offers, after save / delete / reload, the last hop of the deleted path
    although no path is stored at all. *)
Theorem C27_next_hops_unpatched_refuted :
  exists sha alpha maxttl ops target nh,
    WF (saved ops) /\ NoColl sha (saved ops) /\ length target = 32 /\
    In nh (next_hops_unpatched (run sha alpha maxttl ops) target []) /\
    ~ exists k p, In (k, p) (t_paths (run sha alpha maxttl ops)) /\ last (p_items p) [] = nh.
Proof. exact unpatched_refuted. Qed.
Print Assumptions C27_next_hops_unpatched_refuted.

(** non-vacuity: a history with two saved paths to the same target, an aged
    path, a Gc and a reload meets every hypothesis and has non-empty answers *)
Example C27_hyps_satisfiable :
  let p1 := [w_a 1; w_a 2; w_a 3] in
  let p2 := [w_a 1; w_a 4] in
  let ops := [OSave p1; OSave p2; OAge p1 3; OResume; OSave [w_a 5; w_a 1; w_a 2; w_a 6]] in
  WF (saved ops) /\ NoColl w_sha (saved ops) /\ length (w_a 1) = 32 /\
  get (run w_sha Alpha0 MaxTTL0 ops) (w_a 1) = Some [[w_a 5; w_a 1; w_a 2; w_a 6]; p2] /\
  next_hops (run w_sha Alpha0 MaxTTL0 ops) (w_a 1) [w_a 4] = [w_a 6] /\
  get (run w_sha Alpha0 MaxTTL0 (ops ++ [OAge p2 3; OGc 2])) (w_a 1) = Some [[w_a 5; w_a 1; w_a 2; w_a 6]].
Proof.
  cbv zeta. split; [|split; [|split; [reflexivity|vm_compute; repeat split; reflexivity]]].
  - intros items Hin a Ha. cbn in Hin.
    repeat (destruct Hin as [<-|Hin]; [cbn in Ha; repeat (destruct Ha as [<-|Ha]; [reflexivity|]); destruct Ha|]).
    destruct Hin.
  - intros p q Hp Hq. cbn in Hp, Hq.
    repeat (destruct Hp as [<-|Hp]; [repeat (destruct Hq as [<-|Hq]; [first [reflexivity | (vm_compute; discriminate)]|]); destruct Hq|]).
    destruct Hp.
Qed.
