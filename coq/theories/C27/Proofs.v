(** C27 — lemmas about the route-table model. *)
From Coq Require Import List NArith Bool Arith Lia.
Import ListNotations.
Require Import Aurora.Base.Corr Aurora.C27.Model.

(** ---- byte strings, association lists ---- *)
Lemma bytes_eqb_refl a : bytes_eqb a a = true.
Proof. now apply bytes_eqb_eq. Qed.
Lemma bytes_eqb_false a b : bytes_eqb a b = false <-> a <> b.
Proof.
  split.
  - intros Hf Heq. subst. rewrite bytes_eqb_refl in Hf. discriminate.
  - intros Hn. destruct (bytes_eqb a b) eqn:E; [|reflexivity]. apply bytes_eqb_eq in E. contradiction.
Qed.

Lemma filter_len_le {A} (f : A -> bool) l : length (filter f l) <= length l.
Proof. induction l as [|a l IH]; cbn; [lia|]. destruct (f a); cbn; lia. Qed.

Section AssocLemmas.
  Context {V : Type}.
  Implicit Types (m : list (list N * V)).
  Lemma lookup_In k m v : lookup k m = Some v -> In (k, v) m.
  Proof.
    induction m as [|[k' v'] m IH]; cbn; [discriminate|].
    destruct (bytes_eqb k k') eqn:E.
    - intros [= <-]. apply bytes_eqb_eq in E. subst. now left.
    - intros Hl. right. now apply IH.
  Qed.
  Lemma In_lookup k v m : In (k, v) m -> exists v', lookup k m = Some v'.
  Proof.
    induction m as [|[k' v'] m IH]; cbn; [easy|].
    intros [[= -> ->]|Hin].
    - rewrite bytes_eqb_refl. eauto.
    - destruct (bytes_eqb k k'); eauto.
  Qed.
  Lemma In_upsert k v m k' v' : In (k', v') (upsert k v m) -> (k' = k /\ v' = v) \/ In (k', v') m.
  Proof.
    induction m as [|[k0 v0] m IH]; cbn.
    - intros [[= <- <-]|[]]. now left.
    - destruct (bytes_eqb k k0) eqn:E; cbn.
      + intros [[= <- <-]|Hin]; [now left|right; now right].
      + intros [Heq|Hin]; [right; now left|]. destruct (IH Hin) as [Hl|Hr]; [now left|right; now right].
  Qed.
  Lemma upsert_In k v m : In (k, v) (upsert k v m).
  Proof.
    induction m as [|[k0 v0] m IH]; cbn; [now left|].
    destruct (bytes_eqb k k0); cbn; [now left|now right].
  Qed.
  Lemma In_remove k m e : In e (remove k m) -> In e m /\ fst e <> k.
  Proof.
    unfold remove. rewrite filter_In. intros [Hin Hb]. split; [assumption|].
    apply negb_true_iff, bytes_eqb_false in Hb. congruence.
  Qed.
  Lemma remove_length k m : length (remove k m) <= length m.
  Proof. apply filter_len_le. Qed.
End AssocLemmas.

Lemma mem_In a l : mem a l = true <-> In a l.
Proof.
  unfold mem. rewrite existsb_exists. split.
  - intros [x [Hin He]]. apply bytes_eqb_eq in He. now subst.
  - intros Hin. exists a. split; [assumption|apply bytes_eqb_refl].
Qed.

Lemma dedup_In x l : In x (dedup l) -> In x l.
Proof.
  induction l as [|a l IH]; cbn; [easy|].
  intros [->|Hin]; [now left|]. apply filter_In in Hin as [Hin _]. right. now apply IH.
Qed.
Lemma dedup_NoDup l : NoDup (dedup l).
Proof.
  induction l as [|a l IH]; cbn; constructor.
  - intros Hin. apply filter_In in Hin as [_ Hb]. rewrite bytes_eqb_refl in Hb. discriminate.
  - now apply NoDup_filter.
Qed.
Lemma dedup_length l : length (dedup l) <= length l.
Proof.
  induction l as [|a l IH]; cbn; [lia|].
  pose proof (filter_len_le (fun b => negb (bytes_eqb a b)) (dedup l)). lia.
Qed.

Section SortLemmas.
  Context {V : Type}.
  Lemma insert_by_In (e x : list N * V) l : In x (insert_by e l) -> x = e \/ In x l.
  Proof.
    induction l as [|e' l IH]; cbn.
    - intros [<-|[]]. now left.
    - destruct (bytes_ltb (fst e') (fst e)); cbn.
      + intros [<-|Hin]; [right; now left|]. destruct (IH Hin); [now left|right; now right].
      + intros [<-|Hin]; [now left|now right].
  Qed.
  Lemma sort_by_In (x : list N * V) l : In x (sort_by l) -> In x l.
  Proof.
    induction l as [|e l IH]; cbn; [easy|].
    intros Hin. apply insert_by_In in Hin as [->|Hin]; [now left|right; now apply IH].
  Qed.
End SortLemmas.

(** ---- hashes of 32-byte strings ---- *)
Lemma to_hash_id b : length b = 32 -> to_hash b = b.
Proof. intros Hl. unfold to_hash. rewrite Hl. reflexivity. Qed.

Lemma app_inj_len {A} (x y u v : list A) : length x = length y -> x ++ u = y ++ v -> x = y /\ u = v.
Proof.
  revert y. induction x as [|a x IH]; intros [|b y] Hl Heq; cbn in *; try discriminate.
  - now split.
  - injection Heq as -> Heq. injection Hl as Hl. destruct (IH y Hl Heq) as [-> ->]. now split.
Qed.

Definition all32 (items : list addr) : Prop := forall a, In a items -> length a = 32.

Lemma concat_inj_32 (a b : list addr) : all32 a -> all32 b -> concat a = concat b -> a = b.
Proof.
  revert b. induction a as [|x a IH]; intros [|y b] Ha Hb Heq; cbn in *.
  - reflexivity.
  - assert (Hy : length y = 32) by (apply Hb; now left). destruct y; cbn in *; discriminate.
  - assert (Hx : length x = 32) by (apply Ha; now left). destruct x; cbn in *; discriminate.
  - assert (Hx : length x = 32) by (apply Ha; now left).
    assert (Hy : length y = 32) by (apply Hb; now left).
    destruct (app_inj_len x y _ _ (eq_trans Hx (eq_sym Hy)) Heq) as [-> Hc]. f_equal.
    apply IH; [intros z Hz; apply Ha; now right|intros z Hz; apply Hb; now right|assumption].
Qed.

Lemma In_removelast {A} (x : A) l : In x (removelast l) -> In x l.
Proof.
  induction l as [|a l IH]; cbn; [easy|]. destruct l as [|b l]; [easy|].
  intros [->|Hin]; [now left|right; now apply IH].
Qed.

Lemma firstn_In {A} n (l : list A) x : In x (firstn n l) -> In x l.
Proof.
  revert l. induction n as [|n IH]; intros [|a l]; cbn; try easy.
  intros [->|Hin]; [now left|right; now apply IH].
Qed.

(** ---- invariants ---- *)
Section Inv.
  Variable sha : list N -> key.
  Variables alpha maxttl : nat.
  Notation pathkey := (pathkey sha).

  (** [S]: the item lists saved so far *)
  Definition route_ok (S : list (list addr)) (tk : key) (r : route) : Prop :=
    exists items, In items S /\ pathkey items = r_key r /\ last items [] = r_nb r /\
                  exists tgt, In tgt (removelast items) /\ to_hash tgt = tk.
  Definition path_ok (S : list (list addr)) (k : key) (p : path) : Prop :=
    pathkey (p_items p) = k /\ In (p_items p) S /\ 2 <= length (p_items p).

  Record Inv (S : list (list addr)) (t : table) : Prop := {
    inv_paths : forall k p, In (k, p) (t_paths t) -> path_ok S k p;
    inv_spaths : forall k p, In (k, p) (s_paths t) -> path_ok S k p /\ p_age p = 0%N;
    inv_routes : forall tk rs r, In (tk, rs) (t_routes t) -> In r rs -> route_ok S tk r;
    inv_sroutes : forall tg rs r, In (tg, rs) (s_routes t) -> In r rs -> route_ok S (to_hash tg) r
  }.
  Record Bnd (t : table) : Prop := {
    bnd_routes : forall tk rs, In (tk, rs) (t_routes t) -> length rs <= alpha;
    bnd_sroutes : forall tg rs, In (tg, rs) (s_routes t) -> length rs <= alpha
  }.

  Lemma route_ok_mono S S' tk r : incl S S' -> route_ok S tk r -> route_ok S' tk r.
  Proof. intros Hi (items & H1 & H2). exists items. split; [now apply Hi|assumption]. Qed.
  Lemma path_ok_mono S S' k p : incl S S' -> path_ok S k p -> path_ok S' k p.
  Proof. intros Hi (H1 & H2 & H3). repeat split; auto. Qed.
  Lemma Inv_mono S S' t : incl S S' -> Inv S t -> Inv S' t.
  Proof.
    intros Hi [H1 H2 H3 H4]. split; intros.
    - eapply path_ok_mono; eauto.
    - destruct (H2 _ _ H). split; [eapply path_ok_mono; eauto|assumption].
    - eapply route_ok_mono; eauto.
    - eapply route_ok_mono; eauto.
  Qed.

  Lemma Inv_empty : Inv [] empty.
  Proof. split; cbn; intros; contradiction. Qed.
  Lemma Bnd_empty : Bnd empty.
  Proof. split; cbn; intros; contradiction. Qed.

  (** -- frame facts: the per-target closures touch only the route maps -- *)
  Lemma save_target_frame r t tgt :
    t_paths (save_target alpha r t tgt) = t_paths t /\ s_paths (save_target alpha r t tgt) = s_paths t.
  Proof.
    unfold save_target.
    destruct (lookup (to_hash tgt) (t_routes t)) as [[|o old]|]; [|destruct (exist_route r (o :: old))|]; cbn; auto.
  Qed.
  Lemma save_fold_frame r tgts t :
    t_paths (fold_left (save_target alpha r) tgts t) = t_paths t /\
    s_paths (fold_left (save_target alpha r) tgts t) = s_paths t.
  Proof.
    revert t. induction tgts as [|g tgts IH]; intros t; cbn; [auto|].
    destruct (IH (save_target alpha r t g)) as [-> ->]. apply save_target_frame.
  Qed.
  Lemma delete_target_frame k t tgt :
    t_paths (delete_target k t tgt) = t_paths t /\ s_paths (delete_target k t tgt) = s_paths t /\
    s_routes (delete_target k t tgt) = s_routes t.
  Proof.
    unfold delete_target. destruct (lookup (to_hash tgt) (t_routes t)) as [rs|]; [|auto].
    match goal with |- context [if ?c then _ else _] => destruct c end; cbn; auto.
  Qed.
  Lemma delete_fold_frame k tgts t :
    t_paths (fold_left (delete_target k) tgts t) = t_paths t /\
    s_paths (fold_left (delete_target k) tgts t) = s_paths t /\
    s_routes (fold_left (delete_target k) tgts t) = s_routes t.
  Proof.
    revert t. induction tgts as [|g tgts IH]; intros t; cbn; [auto|].
    destruct (IH (delete_target k t g)) as (-> & -> & ->). apply delete_target_frame.
  Qed.

  (** -- SavePath -- *)
  Definition trimmed (old : list route) : list route :=
    if Nat.ltb alpha (length old) then firstn alpha old
    else if Nat.eqb (length old) alpha then firstn (alpha - 1) old else old.
  Lemma trimmed_In old x : In x (trimmed old) -> In x old.
  Proof.
    unfold trimmed. destruct (Nat.ltb alpha (length old)); [apply firstn_In|].
    destruct (Nat.eqb (length old) alpha); [apply firstn_In|easy].
  Qed.
  Lemma trimmed_length old : 1 <= alpha -> length old <= alpha -> S (length (trimmed old)) <= alpha.
  Proof.
    intros Ha Hl. unfold trimmed.
    destruct (Nat.ltb alpha (length old)) eqn:E1; [apply Nat.ltb_lt in E1; lia|].
    destruct (Nat.eqb (length old) alpha) eqn:E2.
    - apply Nat.eqb_eq in E2. rewrite firstn_length. lia.
    - apply Nat.eqb_neq in E2. lia.
  Qed.

  Lemma save_target_shape r t tgt :
    save_target alpha r t tgt = t \/
    exists rs, (forall x, In x rs -> x = r \/ exists old, In (to_hash tgt, old) (t_routes t) /\ In x old) /\
               (1 <= alpha -> Bnd t -> length rs <= alpha) /\
               save_target alpha r t tgt =
                 mkTable (t_paths t) (upsert (to_hash tgt) rs (t_routes t)) (s_paths t) (upsert tgt rs (s_routes t)).
  Proof.
    unfold save_target.
    destruct (lookup (to_hash tgt) (t_routes t)) as [[|o old]|] eqn:El.
    - right. exists [r]. split; [|split; [|reflexivity]].
      + intros x [<-|[]]. now left.
      + cbn. lia.
    - destruct (exist_route r (o :: old)); [now left|]. right.
      exists (r :: trimmed (o :: old)). split; [|split; [|reflexivity]].
      + intros x [<-|Hin]; [now left|]. right. exists (o :: old). split; [now apply lookup_In|now apply trimmed_In].
      + intros Ha Hb. cbn [length]. apply trimmed_length; [assumption|].
        apply lookup_In in El. exact (bnd_routes _ Hb _ _ El).
    - right. exists [r]. split; [|split; [|reflexivity]].
      + intros x [<-|[]]. now left.
      + cbn. lia.
  Qed.

  Lemma save_target_Inv S r t tgt :
    Inv S t -> route_ok S (to_hash tgt) r -> Inv S (save_target alpha r t tgt).
  Proof.
    intros HI Hr. destruct (save_target_shape r t tgt) as [->|(rs & Hrs & _ & ->)]; [assumption|].
    destruct HI as [H1 H2 H3 H4]. split; cbn; auto.
    - intros tk rs' x Hin Hx. apply In_upsert in Hin as [[-> ->]|Hin]; [|eauto].
      destruct (Hrs _ Hx) as [->|(old & Ho & Hxo)]; [assumption|eauto].
    - intros tg rs' x Hin Hx. apply In_upsert in Hin as [[-> ->]|Hin]; [|eauto].
      destruct (Hrs _ Hx) as [->|(old & Ho & Hxo)]; [assumption|eauto].
  Qed.
  Lemma save_target_Bnd r t tgt : 1 <= alpha -> Bnd t -> Bnd (save_target alpha r t tgt).
  Proof.
    intros Ha HB. destruct (save_target_shape r t tgt) as [->|(rs & _ & Hl & ->)]; [assumption|].
    specialize (Hl Ha HB). destruct HB as [B1 B2]. split; cbn.
    - intros tk rs' Hin. apply In_upsert in Hin as [[-> ->]|Hin]; eauto.
    - intros tg rs' Hin. apply In_upsert in Hin as [[-> ->]|Hin]; eauto.
  Qed.

  Lemma save_fold_Inv S r tgts t :
    Inv S t -> (forall g, In g tgts -> route_ok S (to_hash g) r) -> Inv S (fold_left (save_target alpha r) tgts t).
  Proof.
    revert t. induction tgts as [|g tgts IH]; intros t HI Hr; cbn; [assumption|].
    apply IH; [apply save_target_Inv; [assumption|apply Hr; now left]|intros; apply Hr; now right].
  Qed.
  Lemma save_fold_Bnd r tgts t : 1 <= alpha -> Bnd t -> Bnd (fold_left (save_target alpha r) tgts t).
  Proof.
    intros Ha. revert t. induction tgts as [|g tgts IH]; intros t HB; cbn; [assumption|].
    apply IH. now apply save_target_Bnd.
  Qed.

  Lemma save_path_Inv S items t : Inv S t -> Inv (items :: S) (save_path sha alpha items t).
  Proof.
    intros HI. apply (Inv_mono S (items :: S)) in HI; [|now apply incl_tl].
    unfold save_path. destruct (Nat.ltb (length items) 2) eqn:El; [assumption|].
    apply Nat.ltb_ge in El.
    apply save_fold_Inv.
    - destruct HI as [H1 H2 H3 H4]. split; cbn; auto.
      + intros k p Hin. apply In_upsert in Hin as [[-> ->]|Hin]; [|auto].
        repeat split; cbn; [now left|assumption].
      + intros k p Hin. apply In_upsert in Hin as [[-> ->]|Hin]; [|auto].
        repeat split; cbn; [now left|assumption].
    - intros g Hg. exists items. cbn. split; [now left|]. split; [reflexivity|]. split; [reflexivity|].
      exists g. now split.
  Qed.
  Lemma save_path_Bnd items t : 1 <= alpha -> Bnd t -> Bnd (save_path sha alpha items t).
  Proof.
    intros Ha HB. unfold save_path. destruct (Nat.ltb (length items) 2); [assumption|].
    apply save_fold_Bnd; [assumption|]. destruct HB as [B1 B2]. split; cbn; auto.
  Qed.

  (** -- Delete -- *)
  Lemma delete_target_Inv S k t tgt : Inv S t -> Inv S (delete_target k t tgt).
  Proof.
    intros HI. unfold delete_target. destruct (lookup (to_hash tgt) (t_routes t)) as [rs|] eqn:El; [|assumption].
    match goal with |- context [if ?c then _ else _] => destruct c end; [|assumption].
    destruct HI as [H1 H2 H3 H4]. split; cbn; auto.
    intros tk rs' x Hin Hx. apply In_upsert in Hin as [[-> ->]|Hin]; [|eauto].
    apply filter_In in Hx as [Hx _]. apply lookup_In in El. eauto.
  Qed.
  Lemma delete_target_Bnd k t tgt : Bnd t -> Bnd (delete_target k t tgt).
  Proof.
    intros HB. unfold delete_target. destruct (lookup (to_hash tgt) (t_routes t)) as [rs|] eqn:El; [|assumption].
    match goal with |- context [if ?c then _ else _] => destruct c end; [|assumption].
    destruct HB as [B1 B2]. split; cbn; auto.
    intros tk rs' Hin. apply In_upsert in Hin as [[-> ->]|Hin]; [|eauto].
    apply lookup_In in El. pose proof (B1 _ _ El).
    pose proof (filter_len_le (fun v => negb (bytes_eqb (r_key v) k)) rs). lia.
  Qed.
  Lemma delete_path_Inv S items t : Inv S t -> Inv S (delete_path sha items t).
  Proof.
    intros HI. unfold delete_path.
    assert (H0 : Inv S (mkTable (remove (pathkey items) (t_paths t)) (t_routes t)
                                (remove (pathkey items) (s_paths t)) (s_routes t))).
    { destruct HI as [H1 H2 H3 H4]. split; cbn; auto.
      - intros k p Hin. apply In_remove in Hin as [Hin _]. auto.
      - intros k p Hin. apply In_remove in Hin as [Hin _]. auto. }
    revert H0. generalize (mkTable (remove (pathkey items) (t_paths t)) (t_routes t)
                                   (remove (pathkey items) (s_paths t)) (s_routes t)).
    induction (removelast items) as [|g tgts IH]; intros t0 H0; cbn; [assumption|].
    apply IH. now apply delete_target_Inv.
  Qed.
  Lemma delete_path_Bnd items t : Bnd t -> Bnd (delete_path sha items t).
  Proof.
    intros HB. unfold delete_path.
    assert (H0 : Bnd (mkTable (remove (pathkey items) (t_paths t)) (t_routes t)
                              (remove (pathkey items) (s_paths t)) (s_routes t))).
    { destruct HB as [B1 B2]. split; cbn; auto. }
    revert H0. generalize (mkTable (remove (pathkey items) (t_paths t)) (t_routes t)
                                   (remove (pathkey items) (s_paths t)) (s_routes t)).
    induction (removelast items) as [|g tgts IH]; intros t0 H0; cbn; [assumption|].
    apply IH. now apply delete_target_Bnd.
  Qed.

  (** -- Gc -- *)
  Lemma gc_fold_Inv S ps t : Inv S t -> Inv S (fold_left (fun t p => delete_path sha (p_items p) t) ps t).
  Proof. revert t. induction ps as [|p ps IH]; intros t HI; cbn; [assumption|]. apply IH. now apply delete_path_Inv. Qed.
  Lemma gc_fold_Bnd ps t : Bnd t -> Bnd (fold_left (fun t p => delete_path sha (p_items p) t) ps t).
  Proof. revert t. induction ps as [|p ps IH]; intros t HB; cbn; [assumption|]. apply IH. now apply delete_path_Bnd. Qed.

  (** -- UsedTime -- *)
  Lemma set_age_Inv S items a t : Inv S t -> Inv S (set_age sha items a t).
  Proof.
    intros HI. unfold set_age. destruct (lookup (pathkey items) (t_paths t)) as [p|] eqn:El; [|assumption].
    destruct HI as [H1 H2 H3 H4]. split; cbn; auto.
    intros k q Hin. apply In_upsert in Hin as [[-> ->]|Hin]; [|auto].
    apply lookup_In in El. destruct (H1 _ _ El) as (Ha & Hb & Hc). repeat split; assumption.
  Qed.

  (** -- reload -- *)
  Lemma resume_routes_In (l : list (addr * list route)) m0 tk rs :
    In (tk, rs) (fold_left (fun m e => upsert (to_hash (fst e)) (snd e) m) l m0) ->
    In (tk, rs) m0 \/ exists tg, In (tg, rs) l /\ tk = to_hash tg.
  Proof.
    revert m0. induction l as [|[tg rs0] l IH]; intros m0; cbn; [now left|].
    intros Hin. apply IH in Hin as [Hin|(tg' & H1 & H2)].
    - apply In_upsert in Hin as [[-> ->]|Hin]; [|now left]. right. exists tg. split; [now left|reflexivity].
    - right. exists tg'. split; [now right|assumption].
  Qed.
  Lemma resume_Inv S t : Inv S t -> Inv S (resume maxttl t).
  Proof.
    intros [H1 H2 H3 H4]. unfold resume. split; cbn; auto.
    - intros k p Hin. apply filter_In in Hin as [Hin _]. now apply H2.
    - intros k p Hin. apply filter_In in Hin as [Hin _]. now apply H2.
    - intros tk rs r Hin Hr. apply resume_routes_In in Hin as [[]|(tg & Hin & ->)].
      apply sort_by_In in Hin. eauto.
  Qed.
  Lemma resume_Bnd t : Bnd t -> Bnd (resume maxttl t).
  Proof.
    intros [B1 B2]. unfold resume. split; cbn; auto.
    intros tk rs Hin. apply resume_routes_In in Hin as [[]|(tg & Hin & ->)].
    apply sort_by_In in Hin. eauto.
  Qed.

  (** -- all histories -- *)
  Notation step := (step sha alpha maxttl).
  Notation run := (run sha alpha maxttl).

  Definition saved_step (S : list (list addr)) (o : op) : list (list addr) :=
    match o with OSave items => items :: S | _ => S end.

  Lemma step_Inv S t o : Inv S t -> Inv (saved_step S o) (step t o).
  Proof.
    intros HI. destruct o; cbn.
    - now apply save_path_Inv.
    - now apply delete_path_Inv.
    - now apply gc_fold_Inv.
    - now apply set_age_Inv.
    - now apply resume_Inv.
  Qed.
  Lemma step_Bnd t o : 1 <= alpha -> Bnd t -> Bnd (step t o).
  Proof.
    intros Ha HB. destruct o; cbn.
    - now apply save_path_Bnd.
    - now apply delete_path_Bnd.
    - now apply gc_fold_Bnd.
    - unfold set_age. destruct (lookup _ _); [|assumption]. destruct HB as [B1 B2]. split; cbn; auto.
    - now apply resume_Bnd.
  Qed.

  Lemma saved_step_incl S S' o : incl S S' -> incl (saved_step S o) (saved_step S' o).
  Proof. intros Hi. destruct o; cbn; auto. intros x [<-|Hx]; [now left|right; now apply Hi]. Qed.

  Lemma fold_Inv ops : forall S t, Inv S t -> exists S', Inv S' (fold_left step ops t) /\
      (forall x, In x S' -> In x S \/ In x (saved ops)).
  Proof.
    induction ops as [|o ops IH]; intros S t HI; cbn.
    - exists S. split; [assumption|auto].
    - destruct (IH _ _ (step_Inv S t o HI)) as (S' & HI' & Hs). exists S'. split; [assumption|].
      intros x Hx. destruct (Hs _ Hx) as [Hx'|Hx'].
      + destruct o; cbn in Hx'; auto. destruct Hx' as [<-|Hx']; [right; now left|now left].
      + right. apply in_or_app. now right.
  Qed.

  Lemma run_Inv ops : Inv (saved ops) (run ops).
  Proof.
    destruct (fold_Inv ops [] empty Inv_empty) as (S' & HI & Hs).
    eapply Inv_mono; [|exact HI]. intros x Hx. destruct (Hs _ Hx) as [[]|]; assumption.
  Qed.
  Lemma run_Bnd ops : 1 <= alpha -> Bnd (run ops).
  Proof.
    intros Ha. unfold Model.run. generalize Bnd_empty. generalize empty.
    induction ops as [|o ops IH]; intros t HB; cbn; [assumption|]. apply IH. now apply step_Bnd.
  Qed.

  (** ---- the property clauses, on any state satisfying the invariants ---- *)

  (** no SHA-256 collision among the saved paths, and the framing condition *)
  Definition NoColl (S : list (list addr)) : Prop :=
    forall p q, In p S -> In q S -> sha (concat p) = sha (concat q) -> concat p = concat q.
  Definition WF (S : list (list addr)) : Prop := forall items, In items S -> all32 items.

  Lemma route_path_agree S t tk r p :
    Inv S t -> NoColl S -> WF S -> route_ok S tk r -> In (r_key r, p) (t_paths t) ->
    last (p_items p) [] = r_nb r /\ exists tgt, In tgt (removelast (p_items p)) /\ to_hash tgt = tk.
  Proof.
    intros HI Hnc Hwf (items & Hs & Hk & Hl & tgt & Hg & Ht) Hp.
    destruct (inv_paths _ _ HI _ _ Hp) as (Hpk & Hps & _).
    assert (items = p_items p) as ->.
    { apply concat_inj_32; [now apply Hwf|now apply Hwf|]. apply Hnc; auto. unfold Model.pathkey in *. congruence. }
    split; [assumption|]. exists tgt. now split.
  Qed.

  Lemma get_sound S t target ps :
    Inv S t -> NoColl S -> WF S -> length target = 32 -> get t target = Some ps ->
    forall items, In items ps ->
      In target (removelast items) /\ In items S /\ exists k p, In (k, p) (t_paths t) /\ p_items p = items.
  Proof.
    intros HI Hnc Hwf Hlen Hget items Hin. unfold get in Hget.
    destruct (lookup (to_hash target) (t_routes t)) as [rs|] eqn:El; [|discriminate].
    assert (Hps : ps = flat_map (stored_items t) rs) by (destruct (flat_map (stored_items t) rs); [discriminate|congruence]).
    subst ps. apply in_flat_map in Hin as (r & Hr & Hin). unfold stored_items in Hin.
    destruct (lookup (r_key r) (t_paths t)) as [p|] eqn:Ep; [|contradiction]. destruct Hin as [<-|[]].
    apply lookup_In in El, Ep.
    pose proof (inv_routes _ _ HI _ _ _ El Hr) as Hok.
    destruct (route_path_agree S t _ r p HI Hnc Hwf Hok Ep) as (_ & tgt & Hg & Ht).
    destruct (inv_paths _ _ HI _ _ Ep) as (_ & Hps & _).
    assert (tgt = target) as ->.
    { rewrite (to_hash_id target Hlen) in Ht. rewrite to_hash_id in Ht; [assumption|].
      apply (Hwf _ Hps). now apply In_removelast. }
    split; [assumption|]. split; [assumption|]. eauto.
  Qed.

  Lemma next_hops_sound S t target skips :
    Inv S t -> NoColl S -> WF S -> length target = 32 ->
    NoDup (next_hops t target skips) /\
    forall nh, In nh (next_hops t target skips) ->
      ~ In nh skips /\
      exists k p, In (k, p) (t_paths t) /\ last (p_items p) [] = nh /\ In target (removelast (p_items p)).
  Proof.
    intros HI Hnc Hwf Hlen. unfold next_hops.
    destruct (lookup (to_hash target) (t_routes t)) as [rs|] eqn:El; [|split; [constructor|intros ? []]].
    split; [apply dedup_NoDup|].
    intros nh Hin. apply dedup_In in Hin. apply in_map_iff in Hin as (r & <- & Hr).
    apply filter_In in Hr as [Hr Hb]. apply andb_true_iff in Hb as [Hhas Hsk].
    split.
    - intros Hs. apply mem_In in Hs. rewrite Hs in Hsk. discriminate.
    - unfold has_path in Hhas. destruct (lookup (r_key r) (t_paths t)) as [p|] eqn:Ep; [|discriminate].
      apply lookup_In in El, Ep.
      pose proof (inv_routes _ _ HI _ _ _ El Hr) as Hok.
      destruct (route_path_agree S t _ r p HI Hnc Hwf Hok Ep) as (Hl & tgt & Hg & Ht).
      destruct (inv_paths _ _ HI _ _ Ep) as (_ & Hps & _).
      assert (tgt = target) as ->.
      { rewrite (to_hash_id target Hlen) in Ht. rewrite to_hash_id in Ht; [assumption|].
        apply (Hwf _ Hps). now apply In_removelast. }
      exists (r_key r), p. auto.
  Qed.

  Lemma flat_map_le1 {A B} (f : A -> list B) l : (forall x, length (f x) <= 1) -> length (flat_map f l) <= length l.
  Proof.
    intros Hf. induction l as [|a l IH]; cbn; [lia|]. rewrite app_length. specialize (Hf a). lia.
  Qed.

  Lemma bounded_queries t target :
    Bnd t ->
    (forall rs, lookup (to_hash target) (t_routes t) = Some rs -> length rs <= alpha) /\
    (forall ps, get t target = Some ps -> length ps <= alpha) /\
    (forall skips, length (next_hops t target skips) <= alpha).
  Proof.
    intros HB. split; [|split].
    - intros rs El. apply lookup_In in El. eapply bnd_routes; eauto.
    - intros ps Hget. unfold get in Hget.
      destruct (lookup (to_hash target) (t_routes t)) as [rs|] eqn:El; [|discriminate].
      assert (Hps : ps = flat_map (stored_items t) rs) by (destruct (flat_map (stored_items t) rs); [discriminate|congruence]).
      subst ps. apply lookup_In in El. pose proof (bnd_routes _ HB _ _ El).
      pose proof (flat_map_le1 (stored_items t) rs) as Hf.
      assert (length (flat_map (stored_items t) rs) <= length rs).
      { apply Hf. intros x. unfold stored_items. destruct (lookup _ _); cbn; lia. }
      lia.
    - intros skips. unfold next_hops.
      destruct (lookup (to_hash target) (t_routes t)) as [rs|] eqn:El; [|cbn; lia].
      apply lookup_In in El. pose proof (bnd_routes _ HB _ _ El) as Hb.
      eapply Nat.le_trans; [apply dedup_length|]. rewrite map_length.
      eapply Nat.le_trans; [apply filter_len_le|exact Hb].
  Qed.

  (** ---- deleted / expired paths ---- *)
  Definition has_key (k : key) (t : table) : Prop :=
    (exists p, In (k, p) (t_paths t)) \/ (exists p, In (k, p) (s_paths t)).

  Lemma delete_path_paths items t :
    t_paths (delete_path sha items t) = remove (pathkey items) (t_paths t) /\
    s_paths (delete_path sha items t) = remove (pathkey items) (s_paths t).
  Proof.
    unfold delete_path.
    destruct (delete_fold_frame (pathkey items) (removelast items)
                (mkTable (remove (pathkey items) (t_paths t)) (t_routes t) (remove (pathkey items) (s_paths t)) (s_routes t)))
      as (-> & -> & _). cbn. auto.
  Qed.
  Lemma delete_path_absent items t : ~ has_key (pathkey items) (delete_path sha items t).
  Proof.
    destruct (delete_path_paths items t) as [E1 E2].
    intros [[p Hin]|[p Hin]]; [rewrite E1 in Hin|rewrite E2 in Hin]; apply In_remove in Hin as [_ Hne]; now apply Hne.
  Qed.
  Lemma delete_path_has_key k items t : has_key k (delete_path sha items t) -> has_key k t.
  Proof.
    destruct (delete_path_paths items t) as [E1 E2].
    intros [[p Hin]|[p Hin]]; [rewrite E1 in Hin; left|rewrite E2 in Hin; right]; apply In_remove in Hin as [Hin _]; eauto.
  Qed.
  Lemma gc_fold_has_key k ps t :
    has_key k (fold_left (fun t p => delete_path sha (p_items p) t) ps t) -> has_key k t.
  Proof.
    revert t. induction ps as [|p ps IH]; intros t; cbn; [easy|].
    intros H. apply IH in H. now apply delete_path_has_key in H.
  Qed.
  Lemma gc_fold_absent k ps t :
    (exists p, In p ps /\ pathkey (p_items p) = k) ->
    ~ has_key k (fold_left (fun t p => delete_path sha (p_items p) t) ps t).
  Proof.
    revert t. induction ps as [|p ps IH]; intros t (q & Hq & Hk); [destruct Hq|]. cbn.
    destruct Hq as [->|Hq].
    - intros H. apply gc_fold_has_key in H. subst k. now apply delete_path_absent in H.
    - apply IH. eauto.
  Qed.

  Lemma step_has_key k t o :
    has_key k (step t o) -> has_key k t \/ exists items, o = OSave items /\ pathkey items = k.
  Proof.
    destruct o as [items|items|e|items a|]; cbn.
    - unfold save_path. destruct (Nat.ltb (length items) 2); [now left|].
      destruct (save_fold_frame (mkRoute (last items []) (pathkey items)) (removelast items)
        (mkTable (upsert (pathkey items) (mkPath items 0) (t_paths t)) (t_routes t)
                 (upsert (pathkey items) (mkPath items 0) (s_paths t)) (s_routes t))) as [E1 E2].
      intros [[p Hin]|[p Hin]]; [rewrite E1 in Hin|rewrite E2 in Hin]; cbn in Hin;
        (apply In_upsert in Hin as [[-> _]|Hin]; [right; eauto|left]); [left|right]; eauto.
    - intros H. left. now apply delete_path_has_key in H.
    - intros H. left. now apply gc_fold_has_key in H.
    - unfold set_age. destruct (lookup (pathkey items) (t_paths t)) as [p|] eqn:El; [|now left].
      intros [[q Hin]|[q Hin]]; cbn in Hin; left.
      + apply In_upsert in Hin as [[-> _]|Hin]; left; [apply lookup_In in El|]; eauto.
      + right. eauto.
    - unfold resume. intros [[q Hin]|[q Hin]]; cbn in Hin; apply filter_In in Hin as [Hin _]; left; right; eauto.
  Qed.

  Definition resaves (k : key) (ops : list op) : Prop := exists items, In items (saved ops) /\ pathkey items = k.

  Lemma fold_absent k ops : forall t,
    ~ has_key k t -> ~ resaves k ops -> ~ has_key k (fold_left step ops t).
  Proof.
    induction ops as [|o ops IH]; intros t Ha Hr; cbn; [assumption|].
    apply IH.
    - intros H. apply step_has_key in H as [H|(items & -> & Hk)]; [contradiction|].
      apply Hr. exists items. cbn. split; [now left|assumption].
    - intros (items & Hin & Hk). apply Hr. exists items. split; [|assumption]. cbn. apply in_or_app. now right.
  Qed.

  Lemma run_app ops1 ops2 : run (ops1 ++ ops2) = fold_left step ops2 (run ops1).
  Proof. unfold Model.run. apply fold_left_app. Qed.

  (** a Get / GetNextHop answer only involves stored paths *)
  Lemma get_stored t target ps items :
    get t target = Some ps -> In items ps -> exists k p, In (k, p) (t_paths t) /\ p_items p = items.
  Proof.
    unfold get. destruct (lookup (to_hash target) (t_routes t)) as [rs|]; [|discriminate].
    intros Hget Hin.
    assert (Hps : ps = flat_map (stored_items t) rs) by (destruct (flat_map (stored_items t) rs); [discriminate|congruence]).
    subst ps. apply in_flat_map in Hin as (r & Hr & Hin). unfold stored_items in Hin.
    destruct (lookup (r_key r) (t_paths t)) as [p|] eqn:Ep; [|contradiction]. destruct Hin as [<-|[]].
    apply lookup_In in Ep. eauto.
  Qed.

  Lemma deleted_absent ops1 items ops2 :
    ~ resaves (pathkey items) ops2 -> ~ has_key (pathkey items) (run (ops1 ++ ODelete items :: ops2)).
  Proof.
    intros Hr. rewrite run_app. cbn [fold_left]. apply fold_absent; [|assumption].
    cbn. apply delete_path_absent.
  Qed.

  Lemma expired_absent ops1 e ops2 k p :
    In (k, p) (t_paths (run ops1)) -> (e < p_age p)%N -> ~ resaves k ops2 ->
    ~ has_key k (run (ops1 ++ OGc e :: ops2)).
  Proof.
    intros Hin Hage Hr. rewrite run_app. cbn [fold_left]. apply fold_absent; [|assumption].
    cbn. unfold gc. apply gc_fold_absent. exists p. split.
    - apply filter_In. split; [apply in_map_iff; exists (k, p); auto|now apply N.ltb_lt].
    - destruct (inv_paths _ _ (run_Inv ops1) _ _ Hin) as (Hk & _). exact Hk.
  Qed.

  (** what is returned is keyed consistently: a returned path has its own key stored *)
  Lemma returned_has_key S t target ps items :
    Inv S t -> get t target = Some ps -> In items ps -> has_key (pathkey items) t.
  Proof.
    intros HI Hget Hin. destruct (get_stored _ _ _ _ Hget Hin) as (k & p & Hp & <-).
    destruct (inv_paths _ _ HI _ _ Hp) as (-> & _). left. eauto.
  Qed.
End Inv.

(** ---- the unpatched GetNextHop offers the last hop of a deleted path after a reload ---- *)
Definition w_sha (b : list N) : key := firstn 1 b ++ [N.of_nat (length b)].
Definition w_a (i : N) : addr := i :: repeat 0%N 31.
Definition w_ops : list op := [OSave [w_a 1; w_a 2; w_a 3]; ODelete [w_a 1; w_a 2; w_a 3]; OResume].

Lemma unpatched_witness :
  t_paths (run w_sha 2 10 w_ops) = [] /\
  next_hops_unpatched (run w_sha 2 10 w_ops) (w_a 1) [] = [w_a 3] /\
  next_hops (run w_sha 2 10 w_ops) (w_a 1) [] = [].
Proof. vm_compute. repeat split; reflexivity. Qed.

(** ---- closed statements used by Props.v ---- *)
Lemma bounded_all sha alpha maxttl ops target :
  1 <= alpha ->
  let t := run sha alpha maxttl ops in
  (forall rs, lookup (to_hash target) (t_routes t) = Some rs -> length rs <= alpha) /\
  (forall ps, get t target = Some ps -> length ps <= alpha) /\
  (forall skips, length (next_hops t target skips) <= alpha) /\
  (forall tg rs, In (tg, rs) (s_routes t) -> length rs <= alpha).
Proof.
  intros Ha t. pose proof (run_Bnd sha alpha maxttl ops Ha) as HB.
  destruct (bounded_queries alpha t target HB) as (H1 & H2 & H3).
  repeat split; auto. intros tg rs Hin. eapply bnd_sroutes; eauto.
Qed.

Lemma contains_target_all sha alpha maxttl ops target ps :
  WF (saved ops) -> NoColl sha (saved ops) -> length target = 32 ->
  get (run sha alpha maxttl ops) target = Some ps ->
  forall items, In items ps -> In target (removelast items) /\ In items (saved ops).
Proof.
  intros Hwf Hnc Hl Hget items Hin.
  destruct (get_sound sha (saved ops) _ target ps (run_Inv sha alpha maxttl ops) Hnc Hwf Hl Hget items Hin) as (H1 & H2 & _).
  now split.
Qed.

Lemma next_hops_all sha alpha maxttl ops target skips :
  WF (saved ops) -> NoColl sha (saved ops) -> length target = 32 ->
  let t := run sha alpha maxttl ops in
  NoDup (next_hops t target skips) /\
  forall nh, In nh (next_hops t target skips) ->
    ~ In nh skips /\
    exists k p, In (k, p) (t_paths t) /\ last (p_items p) [] = nh /\ In target (removelast (p_items p)).
Proof.
  intros Hwf Hnc Hl t. exact (next_hops_sound sha (saved ops) t target skips (run_Inv sha alpha maxttl ops) Hnc Hwf Hl).
Qed.

Lemma deleted_all sha alpha maxttl ops1 items ops2 :
  (forall items', In items' (saved ops2) -> pathkey sha items' <> pathkey sha items) ->
  let t := run sha alpha maxttl (ops1 ++ ODelete items :: ops2) in
  (forall p, ~ In (pathkey sha items, p) (t_paths t)) /\
  (forall p, ~ In (pathkey sha items, p) (s_paths t)) /\
  (forall target ps q, get t target = Some ps -> In q ps -> pathkey sha q <> pathkey sha items).
Proof.
  intros Hr t.
  assert (Ha : ~ has_key (pathkey sha items) t).
  { apply deleted_absent. intros (it & Hin & Hk). exact (Hr _ Hin Hk). }
  split; [|split].
  - intros p Hin. apply Ha. left. eauto.
  - intros p Hin. apply Ha. right. eauto.
  - intros target ps q Hget Hin Hk. apply Ha. rewrite <- Hk.
    eapply returned_has_key; [apply run_Inv|eassumption|assumption].
Qed.

Lemma expired_all sha alpha maxttl ops1 e ops2 k p :
  In (k, p) (t_paths (run sha alpha maxttl ops1)) -> (e < p_age p)%N ->
  (forall items', In items' (saved ops2) -> pathkey sha items' <> k) ->
  let t := run sha alpha maxttl (ops1 ++ OGc e :: ops2) in
  k = pathkey sha (p_items p) /\
  (forall p', ~ In (k, p') (t_paths t)) /\
  (forall p', ~ In (k, p') (s_paths t)) /\
  (forall target ps q, get t target = Some ps -> In q ps -> pathkey sha q <> k).
Proof.
  intros Hin Hage Hr t.
  assert (Ha : ~ has_key k t).
  { eapply expired_absent; eauto. intros (it & Hi & Hk). exact (Hr _ Hi Hk). }
  split; [|split; [|split]].
  - destruct (inv_paths _ _ _ (run_Inv sha alpha maxttl ops1) _ _ Hin) as (Hk & _). now symmetry.
  - intros p' Hp. apply Ha. left. eauto.
  - intros p' Hp. apply Ha. right. eauto.
  - intros target ps q Hget Hq Hk. apply Ha. rewrite <- Hk.
    eapply returned_has_key; [apply run_Inv|eassumption|assumption].
Qed.

Lemma w_wf : WF (saved w_ops).
Proof.
  intros items [<-|[]] a [<-|[<-|[<-|[]]]]; reflexivity.
Qed.
Lemma w_nocoll : NoColl w_sha (saved w_ops).
Proof. intros p q [<-|[]] [<-|[]] _. reflexivity. Qed.

Lemma unpatched_refuted :
  exists sha alpha maxttl ops target nh,
    WF (saved ops) /\ NoColl sha (saved ops) /\ length target = 32 /\
    In nh (next_hops_unpatched (run sha alpha maxttl ops) target []) /\
    ~ exists k p, In (k, p) (t_paths (run sha alpha maxttl ops)) /\ last (p_items p) [] = nh.
Proof.
  exists w_sha, 2, 10, w_ops, (w_a 1), (w_a 3).
  destruct unpatched_witness as (Hp & Hn & _).
  split; [exact w_wf|]. split; [exact w_nocoll|]. split; [reflexivity|]. split.
  - rewrite Hn. now left.
  - rewrite Hp. intros (k & p & [] & _).
Qed.
