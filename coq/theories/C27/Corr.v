(** C27 — correspondence: one case = one whole history run on a real
    [routetab.Table] over the in-memory leveldb state store.  Addresses are
    indices into the case's universe [univ]; SHA-256 is the table [tbl]
    (item indices -> digest) computed by the harness itself; every query
    carries what the Go table answered, [check_case] threads the model state
    through the history and compares at every query. *)
From Coq Require Import List NArith ZArith Bool Arith Ascii String.
Import ListNotations.
Require Import Aurora.Base.Corr Aurora.C27.Model.

(** addresses and keys are written once per case, as lower-case hex strings *)
Definition hexval (c : ascii) : N :=
  let n := N_of_ascii c in
  if (N.leb 48 n && N.leb n 57)%bool then (n - 48)%N
  else if (N.leb 97 n && N.leb n 102)%bool then (n - 87)%N else 0%N.
Fixpoint unhex (s : string) : list N :=
  match s with
  | String a (String b s') => (hexval a * 16 + hexval b)%N :: unhex s'
  | _ => []
  end.

(** sorted dump of the four maps; addresses as raw bytes are avoided by
    giving neighbours / items as indices into the universe and keys as
    indices into the case's key table [keys] *)
Record dump := mkDump {
  d_paths : list (nat * (list nat * nat));          (* pathKey, items, age class of UsedTime *)
  d_routes : list (nat * list (nat * nat));         (* targetKey, routes (neighbour, pathKey) in slice order *)
  d_spaths : list (nat * list nat);                 (* persisted paths: pathKey, items *)
  d_sroutes : list (nat * list (nat * nat))         (* persisted route lists by raw target (an address) *)
}.

Inductive cop :=
| KSave (p : list nat)
| KDelete (p : list nat)
| KGc (e : N)
| KAge (p : list nat) (a : N)
| KResume
| KGet (t : nat) (obs : option (list (list nat)))        (* None = ErrNotFound *)
| KNext (t : nat) (skips : list nat) (obs : list nat)     (* a set: order ignored *)
| KDump (obs : dump).

Inductive case := CHist (alpha maxttl : nat) (univ : list string) (keys : list string) (tbl : list (list nat * nat)) (ops : list cop).

Section Run.
  Variables (alpha maxttl : nat) (univ : list addr) (keys : list key) (tbl : list (list nat * nat)).
  Definition addr_of (i : nat) : addr := nth i univ [999%N].   (* out of range: not a byte string *)
  Definition key_of (i : nat) : key := nth i keys [999%N].
  Definition items_of (p : list nat) : list addr := map addr_of p.
  Definition tblb : list (list N * key) := map (fun e => (List.concat (items_of (fst e)), key_of (snd e))) tbl.
  Definition sha (b : list N) : key := match lookup b tblb with Some k => k | None => [] end.

  Definition bll_eqb := list_eqb bytes_eqb.
  Definition route_l_eqb (a b : list (addr * key)) := list_eqb (pair_eqb bytes_eqb bytes_eqb) a b.

  (** model-side dump, normalised by sorting on the key *)
  Definition m_routes (rs : list route) : list (addr * key) := map (fun r => (r_nb r, r_key r)) rs.
  Definition model_dump (t : table) :=
    (sort_by (map (fun e => (fst e, (p_items (snd e), p_age (snd e)))) (t_paths t)),
     sort_by (map (fun e => (fst e, m_routes (snd e))) (t_routes t)),
     sort_by (map (fun e => (fst e, p_items (snd e))) (s_paths t)),
     sort_by (map (fun e => (fst e, m_routes (snd e))) (s_routes t))).
  Definition o_routes (rs : list (nat * nat)) : list (addr * key) := map (fun r => (addr_of (fst r), key_of (snd r))) rs.
  Definition obs_dump (d : dump) :=
    (sort_by (map (fun e => (key_of (fst e), (items_of (fst (snd e)), N.of_nat (snd (snd e))))) (d_paths d)),
     sort_by (map (fun e => (key_of (fst e), o_routes (snd e))) (d_routes d)),
     sort_by (map (fun e => (key_of (fst e), items_of (snd e))) (d_spaths d)),
     sort_by (map (fun e => (addr_of (fst e), o_routes (snd e))) (d_sroutes d))).
  Definition dump_eqb (a b : _ * _ * _ * _) : bool :=
    match a, b with
    | (p1, r1, sp1, sr1), (p2, r2, sp2, sr2) =>
        list_eqb (pair_eqb bytes_eqb (pair_eqb bll_eqb N.eqb)) p1 p2
        && list_eqb (pair_eqb bytes_eqb route_l_eqb) r1 r2
        && list_eqb (pair_eqb bytes_eqb bll_eqb) sp1 sp2
        && list_eqb (pair_eqb bytes_eqb route_l_eqb) sr1 sr2
    end.

  Definition sort_set (l : list addr) : list addr := map fst (sort_by (map (fun a => (a, tt)) l)).

  (** one op: new model state, and whether the observation (if any) agrees *)
  Definition cstep (t : table) (o : cop) : table * bool :=
    match o with
    | KSave p => (save_path sha alpha (items_of p) t, true)
    | KDelete p => (delete_path sha (items_of p) t, true)
    | KGc e => (gc sha e t, true)
    | KAge p a => (set_age sha (items_of p) a t, true)
    | KResume => (resume maxttl t, true)
    | KGet tg obs => (t, option_eqb (list_eqb bll_eqb) (get t (addr_of tg)) (option_map (map items_of) obs))
    | KNext tg sk obs => (t, bll_eqb (sort_set (next_hops t (addr_of tg) (items_of sk))) (sort_set (items_of obs)))
    | KDump d => (t, dump_eqb (model_dump t) (obs_dump d))
    end.

  (** index of the first disagreeing op *)
  Fixpoint crun (t : table) (ops : list cop) (i : nat) : option (nat * table) :=
    match ops with
    | [] => None
    | o :: ops' => let '(t', ok) := cstep t o in if ok then crun t' ops' (S i) else Some (i, t)
    end.
End Run.

Definition check_case (c : case) : bool :=
  match c with CHist alpha maxttl univ keys tbl ops =>
    match crun alpha maxttl (map unhex univ) (map unhex keys) tbl empty ops 0 with None => true | Some _ => false end
  end.

(** on a mismatch: (index of the op, what the model answers there) *)
Inductive model_answer :=
| AGet (r : option (list (list addr)))
| ANext (r : list addr)
| ADump (t : table)
| ANone.
Definition explain_case (c : case) :=
  match c with CHist alpha maxttl univ0 keys0 tbl ops =>
    let univ := map unhex univ0 in
    match crun alpha maxttl univ (map unhex keys0) tbl empty ops 0 with
    | None => None
    | Some (i, t) =>
        Some (i, match nth_error ops i with
                 | Some (KGet tg _) => AGet (get t (addr_of univ tg))
                 | Some (KNext tg sk _) => ANext (sort_set (next_hops t (addr_of univ tg) (items_of univ sk)))
                 | Some (KDump _) => ADump t
                 | _ => ANone
                 end)
    end
  end.
