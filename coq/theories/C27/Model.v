(** C27 — model of pkg/routetab/table.go and pkg/routetab/utils.go (the route
    table), as repaired by proposed/C27/fix-route-resume.patch.
    Definitions only (computable); proofs are in Proofs.v.

    State = the two in-memory maps of [Table] plus the two key families the
    table keeps in the state store:
      [t_paths]   Table.paths   : pathKey  -> *Path          (sync.Map)
      [t_routes]  Table.routes  : targetKey -> []TargetRoute
      [s_paths]   store "route_pathKey_" + pathKey.String()   -> Path (JSON)
      [s_routes]  store "route_index_"  + target.String()     -> []TargetRoute (JSON)
    A [Path] is modelled by its [Items] and by the age of its [UsedTime] (the
    clock enters [Gc] only through [time.Since(path.UsedTime)]); [Sign],
    [Bodys] and [CreateTime] are carried by the code but never inspected by
    the functions modelled here.

    [sha] is SHA-256 ([generatePathItems]: pathKey = sha256(concat items)); it
    is a parameter of every function: the theorems quantify over it, the
    correspondence instantiates it with the table of digests computed by the
    harness.

    NeighborAlpha and MaxTTL are run-time package variables (int32) of
    routetab: parameters [alpha], [maxttl] (non-negative values only: a
    negative NeighborAlpha makes [old[:NeighborAlpha]] panic and is outside
    the model). *)
From Coq Require Import List NArith Bool Arith.
Import ListNotations.
Require Import Aurora.Base.Corr.

Definition addr := list N.   (* boson.Address: any byte string *)
Definition key := list N.    (* common.Hash: 32 bytes *)

(** ---- association lists keyed by byte strings ---- *)
Section Assoc.
  Context {V : Type}.
  Fixpoint lookup (k : list N) (m : list (list N * V)) : option V :=
    match m with
    | [] => None
    | (k', v) :: m' => if bytes_eqb k k' then Some v else lookup k m'
    end.
  (** Go map assignment / store.Put: replace if present, else add *)
  Fixpoint upsert (k : list N) (v : V) (m : list (list N * V)) : list (list N * V) :=
    match m with
    | [] => [(k, v)]
    | (k', v') :: m' => if bytes_eqb k k' then (k, v) :: m' else (k', v') :: upsert k v m'
    end.
  Definition remove (k : list N) (m : list (list N * V)) : list (list N * V) :=
    filter (fun e => negb (bytes_eqb k (fst e))) m.
End Assoc.

Definition mem (a : list N) (l : list (list N)) : bool := existsb (bytes_eqb a) l.

(** first-occurrence de-duplication (GetNextHop's map keyed by the hex string) *)
Fixpoint dedup (l : list (list N)) : list (list N) :=
  match l with
  | [] => []
  | a :: l' => a :: filter (fun b => negb (bytes_eqb a b)) (dedup l')
  end.

(** lexicographic order on byte strings (= order of the hex keys in leveldb) *)
Fixpoint bytes_ltb (a b : list N) : bool :=
  match a, b with
  | [], [] => false
  | [], _ :: _ => true
  | _ :: _, [] => false
  | x :: a', y :: b' => if N.ltb x y then true else if N.eqb x y then bytes_ltb a' b' else false
  end.
Section Sort.
  Context {V : Type}.
  Fixpoint insert_by (e : list N * V) (l : list (list N * V)) : list (list N * V) :=
    match l with
    | [] => [e]
    | e' :: l' => if bytes_ltb (fst e') (fst e) then e' :: insert_by e l' else e :: l
    end.
  Definition sort_by (l : list (list N * V)) : list (list N * V) := fold_right insert_by [] l.
End Sort.

(** ---- the table ---- *)
Record path := mkPath { p_items : list addr; p_age : N }.
Record route := mkRoute { r_nb : addr; r_key : key }.      (* TargetRoute{Neighbor, PathKey} *)

Record table := mkTable {
  t_paths : list (key * path);
  t_routes : list (key * list route);
  s_paths : list (key * path);
  s_routes : list (addr * list route)
}.
Definition empty : table := mkTable [] [] [] [].

(** common.BytesToHash: crop from the left / left-pad with zeros to 32 bytes *)
Definition to_hash (b : list N) : key :=
  let n := length b in
  if Nat.ltb 32 n then skipn (n - 32) b else repeat 0%N (32 - n) ++ b.

Definition route_eqb (a b : route) : bool :=
  bytes_eqb (r_key a) (r_key b) && bytes_eqb (r_nb a) (r_nb b).
(** utils.go existRoute *)
Definition exist_route (r : route) (rs : list route) : bool := existsb (route_eqb r) rs.

Section WithSha.
  Variable sha : list N -> key.
  Variables alpha maxttl : nat.

  (** generatePathItems: sha256 over the plain concatenation of the items *)
  Definition pathkey (items : list addr) : key := sha (concat items).

  (** the closure of SavePath, for one target *)
  Definition save_target (r : route) (t : table) (target : addr) : table :=
    let tk := to_hash target in
    let put rs := mkTable (t_paths t) (upsert tk rs (t_routes t)) (s_paths t) (upsert target rs (s_routes t)) in
    match lookup tk (t_routes t) with
    | Some (o :: old') =>
        let old := o :: old' in
        if exist_route r old then t
        else put (r :: (if Nat.ltb alpha (length old) then firstn alpha old
                        else if Nat.eqb (length old) alpha then firstn (alpha - 1) old
                        else old))
    | _ => put [r]
    end.

  (** Table.SavePath (verifyPath is constant true) *)
  Definition save_path (items : list addr) (t : table) : table :=
    if Nat.ltb (length items) 2 then t else
    let k := pathkey items in
    let p := mkPath items 0 in
    let t1 := mkTable (upsert k p (t_paths t)) (t_routes t) (upsert k p (s_paths t)) (s_routes t) in
    let r := mkRoute (last items []) k in
    fold_left (save_target r) (removelast items) t1.    (* IterateTarget: every item but the last *)

  (** the closure of Delete, for one target: the persisted list is NOT rewritten *)
  Definition delete_target (k : key) (t : table) (target : addr) : table :=
    let tk := to_hash target in
    match lookup tk (t_routes t) with
    | Some rs =>
        let now := filter (fun v => negb (bytes_eqb (r_key v) k)) rs in
        if Nat.ltb (length now) (length rs)
        then mkTable (t_paths t) (upsert tk now (t_routes t)) (s_paths t) (s_routes t)
        else t
    | None => t
    end.

  (** Table.Delete(path): only path.Items is used *)
  Definition delete_path (items : list addr) (t : table) : table :=
    let k := pathkey items in
    let t1 := mkTable (remove k (t_paths t)) (t_routes t) (remove k (s_paths t)) (s_routes t) in
    fold_left (delete_target k) (removelast items) t1.

  (** Table.Gc(expire): every stored path whose UsedTime is older than [e] is Deleted *)
  Definition gc (e : N) (t : table) : table :=
    fold_left (fun t p => delete_path (p_items p) t)
              (filter (fun p => N.ltb e (p_age p)) (map snd (t_paths t))) t.

  (** UsedTime of a stored path set to [now - a] (updateUsedTime is the case a = 0) *)
  Definition set_age (items : list addr) (a : N) (t : table) : table :=
    let k := pathkey items in
    match lookup k (t_paths t) with
    | Some p => mkTable (upsert k (mkPath (p_items p) a) (t_paths t)) (t_routes t) (s_paths t) (s_routes t)
    | None => t
    end.

  (** a new process: newRouteTable over the same store, ResumeRoutes, ResumePaths.
      Routes are read back in key order and filed under the target key; paths
      longer than MaxTTL are deleted from the store instead of being loaded. *)
  Definition resume (t : table) : table :=
    let rts := fold_left (fun m e => upsert (to_hash (fst e)) (snd e) m) (sort_by (s_routes t)) [] in
    let keep := filter (fun e => Nat.leb (length (p_items (snd e))) maxttl) (s_paths t) in
    mkTable keep rts keep (s_routes t).

  (** Table.Get *)
  Definition stored_items (t : table) (r : route) : list (list addr) :=
    match lookup (r_key r) (t_paths t) with Some p => [p_items p] | None => [] end.
  Definition get (t : table) (target : addr) : option (list (list addr)) :=
    match lookup (to_hash target) (t_routes t) with
    | None => None
    | Some rs => match flat_map (stored_items t) rs with [] => None | ps => Some ps end
    end.

  Definition has_path (t : table) (r : route) : bool :=
    match lookup (r_key r) (t_paths t) with Some _ => true | None => false end.

  (** Table.GetNextHop (repaired: a route whose path is not stored is skipped).
      The Go result is in map-iteration order: a set. *)
  Definition next_hops (t : table) (target : addr) (skips : list addr) : list addr :=
    match lookup (to_hash target) (t_routes t) with
    | None => []
    | Some rs => dedup (map r_nb (filter (fun r => has_path t r && negb (mem (r_nb r) skips)) rs))
    end.

  (** GetNextHop as it is without the patch *)
  Definition next_hops_unpatched (t : table) (target : addr) (skips : list addr) : list addr :=
    match lookup (to_hash target) (t_routes t) with
    | None => []
    | Some rs => dedup (map r_nb (filter (fun r => negb (mem (r_nb r) skips)) rs))
    end.

  (** ---- histories ---- *)
  Inductive op :=
  | OSave (items : list addr)
  | ODelete (items : list addr)
  | OGc (e : N)
  | OAge (items : list addr) (a : N)
  | OResume.

  Definition step (t : table) (o : op) : table :=
    match o with
    | OSave items => save_path items t
    | ODelete items => delete_path items t
    | OGc e => gc e t
    | OAge items a => set_age items a t
    | OResume => resume t
    end.
  Definition run (ops : list op) : table := fold_left step ops empty.

  (** item lists of the saves in a history *)
  Definition saved (ops : list op) : list (list addr) :=
    flat_map (fun o => match o with OSave items => [items] | _ => [] end) ops.
End WithSha.
