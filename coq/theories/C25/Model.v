(** C25 — model of pkg/p2p/libp2p/internal/blocklist/blocklist.go.
    Definitions only (computable); proofs are in Proofs.v.

    The state store is an association list [key -> entry]; a key is the byte
    string of the overlay address (the Go key is "blocklist-" ++ hex(address),
    an injective encoding).  An entry is the JSON record {timestamp, duration}:
    the timestamp is a wall-clock instant in nanoseconds since the Unix epoch
    (a [Z]; RFC3339Nano keeps all nine digits), the duration the [int64]
    nanosecond count that [Duration.String]/[time.ParseDuration] round-trip.
    The clock ([timeNow]) is an input of every operation. *)
From Coq Require Import List ZArith NArith Bool.
Import ListNotations.
Require Import Aurora.Base.Corr.
Local Open Scope Z_scope.

Definition key := list N.
Definition key_eqb : key -> key -> bool := bytes_eqb.

Record entry := mkEntry { ts : Z; dur : Z }.
Definition store := list (key * entry).

Definition i64_min : Z := - 2 ^ 63.
Definition i64_max : Z := 2 ^ 63 - 1.

(** [Time.Sub] saturates at minDuration/maxDuration *)
Definition sat64 (z : Z) : Z := Z.max i64_min (Z.min i64_max z).

(** [Time.MarshalJSON] fails for a year outside [0,9999] (UTC instants):
    0000-01-01T00:00:00Z = -62167219200 s, 10000-01-01T00:00:00Z = 253402300800 s *)
Definition json_time_ok (t : Z) : bool :=
  (-62167219200 * 1000000000 <=? t) && (t <? 253402300800 * 1000000000).

(** ---- the state store (Get / Put / Delete / Iterate) ---- *)
Fixpoint get (s : store) (k : key) : option entry :=
  match s with
  | [] => None
  | (k', e) :: s' => if key_eqb k k' then Some e else get s' k
  end.

Fixpoint put (s : store) (k : key) (e : entry) : store :=
  match s with
  | [] => [(k, e)]
  | (k', e') :: s' => if key_eqb k k' then (k', e) :: s' else (k', e') :: put s' k e
  end.

(** [Delete] removes the key *)
Definition del (s : store) (k : key) : store :=
  filter (fun kv => negb (key_eqb k (fst kv))) s.

(** ---- blocklist.go ---- *)

(** [timeNow().Sub(timestamp) > duration && duration != 0] *)
Definition expired (now : Z) (e : entry) : bool :=
  (dur e <? sat64 (now - ts e)) && negb (dur e =? 0).

(** [Exists]: lazy delete of an expired entry *)
Definition exists_ (now : Z) (s : store) (k : key) : store * bool :=
  match get s k with
  | None => (s, false)
  | Some e => if expired now e then (del s k, false) else (s, true)
  end.

Definition remove (s : store) (k : key) : store := del s k.

(** the merge of [Add]: [d] is the stored duration, [-1] when absent *)
Definition merge (old d : Z) : Z :=
  if ((d <? old) && negb (d =? 0)) || (old =? 0) then old else d.

(** [Add]: returns the new store and whether an error was returned (the only
    reachable one is the JSON encoding of the timestamp) *)
Definition add (now : Z) (s : store) (k : key) (d : Z) : store * bool :=
  let old := match get s k with Some e => dur e | None => -1 end in
  if json_time_ok now then (put s k (mkEntry now (merge old d)), false) else (s, true).

(** [Peers]: entries that are not expired, store untouched *)
Definition peers_full (now : Z) (s : store) : list (key * entry) :=
  filter (fun kv => negb (expired now (snd kv))) s.
Definition peers (now : Z) (s : store) : list key := map fst (peers_full now s).

(** ---- histories ---- *)
Inductive op :=
| Add (t : Z) (k : key) (d : Z)
| Remove (t : Z) (k : key)
| Query (t : Z) (k : key)
| List (t : Z).

Inductive obs :=
| OAdd (err : bool)
| ORemove
| OQuery (b : bool)
| OList (l : list (key * entry)).

Definition op_time (o : op) : Z :=
  match o with Add t _ _ | Remove t _ | Query t _ | List t => t end.

Definition step (s : store) (o : op) : store * obs :=
  match o with
  | Add t k d => let (s', e) := add t s k d in (s', OAdd e)
  | Remove _ k => (remove s k, ORemove)
  | Query t k => let (s', b) := exists_ t s k in (s', OQuery b)
  | List t => (s, OList (peers_full t s))
  end.

Definition run (s : store) (h : list op) : store := fold_left (fun s o => fst (step s o)) h s.

Fixpoint run_obs (s : store) (h : list op) : list obs :=
  match h with
  | [] => []
  | o :: h' => let (s', b) := step s o in b :: run_obs s' h'
  end.

(** what [Exists] would answer at time [t] (no state change) *)
Definition blocked_at (s : store) (k : key) (t : Z) : bool := snd (exists_ t s k).

(** ---- specification-side objects (ghost functions of the history) ---- *)

(** requests [(time, duration)] for [k] since its last removal, latest first
    (lazy expiry is not a removal: DESIGN 9a) *)
Definition reqs_step (k : key) (acc : list (Z * Z)) (o : op) : list (Z * Z) :=
  match o with
  | Add t k' d => if key_eqb k k' then (t, d) :: acc else acc
  | Remove _ k' => if key_eqb k k' then [] else acc
  | _ => acc
  end.
Definition reqs_from (acc : list (Z * Z)) (h : list op) (k : key) : list (Z * Z) :=
  fold_left (reqs_step k) h acc.
Definition reqs (h : list op) (k : key) : list (Z * Z) := reqs_from [] h k.

Definition max_dur (l : list (Z * Z)) : Z := fold_right (fun td m => Z.max (snd td) m) i64_min l.
Definition has_zero (l : list (Z * Z)) : bool := existsb (fun td => snd td =? 0) l.

(** clock values of a history never go back; first one at or after [t0] *)
Fixpoint mono (t0 : Z) (h : list op) : Prop :=
  match h with
  | [] => True
  | o :: h' => t0 <= op_time o /\ mono (op_time o) h'
  end.

Definition last_time (t0 : Z) (h : list op) : Z := fold_left (fun _ o => op_time o) h t0.

(** domain of the theorems: instants representable as non-negative int64
    UnixNano (1970-01-01 .. 2262-04-11), durations any int64 *)
Definition time_ok (t : Z) : Prop := 0 <= t <= i64_max.
Definition dur_ok (d : Z) : Prop := i64_min <= d <= i64_max.
Definition op_dur_ok (o : op) : Prop := match o with Add _ _ d => dur_ok d | _ => True end.
Definition op_ok (o : op) : Prop := time_ok (op_time o) /\ op_dur_ok o.

(** no [Remove k] / no [Add k] inside a history *)
Definition no_remove (k : key) (h : list op) : Prop :=
  Forall (fun o => match o with Remove _ k' => k' <> k | _ => True end) h.
Definition no_add (k : key) (h : list op) : Prop :=
  Forall (fun o => match o with Add _ k' _ => k' <> k | _ => True end) h.
