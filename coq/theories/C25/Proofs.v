(** C25 — lemmas about the blocklist model. *)
From Coq Require Import List ZArith NArith Bool Lia.
Import ListNotations.
Require Import Aurora.Base.Corr Aurora.C25.Model.
Local Open Scope Z_scope.

(** ---- keys ---- *)
Lemma key_eqb_eq a b : key_eqb a b = true <-> a = b.
Proof. apply bytes_eqb_eq. Qed.
Lemma key_eqb_refl a : key_eqb a a = true.
Proof. now apply key_eqb_eq. Qed.
Lemma key_eqb_neq a b : key_eqb a b = false <-> a <> b.
Proof.
  split.
  - intros Hf Heq. apply key_eqb_eq in Heq. congruence.
  - intros Hne. destruct (key_eqb a b) eqn:E; [apply key_eqb_eq in E; contradiction | reflexivity].
Qed.
Lemma key_eq_dec (a b : key) : {a = b} + {a <> b}.
Proof.
  destruct (key_eqb a b) eqn:E; [left; now apply key_eqb_eq | right; now apply key_eqb_neq].
Qed.

(** ---- store ---- *)
Lemma get_put_eq s k e : get (put s k e) k = Some e.
Proof.
  induction s as [|[k' e'] s IH]; cbn.
  - now rewrite key_eqb_refl.
  - destruct (key_eqb k k') eqn:E; cbn; rewrite E; [reflexivity | exact IH].
Qed.
Lemma get_put_neq s k k' e : k' <> k -> get (put s k e) k' = get s k'.
Proof.
  intros Hne. induction s as [|[k2 e2] s IH]; cbn.
  - apply key_eqb_neq in Hne. now rewrite Hne.
  - destruct (key_eqb k k2) eqn:E; cbn.
    + apply key_eqb_eq in E. subst k2. apply key_eqb_neq in Hne. now rewrite Hne.
    + now rewrite IH.
Qed.
Lemma get_del_eq s k : get (del s k) k = None.
Proof.
  unfold del. induction s as [|[k' e'] s IH]; cbn; [reflexivity|].
  destruct (key_eqb k k') eqn:E; cbn; [exact IH | now rewrite E].
Qed.
Lemma get_del_neq s k k' : k' <> k -> get (del s k) k' = get s k'.
Proof.
  intros Hne. unfold del. induction s as [|[k2 e2] s IH]; cbn; [reflexivity|].
  destruct (key_eqb k k2) eqn:E; cbn.
  - apply key_eqb_eq in E. subst k2. apply key_eqb_neq in Hne. now rewrite Hne.
  - now rewrite IH.
Qed.

Lemma get_none_notin s k : get s k = None -> ~ In k (map fst s).
Proof.
  induction s as [|[k' e'] s IH]; cbn; [tauto|].
  destruct (key_eqb k k') eqn:E; [discriminate|].
  intros Hg [Heq | Hin]; [subst; rewrite key_eqb_refl in E; discriminate | now apply IH].
Qed.
Lemma in_keys_put s k e x : In x (map fst (put s k e)) -> x = k \/ In x (map fst s).
Proof.
  induction s as [|[k' e'] s IH]; cbn.
  - intros [H|[]]; now left.
  - destruct (key_eqb k k') eqn:E; cbn.
    + intros [H|H]; right; [now left | now right].
    + intros [H|H]; [right; now left|]. destruct (IH H) as [H1|H1]; [now left | right; now right].
Qed.
Lemma nodup_put s k e : NoDup (map fst s) -> NoDup (map fst (put s k e)).
Proof.
  induction s as [|[k' e'] s IH]; cbn; intros Hn.
  - constructor; [intros [] | constructor].
  - inversion Hn as [|x l Hnotin Hn']; subst.
    destruct (key_eqb k k') eqn:E; cbn.
    + now constructor.
    + constructor; [|now apply IH].
      intros Hin. apply in_keys_put in Hin as [H|H]; [|contradiction].
      subst. rewrite key_eqb_refl in E. discriminate.
Qed.
Lemma nodup_del s k : NoDup (map fst s) -> NoDup (map fst (del s k)).
Proof.
  unfold del. induction s as [|[k' e'] s IH]; cbn; intros Hn; [constructor|].
  inversion Hn as [|x l Hnotin Hn']; subst.
  destruct (key_eqb k k'); cbn; [now apply IH|].
  constructor; [|now apply IH].
  intros Hin. apply Hnotin. apply in_map_iff in Hin as [[k2 e2] [H1 H2]]. apply filter_In in H2 as [H2 _].
  apply in_map_iff. now exists (k2, e2).
Qed.
Lemma get_in s k e : NoDup (map fst s) -> (get s k = Some e <-> In (k, e) s).
Proof.
  induction s as [|[k' e'] s IH]; cbn; intros Hn.
  - split; [discriminate | tauto].
  - inversion Hn as [|x l Hnotin Hn']; subst.
    destruct (key_eqb k k') eqn:E.
    + apply key_eqb_eq in E. subst k'. split.
      * intros H. inversion H. now left.
      * intros [H|H]; [now inversion H|]. exfalso. apply Hnotin. apply in_map_iff. now exists (k, e).
    + rewrite (IH Hn'). split; [now right|].
      intros [H|H]; [|exact H]. inversion H; subst. rewrite key_eqb_refl in E. discriminate.
Qed.

(** ---- saturating subtraction ---- *)
Lemma sat64_mono x y : x <= y -> sat64 x <= sat64 y.
Proof. unfold sat64. lia. Qed.
Lemma sat64_le x y : x <= y -> i64_min <= y -> sat64 x <= y.
Proof. unfold sat64. lia. Qed.
Lemma sat64_id x : i64_min <= x <= i64_max -> sat64 x = x.
Proof. unfold sat64. lia. Qed.

Lemma expired_false now e :
  expired now e = false <-> (dur e = 0 \/ sat64 (now - ts e) <= dur e).
Proof.
  unfold expired. rewrite andb_false_iff, Z.ltb_ge, negb_false_iff, Z.eqb_eq. tauto.
Qed.
Lemma expired_true now e :
  expired now e = true <-> (dur e <> 0 /\ dur e < sat64 (now - ts e)).
Proof.
  unfold expired. rewrite andb_true_iff, Z.ltb_lt, negb_true_iff, Z.eqb_neq. tauto.
Qed.

Lemma blocked_at_spec s k t :
  blocked_at s k t = true <-> exists e, get s k = Some e /\ expired t e = false.
Proof.
  unfold blocked_at, exists_. destruct (get s k) as [e|]; cbn.
  - destruct (expired t e) eqn:E; cbn; split; try discriminate.
    + intros [e' [H1 H2]]. inversion H1; subst. congruence.
    + intros _. now exists e.
    + reflexivity.
  - split; [discriminate | intros [e [H _]]; discriminate].
Qed.

(** ---- merge ---- *)
Lemma merge_cases old d :
  (old = 0 /\ merge old d = 0) \/
  (old <> 0 /\ d = 0 /\ merge old d = 0) \/
  (old <> 0 /\ d <> 0 /\ merge old d = Z.max old d).
Proof.
  unfold merge.
  destruct (Z.eqb_spec old 0) as [H0|H0].
  - left. rewrite orb_true_r. tauto.
  - rewrite orb_false_r. destruct (Z.eqb_spec d 0) as [Hd|Hd]; cbn.
    + right; left. rewrite andb_false_r. tauto.
    + right; right. rewrite andb_true_r. destruct (Z.ltb_spec d old); split; try split; auto; lia.
Qed.

(** effect of one operation on the entry of a key *)
Lemma get_add_eq now s k d :
  json_time_ok now = true ->
  get (fst (add now s k d)) k =
    Some (mkEntry now (merge (match get s k with Some e => dur e | None => -1 end) d)).
Proof. intros Hj. unfold add. rewrite Hj. cbn. apply get_put_eq. Qed.
Lemma get_add_neq now s k d k' : k' <> k -> get (fst (add now s k d)) k' = get s k'.
Proof. intros Hne. unfold add. destruct (json_time_ok now); cbn; [now apply get_put_neq | reflexivity]. Qed.
Lemma get_add_fail now s k d k' : json_time_ok now = false -> get (fst (add now s k d)) k' = get s k'.
Proof. intros Hj. unfold add. now rewrite Hj. Qed.

Lemma get_exists_neq t s k k' : k' <> k -> get (fst (exists_ t s k)) k' = get s k'.
Proof.
  intros Hne. unfold exists_. destruct (get s k) as [e|]; [|reflexivity].
  destruct (expired t e); cbn; [now apply get_del_neq | reflexivity].
Qed.
Lemma get_exists_eq t s k :
  get (fst (exists_ t s k)) k =
    match get s k with Some e => if expired t e then None else Some e | None => None end.
Proof.
  unfold exists_. destruct (get s k) as [e|] eqn:G; cbn; [|exact G].
  destruct (expired t e); cbn; [apply get_del_eq | exact G].
Qed.

Lemma time_ok_json t : time_ok t -> json_time_ok t = true.
Proof.
  unfold time_ok, json_time_ok, i64_max. intros [H1 H2].
  apply andb_true_iff. split; [apply Z.leb_le | apply Z.ltb_lt]; lia.
Qed.

(** ---- NoDup of keys along any history ---- *)
Lemma nodup_step s o : NoDup (map fst s) -> NoDup (map fst (fst (step s o))).
Proof.
  intros Hn. destruct o as [t k d|t k|t k|t]; cbn.
  - unfold add. destruct (json_time_ok t); cbn; [now apply nodup_put | exact Hn].
  - now apply nodup_del.
  - unfold exists_. destruct (get s k) as [e|]; cbn; [|exact Hn].
    destruct (expired t e); cbn; [now apply nodup_del | exact Hn].
  - exact Hn.
Qed.
Lemma run_app s h1 h2 : run s (h1 ++ h2) = run (run s h1) h2.
Proof. unfold run. apply fold_left_app. Qed.
Lemma run_cons s o h : run s (o :: h) = run (fst (step s o)) h.
Proof. reflexivity. Qed.
Lemma nodup_run h : forall s, NoDup (map fst s) -> NoDup (map fst (run s h)).
Proof.
  induction h as [|o h IH]; intros s Hn; [exact Hn|].
  rewrite run_cons. apply IH. now apply nodup_step.
Qed.

(** ---- the listing agrees with the per-peer answer ---- *)
Lemma list_agrees s t k :
  NoDup (map fst s) -> (In k (peers t s) <-> blocked_at s k t = true).
Proof.
  intros Hn. rewrite blocked_at_spec. unfold peers, peers_full. rewrite in_map_iff. split.
  - intros [[k' e] [H1 H2]]. cbn in H1. subst k'. apply filter_In in H2 as [H2 H3]. cbn in H3.
    exists e. split; [now apply get_in | now apply negb_true_iff].
  - intros [e [H1 H2]]. exists (k, e). split; [reflexivity|]. apply filter_In. split; [now apply get_in|].
    cbn. now apply negb_true_iff.
Qed.
Lemma peers_nodup s t : NoDup (map fst s) -> NoDup (peers t s).
Proof.
  unfold peers, peers_full. induction s as [|[k e] s IH]; cbn; intros Hn; [constructor|].
  inversion Hn as [|x l Hnotin Hn']; subst.
  destruct (negb (expired t e)); cbn; [|now apply IH].
  constructor; [|now apply IH].
  intros Hin. apply Hnotin. apply in_map_iff in Hin as [[k2 e2] [H1 H2]]. apply filter_In in H2 as [H2 _].
  apply in_map_iff. now exists (k2, e2).
Qed.

(** ================= histories ================= *)

Lemma last_time_cons t0 o h : last_time t0 (o :: h) = last_time (op_time o) h.
Proof. reflexivity. Qed.
Lemma last_time_app t0 h1 h2 : last_time t0 (h1 ++ h2) = last_time (last_time t0 h1) h2.
Proof. unfold last_time. apply fold_left_app. Qed.
Lemma mono_app t0 h1 h2 : mono t0 (h1 ++ h2) <-> mono t0 h1 /\ mono (last_time t0 h1) h2.
Proof.
  revert t0. induction h1 as [|o h1 IH]; intros t0; cbn [app mono].
  - cbn. tauto.
  - rewrite IH, last_time_cons. tauto.
Qed.
Lemma mono_last t0 h : mono t0 h -> t0 <= last_time t0 h.
Proof.
  revert t0. induction h as [|o h IH]; intros t0; cbn [mono]; [cbn; lia|].
  intros [H1 H2]. rewrite last_time_cons. specialize (IH _ H2). lia.
Qed.

(** timestamps never lie in the future of a clock that does not go back *)
Definition InvT (now : Z) (s : store) : Prop := forall k e, get s k = Some e -> ts e <= now.
Definition InvD (s : store) : Prop := forall k e, get s k = Some e -> i64_min <= dur e.

Lemma InvT_weaken now now' s : InvT now s -> now <= now' -> InvT now' s.
Proof. intros H Hle k e G. specialize (H k e G). lia. Qed.

Lemma merge_lower old d : i64_min <= old -> i64_min <= d -> i64_min <= merge old d.
Proof.
  intros H1 H2. destruct (merge_cases old d) as [[_ E]|[[_ [_ E]]|[_ [_ E]]]]; rewrite E; unfold i64_min in *; lia.
Qed.

Lemma step_invT now s o : InvT now s -> now <= op_time o -> InvT (op_time o) (fst (step s o)).
Proof.
  intros HI Hle k e. destruct o as [t k' d|t k'|t k'|t]; cbn [step op_time] in Hle |- *.
  - destruct (add t s k' d) as [s' er] eqn:EA. cbn [fst]. replace s' with (fst (add t s k' d)) by now rewrite EA.
    destruct (json_time_ok t) eqn:EJ.
    + destruct (key_eq_dec k k') as [->|Hne].
      * rewrite get_add_eq by exact EJ. intros H. inversion H; subst; cbn. lia.
      * rewrite get_add_neq by exact Hne. intros G. specialize (HI k e G). lia.
    + rewrite get_add_fail by exact EJ. intros G. specialize (HI k e G). lia.
  - cbn [fst]. unfold remove. destruct (key_eq_dec k k') as [->|Hne].
    + rewrite get_del_eq. discriminate.
    + rewrite get_del_neq by exact Hne. intros G. specialize (HI k e G). lia.
  - destruct (exists_ t s k') as [s' b] eqn:EE. cbn [fst]. replace s' with (fst (exists_ t s k')) by now rewrite EE.
    destruct (key_eq_dec k k') as [->|Hne].
    + rewrite get_exists_eq. destruct (get s k') as [e0|] eqn:G; [|discriminate].
      destruct (expired t e0); [discriminate|]. intros H. inversion H; subst. specialize (HI k' e G). lia.
    + rewrite get_exists_neq by exact Hne. intros G. specialize (HI k e G). lia.
  - cbn [fst]. intros G. specialize (HI k e G). lia.
Qed.

Lemma step_invD s o : InvD s -> op_dur_ok o -> InvD (fst (step s o)).
Proof.
  intros HI Hok k e. destruct o as [t k' d|t k'|t k'|t]; cbn [step].
  - destruct (add t s k' d) as [s' er] eqn:EA. cbn [fst]. replace s' with (fst (add t s k' d)) by now rewrite EA.
    destruct (json_time_ok t) eqn:EJ.
    + destruct (key_eq_dec k k') as [->|Hne].
      * rewrite get_add_eq by exact EJ. intros H. inversion H; subst; cbn.
        apply merge_lower; [|exact (proj1 Hok)].
        destruct (get s k') as [e0|] eqn:G; [exact (HI k' e0 G) | unfold i64_min; lia].
      * rewrite get_add_neq by exact Hne. apply HI.
    + rewrite get_add_fail by exact EJ. apply HI.
  - cbn [fst]. unfold remove. destruct (key_eq_dec k k') as [->|Hne].
    + rewrite get_del_eq. discriminate.
    + rewrite get_del_neq by exact Hne. apply HI.
  - destruct (exists_ t s k') as [s' b] eqn:EE. cbn [fst]. replace s' with (fst (exists_ t s k')) by now rewrite EE.
    destruct (key_eq_dec k k') as [->|Hne].
    + rewrite get_exists_eq. destruct (get s k') as [e0|] eqn:G; [|discriminate].
      destruct (expired t e0); [discriminate|]. intros H. inversion H; subst. exact (HI k' e G).
    + rewrite get_exists_neq by exact Hne. apply HI.
  - cbn [fst]. apply HI.
Qed.

Lemma run_invT h : forall t0 s, InvT t0 s -> mono t0 h -> InvT (last_time t0 h) (run s h).
Proof.
  induction h as [|o h IH]; intros t0 s HI Hm; [exact HI|].
  destruct Hm as [H1 H2]. rewrite run_cons, last_time_cons. apply IH; [|exact H2]. now apply step_invT with (now := t0).
Qed.

Lemma InvT_nil t : InvT t []. Proof. intros k e H. discriminate. Qed.
Lemma InvD_nil : InvD []. Proof. intros k e H. discriminate. Qed.

(** ---- adding never shortens a block (any peer, any later instant) ---- *)
Lemma add_never_shortens now s tadd k d p t :
  InvT now s -> now <= tadd ->
  blocked_at s p t = true -> blocked_at (fst (add tadd s k d)) p t = true.
Proof.
  intros HI Hle. rewrite !blocked_at_spec. intros [e [G HE]].
  destruct (json_time_ok tadd) eqn:EJ; [|exists e; split; [now rewrite get_add_fail | exact HE]].
  destruct (key_eq_dec p k) as [->|Hne]; [|exists e; split; [now rewrite get_add_neq | exact HE]].
  rewrite get_add_eq by exact EJ. rewrite G. eexists. split; [reflexivity|].
  apply expired_false. cbn [ts dur]. apply expired_false in HE.
  assert (Hts : ts e <= tadd) by (specialize (HI k e G); lia).
  assert (Hs : sat64 (t - tadd) <= sat64 (t - ts e)) by (apply sat64_mono; lia).
  destruct (merge_cases (dur e) d) as [[_ E]|[[_ [_ E]]|[H0 [_ E]]]]; rewrite E; [now left | now left |].
  right. destruct HE as [HE|HE]; [contradiction | lia].
Qed.

(** ---- zero duration blocks forever ---- *)
Lemma zero_kept s o k :
  (exists e, get s k = Some e /\ dur e = 0) ->
  match o with Remove _ k' => k' <> k | _ => True end ->
  exists e, get (fst (step s o)) k = Some e /\ dur e = 0.
Proof.
  intros [e [G H0]] Hnr. destruct o as [t k' d|t k'|t k'|t]; cbn [step].
  - destruct (add t s k' d) as [s' er] eqn:EA. cbn [fst]. replace s' with (fst (add t s k' d)) by now rewrite EA.
    destruct (json_time_ok t) eqn:EJ; [|exists e; now rewrite get_add_fail].
    destruct (key_eq_dec k k') as [->|Hne]; [|exists e; now rewrite get_add_neq].
    rewrite get_add_eq by exact EJ. rewrite G. eexists. split; [reflexivity|]. cbn.
    destruct (merge_cases (dur e) d) as [[_ E]|[[E' _]|[E' _]]]; [exact E | contradiction | contradiction].
  - cbn [fst]. unfold remove. exists e. rewrite get_del_neq; [tauto | congruence].
  - destruct (exists_ t s k') as [s' b] eqn:EE. cbn [fst]. replace s' with (fst (exists_ t s k')) by now rewrite EE.
    destruct (key_eq_dec k k') as [->|Hne]; [|exists e; now rewrite get_exists_neq].
    rewrite get_exists_eq, G. assert (HE : expired t e = false) by (apply expired_false; now left).
    rewrite HE. now exists e.
  - now exists e.
Qed.
Lemma zero_forever_run h : forall s k,
  (exists e, get s k = Some e /\ dur e = 0) -> no_remove k h ->
  exists e, get (run s h) k = Some e /\ dur e = 0.
Proof.
  induction h as [|o h IH]; intros s k Hz Hnr; [exact Hz|].
  inversion Hnr as [|x l Ho Hl]; subst. rewrite run_cons. apply IH; [|exact Hl]. now apply zero_kept.
Qed.
Lemma zero_forever s h1 h2 t k t' :
  json_time_ok t = true -> no_remove k h2 ->
  blocked_at (run s (h1 ++ Add t k 0 :: h2)) k t' = true.
Proof.
  intros HJ Hnr. rewrite run_app, run_cons.
  destruct (zero_forever_run h2 (fst (step (run s h1) (Add t k 0))) k) as [e [G H0]]; [|exact Hnr|].
  - cbn [step]. destruct (add t (run s h1) k 0) as [s' er] eqn:EA. cbn [fst].
    replace s' with (fst (add t (run s h1) k 0)) by now rewrite EA.
    rewrite get_add_eq by exact HJ. eexists. split; [reflexivity|]. cbn.
    destruct (merge_cases (match get (run s h1) k with Some e => dur e | None => -1 end) 0) as [[_ E]|[[_ [_ E]]|[_ [E' _]]]];
      [exact E | exact E | contradiction].
  - apply blocked_at_spec. exists e. split; [exact G|]. apply expired_false. now left.
Qed.

(** ---- removal unblocks ---- *)
Lemma absent_kept h : forall s k, get s k = None -> no_add k h -> get (run s h) k = None.
Proof.
  induction h as [|o h IH]; intros s k G Hna; [exact G|].
  inversion Hna as [|x l Ho Hl]; subst. rewrite run_cons. apply IH; [|exact Hl].
  destruct o as [t k' d|t k'|t k'|t]; cbn [step].
  - destruct (add t s k' d) as [s' er] eqn:EA. cbn [fst]. replace s' with (fst (add t s k' d)) by now rewrite EA.
    rewrite get_add_neq; [exact G | congruence].
  - cbn [fst]. unfold remove. destruct (key_eq_dec k k') as [->|Hne]; [apply get_del_eq | now rewrite get_del_neq].
  - destruct (exists_ t s k') as [s' b] eqn:EE. cbn [fst]. replace s' with (fst (exists_ t s k')) by now rewrite EE.
    destruct (key_eq_dec k k') as [->|Hne]; [rewrite get_exists_eq; now rewrite G | now rewrite get_exists_neq].
  - exact G.
Qed.
Lemma remove_unblocks s h1 h2 t k t' :
  no_add k h2 -> blocked_at (run s (h1 ++ Remove t k :: h2)) k t' = false.
Proof.
  intros Hna. rewrite run_app, run_cons. cbn [step fst].
  assert (G : get (run (remove (run s h1) k) h2) k = None) by (apply absent_kept; [apply get_del_eq | exact Hna]).
  unfold blocked_at, exists_. now rewrite G.
Qed.

(** ================= requests since the last removal ================= *)

Lemma reqs_from_cons k acc o h : reqs_from acc (o :: h) k = reqs_from (reqs_step k acc o) h k.
Proof. reflexivity. Qed.
Lemma reqs_from_app k acc h1 h2 : reqs_from acc (h1 ++ h2) k = reqs_from (reqs_from acc h1 k) h2 k.
Proof. unfold reqs_from. apply fold_left_app. Qed.
Lemma reqs_from_keeps k h : forall acc x, no_remove k h -> In x acc -> In x (reqs_from acc h k).
Proof.
  induction h as [|o h IH]; intros acc x Hnr Hin; [exact Hin|].
  inversion Hnr as [|y l Ho Hl]; subst. rewrite reqs_from_cons. apply IH; [exact Hl|].
  destruct o as [t k' d|t k'|t k'|t]; cbn [reqs_step]; try exact Hin.
  - destruct (key_eqb k k'); [now right | exact Hin].
  - destruct (key_eqb k k') eqn:E; [apply key_eqb_eq in E; congruence | exact Hin].
Qed.
Lemma reqs_after_add h1 h2 t k d : no_remove k h2 -> In (t, d) (reqs (h1 ++ Add t k d :: h2) k).
Proof.
  intros Hnr. unfold reqs. rewrite reqs_from_app, reqs_from_cons. apply reqs_from_keeps; [exact Hnr|].
  cbn [reqs_step]. rewrite key_eqb_refl. now left.
Qed.

(** G1: every request that is still running (or has duration zero) is covered by the stored entry *)
Definition G1 (k : key) (acc : list (Z * Z)) (s : store) (now : Z) : Prop :=
  forall t0 d, In (t0, d) acc -> (d = 0 \/ now <= t0 + d) ->
    exists e, get s k = Some e /\ t0 <= ts e /\ (dur e = 0 \/ d <= dur e) /\ (d = 0 -> dur e = 0).

(** G2: the stored entry carries the time of the latest request and a duration bounded by the requests *)
Definition G2 (k : key) (acc : list (Z * Z)) (s : store) : Prop :=
  forall e, get s k = Some e ->
    exists tl dl rest, acc = (tl, dl) :: rest /\ ts e = tl /\
      (dur e = 0 -> has_zero acc = true) /\ (dur e <> 0 -> dur e <= Z.max (-1) (max_dur acc)).

Lemma G1_later k acc s now now' : G1 k acc s now -> now <= now' -> G1 k acc s now'.
Proof. intros H Hle t0 d Hin Hl. apply (H t0 d Hin). lia. Qed.

Lemma step_G1 k acc s now o :
  G1 k acc s now -> InvT now s -> InvD s -> now <= op_time o -> op_ok o ->
  G1 k (reqs_step k acc o) (fst (step s o)) (op_time o).
Proof.
  intros HG HT HD Hle [Htok Hdok].
  destruct o as [t k' d'|t k'|t k'|t]; cbn [step op_time reqs_step] in Hle, Htok, Hdok |- *.
  - destruct (add t s k' d') as [s' er] eqn:EA. cbn [fst]. replace s' with (fst (add t s k' d')) by now rewrite EA.
    pose proof (time_ok_json _ Htok) as EJ.
    destruct (key_eq_dec k k') as [<-|Hne].
    + rewrite key_eqb_refl. intros t0 d Hin Hl. rewrite get_add_eq by exact EJ.
      eexists. split; [reflexivity|]. cbn [ts dur].
      destruct Hin as [Hin|Hin].
      * inversion Hin; subst t0 d. split; [lia|].
        destruct (merge_cases (match get s k with Some e => dur e | None => -1 end) d') as [[_ E]|[[_ [E0 E]]|[_ [E0 E]]]]; rewrite E.
        -- split; [now left | reflexivity].
        -- split; [now left | reflexivity].
        -- split; [right; lia | intros; contradiction].
      * destruct (HG t0 d Hin) as [e0 [G [H1 [H2 H3]]]]; [lia|]. rewrite G.
        pose proof (HT k e0 G) as Hts. split; [lia|].
        destruct (merge_cases (dur e0) d') as [[_ E]|[[_ [E0 E]]|[En [E0 E]]]]; rewrite E.
        -- split; [now left | reflexivity].
        -- split; [now left | reflexivity].
        -- split; [right; destruct H2 as [H2|H2]; [contradiction | lia] | intros Hd0; apply H3 in Hd0; contradiction].
    + assert (En : key_eqb k k' = false) by now apply key_eqb_neq. rewrite En.
      intros t0 d Hin Hl. rewrite get_add_neq by exact Hne. apply (HG t0 d Hin). lia.
  - cbn [fst]. unfold remove. destruct (key_eq_dec k k') as [<-|Hne].
    + rewrite key_eqb_refl. intros t0 d [].
    + assert (En : key_eqb k k' = false) by now apply key_eqb_neq. rewrite En.
      intros t0 d Hin Hl. rewrite get_del_neq by exact Hne. apply (HG t0 d Hin). lia.
  - destruct (exists_ t s k') as [s' b] eqn:EE. cbn [fst]. replace s' with (fst (exists_ t s k')) by now rewrite EE.
    intros t0 d Hin Hl. destruct (HG t0 d Hin) as [e0 [G [H1 [H2 H3]]]]; [lia|].
    destruct (key_eq_dec k k') as [<-|Hne]; [|rewrite get_exists_neq by exact Hne; now exists e0].
    rewrite get_exists_eq, G.
    assert (HE : expired t e0 = false).
    { apply expired_false. destruct (Z.eq_dec (dur e0) 0) as [Hz|Hnz]; [now left|]. right.
      destruct H2 as [H2|H2]; [contradiction|].
      destruct Hl as [Hl|Hl]; [apply H3 in Hl; contradiction|].
      apply sat64_le; [lia | exact (HD k e0 G)]. }
    rewrite HE. now exists e0.
  - cbn [fst]. intros t0 d Hin Hl. apply (HG t0 d Hin). lia.
Qed.

Lemma step_G2 k acc s o :
  G2 k acc s -> op_ok o -> G2 k (reqs_step k acc o) (fst (step s o)).
Proof.
  intros HG [Htok Hdok].
  destruct o as [t k' d'|t k'|t k'|t]; cbn [step op_time reqs_step] in Htok, Hdok |- *.
  - destruct (add t s k' d') as [s' er] eqn:EA. cbn [fst]. replace s' with (fst (add t s k' d')) by now rewrite EA.
    pose proof (time_ok_json _ Htok) as EJ.
    destruct (key_eq_dec k k') as [<-|Hne].
    + rewrite key_eqb_refl. intros e. rewrite get_add_eq by exact EJ. intros H. inversion H; subst e; clear H.
      exists t, d', acc. split; [reflexivity|]. split; [reflexivity|]. cbn [ts dur has_zero existsb snd max_dur fold_right].
      fold (has_zero acc). fold (max_dur acc).
      destruct (get s k) as [e0|] eqn:G.
      * destruct (HG e0 G) as [tl [dl [rest [Hacc [Hts [Hz Hm]]]]]].
        destruct (merge_cases (dur e0) d') as [[E0 E]|[[_ [E0 E]]|[En [E0 E]]]]; rewrite E.
        -- split; [intros _; rewrite (Hz E0); apply orb_true_r | intros; contradiction].
        -- split; [intros _; subst d'; reflexivity | intros; contradiction].
        -- split; [intros Hmz; exfalso; lia | intros _; specialize (Hm En); lia].
      * destruct (merge_cases (-1) d') as [[E0 E]|[[_ [E0 E]]|[En [E0 E]]]]; rewrite E.
        -- discriminate.
        -- split; [intros _; subst d'; reflexivity | intros; contradiction].
        -- split; [intros Hmz; exfalso; lia | intros _; lia].
    + assert (En : key_eqb k k' = false) by now apply key_eqb_neq. rewrite En.
      intros e. rewrite get_add_neq by exact Hne. apply HG.
  - cbn [fst]. unfold remove. destruct (key_eq_dec k k') as [<-|Hne].
    + intros e. rewrite get_del_eq. discriminate.
    + assert (En : key_eqb k k' = false) by now apply key_eqb_neq. rewrite En.
      intros e. rewrite get_del_neq by exact Hne. apply HG.
  - destruct (exists_ t s k') as [s' b] eqn:EE. cbn [fst]. replace s' with (fst (exists_ t s k')) by now rewrite EE.
    intros e. destruct (key_eq_dec k k') as [<-|Hne]; [|rewrite get_exists_neq by exact Hne; apply HG].
    rewrite get_exists_eq. destruct (get s k) as [e0|] eqn:G; [|discriminate].
    destruct (expired t e0); [discriminate|]. intros H. inversion H; subst. now apply HG.
  - cbn [fst]. exact HG.
Qed.

(** all four invariants along a history whose clock does not go back *)
Record Ghost (k : key) (acc : list (Z * Z)) (s : store) (now : Z) : Prop := mkGhost {
  g_t : InvT now s; g_d : InvD s; g_1 : G1 k acc s now; g_2 : G2 k acc s }.

Lemma ghost_run k h : forall acc s now,
  Ghost k acc s now -> mono now h -> Forall op_ok h ->
  Ghost k (reqs_from acc h k) (run s h) (last_time now h).
Proof.
  induction h as [|o h IH]; intros acc s now HG Hm Hok; [exact HG|].
  destruct Hm as [Hle Hm]. inversion Hok as [|x l Ho Hl]; subst. destruct HG as [HT HD H1 H2].
  rewrite reqs_from_cons, run_cons, last_time_cons. apply IH; [|exact Hm|exact Hl].
  constructor.
  - now apply step_invT with (now := now).
  - apply step_invD; [exact HD | exact (proj2 Ho)].
  - now apply step_G1 with (now := now).
  - now apply step_G2.
Qed.
Lemma ghost_init k t0 : Ghost k [] [] t0.
Proof.
  constructor; [apply InvT_nil | apply InvD_nil | intros t d [] | intros e H; discriminate].
Qed.

(** ---- blocked during every requested period ---- *)
Lemma blocked_during_request t0s h k t0 d t :
  mono t0s h -> Forall op_ok h -> In (t0, d) (reqs h k) ->
  last_time t0s h <= t -> (d = 0 \/ t <= t0 + d) ->
  blocked_at (run [] h) k t = true.
Proof.
  intros Hm Hok Hin Hlt Hl.
  destruct (ghost_run k h [] [] t0s (ghost_init k t0s) Hm Hok) as [HT HD H1 _].
  destruct (H1 t0 d Hin) as [e [G [Ha [Hb Hc]]]]; [lia|].
  apply blocked_at_spec. exists e. split; [exact G|]. apply expired_false.
  destruct (Z.eq_dec (dur e) 0) as [Hz|Hnz]; [now left|]. right.
  destruct Hb as [Hb|Hb]; [contradiction|].
  destruct Hl as [Hl|Hl]; [apply Hc in Hl; contradiction|].
  apply sat64_le; [lia | exact (HD k e G)].
Qed.

(** ---- never beyond the latest request plus the longest duration ---- *)
Lemma reqs_times_ok k h : forall acc, Forall op_ok h ->
  Forall (fun td => 0 <= fst td) acc -> Forall (fun td => 0 <= fst td) (reqs_from acc h k).
Proof.
  induction h as [|o h IH]; intros acc Hok Ha; [exact Ha|].
  inversion Hok as [|x l Ho Hl]; subst. rewrite reqs_from_cons. apply (IH _ Hl).
  destruct o as [t k' d|t k'|t k'|t]; cbn [reqs_step]; try exact Ha.
  - destruct (key_eqb k k'); [|exact Ha]. constructor; [|exact Ha]. cbn. destruct Ho as [[Ho _] _]. exact Ho.
  - destruct (key_eqb k k'); [constructor | exact Ha].
Qed.

Lemma upper_bound t0s h k t :
  mono t0s h -> Forall op_ok h -> last_time t0s h <= t -> time_ok t ->
  blocked_at (run [] h) k t = true ->
  exists tl dl rest, reqs h k = (tl, dl) :: rest /\
    (has_zero (reqs h k) = true \/ t <= tl + max_dur (reqs h k)).
Proof.
  intros Hm Hok Hlt Htok Hb.
  destruct (ghost_run k h [] [] t0s (ghost_init k t0s) Hm Hok) as [HT HD _ H2].
  apply blocked_at_spec in Hb as [e [G HE]].
  destruct (H2 e G) as [tl [dl [rest [Hacc [Hts [Hz Hmx]]]]]].
  exists tl, dl, rest. split; [exact Hacc|].
  apply expired_false in HE. destruct (Z.eq_dec (dur e) 0) as [Hd0|Hdn]; [left; now apply Hz|].
  right. destruct HE as [HE|HE]; [contradiction|].
  specialize (Hmx Hdn). pose proof (HT k e G) as Hle.
  assert (Hge : 0 <= ts e).
  { pose proof (reqs_times_ok k h [] Hok (Forall_nil _)) as Hall.
    rewrite Hacc in Hall. inversion Hall as [|x l Hx Hl']; subst. exact Hx. }
  rewrite sat64_id in HE by (unfold time_ok, i64_max, i64_min in *; lia).
  unfold reqs. lia.
Qed.

(** ---- statements in the form used by Props.v ---- *)
Lemma never_shortens t0 h tadd k d p t :
  mono t0 h -> last_time t0 h <= tadd ->
  blocked_at (run [] h) p t = true ->
  blocked_at (run [] (h ++ [Add tadd k d])) p t = true.
Proof.
  intros Hm Hle Hb. rewrite run_app. unfold run at 1. cbn [fold_left step].
  destruct (add tadd (run [] h) k d) as [s' er] eqn:EA. cbn [fst].
  replace s' with (fst (add tadd (run [] h) k d)) by now rewrite EA.
  apply add_never_shortens with (now := last_time t0 h); [|exact Hle|exact Hb].
  apply run_invT; [apply InvT_nil | exact Hm].
Qed.

Lemma list_agrees_run h t k :
  (In k (peers t (run [] h)) <-> blocked_at (run [] h) k t = true) /\ NoDup (peers t (run [] h)).
Proof.
  assert (Hn : NoDup (map fst (run [] h))) by (apply nodup_run; constructor).
  split; [now apply list_agrees | now apply peers_nodup].
Qed.

Lemma query_answer s t k : snd (step s (Query t k)) = OQuery (blocked_at s k t).
Proof. cbn [step]. unfold blocked_at. now destruct (exists_ t s k). Qed.
Lemma list_answer s t : step s (List t) = (s, OList (peers_full t s)).
Proof. reflexivity. Qed.
