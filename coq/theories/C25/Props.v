(** C25 — property theorems only.  [run [] h] is the store after the history
    [h] of Add/Remove/Query/List operations (each with its clock value) on an
    empty blocklist; [blocked_at s k t] is what [Exists k] answers at clock [t]
    ([C25_query_is_blocked_at]); [reqs h k] are the requests (time, duration)
    for [k] since its last removal.  Clock hypothesis where needed: [mono]
    (the clock never goes back); domain [op_ok]: instants in 1970..2262
    (non-negative int64 UnixNano), durations any int64. *)
From Coq Require Import List ZArith NArith Bool.
Import ListNotations.
Require Import Aurora.C25.Model Aurora.C25.Proofs.
Local Open Scope Z_scope.

(** an Add (any peer [k], any duration, zero and negative included) never
    turns a "blocked at t" answer for any peer [p] into "not blocked" *)
Theorem C25_never_shortens : forall t0 h tadd k d p t,
  mono t0 h -> last_time t0 h <= tadd ->
  blocked_at (run [] h) p t = true ->
  blocked_at (run [] (h ++ [Add tadd k d])) p t = true.
Proof. exact never_shortens. Qed.
Print Assumptions C25_never_shortens.

(** from any store, after a successful Add with duration 0 the peer is blocked
    at every clock value, whatever follows except its removal *)
Theorem C25_zero_forever : forall s h1 h2 t k t',
  json_time_ok t = true -> no_remove k h2 ->
  blocked_at (run s (h1 ++ Add t k 0 :: h2)) k t' = true.
Proof. exact zero_forever. Qed.
Print Assumptions C25_zero_forever.

Theorem C25_blocked_during_request : forall t0s h1 h2 k t0 d t,
  mono t0s (h1 ++ Add t0 k d :: h2) -> Forall op_ok (h1 ++ Add t0 k d :: h2) ->
  no_remove k h2 ->
  last_time t0s (h1 ++ Add t0 k d :: h2) <= t -> t <= t0 + d ->
  blocked_at (run [] (h1 ++ Add t0 k d :: h2)) k t = true.
Proof.
  intros t0s h1 h2 k t0 d t Hm Hok Hnr Hlt Hle.
  exact (blocked_during_request t0s _ k t0 d t Hm Hok (reqs_after_add h1 h2 t0 k d Hnr) Hlt (or_intror Hle)).
Qed.
Print Assumptions C25_blocked_during_request.

(** no clock hypothesis: after Remove the peer is unblocked until it is added again *)
Theorem C25_remove_unblocks : forall s h1 h2 t k t',
  no_add k h2 -> blocked_at (run s (h1 ++ Remove t k :: h2)) k t' = false.
Proof. exact remove_unblocks. Qed.
Print Assumptions C25_remove_unblocks.

Theorem C25_upper_bound : forall t0s h k t,
  mono t0s h -> Forall op_ok h -> last_time t0s h <= t -> time_ok t ->
  blocked_at (run [] h) k t = true ->
  exists tl dl rest, reqs h k = (tl, dl) :: rest /\
    (has_zero (reqs h k) = true \/ t <= tl + max_dur (reqs h k)).
Proof. exact upper_bound. Qed.
Print Assumptions C25_upper_bound.

Theorem C25_list_agrees : forall h t k,
  (In k (peers t (run [] h)) <-> blocked_at (run [] h) k t = true) /\ NoDup (peers t (run [] h)).
Proof. exact list_agrees_run. Qed.
Print Assumptions C25_list_agrees.

(** [blocked_at]/[peers] are the observable answers of Exists/Peers *)
Theorem C25_query_is_blocked_at : forall s t k,
  snd (step s (Query t k)) = OQuery (blocked_at s k t) /\
  step s (List t) = (s, OList (peers_full t s)).
Proof. intros s t k. exact (conj (query_answer s t k) (list_answer s t)). Qed.
Print Assumptions C25_query_is_blocked_at.

(** non-vacuity: a concrete history meets every hypothesis; the bound is tight *)
Example C25_hyps_satisfiable :
  let k := [1%N; 2%N] in
  let h := [Add 10 k 5; Add 12 k 2; Query 14 k; Add 15 [7%N] 0] in
  mono 0 h /\ Forall op_ok h /\ no_remove k [Add 12 k 2; Query 14 k] /\
  reqs h k = [(12, 2); (10, 5)] /\ max_dur (reqs h k) = 5 /\
  blocked_at (run [] h) k 17 = true /\ blocked_at (run [] h) k 18 = false /\
  peers 17 (run [] h) = [k; [7%N]].
Proof.
  cbv zeta. unfold op_ok, time_ok, op_dur_ok, dur_ok, no_remove.
  repeat split; repeat constructor; try (vm_compute; congruence); try discriminate.
Qed.
