(** C25 — correspondence: the harness runs a history of operations on the real
    [blocklist.Blocklist] (fresh state store, clock pinned per operation) and
    records what each call returned; [check_case] replays the history on the
    model. *)
From Coq Require Import List NArith ZArith Bool.
Import ListNotations.
Require Import Aurora.Base.Corr.
Require Export Aurora.C25.Model.
Local Open Scope Z_scope.

(** what the Go calls returned *)
Inductive gobs :=
| GAdd (err : bool)                  (* Add: error returned? *)
| GRemove (err : bool)               (* Remove: error returned? *)
| GQuery (b : bool) (err : bool)     (* Exists *)
| GList (l : list (key * Z)) (err : bool).  (* Peers: (address, timestamp in whole seconds) sorted by address *)

(** a case: the pool of addresses and the history, addresses written as
    indexes into the pool (keeps the generated terms small) *)
Inductive iop :=
| IAdd (t : Z) (i : nat) (d : Z)
| IRemove (t : Z) (i : nat)
| IQuery (t : Z) (i : nat)
| IList (t : Z).
Inductive igobs :=
| IGAdd (err : bool) | IGRemove (err : bool) | IGQuery (b : bool) (err : bool)
| IGList (l : list (nat * Z)) (err : bool).
Inductive case := CHist (pool : list key) (ops : list (iop * igobs)).

Definition kof (pool : list key) (i : nat) : key := nth i pool [].
Definition op_of (pool : list key) (o : iop) : op :=
  match o with
  | IAdd t i d => Add t (kof pool i) d
  | IRemove t i => Remove t (kof pool i)
  | IQuery t i => Query t (kof pool i)
  | IList t => List t
  end.
Definition gobs_of (pool : list key) (g : igobs) : gobs :=
  match g with
  | IGAdd e => GAdd e | IGRemove e => GRemove e | IGQuery b e => GQuery b e
  | IGList l e => GList (map (fun x => (kof pool (fst x), snd x)) l) e
  end.

Fixpoint key_ltb (a b : key) : bool :=
  match a, b with
  | [], [] => false
  | [], _ :: _ => true
  | _ :: _, [] => false
  | x :: a', y :: b' => if (x <? y)%N then true else if (y <? x)%N then false else key_ltb a' b'
  end.
Fixpoint insert_sorted (x : key * Z) (l : list (key * Z)) : list (key * Z) :=
  match l with
  | [] => [x]
  | y :: l' => if key_ltb (fst y) (fst x) then y :: insert_sorted x l' else x :: l
  end.
Definition sort_listing (l : list (key * Z)) : list (key * Z) := fold_right insert_sorted [] l.

Definition model_gobs (o : obs) : gobs :=
  match o with
  | OAdd e => GAdd e
  | ORemove => GRemove false
  | OQuery b => GQuery b false
  | OList l => GList (sort_listing (map (fun kv => (fst kv, ts (snd kv) / 1000000000)) l)) false
  end.

Definition gobs_eqb (a b : gobs) : bool :=
  match a, b with
  | GAdd x, GAdd y => Bool.eqb x y
  | GRemove x, GRemove y => Bool.eqb x y
  | GQuery x e, GQuery y f => Bool.eqb x y && Bool.eqb e f
  | GList x e, GList y f => list_eqb (pair_eqb bytes_eqb Z.eqb) x y && Bool.eqb e f
  | _, _ => false
  end.

(** index and model answer of the first disagreement *)
Fixpoint first_bad (s : store) (l : list (op * gobs)) (i : nat) : option (nat * gobs * gobs) :=
  match l with
  | [] => None
  | (o, g) :: l' =>
      let (s', m) := step s o in
      if gobs_eqb (model_gobs m) g then first_bad s' l' (S i) else Some (i, model_gobs m, g)
  end.

Definition unfold_case (c : case) : list (op * gobs) :=
  match c with CHist pool l => map (fun og => (op_of pool (fst og), gobs_of pool (snd og))) l end.
Definition check_case (c : case) : bool :=
  match first_bad [] (unfold_case c) 0 with None => true | Some _ => false end.
Definition explain_case (c : case) := first_bad [] (unfold_case c) 0.
