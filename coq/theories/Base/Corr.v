(** Shared helpers of the correspondence check: the harness writes a list of
    cases [(input, observed)], each model's [Corr.v] supplies
    [check_case : case -> bool] (model agrees with the implementation's
    observation) and the driver prints the indexes that disagree. *)
From Coq Require Import List NArith ZArith Bool.
Import ListNotations.

Fixpoint mismatch_from {A} (f : A -> bool) (l : list A) (i : nat) : list nat :=
  match l with
  | [] => []
  | x :: t => if f x then mismatch_from f t (S i) else i :: mismatch_from f t (S i)
  end.
Definition mismatch_idx {A} (f : A -> bool) (l : list A) : list nat := mismatch_from f l 0.

Fixpoint list_eqb {A} (e : A -> A -> bool) (a b : list A) : bool :=
  match a, b with
  | [], [] => true
  | x :: a', y :: b' => e x y && list_eqb e a' b'
  | _, _ => false
  end.
Definition bytes_eqb := list_eqb N.eqb.
Definition option_eqb {A} (e : A -> A -> bool) (a b : option A) : bool :=
  match a, b with Some x, Some y => e x y | None, None => true | _, _ => false end.
Definition pair_eqb {A B} (ea : A -> A -> bool) (eb : B -> B -> bool) (a b : A * B) : bool :=
  ea (fst a) (fst b) && eb (snd a) (snd b).

Lemma list_eqb_spec {A} (e : A -> A -> bool) :
  (forall x y, e x y = true <-> x = y) -> forall a b, list_eqb e a b = true <-> a = b.
Proof.
  intros He a; induction a as [|x a IH]; intros [|y b]; simpl; split; intros Hq;
    try reflexivity; try discriminate.
  - apply andb_true_iff in Hq as [H1 H2]. apply He in H1. apply IH in H2. now subst.
  - inversion Hq; subst. apply andb_true_iff; split; [now apply He | now apply IH].
Qed.
Lemma bytes_eqb_eq a b : bytes_eqb a b = true <-> a = b.
Proof. apply list_eqb_spec. intros; apply N.eqb_eq. Qed.
