(** C11 — the store refines the reference machine of Spec.v (lemmas for
    [C11_refines_map]). *)
From Coq Require Import List NArith ZArith Bool Lia.
Import ListNotations.
Require Import Aurora.C11.Model Aurora.C11.Maps Aurora.C11.Spec.
Local Open Scope N_scope.

(** ** the data / pin part of a write batch *)
Definition dw (m : list (addr * dentry)) (w : write) : list (addr * dentry) :=
  match w with WData a e => ainsert cmp_bytes a e m | WDataDel a => aremove cmp_bytes a m | _ => m end.
Definition pw (m : list (addr * N)) (w : write) : list (addr * N) :=
  match w with WPin a c => ainsert cmp_bytes a c m | WPinDel a => aremove cmp_bytes a m | _ => m end.

Lemma s_data_apply s w : s_data (apply_write s w) = dw (s_data s) w.
Proof. destruct w; reflexivity. Qed.
Lemma s_pin_apply s w : s_pin (apply_write s w) = pw (s_pin s) w.
Proof. destruct w; reflexivity. Qed.
Lemma s_data_commit b : forall s, s_data (commit s b) = fold_left dw b (s_data s).
Proof. unfold commit. induction b as [|w b IH]; intros s; simpl; [reflexivity|]. now rewrite IH, s_data_apply. Qed.
Lemma s_pin_commit b : forall s, s_pin (commit s b) = fold_left pw b (s_pin s).
Proof. unfold commit. induction b as [|w b IH]; intros s; simpl; [reflexivity|]. now rewrite IH, s_pin_apply. Qed.

Definition nodata (ws : list write) : Prop := forall m, fold_left dw ws m = m.
Definition nopin (ws : list write) : Prop := forall m, fold_left pw ws m = m.
Lemma nodata_nil : nodata []. Proof. intros m; reflexivity. Qed.
Lemma nopin_nil : nopin []. Proof. intros m; reflexivity. Qed.
Lemma nodata_app a b : nodata a -> nodata b -> nodata (a ++ b).
Proof. intros Ha Hb m. now rewrite fold_left_app, Ha, Hb. Qed.
Lemma nopin_app a b : nopin a -> nopin b -> nopin (a ++ b).
Proof. intros Ha Hb m. now rewrite fold_left_app, Ha, Hb. Qed.

Lemma mapd_aplace a e m : mapd (aplace cmp_bytes a e m) = aplace cmp_bytes a (d_data e) (mapd m).
Proof.
  unfold mapd. induction m as [|[k v] m IH]; simpl; [reflexivity|].
  destruct (cmp_bytes a k); simpl; try reflexivity. now rewrite IH.
Qed.
Lemma mapd_aremove a m : mapd (aremove cmp_bytes a m) = aremove cmp_bytes a (mapd m).
Proof. unfold mapd. apply aremove_map. Qed.
Lemma mapd_ainsert a e m : mapd (ainsert cmp_bytes a e m) = ainsert cmp_bytes a (d_data e) (mapd m).
Proof. unfold ainsert. now rewrite mapd_aplace, mapd_aremove. Qed.
Lemma mapd_lookup a m : alookup cmp_bytes a (mapd m) = option_map d_data (alookup cmp_bytes a m).
Proof. unfold mapd. apply alookup_map. Qed.

Lemma abs_data s a : sp_data (abs s) a = option_map d_data (data_get s a).
Proof. unfold sp_data, abs, data_get. simpl. apply mapd_lookup. Qed.
Lemma abs_pin s a : sp_pin (abs s) a = pin_get s a.
Proof. reflexivity. Qed.
Lemma abs_hasdata s a : sp_hasdata (abs s) a = data_has s a.
Proof. unfold sp_hasdata, data_has, ahas. rewrite abs_data. unfold data_get. now destruct (alookup cmp_bytes a (s_data s)). Qed.
Lemma abs_haspin s a : sp_haspin (abs s) a = pin_has s a.
Proof. reflexivity. Qed.

(** states with the same data and pin indexes have the same abstraction *)
Lemma abs_same s s' : s_data s' = s_data s -> s_pin s' = s_pin s -> abs s' = abs s.
Proof. intros H1 H2. unfold abs. now rewrite H1, H2. Qed.

Lemma mark_dirty_data s l : s_data (mark_dirty s l) = s_data s /\ s_pin (mark_dirty s l) = s_pin s.
Proof. unfold mark_dirty. destruct (s_gcrun s); split; reflexivity. Qed.

(** ** helpers of put/set: what they do to the data / pin indexes *)
Section Helpers.
  Variable po : addr -> N.
  Variable capacity : N.

  Lemma set_gc_root_spec t s b root rbin :
    match set_gc_root t s b root rbin with
    | Ok ch s' b' => s' = s /\ exists ws, b' = b ++ ws /\ nodata ws /\ nopin ws
    | Fail e s' => s' = s
    end.
  Proof.
    unfold set_gc_root. destruct root as [r|].
    - destruct (access_get s r) as [x|]; cbv zeta; cbv iota beta;
        (destruct (rbin =? 0); [destruct (data_get s r)|]); try reflexivity;
        (split; [reflexivity|]; rewrite <- ?app_assoc; eexists; split; [reflexivity|]; split; intros m; reflexivity).
    - split; [reflexivity|]. exists []. rewrite app_nil_r. repeat split; intros m; reflexivity.
  Qed.

  Definition pin_or_0 (s : state) (a : addr) : N := match pin_get s a with Some c => c | None => 0 end.

  Lemma set_pin_item_spec s b a root rbin :
    match set_pin_item s b a root rbin with
    | Ok ch s' b' => s_data s' = s_data s /\ s_pin s' = s_pin s /\
                     exists ws, b' = b ++ ws /\ nodata ws /\
                                (forall m, fold_left pw ws m = ainsert cmp_bytes a (wadd (pin_or_0 s a) 1) m)
    | Fail e s' => s_data s' = s_data s /\ s_pin s' = s_pin s
    end.
  Proof.
    unfold set_pin_item, pin_or_0.
    cbv zeta.
    assert (Hfin : forall s' b0 (ch : Z), s_data s' = s_data s -> s_pin s' = s_pin s ->
              (exists ws0, b0 = b ++ ws0 /\ nodata ws0 /\ nopin ws0) ->
              s_data s' = s_data s /\ s_pin s' = s_pin s /\
              exists ws, b0 ++ [WPin a (wadd match pin_get s a with Some c => c | None => 0 end 1)] = b ++ ws /\ nodata ws /\
                 (forall m, fold_left pw ws m = ainsert cmp_bytes a (wadd match pin_get s a with Some c => c | None => 0 end 1) m)).
    { intros s' b0 _ H1 H2 [ws0 [E [Hd Hp]]]. split; [exact H1|]. split; [exact H2|].
      exists (ws0 ++ [WPin a (wadd match pin_get s a with Some c => c | None => 0 end 1)]).
      subst b0. rewrite app_assoc. split; [reflexivity|]. split.
      - apply nodata_app; [exact Hd | intros m; reflexivity].
      - intros m. now rewrite fold_left_app, Hp. }
    assert (Hnil : exists ws0, b = b ++ ws0 /\ nodata ws0 /\ nopin ws0).
    { exists []. rewrite app_nil_r. repeat split; intros m; reflexivity. }
    destruct root as [r|]; [|apply (Hfin s b 0%Z); auto].
    destruct (access_get s r) as [ats|]; [|apply (Hfin s b 0%Z); auto].
    destruct (data_get s r) as [e|]; [|split; reflexivity].
    destruct (gc_get s (ats, mergeN (d_bin e) rbin, r)) as [c|]; [|apply (Hfin s b 0%Z); auto].
    destruct (c =? 1).
    - apply (Hfin s _ (-1)%Z); auto. exists [WGcDel (ats, mergeN (d_bin e) rbin, r)].
      repeat split; intros m; reflexivity.
    - apply (Hfin _ b (-1)%Z); auto.
  Qed.

  (** ** the put loop *)
  Definition PInv (D0 : list (addr * dentry)) (P0 : list (addr * N)) (s : state) (b : list write)
             (acc : putacc) (sacc : spec * list bool * list addr) : Prop :=
    s_data s = D0 /\ s_pin s = P0 /\
    fst (fst (fst sacc)) = mapd (fold_left dw b D0) /\ snd (fst (fst sacc)) = fold_left pw b P0 /\
    pa_exist acc = snd (fst sacc) /\ pa_seen acc = snd sacc /\
    (forall a, mem_addr a (snd sacc) = false ->
               alookup cmp_bytes a (fold_left dw b D0) = alookup cmp_bytes a D0 /\
               alookup cmp_bytes a (fold_left pw b P0) = alookup cmp_bytes a P0).

  Lemma mem_addr_snoc_false a' seen a :
    mem_addr a' (seen ++ [a]) = false -> mem_addr a' seen = false /\ a' <> a.
  Proof.
    rewrite mem_addr_app. simpl. rewrite orb_false_r. intros H. apply orb_false_iff in H as [H1 H2].
    split; [exact H1|]. intros ->. now rewrite bytes_eqb_refl in H2.
  Qed.

  Lemma PInv_intro D0 P0 s b acc sp ex seen :
    s_data s = D0 -> s_pin s = P0 ->
    fst sp = mapd (fold_left dw b D0) -> snd sp = fold_left pw b P0 ->
    pa_exist acc = ex -> pa_seen acc = seen ->
    (forall a, mem_addr a seen = false ->
               alookup cmp_bytes a (fold_left dw b D0) = alookup cmp_bytes a D0 /\
               alookup cmp_bytes a (fold_left pw b P0) = alookup cmp_bytes a P0) ->
    PInv D0 P0 s b acc (sp, ex, seen).
  Proof. intros. unfold PInv. simpl. tauto. Qed.

  Lemma put_one_inv t mode root D0 P0 s b acc sacc c :
    PInv D0 P0 s b acc sacc -> mode <> PInvalid ->
    match put_one po t mode root s b acc c with
    | Ok acc' s' b' => PInv D0 P0 s' b' acc' (sp_put_one mode sacc c)
    | Fail e s' => s_data s' = D0 /\ s_pin s' = P0
    end.
  Proof.
    destruct sacc as [[sp ex] seen]. destruct c as [a d].
    intros (HD & HP & Hsd & Hsp & Hex & Hseen & Hframe) Hmode. simpl in Hsd, Hsp, Hex, Hseen, Hframe.
    unfold put_one, sp_put_one. rewrite Hseen.
    assert (Fr : forall (M : list (addr * dentry)) (Pm : list (addr * N)),
       (forall a', a' <> a -> alookup cmp_bytes a' M = alookup cmp_bytes a' (fold_left dw b D0)) ->
       (forall a', a' <> a -> alookup cmp_bytes a' Pm = alookup cmp_bytes a' (fold_left pw b P0)) ->
       forall a', mem_addr a' (seen ++ [a]) = false ->
                  alookup cmp_bytes a' M = alookup cmp_bytes a' D0 /\ alookup cmp_bytes a' Pm = alookup cmp_bytes a' P0).
    { intros M Pm H1 H2 a' Hm. apply mem_addr_snoc_false in Hm as [Hm Hn].
      rewrite H1, H2 by exact Hn. now apply Hframe. }
    assert (Oth : forall V (M : list (addr * V)) v a', a' <> a ->
                  alookup cmp_bytes a' (ainsert cmp_bytes a v M) = alookup cmp_bytes a' M).
    { intros V M v a' Hn. now apply (alookup_ainsert_other cmp_bytes cmp_bytes_eq). }
    destruct (mem_addr a seen) eqn:Hmem.
    { (* repeated inside the call *)
      apply PInv_intro; simpl; try assumption; try reflexivity; try (now rewrite Hex).
      apply Fr; reflexivity. }
    destruct (Hframe a Hmem) as [Hfd Hfp].
    assert (Hspd : sp_data sp a = option_map d_data (alookup cmp_bytes a D0)).
    { unfold sp_data. rewrite Hsd, mapd_lookup, Hfd. reflexivity. }
    assert (Hhas : data_has s a = match alookup cmp_bytes a D0 with Some _ => true | None => false end).
    { unfold data_has, ahas. now rewrite HD. }
    assert (Hpc : forall sp1, snd sp1 = snd sp -> sp_pinc sp1 a = pin_or_0 s a).
    { intros sp1 E. unfold sp_pinc, sp_pin, pin_or_0, pin_get. now rewrite E, Hsp, Hfp, HP. }
    assert (Kexists : forall bins',
      PInv D0 P0 s b {| pa_bins := bins'; pa_exist := pa_exist acc ++ [true]; pa_change := (pa_change acc + 0)%Z; pa_seen := seen ++ [a] |}
           (sp, ex ++ [true], seen ++ [a])).
    { intros bins'. apply PInv_intro; simpl; try assumption; try reflexivity; try (now rewrite Hex). apply Fr; reflexivity. }
    destruct (inc_bin_id s (pa_bins acc) (po a)) as [id bins'] eqn:Einc.
    set (e := {| d_bin := id; d_ts := t; d_data := d |}).
    destruct mode; try contradiction.
    - (* PRequest *)
      rewrite Hhas, Hspd. destruct (alookup cmp_bytes a D0) as [e0|]; simpl.
      + apply Kexists.
      + pose proof (set_gc_root_spec t s (b ++ [WData a e]) root (if bytes_eqb a (root_bytes root) then id else 0)) as Hg.
        destruct (set_gc_root t s (b ++ [WData a e]) root (if bytes_eqb a (root_bytes root) then id else 0)) as [ch s' b'|er s'].
        * destruct Hg as [-> [ws [-> [Hnd Hnp]]]].
          apply PInv_intro; simpl; try assumption; try reflexivity; try (now rewrite Hex);
            rewrite ?fold_left_app, ?Hnd, ?Hnp; simpl.
          -- now rewrite mapd_ainsert, Hsd.
          -- assumption.
          -- apply Fr; intros a' Hn; [now apply Oth | reflexivity].
        * subst s'. auto.
    - (* PUpload *)
      rewrite Hhas, Hspd. destruct (alookup cmp_bytes a D0) as [e0|]; simpl.
      + apply Kexists.
      + apply PInv_intro; simpl; try assumption; try reflexivity; try (now rewrite Hex);
            rewrite ?fold_left_app; simpl.
        -- now rewrite mapd_ainsert, Hsd.
        -- assumption.
        -- apply Fr; intros a' Hn; [now apply Oth | reflexivity].
    - (* PUploadPin *)
      rewrite Hhas, Hspd. destruct (alookup cmp_bytes a D0) as [e0|]; simpl.
      + pose proof (set_pin_item_spec s b a root 0) as Hg.
        destruct (set_pin_item s b a root 0) as [ch s' b'|er s']; simpl.
        * destruct Hg as (H1 & H2 & ws & -> & Hnd & Hpw).
          apply PInv_intro; simpl; try reflexivity; try congruence;
            rewrite ?fold_left_app, ?Hnd, ?Hpw; simpl.
          -- assumption.
          -- now rewrite (Hpc sp eq_refl), Hsp.
          -- apply Fr; intros a' Hn; [reflexivity | now apply Oth].
        * destruct Hg as [H1 H2]. split; congruence.
      + pose proof (set_pin_item_spec s (b ++ [WData a e]) a root 0) as Hg.
        destruct (set_pin_item s (b ++ [WData a e]) a root 0) as [ch s' b'|er s']; simpl.
        * destruct Hg as (H1 & H2 & ws & -> & Hnd & Hpw).
          apply PInv_intro; simpl; try reflexivity; try congruence;
            rewrite ?fold_left_app, ?Hnd, ?Hpw; simpl.
          -- now rewrite mapd_ainsert, Hsd.
          -- now rewrite (Hpc (sp_store sp a d) eq_refl), Hsp.
          -- apply Fr; intros a' Hn; now apply Oth.
        * destruct Hg as [H1 H2]. split; congruence.
    - (* PRequestPin *)
      rewrite Hhas, Hspd. destruct (alookup cmp_bytes a D0) as [e0|]; simpl.
      + apply Kexists.
      + pose proof (set_pin_item_spec s (b ++ [WData a e]) a root (if bytes_eqb a (root_bytes root) then id else 0)) as Hg.
        destruct (set_pin_item s (b ++ [WData a e]) a root (if bytes_eqb a (root_bytes root) then id else 0)) as [ch s' b'|er s']; simpl.
        * destruct Hg as (H1 & H2 & ws & -> & Hnd & Hpw).
          apply PInv_intro; simpl; try reflexivity; try congruence;
            rewrite ?fold_left_app, ?Hnd, ?Hpw; simpl.
          -- now rewrite mapd_ainsert, Hsd.
          -- now rewrite (Hpc (sp_store sp a d) eq_refl), Hsp.
          -- apply Fr; intros a' Hn; now apply Oth.
        * destruct Hg as [H1 H2]. split; congruence.
  Qed.

  Lemma put_loop_inv t mode root D0 P0 chs : forall s b acc sacc,
    PInv D0 P0 s b acc sacc -> mode <> PInvalid ->
    match put_loop po t mode root s b acc chs with
    | Ok acc' s' b' => PInv D0 P0 s' b' acc' (fold_left (sp_put_one mode) chs sacc)
    | Fail e s' => s_data s' = D0 /\ s_pin s' = P0
    end.
  Proof.
    induction chs as [|c chs IH]; intros s b acc sacc Hinv Hm; simpl; [exact Hinv|].
    pose proof (put_one_inv t mode root D0 P0 s b acc sacc c Hinv Hm) as H1.
    destruct (put_one po t mode root s b acc c) as [acc' s' b'|e s']; [|exact H1].
    apply IH; assumption.
  Qed.

  Lemma finish_data s b ch :
    s_data (fst (finish capacity s b ch)) = fold_left dw b (s_data s) /\
    s_pin (fst (finish capacity s b ch)) = fold_left pw b (s_pin s).
  Proof.
    unfold finish. destruct (ch =? 0)%Z; simpl; [now rewrite s_data_commit, s_pin_commit|].
    destruct (0 <? ch)%Z; simpl.
    - now rewrite s_data_commit, s_pin_commit, !fold_left_app.
    - destruct (s_gcsize s <? Z.to_N (- ch)); simpl;
        now rewrite s_data_commit, s_pin_commit, ?fold_left_app.
  Qed.

  Lemma bins_writes_nodata l : nodata (map (fun pi : N * N => WBin (fst pi) (snd pi)) l) /\
                               nopin (map (fun pi : N * N => WBin (fst pi) (snd pi)) l).
  Proof. induction l as [|x l [IH1 IH2]]; split; intros m; simpl; auto. Qed.

  (** *** DB.Put refines the reference put *)
  Lemma put_refines t mode root chs s :
    let '(s', r) := put po capacity t mode root chs s in
    let '(sp', v) := spec_put mode chs (obs_ok r) (abs s) in
    abs s' = sp' /\ c11_view r = v.
  Proof.
    unfold put, spec_put.
    assert (Hfast : match chs with [(a, _)] => negb (pin_mode mode) && data_has s a | _ => false end =
                    match chs with [(a, _)] => negb (pin_mode mode) && match sp_data (abs s) a with Some _ => true | None => false end | _ => false end).
    { destruct chs as [|[a d] [|]]; try reflexivity. f_equal. symmetry. apply abs_hasdata. }
    rewrite <- Hfast. clear Hfast.
    destruct (match chs with [(a, _)] => negb (pin_mode mode) && data_has s a | _ => false end); [split; reflexivity|].
    destruct (mark_dirty_data s (map fst chs)) as [Hmd Hmp].
    destruct mode eqn:Em;
      try (pose proof (put_loop_inv t mode root (s_data s) (s_pin s) chs (mark_dirty s (map fst chs)) []
                        {| pa_bins := []; pa_exist := []; pa_change := 0; pa_seen := [] |} (abs s, [], [])) as HL;
           rewrite Em in HL;
           lapply HL; [clear HL; intros HL; lapply HL; [clear HL; intros HL | discriminate]
                      | unfold PInv; simpl; repeat split; auto ];
           match type of HL with match ?X with _ => _ end =>
             destruct X as [acc' s' b'|e s'] end;
           [ destruct (finish capacity s' (b' ++ map (fun pi : N * N => WBin (fst pi) (snd pi)) (pa_bins acc')) (pa_change acc')) as [s'' trig] eqn:Ef;
             simpl;
             destruct (fold_left (sp_put_one _) chs (abs s, [], [])) as [[sp' ex'] seen'];
             destruct HL as (HD & HP & Hsd & Hsp & Hex & _); simpl in *;
             pose proof (finish_data s' (b' ++ map (fun pi : N * N => WBin (fst pi) (snd pi)) (pa_bins acc')) (pa_change acc')) as [Fd Fp];
             rewrite Ef in Fd, Fp; simpl in Fd, Fp;
             destruct (bins_writes_nodata (pa_bins acc')) as [Bd Bp];
             rewrite fold_left_app, Bd in Fd; rewrite fold_left_app, Bp in Fp;
             split; [unfold abs; rewrite Fd, Fp, HD, HP; destruct sp'; simpl in *; now subst | now rewrite Hex]
           | simpl; destruct HL as [HD HP]; split; [apply abs_same; assumption | reflexivity] ]).
    (* PInvalid *)
    simpl. split; [apply abs_same; assumption | reflexivity].
  Qed.
End Helpers.

(** ** DB.Set *)
Section SetGet.
  Variable po : addr -> N.
  Variable capacity : N.

  (** the effect of one address of a set call on the (data, pin) part of the batch *)
  Definition eff (ws : list write) (mode : smode) (s : state) (a : addr) : Prop :=
    forall M Pm, (mapd (fold_left dw ws M), fold_left pw ws Pm) = sp_set_one mode (abs s) (mapd M, Pm) a.

  Lemma sp_pin_abs s a : sp_pin (abs s) a = pin_get s a.
  Proof. reflexivity. Qed.

  Ltac ok_leaf :=
    split; [reflexivity|]; split; [reflexivity|];
    repeat rewrite <- app_assoc; eexists; split; [reflexivity|].

  Lemma set_one_spec t mode root s b a :
    match set_one t mode root s b a with
    | Ok ch s' b' => s_data s' = s_data s /\ s_pin s' = s_pin s /\ exists ws, b' = b ++ ws /\ eff ws mode s a
    | Fail e s' => s_data s' = s_data s /\ s_pin s' = s_pin s
    end.
  Proof.
    unfold set_one. destruct mode.
    - (* sync *)
      unfold set_sync. destruct (data_get s a) as [e|].
      + destruct (access_get s a) as [ats|]; destruct (pin_has s a); ok_leaf; intros M Pm; reflexivity.
      + split; [reflexivity|]. split; [reflexivity|]. exists []. rewrite app_nil_r. split; [reflexivity|]. intros M Pm; reflexivity.
    - (* remove *)
      unfold set_remove. destruct (data_get s a) as [e|]; [|split; reflexivity].
      destruct (pin_get s a) as [pc|] eqn:Ep.
      + destruct (0 <? wsub pc 1) eqn:E0.
        * ok_leaf. intros M Pm. unfold sp_set_one. rewrite sp_pin_abs, Ep, E0. reflexivity.
        * destruct (access_get s (root_bytes root)) as [rats|].
          -- destruct (data_get s (root_bytes root)) as [re|]; [|split; reflexivity].
             destruct (gc_get s (rats, d_bin re, root_bytes root)) as [c|]; [destruct (1 <? c)|];
               ok_leaf; intros M Pm; unfold sp_set_one; rewrite sp_pin_abs, Ep, E0; simpl; now rewrite mapd_aremove.
          -- ok_leaf. intros M Pm. unfold sp_set_one. rewrite sp_pin_abs, Ep, E0. simpl. now rewrite mapd_aremove.
      + destruct (access_get s (root_bytes root)) as [rats|].
        -- destruct (data_get s (root_bytes root)) as [re|]; [|split; reflexivity].
           destruct (gc_get s (rats, d_bin re, root_bytes root)) as [c|]; [destruct (1 <? c)|];
             ok_leaf; intros M Pm; unfold sp_set_one; rewrite sp_pin_abs, Ep; simpl; now rewrite mapd_aremove.
        -- ok_leaf. intros M Pm. unfold sp_set_one. rewrite sp_pin_abs, Ep. simpl. now rewrite mapd_aremove.
    - (* pin *)
      destruct (data_has s a); [|split; reflexivity].
      pose proof (set_pin_item_spec s b a root 0) as Hg.
      destruct (set_pin_item s b a root 0) as [ch s' b'|er s']; [|exact Hg].
      destruct Hg as (H1 & H2 & ws & -> & Hnd & Hpw). split; [exact H1|]. split; [exact H2|].
      exists ws. split; [reflexivity|]. intros M Pm. rewrite Hnd, Hpw. reflexivity.
    - (* unpin *)
      unfold set_unpin. destruct (pin_get s a) as [pc|] eqn:Ep; [|split; reflexivity].
      destruct (1 <? pc) eqn:E1.
      + ok_leaf. intros M Pm. unfold sp_set_one. rewrite sp_pin_abs, Ep, E1. reflexivity.
      + destruct root as [r|].
        * destruct (access_get s r) as [x|]; (destruct (data_get s r) as [re|]; [|split; reflexivity]);
            ok_leaf; intros M Pm; unfold sp_set_one; rewrite sp_pin_abs, Ep, E1; reflexivity.
        * ok_leaf. intros M Pm. unfold sp_set_one. rewrite sp_pin_abs, Ep, E1. reflexivity.
    - split; reflexivity.
  Qed.

  Lemma set_loop_inv t mode root D0 P0 sp0 addrs : forall s b ch,
    s_data s = D0 -> s_pin s = P0 -> sp0 = (mapd D0, P0) ->
    match set_loop t mode root s b ch addrs with
    | Ok ch' s' b' => s_data s' = D0 /\ s_pin s' = P0 /\
                      (mapd (fold_left dw b' D0), fold_left pw b' P0) =
                      fold_left (sp_set_one mode sp0) addrs (mapd (fold_left dw b D0), fold_left pw b P0)
    | Fail e s' => s_data s' = D0 /\ s_pin s' = P0
    end.
  Proof.
    induction addrs as [|a addrs IH]; intros s b ch HD HP Hsp; simpl; [auto|].
    pose proof (set_one_spec t mode root s b a) as H1.
    destruct (set_one t mode root s b a) as [c1 s' b'|e s'].
    - destruct H1 as (H1 & H2 & ws & -> & Heff).
      specialize (IH s' (b ++ ws) (ch + c1)%Z).
      lapply IH; [clear IH; intros IH | congruence]. lapply IH; [clear IH; intros IH | congruence]. specialize (IH Hsp).
      destruct (set_loop t mode root s' (b ++ ws) (ch + c1)%Z addrs) as [ch' s'' b''|e s'']; [|exact IH].
      destruct IH as (I1 & I2 & I3). split; [exact I1|]. split; [exact I2|].
      rewrite I3. rewrite !fold_left_app. f_equal.
      rewrite (Heff (fold_left dw b D0) (fold_left pw b P0)).
      assert (Ea : abs s = sp0) by (unfold abs; now rewrite HD, HP, Hsp). now rewrite Ea.
    - destruct H1 as [H1 H2]. split; congruence.
  Qed.

  Lemma set_refines t mode root addrs s :
    let '(s', r) := set capacity t mode root addrs s in
    let '(sp', v) := spec_set mode addrs (obs_ok r) (abs s) in
    abs s' = sp' /\ c11_view r = v.
  Proof.
    unfold set, spec_set. destruct (mark_dirty_data s addrs) as [Hmd Hmp].
    assert (Hdef : forall (X : state * obs), X = match set_loop t mode root (mark_dirty s addrs) [] 0%Z addrs with
               | Ok ch s' b => let '(s'', trig) := finish capacity s' b ch in (s'', RSet None trig)
               | Fail e s' => (s', RSet (Some e) false) end ->
            let '(s', r) := X in
            let '(sp', v) := if obs_ok r then (fold_left (sp_set_one mode (abs s)) addrs (abs s), VOk) else (abs s, VFail) in
            abs s' = sp' /\ c11_view r = v).
    { intros X ->.
      pose proof (set_loop_inv t mode root (s_data s) (s_pin s) (abs s) addrs (mark_dirty s addrs) [] 0%Z Hmd Hmp eq_refl) as HL.
      destruct (set_loop t mode root (mark_dirty s addrs) [] 0%Z addrs) as [ch s' b|e s'].
      - destruct HL as (HD & HP & HE). destruct (finish capacity s' b ch) as [s'' trig] eqn:Ef. simpl.
        pose proof (finish_data capacity s' b ch) as [Fd Fp]. rewrite Ef in Fd, Fp. simpl in Fd, Fp.
        split; [|reflexivity]. unfold abs at 1. rewrite Fd, Fp, HD, HP. exact HE.
      - simpl. destruct HL as [HD HP]. split; [apply abs_same; assumption | reflexivity]. }
    destruct mode; try (apply Hdef; reflexivity).
    simpl. split; [apply abs_same; assumption | reflexivity].
  Qed.

  (** ** reads *)
  Lemma update_gc_data t a bin0 s :
    s_data (update_gc t a bin0 s) = s_data s /\ s_pin (update_gc t a bin0 s) = s_pin s.
  Proof.
    unfold update_gc. destruct (mark_dirty_data s [a]) as [H1 H2].
    destruct (_ =? 0); [auto|].
    destruct (if bin0 =? 0 then _ else _) as [bin|]; [|auto].
    destruct (gc_get _ _); [|auto].
    rewrite s_data_commit, s_pin_commit. simpl. auto.
  Qed.

  Lemma get_refines t mode root a s :
    let '(s', r) := get t mode root a s in
    abs s' = abs s /\ c11_view r = spec_get mode a (abs s).
  Proof.
    unfold get, spec_get. rewrite abs_data. destruct (data_get s a) as [e|]; simpl; [|split; reflexivity].
    destruct mode; simpl; try (split; reflexivity).
    - split; [|reflexivity]. destruct (root_is_zero root); apply abs_same; apply update_gc_data.
    - rewrite sp_pin_abs. destruct (pin_get s a); split; reflexivity.
  Qed.

  Lemma fill_data_spec s addrs :
    sp_fill (abs s) addrs = option_map (map (fun ae : addr * dentry => d_data (snd ae))) (fill_data s addrs).
  Proof.
    induction addrs as [|a addrs IH]; simpl; [reflexivity|].
    rewrite abs_data, IH. destruct (data_get s a); simpl; [|reflexivity].
    destruct (fill_data s addrs); reflexivity.
  Qed.

  Lemma fold_update_gc_data t items : forall s,
    s_data (fold_left (fun st (ae : addr * dentry) => update_gc t (fst ae) (d_bin (snd ae)) st) items s) = s_data s /\
    s_pin (fold_left (fun st (ae : addr * dentry) => update_gc t (fst ae) (d_bin (snd ae)) st) items s) = s_pin s.
  Proof.
    induction items as [|x items IH]; intros s; simpl; [auto|].
    destruct (IH (update_gc t (fst x) (d_bin (snd x)) s)) as [H1 H2].
    destruct (update_gc_data t (fst x) (d_bin (snd x)) s) as [H3 H4]. split; congruence.
  Qed.

  Lemma get_multi_refines t mode addrs s :
    let '(s', r) := get_multi t mode addrs s in
    abs s' = abs s /\ c11_view r = spec_get_multi mode addrs (abs s).
  Proof.
    unfold get_multi, spec_get_multi. rewrite fill_data_spec.
    destruct (fill_data s addrs) as [items|]; simpl; [|split; reflexivity].
    destruct mode; simpl; try (split; reflexivity).
    - split; [|reflexivity]. apply abs_same; apply fold_update_gc_data.
    - assert (E : forallb (sp_haspin (abs s)) addrs = forallb (pin_has s) addrs) by reflexivity.
      rewrite E. destruct (forallb (pin_has s) addrs); split; reflexivity.
  Qed.

  (** ** one step, and whole histories *)
  Lemma step_refines s o :
    is_gc_op o = false ->
    let '(s', r) := step po capacity s o in
    let '(sp', v) := spec_step (abs s) o (obs_ok r) in
    abs s' = sp' /\ c11_view r = v.
  Proof.
    intros Hgc. destruct o; simpl in *; try discriminate.
    - apply put_refines.
    - pose proof (get_refines t mode root a s) as H. destruct (get t mode root a s) as [s' r]. exact H.
    - pose proof (get_multi_refines t mode addrs s) as H. destruct (get_multi t mode addrs s) as [s' r]. exact H.
    - split; [reflexivity|]. destruct mode; simpl; try reflexivity; now rewrite ?abs_hasdata.
    - split; [reflexivity|]. destruct mode; simpl; try reflexivity;
        f_equal; f_equal; apply map_ext; intros a; now rewrite ?abs_hasdata.
    - apply set_refines.
    - split; [|reflexivity]. unfold reopen. apply abs_same; simpl; destruct (s_gcsize s <? _); reflexivity.
  Qed.

  Theorem run_refines h : forall s,
    forallb (fun o => negb (is_gc_op o)) h = true ->
    let '(s', os) := run po capacity s h in
    let '(sp', vs) := spec_run (abs s) h (map obs_ok os) in
    abs s' = sp' /\ map c11_view os = vs.
  Proof.
    induction h as [|o h IH]; intros s Hh; simpl; [split; reflexivity|].
    simpl in Hh. apply andb_true_iff in Hh as [Ho Hh]. apply negb_true_iff in Ho.
    pose proof (step_refines s o Ho) as H1.
    destruct (step po capacity s o) as [s1 r].
    specialize (IH s1 Hh). destruct (run po capacity s1 h) as [s2 rs]. simpl.
    destruct (spec_step (abs s) o (obs_ok r)) as [sp1 v]. destruct H1 as [E1 E2].
    rewrite <- E1. destruct (spec_run (abs s1) h (map obs_ok rs)) as [sp2 vs].
    destruct IH as [I1 I2]. split; [exact I1 | now rewrite E2, I2].
  Qed.
End SetGet.
