(** C11 — the reference ("spec") machine of the property: what is stored
    under which address, and the pin counters that removal honours.

    State: two association lists, [addr -> bytes] and [addr -> pin count].
    No bin ids, timestamps, access/gc indexes, gcSize, batches, clock, dirty
    bookkeeping.  A put processes its chunks ONE AFTER THE OTHER on the
    current reference state.  Whether a put/set call FAILED is an input
    ([ok]): the statement of C11 does not say when a call may fail, only that
    a failed call stores/removes nothing.

    Set operations on several addresses follow what the store does with
    in-call repetitions: every address is judged by its pin count BEFORE the
    call (the write batch is not visible to the reads of the same call). *)
From Coq Require Import List NArith ZArith Bool.
Import ListNotations.
Require Import Aurora.C11.Model.
Local Open Scope N_scope.

Definition spec := (list (addr * bytes) * list (addr * N))%type.
Definition spec_init : spec := ([], []).
Definition sp_data (sp : spec) (a : addr) : option bytes := alookup cmp_bytes a (fst sp).
Definition sp_pin (sp : spec) (a : addr) : option N := alookup cmp_bytes a (snd sp).
Definition sp_pinc (sp : spec) (a : addr) : N := match sp_pin sp a with Some c => c | None => 0 end.
Definition sp_store (sp : spec) (a : addr) (d : bytes) : spec := (ainsert cmp_bytes a d (fst sp), snd sp).
Definition sp_pinup (sp : spec) (a : addr) : spec := (fst sp, ainsert cmp_bytes a (wadd (sp_pinc sp a) 1) (snd sp)).

(** what the reference says an operation returns *)
Inductive sview :=
| VExist (l : list bool)          (* successful put: the "already existed" flags *)
| VOk                              (* successful set *)
| VFail                            (* failed put / set *)
| VData (r : err + bytes)
| VDatas (r : err + list bytes)
| VBool (r : err + bool)
| VBools (r : err + list bool)
| VNone.                           (* not an operation of this property *)

Definition sp_put_one (mode : pmode) (acc : spec * list bool * list addr) (c : chunk)
  : spec * list bool * list addr :=
  let '(sp, ex, seen) := acc in
  let '(a, d) := c in
  if mem_addr a seen then (sp, ex ++ [true], seen ++ [a])
  else match sp_data sp a with
       | Some _ => (match mode with PUploadPin => sp_pinup sp a | _ => sp end, ex ++ [true], seen ++ [a])
       | None => let sp1 := sp_store sp a d in
                 (if pin_mode mode then sp_pinup sp1 a else sp1, ex ++ [false], seen ++ [a])
       end.

Definition spec_put (mode : pmode) (chs : list chunk) (ok : bool) (sp : spec) : spec * sview :=
  let fast := match chs with
              | [(a, _)] => negb (pin_mode mode) && match sp_data sp a with Some _ => true | None => false end
              | _ => false
              end in
  if fast then (sp, VExist [true])
  else if ok then let '(sp', ex, _) := fold_left (sp_put_one mode) chs (sp, [], []) in (sp', VExist ex)
       else (sp, VFail).

(** one address of a set call: judged on [sp0] (the state before the call), applied to [acc] *)
Definition sp_set_one (mode : smode) (sp0 acc : spec) (a : addr) : spec :=
  match mode with
  | SRemove =>
      match sp_pin sp0 a with
      | Some pc => let pc' := wsub pc 1 in
                   if 0 <? pc' then (fst acc, ainsert cmp_bytes a pc' (snd acc))        (* still pinned: only unpins *)
                   else (aremove cmp_bytes a (fst acc), aremove cmp_bytes a (snd acc))
      | None => (aremove cmp_bytes a (fst acc), snd acc)
      end
  | SPin => (fst acc, ainsert cmp_bytes a (wadd (sp_pinc sp0 a) 1) (snd acc))
  | SUnpin =>
      match sp_pin sp0 a with
      | Some pc => if 1 <? pc then (fst acc, ainsert cmp_bytes a (pc - 1) (snd acc))
                   else (fst acc, aremove cmp_bytes a (snd acc))
      | None => acc
      end
  | SSync | SInvalid => acc
  end.

Definition spec_set (mode : smode) (addrs : list addr) (ok : bool) (sp : spec) : spec * sview :=
  if ok then (fold_left (sp_set_one mode sp) addrs sp, VOk) else (sp, VFail).

Definition spec_get (mode : gmode) (a : addr) (sp : spec) : sview :=
  match sp_data sp a with
  | None => VData (inl EStorageNotFound)
  | Some d =>
      match mode with
      | GRequest | GSync | GLookup => VData (inr d)
      | GPin => match sp_pin sp a with Some _ => VData (inr []) | None => VData (inl EStorageNotFound) end
      | GInvalid => VData (inl EInvalidMode)
      end
  end.

Fixpoint sp_fill (sp : spec) (addrs : list addr) : option (list bytes) :=
  match addrs with
  | [] => Some []
  | a :: rest => match sp_data sp a, sp_fill sp rest with
                 | Some d, Some l => Some (d :: l)
                 | _, _ => None
                 end
  end.
Definition sp_haspin (sp : spec) (a : addr) : bool := match sp_pin sp a with Some _ => true | None => false end.
Definition sp_hasdata (sp : spec) (a : addr) : bool := match sp_data sp a with Some _ => true | None => false end.

Definition spec_get_multi (mode : gmode) (addrs : list addr) (sp : spec) : sview :=
  match sp_fill sp addrs with
  | None => VDatas (inl EStorageNotFound)
  | Some ds =>
      match mode with
      | GRequest | GSync | GLookup => VDatas (inr ds)
      | GPin => if forallb (sp_haspin sp) addrs then VDatas (inr ds) else VDatas (inl EStorageNotFound)
      | GInvalid => VDatas (inl EInvalidMode)
      end
  end.

Definition spec_step (sp : spec) (o : op) (ok : bool) : spec * sview :=
  match o with
  | OPut _ m _ chs => spec_put m chs ok sp
  | OGet _ m _ a => (sp, spec_get m a sp)
  | OGetMulti _ m addrs => (sp, spec_get_multi m addrs sp)
  | OHas m a => (sp, match m with
                     | HPin => VBool (inr (sp_haspin sp a))
                     | HChunk => VBool (inr (sp_hasdata sp a))
                     | HInvalid => VBool (inl EInvalidMode)
                     end)
  | OHasMulti m addrs => (sp, match m with
                              | HPin => VBools (inr (map (sp_haspin sp) addrs))
                              | _ => VBools (inr (map (sp_hasdata sp) addrs))
                              end)
  | OSet _ m _ addrs => spec_set m addrs ok sp
  | OGcBegin _ _ | OGcEnd _ | OReopen => (sp, VNone)
  end.

Fixpoint spec_run (sp : spec) (h : list op) (oks : list bool) : spec * list sview :=
  match h, oks with
  | o :: rest, ok :: oks' =>
      let '(sp1, v) := spec_step sp o ok in
      let '(sp2, vs) := spec_run sp1 rest oks' in
      (sp2, v :: vs)
  | _, _ => (sp, [])
  end.

(** the model's observation seen through the vocabulary of the property *)
Definition c11_view (r : obs) : sview :=
  match r with
  | RPut (inr ex) _ => VExist ex
  | RPut (inl _) _ => VFail
  | RSet None _ => VOk
  | RSet (Some _) _ => VFail
  | RGet x => VData x
  | RGetMulti x => VDatas x
  | RHas x => VBool x
  | RHasMulti x => VBools x
  | _ => VNone
  end.
Definition obs_ok (r : obs) : bool :=
  match r with
  | RPut (inl _) _ | RSet (Some _) _ => false
  | _ => true
  end.

(** the abstraction of a store state: stored bytes and pin counters *)
Definition mapd (m : list (addr * dentry)) : list (addr * bytes) := map (fun kv => (fst kv, d_data (snd kv))) m.
Definition abs (s : state) : spec := (mapd (s_data s), s_pin s).

Definition is_gc_op (o : op) : bool := match o with OGcBegin _ _ | OGcEnd _ => true | _ => false end.
