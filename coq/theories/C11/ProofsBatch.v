(** C11 — "putting several chunks in one call has the same effect as putting
    them one at a time": what is true of the code (a corollary of the
    refinement) and the three ways in which it is false. *)
From Coq Require Import List NArith ZArith Bool Lia.
Import ListNotations.
Require Import Aurora.C11.Model Aurora.C11.Maps Aurora.C11.Spec Aurora.C11.ProofsRefine.
Local Open Scope N_scope.

(** one call per chunk, same clock, mode and context *)
Definition singles (t : N) (mode : pmode) (root : option addr) (chs : list chunk) : list op :=
  map (fun c => OPut t mode root [c]) chs.
Definition flags_of (r : obs) : list bool := match r with RPut (inr l) _ => l | _ => [] end.
Definition all_flags (rs : list obs) : list bool := flat_map flags_of rs.

(** the property, literally: the batch succeeds iff every single call does,
    and then the "already existed" flags and the resulting state agree *)
Definition batch_eq_seq (po : addr -> N) (cap : N) (s : state) (t : N) (mode : pmode) (root : option addr)
           (chs : list chunk) : Prop :=
  let '(sb, rb) := put po cap t mode root chs s in
  let '(ss, rs) := run po cap s (singles t mode root chs) in
  (obs_ok rb = forallb obs_ok rs) /\
  (obs_ok rb = true -> flags_of rb = all_flags rs /\ sb = ss).

(** ** reference level: one fold over the chunks = one reference put per chunk *)
Definition sflags (v : sview) : list bool := match v with VExist l => l | _ => [] end.
Definition seq_spec (mode : pmode) (chs : list chunk) (sp : spec) : spec * list bool :=
  fold_left (fun acc c => let '(sp1, v) := spec_put mode [c] true (fst acc) in (sp1, snd acc ++ sflags v)) chs (sp, []).

Lemma sp_data_store sp a d x :
  sp_data (sp_store sp a d) x = if bytes_eqb x a then Some d else sp_data sp x.
Proof.
  unfold sp_data, sp_store. simpl. destruct (bytes_eqb x a) eqn:E.
  - apply bytes_eqb_eq in E. subst. apply (alookup_ainsert_same cmp_bytes cmp_bytes_eq).
  - apply (alookup_ainsert_other cmp_bytes cmp_bytes_eq). intros ->. now rewrite bytes_eqb_refl in E.
Qed.
Lemma sp_data_pinup sp a x : sp_data (sp_pinup sp a) x = sp_data sp x.
Proof. reflexivity. Qed.

(** single reference put of one chunk, unfolded *)
Opaque sp_data sp_store sp_pinup.
Lemma spec_put_single mode a d sp :
  spec_put mode [(a, d)] true sp =
  match sp_data sp a with
  | Some _ => (match mode with PUploadPin => sp_pinup sp a | _ => sp end, VExist [true])
  | None => (if pin_mode mode then sp_pinup (sp_store sp a d) a else sp_store sp a d, VExist [false])
  end.
Proof.
  unfold spec_put. destruct (sp_data sp a) eqn:E.
  - destruct mode; simpl; rewrite ?E; reflexivity.
  - rewrite andb_false_r. simpl. rewrite E. reflexivity.
Qed.
Transparent sp_data sp_store sp_pinup.

Lemma fold_batch_seq mode chs : forall sp ex seen,
  (mode <> PUploadPin \/ (NoDup (map fst chs) /\ forall a, In a (map fst chs) -> mem_addr a seen = false)) ->
  (forall a, mem_addr a seen = true -> sp_data sp a <> None) ->
  fst (fst (fold_left (sp_put_one mode) chs (sp, ex, seen))) =
    fst (fold_left (fun acc c => let '(sp1, v) := spec_put mode [c] true (fst acc) in (sp1, snd acc ++ sflags v)) chs (sp, ex)) /\
  snd (fst (fold_left (sp_put_one mode) chs (sp, ex, seen))) =
    snd (fold_left (fun acc c => let '(sp1, v) := spec_put mode [c] true (fst acc) in (sp1, snd acc ++ sflags v)) chs (sp, ex)).
Proof.
  induction chs as [|[a d] chs IH]; intros sp ex seen Hcls Hseen; simpl; [split; reflexivity|].
  rewrite spec_put_single.
  assert (Hcls' : forall seen', (forall x, mem_addr x seen' = true -> mem_addr x seen = true \/ x = a) ->
            mode <> PUploadPin \/ (NoDup (map fst chs) /\ forall x, In x (map fst chs) -> mem_addr x seen' = false)).
  { intros seen' Hs. destruct Hcls as [Hm|[Hnd Hns]]; [now left|right]. simpl in Hnd. inversion Hnd as [|y l Hni Hnd']; subst.
    split; [exact Hnd'|]. intros x Hx. destruct (mem_addr x seen') eqn:E; [|reflexivity].
    apply Hs in E as [E| ->]; [|contradiction]. rewrite Hns in E; [discriminate | now right]. }
  assert (Hsnoc : forall x, mem_addr x (seen ++ [a]) = true -> mem_addr x seen = true \/ x = a).
  { intros x. rewrite mem_addr_app. simpl. rewrite orb_false_r, orb_true_iff, bytes_eqb_eq. tauto. }
  destruct (mem_addr a seen) eqn:Hmem.
  - (* repeated in the call: present by the invariant *)
    destruct Hcls as [Hm|[_ Hns]]; [|rewrite Hns in Hmem; [discriminate | now left]].
    pose proof (Hseen a Hmem) as Ha. destruct (sp_data sp a) eqn:E; [|contradiction].
    assert (Em : match mode with PUploadPin => sp_pinup sp a | _ => sp end = sp) by (destruct mode; try reflexivity; contradiction).
    rewrite Em. simpl. apply IH; [apply Hcls'; exact Hsnoc |].
    intros x Hx. apply Hsnoc in Hx as [Hx| ->]; [now apply Hseen | congruence].
  - destruct (sp_data sp a) eqn:E; simpl.
    + apply IH; [apply Hcls'; exact Hsnoc|].
      intros x Hx. assert (Hd : sp_data (match mode with PUploadPin => sp_pinup sp a | _ => sp end) x = sp_data sp x) by (destruct mode; reflexivity).
      rewrite Hd. apply Hsnoc in Hx as [Hx| ->]; [now apply Hseen | congruence].
    + apply IH; [apply Hcls'; exact Hsnoc|].
      intros x Hx.
      assert (Hd : sp_data (if pin_mode mode then sp_pinup (sp_store sp a d) a else sp_store sp a d) x = sp_data (sp_store sp a d) x)
        by (destruct (pin_mode mode); reflexivity).
      rewrite Hd, sp_data_store. destruct (bytes_eqb x a) eqn:Ex; [discriminate|].
      apply Hsnoc in Hx as [Hx| ->]; [now apply Hseen | now rewrite bytes_eqb_refl in Ex].
Qed.

(** the reference run over one-chunk puts that all succeed *)
Lemma spec_run_singles t mode root chs : forall sp ex (rs : list obs),
  length rs = length chs -> forallb obs_ok rs = true ->
  let '(sp', vs) := spec_run sp (singles t mode root chs) (map obs_ok rs) in
  (sp', ex ++ flat_map sflags vs) =
  fold_left (fun acc c => let '(sp1, v) := spec_put mode [c] true (fst acc) in (sp1, snd acc ++ sflags v)) chs (sp, ex).
Proof.
  induction chs as [|c chs IH]; intros sp ex rs Hl Hok; destruct rs as [|r rs]; try discriminate; simpl.
  - now rewrite app_nil_r.
  - simpl in Hok. apply andb_true_iff in Hok as [Hr Hok]. rewrite Hr.
    destruct (spec_put mode [c] true sp) as [sp1 v] eqn:E1.
    specialize (IH sp1 (ex ++ sflags v) rs). simpl in Hl. injection Hl as Hl. specialize (IH Hl Hok).
    destruct (spec_run sp1 (singles t mode root chs) (map obs_ok rs)) as [sp2 vs]. simpl.
    rewrite <- IH. now rewrite app_assoc.
Qed.

Lemma run_length po cap h : forall s, length (snd (run po cap s h)) = length h.
Proof.
  induction h as [|o h IH]; intros s; simpl; [reflexivity|].
  destruct (step po cap s o) as [s1 r]. specialize (IH s1). destruct (run po cap s1 h). simpl in *. now rewrite IH.
Qed.

Lemma singles_no_gc t mode root chs : forallb (fun o => negb (is_gc_op o)) (singles t mode root chs) = true.
Proof. induction chs; simpl; auto. Qed.

Lemma flags_view r : obs_ok r = true -> sflags (c11_view r) = flags_of r.
Proof. destruct r as [[e|l] tg| | | | |[e|] tg| | | |]; simpl; try reflexivity; discriminate. Qed.

Lemma all_flags_view rs : forallb obs_ok rs = true -> flat_map sflags (map c11_view rs) = all_flags rs.
Proof.
  induction rs as [|r rs IH]; simpl; [reflexivity|]. intros H. apply andb_true_iff in H as [H1 H2].
  now rewrite flags_view, IH.
Qed.

(** ** what holds: on everything the property is about (bytes stored, flags,
    pin counters) a successful batch and successful single calls agree, unless
    a pinned upload repeats an address inside the call *)
Theorem batch_seq_content po cap s t mode root chs :
  (mode <> PUploadPin \/ NoDup (map fst chs)) ->
  let '(sb, rb) := put po cap t mode root chs s in
  let '(ss, rs) := run po cap s (singles t mode root chs) in
  obs_ok rb = true -> forallb obs_ok rs = true ->
  abs sb = abs ss /\ flags_of rb = all_flags rs.
Proof.
  intros Hcls.
  pose proof (put_refines po cap t mode root chs s) as HB.
  pose proof (run_refines po cap (singles t mode root chs) s (singles_no_gc t mode root chs)) as HS.
  pose proof (run_length po cap (singles t mode root chs) s) as HL.
  destruct (put po cap t mode root chs s) as [sb rb].
  destruct (run po cap s (singles t mode root chs)) as [ss rs]. simpl in HL.
  intros Hb Hs. rewrite Hb in HB.
  pose proof (spec_run_singles t mode root chs (abs s) [] rs) as HR.
  unfold singles in HL. rewrite map_length in HL. specialize (HR HL Hs).
  destruct (spec_run (abs s) (singles t mode root chs) (map obs_ok rs)) as [sp2 vs].
  destruct HS as [S1 S2]. simpl in HR.
  destruct (spec_put mode chs true (abs s)) as [spb vb] eqn:EB. destruct HB as [B1 B2].
  (* the batch at the reference level *)
  assert (Hfold : spb = fst (fold_left (fun acc c => let '(sp1, v) := spec_put mode [c] true (fst acc) in (sp1, snd acc ++ sflags v)) chs (abs s, [])) /\
                  sflags vb = snd (fold_left (fun acc c => let '(sp1, v) := spec_put mode [c] true (fst acc) in (sp1, snd acc ++ sflags v)) chs (abs s, []))).
  { assert (Hc : mode <> PUploadPin \/ NoDup (map fst chs) /\ (forall a, In a (map fst chs) -> mem_addr a [] = false))
      by (destruct Hcls; [now left | right; split; [assumption | reflexivity]]).
    pose proof (fold_batch_seq mode chs (abs s) [] [] Hc) as HF.
    lapply HF; [clear HF; intros [F1 F2] | intros a H; discriminate].
    unfold spec_put in EB. cbv zeta in EB.
    match type of EB with (if ?c then _ else _) = _ => destruct c eqn:Efast end.
    - (* fast path: a single present chunk in a non-pin mode *)
      injection EB as <- <-.
      destruct chs as [|[a d] [|]]; try discriminate.
      apply andb_true_iff in Efast as [Ep Ed]. simpl. rewrite spec_put_single.
      destruct (sp_data (abs s) a); [|discriminate]. simpl.
      destruct mode; try discriminate; split; reflexivity.
    - destruct (fold_left (sp_put_one mode) chs (abs s, [], [])) as [[spx exx] seenx] eqn:Efold. injection EB as <- <-.
      simpl in F1, F2. split; assumption. }
  destruct Hfold as [F1 F2]. rewrite <- HR in F1, F2. simpl in F1, F2.
  split.
  - now rewrite B1, S1, F1.
  - rewrite <- (flags_view rb Hb), B2, F2, <- S2. now apply all_flags_view.
Qed.

(** ** what fails: three witnesses, evaluated on the model *)
Definition po0 : addr -> N := fun _ => 0.
Definition rootR : addr := [1]. Definition c1 : addr := [2]. Definition c2 : addr := [3].

(** (a) a request put under a file context that carries the root chunk and another
    chunk fails as a batch (the root is looked up in the committed database),
    while the two single puts succeed *)
Lemma refuted_context_failure :
  ~ batch_eq_seq po0 1000 init 10 PRequest (Some rootR) [(rootR, [7]); (c1, [8])].
Proof. unfold batch_eq_seq. vm_compute. intros [H _]. discriminate. Qed.

(** (b) two new chunks of an already cached root: gcSize grows by 2, the root's
    GCounter by 1; one at a time both grow by 2 *)
Definition s_cached : state := exec po0 1000 init [OPut 5 PRequest (Some rootR) [(rootR, [7])]].
Lemma refuted_context_accounting :
  ~ batch_eq_seq po0 1000 s_cached 10 PRequest (Some rootR) [(c1, [8]); (c2, [9])].
Proof. unfold batch_eq_seq. vm_compute. intros [_ H]. destruct (H eq_refl) as [_ H2]. discriminate. Qed.

(** (c) a pinned upload that repeats an address pins it once; one at a time twice *)
Lemma refuted_uploadpin_duplicate :
  ~ batch_eq_seq po0 1000 init 10 PUploadPin None [(c1, [8]); (c1, [8])].
Proof. unfold batch_eq_seq. vm_compute. intros [_ H]. destruct (H eq_refl) as [_ H2]. discriminate. Qed.
