(** C11 — executable model of pkg/localstore (shared by C11..C16).

    Transcribed from localstore.go, mode_put.go, mode_get.go,
    mode_get_multi.go, mode_has.go, mode_set.go and gc.go.  Definitions only;
    proofs are in Maps.v / Proofs*.v.

    - STATE.  The five shed indexes and the two persisted counters, as
      association lists kept in the key order of the storage driver
      (bytes.Compare of the encoded key), so that a model state can be
      compared verbatim with the canonical dump of the hook
      [DB.VerifDump]:
        [s_data]   retrievalDataIndex    addr -> (binID, storeTimestamp, data)
        [s_access] retrievalAccessIndex  addr -> accessTimestamp
        [s_gc]     gcIndex               (accessTimestamp, binID, addr) -> GCounter
        [s_pin]    pinIndex              addr -> PinCounter
        [s_bins]   binIDs vector         po -> last bin id
        [s_gcsize] gcSize field
      plus the in-memory fields [gcRunning]/[dirtyAddresses] ([s_gcrun],
      [s_dirty]).  All numbers are [N]; the Go [uint64] wrap-around is written
      out ([wadd]/[wsub]); an [int64] timestamp is represented by its [uint64]
      bit pattern (that is what the indexes store and order by).

    - BATCH SEMANTICS (DESIGN.md section 4).  An operation reads the
      COMMITTED database and appends [write]s to a batch that is applied
      atomically, in order, by [commit]; batch writes are not visible to later
      reads of the same operation.  The one DIRECT write of put/set
      ([gcIndex.Put] in [setPin]) and the one of the collection run
      ([pinIndex.Put]) are applied to the state immediately and survive an
      aborted batch.  A failing helper aborts the operation: [Fail e s] keeps
      the state (with direct writes), drops the batch.

    - shed.Index.Get returns [decoded_value.Merge(keyFields)]: a decoded
      field that is 0 is replaced by the key item's field.  Wherever that is
      reachable with a non-zero key field it is written out ([mergeN]).

    - PARAMETERS.  [po : addr -> N] is [db.po] (proximity to the base key,
      C20); [capacity] is [db.capacity].  The chunkinfo side of a collection
      run is an oracle: the table [pyr] handed to [OGcEnd] says, per candidate
      root, whether chunkinfo knows the file and which (cid, number) list
      [GetChunkPyramid] returns. *)
From Coq Require Import List NArith ZArith Bool.
Import ListNotations.
Local Open Scope N_scope.

Definition addr := list N.
Definition bytes := list N.

(** ** uint64 arithmetic *)
Definition W64 : N := 18446744073709551616.
Definition wadd (a b : N) : N := (a + b) mod W64.
Definition wsub (a b : N) : N := (a + W64 - b mod W64) mod W64.

(** ** key orders (bytes.Compare on the encoded keys) *)
Fixpoint cmp_bytes (a b : list N) : comparison :=
  match a, b with
  | [], [] => Eq
  | [], _ :: _ => Lt
  | _ :: _, [] => Gt
  | x :: a', y :: b' => match x ?= y with Eq => cmp_bytes a' b' | c => c end
  end.

(** gc key = BE64(accessTimestamp) ++ BE64(binID) ++ address *)
Definition gckey := (N * N * addr)%type.
Definition cmp_gckey (k1 k2 : gckey) : comparison :=
  match k1, k2 with
  | (t1, b1, a1), (t2, b2, a2) =>
      match t1 ?= t2 with
      | Eq => match b1 ?= b2 with Eq => cmp_bytes a1 a2 | c => c end
      | c => c
      end
  end.

(** ** association lists ordered by [cmp].
    [ainsert] first removes every binding of the key, then inserts at the
    sorted position: the lookup laws need no sortedness invariant, and a list
    built from [[]] is strictly sorted (Maps.v). *)
Section AList.
  Context {K V : Type} (cmp : K -> K -> comparison).
  Fixpoint alookup (k : K) (m : list (K * V)) : option V :=
    match m with
    | [] => None
    | (k', v) :: t => match cmp k k' with Eq => Some v | _ => alookup k t end
    end.
  Fixpoint aremove (k : K) (m : list (K * V)) : list (K * V) :=
    match m with
    | [] => []
    | (k', v) :: t => match cmp k k' with Eq => aremove k t | _ => (k', v) :: aremove k t end
    end.
  Fixpoint aplace (k : K) (v : V) (m : list (K * V)) : list (K * V) :=
    match m with
    | [] => [(k, v)]
    | (k', v') :: t => match cmp k k' with Gt => (k', v') :: aplace k v t | _ => (k, v) :: m end
    end.
  Definition ainsert (k : K) (v : V) (m : list (K * V)) : list (K * V) := aplace k v (aremove k m).
  Definition ahas (k : K) (m : list (K * V)) : bool :=
    match alookup k m with Some _ => true | None => false end.
End AList.

(** ** state *)
Record dentry := { d_bin : N; d_ts : N; d_data : bytes }.

(** a running collection: the candidates chosen by the iteration, and the target *)
Record gcctx := { g_cands : list (gckey * N); g_target : N }.

Record state := {
  s_data : list (addr * dentry);
  s_access : list (addr * N);
  s_gc : list (gckey * N);
  s_pin : list (addr * N);
  s_bins : list (N * N);
  s_gcsize : N;
  s_gcrun : option gcctx;     (* Some _ <-> db.gcRunning *)
  s_dirty : list addr         (* db.dirtyAddresses *)
}.

Definition init : state :=
  {| s_data := []; s_access := []; s_gc := []; s_pin := []; s_bins := []; s_gcsize := 0;
     s_gcrun := None; s_dirty := [] |}.

Definition data_get (s : state) (a : addr) := alookup cmp_bytes a (s_data s).
Definition access_get (s : state) (a : addr) := alookup cmp_bytes a (s_access s).
Definition gc_get (s : state) (k : gckey) := alookup cmp_gckey k (s_gc s).
Definition pin_get (s : state) (a : addr) := alookup cmp_bytes a (s_pin s).
Definition bin_get (s : state) (po : N) : N :=
  match alookup N.compare po (s_bins s) with Some v => v | None => 0 end.
Definition data_has (s : state) (a : addr) : bool := ahas cmp_bytes a (s_data s).
Definition pin_has (s : state) (a : addr) : bool := ahas cmp_bytes a (s_pin s).

(** ** writes *)
Inductive write :=
| WData (a : addr) (e : dentry) | WDataDel (a : addr)
| WAccess (a : addr) (ts : N) | WAccessDel (a : addr)
| WGc (k : gckey) (c : N) | WGcDel (k : gckey)
| WPin (a : addr) (c : N) | WPinDel (a : addr)
| WBin (po id : N)
| WGcSize (n : N).

Definition set_data s v := {| s_data := v; s_access := s_access s; s_gc := s_gc s; s_pin := s_pin s;
  s_bins := s_bins s; s_gcsize := s_gcsize s; s_gcrun := s_gcrun s; s_dirty := s_dirty s |}.
Definition set_access s v := {| s_data := s_data s; s_access := v; s_gc := s_gc s; s_pin := s_pin s;
  s_bins := s_bins s; s_gcsize := s_gcsize s; s_gcrun := s_gcrun s; s_dirty := s_dirty s |}.
Definition set_gc s v := {| s_data := s_data s; s_access := s_access s; s_gc := v; s_pin := s_pin s;
  s_bins := s_bins s; s_gcsize := s_gcsize s; s_gcrun := s_gcrun s; s_dirty := s_dirty s |}.
Definition set_pin s v := {| s_data := s_data s; s_access := s_access s; s_gc := s_gc s; s_pin := v;
  s_bins := s_bins s; s_gcsize := s_gcsize s; s_gcrun := s_gcrun s; s_dirty := s_dirty s |}.
Definition set_bins s v := {| s_data := s_data s; s_access := s_access s; s_gc := s_gc s; s_pin := s_pin s;
  s_bins := v; s_gcsize := s_gcsize s; s_gcrun := s_gcrun s; s_dirty := s_dirty s |}.
Definition set_gcsize s v := {| s_data := s_data s; s_access := s_access s; s_gc := s_gc s; s_pin := s_pin s;
  s_bins := s_bins s; s_gcsize := v; s_gcrun := s_gcrun s; s_dirty := s_dirty s |}.
Definition set_gcrun s v d := {| s_data := s_data s; s_access := s_access s; s_gc := s_gc s; s_pin := s_pin s;
  s_bins := s_bins s; s_gcsize := s_gcsize s; s_gcrun := v; s_dirty := d |}.

Definition apply_write (s : state) (w : write) : state :=
  match w with
  | WData a e => set_data s (ainsert cmp_bytes a e (s_data s))
  | WDataDel a => set_data s (aremove cmp_bytes a (s_data s))
  | WAccess a t => set_access s (ainsert cmp_bytes a t (s_access s))
  | WAccessDel a => set_access s (aremove cmp_bytes a (s_access s))
  | WGc k c => set_gc s (ainsert cmp_gckey k c (s_gc s))
  | WGcDel k => set_gc s (aremove cmp_gckey k (s_gc s))
  | WPin a c => set_pin s (ainsert cmp_bytes a c (s_pin s))
  | WPinDel a => set_pin s (aremove cmp_bytes a (s_pin s))
  | WBin po id => set_bins s (ainsert N.compare po id (s_bins s))
  | WGcSize n => set_gcsize s n
  end.

(** batch.Commit(): the writes in the order they were appended *)
Definition commit (s : state) (b : list write) : state := fold_left apply_write b s.

(** ** errors and the result of a helper working on (state, batch) *)
Inductive err :=
| ENotFound          (* errors.Is(err, driver.ErrNotFound): "get value: key not found" *)
| EStorageNotFound   (* storage.ErrNotFound *)
| EInvalidMode.      (* localstore.ErrInvalidMode *)

Inductive res (A : Type) :=
| Ok (a : A) (s : state) (b : list write)
| Fail (e : err) (s : state).
Arguments Ok {A}. Arguments Fail {A}.

(** Item.Merge on one numeric field: a decoded 0 is replaced by the key item's value *)
Definition mergeN (decoded keyfield : N) : N := if decoded =? 0 then keyfield else decoded.

(** modes (storage/store.go); the numeric values are tied to the Go constants in Corr.v *)
Inductive pmode := PRequest | PUpload | PUploadPin | PRequestPin | PInvalid.
Inductive gmode := GRequest | GSync | GLookup | GPin | GInvalid.
Inductive hmode := HPin | HChunk | HInvalid.
Inductive smode := SSync | SRemove | SPin | SUnpin | SInvalid.

(** a root hash taken from the context: [None] = no root in the context
    ([boson.ZeroAddress], nil bytes); [Some []] = an empty but non-nil address *)
Definition root_bytes (r : option addr) : addr := match r with Some a => a | None => [] end.
Definition bytes_eqb (a b : list N) : bool := match cmp_bytes a b with Eq => true | _ => false end.
Definition root_is_zero (r : option addr) : bool := bytes_eqb (root_bytes r) [].
Fixpoint mem_addr (a : addr) (l : list addr) : bool :=
  match l with [] => false | x :: t => bytes_eqb a x || mem_addr a t end.

Section Store.
  Variable po : addr -> N.       (* db.po: boson.Proximity(baseKey, addr) *)
  Variable capacity : N.         (* db.capacity *)

  (** *** mode_put.go *)

  (** [incBinID]: [bins] is the lazily populated map of the call *)
  Definition inc_bin_id (s : state) (bins : list (N * N)) (p : N) : N * list (N * N) :=
    let cur := match alookup N.compare p bins with Some v => v | None => bin_get s p end in
    let id := wadd cur 1 in
    (id, ainsert N.compare p id bins).

  (** [setGC(batch, rootItem)], [rbin] = rootItem.BinID *)
  Definition set_gc_root (t : N) (s : state) (b : list write) (root : option addr) (rbin : N) : res Z :=
    match root with
    | None => Ok 0%Z s b
    | Some r =>
        let '(ats, b1) := match access_get s r with
                          | Some x => (x, b)
                          | None => (t, b ++ [WAccess r t])
                          end in
        let rb := if rbin =? 0
                  then match data_get s r with Some e => Some (d_bin e) | None => None end
                  else Some rbin in
        match rb with
        | None => Fail ENotFound s
        | Some bin =>
            let k := (ats, bin, r) in
            let c' := match gc_get s k with Some c => wadd c 1 | None => 1 end in
            Ok 1%Z s (b1 ++ [WGc k c'])
        end
    end.

  (** [setPin(batch, item, rootItem)] — REPAIRED code (fix-setpin-gcsize): the
      gcSize decrement happens only when the root's gc entry was found.  The
      GCounter decrement of a found entry with GCounter <> 1 is a DIRECT write. *)
  Definition set_pin_item (s : state) (b : list write) (a : addr) (root : option addr) (rbin : N) : res Z :=
    let pc := match pin_get s a with Some c => c | None => 0 end in
    let fin (s' : state) (b' : list write) (ch : Z) := Ok ch s' (b' ++ [WPin a (wadd pc 1)]) in
    match root with
    | None => fin s b 0%Z
    | Some r =>
        match access_get s r with
        | None => fin s b 0%Z
        | Some ats =>
            match data_get s r with
            | None => Fail ENotFound s
            | Some e =>
                let k := (ats, mergeN (d_bin e) rbin, r) in
                match gc_get s k with
                | None => fin s b 0%Z
                | Some c =>
                    if c =? 1 then fin s (b ++ [WGcDel k]) (-1)%Z
                    else fin (apply_write s (WGc k (wsub c 1))) b (-1)%Z
                end
            end
        end
    end.

  Definition chunk := (addr * bytes)%type.

  (** one iteration of the put loops; [seen] = addresses of chs[:i] *)
  Record putacc := { pa_bins : list (N * N); pa_exist : list bool; pa_change : Z; pa_seen : list addr }.

  Definition drop_change (r : res Z) : res Z :=
    match r with Ok _ s b => Ok 0%Z s b | Fail e s => Fail e s end.

  Definition put_one (t : N) (mode : pmode) (root : option addr) (s : state) (b : list write)
             (acc : putacc) (c : chunk) : res putacc :=
    let '(a, d) := c in
    let seen' := pa_seen acc ++ [a] in
    if mem_addr a (pa_seen acc)
    then Ok {| pa_bins := pa_bins acc; pa_exist := pa_exist acc ++ [true]; pa_change := pa_change acc; pa_seen := seen' |} s b
    else
      let store :=
        let '(id, bins') := inc_bin_id s (pa_bins acc) (po a) in
        (id, bins', b ++ [WData a {| d_bin := id; d_ts := t; d_data := d |}]) in
      let done (ex : bool) (bins' : list (N * N)) (r : res Z) : res putacc :=
        match r with
        | Ok ch s' b' => Ok {| pa_bins := bins'; pa_exist := pa_exist acc ++ [ex];
                               pa_change := (pa_change acc + ch)%Z; pa_seen := seen' |} s' b'
        | Fail e s' => Fail e s'
        end in
      match mode with
      | PRequest | PRequestPin =>
          if data_has s a then done true (pa_bins acc) (Ok 0%Z s b)
          else
            let '(id, bins', b1) := store in
            let rbin := if bytes_eqb a (root_bytes root) then id else 0 in
            match mode with
            | PRequestPin => done false bins' (set_pin_item s b1 a root rbin)
            | _ => done false bins' (set_gc_root t s b1 root rbin)
            end
      | PUpload =>
          if data_has s a then done true (pa_bins acc) (Ok 0%Z s b)
          else let '(id, bins', b1) := store in done false bins' (Ok 0%Z s b1)
      | PUploadPin =>
          (* [_, err = db.setPin(...)]: the gcSize change of setPin is DROPPED here *)
          if data_has s a then done true (pa_bins acc) (drop_change (set_pin_item s b a root 0))
          else let '(id, bins', b1) := store in done false bins' (drop_change (set_pin_item s b1 a root 0))
      | PInvalid => Fail EInvalidMode s
      end.

  Fixpoint put_loop (t : N) (mode : pmode) (root : option addr) (s : state) (b : list write)
           (acc : putacc) (chs : list chunk) : res putacc :=
    match chs with
    | [] => Ok acc s b
    | c :: rest =>
        match put_one t mode root s b acc c with
        | Ok acc' s' b' => put_loop t mode root s' b' acc' rest
        | Fail e s' => Fail e s'
        end
    end.

  (** [incGCSizeInBatch] + [batch.Commit]; returns the new state and whether
      [triggerGarbageCollection] was called *)
  Definition finish (s : state) (b : list write) (change : Z) : state * bool :=
    if (change =? 0)%Z then (commit s b, false)
    else
      let g := s_gcsize s in
      if (0 <? change)%Z then
        let n := wadd g (Z.to_N change) in
        (commit s (b ++ [WGcSize n]), capacity <=? n)
      else
        let c := Z.to_N (- change) in
        if g <? c then (commit s b, false)
        else let n := g - c in (commit s (b ++ [WGcSize n]), capacity <=? n).

  Definition mark_dirty (s : state) (l : list addr) : state :=
    match s_gcrun s with
    | Some _ => set_gcrun s (s_gcrun s) (s_dirty s ++ l)
    | None => s
    end.

  Inductive obs :=
  | RPut (r : err + list bool) (triggered : bool)
  | RGet (r : err + bytes)
  | RGetMulti (r : err + list bytes)
  | RHas (r : err + bool)
  | RHasMulti (r : err + list bool)
  | RSet (r : option err) (triggered : bool)
  | RGcBegin (finished : option (N * bool))
  | RGcEnd (collected : N) (done : bool)
  | RReopen
  | RBad.                         (* operation not enabled in this state (never generated) *)

  Definition pin_mode (m : pmode) : bool := match m with PUploadPin | PRequestPin => true | _ => false end.

  (** [DB.Put] *)
  Definition put (t : N) (mode : pmode) (root : option addr) (chs : list chunk) (s : state) : state * obs :=
    let fast := match chs with
                | [(a, _)] => negb (pin_mode mode) && data_has s a
                | _ => false
                end in
    if fast then (s, RPut (inr [true]) false)
    else
      let s1 := mark_dirty s (map fst chs) in
      match mode with
      | PInvalid => (s1, RPut (inl EInvalidMode) false)
      | _ =>
          match put_loop t mode root s1 [] {| pa_bins := []; pa_exist := []; pa_change := 0; pa_seen := [] |} chs with
          | Fail e s' => (s', RPut (inl e) false)
          | Ok acc s' b =>
              let b' := b ++ map (fun pi => WBin (fst pi) (snd pi)) (pa_bins acc) in
              let '(s'', trig) := finish s' b' (pa_change acc) in
              (s'', RPut (inr (pa_exist acc)) trig)
          end
      end.

  (** *** mode_set.go *)

  Definition set_sync (t : N) (s : state) (b : list write) (a : addr) : res Z :=
    match data_get s a with
    | None => Ok 0%Z s b
    | Some e =>
        let '(b1, ch1) := match access_get s a with
                          | Some ats => (b ++ [WGcDel (ats, d_bin e, a)], (-1)%Z)
                          | None => (b, 0%Z)
                          end in
        let b2 := b1 ++ [WAccess a t] in
        if pin_has s a then Ok ch1 s b2
        else Ok (ch1 + 1)%Z s (b2 ++ [WGc (t, d_bin e, a) 0])
    end.

  Definition set_remove (s : state) (b : list write) (a : addr) (root : option addr) : res Z :=
    match data_get s a with
    | None => Fail ENotFound s
    | Some _ =>
        let cont (b1 : list write) : res Z :=
          let b2 := b1 ++ [WDataDel a; WAccessDel a] in
          let r := root_bytes root in
          match access_get s r with
          | None => Ok 0%Z s b2
          | Some rats =>
              match data_get s r with
              | None => Fail ENotFound s
              | Some re =>
                  let k := (rats, d_bin re, r) in
                  match gc_get s k with
                  | None => Ok 0%Z s b2
                  | Some c =>
                      if 1 <? c then Ok (-1)%Z s (b2 ++ [WGc k (c - 1)])
                      else Ok (-1)%Z s (b2 ++ [WAccessDel r; WGcDel k])
                  end
              end
          end in
        match pin_get s a with
        | Some pc =>
            let pc' := wsub pc 1 in
            if 0 <? pc' then Ok 0%Z s (b ++ [WPin a pc'])
            else cont (b ++ [WPinDel a])
        | None => cont b
        end
    end.

  Definition set_unpin (t : N) (s : state) (b : list write) (a : addr) (root : option addr) : res Z :=
    match pin_get s a with
    | None => Fail ENotFound s
    | Some pc =>
        if 1 <? pc then Ok 0%Z s (b ++ [WPin a (pc - 1)])
        else
          let b1 := b ++ [WPinDel a] in
          match root with
          | None => Ok 0%Z s b1
          | Some r =>
              let '(rats, b2) := match access_get s r with
                                 | Some x => (x, b1)
                                 | None => (t, b1 ++ [WAccess r t])
                                 end in
              match data_get s r with
              | None => Fail ENotFound s
              | Some re =>
                  let k := (rats, d_bin re, r) in
                  let c' := match gc_get s k with Some c => wadd c 1 | None => 1 end in
                  Ok 1%Z s (b2 ++ [WGc k c'])
              end
          end
    end.

  Definition set_one (t : N) (mode : smode) (root : option addr) (s : state) (b : list write) (a : addr) : res Z :=
    match mode with
    | SSync => set_sync t s b a
    | SRemove => set_remove s b a root
    | SPin => if data_has s a then set_pin_item s b a root 0 else Fail EStorageNotFound s
    | SUnpin => set_unpin t s b a root
    | SInvalid => Fail EInvalidMode s
    end.

  Fixpoint set_loop (t : N) (mode : smode) (root : option addr) (s : state) (b : list write) (change : Z)
           (addrs : list addr) : res Z :=
    match addrs with
    | [] => Ok change s b
    | a :: rest =>
        match set_one t mode root s b a with
        | Ok ch s' b' => set_loop t mode root s' b' (change + ch)%Z rest
        | Fail e s' => Fail e s'
        end
    end.

  (** [DB.Set] *)
  Definition set (t : N) (mode : smode) (root : option addr) (addrs : list addr) (s : state) : state * obs :=
    let s1 := mark_dirty s addrs in
    match mode with
    | SInvalid => (s1, RSet (Some EInvalidMode) false)
    | _ =>
        match set_loop t mode root s1 [] 0%Z addrs with
        | Fail e s' => (s', RSet (Some e) false)
        | Ok ch s' b => let '(s'', trig) := finish s' b ch in (s'', RSet None trig)
        end
    end.

  (** *** mode_get.go *)

  (** [updateGC(item)]; [bin0] = item.BinID (0 for an item made from a bare address) *)
  Definition update_gc (t : N) (a : addr) (bin0 : N) (s : state) : state :=
    let s1 := mark_dirty s [a] in
    let ats := match access_get s1 a with Some x => x | None => 0 end in
    if ats =? 0 then s1
    else
      let ob := if bin0 =? 0
                then match data_get s1 a with Some e => Some (d_bin e) | None => None end
                else Some bin0 in
      match ob with
      | None => s1            (* DeleteInBatch on a batch that is never committed *)
      | Some bin =>
          let k := (ats, bin, a) in
          match gc_get s1 k with
          | None => s1
          | Some c => commit s1 [WGcDel k; WGc (t, bin, a) c; WAccess a t]
          end
      end.

  (** [DB.Get] (the updateGC goroutine is awaited: [VerifWaitUpdateGC]) *)
  Definition get (t : N) (mode : gmode) (root : option addr) (a : addr) (s : state) : state * obs :=
    match data_get s a with
    | None => (s, RGet (inl EStorageNotFound))
    | Some e =>
        match mode with
        | GRequest =>
            let s' := if root_is_zero root then update_gc t a (d_bin e) s
                      else update_gc t (root_bytes root) 0 s in
            (s', RGet (inr (d_data e)))
        | GPin =>
            match pin_get s a with
            | None => (s, RGet (inl EStorageNotFound))
            | Some _ => (s, RGet (inr []))       (* the pin item carries no data *)
            end
        | GSync | GLookup => (s, RGet (inr (d_data e)))
        | GInvalid => (s, RGet (inl EInvalidMode))
        end
    end.

  Fixpoint fill_data (s : state) (addrs : list addr) : option (list (addr * dentry)) :=
    match addrs with
    | [] => Some []
    | a :: rest =>
        match data_get s a, fill_data s rest with
        | Some e, Some l => Some ((a, e) :: l)
        | _, _ => None
        end
    end.

  (** [DB.GetMulti] *)
  Definition get_multi (t : N) (mode : gmode) (addrs : list addr) (s : state) : state * obs :=
    match fill_data s addrs with
    | None => (s, RGetMulti (inl EStorageNotFound))
    | Some items =>
        let datas := map (fun ae => d_data (snd ae)) items in
        match mode with
        | GRequest =>
            (fold_left (fun st ae => update_gc t (fst ae) (d_bin (snd ae)) st) items s, RGetMulti (inr datas))
        | GPin =>
            if forallb (pin_has s) addrs then (s, RGetMulti (inr datas))
            else (s, RGetMulti (inl EStorageNotFound))
        | GSync | GLookup => (s, RGetMulti (inr datas))
        | GInvalid => (s, RGetMulti (inl EInvalidMode))
        end
    end.

  (** *** mode_has.go *)
  Definition has (mode : hmode) (a : addr) (s : state) : obs :=
    match mode with
    | HPin => RHas (inr (pin_has s a))
    | HChunk => RHas (inr (data_has s a))
    | HInvalid => RHas (inl EInvalidMode)
    end.
  Definition has_multi (mode : hmode) (addrs : list addr) (s : state) : obs :=
    match mode with
    | HPin => RHasMulti (inr (map (pin_has s) addrs))
    | _ => RHasMulti (inr (map (data_has s) addrs))
    end.

  (** *** gc.go *)

  (** the candidate iteration of [collectGarbage] over the gc index in key order *)
  Fixpoint gc_select (gcsize target batchsz : N) (items : list (gckey * N)) (collected : N)
    : list (gckey * N) :=
    match items with
    | [] => []
    | (k, c) :: rest =>
        if wsub gcsize collected <=? target then []
        else
          let collected' := wadd collected c in
          if batchsz <=? collected' then [(k, c)]
          else (k, c) :: gc_select gcsize target batchsz rest collected'
    end.

  (** first phase: up to [testHookGCIteratorDone] *)
  Definition gc_begin (target batchsz : N) (s : state) : state * obs :=
    match s_gcrun s with
    | Some _ => (s, RBad)
    | None =>
        if s_gcsize s <=? target then (s, RGcBegin (Some (0, true)))
        else
          let cands := gc_select (s_gcsize s) target batchsz (s_gc s) 0 in
          (set_gcrun s (Some {| g_cands := cands; g_target := target |}) [], RGcBegin None)
    end.

  (** the chunkinfo oracle: per root, [None] = DelFile answers storage.ErrNotFound,
      [Some l] = the (cid, number) list of GetChunkPyramid *)
  Definition pyramids := list (addr * list (addr * N)).

  (** the loop over the pyramid inside the DelFile callback; pinIndex.Put is a direct write *)
  Fixpoint gc_chunks (s : state) (b : list write) (cnt : N) (l : list (addr * N)) : state * list write * N :=
    match l with
    | [] => (s, b, cnt)
    | (cid, num) :: rest =>
        match pin_get s cid with
        | Some pc =>
            if num <? pc then gc_chunks (apply_write s (WPin cid (pc - num))) b cnt rest
            else
              let b1 := b ++ [WPinDel cid] in
              if data_has s cid then gc_chunks s (b1 ++ [WDataDel cid]) (wadd cnt 1) rest
              else gc_chunks s b1 cnt rest
        | None =>
            if data_has s cid then gc_chunks s (b ++ [WDataDel cid]) (wadd cnt 1) rest
            else gc_chunks s b cnt rest
        end
    end.

  Fixpoint gc_evict (s : state) (b : list write) (cnt : N) (pyr : pyramids) (cands recycled : list (gckey * N))
    : state * list write * N * list (gckey * N) :=
    match cands with
    | [] => (s, b, cnt, recycled)
    | (k, c) :: rest =>
        let a := snd k in
        match alookup cmp_bytes a pyr with
        | None => gc_evict s b cnt pyr rest recycled                 (* storage.ErrNotFound *)
        | Some chunks =>
            if mem_addr a (s_dirty s) then gc_evict s b cnt pyr rest recycled   (* dirtyGarbageNoHandle *)
            else
              let '(s', b', n) := gc_chunks s b 0 chunks in
              gc_evict s' b' (wadd cnt n) (aremove cmp_bytes a pyr) rest (recycled ++ [(k, c)])
        end
    end.

  (** second phase: eviction, gcSize rewrite, commit *)
  Definition gc_end (pyr : pyramids) (s : state) : state * obs :=
    match s_gcrun s with
    | None => (s, RBad)
    | Some ctx =>
        let '(s1, b1, cnt, recycled) := gc_evict s [] 0 pyr (g_cands ctx) [] in
        let g := s_gcsize s1 in
        let b2 := b1 ++ flat_map (fun kc => [WDataDel (snd (fst kc)); WAccessDel (snd (fst kc)); WGcDel (fst kc)]) recycled in
        let cnt1 := wadd cnt (N.of_nat (length recycled)) in
        let cnt2 := match recycled with [] => g | _ => cnt1 end in
        let cur := if cnt2 <=? g then g - cnt2 else 0 in
        let done := negb (g_target ctx <? cur) in
        let s2 := commit s1 (b2 ++ [WGcSize cur]) in
        (set_gcrun s2 None [], RGcEnd cnt2 done)
    end.

  (** *** localstore.New on an existing database: the start-up repair of gcSize *)
  Definition gc_sum (m : list (gckey * N)) : N := fold_right (fun kc acc => snd kc + acc) 0 m.
  Definition gc_sum64 (m : list (gckey * N)) : N := fold_left (fun acc kc => wadd acc (snd kc)) m 0.
  Definition reopen (s : state) : state * obs :=
    let cur := gc_sum64 (s_gc s) in
    let s1 := if s_gcsize s <? cur then set_gcsize s cur else s in
    (set_gcrun s1 None [], RReopen).

  (** *** operations and histories *)
  Inductive op :=
  | OPut (t : N) (mode : pmode) (root : option addr) (chs : list chunk)
  | OGet (t : N) (mode : gmode) (root : option addr) (a : addr)
  | OGetMulti (t : N) (mode : gmode) (addrs : list addr)
  | OHas (mode : hmode) (a : addr)
  | OHasMulti (mode : hmode) (addrs : list addr)
  | OSet (t : N) (mode : smode) (root : option addr) (addrs : list addr)
  | OGcBegin (target batchsz : N)
  | OGcEnd (pyr : pyramids)
  | OReopen.

  Definition step (s : state) (o : op) : state * obs :=
    match o with
    | OPut t m r chs => put t m r chs s
    | OGet t m r a => get t m r a s
    | OGetMulti t m addrs => get_multi t m addrs s
    | OHas m a => (s, has m a s)
    | OHasMulti m addrs => (s, has_multi m addrs s)
    | OSet t m r addrs => set t m r addrs s
    | OGcBegin target bs => gc_begin target bs s
    | OGcEnd pyr => gc_end pyr s
    | OReopen => reopen s
    end.

  (** run a history, collecting the observations *)
  Fixpoint run (s : state) (h : list op) : state * list obs :=
    match h with
    | [] => (s, [])
    | o :: rest =>
        let '(s1, r) := step s o in
        let '(s2, rs) := run s1 rest in
        (s2, r :: rs)
    end.
  Definition exec (s : state) (h : list op) : state := fst (run s h).
End Store.
