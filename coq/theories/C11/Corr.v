(** C11 (shared with C13) — correspondence: the harness runs a history on the
    real [localstore.DB] (in-memory or on-disk leveldb, clock pinned through
    [VerifSetNow], background collection worker stopped) and records, after
    every operation, what the call returned and the canonical dump of all
    indexes ([DB.VerifDump]).  [check_case] replays the history on the model
    and compares observation and full state after EVERY step.

    Cases are compact: addresses are indexes into the case's address
    universe [univ]. *)
From Coq Require Import List NArith ZArith Bool.
Import ListNotations.
Require Import Aurora.Base.Corr Aurora.Consts Aurora.C20.Model Aurora.C11.Model.
Local Open Scope N_scope.

Definition MaxPO : N := Z.to_N Consts.boson_MaxPO.

(** [db.po]: boson.Proximity(baseKey, addr) — the C20 model *)
Definition po_of (base : list N) (a : addr) : N :=
  match proximity_gen false MaxPO base a with Ret n => n | Panic => 9999 end.

(** mode numbers of pkg/storage/store.go, re-read from the Go source on every run *)
Definition zN (z : Z) : N := Z.to_N z.
Definition pmode_of (m : N) : pmode :=
  if m =? zN Consts.storage_ModePutRequest then PRequest
  else if m =? zN Consts.storage_ModePutUpload then PUpload
  else if m =? zN Consts.storage_ModePutUploadPin then PUploadPin
  else if m =? zN Consts.storage_ModePutRequestPin then PRequestPin
  else PInvalid.
Definition gmode_of (m : N) : gmode :=
  if m =? zN Consts.storage_ModeGetRequest then GRequest
  else if m =? zN Consts.storage_ModeGetSync then GSync
  else if m =? zN Consts.storage_ModeGetLookup then GLookup
  else if m =? zN Consts.storage_ModeGetPin then GPin
  else GInvalid.
Definition hmode_of (m : N) : hmode :=
  if m =? zN Consts.storage_ModeHasPin then HPin
  else if m =? zN Consts.storage_ModeHasChunk then HChunk
  else HInvalid.
Definition smode_of (m : N) : smode :=
  if m =? zN Consts.storage_ModeSetSync then SSync
  else if m =? zN Consts.storage_ModeSetRemove then SRemove
  else if m =? zN Consts.storage_ModeSetPin then SPin
  else if m =? zN Consts.storage_ModeSetUnpin then SUnpin
  else SInvalid.

(** The cases are written with MONOMORPHIC list types (no implicit arguments:
    a history of 40 steps with full dumps type-checks in milliseconds). *)
Inductive nl := E | C (a : N) (t : nl).                       (* list of numbers / bytes / booleans (0,1) *)
Inductive rows :=
| RE
| R2 (a b : N) (t : rows)                                     (* (key, value) *)
| R4 (a b c d : N) (t : rows)                                 (* gc entry: ts bin addr gcounter *)
| RD (a bin ts : N) (d : nl) (t : rows)                       (* data entry *)
| RB (a : N) (d : nl) (t : rows)                              (* chunk: addr, bytes *)
| RP (root : N) (chunks : rows) (t : rows).                   (* pyramid: root, R2 (cid, number) rows *)
Inductive oroot := NoRoot | Root (i : N).
Inductive orows := Same | Now (r : rows).                     (* index unchanged since the previous dump / new content *)

Fixpoint nl_list (l : nl) : list N := match l with E => [] | C a t => a :: nl_list t end.
Definition nl_bools (l : nl) : list bool := map (fun x => negb (x =? 0)) (nl_list l).

(** compact operations: [N] = index into [univ] *)
Inductive cop :=
| KPut (t mode : N) (root : oroot) (chs : rows)
| KGet (t mode : N) (root : oroot) (a : N)
| KGetMulti (t mode : N) (addrs : nl)
| KHas (mode a : N)
| KHasMulti (mode : N) (addrs : nl)
| KSet (t mode : N) (root : oroot) (addrs : nl)
| KGcBegin (target batchsz : N)
| KGcEnd (pyr : rows)
| KReopen.

(** observed results. error classes: 1 driver.ErrNotFound, 2 storage.ErrNotFound,
    3 ErrInvalidMode, other numbers = anything else *)
Inductive cobs :=
| QPut (e : N) (exist : nl) (trig : bool)
| QGet (e : N) (d : nl)
| QGetMulti (e : N) (ds : rows)            (* RB 0 bytes rows *)
| QHas (e : N) (b : bool)
| QHasMulti (e : N) (bs : nl)
| QSet (e : N) (trig : bool)
| QGcBegin (started : bool)
| QGcEnd (collected : N) (done : bool)
| QReopen.

(** observed dump; addresses as universe indexes; [Same] = as in the previous dump of the history *)
Inductive cdump := D (data access gc pin bins : orows) (gcsize : N) (running : bool) (dirty : nl).

Inductive steps := SE | SC (o : cop) (q : cobs) (d : cdump) (t : steps).
Inductive univs := UE | UC (a : nl) (t : univs).
Inductive case := CHist (base : nl) (cap : N) (univ : univs) (st : steps).

Fixpoint univ_list (u : univs) : list addr := match u with UE => [] | UC a t => nl_list a :: univ_list t end.

Section Tr.
  Variable univ : list addr.
  (** an index outside the universe cannot be produced by the harness; it maps
      to an address that no universe contains so that the comparison fails *)
  Definition A (i : N) : addr := nth (N.to_nat i) univ [999999].
  Definition R (r : oroot) : option addr := match r with NoRoot => None | Root i => Some (A i) end.
  Fixpoint r_chunks (r : rows) : list chunk :=
    match r with RB a d t => (A a, nl_list d) :: r_chunks t | _ => [] end.
  Fixpoint r_pairs (r : rows) : list (N * N) :=
    match r with R2 a b t => (a, b) :: r_pairs t | _ => [] end.
  Fixpoint r_pyr (r : rows) : pyramids :=
    match r with
    | RP root ch t => (A root, map (fun cn => (A (fst cn), snd cn)) (r_pairs ch)) :: r_pyr t
    | _ => []
    end.
  Definition tr_op (o : cop) : op :=
    match o with
    | KPut t m r chs => OPut t (pmode_of m) (R r) (r_chunks chs)
    | KGet t m r a => OGet t (gmode_of m) (R r) (A a)
    | KGetMulti t m l => OGetMulti t (gmode_of m) (map A (nl_list l))
    | KHas m a => OHas (hmode_of m) (A a)
    | KHasMulti m l => OHasMulti (hmode_of m) (map A (nl_list l))
    | KSet t m r l => OSet t (smode_of m) (R r) (map A (nl_list l))
    | KGcBegin tg bs => OGcBegin tg bs
    | KGcEnd pyr => OGcEnd (r_pyr pyr)
    | KReopen => OReopen
    end.
  Fixpoint r_data (r : rows) : list (addr * dentry) :=
    match r with RD a b t d rest => (A a, {| d_bin := b; d_ts := t; d_data := nl_list d |}) :: r_data rest | _ => [] end.
  Fixpoint r_amap (r : rows) : list (addr * N) :=
    match r with R2 a b t => (A a, b) :: r_amap t | _ => [] end.
  Fixpoint r_gc (r : rows) : list (gckey * N) :=
    match r with R4 t b a c rest => ((t, b, A a), c) :: r_gc rest | _ => [] end.
  (** the observed state after a step, given the observed state before it *)
  Definition tr_dump (prev : state) (d : cdump) : state :=
    match d with
    | D da ac gc pi bi gs run dirty =>
      {| s_data := match da with Same => s_data prev | Now r => r_data r end;
         s_access := match ac with Same => s_access prev | Now r => r_amap r end;
         s_gc := match gc with Same => s_gc prev | Now r => r_gc r end;
         s_pin := match pi with Same => s_pin prev | Now r => r_amap r end;
         s_bins := match bi with Same => s_bins prev | Now r => r_pairs r end;
         s_gcsize := gs;
         s_gcrun := if run then Some {| g_cands := []; g_target := 0 |} else None;
         s_dirty := map A (nl_list dirty) |}
    end.
End Tr.

Definition err_code (e : err) : N :=
  match e with ENotFound => 1 | EStorageNotFound => 2 | EInvalidMode => 3 end.

(** model observation and observed result in one comparable vocabulary *)
Inductive vobs :=
| VPut (e : N) (ex : list bool) (tg : bool)
| VGet (e : N) (d : bytes)
| VGetMulti (e : N) (ds : list bytes)
| VHas (e : N) (b : bool)
| VHasMulti (e : N) (bs : list bool)
| VSet (e : N) (tg : bool)
| VGcBegin (started : bool)
| VGcEnd (c : N) (d : bool)
| VReopen
| VBad.
Definition v_model (r : obs) : vobs :=
  match r with
  | RPut (inl e) tg => VPut (err_code e) [] tg
  | RPut (inr ex) tg => VPut 0 ex tg
  | RGet (inl e) => VGet (err_code e) []
  | RGet (inr d) => VGet 0 d
  | RGetMulti (inl e) => VGetMulti (err_code e) []
  | RGetMulti (inr ds) => VGetMulti 0 ds
  | RHas (inl e) => VHas (err_code e) false
  | RHas (inr b) => VHas 0 b
  | RHasMulti (inl e) => VHasMulti (err_code e) []
  | RHasMulti (inr bs) => VHasMulti 0 bs
  | RSet (Some e) tg => VSet (err_code e) tg
  | RSet None tg => VSet 0 tg
  | RGcBegin None => VGcBegin true
  | RGcBegin (Some _) => VGcBegin false
  | RGcEnd c d => VGcEnd c d
  | RReopen => VReopen
  | RBad => VBad
  end.
Fixpoint r_bytes (r : rows) : list bytes := match r with RB _ d t => nl_list d :: r_bytes t | _ => [] end.
Definition v_obs (q : cobs) : vobs :=
  match q with
  | QPut e ex tg => VPut e (nl_bools ex) tg
  | QGet e d => VGet e (nl_list d)
  | QGetMulti e ds => VGetMulti e (r_bytes ds)
  | QHas e b => VHas e b
  | QHasMulti e bs => VHasMulti e (nl_bools bs)
  | QSet e tg => VSet e tg
  | QGcBegin b => VGcBegin b
  | QGcEnd c d => VGcEnd c d
  | QReopen => VReopen
  end.

Definition bool_eqb (a b : bool) : bool := Bool.eqb a b.
Definition abytes_eqb := Aurora.Base.Corr.bytes_eqb.
Definition vobs_eqb (x y : vobs) : bool :=
  match x, y with
  | VPut e1 l1 t1, VPut e2 l2 t2 => (e1 =? e2) && list_eqb bool_eqb l1 l2 && bool_eqb t1 t2
  | VGet e1 d1, VGet e2 d2 => (e1 =? e2) && abytes_eqb d1 d2
  | VGetMulti e1 d1, VGetMulti e2 d2 => (e1 =? e2) && list_eqb abytes_eqb d1 d2
  | VHas e1 b1, VHas e2 b2 => (e1 =? e2) && bool_eqb b1 b2
  | VHasMulti e1 b1, VHasMulti e2 b2 => (e1 =? e2) && list_eqb bool_eqb b1 b2
  | VSet e1 t1, VSet e2 t2 => (e1 =? e2) && bool_eqb t1 t2
  | VGcBegin a, VGcBegin b => bool_eqb a b
  | VGcEnd c1 d1, VGcEnd c2 d2 => (c1 =? c2) && bool_eqb d1 d2
  | VReopen, VReopen => true
  | _, _ => false
  end.

Definition dentry_eqb (x y : dentry) : bool :=
  (d_bin x =? d_bin y) && (d_ts x =? d_ts y) && Aurora.Base.Corr.bytes_eqb (d_data x) (d_data y).
Definition gckey_eqb (x y : gckey) : bool :=
  let '(t1, b1, a1) := x in let '(t2, b2, a2) := y in (t1 =? t2) && (b1 =? b2) && Aurora.Base.Corr.bytes_eqb a1 a2.

(** full-state comparison (the gc context of a running collection is compared
    only as "running or not"; its candidates are not observable) *)
Definition state_eqb (m o : state) : bool :=
  list_eqb (pair_eqb abytes_eqb dentry_eqb) (s_data m) (s_data o)
  && list_eqb (pair_eqb abytes_eqb N.eqb) (s_access m) (s_access o)
  && list_eqb (pair_eqb gckey_eqb N.eqb) (s_gc m) (s_gc o)
  && list_eqb (pair_eqb abytes_eqb N.eqb) (s_pin m) (s_pin o)
  && list_eqb (pair_eqb N.eqb N.eqb) (s_bins m) (s_bins o)
  && (s_gcsize m =? s_gcsize o)
  && bool_eqb (match s_gcrun m with Some _ => true | None => false end)
              (match s_gcrun o with Some _ => true | None => false end)
  && list_eqb abytes_eqb (s_dirty m) (s_dirty o).

(** index of the first step on which model and implementation disagree.
    [s] = model state, [o] = observed state (they are equal as long as no
    mismatch was found, but [Same] refers to the OBSERVED one) *)
Fixpoint first_bad (po : addr -> N) (cap : N) (univ : list addr) (s ob : state)
         (st : steps) (i : N) : option (N * vobs * state) :=
  match st with
  | SE => None
  | SC o q d rest =>
      let '(s', r) := step po cap s (tr_op univ o) in
      let ob' := tr_dump univ ob d in
      if vobs_eqb (v_model r) (v_obs q) && state_eqb s' ob'
      then first_bad po cap univ s' ob' rest (i + 1)
      else Some (i, v_model r, s')
  end.

Definition run_case (c : case) :=
  match c with
  | CHist base cap univ st => first_bad (po_of (nl_list base)) cap (univ_list univ) init init st 0
  end.
Definition check_case (c : case) : bool := match run_case c with None => true | Some _ => false end.
(** on a mismatch: (step index, model's observation, model's state after that step) *)
Definition explain_case (c : case) := run_case c.
