(** C11 — property theorems only.  The store model is Model.v (pkg/localstore,
    every put/get/has/set mode, batch semantics), the reference machine of the
    property is Spec.v. *)
From Coq Require Import List NArith ZArith Bool.
Import ListNotations.
Require Import Aurora.Consts Aurora.C11.Model Aurora.C11.Spec Aurora.C11.ProofsRefine Aurora.C11.ProofsBatch Aurora.C11.Conc.
Local Open Scope N_scope.

(** the mode numbers the model's constructors stand for are the Go constants
    (the correspondence decodes them through these), re-checked on every run *)
Lemma consts_ok_C11 :
  (Consts.storage_ModePutRequest =? 0)%Z && (Consts.storage_ModePutUpload =? 1)%Z &&
  (Consts.storage_ModePutUploadPin =? 2)%Z && (Consts.storage_ModePutRequestPin =? 3)%Z &&
  (Consts.storage_ModeGetRequest =? 0)%Z && (Consts.storage_ModeGetSync =? 1)%Z &&
  (Consts.storage_ModeGetLookup =? 2)%Z && (Consts.storage_ModeGetPin =? 3)%Z &&
  (Consts.storage_ModeHasPin =? 0)%Z && (Consts.storage_ModeHasChunk =? 1)%Z &&
  (Consts.storage_ModeSetSync =? 0)%Z && (Consts.storage_ModeSetRemove =? 1)%Z &&
  (Consts.storage_ModeSetPin =? 2)%Z && (Consts.storage_ModeSetUnpin =? 3)%Z = true.
Proof. vm_compute. reflexivity. Qed.

(** For every proximity function, capacity and history of puts (every mode,
    single or batched, with or without a file context), gets, multi-gets, has,
    has-multi, sets (sync/remove/pin/unpin) and reopen — no collection run —
    started on the empty store: the stored bytes and pin counters of the final
    state are those of the reference machine, and every observation (exists
    flags, returned bytes, found / not found, has answers) is the reference
    machine's, which is told only WHETHER each put/set call failed. *)
Theorem C11_refines_map : forall (po : addr -> N) (capacity : N) (h : list op),
  forallb (fun o => negb (is_gc_op o)) h = true ->
  let '(s, os) := run po capacity init h in
  let '(sp, vs) := spec_run spec_init h (map obs_ok os) in
  abs s = sp /\ map c11_view os = vs.
Proof. intros po capacity h. exact (run_refines po capacity h init). Qed.
Print Assumptions C11_refines_map.

(** the same from ANY state (e.g. one left behind by collection runs) *)
Theorem C11_refines_map_from : forall (po : addr -> N) (capacity : N) (s0 : state) (h : list op),
  forallb (fun o => negb (is_gc_op o)) h = true ->
  let '(s, os) := run po capacity s0 h in
  let '(sp, vs) := spec_run (abs s0) h (map obs_ok os) in
  abs s = sp /\ map c11_view os = vs.
Proof. intros po capacity s0 h. exact (run_refines po capacity h s0). Qed.
Print Assumptions C11_refines_map_from.

(** "putting several chunks in one call has the same effect as putting them
    one at a time" is FALSE for the code, in three ways *)
Theorem C11_batch_equals_sequence_refuted :
  (exists po cap s t root chs, ~ batch_eq_seq po cap s t PRequest (Some root) chs /\
      fst (put po cap t PRequest (Some root) chs s) = s) /\                      (* the batch fails, the singles succeed *)
  (exists po cap h t root chs, ~ batch_eq_seq po cap (exec po cap init h) t PRequest (Some root) chs) /\
  (exists po cap t chs, ~ batch_eq_seq po cap init t PUploadPin None chs).
Proof.
  split; [|split].
  - exists po0, 1000, init, 10, rootR, [(rootR, [7]); (c1, [8])]. split; [exact refuted_context_failure | reflexivity].
  - exists po0, 1000, [OPut 5 PRequest (Some rootR) [(rootR, [7])]], 10, rootR, [(c1, [8]); (c2, [9])].
    exact refuted_context_accounting.
  - exists po0, 1000, 10, [(c1, [8]); (c1, [8])]. exact refuted_uploadpin_duplicate.
Qed.
Print Assumptions C11_batch_equals_sequence_refuted.

(** what does hold, from every state: whenever the batch and the single calls
    all succeed, they return the same flags and leave the same stored bytes
    and pin counters — except a pinned upload that repeats an address inside
    the call.  (Excluded, and witnessed above: failure of a batch under a file
    context; gc-index/gcSize bookkeeping of a batch under a context.) *)
Theorem C11_batch_equals_sequence_partial :
  forall po cap s t mode root chs,
  (mode <> PUploadPin \/ NoDup (map fst chs)) ->
  let '(sb, rb) := put po cap t mode root chs s in
  let '(ss, rs) := run po cap s (singles t mode root chs) in
  obs_ok rb = true -> forallb obs_ok rs = true ->
  abs sb = abs ss /\ flags_of rb = all_flags rs.
Proof. exact batch_seq_content. Qed.
Print Assumptions C11_batch_equals_sequence_partial.

(** CONCURRENCY (interleaving model Conc.v; histories above are sequences of
    atomic calls).  n concurrent single-chunk Puts (non-pin modes) of one new
    address; a call = lock-free pre-check, then the region under batchMu with
    its own Has check.  For ALL schedules: [PI] (at most one write, bin counter
    moved accordingly) and, once every call has returned, exactly one call
    reported exist=false, the address was written once, by that call, with the
    bin id the counter shows. *)
Theorem C11_concurrent_puts_one_winner : forall (b0 : N) (n : nat) (sched : list nat),
  let st := p_run false (p_init b0 n) sched in
  PI b0 st /\
  (all_done (snd st) -> (0 < n)%nat ->
   exists w, p_entry (fst st) = Some (b0 + 1, w) /\ p_bin (fst st) = b0 + 1 /\ p_stores (fst st) = 1 /\
             only_false (snd st) w).
Proof. exact concurrent_puts_one_winner. Qed.
Print Assumptions C11_concurrent_puts_one_winner.

(** seeded change C11-3 (pre-check result reused under the lock): schedule
    [0;1;0;1] of two calls — both report exist=false, two writes, counter +2 *)
Theorem C11_concurrent_puts_seeded_refuted :
  let st := p_run true (p_init 7 2) [0; 1; 0; 1]%nat in
  all_done (snd st) /\ snd st = [PDone false; PDone false] /\ p_stores (fst st) = 2 /\ p_bin (fst st) = 9.
Proof. exact concurrent_puts_seeded_refuted. Qed.
Print Assumptions C11_concurrent_puts_seeded_refuted.

(** non-vacuity: a history with batched and single puts in three modes, a
    repeated address, a removal that only unpins and one that removes *)
Example C11_example :
  let a := [1;1] in let b := [1;2] in let c := [2;7] in
  let h := [OPut 10 PUploadPin None [(a, [5]); (b, [6]); (a, [9])];
            OPut 11 PRequest (Some c) [(c, [7])];
            OPut 12 PRequest (Some c) [(a, [8])];
            OSet 13 SPin None [a];
            OSet 14 SRemove None [a];
            OGet 15 GLookup None a;
            OSet 16 SRemove None [a];
            OGet 17 GRequest (Some c) a;
            OHasMulti HChunk [a; b; c]] in
  forallb (fun o => negb (is_gc_op o)) h = true /\
  map c11_view (snd (run po0 1000 init h)) =
    [VExist [false; false; true]; VExist [false]; VExist [true]; VOk; VOk; VData (inr [5]); VOk;
     VData (inl EStorageNotFound); VBools (inr [false; true; true])].
Proof. vm_compute. split; reflexivity. Qed.
