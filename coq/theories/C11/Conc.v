(** C11 — interleaving model of concurrent single-chunk Puts of ONE new
    address (mode_put.go [put], non-pin modes), and of the seeded variant that
    reuses the lock-free pre-check under the lock.

    Granularity (DESIGN.md section 4): one atomic action per lock-protected
    region.  A call is two actions:
      1. the lock-free pre-check [retrievalDataIndex.Has] before batchMu is
         taken — present: return exist=true; missing: go on;
      2. the region under batchMu: at HEAD the authoritative Has check of
         putRequest/putUpload, then (if still missing) incBinID + the data
         write + commit.  What that region does sequentially is [Model.put];
         here only what the race is about is kept: the data-index entry of the
         address (bin id, writer), the bin counter, the number of data writes.
    A schedule is a list of thread ids; theorems quantify over ALL schedules. *)
From Coq Require Import List NArith Bool Lia Arith.
Import ListNotations.
Local Open Scope N_scope.

Fixpoint upd {A} (i : nat) (x : A) (l : list A) : list A :=
  match l, i with
  | [], _ => []
  | _ :: t, O => x :: t
  | h :: t, S j => h :: upd j x t
  end.
Lemma upd_length {A} i (x : A) l : length (upd i x l) = length l.
Proof. revert i; induction l as [|h t IH]; intros [|i]; simpl; auto. Qed.
Lemma nth_error_upd_same {A} i (x : A) l y : nth_error l i = Some y -> nth_error (upd i x l) i = Some x.
Proof. revert i; induction l as [|h t IH]; intros [|i]; simpl; try discriminate; auto. Qed.
Lemma nth_error_upd_other {A} i j (x : A) l : i <> j -> nth_error (upd i x l) j = nth_error l j.
Proof. revert i j; induction l as [|h t IH]; intros [|i] [|j] H; simpl; auto; try contradiction. Qed.

Inductive pth := PStart | PChecked (missing : bool) | PDone (exist : bool).
(** shared: data-index entry of the address (bin id, index of the writing call),
    binIDs[po], number of data-index writes for the address *)
Record psh := { p_entry : option (N * nat); p_bin : N; p_stores : N }.

Definition p_store (i : nat) (sh : psh) : psh :=
  {| p_entry := Some (p_bin sh + 1, i); p_bin := p_bin sh + 1; p_stores := p_stores sh + 1 |}.

(** [seeded = false]: the code at HEAD; [seeded = true]: seeded change C11-3 *)
Definition p_act (seeded : bool) (i : nat) (sh : psh) (th : pth) : psh * pth :=
  match th with
  | PStart => match p_entry sh with Some _ => (sh, PDone true) | None => (sh, PChecked true) end
  | PChecked missing =>
      if seeded && missing then (p_store i sh, PDone false)
      else match p_entry sh with Some _ => (sh, PDone true) | None => (p_store i sh, PDone false) end
  | PDone e => (sh, PDone e)
  end.
Definition p_step (seeded : bool) (st : psh * list pth) (i : nat) : psh * list pth :=
  match nth_error (snd st) i with
  | Some (PDone _) | None => st
  | Some th => let '(sh', th') := p_act seeded i (fst st) th in (sh', upd i th' (snd st))
  end.
Definition p_run (seeded : bool) (st : psh * list pth) (sched : list nat) : psh * list pth :=
  fold_left (p_step seeded) sched st.
Definition p_init (b0 : N) (n : nat) : psh * list pth :=
  ({| p_entry := None; p_bin := b0; p_stores := 0 |}, repeat PStart n).

(** call [w] is the only one that reported exist=false *)
Definition only_false (ths : list pth) (w : nat) : Prop :=
  nth_error ths w = Some (PDone false) /\ forall j, j <> w -> nth_error ths j <> Some (PDone false).
Definition all_done (ths : list pth) : Prop := forall j th, nth_error ths j = Some th -> exists e, th = PDone e.

Definition PI (b0 : N) (st : psh * list pth) : Prop :=
  match p_entry (fst st) with
  | None => p_stores (fst st) = 0 /\ p_bin (fst st) = b0 /\ forall j e, nth_error (snd st) j <> Some (PDone e)
  | Some (bn, w) => p_stores (fst st) = 1 /\ bn = b0 + 1 /\ p_bin (fst st) = b0 + 1 /\ only_false (snd st) w
  end.

Lemma PI_step b0 st i : PI b0 st -> PI b0 (p_step false st i).
Proof.
  destruct st as [sh ths]. unfold PI, p_step. simpl. intros H.
  destruct (nth_error ths i) as [th|] eqn:Ei; [|exact H].
  destruct th as [|m|e]; [| |exact H]; unfold p_act; simpl.
  - (* pre-check *)
    destruct (p_entry sh) as [[bn w]|] eqn:Ee; simpl; rewrite Ee.
    + destruct H as (H1 & H2 & H3 & H4 & H5). repeat split; auto.
      * assert (i <> w) by (intros ->; rewrite Ei in H4; discriminate). now rewrite nth_error_upd_other.
      * intros j Hj. destruct (Nat.eq_dec i j) as [->|Hn].
        -- rewrite (nth_error_upd_same _ _ _ _ Ei). discriminate.
        -- rewrite nth_error_upd_other by exact Hn. now apply H5.
    + destruct H as (H1 & H2 & H3). repeat split; auto. intros j e.
      destruct (Nat.eq_dec i j) as [->|Hn].
      * rewrite (nth_error_upd_same _ _ _ _ Ei). discriminate.
      * rewrite nth_error_upd_other by exact Hn. apply H3.
  - (* the region under batchMu, with its own Has check *)
    destruct (p_entry sh) as [[bn w]|] eqn:Ee; simpl; rewrite ?Ee.
    + destruct H as (H1 & H2 & H3 & H4 & H5). repeat split; auto.
      * assert (i <> w) by (intros ->; rewrite Ei in H4; discriminate). now rewrite nth_error_upd_other.
      * intros j Hj. destruct (Nat.eq_dec i j) as [->|Hn].
        -- rewrite (nth_error_upd_same _ _ _ _ Ei). discriminate.
        -- rewrite nth_error_upd_other by exact Hn. now apply H5.
    + destruct H as (H1 & H2 & H3). simpl. repeat split; try lia.
      * apply (nth_error_upd_same _ _ _ _ Ei).
      * intros j Hj. rewrite nth_error_upd_other by auto. apply H3.
Qed.

Lemma PI_run b0 sched : forall st, PI b0 st -> PI b0 (p_run false st sched).
Proof. induction sched as [|i sched IH]; intros st H; simpl; [exact H | apply IH, PI_step, H]. Qed.

Lemma p_step_length seeded st i : length (snd (p_step seeded st i)) = length (snd st).
Proof.
  destruct st as [sh ths]. unfold p_step. simpl. destruct (nth_error ths i) as [[|m|e]|]; try reflexivity;
    destruct (p_act seeded i sh _) as [sh' th']; simpl; apply upd_length.
Qed.
Lemma p_run_length seeded sched : forall st, length (snd (p_run seeded st sched)) = length (snd st).
Proof. induction sched as [|i sched IH]; intros st; simpl; [reflexivity|]. now rewrite IH, p_step_length. Qed.

(** For every number of concurrent calls and EVERY schedule: at most one call
    has written, the bin counter moved by at most one, and the invariant [PI]
    holds; once all calls have returned, exactly one reported exist=false, the
    address was written once, by that call, with the bin id the counter shows. *)
Theorem concurrent_puts_one_winner : forall (b0 : N) (n : nat) (sched : list nat),
  let st := p_run false (p_init b0 n) sched in
  PI b0 st /\
  (all_done (snd st) -> (0 < n)%nat ->
   exists w, p_entry (fst st) = Some (b0 + 1, w) /\ p_bin (fst st) = b0 + 1 /\ p_stores (fst st) = 1 /\
             only_false (snd st) w).
Proof.
  intros b0 n sched st.
  assert (H0 : PI b0 (p_init b0 n)).
  { unfold PI, p_init. simpl. repeat split; auto. intros j e Hj.
    apply nth_error_In, repeat_spec in Hj. discriminate. }
  pose proof (PI_run b0 sched _ H0) as HI. fold st in HI. split; [exact HI|].
  intros Hd Hn. unfold PI in HI. destruct (p_entry (fst st)) as [[bn w]|] eqn:Ee.
  - destruct HI as (H1 & -> & H3 & H4). exists w. auto.
  - exfalso. destruct HI as (_ & _ & H3).
    assert (Hl : length (snd st) = n) by (unfold st; rewrite p_run_length; simpl; apply repeat_length).
    destruct (nth_error (snd st) 0) as [th|] eqn:E0.
    + destruct (Hd 0%nat th E0) as [e ->]. exact (H3 0%nat e E0).
    + apply nth_error_None in E0. lia.
Qed.

(** The seeded variant (the pre-check result is reused under the lock): two
    calls, both pre-checks before either locked region — both report
    exist=false, the address is written twice, the bin counter moved by two. *)
Theorem concurrent_puts_seeded_refuted :
  let st := p_run true (p_init 7 2) [0; 1; 0; 1]%nat in
  all_done (snd st) /\ snd st = [PDone false; PDone false] /\ p_stores (fst st) = 2 /\ p_bin (fst st) = 9.
Proof.
  vm_compute. repeat split; try reflexivity.
  intros [|[|[|j]]] th H; simpl in H; try discriminate; injection H as <-; eauto.
Qed.
