(** C11 — laws of the association lists of Model.v and of the key orders.
    Shared by the localstore properties. *)
From Coq Require Import List NArith ZArith Bool Lia.
Import ListNotations.
Require Import Aurora.C11.Model.
Local Open Scope N_scope.

(** ** the key orders decide equality *)
Lemma cmp_bytes_eq : forall a b, cmp_bytes a b = Eq <-> a = b.
Proof.
  induction a as [|x a IH]; intros [|y b]; simpl; split; intros H; try reflexivity; try discriminate.
  - destruct (x ?= y) eqn:E; try discriminate. apply N.compare_eq in E. apply IH in H. now subst.
  - inversion H; subst. rewrite N.compare_refl. now apply IH.
Qed.
Lemma cmp_bytes_refl a : cmp_bytes a a = Eq.
Proof. now apply cmp_bytes_eq. Qed.
Lemma bytes_eqb_eq a b : bytes_eqb a b = true <-> a = b.
Proof.
  unfold bytes_eqb. destruct (cmp_bytes a b) eqn:E; split; intros H; try discriminate; try reflexivity.
  - now apply cmp_bytes_eq.
  - apply cmp_bytes_eq in H. congruence.
  - apply cmp_bytes_eq in H. congruence.
Qed.
Lemma bytes_eqb_refl a : bytes_eqb a a = true.
Proof. now apply bytes_eqb_eq. Qed.
Lemma bytes_eqb_neq a b : a <> b -> bytes_eqb a b = false.
Proof. intros H. destruct (bytes_eqb a b) eqn:E; [apply bytes_eqb_eq in E; contradiction | reflexivity]. Qed.

Lemma cmp_gckey_eq : forall k1 k2, cmp_gckey k1 k2 = Eq <-> k1 = k2.
Proof.
  intros [[t1 b1] a1] [[t2 b2] a2]. simpl. split; intros H.
  - destruct (t1 ?= t2) eqn:E1; try discriminate. destruct (b1 ?= b2) eqn:E2; try discriminate.
    apply N.compare_eq in E1. apply N.compare_eq in E2. apply cmp_bytes_eq in H. now subst.
  - inversion H; subst. rewrite !N.compare_refl. apply cmp_bytes_refl.
Qed.
Lemma Ncompare_eq : forall a b : N, N.compare a b = Eq <-> a = b.
Proof. intros a b. split; [apply N.compare_eq | intros ->; apply N.compare_refl]. Qed.

Lemma mem_addr_In a l : mem_addr a l = true <-> In a l.
Proof.
  induction l as [|x l IH]; simpl; [split; [discriminate | tauto]|].
  rewrite orb_true_iff, IH, bytes_eqb_eq. split; intros [H|H]; auto.
Qed.
Lemma mem_addr_app a l1 l2 : mem_addr a (l1 ++ l2) = mem_addr a l1 || mem_addr a l2.
Proof. induction l1 as [|x l1 IH]; simpl; [reflexivity|]. now rewrite IH, orb_assoc. Qed.

(** ** association lists *)
Section AListLaws.
  Context {K V : Type} (cmp : K -> K -> comparison).
  Hypothesis cmp_eq : forall a b, cmp a b = Eq <-> a = b.

  Lemma cmp_refl k : cmp k k = Eq.
  Proof. now apply cmp_eq. Qed.

  Lemma alookup_aremove_same k (m : list (K * V)) : alookup cmp k (aremove cmp k m) = None.
  Proof.
    induction m as [|[k' v] m IH]; simpl; [reflexivity|].
    destruct (cmp k k') eqn:E; simpl; try rewrite E; exact IH.
  Qed.
  Lemma alookup_aremove_other k k0 (m : list (K * V)) :
    k <> k0 -> alookup cmp k (aremove cmp k0 m) = alookup cmp k m.
  Proof.
    intros Hn. induction m as [|[k' v] m IH]; simpl; [reflexivity|].
    destruct (cmp k0 k') eqn:E0.
    - apply cmp_eq in E0. subst k'. destruct (cmp k k0) eqn:E; [apply cmp_eq in E; contradiction | exact IH | exact IH].
    - simpl. now rewrite IH.
    - simpl. now rewrite IH.
  Qed.
  Lemma alookup_aplace_same k v (m : list (K * V)) : alookup cmp k (aplace cmp k v m) = Some v.
  Proof.
    induction m as [|[k' v'] m IH]; simpl; [now rewrite cmp_refl|].
    destruct (cmp k k') eqn:E; simpl; rewrite ?cmp_refl; try reflexivity.
    rewrite E. exact IH.
  Qed.
  Lemma alookup_aplace_other k k0 v (m : list (K * V)) :
    k <> k0 -> alookup cmp k (aplace cmp k0 v m) = alookup cmp k m.
  Proof.
    intros Hn. assert (Hk : cmp k k0 <> Eq) by (intros E; apply cmp_eq in E; contradiction).
    induction m as [|[k' v'] m IH]; simpl.
    - destruct (cmp k k0); [contradiction | reflexivity | reflexivity].
    - destruct (cmp k0 k') eqn:E0; simpl.
      + destruct (cmp k k0); [contradiction | reflexivity | reflexivity].
      + destruct (cmp k k0); [contradiction | reflexivity | reflexivity].
      + now rewrite IH.
  Qed.
  Lemma alookup_ainsert_same k v (m : list (K * V)) : alookup cmp k (ainsert cmp k v m) = Some v.
  Proof. apply alookup_aplace_same. Qed.
  Lemma alookup_ainsert_other k k0 v (m : list (K * V)) :
    k <> k0 -> alookup cmp k (ainsert cmp k0 v m) = alookup cmp k m.
  Proof. intros Hn. unfold ainsert. rewrite alookup_aplace_other by exact Hn. now apply alookup_aremove_other. Qed.

  Lemma ahas_ainsert_same k v (m : list (K * V)) : ahas cmp k (ainsert cmp k v m) = true.
  Proof. unfold ahas. now rewrite alookup_ainsert_same. Qed.

  (** keys of an association list; membership after the operations *)
  Definition keys (m : list (K * V)) : list K := map fst m.
  Lemma alookup_None_notin k (m : list (K * V)) : alookup cmp k m = None <-> ~ In k (keys m).
  Proof.
    induction m as [|[k' v] m IH]; simpl; [tauto|].
    destruct (cmp k k') eqn:E.
    - apply cmp_eq in E. subst. split; [discriminate | intros H; exfalso; apply H; now left].
    - rewrite IH. split; [intros H [H1|H1]; [subst; rewrite cmp_refl in E; discriminate | tauto] | tauto].
    - rewrite IH. split; [intros H [H1|H1]; [subst; rewrite cmp_refl in E; discriminate | tauto] | tauto].
  Qed.
  Lemma alookup_Some_in k v (m : list (K * V)) : alookup cmp k m = Some v -> In (k, v) m.
  Proof.
    induction m as [|[k' v'] m IH]; simpl; [discriminate|].
    destruct (cmp k k') eqn:E; intros H.
    - apply cmp_eq in E. inversion H; subst. now left.
    - right; auto.
    - right; auto.
  Qed.
  Lemma in_aremove kv k (m : list (K * V)) : In kv (aremove cmp k m) <-> In kv m /\ fst kv <> k.
  Proof.
    induction m as [|[k' v'] m IH]; simpl; [tauto|].
    destruct (cmp k k') eqn:E.
    - apply cmp_eq in E. subst k'. rewrite IH. split; [tauto|].
      intros [[H|H] Hn]; [subst kv; simpl in Hn; contradiction | tauto].
    - simpl. rewrite IH. split; [intros [H|H]; [subst; split; [now left|simpl; intros ->; rewrite cmp_refl in E; discriminate] | tauto] | tauto].
    - simpl. rewrite IH. split; [intros [H|H]; [subst; split; [now left|simpl; intros ->; rewrite cmp_refl in E; discriminate] | tauto] | tauto].
  Qed.
  Lemma in_aplace kv k v (m : list (K * V)) : In kv (aplace cmp k v m) <-> kv = (k, v) \/ In kv m.
  Proof.
    induction m as [|[k' v'] m IH]; simpl; [intuition|].
    destruct (cmp k k'); simpl; try rewrite IH; intuition.
  Qed.
  Lemma in_ainsert kv k v (m : list (K * V)) :
    In kv (ainsert cmp k v m) <-> kv = (k, v) \/ (In kv m /\ fst kv <> k).
  Proof. unfold ainsert. now rewrite in_aplace, in_aremove. Qed.

  (** a list in which every key occurs once *)
  Definition NoDupKeys (m : list (K * V)) : Prop := NoDup (keys m).
  Lemma NoDupKeys_aremove k (m : list (K * V)) : NoDupKeys m -> NoDupKeys (aremove cmp k m).
  Proof.
    unfold NoDupKeys, keys. induction m as [|[k' v'] m IH]; simpl; intros H; [constructor|].
    inversion H as [|x l Hn Hd]; subst. destruct (cmp k k'); simpl; auto.
    - constructor; auto. intros Hi. apply Hn. apply in_map_iff in Hi as [[k2 v2] [E Hi]]. simpl in E; subst.
      apply in_aremove in Hi as [Hi _]. apply in_map_iff. now exists (k', v2).
    - constructor; auto. intros Hi. apply Hn. apply in_map_iff in Hi as [[k2 v2] [E Hi]]. simpl in E; subst.
      apply in_aremove in Hi as [Hi _]. apply in_map_iff. now exists (k', v2).
  Qed.
  Lemma keys_aplace k v (m : list (K * V)) x : In x (keys (aplace cmp k v m)) <-> x = k \/ In x (keys m).
  Proof.
    unfold keys. rewrite !in_map_iff. split.
    - intros [[k2 v2] [E Hi]]. simpl in E; subst. apply in_aplace in Hi as [Hi|Hi]; [inversion Hi; now left | right; now exists (x, v2)].
    - intros [->|[[k2 v2] [E Hi]]]; [exists (k, v); split; [reflexivity | apply in_aplace; now left] |].
      simpl in E; subst. exists (x, v2). split; [reflexivity | apply in_aplace; now right].
  Qed.
  Lemma NoDupKeys_aplace k v (m : list (K * V)) : ~ In k (keys m) -> NoDupKeys m -> NoDupKeys (aplace cmp k v m).
  Proof.
    unfold NoDupKeys. induction m as [|[k' v'] m IH]; simpl; intros Hn H.
    - constructor; [tauto | constructor].
    - inversion H as [|x l Hn' Hd]; subst.
      destruct (cmp k k'); simpl; try (constructor; [simpl; tauto | exact H]).
      constructor.
      + intros Hi. apply keys_aplace in Hi as [->|Hi]; [apply Hn; now left | contradiction].
      + apply IH; [tauto | exact Hd].
  Qed.
  Lemma NoDupKeys_ainsert k v (m : list (K * V)) : NoDupKeys m -> NoDupKeys (ainsert cmp k v m).
  Proof.
    intros H. unfold ainsert. apply NoDupKeys_aplace; [|now apply NoDupKeys_aremove].
    apply alookup_None_notin. apply alookup_aremove_same.
  Qed.

  (** mapping the values commutes with the operations *)
  Lemma aremove_map {W} (f : V -> W) k (m : list (K * V)) :
    map (fun kv => (fst kv, f (snd kv))) (aremove cmp k m) = aremove cmp k (map (fun kv => (fst kv, f (snd kv))) m).
  Proof. induction m as [|[k' v'] m IH]; simpl; [reflexivity|]. destruct (cmp k k'); simpl; now rewrite IH. Qed.
  Lemma alookup_map {W} (f : V -> W) k (m : list (K * V)) :
    alookup cmp k (map (fun kv => (fst kv, f (snd kv))) m) = option_map f (alookup cmp k m).
  Proof. induction m as [|[k' v'] m IH]; simpl; [reflexivity|]. destruct (cmp k k'); simpl; auto. Qed.
End AListLaws.
