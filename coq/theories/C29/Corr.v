(** C29 — correspondence.  The harness runs the real findNode handler
    (hive2.Service.onFindNode) over a real Kad and address book and records
    the iteration orders of Kad.EachPeer / Kad.EachKnownPeer, the address
    book, the booleans of manet, the request and the reply.  The two shuffles
    of the code are not observable; [check_case] reconstructs the draws from
    the reply ([recon]) and requires the model, run with exactly these draws,
    to produce the observed reply. *)
From Coq Require Import List NArith ZArith Bool.
Import ListNotations.
Require Import Aurora.Base.Corr Aurora.Consts.
Require Export Aurora.C29.Model.
Local Open Scope Z_scope.

Definition MaxPO : N := Z.to_N Consts.boson_MaxPO.
Definition MaxLimit : Z := Consts.hive2_maxPeersLimit.

(** one request against a world, and what came back: (overlay, underlay id) per
    peer of the reply; None = error / panic *)
Record rq := { rq_allow : bool; rq_public : bool; rq_requester : addr; rq_req : request;
               rq_obs : option (list (addr * N)) }.

Inductive case :=
| CWorld (bk : book) (connected known : list addr) (rqs : list rq).

Fixpoint index_of (o : addr * N) (l : list brec) : option nat :=
  match l with
  | [] => None
  | p :: t => if aeqb (fst o) (b_overlay p) && (snd o =? b_underlay p)%N then Some O
              else option_map S (index_of o t)
  end.

(** the draws that make [select] produce [obs] as a prefix *)
Fixpoint recon (obs : list (addr * N)) (l : list brec) : list nat :=
  match obs with
  | [] => []
  | o :: obs' =>
      match index_of o l with
      | Some j => j :: recon obs' (remove_nth j l)
      | None => []
      end
  end.

Definition entry_eqb (o : addr * N) (p : brec) : bool :=
  aeqb (fst o) (b_overlay p) && (snd o =? b_underlay p)%N.

Fixpoint reply_eqb (obs : list (addr * N)) (m : list brec) : bool :=
  match obs, m with
  | [], [] => true
  | o :: obs', p :: m' => entry_eqb o p && reply_eqb obs' m'
  | _, _ => false
  end.

Definition model_reply (bk : book) (connected known : list addr) (r : rq) : outcome (list brec) :=
  let allow := rq_allow r in let req_public := rq_public r in
  let requester := rq_requester r in let req := rq_req r in
  let o := match rq_obs r with Some o => o | None => [] end in
  let c1 := cands_conn MaxPO bk requester req_public allow req connected in
  let lc := limit_conn MaxLimit true req in
  let k1 := if lc <? Z.of_nat (length c1) then Z.to_nat lc else length c1 in
  let w1 := recon (firstn k1 o) c1 in
  let c2 := cands_known MaxPO MaxLimit true bk requester req_public allow req connected known w1 in
  let w2 := recon (skipn k1 o) c2 in
  on_find_node MaxPO MaxLimit true bk requester req_public allow req connected known w1 w2.

Definition check_rq (bk : book) (connected known : list addr) (r : rq) : bool :=
  match model_reply bk connected known r, rq_obs r with
  | Done m, Some o => reply_eqb o m
  | Crash, None => true
  | _, _ => false
  end.

Definition check_case (c : case) : bool :=
  match c with CWorld bk connected known rqs => forallb (check_rq bk connected known) rqs end.

(** the requests that disagree: (request, model's reply, observed reply) *)
Definition explain_case (c : case) :=
  match c with
  | CWorld bk connected known rqs =>
      flat_map (fun r => if check_rq bk connected known r then []
                         else [(rq_requester r, rq_req r,
                                match model_reply bk connected known r with
                                | Done m => Some (map (fun p => (b_overlay p, b_underlay p)) m)
                                | Crash => None
                                end, rq_obs r)]) rqs
  end.
