(** C29 — property theorems only.  [reply] is the model of
    hive2.Service.onFindNode after proposed/C29/fix-hive-min-two.patch,
    instantiated at boson.MaxPO and hive2.maxPeersLimit re-read from the Go
    source on every run.  Every theorem quantifies over all address books,
    connected / known iteration orders, requesters, requests (target, order
    list, limit) and over all outcomes [w1 w2] of the two shuffles. *)
From Coq Require Import List NArith ZArith Bool Lia.
Import ListNotations.
Require Import Aurora.Consts Aurora.C20.Model Aurora.C20.Proofs Aurora.C29.Model Aurora.C29.Proofs Aurora.C29.ProofsMain.
Local Open Scope Z_scope.

Definition MaxPO : N := Z.to_N Consts.boson_MaxPO.
Definition MaxLimit : Z := Consts.hive2_maxPeersLimit.

Definition reply := on_find_node MaxPO MaxLimit true.
Definition reply_pinned := on_find_node MaxPO MaxLimit false.   (* the code before the fix *)
Definition proximity := proximity_gen false MaxPO.

(** side conditions on the constants ("at most 30 honoured"), by computation on every run *)
Lemma consts_ok_C29 : (MaxLimit =? 30) && (0 <=? Consts.boson_MaxPO) && (MaxPO mod 8 =? 7)%N && (MaxPO <? 248)%N = true.
Proof. vm_compute. reflexivity. Qed.

(** the handler never crashes (boson.Proximity cannot index out of range here) *)
Theorem C29_no_crash : forall bk requester req_public allow req connected known w1 w2,
  reply bk requester req_public allow req connected known w1 w2 <> Crash.
Proof. intros. apply ofn_no_crash. Qed.
Print Assumptions C29_no_crash.

(** "never more peers than requested (with at most 30 honoured)" *)
Theorem C29_limit : forall bk requester req_public allow req connected known w1 w2 l,
  reply bk requester req_public allow req connected known w1 w2 = Done l ->
  Z.of_nat (length l) <= Z.max 0 (Z.min (q_limit req) 30).
Proof.
  intros bk requester req_public allow req connected known w1 w2 l H.
  exact (reply_length_patched MaxPO MaxLimit bk requester req_public allow req connected known w1 w2 l H).
Qed.
Print Assumptions C29_limit.

(** "never contains the requester" *)
Theorem C29_no_requester : forall bk requester req_public allow req connected known w1 w2 l,
  book_wf bk ->
  reply bk requester req_public allow req connected known w1 w2 = Done l ->
  forall p, In p l -> b_overlay p <> requester.
Proof. intros until l. apply reply_no_requester. Qed.
Print Assumptions C29_no_requester.

(** "only peers whose proximity to the requested target is among the requested
    orders" (an order v is matched as uint8(v), as inArray does) *)
Theorem C29_orders : forall bk requester req_public allow req connected known w1 w2 l,
  book_wf bk ->
  reply bk requester req_public allow req connected known w1 w2 = Done l ->
  forall p, In p l ->
  exists po v, proximity (q_target req) (b_overlay p) = Ret po /\ In v (q_pos req) /\ v mod 256 = Z.of_N po.
Proof. intros until l. apply reply_orders. Qed.
Print Assumptions C29_orders.

(** the same in terms of the XOR metric (C20): for full-size addresses the
    order is the number of leading bits shared with the target, capped at MaxPO *)
Theorem C29_orders_prefix : forall bk requester req_public allow req connected known w1 w2 l,
  book_wf bk ->
  reply bk requester req_public allow req connected known w1 w2 = Done l ->
  forall p, In p l ->
  length (q_target req) = length (b_overlay p) -> (length (q_target req) < 256)%nat ->
  (MaxPO < 8 * N.of_nat (length (q_target req)))%N ->
  exists v, In v (q_pos req) /\
            v mod 256 = Z.of_N (N.min (N.of_nat (lcp_bits (q_target req) (b_overlay p))) MaxPO).
Proof.
  intros bk requester req_public allow req connected known w1 w2 l Hwf Hr p Hp Hlen H256 Hmax.
  destruct (reply_orders _ _ _ _ _ _ _ _ _ _ _ _ l Hwf Hr p Hp) as (po & v & Hpo & Hv & Hm).
  pose proof (proximity_uncapped MaxPO (q_target req) (b_overlay p) eq_refl eq_refl Hlen H256 Hmax) as Hc.
  rewrite Hc in Hpo. inversion Hpo; subst po. eauto.
Qed.
Print Assumptions C29_orders_prefix.

(** "never repeats a peer" *)
Theorem C29_distinct : forall bk requester req_public allow req connected known w1 w2 l,
  book_wf bk -> NoDup connected -> NoDup known ->
  reply bk requester req_public allow req connected known w1 w2 = Done l ->
  NoDup (map b_overlay l).
Proof. intros until l. apply reply_distinct. Qed.
Print Assumptions C29_distinct.

(** "never offers private-network addresses to a requester with a public
    address unless explicitly allowed" *)
Theorem C29_private : forall bk requester req connected known w1 w2 l,
  reply bk requester true false req connected known w1 w2 = Done l ->
  forall p, In p l -> b_private p = false.
Proof. intros until l. apply reply_private; reflexivity. Qed.
Print Assumptions C29_private.

(** every offered peer is an address-book record of a connected or known peer *)
Theorem C29_from_book : forall bk requester req_public allow req connected known w1 w2 l,
  reply bk requester req_public allow req connected known w1 w2 = Done l ->
  forall p, In p l -> exists a, (In a connected \/ In a known) /\ lookup bk a = Some p.
Proof. intros until l. apply reply_from_book. Qed.
Print Assumptions C29_from_book.

(** F-hive-min-two on the model of the PINNED code: what holds ... *)
Theorem C29_limit_pinned_partial : forall bk requester req_public allow req connected known w1 w2 l,
  reply_pinned bk requester req_public allow req connected known w1 w2 = Done l ->
  Z.of_nat (length l) <= Z.max 2 (Z.min (q_limit req) 30).
Proof.
  intros bk requester req_public allow req connected known w1 w2 l H.
  pose proof (reply_length_weak MaxPO MaxLimit false bk requester req_public allow req connected known w1 w2 l H) as Hw.
  assert (He : eff_limit MaxLimit false req = Z.min (q_limit req) 30).
  { unfold eff_limit. cbn [andb]. change MaxLimit with 30. destruct (Z.ltb_spec 30 (q_limit req)); lia. }
  rewrite He in Hw. exact Hw.
Qed.
Print Assumptions C29_limit_pinned_partial.

(** ... and what fails: a request with limit 0 answered with two peers *)
Definition ex_target : addr := [170; 187; 204; 221]%N.
Definition ex_c : addr := [136; 0; 0; 1]%N.      (* proximity 2 to the target *)
Definition ex_k : addr := [137; 0; 0; 2]%N.      (* proximity 2 *)
Definition ex_book : book :=
  [(ex_c, {| b_overlay := ex_c; b_underlay := 1; b_private := false |});
   (ex_k, {| b_overlay := ex_k; b_underlay := 2; b_private := true |})].
Definition ex_req (limit : Z) : request := {| q_target := ex_target; q_pos := [2]; q_limit := limit |}.

Theorem C29_limit_pinned_refuted :
  exists bk requester req_public allow req connected known w1 w2 l,
    reply_pinned bk requester req_public allow req connected known w1 w2 = Done l /\
    q_limit req = 0 /\ length l = 2%nat.
Proof.
  exists ex_book, [1; 1; 1; 1]%N, false, false, (ex_req 0), [ex_c], [ex_c; ex_k], [], [], 
    [{| b_overlay := ex_c; b_underlay := 1; b_private := false |}; {| b_overlay := ex_k; b_underlay := 2; b_private := true |}].
  vm_compute. repeat split; reflexivity.
Qed.
Print Assumptions C29_limit_pinned_refuted.

(** non-vacuity: a well-formed book, duplicate-free lists, a non-empty reply; the
    same node answers limit 0 with nothing and withholds the private peer from a
    public requester *)
Example C29_hyps_satisfiable :
  book_wf ex_book /\ NoDup [ex_c] /\ NoDup [ex_c; ex_k] /\
  reply ex_book [1; 1; 1; 1]%N false false (ex_req 5) [ex_c] [ex_c; ex_k] [] [] =
    Done [{| b_overlay := ex_c; b_underlay := 1; b_private := false |}; {| b_overlay := ex_k; b_underlay := 2; b_private := true |}] /\
  reply ex_book [1; 1; 1; 1]%N false false (ex_req 0) [ex_c] [ex_c; ex_k] [] [] = Done [] /\
  reply ex_book [1; 1; 1; 1]%N true false (ex_req 5) [ex_c] [ex_c; ex_k] [] [] =
    Done [{| b_overlay := ex_c; b_underlay := 1; b_private := false |}] /\
  reply ex_book ex_c false false (ex_req 5) [ex_c] [ex_c; ex_k] [] [] =
    Done [{| b_overlay := ex_k; b_underlay := 2; b_private := true |}].
Proof.
  split.
  { intros a p. unfold ex_book. cbn [lookup]. destruct (aeqb ex_c a) eqn:E1.
    - intros H; inversion H; subst. apply aeqb_eq in E1. exact E1.
    - destruct (aeqb ex_k a) eqn:E2; [|discriminate]. intros H; inversion H; subst. apply aeqb_eq in E2. exact E2. }
  split; [repeat constructor; simpl; intuition discriminate|].
  split; [repeat constructor; simpl; intuition discriminate|].
  vm_compute. repeat split; reflexivity.
Qed.
