(** C29 — model of pkg/hive2/hive2.go: onFindNode, inArray, randPeersLimit.
    Definitions only.

    Inputs of the handler that come from other components are explicit:
      - [connected], [known]: the overlays in the order Kad.EachPeer (filter
        Reachable:false) and Kad.EachKnownPeer visit them;
      - [book]: the address book (key overlay -> stored record); a record
        carries its own overlay (what the reply contains), an opaque underlay
        identifier, and the oracle boolean manet.IsPrivateAddr(underlay);
      - [req_public]: addressBook.Get(requester) found a record whose underlay
        satisfies manet.IsPublicAddr;
      - [allow_private]: Config.AllowPrivateCIDRs;
      - [w1], [w2]: the choices of the two rand.Shuffle calls (see [select]).
    boson.Proximity is the C20 model.  [patched = true] is the code after
    proposed/C29/fix-hive-min-two.patch (negative limits clamped to 0, reply
    truncated to the honoured limit); [patched = false] is the pinned code. *)
From Coq Require Import List NArith ZArith Bool.
Import ListNotations.
Require Import Aurora.C20.Model.
Local Open Scope Z_scope.

Definition addr := list N.

Fixpoint aeqb (a b : addr) : bool :=
  match a, b with
  | [], [] => true
  | x :: a', y :: b' => (x =? y)%N && aeqb a' b'
  | _, _ => false
  end.

(** Address.MemberOf *)
Definition member (a : addr) (l : list addr) : bool := existsb (aeqb a) l.

Record brec := { b_overlay : addr; b_underlay : N; b_private : bool }.

Definition book := list (addr * brec).

(** addressBook.Get: first entry stored under the key *)
Fixpoint lookup (bk : book) (a : addr) : option brec :=
  match bk with
  | [] => None
  | (k, r) :: t => if aeqb k a then Some r else lookup t a
  end.

Record request := { q_target : addr; q_pos : list Z; q_limit : Z }.   (* pb.FindNodeReq: bytes, []int32, int32 *)

(** inArray(bin uint8, pos []int32): [bin == uint8(v)] *)
Definition in_array (po : N) (pos : list Z) : bool :=
  existsb (fun v => Z.of_N po =? v mod 256) pos.

Inductive outcome (A : Type) := Done (a : A) | Crash.
Arguments Done {A} a.
Arguments Crash {A}.

Section Handler.
  Variable maxpo : N.            (* boson.MaxPO *)
  Variable max_limit : Z.        (* maxPeersLimit *)
  Variable patched : bool.
  Variable bk : book.
  Variable requester : addr.
  Variable req_public allow_private : bool.
  Variable req : request.

  (** one call of [addrFunc]; state = (skip, resp.Peers) *)
  Definition visit (st : outcome (list addr * list brec)) (a : addr) : outcome (list addr * list brec) :=
    match st with
    | Crash => Crash
    | Done (skip, resp) =>
        if member a skip then st
        else match proximity_gen false maxpo (q_target req) a with
             | Panic => Crash
             | Ret po =>
                 if in_array po (q_pos req) then
                   match lookup bk a with
                   | Some p =>
                       if negb allow_private && req_public && b_private p
                       then Done (skip ++ [b_overlay p], resp)
                       else Done (skip, resp ++ [p])
                   | None => st
                   end
                 else st
             end
    end.

  (** EachPeer / EachKnownPeer with [addrFunc] (it never stops the iteration) *)
  Definition each (peers : list addr) (skip : list addr) : outcome (list addr * list brec) :=
    fold_left visit peers (Done (skip, [])).

  Fixpoint remove_nth {A} (j : nat) (l : list A) : list A :=
    match l, j with
    | [], _ => []
    | _ :: t, O => t
    | x :: t, S j' => x :: remove_nth j' t
    end.

  (** a shuffle as a sequence of draws without replacement: the i-th choice
      picks an index (mod the number of elements left); what is left keeps
      its order.  Every permutation is some [select w]. *)
  Fixpoint select {A} (w : list nat) (l : list A) {struct w} : list A :=
    match w with
    | [] => l
    | i :: w' =>
        match l with
        | [] => []
        | _ :: _ =>
            let j := Nat.modulo i (length l) in
            match nth_error l j with
            | Some x => x :: select w' (remove_nth j l)
            | None => l
            end
        end
    end.

  (** randPeersLimit(peers, limit) for limit >= 0 *)
  Definition rand_limit {A} (w : list nat) (peers : list A) (limit : Z) : list A :=
    if limit <? Z.of_nat (length peers) then firstn (Z.to_nat limit) (select w peers) else peers.

  (** the limit actually honoured *)
  Definition eff_limit : Z :=
    let l := if max_limit <? q_limit req then max_limit else q_limit req in
    if patched && (l <? 0) then 0 else l.

  Definition limit_known : Z := if 2 <? eff_limit then Z.quot eff_limit 2 else 1.
  Definition limit_conn : Z := if 2 <? eff_limit then eff_limit - limit_known else 1.

  Definition on_find_node (connected known : list addr) (w1 w2 : list nat) : outcome (list brec) :=
    match each connected [requester] with
    | Crash => Crash
    | Done (skip1, cands1) =>
        let conn := rand_limit w1 cands1 limit_conn in
        let skip2 := skip1 ++ map b_overlay conn in
        match each known skip2 with
        | Crash => Crash
        | Done (_, cands2) =>
            let knownr := rand_limit w2 cands2 limit_known in
            let resp := conn ++ knownr in
            Done (if patched && (eff_limit <? Z.of_nat (length resp)) then firstn (Z.to_nat eff_limit) resp else resp)
        end
    end.

  (** the candidate lists (for the correspondence, which has to reconstruct [w1], [w2]) *)
  Definition cands_conn (connected : list addr) : list brec :=
    match each connected [requester] with Done (_, c) => c | Crash => [] end.
  Definition cands_known (connected known : list addr) (w1 : list nat) : list brec :=
    match each connected [requester] with
    | Crash => []
    | Done (skip1, cands1) =>
        match each known (skip1 ++ map b_overlay (rand_limit w1 cands1 limit_conn)) with
        | Done (_, c) => c
        | Crash => []
        end
    end.
End Handler.
