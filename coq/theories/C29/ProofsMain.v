(** C29 — the five clauses of the property for [on_find_node], for all
    connected / known lists, books, requests and shuffle choices. *)
From Coq Require Import List NArith ZArith Bool Lia Permutation.
Import ListNotations.
Require Import Aurora.C20.Model Aurora.C29.Model Aurora.C29.Proofs.
Local Open Scope Z_scope.

Set Default Proof Using "Type".

Section Main.
  Variable maxpo : N.
  Variable max_limit : Z.
  Variable patched : bool.
  Variable bk : book.
  Variable requester : addr.
  Variable req_public allow_private : bool.
  Variable req : request.
  Variable connected known : list addr.
  Variable w1 w2 : list nat.

  Notation each := (each maxpo bk req_public allow_private req).
  Notation ofn := (on_find_node maxpo max_limit patched bk requester req_public allow_private req connected known w1 w2).
  Notation good := (good maxpo bk req_public allow_private req).
  Notation eff := (eff_limit max_limit patched req).
  Notation lconn := (limit_conn max_limit patched req).
  Notation lknown := (limit_known max_limit patched req).

  Definition trunc (resp : list brec) : list brec :=
    if patched && (eff <? Z.of_nat (length resp)) then firstn (Z.to_nat eff) resp else resp.

  Lemma ofn_unfold l :
    ofn = Done l ->
    exists skip1 cands1 skip2 cands2,
      each connected [requester] = Done (skip1, cands1) /\
      each known (skip1 ++ map b_overlay (rand_limit w1 cands1 lconn)) = Done (skip2, cands2) /\
      l = trunc (rand_limit w1 cands1 lconn ++ rand_limit w2 cands2 lknown).
  Proof.
    unfold on_find_node. destruct (each connected [requester]) as [[skip1 cands1]|] eqn:H1; [|discriminate].
    destruct (each known _) as [[skip2 cands2]|] eqn:H2; [|discriminate].
    intros H; inversion H; subst. exists skip1, cands1, skip2, cands2. repeat split; auto.
  Qed.

  Lemma ofn_no_crash : ofn <> Crash.
  Proof.
    unfold on_find_node, Model.each.
    pose proof (fold_visit_no_crash maxpo bk req_public allow_private req connected ([requester], [])) as H1.
    destruct (fold_left _ connected _) as [[skip1 cands1]|]; [|congruence].
    pose proof (fold_visit_no_crash maxpo bk req_public allow_private req known
                  (skip1 ++ map b_overlay (rand_limit w1 cands1 lconn), [])) as H2.
    destruct (fold_left _ known _) as [[skip2 cands2]|]; [discriminate|congruence].
  Qed.

  Lemma trunc_incl resp : incl (trunc resp) resp.
  Proof. unfold trunc. destruct (_ && _); [apply firstn_incl|apply incl_refl]. Qed.

  (** every peer of the reply is an address-book record stored under the key of a
      connected or known peer other than the requester, that passed the order
      and privacy tests; a peer drawn from the known list is moreover not one of
      the connected peers already chosen *)
  Lemma reply_members l p :
    ofn = Done l -> In p l ->
    exists a, (In a connected \/ In a known) /\ a <> requester /\ good a p.
  Proof.
    intros Ho Hp. apply ofn_unfold in Ho as (skip1 & cands1 & skip2 & cands2 & H1 & H2 & ->).
    apply trunc_incl in Hp. apply each_inv in H1 as [Hi1 Hr1]. apply each_inv in H2 as [Hi2 Hr2].
    apply in_app_or in Hp as [Hp|Hp]; apply rand_limit_incl in Hp.
    - destruct (Hr1 p Hp) as (a & Ha & Hn & Hg). exists a. split; [auto|]. split; [|exact Hg].
      intros ->. apply Hn. now left.
    - destruct (Hr2 p Hp) as (a & Ha & Hn & Hg). exists a. split; [auto|]. split; [|exact Hg].
      intros ->. apply Hn. apply in_or_app. left. apply Hi1. now left.
  Qed.

  Notation wf := (book_wf bk).

  Lemma reply_no_requester l : wf -> ofn = Done l -> forall p, In p l -> b_overlay p <> requester.
  Proof.
    intros Hwf Ho p Hp. destruct (reply_members l p Ho Hp) as (a & _ & Hne & (Hl & _)).
    now rewrite (Hwf a p Hl).
  Qed.

  Lemma reply_orders l : wf -> ofn = Done l -> forall p, In p l ->
    exists po v, proximity_gen false maxpo (q_target req) (b_overlay p) = Ret po /\
                 In v (q_pos req) /\ v mod 256 = Z.of_N po.
  Proof.
    intros Hwf Ho p Hp. destruct (reply_members l p Ho Hp) as (a & _ & _ & (Hl & _ & po & Hpo & Hin)).
    apply in_array_spec in Hin as (v & Hv & Hm). exists po, v. rewrite (Hwf a p Hl). auto.
  Qed.

  Lemma reply_private l : req_public = true -> allow_private = false -> ofn = Done l ->
    forall p, In p l -> b_private p = false.
  Proof.
    intros Hpub Hallow Ho p Hp. destruct (reply_members l p Ho Hp) as (a & _ & _ & (_ & Hf & _)).
    unfold filtered in Hf. rewrite Hpub, Hallow in Hf. exact Hf.
  Qed.

  Lemma reply_from_book l : ofn = Done l -> forall p, In p l ->
    exists a, (In a connected \/ In a known) /\ lookup bk a = Some p.
  Proof.
    intros Ho p Hp. destruct (reply_members l p Ho Hp) as (a & Ha & _ & (Hl & _)). eauto.
  Qed.

  Lemma each_nodup peers skip0 skip resp : wf -> NoDup peers ->
    each peers skip0 = Done (skip, resp) -> NoDup (map b_overlay resp).
  Proof.
    intros Hwf Hnd H. unfold Model.each in H.
    apply (fold_visit_nodup maxpo bk req_public allow_private req Hwf peers [] skip0 [] skip resp).
    - now rewrite app_nil_r.
    - constructor.
    - intros p [].
    - exact H.
  Qed.

  Lemma reply_distinct l : wf -> NoDup connected -> NoDup known -> ofn = Done l -> NoDup (map b_overlay l).
  Proof.
    intros Hwf Hc Hk Ho. apply ofn_unfold in Ho as (skip1 & cands1 & skip2 & cands2 & H1 & H2 & ->).
    pose proof (each_nodup _ _ _ _ Hwf Hc H1) as Hn1. pose proof (each_nodup _ _ _ _ Hwf Hk H2) as Hn2.
    apply each_inv in H2 as [Hi2 Hr2].
    assert (Hnd : NoDup (map b_overlay (rand_limit w1 cands1 lconn ++ rand_limit w2 cands2 lknown))).
    { rewrite map_app. apply nodup_app.
      - now apply rand_limit_NoDup.
      - now apply rand_limit_NoDup.
      - intros x Hx Hx2. apply in_map_iff in Hx2 as (p & <- & Hp). apply rand_limit_incl in Hp.
        destruct (Hr2 p Hp) as (a & _ & Hn & (Hl & _)). apply Hn. apply in_or_app. right.
        rewrite <- (Hwf a p Hl). exact Hx. }
    unfold trunc. destruct (_ && _); [|exact Hnd]. rewrite <- firstn_map. now apply firstn_NoDup.
  Qed.

  (** the split between connected and known peers *)
  Lemma split_sum : 2 < eff -> lconn + lknown = eff /\ 0 <= lknown /\ 0 <= lconn.
  Proof.
    unfold limit_conn, limit_known. intros H. assert (Hb : (2 <? eff) = true) by (apply Z.ltb_lt; lia). rewrite Hb.
    pose proof (Z.quot_pos eff 2). pose proof (Z.quot_lt eff 2). lia.
  Qed.

  Lemma untruncated_length (cands1 cands2 : list brec) :
    Z.of_nat (length (rand_limit w1 cands1 lconn ++ rand_limit w2 cands2 lknown)) <= Z.max 2 eff.
  Proof.
    rewrite app_length, Nat2Z.inj_add. destruct (Z.ltb_spec 2 eff) as [Hlt|Hge].
    - destruct (split_sum Hlt) as (Hs & Hk & Hc).
      pose proof (rand_limit_length w1 cands1 lconn Hc). pose proof (rand_limit_length w2 cands2 lknown Hk). lia.
    - unfold limit_conn, limit_known. assert (Hb : (2 <? eff) = false) by (apply Z.ltb_ge; lia). rewrite Hb.
      pose proof (rand_limit_length w1 cands1 1). pose proof (rand_limit_length w2 cands2 1). lia.
  Qed.

  (** both versions: never more than max(2, min(limit, max_limit)) *)
  Lemma reply_length_weak l : ofn = Done l -> Z.of_nat (length l) <= Z.max 2 eff.
  Proof.
    intros Ho. apply ofn_unfold in Ho as (skip1 & cands1 & skip2 & cands2 & _ & _ & ->).
    pose proof (untruncated_length cands1 cands2) as Hu. unfold trunc.
    destruct (_ && _); [|exact Hu]. rewrite firstn_length. lia.
  Qed.
End Main.

(** the repaired code: never more than the honoured limit *)
Lemma reply_length_patched maxpo max_limit bk requester req_public allow_private req connected known w1 w2 l :
  on_find_node maxpo max_limit true bk requester req_public allow_private req connected known w1 w2 = Done l ->
  Z.of_nat (length l) <= Z.max 0 (Z.min (q_limit req) max_limit).
Proof.
  intros Ho. apply ofn_unfold in Ho as (skip1 & cands1 & skip2 & cands2 & _ & _ & ->).
  unfold trunc. cbn [andb].
  assert (He : eff_limit max_limit true req = Z.max 0 (Z.min (q_limit req) max_limit)).
  { unfold eff_limit. cbn [andb]. destruct (Z.ltb_spec max_limit (q_limit req));
      [destruct (Z.ltb_spec max_limit 0)|destruct (Z.ltb_spec (q_limit req) 0)]; lia. }
  rewrite He. destruct (Z.ltb_spec (Z.max 0 (Z.min (q_limit req) max_limit))
                                   (Z.of_nat (length (rand_limit w1 cands1 (limit_conn max_limit true req) ++
                                                      rand_limit w2 cands2 (limit_known max_limit true req))))) as [Hlt|Hge].
  - rewrite firstn_length. lia.
  - exact Hge.
Qed.
