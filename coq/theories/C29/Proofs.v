(** C29 — lemmas about the findNode handler model, for all peer lists, books,
    requests and shuffle choices. *)
From Coq Require Import List NArith ZArith Bool Lia Permutation.
Import ListNotations.
Require Import Aurora.C20.Model Aurora.C29.Model.
Local Open Scope Z_scope.

Set Default Proof Using "Type".

(** ---- generic list facts ---- *)

Lemma aeqb_eq a b : aeqb a b = true <-> a = b.
Proof.
  revert b; induction a as [|x a IH]; intros [|y b]; simpl; split; intros H; try reflexivity; try discriminate.
  - apply andb_true_iff in H as [H1 H2]. apply N.eqb_eq in H1. apply IH in H2. now subst.
  - inversion H; subst. apply andb_true_iff; split; [apply N.eqb_refl | now apply IH].
Qed.

Lemma member_spec a l : member a l = true <-> In a l.
Proof.
  unfold member. rewrite existsb_exists. split.
  - intros (x & Hx & He). apply aeqb_eq in He. now subst.
  - intros H. exists a. split; [exact H|now apply aeqb_eq].
Qed.

Lemma member_false a l : member a l = false <-> ~ In a l.
Proof. rewrite <- member_spec. destruct (member a l); split; congruence. Qed.

Lemma remove_nth_perm {A} (l : list A) j x : nth_error l j = Some x -> Permutation l (x :: remove_nth j l).
Proof.
  revert j; induction l as [|y l IH]; intros [|j] H; simpl in *; try discriminate.
  - inversion H; subst. apply Permutation_refl.
  - apply IH in H. eapply perm_trans; [apply perm_skip; exact H|]. apply perm_swap.
Qed.

Lemma select_perm {A} (w : list nat) : forall l : list A, Permutation (select w l) l.
Proof.
  induction w as [|i w IH]; intros l; simpl; [apply Permutation_refl|].
  destruct l as [|y l']; [apply Permutation_refl|].
  destruct (nth_error (y :: l') (Nat.modulo i (length (y :: l')))) as [x|] eqn:Hn; [|apply Permutation_refl].
  apply Permutation_sym. eapply perm_trans; [apply (remove_nth_perm _ _ _ Hn)|].
  apply perm_skip. apply Permutation_sym. apply IH.
Qed.

Lemma nodup_app {A} (l1 l2 : list A) :
  NoDup l1 -> NoDup l2 -> (forall x, In x l1 -> ~ In x l2) -> NoDup (l1 ++ l2).
Proof.
  induction l1 as [|x l1 IH]; intros H1 H2 Hd; simpl; [exact H2|].
  inversion H1; subst. constructor.
  - intros Hin. apply in_app_or in Hin as [Hin|Hin]; [contradiction|]. apply (Hd x); [now left|exact Hin].
  - apply IH; auto. intros y Hy. apply Hd. now right.
Qed.

Lemma nodup_app_l {A} (l1 l2 : list A) : NoDup (l1 ++ l2) -> NoDup l1.
Proof.
  induction l1 as [|x l1 IH]; intros H; [constructor|]. simpl in H. inversion H; subst. constructor.
  - intros Hin. apply H2. apply in_or_app. now left.
  - now apply IH.
Qed.

Lemma firstn_incl {A} n (l : list A) : incl (firstn n l) l.
Proof. intros x Hx. rewrite <- (firstn_skipn n l). apply in_or_app. now left. Qed.

Lemma firstn_NoDup {A} n (l : list A) : NoDup l -> NoDup (firstn n l).
Proof.
  intros H. rewrite <- (firstn_skipn n l) in H. now apply nodup_app_l in H.
Qed.

Lemma rand_limit_incl {A} w (l : list A) lim : incl (rand_limit w l lim) l.
Proof.
  unfold rand_limit. destruct (lim <? Z.of_nat (length l)); [|apply incl_refl].
  intros x Hx. apply firstn_incl in Hx. eapply Permutation_in; [apply select_perm|exact Hx].
Qed.

Lemma rand_limit_NoDup {A B} (f : A -> B) w (l : list A) lim : NoDup (map f l) -> NoDup (map f (rand_limit w l lim)).
Proof.
  unfold rand_limit. destruct (lim <? Z.of_nat (length l)); [|auto]. intros H.
  rewrite <- firstn_map. apply firstn_NoDup.
  eapply Permutation_NoDup; [|exact H]. apply Permutation_sym. apply Permutation_map. apply select_perm.
Qed.

Lemma rand_limit_length {A} w (l : list A) lim : 0 <= lim -> Z.of_nat (length (rand_limit w l lim)) <= lim.
Proof.
  intros Hl. unfold rand_limit. destruct (lim <? Z.of_nat (length l)) eqn:Hc.
  - rewrite firstn_length. lia.
  - apply Z.ltb_ge in Hc. exact Hc.
Qed.

(** exactly [limit] peers when there are more candidates than the limit, all of them otherwise *)
Lemma rand_limit_length_eq {A} w (l : list A) lim : 0 <= lim ->
  Z.of_nat (length (rand_limit w l lim)) = Z.min lim (Z.of_nat (length l)).
Proof.
  intros Hl. unfold rand_limit. destruct (lim <? Z.of_nat (length l)) eqn:Hc.
  - apply Z.ltb_lt in Hc. rewrite firstn_length. rewrite (Permutation_length (select_perm w l)). lia.
  - apply Z.ltb_ge in Hc. lia.
Qed.

(** ---- boson.Proximity never panics ---- *)

Lemma prox_loop_total capped maxpo : forall b one other i,
  (b <= length one)%nat -> (b <= length other)%nat -> prox_loop capped maxpo one other i b <> Panic.
Proof.
  induction b as [|b IH]; intros one other i H1 H2; cbn [prox_loop]; [discriminate|].
  destruct one as [|x one]; [simpl in H1; lia|]. destruct other as [|y other]; [simpl in H2; lia|].
  destruct (scan_bits (N.lxor x y) 0 8); [discriminate|]. apply IH; simpl in H1, H2; lia.
Qed.

Lemma u8_le n : (u8 n <= n)%N.
Proof. unfold u8. apply N.mod_le. discriminate. Qed.

Lemma proximity_total capped maxpo x y : proximity_gen capped maxpo x y <> Panic.
Proof.
  unfold proximity_gen.
  set (b0 := u8 (maxpo / 8 + 1)). set (l1 := u8 (N.of_nat (length x))). set (l2 := u8 (N.of_nat (length y))).
  assert (H1 : (l1 <= N.of_nat (length x))%N) by apply u8_le.
  assert (H2 : (l2 <= N.of_nat (length y))%N) by apply u8_le.
  apply prox_loop_total.
  - destruct (l1 <? b0)%N eqn:E1; destruct (l2 <? _)%N eqn:E2;
      try apply N.ltb_lt in E1; try apply N.ltb_ge in E1; try apply N.ltb_lt in E2; try apply N.ltb_ge in E2; lia.
  - destruct (l1 <? b0)%N eqn:E1; destruct (l2 <? _)%N eqn:E2;
      try apply N.ltb_lt in E1; try apply N.ltb_ge in E1; try apply N.ltb_lt in E2; try apply N.ltb_ge in E2; lia.
Qed.

Lemma in_array_spec po pos : in_array po pos = true <-> exists v, In v pos /\ v mod 256 = Z.of_N po.
Proof.
  unfold in_array. rewrite existsb_exists. split.
  - intros (v & Hv & He). apply Z.eqb_eq in He. eauto.
  - intros (v & Hv & He). exists v. split; auto. apply Z.eqb_eq. auto.
Qed.

(** ---- the handler ---- *)

Section HandlerProofs.
  Variable maxpo : N.
  Variable max_limit : Z.
  Variable bk : book.
  Variable requester : addr.
  Variable req_public allow_private : bool.
  Variable req : request.

  Notation visit := (visit maxpo bk req_public allow_private req).
  Notation each := (each maxpo bk req_public allow_private req).
  Notation prox a := (proximity_gen false maxpo (q_target req) a).

  Definition filtered (p : brec) : bool := negb allow_private && req_public && b_private p.

  (** what makes a record a candidate when its key [a] is visited *)
  Definition good (a : addr) (p : brec) : Prop :=
    lookup bk a = Some p /\ filtered p = false /\
    exists po, prox a = Ret po /\ in_array po (q_pos req) = true.

  Lemma visit_cases skip resp a skip' resp' :
    visit (Done (skip, resp)) a = Done (skip', resp') ->
    (skip' = skip /\ resp' = resp) \/
    (member a skip = false /\ exists p, lookup bk a = Some p /\
       ((filtered p = true /\ skip' = skip ++ [b_overlay p] /\ resp' = resp) \/
        (good a p /\ skip' = skip /\ resp' = resp ++ [p]))).
  Proof.
    unfold Model.visit. destruct (member a skip) eqn:Hm.
    - intros H; inversion H; auto.
    - destruct (prox a) as [po|] eqn:Hp; [|discriminate].
      destruct (in_array po (q_pos req)) eqn:Hi; [|intros H; inversion H; auto].
      destruct (lookup bk a) as [p|] eqn:Hl; [|intros H; inversion H; auto].
      fold (filtered p). destruct (filtered p) eqn:Hf; intros H; inversion H; subst; right; split; auto; exists p; split; auto.
      right. repeat split; auto. exists po. auto.
  Qed.

  Lemma visit_no_crash st a : visit (Done st) a <> Crash.
  Proof.
    destruct st as [skip resp]. unfold Model.visit. destruct (member a skip); [discriminate|].
    pose proof (proximity_total false maxpo (q_target req) a) as Ht.
    destruct (prox a) as [po|]; [|congruence].
    destruct (in_array po (q_pos req)); [|discriminate].
    destruct (lookup bk a) as [p|]; [|discriminate]. destruct (_ && _); discriminate.
  Qed.

  Lemma fold_visit_no_crash peers : forall st, fold_left visit peers (Done st) <> Crash.
  Proof.
    induction peers as [|a peers IH]; intros st; cbn [fold_left]; [discriminate|].
    pose proof (visit_no_crash st a) as Hv. destruct (visit (Done st) a) as [st'|]; [apply IH|congruence].
  Qed.

  (** invariant of one pass started with skip list [skip0]: every candidate was
      looked up under a visited key that was not skipped, and is [good] *)
  Definition inv (skip0 : list addr) (done : list addr) (skip : list addr) (resp : list brec) : Prop :=
    incl skip0 skip /\
    forall p, In p resp -> exists a, In a done /\ ~ In a skip0 /\ good a p.

  Lemma fold_visit_inv skip0 peers : forall done skip resp skip' resp',
    inv skip0 done skip resp ->
    fold_left visit peers (Done (skip, resp)) = Done (skip', resp') ->
    inv skip0 (rev peers ++ done) skip' resp'.
  Proof.
    induction peers as [|a peers IH]; intros done skip resp skip' resp' Hinv Hf; cbn [fold_left rev app] in *.
    - inversion Hf; subst. exact Hinv.
    - destruct (visit (Done (skip, resp)) a) as [[skip1 resp1]|] eqn:Hv.
      2:{ exfalso. clear -Hf. induction peers; cbn [fold_left] in Hf; [discriminate|auto]. }
      rewrite <- app_assoc. simpl. apply (IH (a :: done) skip1 resp1); auto.
      destruct Hinv as [Hi Hr]. apply visit_cases in Hv as [[-> ->]|(Hm & p & Hl & [(Hf' & -> & ->)|(Hg & -> & ->)])].
      + split; auto. intros q Hq. destruct (Hr q Hq) as (a' & Ha' & Hn & Hg). exists a'. split; [now right|auto].
      + split; [intros x Hx; apply in_or_app; left; auto|].
        intros q Hq. destruct (Hr q Hq) as (a' & Ha' & Hn & Hg). exists a'. split; [now right|auto].
      + split; auto. intros q Hq. apply in_app_or in Hq as [Hq|[<-|[]]].
        * destruct (Hr q Hq) as (a' & Ha' & Hn & Hg'). exists a'. split; [now right|auto].
        * exists a. split; [now left|]. split; auto.
          apply member_false in Hm. intros Hin. apply Hm. apply Hi. exact Hin.
  Qed.

  Lemma each_inv peers skip0 skip resp :
    each peers skip0 = Done (skip, resp) ->
    incl skip0 skip /\ forall p, In p resp -> exists a, In a peers /\ ~ In a skip0 /\ good a p.
  Proof.
    unfold Model.each. intros H.
    apply (fold_visit_inv skip0 peers [] skip0 [] skip resp) in H.
    - destruct H as [Hi Hr]. split; auto. intros p Hp. destruct (Hr p Hp) as (a & Ha & Hrest).
      exists a. split; auto. rewrite app_nil_r in Ha. now apply in_rev.
    - split; [apply incl_refl|]. intros p [].
  Qed.

  Definition book_wf : Prop := forall a p, lookup bk a = Some p -> b_overlay p = a.

  (** distinctness of one pass *)
  Lemma fold_visit_nodup : book_wf -> forall peers done skip resp skip' resp',
    NoDup (peers ++ done) ->
    NoDup (map b_overlay resp) -> (forall p, In p resp -> In (b_overlay p) done) ->
    fold_left visit peers (Done (skip, resp)) = Done (skip', resp') ->
    NoDup (map b_overlay resp').
  Proof.
    intros Hwf. induction peers as [|a peers IH]; intros done skip resp skip' resp' Hnd Hn Hd Hf; cbn [fold_left app] in *.
    - inversion Hf; subst. exact Hn.
    - destruct (visit (Done (skip, resp)) a) as [[skip1 resp1]|] eqn:Hv.
      2:{ exfalso. clear -Hf. induction peers; cbn [fold_left] in Hf; [discriminate|auto]. }
      assert (Hnd' : NoDup (peers ++ a :: done)).
      { eapply Permutation_NoDup; [|exact Hnd]. apply Permutation_middle. }
      apply (IH (a :: done) skip1 resp1 skip' resp'); auto.
      + apply visit_cases in Hv as [[-> ->]|(Hm & p & Hl & [(Hf' & -> & ->)|(Hg & -> & ->)])]; auto.
        rewrite map_app. simpl. apply nodup_app; auto.
        * constructor; [intros []|constructor].
        * intros x Hx [<-|[]]. apply in_map_iff in Hx as (q & Hq & Hqin).
          apply Hd in Hqin. rewrite Hq in Hqin. rewrite (Hwf a p Hl) in Hqin.
          apply NoDup_cons_iff in Hnd as [Hna _]. apply Hna. apply in_or_app. now right.
      + apply visit_cases in Hv as [[-> ->]|(Hm & p & Hl & [(Hf' & -> & ->)|(Hg & -> & ->)])].
        * intros q Hq. right. auto.
        * intros q Hq. right. auto.
        * intros q Hq. apply in_app_or in Hq as [Hq|[<-|[]]]; [right; auto|left]. symmetry. apply (Hwf a p Hl).
  Qed.
End HandlerProofs.
