(** C20 — correspondence: the harness feeds the same inputs to the Go
    functions and records what they returned; [check_case] recomputes the
    model's answer. *)
From Coq Require Import List NArith ZArith Bool.
Import ListNotations.
Require Import Aurora.Base.Corr Aurora.Consts Aurora.C20.Model.
Local Open Scope N_scope.

Definition MaxPO : N := Z.to_N Consts.boson_MaxPO.
Definition ExtendedPO : N := Z.to_N Consts.boson_ExtendedPO.

(** observation of one call; a Go panic is [None] for the proximity calls *)
Inductive case :=
| CProx (x y : list N) (obs : option N)            (* boson.Proximity *)
| CExt (x y : list N) (obs : option N)             (* boson.ExtendedProximity *)
| CCmp (a x y : list N) (obs : option Z)           (* boson.DistanceCmp; None = error *)
| CCloser (a x y : list N) (obs : option bool)     (* a.Closer(x,y); None = error *)
| CDist (x y : list N) (obs : option N).           (* boson.Distance as integer; None = error *)

Definition res_opt (r : res) : option N := match r with Ret n => Some n | Panic => None end.

Definition model_out (c : case) : option Z :=
  match c with
  | CProx x y _ => option_map Z.of_N (res_opt (proximity_gen false MaxPO x y))
  | CExt x y _ => option_map Z.of_N (res_opt (proximity_gen true ExtendedPO x y))
  | CCmp a x y _ => distance_cmp a x y
  | CCloser a x y _ => option_map (fun b : bool => if b then 1%Z else 0%Z) (closer a x y)
  | CDist x y _ => option_map Z.of_N (distance x y)
  end.
Definition obs_out (c : case) : option Z :=
  match c with
  | CProx _ _ o | CExt _ _ o | CDist _ _ o => option_map Z.of_N o
  | CCmp _ _ _ o => o
  | CCloser _ _ _ o => option_map (fun b : bool => if b then 1%Z else 0%Z) o
  end.
Definition check_case (c : case) : bool := option_eqb Z.eqb (model_out c) (obs_out c).
Definition explain_case (c : case) := (model_out c, obs_out c).
