From Coq Require Import List NArith ZArith Bool Lia Arith.
From Coq Require Import ZifyBool ZifyNat ZifyN.
Import ListNotations.
Require Import Aurora.C20.Model.
Local Open Scope N_scope.
Ltac Zify.zify_post_hook ::= Z.div_mod_to_equations.

(** * scan_bits versus lcp on one byte *)

Definition tbits (x : N) (j f : nat) : list bool :=
  map (fun j => N.testbit x (N.of_nat (7 - j))) (seq j f).

Lemma scan_bits_lcp x y j f :
  match scan_bits (N.lxor x y) j f with
  | None => tbits x j f = tbits y j f
  | Some k => (j <= k < j + f)%nat /\ lcp (tbits x j f) (tbits y j f) = (k - j)%nat
  end.
Proof.
  revert j; induction f as [|f IH]; intros j; cbn [scan_bits].
  - reflexivity.
  - unfold tbits; cbn [seq map]. rewrite N.lxor_spec.
    destruct (N.testbit x (N.of_nat (7 - j))) eqn:Hx, (N.testbit y (N.of_nat (7 - j))) eqn:Hy;
      cbn [xorb lcp Bool.eqb].
    + specialize (IH (S j)). destruct (scan_bits (N.lxor x y) (S j) f) as [k|].
      * destruct IH as [Hk Hl]. split; [lia|]. fold (tbits x (S j) f) (tbits y (S j) f).
        rewrite Hl. lia.
      * fold (tbits x (S j) f) (tbits y (S j) f). now rewrite IH.
    + split; [lia|]. f_equal; lia.
    + split; [lia|]. f_equal; lia.
    + specialize (IH (S j)). destruct (scan_bits (N.lxor x y) (S j) f) as [k|].
      * destruct IH as [Hk Hl]. split; [lia|]. fold (tbits x (S j) f) (tbits y (S j) f).
        rewrite Hl. lia.
      * fold (tbits x (S j) f) (tbits y (S j) f). now rewrite IH.
Qed.

Lemma bits_of_byte_tbits x : bits_of_byte x = tbits x 0 8.
Proof. reflexivity. Qed.

Lemma bits_of_byte_length x : length (bits_of_byte x) = 8%nat.
Proof. reflexivity. Qed.

Lemma lcp_app_same (p a b : list bool) : lcp (p ++ a) (p ++ b) = (length p + lcp a b)%nat.
Proof. induction p as [|c p IH]; cbn; [reflexivity|]. rewrite Bool.eqb_reflx. now rewrite IH. Qed.

Lemma lcp_app_diff (p q a b : list bool) :
  length p = length q -> (lcp p q < length p)%nat -> lcp (p ++ a) (q ++ b) = lcp p q.
Proof.
  revert q; induction p as [|c p IH]; intros [|d q] Hl Hlt; cbn in *; try lia.
  destruct (Bool.eqb c d); [|reflexivity]. f_equal. apply IH; lia.
Qed.

Lemma lcp_le_length a b : (lcp a b <= length a)%nat.
Proof. revert b; induction a as [|x a IH]; intros [|y b]; cbn; try lia. destruct (Bool.eqb x y); [specialize (IH b)|]; lia. Qed.

Lemma lcp_full_eq : forall p q : list bool, length p = length q -> lcp p q = length p -> p = q.
Proof.
  induction p as [|c p IH]; intros [|d q] Hl He; cbn in *; try lia; try reflexivity.
  destruct c, d; cbn in *; try lia; f_equal; apply IH; lia.
Qed.

(** * the outer loop *)

Lemma bits_length l : length (bits l) = (8 * length l)%nat.
Proof. induction l as [|x l IH]; cbn [bits flat_map length]; [reflexivity|]. rewrite app_length. fold (bits l). rewrite IH, bits_of_byte_length. lia. Qed.

Lemma prox_loop_spec capped maxpo : forall b one other i,
  (b <= length one)%nat -> (b <= length other)%nat ->
  let L := lcp (bits (firstn b one)) (bits (firstn b other)) in
  prox_loop capped maxpo one other i b =
    if (L <? 8 * b)%nat then
      let po := u8 (N.of_nat (i * 8 + L)) in
      Ret (if capped then (if po <? maxpo then po else maxpo) else po)
    else Ret maxpo.
Proof.
  induction b as [|b IH]; intros one other i H1 H2.
  - cbn. reflexivity.
  - destruct one as [|x one]; [cbn in H1; lia|]. destruct other as [|y other]; [cbn in H2; lia|].
    cbn [prox_loop firstn bits flat_map]. fold (bits (firstn b one)) (bits (firstn b other)).
    pose proof (scan_bits_lcp x y 0 8) as Hs. rewrite <- !bits_of_byte_tbits in Hs.
    destruct (scan_bits (N.lxor x y) 0 8) as [k|].
    + destruct Hs as [Hk Hl].
      rewrite lcp_app_diff by (rewrite ?bits_of_byte_length; lia).
      rewrite Hl. replace (k - 0)%nat with k by lia.
      destruct (Nat.ltb_spec k (8 * S b)); [reflexivity | lia].
    + rewrite Hs, lcp_app_same, bits_of_byte_length.
      cbn in H1, H2. rewrite IH by lia. cbv zeta.
      set (L := lcp (bits (firstn b one)) (bits (firstn b other))).
      destruct (Nat.ltb_spec L (8 * b)); destruct (Nat.ltb_spec (8 + L) (8 * S b)); try lia.
      * replace (S i * 8 + L)%nat with (i * 8 + (8 + L))%nat by lia. reflexivity.
      * reflexivity.
Qed.

Lemma firstn_bits_lcp b x y :
  length x = length y -> (b <= length x)%nat ->
  let L := lcp (bits (firstn b x)) (bits (firstn b y)) in
  if (L <? 8 * b)%nat then lcp_bits x y = L else (8 * b <= lcp_bits x y)%nat.
Proof.
  intros Hl Hb L. unfold lcp_bits.
  assert (Ex : bits x = bits (firstn b x) ++ bits (skipn b x)).
  { rewrite <- (firstn_skipn b x) at 1. unfold bits. apply flat_map_app. }
  assert (Ey : bits y = bits (firstn b y) ++ bits (skipn b y)).
  { rewrite <- (firstn_skipn b y) at 1. unfold bits. apply flat_map_app. }
  rewrite Ex, Ey.
  assert (Hlen : length (bits (firstn b x)) = (8 * b)%nat) by (rewrite bits_length, firstn_length; lia).
  assert (Hlen' : length (bits (firstn b y)) = (8 * b)%nat) by (rewrite bits_length, firstn_length; lia).
  destruct (Nat.ltb_spec L (8 * b)) as [Hlt|Hge].
  - apply lcp_app_diff; [lia|]. fold L. lia.
  - (* all of the first b bytes agree *)
    assert (HL : L = (8 * b)%nat) by (pose proof (lcp_le_length (bits (firstn b x)) (bits (firstn b y))); fold L in H; lia).
    assert (Heq : bits (firstn b x) = bits (firstn b y)).
    { apply lcp_full_eq; [lia | fold L; lia]. }
    rewrite Heq, lcp_app_same. lia.
Qed.

(** * main statements, parametric in the cap *)

Lemma proximity_uncapped maxpo x y :
  maxpo mod 8 = 7 -> maxpo < 248 ->
  length x = length y -> (length x < 256)%nat -> maxpo < 8 * N.of_nat (length x) ->
  proximity_gen false maxpo x y = Ret (N.min (N.of_nat (lcp_bits x y)) maxpo).
Proof.
  intros Hm Hlt Hl H256 Hlong. unfold proximity_gen. rewrite <- Hl.
  assert (Hb : u8 (maxpo / 8 + 1) = maxpo / 8 + 1) by (unfold u8; apply N.mod_small; lia).
  assert (Hn : u8 (N.of_nat (length x)) = N.of_nat (length x)) by (unfold u8; apply N.mod_small; lia).
  rewrite Hb, Hn.
  assert (Hble : maxpo / 8 + 1 <= N.of_nat (length x)) by lia.
  destruct (N.ltb_spec (N.of_nat (length x)) (maxpo / 8 + 1)); [lia|].
  destruct (N.ltb_spec (N.of_nat (length x)) (maxpo / 8 + 1)); [lia|].
  assert (Hbn : (N.to_nat (maxpo / 8 + 1) <= length x)%nat) by lia.
  assert (Hbv : N.of_nat (N.to_nat (maxpo / 8 + 1)) = maxpo / 8 + 1) by lia.
  remember (N.to_nat (maxpo / 8 + 1)) as b eqn:Eb.
  rewrite prox_loop_spec by lia. cbv zeta.
  pose proof (firstn_bits_lcp b x y Hl Hbn) as Hf. cbv zeta in Hf.
  remember (lcp (bits (firstn b x)) (bits (firstn b y))) as L eqn:EL. clear EL.
  assert (H8b : (8 * b)%nat = N.to_nat (maxpo + 1)) by lia.
  destruct (Nat.ltb_spec L (8 * b)) as [Hlt'|Hge].
  - rewrite Hf. cbn [Nat.mul Nat.add]. f_equal. unfold u8. rewrite N.mod_small by lia. lia.
  - f_equal. lia.
Qed.

Lemma proximity_capped maxpo x y :
  maxpo < 248 ->
  length x = length y -> (length x < 256)%nat -> maxpo < 8 * N.of_nat (length x) ->
  proximity_gen true maxpo x y = Ret (N.min (N.of_nat (lcp_bits x y)) maxpo).
Proof.
  intros Hlt Hl H256 Hlong. unfold proximity_gen. rewrite <- Hl.
  assert (Hb : u8 (maxpo / 8 + 1) = maxpo / 8 + 1) by (unfold u8; apply N.mod_small; lia).
  assert (Hn : u8 (N.of_nat (length x)) = N.of_nat (length x)) by (unfold u8; apply N.mod_small; lia).
  rewrite Hb, Hn.
  destruct (N.ltb_spec (N.of_nat (length x)) (maxpo / 8 + 1)); [lia|].
  destruct (N.ltb_spec (N.of_nat (length x)) (maxpo / 8 + 1)); [lia|].
  assert (Hbn : (N.to_nat (maxpo / 8 + 1) <= length x)%nat) by lia.
  assert (Hbv : N.of_nat (N.to_nat (maxpo / 8 + 1)) = maxpo / 8 + 1) by lia.
  remember (N.to_nat (maxpo / 8 + 1)) as b eqn:Eb.
  rewrite prox_loop_spec by lia. cbv zeta.
  pose proof (firstn_bits_lcp b x y Hl Hbn) as Hf. cbv zeta in Hf.
  remember (lcp (bits (firstn b x)) (bits (firstn b y))) as L eqn:EL. clear EL.
  assert (H8b : (maxpo < N.of_nat (8 * b))) by lia.
  assert (H8b' : (N.of_nat (8 * b) <= 256)) by lia.
  destruct (Nat.ltb_spec L (8 * b)) as [Hlt'|Hge].
  - rewrite Hf. cbn [Nat.mul Nat.add]. f_equal. unfold u8. rewrite N.mod_small by lia.
    destruct (N.ltb_spec (N.of_nat L) maxpo); lia.
  - f_equal. lia.
Qed.

(** symmetry holds with no side condition at all *)
Lemma prox_loop_sym capped maxpo : forall b one other i,
  prox_loop capped maxpo one other i b = prox_loop capped maxpo other one i b.
Proof.
  induction b as [|b IH]; intros one other i; cbn [prox_loop]; [reflexivity|].
  destruct one as [|x one], other as [|y other]; try reflexivity.
  rewrite (N.lxor_comm y x). destruct (scan_bits (N.lxor x y) 0 8); [reflexivity|apply IH].
Qed.

Lemma proximity_sym capped maxpo x y : proximity_gen capped maxpo x y = proximity_gen capped maxpo y x.
Proof.
  unfold proximity_gen. rewrite prox_loop_sym. f_equal. f_equal.
  set (b := u8 (maxpo / 8 + 1)). set (l1 := u8 (N.of_nat (length x))). set (l2 := u8 (N.of_nat (length y))).
  destruct (N.ltb_spec l1 b), (N.ltb_spec l2 b);
    repeat match goal with |- context [?a <? ?c] => destruct (N.ltb_spec a c) end; lia.
Qed.

(** * distance *)

Lemma lxor_byte a b : isbyte a -> isbyte b -> isbyte (N.lxor a b).
Proof.
  unfold isbyte; intros Ha Hb. change 256 with (2 ^ 8) in *.
  destruct (N.eq_dec (N.lxor a b) 0) as [->|Hnz]; [reflexivity|].
  apply N.log2_lt_pow2; [lia|].
  pose proof (N.log2_lxor a b).
  assert (N.log2 a < 8) by (destruct (N.eq_dec a 0) as [->|]; [cbn; lia | apply N.log2_lt_pow2; lia]).
  assert (N.log2 b < 8) by (destruct (N.eq_dec b 0) as [->|]; [cbn; lia | apply N.log2_lt_pow2; lia]).
  lia.
Qed.

Fixpoint be_r (l : list N) : N :=
  match l with [] => 0 | a :: l' => a * 256 ^ N.of_nat (length l') + be_r l' end.

Lemma be_fold_acc l : forall acc, fold_left (fun acc b => acc * 256 + b) l acc = acc * 256 ^ N.of_nat (length l) + be_r l.
Proof.
  induction l as [|a l IH]; intros acc; cbn [fold_left be_r length].
  - cbn. lia.
  - rewrite IH. rewrite Nat2N.inj_succ, N.pow_succ_r'. lia.
Qed.
Lemma be_be_r l : be l = be_r l.
Proof. unfold be. rewrite be_fold_acc. lia. Qed.

Lemma be_r_bound l : Forall isbyte l -> be_r l < 256 ^ N.of_nat (length l).
Proof.
  induction 1 as [|a l Ha Hl IH]; cbn [be_r length]; [cbn; lia|].
  rewrite Nat2N.inj_succ, N.pow_succ_r'. unfold isbyte in Ha. nia.
Qed.

Lemma xor_bytes_length x a : length x = length a -> length (xor_bytes x a) = length x.
Proof. revert a; induction x as [|c x IH]; intros [|d a]; cbn; intros; try lia. f_equal; apply IH; lia. Qed.

Lemma xor_bytes_isbyte x a : Forall isbyte x -> Forall isbyte a -> Forall isbyte (xor_bytes x a).
Proof.
  intros Hx; revert a; induction Hx as [|c x Hc Hx IH]; intros a Ha; [constructor|].
  destruct Ha as [|d a Hd Ha]; [constructor|]. cbn. constructor; [now apply lxor_byte | now apply IH].
Qed.

Definition cmp_to_z (c : comparison) : Z := match c with Lt => 1%Z | Eq => 0%Z | Gt => (-1)%Z end.

Lemma compare_add_l p a b : (p + a ?= p + b) = (a ?= b).
Proof.
  destruct (N.compare_spec a b) as [->|H|H];
    [apply N.compare_refl | apply N.compare_lt_iff; lia | apply N.compare_gt_iff; lia].
Qed.

Lemma cmp_loop_spec : forall a x y,
  length a = length x -> length a = length y ->
  Forall isbyte a -> Forall isbyte x -> Forall isbyte y ->
  cmp_loop a x y = cmp_to_z (be_r (xor_bytes x a) ?= be_r (xor_bytes y a)).
Proof.
  induction a as [|ai a IH]; intros [|xi x] [|yi y] Hx Hy Fa Fx Fy; cbn in Hx, Hy; try lia.
  - reflexivity.
  - inversion Fa as [|? ? Hai Fa']; inversion Fx as [|? ? Hxi Fx']; inversion Fy as [|? ? Hyi Fy']; subst.
    cbn [cmp_loop xor_bytes be_r].
    rewrite !xor_bytes_length by lia.
    assert (Hbx := be_r_bound _ (xor_bytes_isbyte _ _ Fx' Fa')).
    assert (Hby := be_r_bound _ (xor_bytes_isbyte _ _ Fy' Fa')).
    rewrite xor_bytes_length in Hbx, Hby by lia.
    assert (Hxy : length y = length x) by lia. rewrite Hxy in *.
    remember (256 ^ N.of_nat (length x)) as P eqn:EP.
    assert (Hdx := lxor_byte _ _ Hxi Hai). assert (Hdy := lxor_byte _ _ Hyi Hai). unfold isbyte in Hdx, Hdy.
    destruct (N.eqb_spec (N.lxor xi ai) (N.lxor yi ai)) as [He|Hne].
    + rewrite He. rewrite IH by (assumption || lia).
      f_equal. symmetry. apply compare_add_l.
    + destruct (N.ltb_spec (N.lxor xi ai) (N.lxor yi ai)) as [Hlt|Hge].
      * assert (Hc : (N.lxor xi ai * P + be_r (xor_bytes x a) ?= N.lxor yi ai * P + be_r (xor_bytes y a)) = Lt)
          by (apply N.compare_lt_iff; nia). now rewrite Hc.
      * assert (Hc : (N.lxor xi ai * P + be_r (xor_bytes x a) ?= N.lxor yi ai * P + be_r (xor_bytes y a)) = Gt)
          by (apply N.compare_gt_iff; nia). now rewrite Hc.
Qed.

Lemma distance_cmp_spec a x y :
  length a = length x -> length a = length y ->
  Forall isbyte a -> Forall isbyte x -> Forall isbyte y ->
  distance_cmp a x y = Some (cmp_to_z (be (xor_bytes x a) ?= be (xor_bytes y a))).
Proof.
  intros Hx Hy Fa Fx Fy. unfold distance_cmp.
  rewrite (proj2 (Nat.eqb_eq _ _) Hx), (proj2 (Nat.eqb_eq _ _) Hy). cbn [andb].
  rewrite !be_be_r. f_equal. now apply cmp_loop_spec.
Qed.

Lemma distance_cmp_len_err a x y :
  (length a <> length x \/ length a <> length y) -> distance_cmp a x y = None.
Proof.
  intros H. unfold distance_cmp.
  destruct (Nat.eqb_spec (length a) (length x)), (Nat.eqb_spec (length a) (length y)); cbn; try reflexivity; lia.
Qed.

(** [x |-> be (x xor a)] is injective on equal-length byte strings *)
Lemma be_r_inj : forall u v, length u = length v -> Forall isbyte u -> Forall isbyte v -> be_r u = be_r v -> u = v.
Proof.
  induction u as [|c u IH]; intros [|d v] Hl Fu Fv He; cbn in Hl; try lia; [reflexivity|].
  inversion Fu as [|? ? Hc Fu']; inversion Fv as [|? ? Hd Fv']; subst. cbn [be_r] in He.
  assert (Hbu := be_r_bound _ Fu'). assert (Hbv := be_r_bound _ Fv').
  assert (Hvu : length v = length u) by lia. rewrite Hvu in *.
  remember (256 ^ N.of_nat (length u)) as P eqn:EP. unfold isbyte in Hc, Hd.
  assert (c = d) by nia. subst d. f_equal. apply IH; try assumption; [now symmetry | now apply N.add_cancel_l in He].
Qed.

Lemma xor_bytes_inj : forall x y a, length x = length a -> length y = length a -> xor_bytes x a = xor_bytes y a -> x = y.
Proof.
  induction x as [|c x IH]; intros [|d y] [|e a] Hx Hy He; cbn in *; try lia; try reflexivity.
  inversion He as [[H1 H2]]. f_equal; [|apply (IH y a); [lia | lia | exact H2]].
  apply (f_equal (fun t => N.lxor t e)) in H1. rewrite !N.lxor_assoc, N.lxor_nilpotent, !N.lxor_0_r in H1. exact H1.
Qed.

Lemma distance_cmp_zero_iff a x y :
  length a = length x -> length a = length y ->
  Forall isbyte a -> Forall isbyte x -> Forall isbyte y ->
  (distance_cmp a x y = Some 0%Z <-> x = y).
Proof.
  intros Hx Hy Fa Fx Fy. rewrite distance_cmp_spec by assumption. split.
  - intros H. inversion H as [Hc]. destruct (be (xor_bytes x a) ?= be (xor_bytes y a)) eqn:E; try discriminate.
    apply N.compare_eq in E. rewrite !be_be_r in E. apply be_r_inj in E.
    + apply (xor_bytes_inj x y a); [lia | lia | exact E].
    + rewrite !xor_bytes_length by lia. lia.
    + now apply xor_bytes_isbyte.
    + now apply xor_bytes_isbyte.
  - intros ->. now rewrite N.compare_refl.
Qed.

(** Closer(a; x, y) = "a is closer to x than y is": strict total order for a fixed target *)
Definition closer_to (t u v : list N) : Prop := closer u t v = Some true.

Lemma closer_to_spec t u v :
  length t = length u -> length t = length v ->
  Forall isbyte t -> Forall isbyte u -> Forall isbyte v ->
  (closer_to t u v <-> be (xor_bytes u t) < be (xor_bytes v t)).
Proof.
  intros Hu Hv Ft Fu Fv. unfold closer_to, closer. rewrite distance_cmp_spec by assumption. cbn [option_map].
  destruct (be (xor_bytes u t) ?= be (xor_bytes v t)) eqn:E; cbn.
  - apply N.compare_eq in E. split; [discriminate|lia].
  - apply N.compare_lt_iff in E. split; [auto|reflexivity].
  - apply N.compare_gt_iff in E. split; [discriminate|lia].
Qed.
