(** C20 — property theorems only. Each is closed by [exact <lemma>] and
    followed by [Print Assumptions]. The general lemmas are parametric in the
    cap; here they are instantiated at the constants re-extracted from
    pkg/boson/boson.go on every run ([Consts.v]). *)
From Coq Require Import List NArith ZArith Bool.
Import ListNotations.
Require Import Aurora.Consts Aurora.C20.Model Aurora.C20.Proofs.
Local Open Scope N_scope.

Definition MaxPO : N := Z.to_N Consts.boson_MaxPO.
Definition ExtendedPO : N := Z.to_N Consts.boson_ExtendedPO.
Definition proximity := proximity_gen false MaxPO.
Definition ext_proximity := proximity_gen true ExtendedPO.

(** side conditions on the constants, re-checked by computation on every run *)
Lemma consts_ok_C20 :
  (MaxPO mod 8 =? 7) && (MaxPO <? 248) && (ExtendedPO <? 248) && (0 <=? Consts.boson_MaxPO)%Z && (0 <=? Consts.boson_ExtendedPO)%Z = true.
Proof. vm_compute. reflexivity. Qed.

Theorem C20_proximity : forall x y : list N,
  length x = length y -> (length x < 256)%nat -> MaxPO < 8 * N.of_nat (length x) ->
  proximity x y = Ret (N.min (N.of_nat (lcp_bits x y)) MaxPO).
Proof. intros x y. exact (proximity_uncapped MaxPO x y eq_refl eq_refl). Qed.
Print Assumptions C20_proximity.

Theorem C20_ext_proximity : forall x y : list N,
  length x = length y -> (length x < 256)%nat -> ExtendedPO < 8 * N.of_nat (length x) ->
  ext_proximity x y = Ret (N.min (N.of_nat (lcp_bits x y)) ExtendedPO).
Proof. intros x y. exact (proximity_capped ExtendedPO x y eq_refl). Qed.
Print Assumptions C20_ext_proximity.

Theorem C20_symmetric : forall x y : list N,
  proximity x y = proximity y x /\ ext_proximity x y = ext_proximity y x.
Proof. intros x y. exact (conj (proximity_sym false MaxPO x y) (proximity_sym true ExtendedPO x y)). Qed.
Print Assumptions C20_symmetric.

Theorem C20_cmp_is_be_order : forall a x y : list N,
  length a = length x -> length a = length y ->
  Forall isbyte a -> Forall isbyte x -> Forall isbyte y ->
  distance_cmp a x y = Some (cmp_to_z (be (xor_bytes x a) ?= be (xor_bytes y a))).
Proof. exact distance_cmp_spec. Qed.
Print Assumptions C20_cmp_is_be_order.

Theorem C20_cmp_zero_iff_equal : forall a x y : list N,
  length a = length x -> length a = length y ->
  Forall isbyte a -> Forall isbyte x -> Forall isbyte y ->
  (distance_cmp a x y = Some 0%Z <-> x = y).
Proof. exact distance_cmp_zero_iff. Qed.
Print Assumptions C20_cmp_zero_iff_equal.

(** "ordering addresses by closeness to a target agrees with comparing their
    XOR distances as big integers" *)
Theorem C20_closer_is_xor_order : forall t u v : list N,
  length t = length u -> length t = length v ->
  Forall isbyte t -> Forall isbyte u -> Forall isbyte v ->
  (closer u t v = Some true <-> be (xor_bytes u t) < be (xor_bytes v t)).
Proof. exact closer_to_spec. Qed.
Print Assumptions C20_closer_is_xor_order.

(** non-vacuity: 32-byte addresses meet every hypothesis *)
Example C20_hyps_satisfiable :
  let x := repeat 170 32 in let y := repeat 171 32 in
  length x = length y /\ (length x < 256)%nat /\ ExtendedPO < 8 * N.of_nat (length x) /\
  Forall isbyte x /\ proximity x y = Ret 7 /\ ext_proximity x (repeat 170 4 ++ [168] ++ repeat 0 27) = Ret 36.
Proof. vm_compute. repeat split; try reflexivity; repeat constructor. Qed.
