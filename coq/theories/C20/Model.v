(** C20 — model of pkg/boson/proximity.go and pkg/boson/distance.go.
    Definitions only (computable); proofs are in Proofs.v.

    Bytes are [N]; only the low 8 bits of a value are ever inspected by the
    proximity scan, so no range hypothesis is needed there.  [uint8]
    arithmetic of the Go code is written out with [u8]. *)
From Coq Require Import List NArith ZArith Bool.
Import ListNotations.
Local Open Scope N_scope.

Definition u8 (n : N) : N := n mod 256.

Inductive res := Ret (n : N) | Panic.

(** inner loop [for j := uint8(0); j < 8; j++ { if (oxo>>(7-j))&1 != 0 {return ..} }]:
    first [j] in [j, j+fuel) whose bit [7-j] is set *)
Fixpoint scan_bits (oxo : N) (j : nat) (fuel : nat) : option nat :=
  match fuel with
  | O => None
  | S f => if N.testbit oxo (N.of_nat (7 - j)) then Some j else scan_bits oxo (S j) f
  end.

(** outer loop, [b] iterations left, at byte index [i].  An index beyond
    either slice is a Go run-time panic. [capped]: ExtendedProximity (after
    the fix) returns min(i*8+j, maxpo); Proximity returns i*8+j. *)
Fixpoint prox_loop (capped : bool) (maxpo : N) (one other : list N) (i : nat) (b : nat) {struct b} : res :=
  match b with
  | O => Ret maxpo
  | S b' =>
      match one, other with
      | x :: one', y :: other' =>
          match scan_bits (N.lxor x y) 0 8 with
          | Some j =>
              let po := u8 (N.of_nat (i * 8 + j)) in
              Ret (if capped then (if po <? maxpo then po else maxpo) else po)
          | None => prox_loop capped maxpo one' other' (S i) b'
          end
      | _, _ => Panic
      end
  end.

Definition proximity_gen (capped : bool) (maxpo : N) (one other : list N) : res :=
  let b := u8 (maxpo / 8 + 1) in
  let l1 := u8 (N.of_nat (length one)) in
  let b := if l1 <? b then l1 else b in
  let l2 := u8 (N.of_nat (length other)) in
  let b := if l2 <? b then l2 else b in
  prox_loop capped maxpo one other 0 (N.to_nat b).

(** ---- distance.go ---- *)

Fixpoint xor_bytes (x y : list N) : list N :=
  match x, y with
  | a :: x', b :: y' => N.lxor a b :: xor_bytes x' y'
  | _, _ => []
  end.

(** [DistanceRaw]: error (None) on length mismatch *)
Definition distance_raw (x y : list N) : option (list N) :=
  if Nat.eqb (length x) (length y) then Some (xor_bytes x y) else None.

(** big-endian value: big.Int.SetBytes *)
Definition be (l : list N) : N := fold_left (fun acc b => acc * 256 + b) l 0.

Definition distance (x y : list N) : option N := option_map be (distance_raw x y).

(** the loop of [DistanceCmp] over three equal-length slices *)
Fixpoint cmp_loop (a x y : list N) : Z :=
  match a, x, y with
  | ai :: a', xi :: x', yi :: y' =>
      let dx := N.lxor xi ai in
      let dy := N.lxor yi ai in
      if dx =? dy then cmp_loop a' x' y'
      else if dx <? dy then 1%Z else (-1)%Z
  | _, _, _ => 0%Z
  end.

Definition distance_cmp (a x y : list N) : option Z :=
  if Nat.eqb (length a) (length x) && Nat.eqb (length a) (length y)
  then Some (cmp_loop a x y) else None.

(** [Address.Closer]: a.Closer(x, y) = DistanceCmp(x, a, y) == 1 *)
Definition closer (a x y : list N) : option bool :=
  option_map (fun c => Z.eqb c 1) (distance_cmp x a y).

(** ---- independent specification objects ---- *)

Definition bits_of_byte (x : N) : list bool :=
  map (fun j => N.testbit x (N.of_nat (7 - j))) (seq 0 8).
Definition bits (l : list N) : list bool := flat_map bits_of_byte l.

Fixpoint lcp (a b : list bool) : nat :=
  match a, b with
  | x :: a', y :: b' => if Bool.eqb x y then S (lcp a' b') else O
  | _, _ => O
  end.
Definition lcp_bits (x y : list N) : nat := lcp (bits x) (bits y).

Definition isbyte (b : N) : Prop := b < 256.
