(** C15 — the closed statements that Props.v cites. *)
From Coq Require Import List NArith ZArith Bool Lia.
Import ListNotations.
Require Import Aurora.C11.Maps Aurora.C15.Model Aurora.C15.ProofsWalk Aurora.C15.ProofsStore Aurora.C15.ProofsPin
  Aurora.C15.ProofsProbe Aurora.C15.ProofsInv.
Local Open Scope N_scope.

(** the standing assumptions on the references a history operates on:
    [U] lists them without repetition, every one of them is stored (the
    whole-file probe of the traversal succeeds on the stored bytes [dm]: every
    chunk of the tree is there), and the counters cannot overflow a uint64
    even if all of them are pinned at the same time *)
Definition Setting (cs : N) (dm : list (addr * bytes)) (U : list addr) (base : addr -> N) : Prop :=
  NoDup U /\
  (forall r, In r U -> probe cs dm r = PROk) /\
  (forall c, base c + total_all cs dm U c < W64).

Lemma probe_stored_tl cs dm r : probe cs dm r = PROk -> stored cs dm r (tl cs dm r).
Proof.
  intros H. destruct (probe_stored cs dm r H) as (l & E & Hall). unfold stored, tl. rewrite E. split; [reflexivity|exact Hall].
Qed.

Definition cnt (ps : pstate) (c : addr) : N := cntP (s_pin (p_ls ps)) c.

Section Top.
  Variable cs capacity : N.
  Variable po : addr -> N.
  Variable dm : list (addr * bytes).
  Variable U : list addr.
  Variable base : addr -> N.
  Hypothesis HS : Setting cs dm U base.

  Let HU := proj1 HS.
  Let Hpr := proj1 (proj2 HS).
  Let Hst := fun r (Hr : In r U) => probe_stored_tl cs dm r (proj1 (proj2 HS) r Hr).
  Let Hfit := proj2 (proj2 HS).
  Notation Inv := (Inv cs dm U base).

  (** a state without root pins (and without zero-valued pin entries) satisfies the invariant *)
  Lemma clean_inv ps : p_roots ps = [] -> dmap (p_ls ps) = dm -> nozero (s_pin (p_ls ps)) ->
    (forall c, base c = cnt ps c) -> Inv ps.
  Proof.
    intros Hr Hd Hn Hb. constructor.
    - exact Hd.
    - rewrite Hr. intros k v [].
    - rewrite Hr. intros k H. discriminate H.
    - intros c. rewrite Hr. rewrite Hb. unfold cnt.
      assert (Ht : forall us, total cs dm us [] c = 0) by (induction us as [|u t IH]; simpl; [reflexivity|exact IH]).
      rewrite Ht. lia.
    - exact Hn.
  Qed.

  (** *** pin marks the reference and all its chunks *)
  Lemma pin_marks_all_svc t r ps : Inv ps -> In r U ->
    let '(ps', res) := create_pin cs capacity t r true ps in
    res = POk /\ has_pin ps' r = true /\ In r (pins ps') /\ dmap (p_ls ps') = dm /\
    (forall c, In c (tl cs dm r) -> pin_has (p_ls ps') c = true /\ countN c (tl cs dm r) <= cnt ps' c) /\
    (has_pin ps r = false -> forall c, cnt ps' c = cnt ps c + countN c (tl cs dm r)).
  Proof.
    intros HI Hr. destruct (create_pin_step cs capacity dm U base HU Hpr Hst Hfit t r ps HI Hr) as (ps' & E & HI' & Hsame & Hl).
    rewrite E. split; [reflexivity|].
    assert (Hh : has_pin ps' r = true).
    { rewrite (has_pin_listed cs capacity dm U base HU Hpr Hst Hfit ps' r (inv_roots _ _ _ _ _ HI')), Hl. now rewrite bytes_eqb_refl. }
    split; [exact Hh|]. split; [now apply (inv_pins cs capacity dm U base HU Hpr Hst Hfit ps' r HI')|]. split; [exact (inv_dm _ _ _ _ _ HI')|]. split.
    - intros c Hc. exact (inv_marked cs capacity dm U base HU Hpr Hst Hfit ps' r c HI' Hr Hh Hc).
    - intros Hn c. unfold cnt. rewrite (inv_cnt _ _ _ _ _ HI'), (inv_cnt _ _ _ _ _ HI).
      assert (Hln : listedb (p_roots ps) r = false) by (now rewrite <- (has_pin_listed cs capacity dm U base HU Hpr Hst Hfit ps r (inv_roots _ _ _ _ _ HI))).
      assert (Ht : total cs dm U (p_roots ps') c = total cs dm U (p_roots ps) c + mult cs dm r c).
      { rewrite <- (total_ainsert cs capacity dm U (p_roots ps) r r c HU Hr Hln).
        clear -Hl. induction U as [|u t0 IH]; simpl; [reflexivity|]. rewrite IH, Hl, listedb_ainsert. reflexivity. }
      rewrite Ht. unfold mult. lia.
  Qed.

  Lemma pin_marks_all_api t r ps : Inv ps -> In r U ->
    let '(ps', code) := api_pin cs capacity t r ps in
    code = Some (if has_pin ps r then 200 else 201) /\ has_pin ps' r = true /\ In r (pins ps') /\ dmap (p_ls ps') = dm /\
    (forall c, In c (tl cs dm r) -> pin_has (p_ls ps') c = true /\ countN c (tl cs dm r) <= cnt ps' c) /\
    (has_pin ps r = false -> forall c, cnt ps' c = cnt ps c + countN c (tl cs dm r)).
  Proof.
    intros HI Hr. rewrite (api_pin_step cs capacity dm U base HU Hpr Hst Hfit t r ps HI Hr).
    pose proof (pin_marks_all_svc t r ps HI Hr) as H. destruct (create_pin cs capacity t r true ps) as [ps' res].
    cbn [fst]. destruct H as (_ & H). split; [reflexivity|exact H].
  Qed.

  (** *** unpin takes back exactly what the pin added *)
  Lemma unpin_step_svc t r ps : Inv ps -> In r U ->
    let '(ps', res) := delete_pin cs capacity t r ps in
    res = POk /\ has_pin ps' r = false /\ ~ In r (pins ps') /\ dmap (p_ls ps') = dm /\ Inv ps' /\
    (has_pin ps r = true -> forall c, cnt ps' c + countN c (tl cs dm r) = cnt ps c).
  Proof.
    intros HI Hr. destruct (delete_pin_step cs capacity dm U base HU Hpr Hst Hfit t r ps HI Hr) as (ps' & E & HI' & Hsame & Hl).
    rewrite E. split; [reflexivity|].
    assert (Hh : has_pin ps' r = false).
    { rewrite (has_pin_listed cs capacity dm U base HU Hpr Hst Hfit ps' r (inv_roots _ _ _ _ _ HI')), Hl. now rewrite bytes_eqb_refl. }
    split; [exact Hh|]. split.
    { intros Hin. apply (inv_pins cs capacity dm U base HU Hpr Hst Hfit ps' r HI') in Hin. congruence. }
    split; [exact (inv_dm _ _ _ _ _ HI')|]. split; [exact HI'|].
    intros Hn c. unfold cnt. rewrite (inv_cnt _ _ _ _ _ HI'), (inv_cnt _ _ _ _ _ HI).
    assert (Hln : listedb (p_roots ps) r = true) by (now rewrite <- (has_pin_listed cs capacity dm U base HU Hpr Hst Hfit ps r (inv_roots _ _ _ _ _ HI))).
    assert (Ht : total cs dm U (p_roots ps') c = total cs dm U (aremove cmp_bytes r (p_roots ps)) c).
    { clear -Hl. induction U as [|u t0 IH]; simpl; [reflexivity|]. rewrite IH, Hl, listedb_aremove. reflexivity. }
    rewrite Ht. pose proof (total_aremove cs capacity dm U (p_roots ps) r c HU Hr Hln) as Hr'. unfold mult in Hr'. lia.
  Qed.

  Lemma create_inv t r ps : Inv ps -> In r U -> Inv (fst (create_pin cs capacity t r true ps)).
  Proof.
    intros HI Hr. destruct (create_pin_step cs capacity dm U base HU Hpr Hst Hfit t r ps HI Hr) as (ps' & E & HI' & _).
    now rewrite E.
  Qed.

  Lemma unpin_restores_svc t t' r ps : Inv ps -> In r U -> has_pin ps r = false ->
    let ps1 := fst (create_pin cs capacity t r true ps) in
    let '(ps2, res) := delete_pin cs capacity t' r ps1 in
    res = POk /\ (forall c, cnt ps2 c = cnt ps c) /\ has_pin ps2 r = false /\
    (forall k, has_pin ps2 k = has_pin ps k).
  Proof.
    intros HI Hr Hn. cbn zeta.
    pose proof (pin_marks_all_svc t r ps HI Hr) as H1.
    pose proof (create_inv t r ps HI Hr) as HI1.
    destruct (create_pin_step cs capacity dm U base HU Hpr Hst Hfit t r ps HI Hr) as (ps1' & E1 & _ & _ & Hl1).
    destruct (create_pin cs capacity t r true ps) as [ps1 res1]. cbn [fst] in *. inversion E1; subst ps1' res1. clear E1.
    destruct H1 as (_ & Hh1 & _ & _ & _ & Hc1). specialize (Hc1 Hn).
    pose proof (unpin_step_svc t' r ps1 HI1 Hr) as H2.
    destruct (delete_pin_step cs capacity dm U base HU Hpr Hst Hfit t' r ps1 HI1 Hr) as (ps2' & E2 & HI2 & _ & Hl2).
    destruct (delete_pin cs capacity t' r ps1) as [ps2 res2]. inversion E2; subst ps2' res2. clear E2.
    destruct H2 as (_ & Hh2 & _ & _ & _ & Hc2). specialize (Hc2 Hh1).
    split; [reflexivity|]. split; [|split; [exact Hh2|]].
    - intros c. specialize (Hc1 c). specialize (Hc2 c). lia.
    - intros k. rewrite (has_pin_listed cs capacity dm U base HU Hpr Hst Hfit ps2 k (inv_roots _ _ _ _ _ HI2)), (has_pin_listed cs capacity dm U base HU Hpr Hst Hfit ps k (inv_roots _ _ _ _ _ HI)), Hl2, Hl1.
      destruct (bytes_eqb r k) eqn:Ek; [|reflexivity].
      apply bytes_eqb_eq in Ek. subst k. now rewrite <- (has_pin_listed cs capacity dm U base HU Hpr Hst Hfit ps r (inv_roots _ _ _ _ _ HI)).
  Qed.

  Lemma unpin_restores_api t t' r ps : Inv ps -> In r U -> has_pin ps r = false ->
    let '(ps1, code1) := api_pin cs capacity t r ps in
    let '(ps2, code2) := api_unpin cs capacity t' r ps1 in
    code1 = Some 201 /\ code2 = Some 200 /\ (forall c, cnt ps2 c = cnt ps c) /\ has_pin ps2 r = false /\
    (forall k, has_pin ps2 k = has_pin ps k).
  Proof.
    intros HI Hr Hn. rewrite (api_pin_step cs capacity dm U base HU Hpr Hst Hfit t r ps HI Hr), Hn.
    pose proof (create_inv t r ps HI Hr) as HI1.
    pose proof (unpin_restores_svc t t' r ps HI Hr Hn) as H. cbn zeta in H.
    pose proof (pin_marks_all_svc t r ps HI Hr) as H1.
    destruct (create_pin cs capacity t r true ps) as [ps1 res1]. cbn [fst] in *.
    destruct H1 as (_ & Hh1 & _).
    rewrite (api_unpin_step cs capacity dm U base HU Hpr Hst Hfit t' r ps1 HI1 Hr), Hh1.
    destruct (delete_pin cs capacity t' r ps1) as [ps2 res2]. cbn [fst].
    destruct H as (_ & H). split; [reflexivity|]. split; [reflexivity|exact H].
  Qed.

  (** *** repeating a pin / an unpin changes nothing at all *)
  Lemma pin_idempotent_svc t t' r ps : Inv ps -> In r U ->
    let ps1 := fst (create_pin cs capacity t r true ps) in
    create_pin cs capacity t' r true ps1 = (ps1, POk).
  Proof.
    intros HI Hr. cbn zeta. pose proof (pin_marks_all_svc t r ps HI Hr) as H1.
    pose proof (create_inv t r ps HI Hr) as HI1.
    destruct (create_pin cs capacity t r true ps) as [ps1 res1]. cbn [fst] in *. destruct H1 as (_ & Hh1 & _).
    destruct (create_pin_step cs capacity dm U base HU Hpr Hst Hfit t' r ps1 HI1 Hr) as (ps2 & E & _ & Hsame & _).
    rewrite E. now rewrite (Hsame Hh1).
  Qed.
  Lemma pin_idempotent_api t t' r ps : Inv ps -> In r U ->
    let ps1 := fst (api_pin cs capacity t r ps) in
    api_pin cs capacity t' r ps1 = (ps1, Some 200).
  Proof.
    intros HI Hr. cbn zeta. rewrite (api_pin_step cs capacity dm U base HU Hpr Hst Hfit t r ps HI Hr). cbn [fst].
    pose proof (pin_marks_all_svc t r ps HI Hr) as H1. pose proof (create_inv t r ps HI Hr) as HI1.
    pose proof (pin_idempotent_svc t t' r ps HI Hr) as H2. cbn zeta in H2.
    destruct (create_pin cs capacity t r true ps) as [ps1 res1]. cbn [fst] in *. destruct H1 as (_ & Hh1 & _).
    rewrite (api_pin_step cs capacity dm U base HU Hpr Hst Hfit t' r ps1 HI1 Hr), H2, Hh1. reflexivity.
  Qed.
  Lemma unpin_idempotent_svc t t' r ps : Inv ps -> In r U ->
    let ps1 := fst (delete_pin cs capacity t r ps) in
    delete_pin cs capacity t' r ps1 = (ps1, POk).
  Proof.
    intros HI Hr. cbn zeta. pose proof (unpin_step_svc t r ps HI Hr) as H1.
    destruct (delete_pin cs capacity t r ps) as [ps1 res1]. cbn [fst] in *. destruct H1 as (_ & Hh1 & _ & _ & HI1 & _).
    destruct (delete_pin_step cs capacity dm U base HU Hpr Hst Hfit t' r ps1 HI1 Hr) as (ps2 & E & _ & Hsame & _).
    rewrite E. now rewrite (Hsame Hh1).
  Qed.
  Lemma unpin_idempotent_api t t' r ps : Inv ps -> In r U ->
    let ps1 := fst (api_unpin cs capacity t r ps) in
    api_unpin cs capacity t' r ps1 = (ps1, Some 404).
  Proof.
    intros HI Hr. cbn zeta. rewrite (api_unpin_step cs capacity dm U base HU Hpr Hst Hfit t r ps HI Hr). cbn [fst].
    pose proof (unpin_step_svc t r ps HI Hr) as H1.
    pose proof (unpin_idempotent_svc t t' r ps HI Hr) as H2. cbn zeta in H2.
    destruct (delete_pin cs capacity t r ps) as [ps1 res1]. cbn [fst] in *. destruct H1 as (_ & Hh1 & _ & _ & HI1 & _).
    rewrite (api_unpin_step cs capacity dm U base HU Hpr Hst Hfit t' r ps1 HI1 Hr), H2, Hh1. reflexivity.
  Qed.

  (** *** histories *)
  Definition svc_op (o : pop) : Prop :=
    match o with PCreate _ r true | PDelete _ r => refok cs dm U r | PHas _ | PPins => True | _ => False end.
  Definition api_op (o : pop) : Prop :=
    match o with PApiPin _ r | PApiUnpin _ r => refok cs dm U r | PApiGet _ | PApiList | PApiBad _ => True | _ => False end.
  Lemma svc_allowed o : svc_op o -> allowed cs dm U o.
  Proof. destruct o; cbn; try tauto. Qed.
  Lemma api_allowed o : api_op o -> allowed cs dm U o.
  Proof. destruct o; cbn; try tauto. Qed.

  Lemma history_accounting h ps : Inv ps -> Forall (allowed cs dm U) h ->
    let ps' := pexec cs capacity po ps h in
    Inv ps' /\ dmap (p_ls ps') = dm /\
    (forall c, cnt ps' c = base c + total cs dm U (p_roots ps') c) /\
    (forall k, has_pin ps' k = last_op cs dm h k (has_pin ps k)) /\
    (forall k, In k (pins ps') <-> has_pin ps' k = true).
  Proof.
    intros HI Hall. cbn zeta.
    destruct (run_inv cs capacity dm U base HU Hpr Hst Hfit po h ps HI Hall) as [HI' Hl].
    split; [exact HI'|]. split; [exact (inv_dm _ _ _ _ _ HI')|]. split; [exact (inv_cnt _ _ _ _ _ HI')|]. split.
    - intros k. rewrite (has_pin_listed cs capacity dm U base HU Hpr Hst Hfit _ k (inv_roots _ _ _ _ _ HI')), (has_pin_listed cs capacity dm U base HU Hpr Hst Hfit ps k (inv_roots _ _ _ _ _ HI)). apply Hl.
    - intros k. exact (inv_pins cs capacity dm U base HU Hpr Hst Hfit _ k HI').
  Qed.

  Lemma listed_iff_last_was_pin_svc h ps : Inv ps -> Forall svc_op h ->
    let ps' := pexec cs capacity po ps h in
    (forall k, has_pin ps' k = last_op cs dm h k (has_pin ps k)) /\ (forall k, In k (pins ps') <-> has_pin ps' k = true).
  Proof.
    intros HI Hall. apply (history_accounting h ps HI).
    eapply Forall_impl; [|exact Hall]. exact svc_allowed.
  Qed.
  Lemma listed_iff_last_was_pin_api h ps : Inv ps -> Forall api_op h ->
    let ps' := pexec cs capacity po ps h in
    (forall k, has_pin ps' k = last_op cs dm h k (has_pin ps k)) /\ (forall k, In k (pins ps') <-> has_pin ps' k = true).
  Proof.
    intros HI Hall. apply (history_accounting h ps HI).
    eapply Forall_impl; [|exact Hall]. exact api_allowed.
  Qed.
End Top.

(** ** a decision procedure for the no-overflow assumption (used by the
    non-vacuity example) *)
Definition fitb (cs : N) (dm : list (addr * bytes)) (U : list addr) (P0 : list (addr * N)) : bool :=
  forallb (fun c => cntP P0 c + total_all cs dm U c <? W64) (flat_map (tl cs dm) U)
  && forallb (fun kv => snd kv <? W64) P0.

Lemma fitb_ok cs dm U P0 : fitb cs dm U P0 = true -> forall c, cntP P0 c + total_all cs dm U c < W64.
Proof.
  unfold fitb. intros H c. apply andb_true_iff in H as [H1 H2].
  destruct (in_dec (list_eq_dec N.eq_dec) c (flat_map (tl cs dm) U)) as [Hin|Hnot].
  - rewrite forallb_forall in H1. specialize (H1 c Hin). now apply N.ltb_lt in H1.
  - assert (Ht : total_all cs dm U c = 0).
    { clear -Hnot. induction U as [|u t IH]; simpl in *; [reflexivity|].
      rewrite IH by (intros Hx; apply Hnot; apply in_or_app; now right).
      unfold mult. rewrite countN_notin; [reflexivity|]. intros Hx; apply Hnot; apply in_or_app; now left. }
    rewrite Ht. unfold cntP. destruct (alookup cmp_bytes c P0) as [n|] eqn:E.
    + apply (alookup_Some_in cmp_bytes cmp_bytes_eq) in E. rewrite forallb_forall in H2. specialize (H2 _ E).
      cbn in H2. apply N.ltb_lt in H2. lia.
    + reflexivity.
Qed.

(** boolean form of the no-zero-entry assumption (for the example) *)
Definition nozerob (P : list (addr * N)) : bool := forallb (fun kv => 0 <? snd kv) P.
Lemma nozerob_ok P : nozerob P = true -> nozero P.
Proof. unfold nozerob, nozero. intros H k v Hin. rewrite forallb_forall in H. specialize (H _ Hin). now apply N.ltb_lt in H. Qed.
