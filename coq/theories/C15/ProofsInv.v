(** C15 — the accounting invariant of histories of pin / unpin / has / list
    (service level and handler level) over stored references, and the effect
    of each operation. *)
From Coq Require Import List NArith ZArith Bool Lia.
Import ListNotations.
Require Import Aurora.C11.Maps Aurora.C15.Model Aurora.C15.ProofsWalk Aurora.C15.ProofsStore Aurora.C15.ProofsPin.
Local Open Scope N_scope.

Definition listedb (roots : list (addr * addr)) (r : addr) : bool := ahas cmp_bytes r roots.

Lemma listedb_ainsert roots r v k : listedb (ainsert cmp_bytes r v roots) k = if bytes_eqb r k then true else listedb roots k.
Proof.
  unfold listedb, ahas. destruct (bytes_eqb r k) eqn:E.
  - apply bytes_eqb_eq in E. subst. now rewrite (alookup_ainsert_same cmp_bytes cmp_bytes_eq).
  - rewrite (alookup_ainsert_other cmp_bytes cmp_bytes_eq); [reflexivity|]. intros ->. now rewrite bytes_eqb_refl in E.
Qed.
Lemma listedb_aremove roots r k : listedb (aremove cmp_bytes r roots) k = if bytes_eqb r k then false else listedb roots k.
Proof.
  unfold listedb, ahas. destruct (bytes_eqb r k) eqn:E.
  - apply bytes_eqb_eq in E. subst. now rewrite (alookup_aremove_same cmp_bytes).
  - rewrite (alookup_aremove_other cmp_bytes cmp_bytes_eq); [reflexivity|]. intros ->. now rewrite bytes_eqb_refl in E.
Qed.

Definition roots_ok (roots : list (addr * addr)) : Prop := forall k v, In (k, v) roots -> v = k.
Lemma roots_ok_ainsert roots r : roots_ok roots -> roots_ok (ainsert cmp_bytes r r roots).
Proof.
  intros H k v Hin. apply (in_ainsert cmp_bytes cmp_bytes_eq) in Hin. destruct Hin as [E|[Hin _]]; [now inversion E|exact (H _ _ Hin)].
Qed.
Lemma roots_ok_aremove roots r : roots_ok roots -> roots_ok (aremove cmp_bytes r roots).
Proof. intros H k v Hin. apply (in_aremove cmp_bytes cmp_bytes_eq) in Hin. exact (H _ _ (proj1 Hin)). Qed.

Section Inv.
  #[local] Set Default Proof Using "All".
  Variable cs capacity : N.
  Variable dm : list (addr * bytes).   (* the stored bytes; pin and unpin never change them *)

  Definition tl (r : addr) : list addr := match tlist cs dm r with Some l => l | None => [] end.
  Definition mult (r c : addr) : N := countN c (tl r).
  Fixpoint total (us : list addr) (roots : list (addr * addr)) (c : addr) : N :=
    match us with [] => 0 | r :: t => (if listedb roots r then mult r c else 0) + total t roots c end.
  Fixpoint total_all (us : list addr) (c : addr) : N :=
    match us with [] => 0 | r :: t => mult r c + total_all t c end.

  Lemma total_le_all us roots c : total us roots c <= total_all us c.
  Proof. induction us as [|r t IH]; simpl; [lia|]. destruct (listedb roots r); lia. Qed.

  Lemma total_ainsert_notin us roots r v c : ~ In r us -> total us (ainsert cmp_bytes r v roots) c = total us roots c.
  Proof.
    induction us as [|u t IH]; simpl; intros H; [reflexivity|].
    rewrite listedb_ainsert, IH by tauto. rewrite bytes_eqb_neq; [reflexivity|]. intros E; apply H; now left.
  Qed.
  Lemma total_aremove_notin us roots r c : ~ In r us -> total us (aremove cmp_bytes r roots) c = total us roots c.
  Proof.
    induction us as [|u t IH]; simpl; intros H; [reflexivity|].
    rewrite listedb_aremove, IH by tauto. rewrite bytes_eqb_neq; [reflexivity|]. intros E; apply H; now left.
  Qed.
  Lemma total_ainsert us roots r v c : NoDup us -> In r us -> listedb roots r = false ->
    total us (ainsert cmp_bytes r v roots) c = total us roots c + mult r c.
  Proof.
    induction us as [|u t IH]; simpl; intros Hn Hin Hl; [tauto|].
    inversion Hn as [|x l Hnot Hn']; subst. rewrite listedb_ainsert.
    destruct (bytes_eqb r u) eqn:E.
    - apply bytes_eqb_eq in E. subst u. rewrite Hl. rewrite total_ainsert_notin by exact Hnot. lia.
    - destruct Hin as [->|Hin]; [now rewrite bytes_eqb_refl in E|]. rewrite IH by assumption. lia.
  Qed.
  Lemma total_aremove us roots r c : NoDup us -> In r us -> listedb roots r = true ->
    total us (aremove cmp_bytes r roots) c + mult r c = total us roots c.
  Proof.
    induction us as [|u t IH]; simpl; intros Hn Hin Hl; [tauto|].
    inversion Hn as [|x l Hnot Hn']; subst. rewrite listedb_aremove.
    destruct (bytes_eqb r u) eqn:E.
    - apply bytes_eqb_eq in E. subst u. rewrite Hl. rewrite total_aremove_notin by exact Hnot. lia.
    - destruct Hin as [->|Hin]; [now rewrite bytes_eqb_refl in E|]. specialize (IH Hn' Hin Hl). lia.
  Qed.

  Variable U : list addr.              (* the references the history operates on *)
  Variable base : addr -> N.           (* pin counters while none of them is pinned *)
  Hypothesis HU : NoDup U.
  Hypothesis Hpr : forall r, In r U -> probe cs dm r = PROk.
  Hypothesis Hst : forall r, In r U -> stored cs dm r (tl r).
  Hypothesis Hfit : forall c, base c + total_all U c < W64.

  Record Inv (ps : pstate) : Prop := {
    inv_dm : dmap (p_ls ps) = dm;
    inv_roots : roots_ok (p_roots ps);
    inv_sub : forall k, listedb (p_roots ps) k = true -> In k U;
    inv_cnt : forall c, cntP (s_pin (p_ls ps)) c = base c + total U (p_roots ps) c;
    inv_nz : nozero (s_pin (p_ls ps))
  }.

  Lemma has_pin_listed ps k : roots_ok (p_roots ps) -> has_pin ps k = listedb (p_roots ps) k.
  Proof.
    intros H. unfold has_pin, listedb, ahas. destruct (alookup cmp_bytes k (p_roots ps)) as [v|] eqn:E; [|reflexivity].
    apply (alookup_Some_in cmp_bytes cmp_bytes_eq) in E. rewrite (H _ _ E). apply bytes_eqb_refl.
  Qed.

  (** ** CreatePin with traversal *)
  Lemma create_pin_step t r ps : Inv ps -> In r U ->
    exists ps', create_pin cs capacity t r true ps = (ps', POk) /\ Inv ps' /\
                (has_pin ps r = true -> ps' = ps) /\
                (forall k, listedb (p_roots ps') k = if bytes_eqb r k then true else listedb (p_roots ps) k).
  Proof.
    intros HI Hr. destruct HI as [Hdm Hro Hsub Hcnt Hnz].
    unfold create_pin. destruct (has_pin ps r) eqn:Hh.
    - exists ps. split; [reflexivity|]. split; [constructor; assumption|]. split; [reflexivity|].
      intros k. destruct (bytes_eqb r k) eqn:E; [|reflexivity].
      apply bytes_eqb_eq in E. subst k. now rewrite <- has_pin_listed.
    - rewrite has_pin_listed in Hh by exact Hro.
      pose proof (Hst r Hr) as Hs. rewrite <- Hdm in Hs.
      destruct (traverse_pin cs capacity t r (p_ls ps) (tl r) Hs) as (s' & E & Hd & Hp).
      rewrite E.
      assert (Hlk : alookup cmp_bytes r (p_roots ps) = None).
      { unfold listedb, ahas in Hh. destruct (alookup cmp_bytes r (p_roots ps)); [discriminate|reflexivity]. }
      rewrite Hlk.
      eexists. split; [reflexivity|].
      assert (Hbound : forall c, cntP (s_pin (p_ls ps)) c + countN c (tl r) < W64).
      { intros c. rewrite Hcnt. pose proof (total_ainsert U (p_roots ps) r r c HU Hr Hh) as Ht.
        pose proof (total_le_all U (ainsert cmp_bytes r r (p_roots ps)) c) as Hle.
        pose proof (Hfit c). unfold mult in Ht. lia. }
      split; [|split].
      + constructor; cbn [p_ls p_roots].
        * congruence.
        * now apply roots_ok_ainsert.
        * intros k. rewrite listedb_ainsert. destruct (bytes_eqb r k) eqn:Ek; [|apply Hsub].
          apply bytes_eqb_eq in Ek. now subst k.
        * intros c. rewrite Hp, cntP_fold_pinup by exact Hbound.
          rewrite Hcnt, (total_ainsert U (p_roots ps) r r c HU Hr Hh). unfold mult. lia.
        * rewrite Hp. now apply nozero_fold_pinup.
      + discriminate.
      + intros k. cbn [p_roots]. apply listedb_ainsert.
  Qed.

  (** ** DeletePin *)
  Lemma delete_pin_step t r ps : Inv ps -> In r U ->
    exists ps', delete_pin cs capacity t r ps = (ps', POk) /\ Inv ps' /\
                (has_pin ps r = false -> ps' = ps) /\
                (forall k, listedb (p_roots ps') k = if bytes_eqb r k then false else listedb (p_roots ps) k).
  Proof.
    intros HI Hr. destruct HI as [Hdm Hro Hsub Hcnt Hnz].
    unfold delete_pin. destruct (has_pin ps r) eqn:Hh; cbn [negb].
    - rewrite has_pin_listed in Hh by exact Hro.
      pose proof (Hst r Hr) as Hs. rewrite <- Hdm in Hs.
      assert (Hc : forall c, countN c (tl r) <= cntP (s_pin (p_ls ps)) c).
      { intros c. rewrite Hcnt. pose proof (total_aremove U (p_roots ps) r c HU Hr Hh) as Ht. unfold mult in Ht. lia. }
      destruct (traverse_unpin cs capacity t r (p_ls ps) (tl r) Hs Hnz Hc) as (s' & E & Hd & Hp).
      rewrite E. eexists. split; [reflexivity|]. split; [|split].
      + constructor; cbn [p_ls p_roots].
        * congruence.
        * now apply roots_ok_aremove.
        * intros k. rewrite listedb_aremove. destruct (bytes_eqb r k); [discriminate|apply Hsub].
        * intros c. rewrite Hp, cntP_fold_pindown by assumption.
          rewrite Hcnt. pose proof (total_aremove U (p_roots ps) r c HU Hr Hh) as Ht. unfold mult in Ht. lia.
        * rewrite Hp. now apply nozero_fold_pindown.
      + discriminate.
      + intros k. cbn [p_roots]. apply listedb_aremove.
    - exists ps. split; [reflexivity|]. split; [constructor; assumption|]. split; [reflexivity|].
      intros k. destruct (bytes_eqb r k) eqn:E; [|reflexivity].
      apply bytes_eqb_eq in E. subst k. now rewrite <- has_pin_listed.
  Qed.

  (** ** the handlers *)
  Lemma api_pin_step t r ps : Inv ps -> In r U ->
    api_pin cs capacity t r ps = (fst (create_pin cs capacity t r true ps), Some (if has_pin ps r then 200 else 201)).
  Proof.
    intros HI Hr. unfold api_pin. destruct (has_pin ps r) eqn:Hh.
    - destruct (create_pin_step t r ps HI Hr) as (ps' & E & _ & Hsame & _). rewrite E. cbn [fst]. now rewrite (Hsame Hh).
    - destruct (create_pin_step t r ps HI Hr) as (ps' & E & _). rewrite E. reflexivity.
  Qed.
  Lemma api_unpin_step t r ps : Inv ps -> In r U ->
    api_unpin cs capacity t r ps = (fst (delete_pin cs capacity t r ps), Some (if has_pin ps r then 200 else 404)).
  Proof.
    intros HI Hr. unfold api_unpin. destruct (has_pin ps r) eqn:Hh; cbn [negb].
    - destruct (delete_pin_step t r ps HI Hr) as (ps' & E & _). rewrite E. reflexivity.
    - destruct (delete_pin_step t r ps HI Hr) as (ps' & E & _ & Hsame & _). rewrite E. cbn [fst]. now rewrite (Hsame Hh).
  Qed.

  (** ** consequences of the invariant *)
  Lemma inv_marked ps r c : Inv ps -> In r U -> has_pin ps r = true -> In c (tl r) ->
    pin_has (p_ls ps) c = true /\ mult r c <= cntP (s_pin (p_ls ps)) c.
  Proof.
    intros HI Hr Hh Hc. destruct HI as [Hdm Hro Hsub Hcnt Hnz].
    rewrite has_pin_listed in Hh by exact Hro.
    assert (Hm : mult r c <= cntP (s_pin (p_ls ps)) c).
    { rewrite Hcnt. pose proof (total_aremove U (p_roots ps) r c HU Hr Hh). lia. }
    split; [|exact Hm].
    pose proof (countN_in c (tl r) Hc) as H1. unfold mult in Hm.
    unfold pin_has, ahas, pin_get. unfold cntP in Hm.
    destruct (alookup cmp_bytes c (s_pin (p_ls ps))); [reflexivity|lia].
  Qed.

  Lemma inv_pins ps r : Inv ps -> (In r (pins ps) <-> has_pin ps r = true).
  Proof.
    intros HI. destruct HI as [_ Hro _ _ _]. rewrite has_pin_listed by exact Hro. unfold pins, listedb, ahas. split.
    - intros Hin. apply in_map_iff in Hin. destruct Hin as [[k v] [E Hin]]. cbn in E. subst v.
      pose proof (Hro _ _ Hin). subst k.
      destruct (alookup cmp_bytes r (p_roots ps)) eqn:El; [reflexivity|].
      apply (alookup_None_notin cmp_bytes cmp_bytes_eq) in El. exfalso. apply El. unfold keys.
      apply in_map_iff. exists (r, r). split; [reflexivity|exact Hin].
    - destruct (alookup cmp_bytes r (p_roots ps)) as [v|] eqn:El; [|discriminate]. intros _.
      apply (alookup_Some_in cmp_bytes cmp_bytes_eq) in El. pose proof (Hro _ _ El). subst v.
      apply in_map_iff. exists (r, r). split; [reflexivity|exact El].
  Qed.

  (** ** histories *)
  Variable po : addr -> N.

  (** [Some (r, true)] = a pin of [r], [Some (r, false)] = an unpin of [r] *)
  Definition op_ref (o : pop) : option (addr * bool) :=
    match o with
    | PCreate _ r _ | PApiPin _ r => Some (r, true)
    | PDelete _ r | PApiUnpin _ r => Some (r, false)
    | _ => None
    end.
  (** a reference of a history is one of [U] (stored) or one whose root chunk
      (or a chunk below it) is missing: the probe answers not-found *)
  Definition refok (r : addr) : Prop := In r U \/ probe cs dm r = PRNotFound.
  Definition allowed (o : pop) : Prop :=
    match o with
    | PCreate _ r true | PDelete _ r | PApiPin _ r | PApiUnpin _ r => refok r
    | PHas _ | PPins | PApiGet _ | PApiList | PApiBad _ => True
    | _ => False
    end.
  (** the listing after an operation: an unpin unlists, a pin lists if the reference is stored *)
  Definition upd (o : pop) (k : addr) (d : bool) : bool :=
    match op_ref o with
    | Some (r, b) =>
        if bytes_eqb r k
        then (if b then match probe cs dm r with PROk => true | _ => d end else false)
        else d
    | None => d
    end.

  Lemma with_ls_same ps : with_ls ps (p_ls ps) = ps.
  Proof. destruct ps; reflexivity. Qed.

  (** operations on a reference that is not stored *)
  Lemma absent_unlisted r ps : Inv ps -> probe cs dm r = PRNotFound -> has_pin ps r = false.
  Proof.
    intros HI Hn. rewrite has_pin_listed by exact (inv_roots ps HI).
    destruct (listedb (p_roots ps) r) eqn:E; [|reflexivity].
    apply (inv_sub ps HI) in E. rewrite (Hpr r E) in Hn. discriminate.
  Qed.
  Lemma create_pin_absent t r ps : Inv ps -> probe cs dm r = PRNotFound ->
    create_pin cs capacity t r true ps = (ps, PFail PENotFound).
  Proof.
    intros HI Hn. unfold create_pin. rewrite (absent_unlisted r ps HI Hn). unfold traverse.
    rewrite (inv_dm ps HI), Hn. cbn [perr_of]. now rewrite with_ls_same.
  Qed.
  Lemma delete_pin_absent t r ps : Inv ps -> probe cs dm r = PRNotFound ->
    delete_pin cs capacity t r ps = (ps, POk).
  Proof. intros HI Hn. unfold delete_pin. now rewrite (absent_unlisted r ps HI Hn). Qed.

  Lemma step_inv ps o : Inv ps -> allowed o ->
    Inv (fst (pstep cs capacity po ps o)) /\
    forall k, listedb (p_roots (fst (pstep cs capacity po ps o))) k = upd o k (listedb (p_roots ps) k).
  Proof.
    intros HI Ha.
    assert (Habs : forall r k (b : bool), probe cs dm r = PRNotFound ->
              listedb (p_roots ps) k =
              (if bytes_eqb r k then (if b then match probe cs dm r with PROk => true | _ => listedb (p_roots ps) k end else false)
               else listedb (p_roots ps) k)).
    { intros r k b Hn. destruct (bytes_eqb r k) eqn:E; [|reflexivity]. apply bytes_eqb_eq in E. subst k.
      rewrite Hn. destruct b; [reflexivity|].
      rewrite <- (has_pin_listed ps r (inv_roots ps HI)). exact (absent_unlisted r ps HI Hn). }
    destruct o; cbn [allowed] in Ha; cbn [pstep]; try (split; [exact HI|reflexivity]); try tauto.
    - destruct trav; [|tauto]. destruct Ha as [Ha|Hn].
      + destruct (create_pin_step t ref ps HI Ha) as (ps' & E & HI' & _ & Hl). rewrite E. cbn [fst].
        split; [exact HI'|]. intros k. rewrite Hl. unfold upd. cbn [op_ref]. now rewrite (Hpr ref Ha).
      + rewrite (create_pin_absent t ref ps HI Hn). cbn [fst]. split; [exact HI|].
        intros k. unfold upd. cbn [op_ref]. exact (Habs ref k true Hn).
    - destruct Ha as [Ha|Hn].
      + destruct (delete_pin_step t ref ps HI Ha) as (ps' & E & HI' & _ & Hl). rewrite E. cbn [fst].
        split; [exact HI'|exact Hl].
      + rewrite (delete_pin_absent t ref ps HI Hn). cbn [fst]. split; [exact HI|].
        intros k. unfold upd. cbn [op_ref]. exact (Habs ref k false Hn).
    - destruct Ha as [Ha|Hn].
      + rewrite (api_pin_step t ref ps HI Ha). cbn [fst].
        destruct (create_pin_step t ref ps HI Ha) as (ps' & E & HI' & _ & Hl). rewrite E. cbn [fst].
        split; [exact HI'|]. intros k. rewrite Hl. unfold upd. cbn [op_ref]. now rewrite (Hpr ref Ha).
      + unfold api_pin. rewrite (absent_unlisted ref ps HI Hn), (create_pin_absent t ref ps HI Hn). cbn [fst].
        split; [exact HI|]. intros k. unfold upd. cbn [op_ref]. exact (Habs ref k true Hn).
    - destruct Ha as [Ha|Hn].
      + rewrite (api_unpin_step t ref ps HI Ha). cbn [fst].
        destruct (delete_pin_step t ref ps HI Ha) as (ps' & E & HI' & _ & Hl). rewrite E. cbn [fst].
        split; [exact HI'|exact Hl].
      + unfold api_unpin. rewrite (absent_unlisted ref ps HI Hn). cbn [negb fst]. split; [exact HI|].
        intros k. unfold upd. cbn [op_ref]. exact (Habs ref k false Hn).
  Qed.

  Fixpoint last_op (h : list pop) (k : addr) (d : bool) : bool :=
    match h with [] => d | o :: t => last_op t k (upd o k d) end.

  Lemma pexec_cons ps o h : pexec cs capacity po ps (o :: h) = pexec cs capacity po (fst (pstep cs capacity po ps o)) h.
  Proof.
    unfold pexec. cbn [prun]. destruct (pstep cs capacity po ps o) as [ps1 r]. cbn [fst].
    destruct (prun cs capacity po ps1 h) as [ps2 rs]. reflexivity.
  Qed.

  Theorem run_inv h : forall ps, Inv ps -> Forall allowed h ->
    Inv (pexec cs capacity po ps h) /\
    forall k, listedb (p_roots (pexec cs capacity po ps h)) k = last_op h k (listedb (p_roots ps) k).
  Proof.
    induction h as [|o h IH]; intros ps HI Hall.
    - split; [exact HI|reflexivity].
    - inversion Hall as [|x l Ho Hrest]; subst. rewrite pexec_cons.
      destruct (step_inv ps o HI Ho) as [HI1 Hl1].
      destruct (IH _ HI1 Hrest) as [HI2 Hl2]. split; [exact HI2|].
      intros k. rewrite Hl2, Hl1. reflexivity.
  Qed.

End Inv.
