(** C15 — pin and unpin are idempotent inverses: property theorems only.

    Vocabulary (Model.v, ProofsWalk.v, ProofsPin.v, ProofsInv.v, ProofsTop.v):
    - [create_pin]/[delete_pin]/[has_pin]/[pins] model pinning.Service (the
      REPAIRED code: root key looked up first), [api_pin]/[api_unpin] the
      handlers of pkg/api/pin.go (HTTP status), [pexec] runs a history;
    - [tl cs dm r] is the list of addresses the traversal of reference [r]
      reports on the stored bytes [dm] (root first, a chunk that occurs k times
      in the file occurs k times), [countN c l] the multiplicity of [c];
    - [cnt ps c] is the pin counter of chunk [c] (0 when it has no entry),
      [pin_has] is DB.Has(ModeHasPin);
    - [Setting cs dm U base]: the references in [U] are distinct and stored
      ([probe cs dm r = PROk]: the whole-file read with which the traversal
      starts succeeds on the stored bytes — every chunk of the tree is present;
      then the walk completes and every reported address holds a chunk,
      [probe_stored]) and [base c + sum over U of multiplicities < 2^64];
    - [Inv cs dm U base ps]: stored bytes = [dm]; every root key holds its own
      reference; listed references are in [U]; for EVERY chunk
      [cnt ps c = base c + sum of the multiplicities of c in the listed references];
      no zero-valued pin entry.  [C15_clean_state_inv]: every state without
      root pins satisfies it with [base] = its own counters; every operation of
      a history preserves it ([C15_history_accounting]).

    Histories ([svc_op], [api_op], [allowed]): pin / unpin / has / list calls
    whose reference is one of [U] or is NOT stored ([refok]: the probe answers
    not-found — such a pin fails with not-found and changes nothing);
    [last_op h k d] = was the last pin/unpin of [k] in [h] a pin of a stored
    reference ([d] when [h] has none).

    The theorems hold for every chunk size [cs], capacity, proximity function
    and clock values; [ChunkSize] of the Go source is one instance (used by
    the correspondence and by the example). *)
From Coq Require Import List NArith ZArith Bool.
Import ListNotations.
Require Import Aurora.Consts Aurora.C11.Maps Aurora.C15.Model Aurora.C15.ProofsWalk Aurora.C15.ProofsStore
  Aurora.C15.ProofsPin Aurora.C15.ProofsProbe Aurora.C15.ProofsInv Aurora.C15.ProofsTop.
Local Open Scope N_scope.

Theorem C15_clean_state_inv : forall cs dm U base ps,
  p_roots ps = [] -> dmap (p_ls ps) = dm -> nozero (s_pin (p_ls ps)) -> (forall c, base c = cnt ps c) ->
  Inv cs dm U base ps.
Proof. exact clean_inv. Qed.
Print Assumptions C15_clean_state_inv.

(** service level *)
Theorem C15_pin_marks_all_svc : forall cs capacity dm U base, Setting cs dm U base ->
  forall t r ps, Inv cs dm U base ps -> In r U ->
  let '(ps', res) := create_pin cs capacity t r true ps in
  res = POk /\ has_pin ps' r = true /\ In r (pins ps') /\ dmap (p_ls ps') = dm /\
  (forall c, In c (tl cs dm r) -> pin_has (p_ls ps') c = true /\ countN c (tl cs dm r) <= cnt ps' c) /\
  (has_pin ps r = false -> forall c, cnt ps' c = cnt ps c + countN c (tl cs dm r)).
Proof. exact pin_marks_all_svc. Qed.
Print Assumptions C15_pin_marks_all_svc.

Theorem C15_unpin_restores_svc : forall cs capacity dm U base, Setting cs dm U base ->
  forall t t' r ps, Inv cs dm U base ps -> In r U -> has_pin ps r = false ->
  let ps1 := fst (create_pin cs capacity t r true ps) in
  let '(ps2, res) := delete_pin cs capacity t' r ps1 in
  res = POk /\ (forall c, cnt ps2 c = cnt ps c) /\ has_pin ps2 r = false /\ (forall k, has_pin ps2 k = has_pin ps k).
Proof. exact unpin_restores_svc. Qed.
Print Assumptions C15_unpin_restores_svc.

Theorem C15_pin_idempotent_svc : forall cs capacity dm U base, Setting cs dm U base ->
  forall t t' r ps, Inv cs dm U base ps -> In r U ->
  let ps1 := fst (create_pin cs capacity t r true ps) in
  create_pin cs capacity t' r true ps1 = (ps1, POk).
Proof. exact pin_idempotent_svc. Qed.
Print Assumptions C15_pin_idempotent_svc.

Theorem C15_unpin_idempotent_svc : forall cs capacity dm U base, Setting cs dm U base ->
  forall t t' r ps, Inv cs dm U base ps -> In r U ->
  let ps1 := fst (delete_pin cs capacity t r ps) in
  delete_pin cs capacity t' r ps1 = (ps1, POk).
Proof. exact unpin_idempotent_svc. Qed.
Print Assumptions C15_unpin_idempotent_svc.

Theorem C15_listed_iff_last_was_pin_svc : forall cs capacity po dm U base, Setting cs dm U base ->
  forall h ps, Inv cs dm U base ps -> Forall (svc_op cs dm U) h ->
  let ps' := pexec cs capacity po ps h in
  (forall k, has_pin ps' k = last_op cs dm h k (has_pin ps k)) /\ (forall k, In k (pins ps') <-> has_pin ps' k = true).
Proof. exact listed_iff_last_was_pin_svc. Qed.
Print Assumptions C15_listed_iff_last_was_pin_svc.

(** handler level (pkg/api/pin.go) *)
Theorem C15_pin_marks_all_api : forall cs capacity dm U base, Setting cs dm U base ->
  forall t r ps, Inv cs dm U base ps -> In r U ->
  let '(ps', code) := api_pin cs capacity t r ps in
  code = Some (if has_pin ps r then 200 else 201) /\ has_pin ps' r = true /\ In r (pins ps') /\ dmap (p_ls ps') = dm /\
  (forall c, In c (tl cs dm r) -> pin_has (p_ls ps') c = true /\ countN c (tl cs dm r) <= cnt ps' c) /\
  (has_pin ps r = false -> forall c, cnt ps' c = cnt ps c + countN c (tl cs dm r)).
Proof. exact pin_marks_all_api. Qed.
Print Assumptions C15_pin_marks_all_api.

Theorem C15_unpin_restores_api : forall cs capacity dm U base, Setting cs dm U base ->
  forall t t' r ps, Inv cs dm U base ps -> In r U -> has_pin ps r = false ->
  let '(ps1, code1) := api_pin cs capacity t r ps in
  let '(ps2, code2) := api_unpin cs capacity t' r ps1 in
  code1 = Some 201 /\ code2 = Some 200 /\ (forall c, cnt ps2 c = cnt ps c) /\ has_pin ps2 r = false /\
  (forall k, has_pin ps2 k = has_pin ps k).
Proof. exact unpin_restores_api. Qed.
Print Assumptions C15_unpin_restores_api.

Theorem C15_pin_idempotent_api : forall cs capacity dm U base, Setting cs dm U base ->
  forall t t' r ps, Inv cs dm U base ps -> In r U ->
  let ps1 := fst (api_pin cs capacity t r ps) in
  api_pin cs capacity t' r ps1 = (ps1, Some 200).
Proof. exact pin_idempotent_api. Qed.
Print Assumptions C15_pin_idempotent_api.

Theorem C15_unpin_idempotent_api : forall cs capacity dm U base, Setting cs dm U base ->
  forall t t' r ps, Inv cs dm U base ps -> In r U ->
  let ps1 := fst (api_unpin cs capacity t r ps) in
  api_unpin cs capacity t' r ps1 = (ps1, Some 404).
Proof. exact unpin_idempotent_api. Qed.
Print Assumptions C15_unpin_idempotent_api.

Theorem C15_listed_iff_last_was_pin_api : forall cs capacity po dm U base, Setting cs dm U base ->
  forall h ps, Inv cs dm U base ps -> Forall (api_op cs dm U) h ->
  let ps' := pexec cs capacity po ps h in
  (forall k, has_pin ps' k = last_op cs dm h k (has_pin ps k)) /\ (forall k, In k (pins ps') <-> has_pin ps' k = true).
Proof. exact listed_iff_last_was_pin_api. Qed.
Print Assumptions C15_listed_iff_last_was_pin_api.

(** every history of pin / unpin / has / list, service calls and handler calls
    mixed, over overlapping references: the stored bytes never change, every
    chunk's counter is its base value plus its multiplicities in the listed
    references (so shared and repeated chunks are accounted chunk by chunk and
    two histories ending with the same listed set end with the same counters),
    and a reference is listed iff its last pin/unpin was a pin *)
Theorem C15_history_accounting : forall cs capacity po dm U base, Setting cs dm U base ->
  forall h ps, Inv cs dm U base ps -> Forall (allowed cs dm U) h ->
  let ps' := pexec cs capacity po ps h in
  Inv cs dm U base ps' /\ dmap (p_ls ps') = dm /\
  (forall c, cnt ps' c = base c + total cs dm U (p_roots ps') c) /\
  (forall k, has_pin ps' k = last_op cs dm h k (has_pin ps k)) /\
  (forall k, In k (pins ps') <-> has_pin ps' k = true).
Proof. exact history_accounting. Qed.
Print Assumptions C15_history_accounting.

(** ** non-vacuity, at the chunk size of the Go source: a store with a 256 KiB
    data chunk L1, a 100-byte chunk L2 (pinned once directly: base line 1), the
    file A = L1 L2, the file B = L1 L1 (a repeated chunk, shared with A), and
    the references A, B and L1 itself (a data chunk of both files).  The
    assumptions hold, and the history pin A, pin B, pin A, POST L1, unpin A,
    unpin A, DELETE L1, DELETE L1 ends with B alone listed, L1 counted twice,
    L2 at its base line. *)
Definition CS : N := Z.to_N Consts.boson_ChunkSize.
Definition le64x (n : N) : list N :=
  [n mod 256; (n / 256) mod 256; (n / 65536) mod 256; (n / 16777216) mod 256; (n / 4294967296) mod 256; 0; 0; 0].
Definition fill (b n : N) : list N := N.iter n (fun l => b :: l) [].
Definition L1 : addr := [0; 1].
Definition L2 : addr := [0; 2].
Definition RA : addr := [0; 9].
Definition RB : addr := [0; 8].
Definition po0 (_ : addr) : N := 0.
Definition ps0 : pstate :=
  pexec CS 1000 po0 pinit
    [PStore (OPut 1 PUpload None [(L1, le64x CS ++ fill 1 CS)]);
     PStore (OPut 2 PUpload None [(L2, le64x 100 ++ fill 3 100)]);
     PStore (OPut 3 PUpload None [(RA, le64x (CS + 100) ++ L1 ++ L2)]);
     PStore (OPut 4 PUpload None [(RB, le64x (2 * CS) ++ L1 ++ L1)]);
     PStore (OSet 5 SPin None [L2])].
Definition dm0 := dmap (p_ls ps0).
Definition U0 : list addr := [RA; RB; L1].
Definition h0 : list pop :=
  [PCreate 10 RA true; PCreate 11 RB true; PCreate 12 RA true; PApiPin 13 L1;
   PDelete 14 RA; PDelete 15 RA; PApiUnpin 16 L1; PApiUnpin 17 L1; PApiList].

Example C15_hyps_satisfiable :
  Setting CS dm0 U0 (cnt ps0) /\ Inv CS dm0 U0 (cnt ps0) ps0 /\ Forall (allowed CS dm0 U0) h0 /\
  tl CS dm0 RA = [RA; L1; L2] /\ tl CS dm0 RB = [RB; L1; L1] /\ tl CS dm0 L1 = [L1] /\
  let ps' := pexec CS 1000 po0 ps0 h0 in
  pins ps' = [RB] /\ map (cnt ps') [L1; L2; RA; RB] = [2; 1; 0; 1] /\ map (cnt ps0) [L1; L2; RA; RB] = [0; 1; 0; 0].
Proof.
  assert (HS : Setting CS dm0 U0 (cnt ps0)).
  { split; [|split].
    - repeat constructor; cbn; intuition discriminate.
    - intros r [<-|[<-|[<-|[]]]]; vm_compute; reflexivity.
    - apply (fitb_ok CS dm0 U0 (s_pin (p_ls ps0))). vm_compute. reflexivity. }
  split; [exact HS|]. split.
  { apply (clean_inv CS dm0 U0 (cnt ps0) ps0); [vm_compute; reflexivity | reflexivity | apply nozerob_ok; vm_compute; reflexivity | reflexivity]. }
  split.
  { unfold h0. repeat (constructor; [cbn [allowed]; first [exact I | left; unfold U0; cbn [In]; tauto]|]). constructor. }
  vm_compute. repeat split; reflexivity.
Qed.
