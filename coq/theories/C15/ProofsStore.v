(** C15 — what one pin / unpin / fetch call does to the stored bytes and the
    pin counters (on top of the refinement lemmas of C11). *)
From Coq Require Import List NArith ZArith Bool Lia.
Import ListNotations.
Require Import Aurora.C11.Maps Aurora.C11.Spec Aurora.C11.ProofsRefine Aurora.C15.Model.
Local Open Scope N_scope.

Lemma dmap_abs s : abs s = (dmap s, s_pin s).
Proof. reflexivity. Qed.

Lemma abs_inj s D P : abs s = (D, P) -> dmap s = D /\ s_pin s = P.
Proof. unfold abs. intros H. injection H as H1 H2. split; assumption. Qed.

Definition hasD (dm : list (addr * bytes)) (a : addr) : bool := ahas cmp_bytes a dm.
Lemma hasD_data s a : hasD (dmap s) a = data_has s a.
Proof. exact (abs_hasdata s a). Qed.
Lemma dmap_lookup s a : alookup cmp_bytes a (dmap s) = option_map d_data (data_get s a).
Proof. exact (abs_data s a). Qed.

(** ** pin counters as a function *)
Definition cntP (P : list (addr * N)) (c : addr) : N :=
  match alookup cmp_bytes c P with Some n => n | None => 0 end.
Definition pinup (P : list (addr * N)) (a : addr) := ainsert cmp_bytes a (wadd (cntP P a) 1) P.
Definition pindown (P : list (addr * N)) (a : addr) :=
  match alookup cmp_bytes a P with
  | Some pc => if 1 <? pc then ainsert cmp_bytes a (pc - 1) P else aremove cmp_bytes a P
  | None => P
  end.
Definition nozero (P : list (addr * N)) : Prop := forall k v, In (k, v) P -> 0 < v.

Fixpoint countN (c : addr) (l : list addr) : N :=
  match l with [] => 0 | a :: t => (if bytes_eqb a c then 1 else 0) + countN c t end.
Lemma countN_app c l1 l2 : countN c (l1 ++ l2) = countN c l1 + countN c l2.
Proof. induction l1 as [|a l1 IH]; simpl; [reflexivity|]. rewrite IH. lia. Qed.
Lemma countN_notin c l : ~ In c l -> countN c l = 0.
Proof.
  induction l as [|a l IH]; simpl; intros H; [reflexivity|].
  rewrite IH by tauto. rewrite bytes_eqb_neq; [reflexivity|]. intros E; apply H; now left.
Qed.
Lemma countN_in c l : In c l -> 1 <= countN c l.
Proof.
  induction l as [|a l IH]; simpl; intros H; [tauto|].
  destruct H as [->|H]; [rewrite bytes_eqb_refl; lia|]. specialize (IH H). lia.
Qed.

Lemma cntP_ainsert P a v c : cntP (ainsert cmp_bytes a v P) c = if bytes_eqb a c then v else cntP P c.
Proof.
  unfold cntP. destruct (bytes_eqb a c) eqn:E.
  - apply bytes_eqb_eq in E. subst. now rewrite (alookup_ainsert_same cmp_bytes cmp_bytes_eq).
  - rewrite (alookup_ainsert_other cmp_bytes cmp_bytes_eq); [reflexivity|].
    intros ->. now rewrite bytes_eqb_refl in E.
Qed.
Lemma cntP_aremove P a c : cntP (aremove cmp_bytes a P) c = if bytes_eqb a c then 0 else cntP P c.
Proof.
  unfold cntP. destruct (bytes_eqb a c) eqn:E.
  - apply bytes_eqb_eq in E. subst. now rewrite (alookup_aremove_same cmp_bytes).
  - rewrite (alookup_aremove_other cmp_bytes cmp_bytes_eq); [reflexivity|].
    intros ->. now rewrite bytes_eqb_refl in E.
Qed.

Lemma wadd_small a b : a + b < W64 -> wadd a b = a + b.
Proof. intros H. unfold wadd. now apply N.mod_small. Qed.

Lemma cntP_pinup P a c : cntP P a + 1 < W64 ->
  cntP (pinup P a) c = cntP P c + (if bytes_eqb a c then 1 else 0).
Proof.
  intros H. unfold pinup. rewrite cntP_ainsert. destruct (bytes_eqb a c) eqn:E.
  - apply bytes_eqb_eq in E. subst. now rewrite wadd_small.
  - lia.
Qed.

Lemma nozero_lookup P a v : nozero P -> alookup cmp_bytes a P = Some v -> 0 < v.
Proof. intros Hn H. apply (alookup_Some_in cmp_bytes cmp_bytes_eq) in H. exact (Hn _ _ H). Qed.

Lemma nozero_pinup P a : nozero P -> cntP P a + 1 < W64 -> nozero (pinup P a).
Proof.
  intros Hn H k v Hin. unfold pinup in Hin. apply (in_ainsert cmp_bytes cmp_bytes_eq) in Hin.
  destruct Hin as [E|[Hin _]]; [|exact (Hn _ _ Hin)].
  inversion E; subst. rewrite wadd_small by exact H. lia.
Qed.

Lemma cntP_pindown P a c : nozero P -> 1 <= cntP P a ->
  cntP (pindown P a) c = cntP P c - (if bytes_eqb a c then 1 else 0).
Proof.
  intros Hn H. unfold pindown. unfold cntP in H. destruct (alookup cmp_bytes a P) as [pc|] eqn:Ea; [|lia].
  destruct (1 <? pc) eqn:E1.
  - rewrite cntP_ainsert. destruct (bytes_eqb a c) eqn:E; [|lia].
    apply bytes_eqb_eq in E. subst. unfold cntP. now rewrite Ea.
  - rewrite cntP_aremove. destruct (bytes_eqb a c) eqn:E; [|lia].
    apply bytes_eqb_eq in E. subst. unfold cntP. rewrite Ea. apply N.ltb_ge in E1. lia.
Qed.
Lemma nozero_pindown P a : nozero P -> nozero (pindown P a).
Proof.
  intros Hn k v Hin. unfold pindown in Hin. destruct (alookup cmp_bytes a P) as [pc|] eqn:Ea; [|exact (Hn _ _ Hin)].
  destruct (1 <? pc) eqn:E1.
  - apply (in_ainsert cmp_bytes cmp_bytes_eq) in Hin. destruct Hin as [E|[Hin _]]; [|exact (Hn _ _ Hin)].
    inversion E; subst. apply N.ltb_lt in E1. lia.
  - apply (in_aremove cmp_bytes cmp_bytes_eq) in Hin. exact (Hn _ _ (proj1 Hin)).
Qed.

Lemma cntP_fold_pinup l : forall P, (forall c, cntP P c + countN c l < W64) ->
  forall c, cntP (fold_left pinup l P) c = cntP P c + countN c l.
Proof.
  induction l as [|a l IH]; intros P H c; simpl; [lia|].
  assert (Ha : cntP P a + 1 < W64).
  { specialize (H a). simpl in H. rewrite bytes_eqb_refl in H. lia. }
  rewrite IH.
  - rewrite cntP_pinup by exact Ha. lia.
  - intros c'. rewrite cntP_pinup by exact Ha. specialize (H c'). simpl in H. lia.
Qed.
Lemma nozero_fold_pinup l : forall P, nozero P -> (forall c, cntP P c + countN c l < W64) ->
  nozero (fold_left pinup l P).
Proof.
  induction l as [|a l IH]; intros P Hn H; simpl; [exact Hn|].
  assert (Ha : cntP P a + 1 < W64).
  { specialize (H a). simpl in H. rewrite bytes_eqb_refl in H. lia. }
  apply IH; [now apply nozero_pinup|].
  intros c'. rewrite cntP_pinup by exact Ha. specialize (H c'). simpl in H. lia.
Qed.
Lemma cntP_fold_pindown l : forall P, nozero P -> (forall c, countN c l <= cntP P c) ->
  forall c, cntP (fold_left pindown l P) c = cntP P c - countN c l.
Proof.
  induction l as [|a l IH]; intros P Hn H c; simpl; [lia|].
  assert (Ha : 1 <= cntP P a).
  { specialize (H a). simpl in H. rewrite bytes_eqb_refl in H. lia. }
  rewrite IH.
  - rewrite cntP_pindown by assumption. lia.
  - now apply nozero_pindown.
  - intros c'. rewrite cntP_pindown by assumption. specialize (H c'). simpl in H. lia.
Qed.
Lemma nozero_fold_pindown l : forall P, nozero P -> nozero (fold_left pindown l P).
Proof. induction l as [|a l IH]; intros P Hn; simpl; [exact Hn|]. apply IH. now apply nozero_pindown. Qed.

Section Calls.
  Variable capacity : N.

  Lemma data_has_get s a : data_has s a = true -> exists e, data_get s a = Some e.
  Proof. unfold data_has, ahas, data_get. destruct (alookup cmp_bytes a (s_data s)) as [e|]; [eauto|discriminate]. Qed.

  Lemma md_data_has s l a : data_has (mark_dirty s l) a = data_has s a.
  Proof. unfold data_has. now rewrite (proj1 (mark_dirty_data s l)). Qed.
  Lemma md_data_get s l a : data_get (mark_dirty s l) a = data_get s a.
  Proof. unfold data_get. now rewrite (proj1 (mark_dirty_data s l)). Qed.
  Lemma md_pin_get s l a : pin_get (mark_dirty s l) a = pin_get s a.
  Proof. unfold pin_get. now rewrite (proj2 (mark_dirty_data s l)). Qed.

  (** *** when a one-address pin / unpin call succeeds *)
  Lemma set_pin_success t root s a :
    data_has s a = true -> data_has s root = true ->
    exists s' trig, set capacity t SPin (Some root) [a] s = (s', RSet None trig).
  Proof.
    intros Ha Hr. unfold set. cbn [set_loop set_one]. rewrite md_data_has, Ha.
    destruct (data_has_get s root Hr) as [e He].
    unfold set_pin_item. rewrite md_data_get, He.
    destruct (access_get (mark_dirty s [a]) root) as [ats|].
    - destruct (gc_get (mark_dirty s [a]) (ats, mergeN (d_bin e) 0, root)) as [c|].
      + destruct (c =? 1); cbn [set_loop];
          match goal with |- context [finish ?c ?x ?y ?z] => destruct (finish c x y z) as [s2 tg] end; eauto.
      + cbn [set_loop]. match goal with |- context [finish ?c ?x ?y ?z] => destruct (finish c x y z) as [s2 tg] end; eauto.
    - cbn [set_loop]. match goal with |- context [finish ?c ?x ?y ?z] => destruct (finish c x y z) as [s2 tg] end; eauto.
  Qed.

  Lemma set_pin_notfound t root s a :
    data_has s a = false ->
    exists s', set capacity t SPin (Some root) [a] s = (s', RSet (Some EStorageNotFound) false).
  Proof. intros Ha. unfold set. cbn [set_loop set_one]. rewrite md_data_has, Ha. eauto. Qed.

  Lemma set_unpin_success t root s a pc :
    pin_get s a = Some pc -> data_has s root = true ->
    exists s' trig, set capacity t SUnpin (Some root) [a] s = (s', RSet None trig).
  Proof.
    intros Hp Hr. unfold set. cbn [set_loop set_one]. unfold set_unpin. rewrite md_pin_get, Hp.
    destruct (data_has_get s root Hr) as [e He].
    destruct (1 <? pc).
    - cbn [set_loop]. match goal with |- context [finish ?c ?x ?y ?z] => destruct (finish c x y z) as [s2 tg] end; eauto.
    - rewrite md_data_get, He.
      destruct (access_get (mark_dirty s [a]) root) as [ats|]; cbn [set_loop];
        match goal with |- context [finish ?c ?x ?y ?z] => destruct (finish c x y z) as [s2 tg] end; eauto.
  Qed.

  (** *** effect on (stored bytes, pin counters), from the C11 refinement *)
  Lemma set_pin_effect t root s a s' trig :
    set capacity t SPin (Some root) [a] s = (s', RSet None trig) ->
    dmap s' = dmap s /\ s_pin s' = pinup (s_pin s) a.
  Proof.
    intros E. pose proof (set_refines capacity t SPin (Some root) [a] s) as H. rewrite E in H.
    cbn in H. destruct H as [H _]. apply abs_inj in H. exact H.
  Qed.
  Lemma set_unpin_effect t root s a s' trig :
    set capacity t SUnpin (Some root) [a] s = (s', RSet None trig) ->
    dmap s' = dmap s /\ s_pin s' = pindown (s_pin s) a.
  Proof.
    intros E. pose proof (set_refines capacity t SUnpin (Some root) [a] s) as H. rewrite E in H.
    cbn in H. destruct H as [H _]. unfold pindown.
    change (sp_pin (abs s) a) with (alookup cmp_bytes a (s_pin s)) in H.
    destruct (alookup cmp_bytes a (s_pin s)) as [pc|]; [destruct (1 <? pc)|]; apply abs_inj in H; exact H.
  Qed.
  Lemma set_failed_effect t mode root s a s' e trig :
    set capacity t mode (Some root) [a] s = (s', RSet (Some e) trig) ->
    dmap s' = dmap s /\ s_pin s' = s_pin s.
  Proof.
    intros E. pose proof (set_refines capacity t mode (Some root) [a] s) as H. rewrite E in H.
    cbn in H. destruct H as [H _]. apply abs_inj in H. exact H.
  Qed.
  Lemma set_obs t mode root l s : exists s' r tg, set capacity t mode root l s = (s', RSet r tg).
  Proof.
    unfold set. destruct mode; try (destruct (set_loop _ _ _ _ _ _ _) as [ch s1 b|e s1];
      [destruct (finish capacity s1 b ch) as [s2 tg]|]; eauto).
    eauto.
  Qed.

  (** every one-address pin/unpin call leaves the stored bytes alone *)
  Lemma set_dmap t mode root s a : mode = SPin \/ mode = SUnpin ->
    dmap (fst (set capacity t mode (Some root) [a] s)) = dmap s.
  Proof.
    intros Hm. destruct (set_obs t mode (Some root) [a] s) as (s' & r & tg & E). rewrite E. cbn [fst].
    destruct r as [e|].
    - exact (proj1 (set_failed_effect _ _ _ _ _ _ _ _ E)).
    - destruct Hm; subst mode; [exact (proj1 (set_pin_effect _ _ _ _ _ _ E)) | exact (proj1 (set_unpin_effect _ _ _ _ _ _ E))].
  Qed.

  (** *** the fetch of the walk *)
  Lemma ls_fetch_spec t root s a :
    dmap (fst (ls_fetch t root s a)) = dmap s /\ s_pin (fst (ls_fetch t root s a)) = s_pin s /\
    snd (ls_fetch t root s a) = alookup cmp_bytes a (dmap s).
  Proof.
    unfold ls_fetch. pose proof (get_refines t GRequest (Some root) a s) as H.
    destruct (get t GRequest (Some root) a s) as [s' r]. destruct H as [H1 H2]. cbn [fst snd].
    apply abs_inj in H1. destruct H1 as [Hd Hp]. split; [exact Hd|]. split; [exact Hp|].
    unfold spec_get in H2. change (sp_data (abs s) a) with (alookup cmp_bytes a (dmap s)) in H2.
    destruct (alookup cmp_bytes a (dmap s)) as [d|]; destruct r; cbn [c11_view] in H2;
      try (match type of H2 with match ?x with _ => _ end = _ => destruct x end; discriminate H2);
      try discriminate H2; inversion H2; subst; reflexivity.
  Qed.
End Calls.
