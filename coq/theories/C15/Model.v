(** C15 — executable model of pkg/pinning (pinning.go) and of the pin handlers
    of pkg/api (pin.go), layered on the model of pkg/localstore
    ([Aurora.C11.Model], imported read-only) and on a model of the traversal
    that [CreatePin]/[DeletePin] drive (pkg/traversal Traverse, the chunk walk
    of pkg/file/joiner).  Definitions only.

    - STATE.  [p_ls] is the localstore state of C11 (all five indexes,
      gcSize, ...); [p_roots] is the part of the state store that pinning
      uses: the keys ["root-pin-<hex ref>"] with their JSON-encoded address
      values, as an association list [ref -> stored address] kept in the key
      order of the state store (ascending hex string = [cmp_bytes] on the
      reference bytes), which is the order [Pins] lists them in.

    - THE CODE MODELLED IS THE REPAIRED pinning.go
      (proposed/C15/fix-createpin-repeat.patch, fix-deletepin-repeat.patch): [CreatePin] with traversal and
      [DeletePin] look the root key up first and do nothing when the call
      would repeat an earlier one.

    - TRAVERSAL.  [Traverse] first tries to read the reference as a manifest:
      it loads the WHOLE file with ModeGetLookup ([probe]: every chunk of the
      tree must be present and the spans must add up), and falls back to the
      plain-file walk when the bytes are not a mantaray node.  The walk
      ([walk], joiner.processChunkAddresses) reports the root, then every
      reference of every intermediate chunk in order, fetching
      (ModeGetRequest under the root-hash context: [updateGC] of the root)
      only the children whose subtree is larger than one chunk.  The iterator
      function ([visit]) is called between the fetches, on the CURRENT store
      state: the model threads the state through the walk exactly like that.
      Outside the modelled domain (a tree no honest upload produces: span not
      matching the section, partial references, spans >= 2^63, content that
      parses as a mantaray manifest) the model answers [WOut] and makes no
      claim.

    - CLOCK.  [now()] is an input of every operation ([t]); all clock reads of
      one service call see the same value (the harness pins the clock). *)
From Coq Require Import List NArith ZArith Bool.
Import ListNotations.
Require Export Aurora.C11.Model.
Local Open Scope N_scope.

(** ** bytes *)
Fixpoint nlen_acc (l : list N) (acc : N) : N :=
  match l with [] => acc | _ :: t => nlen_acc t (acc + 1) end.
Definition nlen (l : list N) : N := nlen_acc l 0.

(** [binary.LittleEndian.Uint64(data[:8])] and [data[8:]]; [None] = fewer than 8 bytes (Go panics) *)
Definition split_chunk (d : bytes) : option (N * bytes) :=
  match d with
  | b0 :: b1 :: b2 :: b3 :: b4 :: b5 :: b6 :: b7 :: rest =>
      Some (b0 + 256 * (b1 + 256 * (b2 + 256 * (b3 + 256 * (b4 + 256 * (b5 + 256 * (b6 + 256 * b7)))))), rest)
  | _ => None
  end.

(** the references of an intermediate chunk: [data[cursor : cursor+refLength]] for
    cursor = 0, refLength, ...; [None] when the payload is not a whole number of references *)
Fixpoint chop_aux (rl : N) (l : list N) (cur : list N) (k : N) : option (list addr) :=
  match l with
  | [] => if k =? 0 then Some [] else None
  | x :: t =>
      if k + 1 =? rl
      then match chop_aux rl t [] 0 with Some rs => Some (rev (x :: cur) :: rs) | None => None end
      else chop_aux rl t (x :: cur) (k + 1)
  end.
Definition chop (rl : N) (payload : bytes) : option (list addr) :=
  if rl =? 0 then None else chop_aux rl payload [] 0.

Definition SpanLimit : N := 9223372036854775808.   (* 2^63: spans are used as int64 *)

Section Pinning.
  Variable cs : N.          (* boson.ChunkSize *)
  Variable capacity : N.    (* db.capacity (only decides the "collection triggered" flag) *)

  (** *** joiner.subtrieSection: size of the subtree under reference number [i]
      of an intermediate chunk with [refs] references and span [span] *)
  Fixpoint branch_size (fuel : nat) (bs branching refs span : Z) : option Z :=
    if (span - bs * (refs - 1) <=? bs)%Z then Some bs
    else match fuel with
         | O => None
         | S f => if (4611686018427387904 <=? bs * branching)%Z then None
                  else branch_size f (bs * branching)%Z branching refs span
         end.
  Definition section (rl datalen i span : N) : option N :=
    let refs := Z.of_N (datalen / rl) in
    let branching := Z.of_N (cs / rl) in
    match branch_size 8 (Z.of_N cs) branching refs (Z.of_N span) with
    | None => None
    | Some bs =>
        let sec := if (Z.of_N i =? refs - 1)%Z then (Z.of_N span - (refs - 1) * bs)%Z else bs in
        if (0 <? sec)%Z then Some (Z.to_N sec) else None
    end.

  (** *** the manifest attempt of traverseAndProcess: loadsave.Load reads the
      whole file (ModeGetLookup: no index is touched, only the stored bytes
      matter: [dmap]).  [PROk]: every chunk is there and the tree is the honest
      one for its span. *)
  Definition dmap (s : state) : list (addr * bytes) := map (fun kv => (fst kv, d_data (snd kv))) (s_data s).

  Inductive pres := PROk | PRNotFound | PROut.

  (** the loop over the references of one intermediate chunk; [rec] reads a child *)
  Fixpoint probe_refs (rec : bytes -> N -> pres) (dm : list (addr * bytes)) (rl dl span : N)
           (rs : list addr) (i : N) : pres :=
    match rs with
    | [] => PROk
    | r :: rest =>
        match section rl dl i span with
        | None => PROut
        | Some sec =>
            match alookup cmp_bytes r dm with
            | None => PRNotFound
            | Some d =>
                match split_chunk d with
                | None => PROut
                | Some (sp, pl) =>
                    if negb (sp =? sec) then PROut
                    else if sec <=? cs
                    then (* a child of at most one chunk is a data chunk: it must hold its span *)
                         if sp <=? nlen pl then probe_refs rec dm rl dl span rest (i + 1) else PROut
                    else match rec pl sp with
                         | PROk => probe_refs rec dm rl dl span rest (i + 1)
                         | x => x
                         end
                end
            end
        end
    end.

  Fixpoint probe_chunk (fuel : nat) (dm : list (addr * bytes)) (rl : N) (payload : bytes) (span : N) : pres :=
    if span <=? nlen payload then PROk
    else match fuel with
         | O => PROut
         | S f =>
             match chop rl payload with
             | None | Some [] => PROut
             | Some refs => probe_refs (fun pl sp => probe_chunk f dm rl pl sp) dm rl (nlen payload) span refs 0
             end
         end.

  Definition TreeFuel : nat := 8.

  Definition probe (dm : list (addr * bytes)) (ref : addr) : pres :=
    if nlen ref =? 0 then PROut
    else match alookup cmp_bytes ref dm with
         | None => PRNotFound
         | Some d =>
             match split_chunk d with
             | None => PROut
             | Some (sp, pl) => if SpanLimit <=? sp then PROut else probe_chunk TreeFuel dm (nlen ref) pl sp
             end
         end.

  (** *** the walk, generic in the state it threads ([St]) *)
  Inductive wres := WDone | WErr (e : err) | WOut.

  Section Walk.
    Context {St : Type}.
    Variable visit : St -> addr -> St * option err.     (* the AddressIterFunc; [Some e] aborts the walk *)
    Variable fetch : St -> addr -> St * option bytes.   (* getter.Get(ctx, ModeGetRequest, address) *)

    (** the loop of joiner.processChunkAddresses over the references of one
        intermediate chunk; [rec] walks a fetched child *)
    Fixpoint walk_refs (rec : St -> bytes -> N -> St * wres) (rl dl span : N)
             (st : St) (rs : list addr) (i : N) : St * wres :=
      match rs with
      | [] => (st, WDone)
      | r :: rest =>
          let '(st1, e) := visit st r in
          match e with
          | Some er => (st1, WErr er)
          | None =>
              match section rl dl i span with
              | None => (st1, WOut)
              | Some sec =>
                  if sec <=? cs then walk_refs rec rl dl span st1 rest (i + 1)
                  else
                    let '(st2, d) := fetch st1 r in
                    match d with
                    | None => (st2, WErr EStorageNotFound)
                    | Some data =>
                        match split_chunk data with
                        | None => (st2, WOut)
                        | Some (sp, pl) =>
                            let '(st3, w) := rec st2 pl sp in
                            match w with
                            | WDone => walk_refs rec rl dl span st3 rest (i + 1)
                            | _ => (st3, w)
                            end
                        end
                    end
              end
          end
      end.

    (** joiner.processChunkAddresses *)
    Fixpoint walk (fuel : nat) (st : St) (rl : N) (payload : bytes) (span : N) : St * wres :=
      if span <=? nlen payload then (st, WDone)
      else match fuel with
           | O => (st, WOut)
           | S f =>
               match chop rl payload with
               | None => (st, WOut)
               | Some refs => walk_refs (fun st' pl sp => walk f st' rl pl sp) rl (nlen payload) span st refs 0
               end
           end.

    (** traversal.Traverse for a reference that is not a manifest: the probe,
        then joiner.New (fetch of the root) and IterateChunkAddresses *)
    Definition traverse (ls : St -> state) (st : St) (ref : addr) : St * wres :=
      match probe (dmap (ls st)) ref with
      | PRNotFound => (st, WErr EStorageNotFound)
      | PROut => (st, WOut)
      | PROk =>
          let '(st1, d) := fetch st ref in
          match d with
          | None => (st1, WErr EStorageNotFound)
          | Some data =>
              match split_chunk data with
              | None => (st1, WOut)
              | Some (sp, pl) =>
                  let '(st2, e) := visit st1 ref in
                  match e with
                  | Some er => (st2, WErr er)
                  | None => walk TreeFuel st2 (nlen ref) pl sp
                  end
              end
          end
      end.
  End Walk.

  (** *** pkg/pinning *)
  Record pstate := { p_ls : state; p_roots : list (addr * addr) }.
  Definition pinit : pstate := {| p_ls := init; p_roots := [] |}.
  Definition with_ls (ps : pstate) (s : state) : pstate := {| p_ls := s; p_roots := p_roots ps |}.

  (** result of a service call *)
  Inductive perr :=
  | PENotFound        (* errors.Is(err, storage.ErrNotFound) *)
  | PEDriverNotFound  (* errors.Is(err, driver.ErrNotFound) *)
  | PETraversal       (* errors.Is(err, pinning.ErrTraversal) *)
  | PEOther.
  Definition perr_of (e : err) : perr :=
    match e with EStorageNotFound => PENotFound | ENotFound => PEDriverNotFound | EInvalidMode => PEOther end.

  (** the store calls made through the context [sctx.SetRootHash(ctx, ref)] *)
  Definition ls_fetch (t : N) (root : addr) (s : state) (a : addr) : state * option bytes :=
    let '(s', r) := get t GRequest (Some root) a s in
    (s', match r with RGet (inr d) => Some d | _ => None end).

  (** iterFn of CreatePin: storage.ErrNotFound is ignored, every other error aborts *)
  Definition pin_visit (t : N) (root : addr) (s : state) (a : addr) : state * option err :=
    let '(s', r) := set capacity t SPin (Some root) [a] s in
    (s', match r with
         | RSet (Some EStorageNotFound) _ => None
         | RSet (Some e) _ => Some e
         | _ => None
         end).

  (** iterFn of DeletePin: errors are collected ([iterErr]), the walk goes on *)
  Definition unpin_visit (t : N) (root : addr) (st : state * bool) (a : addr) : (state * bool) * option err :=
    let '(s', r) := set capacity t SUnpin (Some root) [a] (fst st) in
    ((s', match r with RSet (Some _) _ => true | _ => snd st end), None).
  Definition unpin_fetch (t : N) (root : addr) (st : state * bool) (a : addr) : (state * bool) * option bytes :=
    let '(s', d) := ls_fetch t root (fst st) a in ((s', snd st), d).

  (** HasPin: the key exists and its value equals the reference *)
  Definition has_pin (ps : pstate) (ref : addr) : bool :=
    match alookup cmp_bytes ref (p_roots ps) with
    | Some v => bytes_eqb v ref
    | None => false
    end.
  (** Pins: the values in key order *)
  Definition pins (ps : pstate) : list addr := map snd (p_roots ps).

  Inductive presult :=
  | POk
  | PFail (e : perr)
  | POutOfModel.       (* outside the modelled domain; never produced by the harness *)

  (** CreatePin (repaired: the root key is looked up before a traversal) *)
  Definition create_pin (t : N) (ref : addr) (trav : bool) (ps : pstate) : pstate * presult :=
    let record (ls : state) : pstate * presult :=
      match alookup cmp_bytes ref (p_roots ps) with
      | None => ({| p_ls := ls; p_roots := ainsert cmp_bytes ref ref (p_roots ps) |}, POk)
      | Some _ => (with_ls ps ls, POk)
      end in
    if trav then
      if has_pin ps ref then (ps, POk)
      else
        match traverse (pin_visit t ref) (ls_fetch t ref) (fun s => s) (p_ls ps) ref with
        | (ls, WDone) => record ls
        | (ls, WErr e) => (with_ls ps ls, PFail (perr_of e))
        | (ls, WOut) => (with_ls ps ls, POutOfModel)
        end
    else record (p_ls ps).

  (** DeletePin (repaired: nothing to do without a root key) *)
  Definition delete_pin (t : N) (ref : addr) (ps : pstate) : pstate * presult :=
    if negb (has_pin ps ref) then (ps, POk)
    else
      match traverse (unpin_visit t ref) (unpin_fetch t ref) fst (p_ls ps, false) ref with
      | ((ls, _), WErr e) => (with_ls ps ls, PFail (perr_of e))
      | ((ls, _), WOut) => (with_ls ps ls, POutOfModel)
      | ((ls, true), WDone) => (with_ls ps ls, PFail PETraversal)
      | ((ls, false), WDone) => ({| p_ls := ls; p_roots := aremove cmp_bytes ref (p_roots ps) |}, POk)
      end.

  (** *** pkg/api/pin.go: HTTP status codes *)
  Definition api_pin (t : N) (ref : addr) (ps : pstate) : pstate * option N :=
    if has_pin ps ref then (ps, Some 200)
    else match create_pin t ref true ps with
         | (ps', POk) => (ps', Some 201)
         | (ps', PFail PENotFound) => (ps', Some 404)
         | (ps', PFail _) => (ps', Some 500)
         | (ps', POutOfModel) => (ps', None)
         end.
  Definition api_unpin (t : N) (ref : addr) (ps : pstate) : pstate * option N :=
    if negb (has_pin ps ref) then (ps, Some 404)
    else match delete_pin t ref ps with
         | (ps', POk) => (ps', Some 200)
         | (ps', PFail _) => (ps', Some 500)
         | (ps', POutOfModel) => (ps', None)
         end.
  Definition api_get (ref : addr) (ps : pstate) : N := if has_pin ps ref then 200 else 404.

  (** *** operations and histories *)
  Inductive pop :=
  | PCreate (t : N) (ref : addr) (trav : bool)
  | PDelete (t : N) (ref : addr)
  | PHas (ref : addr)
  | PPins
  | PApiPin (t : N) (ref : addr)
  | PApiUnpin (t : N) (ref : addr)
  | PApiGet (ref : addr)
  | PApiList
  | PApiBad (method : N)            (* a reference that is not hexadecimal: 400 before anything else *)
  | PStore (o : op).                (* a direct localstore call (C11 step) *)

  Inductive pobs :=
  | QRes (r : presult)
  | QHas (b : bool)
  | QPins (l : list addr)
  | QApi (code : option N)          (* None = outside the modelled domain *)
  | QApiList (l : list addr)
  | QStore (r : obs).

  Variable po : addr -> N.          (* db.po, only used by direct puts *)

  Definition pstep (ps : pstate) (o : pop) : pstate * pobs :=
    match o with
    | PCreate t ref trav => let '(ps', r) := create_pin t ref trav ps in (ps', QRes r)
    | PDelete t ref => let '(ps', r) := delete_pin t ref ps in (ps', QRes r)
    | PHas ref => (ps, QHas (has_pin ps ref))
    | PPins => (ps, QPins (pins ps))
    | PApiPin t ref => let '(ps', c) := api_pin t ref ps in (ps', QApi c)
    | PApiUnpin t ref => let '(ps', c) := api_unpin t ref ps in (ps', QApi c)
    | PApiGet ref => (ps, QApi (Some (api_get ref ps)))
    | PApiList => (ps, QApiList (pins ps))
    | PApiBad _ => (ps, QApi (Some 400))
    | PStore o => let '(s', r) := step po capacity (p_ls ps) o in (with_ls ps s', QStore r)
    end.

  Fixpoint prun (ps : pstate) (h : list pop) : pstate * list pobs :=
    match h with
    | [] => (ps, [])
    | o :: rest =>
        let '(ps1, r) := pstep ps o in
        let '(ps2, rs) := prun ps1 rest in
        (ps2, r :: rs)
    end.
  Definition pexec (ps : pstate) (h : list pop) : pstate := fst (prun ps h).
End Pinning.
