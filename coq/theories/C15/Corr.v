(** C15 — correspondence.  The harness (harness/cmd/c15, library harness/pinx)
    drives the real [pinning.Service] (over a real leveldb-backed
    [localstore.DB], the in-memory leveldb state store and the real
    [traversal.New] of that store) and the real pin handlers of [api.New]
    through [ServeHTTP], on files that went through the real upload pipeline.
    After EVERY operation it records what the call returned, the canonical dump
    of all localstore indexes ([DB.VerifDump]) and all keys of the state
    store.  [check_case] replays the history on the model and compares result
    and full state after every step.

    Compact cases: addresses are indexes into the case's address universe;
    chunk contents are indexes into the case's data table ([dtab]), whose
    entries are raw bytes, a span header followed by [len] copies of one byte
    (the 256 KiB data chunks), or a span header followed by references (the
    intermediate chunks).  The stored BYTES are compared on the step the
    harness marks [full] (the last step of every history); on the other steps
    address, bin id and store timestamp of every data entry are compared. *)
From Coq Require Import List NArith ZArith Bool Ascii String.
Import ListNotations.
Require Import Aurora.Base.Corr Aurora.Consts.
Require Export Aurora.C11.Corr Aurora.C15.Model.
Local Open Scope N_scope.

Definition ChunkSize : N := Z.to_N Consts.boson_ChunkSize.

(** byte strings are written as hexadecimal string literals (one token for the parser) *)
Definition hexval (c : ascii) : N :=
  let n := N_of_ascii c in
  if (48 <=? n) && (n <=? 57) then n - 48
  else if (97 <=? n) && (n <=? 102) then n - 87
  else 0.
Fixpoint hexs (s : string) : list N :=
  match s with
  | String a (String b t) => (16 * hexval a + hexval b) :: hexs t
  | _ => []
  end.

(** data table *)
Inductive dtab :=
| DE
| DRaw (d : string) (t : dtab)
| DFill (span len b : N) (t : dtab)
| DRefs (span : N) (refs : nl) (t : dtab).

Definition le64 (n : N) : list N :=
  [n mod 256; (n / 256) mod 256; (n / 65536) mod 256; (n / 16777216) mod 256;
   (n / 4294967296) mod 256; (n / 1099511627776) mod 256; (n / 281474976710656) mod 256;
   (n / 72057594037927936) mod 256].
Definition nrepeat (b : N) (n : N) : list N := N.iter n (fun l => b :: l) [].

Fixpoint dtab_list (univ : list addr) (d : dtab) : list bytes :=
  match d with
  | DE => []
  | DRaw x t => hexs x :: dtab_list univ t
  | DFill sp len b t => (le64 sp ++ nrepeat b len) :: dtab_list univ t
  | DRefs sp refs t => (le64 sp ++ List.concat (map (A univ) (nl_list refs))) :: dtab_list univ t
  end.

(** operations: [N] arguments [a]/[ref] are universe indexes, [didx] a data table index *)
Inductive xop :=
| XPut (t mode : N) (root : oroot) (a didx : N)
| XSet (t mode : N) (root : oroot) (a : N)
| XCreate (t ref : N) (trav : bool)
| XDelete (t ref : N)
| XHas (ref : N)
| XPins
| XApiPin (t ref : N)
| XApiUnpin (t ref : N)
| XApiGet (ref : N)
| XApiList
| XApiBad (method : N).

(** observed results.  error classes of a service call: 0 nil, 1 driver.ErrNotFound,
    2 storage.ErrNotFound, 3 pinning.ErrTraversal, 9 anything else *)
Inductive xobs :=
| YPut (e : N) (exist : nl) (trig : bool)
| YSet (e : N) (trig : bool)
| YRes (e : N)
| YHas (b : bool)
| YPins (l : nl)
| YApi (code : N)
| YApiList (l : nl).

(** observed state: data rows are [R4 addr bin ts didx]; roots rows [R2 key value] *)
Inductive xdump := XD (data access gc pin bins : orows) (gcsize : N) (roots : orows) (full : bool).
Inductive xsteps := XE | XC (o : xop) (q : xobs) (d : xdump) (t : xsteps).
Inductive xuniv := UX | UH (a : string) (t : xuniv).
Fixpoint xuniv_list (u : xuniv) : list addr := match u with UX => [] | UH a t => hexs a :: xuniv_list t end.
Inductive case := CPin (base : string) (cap : N) (univ : xuniv) (tab : dtab) (st : xsteps).

Section Tr.
  Variable univ : list addr.
  Variable tab : list bytes.
  Definition Dt (i : N) : bytes := nth (N.to_nat i) tab [999999].

  Definition tr_xop (o : xop) : pop :=
    match o with
    | XPut t m r a d => PStore (OPut t (pmode_of m) (R univ r) [(A univ a, Dt d)])
    | XSet t m r a => PStore (OSet t (smode_of m) (R univ r) [A univ a])
    | XCreate t ref trav => PCreate t (A univ ref) trav
    | XDelete t ref => PDelete t (A univ ref)
    | XHas ref => PHas (A univ ref)
    | XPins => PPins
    | XApiPin t ref => PApiPin t (A univ ref)
    | XApiUnpin t ref => PApiUnpin t (A univ ref)
    | XApiGet ref => PApiGet (A univ ref)
    | XApiList => PApiList
    | XApiBad m => PApiBad m
    end.

  Fixpoint r_xdata (r : rows) : list (addr * dentry) :=
    match r with
    | R4 a b t d rest => (A univ a, {| d_bin := b; d_ts := t; d_data := Dt d |}) :: r_xdata rest
    | _ => []
    end.
  Fixpoint r_roots (r : rows) : list (addr * addr) :=
    match r with R2 k v rest => (A univ k, A univ v) :: r_roots rest | _ => [] end.

  Definition tr_xdump (prev : pstate) (d : xdump) : pstate :=
    match d with
    | XD da ac gc pi bi gs ro _ =>
        {| p_ls := {| s_data := match da with Same => s_data (p_ls prev) | Now r => r_xdata r end;
                      s_access := match ac with Same => s_access (p_ls prev) | Now r => r_amap univ r end;
                      s_gc := match gc with Same => s_gc (p_ls prev) | Now r => r_gc univ r end;
                      s_pin := match pi with Same => s_pin (p_ls prev) | Now r => r_amap univ r end;
                      s_bins := match bi with Same => s_bins (p_ls prev) | Now r => r_pairs r end;
                      s_gcsize := gs; s_gcrun := None; s_dirty := [] |};
           p_roots := match ro with Same => p_roots prev | Now r => r_roots r end |}
    end.
  Definition dump_full (d : xdump) : bool := match d with XD _ _ _ _ _ _ _ f => f end.
End Tr.

Definition perr_code (e : perr) : N :=
  match e with PEDriverNotFound => 1 | PENotFound => 2 | PETraversal => 3 | PEOther => 9 end.

(** model observation and observed result in one vocabulary; 7777 = outside the modelled domain *)
Inductive wobs :=
| WStore (v : vobs)
| WRes (e : N)
| WHas (b : bool)
| WList (api : bool) (l : list addr)
| WApi (code : N).
Definition w_model (r : pobs) : wobs :=
  match r with
  | QRes POk => WRes 0
  | QRes (PFail e) => WRes (perr_code e)
  | QRes POutOfModel => WRes 7777
  | Model.QHas b => WHas b
  | QPins l => WList false l
  | QApi (Some c) => WApi c
  | QApi None => WApi 7777
  | QApiList l => WList true l
  | QStore o => WStore (v_model o)
  end.
Definition w_obs (univ : list addr) (q : xobs) : wobs :=
  match q with
  | YPut e ex tg => WStore (VPut e (nl_bools ex) tg)
  | YSet e tg => WStore (VSet e tg)
  | YRes e => WRes e
  | YHas b => WHas b
  | YPins l => WList false (map (A univ) (nl_list l))
  | YApi c => WApi c
  | YApiList l => WList true (map (A univ) (nl_list l))
  end.
Definition wobs_eqb (x y : wobs) : bool :=
  match x, y with
  | WStore a, WStore b => vobs_eqb a b
  | WRes a, WRes b => a =? b
  | WHas a, WHas b => Bool.eqb a b
  | WList p a, WList q b => Bool.eqb p q && list_eqb abytes_eqb a b
  | WApi a, WApi b => a =? b
  | _, _ => false
  end.

Definition dkey_eqb (x y : dentry) : bool := (d_bin x =? d_bin y) && (d_ts x =? d_ts y).
Definition pstate_eqb (full : bool) (m o : pstate) : bool :=
  list_eqb (pair_eqb abytes_eqb (if full then dentry_eqb else dkey_eqb)) (s_data (p_ls m)) (s_data (p_ls o))
  && list_eqb (pair_eqb abytes_eqb N.eqb) (s_access (p_ls m)) (s_access (p_ls o))
  && list_eqb (pair_eqb gckey_eqb N.eqb) (s_gc (p_ls m)) (s_gc (p_ls o))
  && list_eqb (pair_eqb abytes_eqb N.eqb) (s_pin (p_ls m)) (s_pin (p_ls o))
  && list_eqb (pair_eqb N.eqb N.eqb) (s_bins (p_ls m)) (s_bins (p_ls o))
  && (s_gcsize (p_ls m) =? s_gcsize (p_ls o))
  && (match s_gcrun (p_ls m) with None => true | Some _ => false end)
  && (match s_dirty (p_ls m) with [] => true | _ => false end)
  && list_eqb (pair_eqb abytes_eqb abytes_eqb) (p_roots m) (p_roots o).

(** what is reported on a mismatch: step index, the model's result, and the
    model's pin index, gc index, gcSize and root pins after that step *)
Definition brief (ps : pstate) :=
  (s_pin (p_ls ps), s_gc (p_ls ps), s_access (p_ls ps), s_gcsize (p_ls ps), map fst (p_roots ps)).

Fixpoint first_bad (po : addr -> N) (cap : N) (univ : list addr) (tab : list bytes) (s ob : pstate)
         (st : xsteps) (i : N) :=
  match st with
  | XE => None
  | XC o q d rest =>
      let '(s', r) := pstep ChunkSize cap po s (tr_xop univ tab o) in
      let ob' := tr_xdump univ tab ob d in
      if wobs_eqb (w_model r) (w_obs univ q) && pstate_eqb (dump_full d) s' ob'
      then first_bad po cap univ tab s' ob' rest (i + 1)
      else Some (i, w_model r, brief s')
  end.

Definition run_case (c : case) :=
  match c with
  | CPin base cap univ tab st =>
      let u := xuniv_list univ in
      let tb := dtab_list u tab in
      first_bad (po_of (hexs base)) cap u tb pinit pinit st 0
  end.
Definition check_case (c : case) : bool := match run_case c with None => true | Some _ => false end.
Definition explain_case (c : case) := run_case c.
