(** C15 — a reference whose whole-file probe succeeds is stored: the walk
    completes on it and every address it reports holds a chunk.  (So "stored
    reference" can be stated with the traversal's own probe alone.) *)
From Coq Require Import List NArith ZArith Bool Lia.
Import ListNotations.
Require Import Aurora.C11.Maps Aurora.C15.Model Aurora.C15.ProofsWalk Aurora.C15.ProofsStore Aurora.C15.ProofsPin.
Local Open Scope N_scope.

Section Probe.
  Variable cs : N.
  Variable dm : list (addr * bytes).

  Definition tr_ok (recp : bytes -> N -> pres) (rect : bytes -> N -> list ev * wres) : Prop :=
    forall pl sp, recp pl sp = PROk ->
      exists evs, rect pl sp = (evs, WDone) /\ Forall (fun a => hasD dm a = true) (visited evs).

  Lemma probe_refs_trace recp rect rl dl span : tr_ok recp rect ->
    forall rs i, probe_refs cs recp dm rl dl span rs i = PROk ->
      exists evs, trace_refs cs dm rect rl dl span rs i = (evs, WDone) /\
                  Forall (fun a => hasD dm a = true) (visited evs).
  Proof.
    intros Hrec. induction rs as [|r rest IH]; intros i H; cbn [probe_refs trace_refs] in *.
    - exists []. split; [reflexivity|constructor].
    - destruct (section cs rl dl i span) as [sec|]; [|discriminate].
      destruct (alookup cmp_bytes r dm) as [d|] eqn:Ea; [|discriminate].
      assert (Hr : hasD dm r = true) by (unfold hasD, ahas; now rewrite Ea).
      destruct (split_chunk d) as [[sp pl]|]; [|discriminate].
      destruct (negb (sp =? sec)); [discriminate|].
      destruct (sec <=? cs).
      + destruct (sp <=? nlen pl); [|discriminate].
        destruct (IH _ H) as (evs & E & Hall). rewrite E. exists (EV r :: evs). split; [reflexivity|].
        cbn [visited]. constructor; assumption.
      + destruct (recp pl sp) eqn:Ep; try discriminate.
        destruct (Hrec pl sp Ep) as (l1 & E1 & Hall1). rewrite E1.
        destruct (IH _ H) as (l2 & E2 & Hall2). rewrite E2.
        exists (EV r :: EG r :: l1 ++ l2). split; [reflexivity|].
        cbn [visited]. constructor; [exact Hr|]. rewrite visited_app. apply Forall_app. split; assumption.
  Qed.

  Lemma probe_chunk_trace fuel : forall rl pl sp, probe_chunk cs fuel dm rl pl sp = PROk ->
    exists evs, trace cs dm fuel rl pl sp = (evs, WDone) /\ Forall (fun a => hasD dm a = true) (visited evs).
  Proof.
    induction fuel as [|f IH]; intros rl pl sp H; cbn [probe_chunk trace] in *.
    - destruct (sp <=? nlen pl); [|discriminate]. exists []. split; [reflexivity|constructor].
    - destruct (sp <=? nlen pl); [exists []; split; [reflexivity|constructor]|].
      destruct (chop rl pl) as [[|r0 refs]|]; try discriminate.
      apply (probe_refs_trace (fun pl' sp' => probe_chunk cs f dm rl pl' sp') (fun pl' sp' => trace cs dm f rl pl' sp')); [|exact H].
      intros pl' sp' Hp. apply IH. exact Hp.
  Qed.

  Theorem probe_stored ref : probe cs dm ref = PROk ->
    exists l, tlist cs dm ref = Some l /\ Forall (fun a => hasD dm a = true) l.
  Proof.
    intros Hp. unfold tlist, ttrav. rewrite Hp. unfold probe in Hp.
    destruct (nlen ref =? 0); [discriminate|].
    destruct (alookup cmp_bytes ref dm) as [d|] eqn:Ea; [|discriminate].
    destruct (split_chunk d) as [[sp pl]|]; [|discriminate].
    destruct (SpanLimit <=? sp); [discriminate|].
    destruct (probe_chunk_trace TreeFuel _ _ _ Hp) as (evs & E & Hall). rewrite E.
    exists (ref :: visited evs). split; [reflexivity|]. constructor; [|exact Hall].
    unfold hasD, ahas. now rewrite Ea.
  Qed.
End Probe.
