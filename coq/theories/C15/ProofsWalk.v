(** C15 — the walk is a replay of a trace that depends on the stored bytes only.

    [trace] computes, from the data map alone, the sequence of events of
    joiner.processChunkAddresses: [EV a] = the iterator function is called on
    [a], [EG a] = chunk [a] is fetched.  [walk_trace]: for every visitor and
    fetcher that leave the data map alone (and a fetcher that returns the
    stored bytes), the state-threading walk of the model equals the replay of
    that trace. *)
From Coq Require Import List NArith ZArith Bool Lia.
Import ListNotations.
Require Import Aurora.C11.Maps Aurora.C15.Model.
Local Open Scope N_scope.

Inductive ev := EV (a : addr) | EG (a : addr).

Fixpoint visited (l : list ev) : list addr :=
  match l with [] => [] | EV a :: t => a :: visited t | EG _ :: t => visited t end.
Lemma visited_app l1 l2 : visited (l1 ++ l2) = visited l1 ++ visited l2.
Proof. induction l1 as [|[a|a] l1 IH]; simpl; [reflexivity| now rewrite IH | exact IH]. Qed.

Section Trace.
  Variable cs : N.
  Variable dm : list (addr * bytes).

  Fixpoint trace_refs (rec : bytes -> N -> list ev * wres) (rl dl span : N) (rs : list addr) (i : N)
    : list ev * wres :=
    match rs with
    | [] => ([], WDone)
    | r :: rest =>
        match section cs rl dl i span with
        | None => ([EV r], WOut)
        | Some sec =>
            if sec <=? cs then let '(l, w) := trace_refs rec rl dl span rest (i + 1) in (EV r :: l, w)
            else
              match alookup cmp_bytes r dm with
              | None => ([EV r; EG r], WErr EStorageNotFound)
              | Some d =>
                  match split_chunk d with
                  | None => ([EV r; EG r], WOut)
                  | Some (sp, pl) =>
                      let '(l1, w1) := rec pl sp in
                      match w1 with
                      | WDone => let '(l2, w2) := trace_refs rec rl dl span rest (i + 1) in
                                 (EV r :: EG r :: l1 ++ l2, w2)
                      | _ => (EV r :: EG r :: l1, w1)
                      end
                  end
              end
        end
    end.

  Fixpoint trace (fuel : nat) (rl : N) (payload : bytes) (span : N) : list ev * wres :=
    if span <=? nlen payload then ([], WDone)
    else match fuel with
         | O => ([], WOut)
         | S f =>
             match chop rl payload with
             | None => ([], WOut)
             | Some refs => trace_refs (fun pl sp => trace f rl pl sp) rl (nlen payload) span refs 0
             end
         end.

  (** the events of a whole traversal of [ref] whose probe succeeded *)
  Definition ttrav (ref : addr) : list ev * wres :=
    match alookup cmp_bytes ref dm with
    | None => ([EG ref], WErr EStorageNotFound)
    | Some d =>
        match split_chunk d with
        | None => ([EG ref], WOut)
        | Some (sp, pl) => let '(l, w) := trace TreeFuel (nlen ref) pl sp in (EG ref :: EV ref :: l, w)
        end
    end.

  (** the addresses the iterator function is called on, in order, when the
      traversal of [ref] completes *)
  Definition tlist (ref : addr) : option (list addr) :=
    match probe cs dm ref, ttrav ref with
    | PROk, (l, WDone) => Some (visited l)
    | _, _ => None
    end.
End Trace.

Section Replay.
  Context {St : Type}.
  Variable cs : N.
  Variable visit : St -> addr -> St * option err.
  Variable fetch : St -> addr -> St * option bytes.
  Variable dat : St -> list (addr * bytes).          (* the stored bytes a state carries *)
  Hypothesis visit_dat : forall st a, dat (fst (visit st a)) = dat st.
  Hypothesis fetch_dat : forall st a, dat (fst (fetch st a)) = dat st.
  Hypothesis fetch_val : forall st a, snd (fetch st a) = alookup cmp_bytes a (dat st).

  Fixpoint replay (st : St) (l : list ev) (w : wres) : St * wres :=
    match l with
    | [] => (st, w)
    | EV a :: t => let '(st1, e) := visit st a in
                   match e with Some er => (st1, WErr er) | None => replay st1 t w end
    | EG a :: t => replay (fst (fetch st a)) t w
    end.

  Lemma replay_dat l : forall st w, dat (fst (replay st l w)) = dat st.
  Proof.
    induction l as [|[a|a] l IH]; intros st w; simpl; [reflexivity| |].
    - pose proof (visit_dat st a) as Hv. destruct (visit st a) as [st1 [er|]]; simpl in *; [exact Hv|].
      now rewrite IH.
    - now rewrite IH, fetch_dat.
  Qed.

  Lemma replay_app l1 : forall l2 st w,
    replay st (l1 ++ l2) w =
    match replay st l1 WDone with
    | (st', WDone) => replay st' l2 w
    | x => x
    end.
  Proof.
    induction l1 as [|[a|a] l1 IH]; intros l2 st w; simpl; [reflexivity| |].
    - destruct (visit st a) as [st1 [er|]]; [reflexivity|]. apply IH.
    - apply IH.
  Qed.

  Definition rec_ok (dm : list (addr * bytes)) (recw : St -> bytes -> N -> St * wres) (rect : bytes -> N -> list ev * wres) : Prop :=
    forall st pl sp, dat st = dm -> recw st pl sp = replay st (fst (rect pl sp)) (snd (rect pl sp)).

  Lemma walk_refs_trace dm recw rect rl dl span :
    rec_ok dm recw rect ->
    forall rs st i, dat st = dm ->
      walk_refs cs visit fetch recw rl dl span st rs i =
      replay st (fst (trace_refs cs dm rect rl dl span rs i)) (snd (trace_refs cs dm rect rl dl span rs i)).
  Proof.
    intros Hrec. induction rs as [|r rest IH]; intros st i Hd; [reflexivity|].
    cbn [walk_refs trace_refs].
    pose proof (visit_dat st r) as Hv.
    destruct (section cs rl dl i span) as [sec|] eqn:Es.
    2:{ cbn [fst snd replay]. destruct (visit st r) as [st1 [er|]]; reflexivity. }
    destruct (sec <=? cs) eqn:El.
    { destruct (trace_refs cs dm rect rl dl span rest (i + 1)) as [l w] eqn:Et. cbn [fst snd replay].
      destruct (visit st r) as [st1 [er|]]; cbn [fst] in Hv; [reflexivity|].
      rewrite IH by congruence. now rewrite Et. }
    destruct (visit st r) as [st1 [er|]] eqn:Ev; cbn [fst] in Hv.
    { destruct (alookup cmp_bytes r dm) as [d|]; [destruct (split_chunk d) as [[sp pl]|]|].
      - destruct (rect pl sp) as [l1 [| |]]; [destruct (trace_refs cs dm rect rl dl span rest (i + 1))|..];
          cbn [fst snd replay]; rewrite Ev; reflexivity.
      - cbn [fst snd replay]; rewrite Ev; reflexivity.
      - cbn [fst snd replay]; rewrite Ev; reflexivity. }
    assert (Hd1 : dat st1 = dm) by congruence.
    pose proof (fetch_dat st1 r) as Hf. pose proof (fetch_val st1 r) as Hfv.
    destruct (fetch st1 r) as [st2 d0] eqn:Ef. cbn [fst snd] in Hf, Hfv. rewrite Hd1 in Hfv. subst d0.
    assert (Hd2 : dat st2 = dm) by congruence.
    destruct (alookup cmp_bytes r dm) as [d|].
    2:{ cbn [fst snd replay]. rewrite Ev. cbn [replay]. rewrite Ef. reflexivity. }
    destruct (split_chunk d) as [[sp pl]|].
    2:{ cbn [fst snd replay]. rewrite Ev. cbn [replay]. rewrite Ef. reflexivity. }
    rewrite (Hrec st2 pl sp Hd2).
    destruct (rect pl sp) as [l1 w1] eqn:Er. cbn [fst snd].
    destruct w1.
    - destruct (trace_refs cs dm rect rl dl span rest (i + 1)) as [l2 w2] eqn:Et. cbn [fst snd replay].
      rewrite Ev. cbn [replay]. rewrite Ef. cbn [fst]. rewrite replay_app.
      destruct (replay st2 l1 WDone) as [st3 w3] eqn:E3.
      pose proof (replay_dat l1 st2 WDone) as Hd3. rewrite E3 in Hd3. cbn [fst] in Hd3.
      destruct w3; try reflexivity.
      rewrite IH by congruence. now rewrite Et.
    - cbn [fst snd replay]. rewrite Ev. cbn [replay]. rewrite Ef. cbn [fst].
      destruct (replay st2 l1 (WErr e)) as [st3 w3] eqn:E3.
      assert (Hne : w3 <> WDone).
      { clear -E3. revert st2 E3. induction l1 as [|[a|a] l1 IHl]; intros st2 E3; cbn [replay] in E3.
        - inversion E3. discriminate.
        - destruct (visit st2 a) as [sx [ex|]]; [inversion E3; discriminate | eapply IHl; eauto].
        - eapply IHl; eauto. }
      destruct w3; [congruence | reflexivity | reflexivity].
    - cbn [fst snd replay]. rewrite Ev. cbn [replay]. rewrite Ef. cbn [fst].
      destruct (replay st2 l1 WOut) as [st3 w3] eqn:E3.
      assert (Hne : w3 <> WDone).
      { clear -E3. revert st2 E3. induction l1 as [|[a|a] l1 IHl]; intros st2 E3; cbn [replay] in E3.
        - inversion E3. discriminate.
        - destruct (visit st2 a) as [sx [ex|]]; [inversion E3; discriminate | eapply IHl; eauto].
        - eapply IHl; eauto. }
      destruct w3; [congruence | reflexivity | reflexivity].
  Qed.

  Lemma walk_trace dm fuel : forall st rl pl sp, dat st = dm ->
    walk cs visit fetch fuel st rl pl sp = replay st (fst (trace cs dm fuel rl pl sp)) (snd (trace cs dm fuel rl pl sp)).
  Proof.
    induction fuel as [|f IH]; intros st rl pl sp Hd; simpl.
    - destruct (sp <=? nlen pl); reflexivity.
    - destruct (sp <=? nlen pl); [reflexivity|].
      destruct (chop rl pl) as [refs|]; [|reflexivity].
      apply walk_refs_trace; [|exact Hd].
      intros st' pl' sp' Hd'. apply IH. exact Hd'.
  Qed.
End Replay.
