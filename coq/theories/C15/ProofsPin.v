(** C15 — CreatePin / DeletePin on a stored reference: replay of the trace with
    the pin / unpin visitor, and what it does to the pin counters. *)
From Coq Require Import List NArith ZArith Bool Lia.
Import ListNotations.
Require Import Aurora.C11.Maps Aurora.C15.Model Aurora.C15.ProofsWalk Aurora.C15.ProofsStore.
Local Open Scope N_scope.

Section Pin.
  Variable cs capacity : N.

  (** ** replay with the pinning visitor *)
  Lemma pin_visit_dat t root s a : dmap (fst (pin_visit capacity t root s a)) = dmap s.
  Proof.
    unfold pin_visit. pose proof (set_dmap capacity t SPin root s a (or_introl eq_refl)) as H.
    destruct (set capacity t SPin (Some root) [a] s) as [s' r]. exact H.
  Qed.
  Lemma ls_fetch_dat t root s a : dmap (fst (ls_fetch t root s a)) = dmap s.
  Proof. exact (proj1 (ls_fetch_spec t root s a)). Qed.
  Lemma ls_fetch_val t root s a : snd (ls_fetch t root s a) = alookup cmp_bytes a (dmap s).
  Proof. exact (proj2 (proj2 (ls_fetch_spec t root s a))). Qed.

  Lemma pin_visit_ok t root s a :
    hasD (dmap s) a = true -> hasD (dmap s) root = true ->
    exists s', pin_visit capacity t root s a = (s', None) /\ dmap s' = dmap s /\ s_pin s' = pinup (s_pin s) a.
  Proof.
    rewrite !hasD_data. intros Ha Hr.
    destruct (set_pin_success capacity t root s a Ha Hr) as (s' & tg & E).
    exists s'. unfold pin_visit. rewrite E. split; [reflexivity|].
    exact (set_pin_effect _ _ _ _ _ _ _ E).
  Qed.

  Lemma replay_pin t root evs : forall s w,
    hasD (dmap s) root = true ->
    Forall (fun a => hasD (dmap s) a = true) (visited evs) ->
    exists s', replay (pin_visit capacity t root) (ls_fetch t root) s evs w = (s', w) /\
               dmap s' = dmap s /\ s_pin s' = fold_left pinup (visited evs) (s_pin s).
  Proof.
    induction evs as [|[a|a] evs IH]; intros s w Hr Hall; cbn [replay visited fold_left].
    - exists s. auto.
    - cbn [visited] in Hall. inversion Hall as [|x l Ha Hrest]; subst.
      destruct (pin_visit_ok t root s a Ha Hr) as (s1 & E & Hd & Hp). rewrite E.
      destruct (IH s1 w) as (s' & E' & Hd' & Hp').
      + now rewrite Hd.
      + now rewrite Hd.
      + exists s'. split; [exact E'|]. split; [congruence|]. now rewrite Hp', Hp.
    - destruct (ls_fetch_spec t root s a) as (Hd & Hp & _).
      destruct (IH (fst (ls_fetch t root s a)) w) as (s' & E' & Hd' & Hp').
      + now rewrite Hd.
      + now rewrite Hd.
      + exists s'. split; [exact E'|]. split; [congruence|]. now rewrite Hp', Hp.
  Qed.

  (** ** replay with the un-pinning visitor *)
  Definition udat (st : state * bool) := dmap (fst st).
  Lemma unpin_visit_dat t root st a : udat (fst (unpin_visit capacity t root st a)) = udat st.
  Proof.
    unfold unpin_visit, udat. pose proof (set_dmap capacity t SUnpin root (fst st) a (or_intror eq_refl)) as H.
    destruct (set capacity t SUnpin (Some root) [a] (fst st)) as [s' r]. exact H.
  Qed.
  Lemma unpin_fetch_dat t root st a : udat (fst (unpin_fetch t root st a)) = udat st.
  Proof.
    unfold unpin_fetch, udat. pose proof (ls_fetch_dat t root (fst st) a) as H.
    destruct (ls_fetch t root (fst st) a) as [s' d]. exact H.
  Qed.
  Lemma unpin_fetch_val t root st a : snd (unpin_fetch t root st a) = alookup cmp_bytes a (udat st).
  Proof.
    unfold unpin_fetch, udat. pose proof (ls_fetch_val t root (fst st) a) as H.
    destruct (ls_fetch t root (fst st) a) as [s' d]. exact H.
  Qed.

  Lemma unpin_visit_ok t root s fl a :
    hasD (dmap s) root = true -> 1 <= cntP (s_pin s) a ->
    exists s', unpin_visit capacity t root (s, fl) a = ((s', fl), None) /\ dmap s' = dmap s /\
               s_pin s' = pindown (s_pin s) a.
  Proof.
    rewrite hasD_data. intros Hr Hc. unfold cntP in Hc.
    destruct (alookup cmp_bytes a (s_pin s)) as [pc|] eqn:Ep; [|lia].
    destruct (set_unpin_success capacity t root s a pc Ep Hr) as (s' & tg & E).
    exists s'. unfold unpin_visit. cbn [fst snd]. rewrite E. split; [reflexivity|].
    exact (set_unpin_effect _ _ _ _ _ _ _ E).
  Qed.

  Lemma replay_unpin t root evs : forall s fl w,
    hasD (dmap s) root = true -> nozero (s_pin s) ->
    (forall c, countN c (visited evs) <= cntP (s_pin s) c) ->
    exists s', replay (unpin_visit capacity t root) (unpin_fetch t root) (s, fl) evs w = ((s', fl), w) /\
               dmap s' = dmap s /\ s_pin s' = fold_left pindown (visited evs) (s_pin s).
  Proof.
    induction evs as [|[a|a] evs IH]; intros s fl w Hr Hn Hc; cbn [replay visited fold_left].
    - exists s. auto.
    - assert (Ha : 1 <= cntP (s_pin s) a).
      { specialize (Hc a). cbn [visited countN] in Hc. rewrite bytes_eqb_refl in Hc. lia. }
      destruct (unpin_visit_ok t root s fl a Hr Ha) as (s1 & E & Hd & Hp). rewrite E.
      destruct (IH s1 fl w) as (s' & E' & Hd' & Hp').
      + now rewrite Hd.
      + rewrite Hp. now apply nozero_pindown.
      + intros c. rewrite Hp, cntP_pindown by assumption. specialize (Hc c). cbn [visited countN] in Hc. lia.
      + exists s'. split; [exact E'|]. split; [congruence|]. now rewrite Hp', Hp.
    - assert (Hf : fst (unpin_fetch t root (s, fl) a) = (fst (ls_fetch t root s a), fl)).
      { unfold unpin_fetch. cbn [fst snd]. destruct (ls_fetch t root s a); reflexivity. }
      rewrite Hf. clear Hf.
      destruct (ls_fetch_spec t root s a) as (Hd & Hp & _).
      destruct (ls_fetch t root s a) as [s1 d]. cbn [fst snd] in *.
      destruct (IH s1 fl w) as (s' & E' & Hd' & Hp').
      + now rewrite Hd.
      + now rewrite Hp.
      + intros c. rewrite Hp. exact (Hc c).
      + exists s'. split; [exact E'|]. split; [congruence|]. now rewrite Hp', Hp.
  Qed.

  (** ** a stored reference: the probe succeeds, the traversal completes and
      every address it reports holds a chunk *)
  Definition stored (dm : list (addr * bytes)) (ref : addr) (l : list addr) : Prop :=
    tlist cs dm ref = Some l /\ Forall (fun a => hasD dm a = true) l.

  Lemma stored_inv dm ref l : stored dm ref l ->
    probe cs dm ref = PROk /\
    exists d sp pl evs, alookup cmp_bytes ref dm = Some d /\ split_chunk d = Some (sp, pl) /\
      trace cs dm TreeFuel (nlen ref) pl sp = (evs, WDone) /\ l = ref :: visited evs /\ hasD dm ref = true.
  Proof.
    intros [Ht Hall]. unfold tlist, ttrav in Ht.
    destruct (probe cs dm ref); try discriminate. split; [reflexivity|].
    destruct (alookup cmp_bytes ref dm) as [d|] eqn:Ea; [|discriminate].
    destruct (split_chunk d) as [[sp pl]|] eqn:Es; [|discriminate].
    destruct (trace cs dm TreeFuel (nlen ref) pl sp) as [evs w] eqn:Et.
    destruct w; try discriminate. inversion Ht; subst. cbn [visited] in *.
    exists d, sp, pl, evs. repeat split; try assumption; try reflexivity.
    inversion Hall; assumption.
  Qed.

  (** traverse with the pinning visitor on a stored reference *)
  Lemma traverse_pin t ref s l :
    stored (dmap s) ref l ->
    exists s', traverse cs (pin_visit capacity t ref) (ls_fetch t ref) (fun x => x) s ref = (s', WDone) /\
               dmap s' = dmap s /\ s_pin s' = fold_left pinup l (s_pin s).
  Proof.
    intros Hst. pose proof Hst as [_ Hall].
    destruct (stored_inv _ _ _ Hst) as (Hp & d & sp & pl & evs & Ea & Es & Et & -> & Hr).
    unfold traverse. rewrite Hp.
    destruct (ls_fetch_spec t ref s ref) as (Hd1 & Hp1 & Hv1).
    destruct (ls_fetch t ref s ref) as [s1 d1]. cbn [fst snd] in *. rewrite Ea in Hv1. subst d1. rewrite Es.
    inversion Hall as [|x l' Href Hrest]; subst.
    destruct (pin_visit_ok t ref s1 ref) as (s2 & E2 & Hd2 & Hp2); [now rewrite Hd1 | now rewrite Hd1 |].
    rewrite E2.
    rewrite (walk_trace cs (pin_visit capacity t ref) (ls_fetch t ref) dmap
               (pin_visit_dat t ref) (ls_fetch_dat t ref) (ls_fetch_val t ref) (dmap s));
      [|congruence].
    rewrite Et. cbn [fst snd].
    destruct (replay_pin t ref evs s2 WDone) as (s' & E' & Hd' & Hp').
    - rewrite Hd2, Hd1. exact Hr.
    - rewrite Hd2, Hd1. exact Hrest.
    - exists s'. split; [exact E'|]. split; [congruence|]. cbn [fold_left]. now rewrite Hp', Hp2, Hp1.
  Qed.

  (** traverse with the un-pinning visitor on a stored reference whose chunks
      are pinned at least as often as the traversal reports them *)
  Lemma traverse_unpin t ref s l :
    stored (dmap s) ref l -> nozero (s_pin s) -> (forall c, countN c l <= cntP (s_pin s) c) ->
    exists s', traverse cs (unpin_visit capacity t ref) (unpin_fetch t ref) fst (s, false) ref = ((s', false), WDone) /\
               dmap s' = dmap s /\ s_pin s' = fold_left pindown l (s_pin s).
  Proof.
    intros Hst Hn Hc. pose proof Hst as [_ Hall].
    destruct (stored_inv _ _ _ Hst) as (Hp & d & sp & pl & evs & Ea & Es & Et & -> & Hr).
    unfold traverse. cbn [fst]. rewrite Hp.
    assert (Hf : unpin_fetch t ref (s, false) ref = ((fst (ls_fetch t ref s ref), false), snd (ls_fetch t ref s ref))).
    { unfold unpin_fetch. cbn [fst snd]. destruct (ls_fetch t ref s ref); reflexivity. }
    rewrite Hf. clear Hf.
    destruct (ls_fetch_spec t ref s ref) as (Hd1 & Hp1 & Hv1).
    destruct (ls_fetch t ref s ref) as [s1 d1]. cbn [fst snd] in *. rewrite Ea in Hv1. subst d1. rewrite Es.
    assert (Href : 1 <= cntP (s_pin s1) ref).
    { rewrite Hp1. specialize (Hc ref). cbn [countN] in Hc. rewrite bytes_eqb_refl in Hc. lia. }
    destruct (unpin_visit_ok t ref s1 false ref) as (s2 & E2 & Hd2 & Hp2); [now rewrite Hd1 | exact Href |].
    rewrite E2.
    rewrite (walk_trace cs (unpin_visit capacity t ref) (unpin_fetch t ref) udat
               (unpin_visit_dat t ref) (unpin_fetch_dat t ref) (unpin_fetch_val t ref) (dmap s));
      [|unfold udat; cbn [fst]; congruence].
    rewrite Et. cbn [fst snd].
    destruct (replay_unpin t ref evs s2 false WDone) as (s' & E' & Hd' & Hp').
    - rewrite Hd2, Hd1. exact Hr.
    - rewrite Hp2, Hp1. now apply nozero_pindown.
    - intros c. rewrite Hp2, Hp1, cntP_pindown; [|assumption|now rewrite <- Hp1].
      specialize (Hc c). cbn [countN] in Hc. lia.
    - exists s'. split; [exact E'|]. split; [congruence|]. cbn [fold_left]. now rewrite Hp', Hp2, Hp1.
  Qed.
End Pin.
