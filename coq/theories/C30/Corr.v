(** C30 — correspondence: the harness drives the real cheque store / traffic service with a
    history, records the error class of every call and a final dump, and [check_case]
    recomputes both with the model.  The [rec] field of every signed cheque is the observed
    result of the real [RecoverCheque] on it. *)
From Coq Require Import List NArith ZArith Bool.
Import ListNotations.
Require Import Aurora.Base.Corr.
Require Export Aurora.C30.Model Aurora.C30.Conc.
Local Open Scope N_scope.

Definition SC (r b : N) (z : Z) (rc : option N) : signed :=
  {| chq := {| recipient := r; beneficiary := b; payout := z |}; rec := rc |}.

(** observed error class: 0 ok | 1 "account information error" (both spellings) |
    2 ErrWrongBeneficiary | 3 other error (recovery) | 4 ErrChequeInvalid |
    5 ErrChequeNotIncreasing | 6 handshake refused *)
Definition class (r : res) : N :=
  match r with
  | Ok _ => 0
  | Err EUnknownPeer | Err EAccount => 1
  | Err EWrongRecipient => 2
  | Err ERecover => 3
  | Err EInvalid => 4
  | Err ENotIncreasing => 5
  | Err EExists => 6
  end.

Inductive case :=
(* service history; per op the observed class; final dump per address of the universe:
   (payout of LastReceivedCheque or None, Traffic record exists, transferChequeTraffic) *)
| CSvc (self_ : addr) (h : list (op * N)) (dump : list (addr * (option Z * bool * Z)))
(* store-only history; per cheque (class, returned amount or 0); final dump *)
| CStore (self_ : addr) (h : list (signed * (N * Z))) (dump : list (addr * option Z))
(* service history [h1], then a restart: new process + Init with the chain reporting [chain] (TransAmount(issuer, self))
   and listing [lists], then history [h2]; per op the observed class; final dump as in CSvc *)
| CSvcR (self_ : addr) (h1 : list (op * N)) (chain : list (addr * Z)) (lists : list addr) (h2 : list (op * N))
        (dump : list (addr * (option Z * bool * Z)))
(* concurrent deliveries through the service over a gated state store: sequential registrations [pre]; one list of
   deliveries per goroutine; the order in which the gate granted the store's Get (false) / Put (true) of the
   last-received-cheque entry, per goroutine index; observed class of every delivery per goroutine; then a
   sequential tail [post] (replays) with observed classes; final dump as in CSvc *)
| CConc (self_ : addr) (pre : list op) (progs : list (list delivery)) (events : list (nat * bool))
        (obs : list (list N)) (post : list (op * N)) (dump : list (addr * (option Z * bool * Z))).

Definition opt_last (st : store) (a : addr) : option Z := option_map (fun l => payout (chq l)) (get a st).

Definition svc_model (self_ : addr) (h : list op) (univ : list addr) :=
  let '(rs, s') := run (init self_) h in
  (map class rs,
   map (fun a => (a, (opt_last (last_recv s') a,
                      match get a (credited s') with Some _ => true | None => false end,
                      credited_of s' a))) univ).
Definition svcr_model (self_ : addr) (h1 : list op) (chain : list (addr * Z)) (lists : list addr) (h2 : list op) (univ : list addr) :=
  let '(rs1, s1) := run (init self_) h1 in
  let '(rs2, s') := run (restore s1 chain lists) h2 in
  (map class rs1, map class rs2,
   map (fun a => (a, (opt_last (last_recv s') a,
                      match get a (credited s') with Some _ => true | None => false end,
                      credited_of s' a))) univ).
Definition store_model (self_ : addr) (h : list signed) (univ : list addr) :=
  let '(rs, st') := store_run self_ [] h in
  (map (fun r => (class r, amount_of r)) rs, map (fun a => (a, opt_last st' a)) univ).

(** ---- replay of an observed gate order in the micro-step model ([prog_head]) ---- *)
Definition blocked_by (g : cstate) (th : thread) : option nat :=
  match job th, rem th with
  | Some _, ILockS :: _ => slock g
  | Some _, ILockT :: _ => get (reg_a th) (tlocks g)
  | _, _ => None
  end.
Definition instr_eqb (x y : instr) : bool :=
  match x, y with
  | IGuard, IGuard | ILockT, ILockT | IPre, IPre | ILockS, ILockS | ILoad, ILoad | ICmp, ICmp | IPut, IPut
  | IUnlockS, IUnlockS | ICredit, ICredit | IUnlockT, IUnlockT => true
  | _, _ => false
  end.
(** run until thread [i] has executed [target]; a thread in the way of a lock is advanced instead *)
Fixpoint drive (fuel : nat) (g : cstate) (i : nat) (target : instr) : option cstate :=
  match fuel with
  | O => None
  | S f =>
      match nth_error (thr g) i with
      | None => None
      | Some th =>
          match job th, rem th, todo th with
          | None, _, [] => None
          | Some _, ins :: _, _ =>
              if instr_eqb ins target then Some (cstep prog_head g i)
              else match blocked_by g th with
                   | Some j => drive f (cstep prog_head g j) i target
                   | None => drive f (cstep prog_head g i) i target
                   end
          | _, _, _ => drive f (cstep prog_head g i) i target
          end
      end
  end.
Fixpoint replay_events (g : cstate) (ev : list (nat * bool)) : option cstate :=
  match ev with
  | [] => Some g
  | (i, is_put) :: t =>
      match drive 200 g i (if is_put then IPut else ILoad) with
      | Some g' => replay_events g' t
      | None => None
      end
  end.
(** round-robin until every thread is done *)
Fixpoint drain (fuel : nat) (g : cstate) : cstate :=
  match fuel with
  | O => g
  | S f => if finished g then g else drain f (fold_left (cstep prog_head) (seq 0 (length (thr g))) g)
  end.

Definition conc_model (self_ : addr) (pre : list op) (progs : list (list delivery)) (events : list (nat * bool))
           (post : list op) (univ : list addr) :=
  let s0 := snd (run (init self_) pre) in
  match replay_events (boot s0 progs) events with
  | None => None
  | Some g =>
      let g := drain 400 g in
      if finished g then
        let '(rs, s') := run (base g) post in
        Some (map (fun th => map (fun x => class (snd x)) (rev (results th))) (thr g), map class rs,
              map (fun a => (a, (opt_last (last_recv s') a,
                                 match get a (credited s') with Some _ => true | None => false end,
                                 credited_of s' a))) univ)
      else None
  end.

Definition dump_eqb (a b : addr * (option Z * bool * Z)) : bool :=
  let '(x, (l, e, c)) := a in let '(x', (l', e', c')) := b in
  (x =? x') && option_eqb Z.eqb l l' && Bool.eqb e e' && Z.eqb c c'.

Definition check_case (c : case) : bool :=
  match c with
  | CSvc self_ h dump =>
      let '(cls, d) := svc_model self_ (map fst h) (map fst dump) in
      list_eqb N.eqb cls (map snd h) && list_eqb dump_eqb d dump
  | CStore self_ h dump =>
      let '(out, d) := store_model self_ (map fst h) (map fst dump) in
      list_eqb (pair_eqb N.eqb Z.eqb) out (map snd h)
      && list_eqb (pair_eqb N.eqb (option_eqb Z.eqb)) d dump
  | CSvcR self_ h1 chain lists h2 dump =>
      let '(c1, c2, d) := svcr_model self_ (map fst h1) chain lists (map fst h2) (map fst dump) in
      list_eqb N.eqb c1 (map snd h1) && list_eqb N.eqb c2 (map snd h2) && list_eqb dump_eqb d dump
  | CConc self_ pre progs events obs post dump =>
      match conc_model self_ pre progs events (map fst post) (map fst dump) with
      | None => false
      | Some (cls, pcls, d) =>
          list_eqb (list_eqb N.eqb) cls obs && list_eqb N.eqb pcls (map snd post) && list_eqb dump_eqb d dump
      end
  end.

(** model (classes, amounts, dump) next to the observed ones *)
Definition explain_case (c : case) :=
  match c with
  | CSvc self_ h dump =>
      let '(cls, d) := svc_model self_ (map fst h) (map fst dump) in
      (map (fun x => (x, 0%Z)) cls, map (fun x => (fst x, (fst (fst (snd x)), snd (snd x)))) d,
       map (fun x => (snd x, 0%Z)) h, map (fun x => (fst x, (fst (fst (snd x)), snd (snd x)))) dump)
  | CStore self_ h dump =>
      let '(out, d) := store_model self_ (map fst h) (map fst dump) in
      (out, map (fun x => (fst x, (snd x, 0%Z))) d, map snd h, map (fun x => (fst x, (snd x, 0%Z))) dump)
  | CSvcR self_ h1 chain lists h2 dump =>
      let '(c1, c2, d) := svcr_model self_ (map fst h1) chain lists (map fst h2) (map fst dump) in
      (map (fun x => (x, 0%Z)) (c1 ++ c2), map (fun x => (fst x, (fst (fst (snd x)), snd (snd x)))) d,
       map (fun x => (snd x, 0%Z)) (h1 ++ h2), map (fun x => (fst x, (fst (fst (snd x)), snd (snd x)))) dump)
  | CConc self_ pre progs events obs post dump =>
      match conc_model self_ pre progs events (map fst post) (map fst dump) with
      | None => ([(999, 0%Z)], [], map (fun x => (x, 0%Z)) (concat obs), map (fun x => (fst x, (fst (fst (snd x)), snd (snd x)))) dump)
      | Some (cls, pcls, d) =>
          (map (fun x => (x, 0%Z)) (concat cls ++ pcls), map (fun x => (fst x, (fst (fst (snd x)), snd (snd x)))) d,
           map (fun x => (x, 0%Z)) (concat obs ++ map snd post), map (fun x => (fst x, (fst (fst (snd x)), snd (snd x)))) dump)
      end
  end.
