(** C30 — correspondence: the harness drives the real cheque store / traffic service with a
    history, records the error class of every call and a final dump, and [check_case]
    recomputes both with the model.  The [rec] field of every signed cheque is the observed
    result of the real [RecoverCheque] on it. *)
From Coq Require Import List NArith ZArith Bool.
Import ListNotations.
Require Import Aurora.Base.Corr.
Require Export Aurora.C30.Model.
Local Open Scope N_scope.

Definition SC (r b : N) (z : Z) (rc : option N) : signed :=
  {| chq := {| recipient := r; beneficiary := b; payout := z |}; rec := rc |}.

(** observed error class: 0 ok | 1 "account information error" (both spellings) |
    2 ErrWrongBeneficiary | 3 other error (recovery) | 4 ErrChequeInvalid |
    5 ErrChequeNotIncreasing | 6 handshake refused *)
Definition class (r : res) : N :=
  match r with
  | Ok _ => 0
  | Err EUnknownPeer | Err EAccount => 1
  | Err EWrongRecipient => 2
  | Err ERecover => 3
  | Err EInvalid => 4
  | Err ENotIncreasing => 5
  | Err EExists => 6
  end.

Inductive case :=
(* service history; per op the observed class; final dump per address of the universe:
   (payout of LastReceivedCheque or None, Traffic record exists, transferChequeTraffic) *)
| CSvc (self_ : addr) (h : list (op * N)) (dump : list (addr * (option Z * bool * Z)))
(* store-only history; per cheque (class, returned amount or 0); final dump *)
| CStore (self_ : addr) (h : list (signed * (N * Z))) (dump : list (addr * option Z)).

Definition opt_last (st : store) (a : addr) : option Z := option_map (fun l => payout (chq l)) (get a st).

Definition svc_model (self_ : addr) (h : list op) (univ : list addr) :=
  let '(rs, s') := run (init self_) h in
  (map class rs,
   map (fun a => (a, (opt_last (last_recv s') a,
                      match get a (credited s') with Some _ => true | None => false end,
                      credited_of s' a))) univ).
Definition store_model (self_ : addr) (h : list signed) (univ : list addr) :=
  let '(rs, st') := store_run self_ [] h in
  (map (fun r => (class r, amount_of r)) rs, map (fun a => (a, opt_last st' a)) univ).

Definition dump_eqb (a b : addr * (option Z * bool * Z)) : bool :=
  let '(x, (l, e, c)) := a in let '(x', (l', e', c')) := b in
  (x =? x') && option_eqb Z.eqb l l' && Bool.eqb e e' && Z.eqb c c'.

Definition check_case (c : case) : bool :=
  match c with
  | CSvc self_ h dump =>
      let '(cls, d) := svc_model self_ (map fst h) (map fst dump) in
      list_eqb N.eqb cls (map snd h) && list_eqb dump_eqb d dump
  | CStore self_ h dump =>
      let '(out, d) := store_model self_ (map fst h) (map fst dump) in
      list_eqb (pair_eqb N.eqb Z.eqb) out (map snd h)
      && list_eqb (pair_eqb N.eqb (option_eqb Z.eqb)) d dump
  end.

(** model (classes, amounts, dump) next to the observed ones *)
Definition explain_case (c : case) :=
  match c with
  | CSvc self_ h dump =>
      let '(cls, d) := svc_model self_ (map fst h) (map fst dump) in
      (map (fun x => (x, 0%Z)) cls, map (fun x => (fst x, (fst (fst (snd x)), snd (snd x)))) d,
       map (fun x => (snd x, 0%Z)) h, map (fun x => (fst x, (fst (fst (snd x)), snd (snd x)))) dump)
  | CStore self_ h dump =>
      let '(out, d) := store_model self_ (map fst h) (map fst dump) in
      (out, map (fun x => (fst x, (snd x, 0%Z))) d, map snd h, map (fun x => (fst x, (snd x, 0%Z))) dump)
  end.
