(** C30 — lemmas about the cheque-acceptance model. *)
From Coq Require Import List NArith ZArith Bool Lia.
From Coq Require Import ZifyBool ZifyN.
Import ListNotations.
Require Import Aurora.C30.Model.
Local Open Scope N_scope.

(** ---- association lists ---- *)
Lemma get_set_same {V} k (v : V) l : get k (set k v l) = Some v.
Proof.
  induction l as [|[k' v'] t IH]; cbn [set get].
  - now rewrite N.eqb_refl.
  - destruct (k =? k') eqn:E; cbn [get]; rewrite ?N.eqb_refl, ?E; auto.
Qed.
Lemma get_set_other {V} k k' (v : V) l : k' <> k -> get k' (set k v l) = get k' l.
Proof.
  intros Hne. induction l as [|[k2 v2] t IH]; cbn [set get].
  - apply N.eqb_neq in Hne. now rewrite Hne.
  - destruct (k =? k2) eqn:E; cbn [get].
    + apply N.eqb_eq in E; subst k2. apply N.eqb_neq in Hne. now rewrite Hne.
    + destruct (k' =? k2); auto.
Qed.

Lemma last_payout_set_same st a sc : last_payout (set a sc st) a = payout (chq sc).
Proof. unfold last_payout. now rewrite get_set_same. Qed.
Lemma last_payout_set_other st a a' sc : a' <> a -> last_payout (set a sc st) a' = last_payout st a'.
Proof. intros H. unfold last_payout. now rewrite get_set_other. Qed.

Definition cred (cr : list (addr * Z)) (a : addr) : Z := match get a cr with Some v => v | None => 0%Z end.
Lemma credited_of_cred s a : credited_of s a = cred (credited s) a.
Proof. reflexivity. Qed.
Lemma cred_touch cr a a' : cred (touch a cr) a' = cred cr a'.
Proof.
  unfold touch, cred. destruct (get a cr) eqn:E; auto.
  destruct (N.eq_dec a' a) as [->|Hne].
  - now rewrite get_set_same, E.
  - now rewrite get_set_other.
Qed.
Lemma cred_set_same cr a v : cred (set a v cr) a = v.
Proof. unfold cred. now rewrite get_set_same. Qed.
Lemma cred_set_other cr a a' v : a' <> a -> cred (set a v cr) a' = cred cr a'.
Proof. intros H. unfold cred. now rewrite get_set_other. Qed.

(** ---- the store ---- *)

Definition store_accepts (self : addr) (st : store) (sc : signed) : Prop :=
  recipient (chq sc) = self /\ rec sc = Some (beneficiary (chq sc)) /\
  (last_payout st (beneficiary (chq sc)) < payout (chq sc))%Z.

Lemma store_receive_ok self st sc :
  store_accepts self st sc ->
  store_receive self st sc =
    (Ok (payout (chq sc) - last_payout st (beneficiary (chq sc))), set (beneficiary (chq sc)) sc st).
Proof.
  intros (Hr & Hs & Hp). unfold store_receive. rewrite Hr, N.eqb_refl. cbn [negb]. rewrite Hs, N.eqb_refl. cbn [negb].
  destruct (Z.leb_spec (payout (chq sc) - last_payout st (beneficiary (chq sc))) 0); [lia|reflexivity].
Qed.
Lemma store_receive_err self st sc :
  ~ store_accepts self st sc -> exists e, store_receive self st sc = (Err e, st).
Proof.
  intros Hn. unfold store_receive.
  destruct (recipient (chq sc) =? self) eqn:Er; cbn [negb]; [|eauto].
  destruct (rec sc) as [iss|] eqn:Es; [|eauto].
  destruct (iss =? beneficiary (chq sc)) eqn:Ei; cbn [negb]; [|eauto].
  destruct (Z.leb_spec (payout (chq sc) - last_payout st (beneficiary (chq sc))) 0); [eauto|].
  exfalso. apply Hn. apply N.eqb_eq in Er, Ei. subst iss. repeat split; auto. lia.
Qed.
Lemma store_accepts_dec self st sc : {store_accepts self st sc} + {~ store_accepts self st sc}.
Proof.
  unfold store_accepts.
  destruct (N.eq_dec (recipient (chq sc)) self); [|right; tauto].
  destruct (rec sc) as [i|]; [|right; intros (_&H&_); discriminate].
  destruct (N.eq_dec i (beneficiary (chq sc))) as [->|]; [|right; intros (_&H&_); congruence].
  destruct (Z_lt_dec (last_payout st (beneficiary (chq sc))) (payout (chq sc))); [left|right]; tauto.
Qed.

Lemma store_accept_iff self st sc :
  is_ok (fst (store_receive self st sc)) = true <-> store_accepts self st sc.
Proof.
  destruct (store_accepts_dec self st sc) as [H|H].
  - rewrite (store_receive_ok _ _ _ H). cbn. tauto.
  - destruct (store_receive_err _ _ _ H) as [e ->]. cbn. split; [discriminate|tauto].
Qed.

(** over any sequence of cheques handed to the store: what is stored per issuer is the
    maximum accepted payout, and the returned amounts add up to it *)
Fixpoint st_accepted (a : addr) (h : list signed) (rs : list res) : list Z :=
  match h, rs with
  | sc :: t, r :: rt => if is_ok r && (beneficiary (chq sc) =? a) then payout (chq sc) :: st_accepted a t rt
                        else st_accepted a t rt
  | _, _ => []
  end.
Fixpoint st_amounts (a : addr) (h : list signed) (rs : list res) : Z :=
  match h, rs with
  | sc :: t, r :: rt => ((if is_ok r && (beneficiary (chq sc) =? a)%N then amount_of r else 0) + st_amounts a t rt)%Z
  | _, _ => 0%Z
  end.

Lemma store_run_max self : forall h st rs st',
  store_run self st h = (rs, st') ->
  forall a, last_payout st' a = Z.max (last_payout st a) (fold_right Z.max (last_payout st a) (st_accepted a h rs))
         /\ st_amounts a h rs = (last_payout st' a - last_payout st a)%Z.
Proof.
  induction h as [|sc t IH]; intros st rs st' Hrun a; cbn [store_run] in Hrun.
  - inversion Hrun; subst. cbn. lia.
  - destruct (store_receive self st sc) as [r st1] eqn:E1.
    destruct (store_run self st1 t) as [rs2 st2] eqn:E2. inversion Hrun; subst rs st'. clear Hrun.
    specialize (IH _ _ _ E2 a). destruct IH as [IH1 IH2].
    cbn [st_accepted st_amounts].
    destruct (store_accepts_dec self st sc) as [Ha|Hn].
    + rewrite (store_receive_ok _ _ _ Ha) in E1. inversion E1; subst r st1. clear E1. cbn [is_ok amount_of andb].
      destruct Ha as (_ & _ & Hlt).
      destruct (beneficiary (chq sc) =? a) eqn:Eb.
      * apply N.eqb_eq in Eb. subst a. rewrite last_payout_set_same in *. cbn [fold_right].
        remember (fold_right Z.max (payout (chq sc)) (st_accepted (beneficiary (chq sc)) t rs2)) as m1 eqn:Em1.
        remember (fold_right Z.max (last_payout st (beneficiary (chq sc))) (st_accepted (beneficiary (chq sc)) t rs2)) as m2 eqn:Em2.
        assert (Hm : m1 = Z.max (payout (chq sc)) m2).
        { subst m1 m2. clear -Hlt. induction (st_accepted (beneficiary (chq sc)) t rs2) as [|x l IHl]; cbn [fold_right]; lia. }
        lia.
      * apply N.eqb_neq in Eb. rewrite last_payout_set_other in * by auto. lia.
    + destruct (store_receive_err _ _ _ Hn) as [e He]. rewrite He in E1. inversion E1; subst r st1. cbn [is_ok andb]. lia.
Qed.

Lemma store_run_init self_ h rs st' :
  store_run self_ [] h = (rs, st') ->
  forall a, last_payout st' a = zmax_list (st_accepted a h rs) /\ st_amounts a h rs = zmax_list (st_accepted a h rs).
Proof.
  intros Hrun a. destruct (store_run_max self_ h [] rs st' Hrun a) as [H1 H2].
  unfold zmax_list. change (last_payout [] a) with 0%Z in *.
  remember (fold_right Z.max 0%Z (st_accepted a h rs)) as m.
  assert (0 <= m)%Z by (subst m; clear; induction (st_accepted a h rs); cbn [fold_right]; lia).
  lia.
Qed.

(** ---- the service ---- *)

Definition svc_accepts (s : state) (p : peer) (sc : signed) : Prop :=
  recipient (chq sc) = self s /\ rec sc = Some (beneficiary (chq sc)) /\
  (last_payout (last_recv s) (beneficiary (chq sc)) < payout (chq sc))%Z /\
  beneficiary_of p (book s) = Some (beneficiary (chq sc)).

Lemma svc_accepts_dec s p sc : {svc_accepts s p sc} + {~ svc_accepts s p sc}.
Proof.
  unfold svc_accepts. destruct (store_accepts_dec (self s) (last_recv s) sc) as [H|H]; unfold store_accepts in H.
  - destruct (beneficiary_of p (book s)) as [a|]; [|right; intros (_&_&_&?); discriminate].
    destruct (N.eq_dec a (beneficiary (chq sc))) as [->|]; [left; tauto|right; intros (_&_&_&?); congruence].
  - right. tauto.
Qed.

Lemma svc_receive_ok s p sc :
  svc_accepts s p sc ->
  svc_receive s p sc =
    (Ok (payout (chq sc) - last_payout (last_recv s) (beneficiary (chq sc))),
     {| self := self s; book := book s;
        last_recv := set (beneficiary (chq sc)) sc (last_recv s);
        credited := set (beneficiary (chq sc)) (payout (chq sc)) (touch (beneficiary (chq sc)) (credited s)) |}).
Proof.
  intros (Hr & Hs & Hp & Hb). unfold svc_receive, svc_receive_gen, guard_rejects. rewrite Hb, Hr, !N.eqb_refl. cbn [negb orb].
  rewrite <- Hr. rewrite store_receive_ok by (repeat split; auto). reflexivity.
Qed.

Lemma svc_receive_err s p sc :
  ~ svc_accepts s p sc ->
  exists e cr, svc_receive s p sc = (Err e, {| self := self s; book := book s; last_recv := last_recv s; credited := cr |})
            /\ forall a, cred cr a = cred (credited s) a.
Proof.
  intros Hn. unfold svc_receive, svc_receive_gen, guard_rejects.
  destruct (beneficiary_of p (book s)) as [a|] eqn:Eb.
  2:{ exists EUnknownPeer, (credited s). destruct s; split; auto. }
  destruct (beneficiary (chq sc) =? a) eqn:E1; cbn [negb orb].
  2:{ exists EAccount, (credited s). destruct s; split; auto. }
  destruct (recipient (chq sc) =? self s) eqn:E2; cbn [negb].
  2:{ exists EAccount, (credited s). destruct s; split; auto. }
  apply N.eqb_eq in E1, E2. subst a.
  destruct (store_accepts_dec (self s) (last_recv s) sc) as [Ha|Hna].
  - exfalso. apply Hn. destruct Ha as (?&?&?). repeat split; auto.
  - destruct (store_receive_err _ _ _ Hna) as [e He]. rewrite He.
    exists e, (touch (beneficiary (chq sc)) (credited s)). split; auto. intros a. apply cred_touch.
Qed.

Lemma svc_accept_iff s p sc : is_ok (fst (svc_receive s p sc)) = true <-> svc_accepts s p sc.
Proof.
  destruct (svc_accepts_dec s p sc) as [H|H].
  - rewrite (svc_receive_ok _ _ _ H). cbn. tauto.
  - destruct (svc_receive_err _ _ _ H) as (e & cr & -> & _). cbn. split; [discriminate|tauto].
Qed.

Lemma svc_handshake_frame s p a r s1 :
  svc_handshake s p a = (r, s1) ->
  self s1 = self s /\ last_recv s1 = last_recv s /\ forall x, cred (credited s1) x = cred (credited s) x.
Proof.
  unfold svc_handshake. intros H.
  destruct (beneficiary_of p (book s)) as [a'|].
  - inversion H; subst. cbn. repeat split; auto. intros; apply cred_touch.
  - destruct (peer_of a (book s)).
    + inversion H; subst. auto.
    + inversion H; subst. cbn. repeat split; auto. intros; apply cred_touch.
Qed.

(** one step: what changes for issuer [a] *)
Lemma step_effect s o r s1 a :
  step s o = (r, s1) ->
  self s1 = self s /\
  match o with
  | OReceive p sc =>
      if is_ok r && (beneficiary (chq sc) =? a) then
        svc_accepts s p sc /\ last_payout (last_recv s1) a = payout (chq sc) /\ cred (credited s1) a = payout (chq sc) /\
        amount_of r = (payout (chq sc) - last_payout (last_recv s) a)%Z
      else last_payout (last_recv s1) a = last_payout (last_recv s) a /\ cred (credited s1) a = cred (credited s) a
  | OHandshake _ _ => last_payout (last_recv s1) a = last_payout (last_recv s) a /\ cred (credited s1) a = cred (credited s) a
  end.
Proof.
  destruct o as [p a0|p sc]; cbn [step step_gen]; intros H.
  - destruct (svc_handshake_frame _ _ _ _ _ H) as (H1 & H2 & H3). rewrite H2, H3. auto.
  - fold (svc_receive s p sc) in H. destruct (svc_accepts_dec s p sc) as [Ha|Hn].
    + rewrite (svc_receive_ok _ _ _ Ha) in H. inversion H; subst r s1; clear H. cbn [is_ok andb self last_recv credited amount_of].
      split; auto. destruct (beneficiary (chq sc) =? a) eqn:Eb.
      * apply N.eqb_eq in Eb; subst a. rewrite last_payout_set_same, cred_set_same. auto.
      * apply N.eqb_neq in Eb. rewrite last_payout_set_other, cred_set_other, cred_touch by auto. auto.
    + destruct (svc_receive_err _ _ _ Hn) as (e & cr & He & Hc). rewrite He in H. inversion H; subst r s1; clear H.
      cbn [is_ok andb self last_recv credited]. auto.
Qed.

(** over any history: credited = stored last cheque = max accepted payout = sum of credited amounts *)
Lemma run_credit : forall h s rs s',
  run s h = (rs, s') ->
  forall a,
    last_payout (last_recv s') a
      = Z.max (last_payout (last_recv s) a) (fold_right Z.max (last_payout (last_recv s) a) (accepted_payouts a h rs))
    /\ credited_amounts a h rs = (last_payout (last_recv s') a - last_payout (last_recv s) a)%Z
    /\ (cred (credited s) a = last_payout (last_recv s) a -> cred (credited s') a = last_payout (last_recv s') a)
    /\ self s' = self s.
Proof.
  induction h as [|o t IH]; intros s rs s' Hrun a; cbn [run run_gen] in Hrun.
  - inversion Hrun; subst. cbn. repeat split; auto; lia.
  - fold (step s o) in Hrun. destruct (step s o) as [r s1] eqn:E1.
    fold (run s1 t) in Hrun. destruct (run s1 t) as [rs2 s2] eqn:E2. inversion Hrun; subst rs s'; clear Hrun.
    destruct (IH _ _ _ E2 a) as (IH1 & IH2 & IH3 & IH4).
    destruct (step_effect _ _ _ _ a E1) as (Hself & Heff).
    destruct o as [p a0|p sc]; cbn [accepted_payouts credited_amounts].
    + destruct Heff as [Hl Hc]. rewrite Hl, Hc in *. repeat split; auto; try lia; congruence.
    + destruct (is_ok r && (beneficiary (chq sc) =? a)) eqn:Eg.
      * destruct Heff as ((_ & _ & Hlt & _) & Hl & Hc & Ham).
        apply andb_true_iff in Eg as [_ Eb]. apply N.eqb_eq in Eb. subst a.
        rewrite Hl, Hc in *. cbn [fold_right].
        remember (accepted_payouts (beneficiary (chq sc)) t rs2) as L eqn:EL.
        assert (Hm : fold_right Z.max (payout (chq sc)) L
                     = Z.max (payout (chq sc)) (fold_right Z.max (last_payout (last_recv s) (beneficiary (chq sc))) L)).
        { clear -Hlt. induction L as [|x l IHl]; cbn [fold_right]; lia. }
        repeat split; auto; try lia; congruence.
      * destruct Heff as [Hl Hc]. rewrite Hl, Hc in *. repeat split; auto; try lia; congruence.
Qed.

(** from ANY initial state (e.g. one restored by Init with arbitrary chain values): an issuer with no accepted
    cheque keeps its record and stored cheque; as soon as one of its cheques is accepted, its record IS the
    stored last cheque (the credit is an assignment of the cumulative payout, not an addition) *)
Lemma run_credit_any : forall h s rs s',
  run s h = (rs, s') ->
  forall a,
    (accepted_payouts a h rs = [] ->
       cred (credited s') a = cred (credited s) a /\ last_payout (last_recv s') a = last_payout (last_recv s) a) /\
    (accepted_payouts a h rs <> [] -> cred (credited s') a = last_payout (last_recv s') a).
Proof.
  induction h as [|o t IH]; intros s rs s' Hrun a; cbn [run run_gen] in Hrun.
  - inversion Hrun; subst. cbn. split; auto. congruence.
  - fold (step s o) in Hrun. destruct (step s o) as [r s1] eqn:E1.
    fold (run s1 t) in Hrun. destruct (run s1 t) as [rs2 s2] eqn:E2. inversion Hrun; subst rs s'; clear Hrun.
    destruct (IH _ _ _ E2 a) as (IHn & IHs).
    destruct (step_effect _ _ _ _ a E1) as (_ & Heff).
    destruct o as [p a0|p sc]; cbn [accepted_payouts].
    + destruct Heff as [Hl Hc]. rewrite <- Hl, <- Hc. split; auto.
    + destruct (is_ok r && (beneficiary (chq sc) =? a)) eqn:Eg.
      * destruct Heff as (_ & Hl & Hc & _). split; [discriminate|]. intros _.
        destruct (accepted_payouts a t rs2) as [|x l] eqn:Et.
        -- destruct (IHn eq_refl) as [A B]. congruence.
        -- apply IHs. discriminate.
      * destruct Heff as [Hl Hc]. rewrite <- Hl, <- Hc. split; auto.
Qed.

Lemma fold_max_zero l : (forall x, In x l -> 0 <= x)%Z -> fold_right Z.max 0%Z l = zmax_list l.
Proof. reflexivity. Qed.

Lemma run_credit_init self_ h rs s' :
  run (init self_) h = (rs, s') ->
  forall a, credited_of s' a = zmax_list (accepted_payouts a h rs)
         /\ credited_amounts a h rs = zmax_list (accepted_payouts a h rs)
         /\ last_payout (last_recv s') a = zmax_list (accepted_payouts a h rs).
Proof.
  intros Hrun a. destruct (run_credit _ _ _ _ Hrun a) as (H1 & H2 & H3 & _).
  cbn [init last_recv credited] in *. unfold last_payout in H1 at 2 3, H2 at 2, H3 at 1. cbn [get] in *.
  unfold cred in H3 at 1. cbn [get] in H3. specialize (H3 eq_refl).
  rewrite credited_of_cred. unfold zmax_list.
  remember (fold_right Z.max 0%Z (accepted_payouts a h rs)) as m.
  assert (0 <= m)%Z by (subst m; clear; induction (accepted_payouts a h rs); cbn [fold_right]; lia).
  lia.
Qed.

(** the accepted payouts of one issuer are strictly increasing along the history *)
Fixpoint strictly_increasing_from (lo : Z) (l : list Z) : Prop :=
  match l with [] => True | x :: t => (lo < x)%Z /\ strictly_increasing_from x t end.

Lemma run_increasing : forall h s rs s' a,
  run s h = (rs, s') ->
  strictly_increasing_from (last_payout (last_recv s) a) (accepted_payouts a h rs).
Proof.
  induction h as [|o t IH]; intros s rs s' a Hrun; cbn [run run_gen] in Hrun.
  - inversion Hrun; subst. exact I.
  - fold (step s o) in Hrun. destruct (step s o) as [r s1] eqn:E1.
    fold (run s1 t) in Hrun. destruct (run s1 t) as [rs2 s2] eqn:E2. inversion Hrun; subst rs s'; clear Hrun.
    specialize (IH _ _ _ a E2). destruct (step_effect _ _ _ _ a E1) as (_ & Heff).
    destruct o as [p a0|p sc]; cbn [accepted_payouts].
    + destruct Heff as [Hl _]. now rewrite Hl in IH.
    + destruct (is_ok r && (beneficiary (chq sc) =? a)) eqn:Eg.
      * destruct Heff as ((_ & _ & Hlt & _) & Hl & _ & _).
        apply andb_true_iff in Eg as [_ Eb]. apply N.eqb_eq in Eb. subst a.
        rewrite Hl in IH. cbn [strictly_increasing_from]. auto.
      * destruct Heff as [Hl _]. now rewrite Hl in IH.
Qed.

Lemma run_restored s h rs s' :
  run s h = (rs, s') ->
  forall a,
    last_payout (last_recv s') a
      = Z.max (last_payout (last_recv s) a) (fold_right Z.max (last_payout (last_recv s) a) (accepted_payouts a h rs)) /\
    (accepted_payouts a h rs <> [] -> credited_of s' a = last_payout (last_recv s') a) /\
    (accepted_payouts a h rs = [] -> credited_of s' a = credited_of s a) /\
    strictly_increasing_from (last_payout (last_recv s) a) (accepted_payouts a h rs).
Proof.
  intros Hrun a. destruct (run_credit _ _ _ _ Hrun a) as (H1 & _). destruct (run_credit_any _ _ _ _ Hrun a) as (H2 & H3).
  rewrite !credited_of_cred. split; [exact H1|]. split; [exact H3|]. split; [intros E; apply (H2 E)|].
  eapply run_increasing; eauto.
Qed.

(** right peer: an accepted cheque arrives from the peer registered for its issuer and
    changes only that issuer's record; a rejected one changes no amount at all *)
Lemma receive_right_peer s p sc r s1 :
  svc_receive s p sc = (r, s1) ->
  (is_ok r = true ->
     beneficiary_of p (book s) = Some (beneficiary (chq sc)) /\
     credited_of s1 (beneficiary (chq sc)) = payout (chq sc) /\
     forall a, a <> beneficiary (chq sc) ->
       credited_of s1 a = credited_of s a /\ last_payout (last_recv s1) a = last_payout (last_recv s) a) /\
  (is_ok r = false ->
     forall a, credited_of s1 a = credited_of s a /\ last_payout (last_recv s1) a = last_payout (last_recv s) a).
Proof.
  intros H. destruct (svc_accepts_dec s p sc) as [Ha|Hn].
  - rewrite (svc_receive_ok _ _ _ Ha) in H. inversion H; subst r s1; clear H. split; [|discriminate].
    intros _. destruct Ha as (_&_&_&Hb). split; auto. rewrite !credited_of_cred. cbn [credited last_recv].
    rewrite cred_set_same. split; auto. intros a Hne.
    rewrite !credited_of_cred. cbn [credited last_recv].
    rewrite cred_set_other, cred_touch, last_payout_set_other by auto. auto.
  - destruct (svc_receive_err _ _ _ Hn) as (e & cr & He & Hc). rewrite He in H. inversion H; subst r s1; clear H.
    split; [discriminate|]. intros _ a. rewrite !credited_of_cred. cbn [credited last_recv]. auto.
Qed.
