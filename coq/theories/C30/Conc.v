(** C30 — concurrent deliveries: Service.ReceiveCheque / chequeStore.ReceiveCheque as
    micro-steps under the two locks of the code (the per-record [Traffic] mutex taken by the
    service around the whole call, the cheque store's [lock] around load + compare + Put).

    A delivery is compiled to a list of instructions; a schedule is a list of thread ids; the
    scheduled thread executes its next instruction, or does not move when that instruction is a
    lock acquisition and another thread owns the lock.  [prog_head] is the code at /repo HEAD;
    [prog_narrow] is the same instructions with both locks narrowed (load and compare before the
    store lock, record lock only around the credit) — the order the theorems do NOT hold for.

    Definitions only (computable); proofs in ConcProofs.v. *)
From Coq Require Import List NArith ZArith Bool.
Import ListNotations.
Require Import Aurora.C30.Model.
Local Open Scope N_scope.

Inductive instr :=
| IGuard     (* address-book lookup + issuer/recipient guard; rejects without blocking *)
| ILockT     (* getTraffic(chainAddress) + traffic.Lock() *)
| IPre       (* store: recipient check, signature recovery, issuer = Beneficiary *)
| ILockS     (* s.lock.Lock() *)
| ILoad      (* store.Get(lastReceivedChequeKey(issuer)) *)
| ICmp       (* amount := payout - last; reject when <= 0 *)
| IPut       (* store.Put(lastReceivedChequeKey(issuer), cheque) *)
| IUnlockS
| ICredit    (* traffic.transferChequeTraffic = cheque.CumulativePayout *)
| IUnlockT.

Definition prog_head : list instr := [IGuard; ILockT; IPre; ILockS; ILoad; ICmp; IPut; IUnlockS; ICredit; IUnlockT].
Definition prog_narrow : list instr := [IGuard; IPre; ILoad; ICmp; ILockS; IPut; IUnlockS; ILockT; ICredit; IUnlockT].

Definition delivery := (peer * signed)%type.

Record thread := {
  todo : list delivery;
  job : option delivery;
  rem : list instr;
  reg_a : addr;            (* chain address found for the peer *)
  reg_last : Z;            (* loaded last payout *)
  (* bookkeeping flags (thread-local facts the proofs refer to; they do not influence execution) *)
  guarded : bool;          (* the guard passed for the current job *)
  fresh : bool;            (* reg_last was loaded under the store lock, which is still held *)
  cmped : bool;            (* the comparison passed *)
  stored : bool;           (* Put done, credit not yet *)
  put_done : bool;         (* Put done for the current job *)
  results : list (delivery * res)    (* newest first *)
}.

Record cstate := {
  base : state;                          (* self, book, last_recv, credited *)
  slock : option nat;                    (* owner of the cheque store's lock *)
  tlocks : list (addr * nat);            (* owners of the per-record locks *)
  thr : list thread;
  log : list (addr * Z * Z)              (* ghost: (issuer, payout, amount) of every Put, newest first *)
}.

Definition mk_thread (ds : list delivery) : thread :=
  {| todo := ds; job := None; rem := []; reg_a := 0; reg_last := 0%Z; guarded := false; fresh := false;
     cmped := false; stored := false; put_done := false; results := [] |}.
Definition boot (s : state) (progs : list (list delivery)) : cstate :=
  {| base := s; slock := None; tlocks := []; thr := map mk_thread progs; log := [] |}.

Fixpoint set_nth {A} (l : list A) (n : nat) (x : A) : list A :=
  match l, n with
  | [], _ => []
  | _ :: t, O => x :: t
  | h :: t, S n' => h :: set_nth t n' x
  end.

Fixpoint remove_key {V} (k : N) (l : list (N * V)) : list (N * V) :=
  match l with
  | [] => []
  | (k', v) :: t => if k =? k' then remove_key k t else (k', v) :: remove_key k t
  end.

Definition owns_s (g : cstate) (i : nat) : bool := match slock g with Some j => Nat.eqb i j | None => false end.
Definition owns_t (g : cstate) (i : nat) (a : addr) : bool :=
  match get a (tlocks g) with Some j => Nat.eqb i j | None => false end.

(** leave the current job with an error: deferred unlocks run *)
Definition abort (g : cstate) (i : nat) (th : thread) (d : delivery) (e : err) : cstate :=
  {| base := base g;
     slock := if owns_s g i then None else slock g;
     tlocks := if owns_t g i (reg_a th) then remove_key (reg_a th) (tlocks g) else tlocks g;
     thr := set_nth (thr g) i
              {| todo := todo th; job := None; rem := []; reg_a := reg_a th; reg_last := reg_last th; guarded := false;
                 fresh := false; cmped := false; stored := false; put_done := false; results := (d, Err e) :: results th |};
     log := log g |}.

Definition upd_thread (g : cstate) (i : nat) (th : thread) : cstate :=
  {| base := base g; slock := slock g; tlocks := tlocks g; thr := set_nth (thr g) i th; log := log g |}.

Definition with_rem (th : thread) (r : list instr) : thread :=
  {| todo := todo th; job := job th; rem := r; reg_a := reg_a th; reg_last := reg_last th; guarded := guarded th;
     fresh := fresh th; cmped := cmped th; stored := stored th; put_done := put_done th; results := results th |}.

(** one instruction of thread [i] working on delivery [d] = (p, sc); [r] = the instructions after it *)
Definition exec (g : cstate) (i : nat) (th : thread) (d : delivery) (ins : instr) (r : list instr) : cstate :=
  let '(p, sc) := d in
  let c := chq sc in
  let s := base g in
  match ins with
  | IGuard =>
      match beneficiary_of p (book s) with
      | None => abort g i th d EUnknownPeer
      | Some a =>
          if guard_rejects false s a c then abort g i th d EAccount
          else upd_thread g i {| todo := todo th; job := job th; rem := r; reg_a := a; reg_last := reg_last th; guarded := true;
                                 fresh := fresh th; cmped := cmped th; stored := stored th; put_done := put_done th; results := results th |}
      end
  | ILockT =>
      match get (reg_a th) (tlocks g) with
      | Some _ => g      (* blocked *)
      | None =>
          {| base := {| self := self s; book := book s; last_recv := last_recv s; credited := touch (reg_a th) (credited s) |};
             slock := slock g; tlocks := (reg_a th, i) :: tlocks g; thr := set_nth (thr g) i (with_rem th r); log := log g |}
      end
  | IPre =>
      if negb (recipient c =? self s) then abort g i th d EWrongRecipient else
      match rec sc with
      | None => abort g i th d ERecover
      | Some issuer => if negb (issuer =? beneficiary c) then abort g i th d EInvalid else upd_thread g i (with_rem th r)
      end
  | ILockS =>
      match slock g with
      | Some _ => g      (* blocked *)
      | None => {| base := s; slock := Some i; tlocks := tlocks g; thr := set_nth (thr g) i (with_rem th r); log := log g |}
      end
  | ILoad =>
      upd_thread g i {| todo := todo th; job := job th; rem := r; reg_a := reg_a th;
                        reg_last := last_payout (last_recv s) (beneficiary c); guarded := guarded th;
                        fresh := owns_s g i; cmped := false; stored := stored th; put_done := put_done th; results := results th |}
  | ICmp =>
      if (payout c - reg_last th <=? 0)%Z then abort g i th d ENotIncreasing
      else upd_thread g i {| todo := todo th; job := job th; rem := r; reg_a := reg_a th; reg_last := reg_last th; guarded := guarded th;
                             fresh := fresh th; cmped := true; stored := stored th; put_done := put_done th; results := results th |}
  | IPut =>
      {| base := {| self := self s; book := book s; last_recv := set (beneficiary c) sc (last_recv s); credited := credited s |};
         slock := slock g; tlocks := tlocks g;
         thr := set_nth (thr g) i {| todo := todo th; job := job th; rem := r; reg_a := reg_a th; reg_last := reg_last th;
                                     guarded := guarded th; fresh := false; cmped := cmped th; stored := true; put_done := true;
                                     results := results th |};
         log := (beneficiary c, payout c, (payout c - reg_last th)%Z) :: log g |}
  | IUnlockS =>
      {| base := s; slock := if owns_s g i then None else slock g; tlocks := tlocks g;
         thr := set_nth (thr g) i {| todo := todo th; job := job th; rem := r; reg_a := reg_a th; reg_last := reg_last th;
                                     guarded := guarded th; fresh := false; cmped := cmped th; stored := stored th;
                                     put_done := put_done th; results := results th |};
         log := log g |}
  | ICredit =>
      {| base := {| self := self s; book := book s; last_recv := last_recv s;
                    credited := set (reg_a th) (payout c) (touch (reg_a th) (credited s)) |};
         slock := slock g; tlocks := tlocks g;
         thr := set_nth (thr g) i {| todo := todo th; job := job th; rem := r; reg_a := reg_a th; reg_last := reg_last th;
                                     guarded := guarded th; fresh := fresh th; cmped := cmped th; stored := false;
                                     put_done := put_done th; results := results th |};
         log := log g |}
  | IUnlockT =>
      {| base := s; slock := slock g;
         tlocks := if owns_t g i (reg_a th) then remove_key (reg_a th) (tlocks g) else tlocks g;
         thr := set_nth (thr g) i (with_rem th r); log := log g |}
  end.

(** scheduler step *)
Definition cstep (prog : list instr) (g : cstate) (i : nat) : cstate :=
  match nth_error (thr g) i with
  | None => g
  | Some th =>
      match job th with
      | None =>
          match todo th with
          | [] => g
          | d :: more =>
              upd_thread g i {| todo := more; job := Some d; rem := prog; reg_a := reg_a th; reg_last := reg_last th; guarded := false;
                                fresh := false; cmped := false; stored := false; put_done := false; results := results th |}
          end
      | Some d =>
          match rem th with
          | [] =>   (* return nil *)
              upd_thread g i {| todo := todo th; job := None; rem := []; reg_a := reg_a th; reg_last := reg_last th; guarded := false;
                                fresh := false; cmped := false; stored := false; put_done := false;
                                results := (d, Ok (payout (chq (snd d)) - reg_last th)) :: results th |}
          | ins :: r => exec g i th d ins r
          end
      end
  end.

Definition crun (prog : list instr) (g : cstate) (sched : list nat) : cstate := fold_left (cstep prog) sched g.

(** ---- specification objects ---- *)
Definition lastlog (a : addr) (l : list (addr * Z * Z)) : Z :=
  match find (fun e => fst (fst e) =? a) l with Some e => snd (fst e) | None => 0%Z end.
Fixpoint sumlog (a : addr) (l : list (addr * Z * Z)) : Z :=
  match l with
  | [] => 0%Z
  | (b, _, am) :: t => ((if (b =? a)%N then am else 0) + sumlog a t)%Z
  end.
Fixpoint maxlog (a : addr) (l : list (addr * Z * Z)) : Z :=
  match l with
  | [] => 0%Z
  | (b, p, _) :: t => if b =? a then Z.max p (maxlog a t) else maxlog a t
  end.
(** every Put raised its issuer's payout strictly, by exactly the logged amount *)
Fixpoint log_ok (l : list (addr * Z * Z)) : Prop :=
  match l with
  | [] => True
  | (b, p, am) :: t => (0 < am)%Z /\ (p - am = lastlog b t)%Z /\ log_ok t
  end.

Definition count_ok (rs : list (delivery * res)) : nat := length (filter (fun x => is_ok (snd x)) rs).
Definition accepted_total (g : cstate) : nat := fold_right (fun th n => (count_ok (results th) + n)%nat) O (thr g).
Definition quiescent (g : cstate) : Prop :=
  slock g = None /\ tlocks g = [] /\ Forall (fun th => job th = None) (thr g).
Definition finished (g : cstate) : bool := forallb (fun th => match job th, todo th with None, [] => true | _, _ => false end) (thr g).
