(** C30 — model of cheque acceptance and crediting:
      pkg/settlement/traffic/cheque/chequestore.go : ReceiveCheque
      pkg/settlement/traffic/traffic.go            : Service.ReceiveCheque, Handshake (empty
                                                     signature, i.e. registration), getTraffic
      pkg/settlement/traffic/addressbook.go        : Beneficiary / BeneficiaryPeer / PutBeneficiary
    Definitions only (computable); proofs are in Proofs.v.

    Addresses (20-byte chain addresses, overlay addresses) are numbers under any
    injective encoding (the code only compares them for equality and uses them as
    map keys).  Cumulative payouts are [Z] (a JSON-decoded *big.Int may be
    negative).  In the cheque "Recipient" is the node the cheque is made out to
    and "Beneficiary" is the ISSUER (the field names of the Go struct are kept).

    Cryptography is outside the model: a signed cheque carries [rec], the
    result of [RecoverCheque] on it ([None] = recovery error).  Props.v states
    the theorems for an arbitrary recovery function applied to (cheque,
    signature) pairs. *)
From Coq Require Import List NArith ZArith Bool.
Import ListNotations.
Local Open Scope N_scope.

Definition addr := N.
Definition peer := N.

Record cheque := { recipient : addr; beneficiary : addr; payout : Z }.
Record signed := { chq : cheque; rec : option addr }.

(** association lists: first match wins, [set] overwrites in place or appends *)
Fixpoint get {V} (k : N) (l : list (N * V)) : option V :=
  match l with
  | [] => None
  | (k', v) :: t => if k =? k' then Some v else get k t
  end.
Fixpoint set {V} (k : N) (v : V) (l : list (N * V)) : list (N * V) :=
  match l with
  | [] => [(k, v)]
  | (k', v') :: t => if k =? k' then (k, v) :: t else (k', v') :: set k v t
  end.

(** error classes *)
Inductive err :=
| EUnknownPeer      (* traffic.go: "account information error"   (peer not in the address book) *)
| EAccount          (* traffic.go: "account information error "  (issuer/recipient guard) *)
| EWrongRecipient   (* cheque.ErrWrongBeneficiary *)
| ERecover          (* error of the recovery function *)
| EInvalid          (* cheque.ErrChequeInvalid: recovered issuer differs from the Beneficiary field *)
| ENotIncreasing    (* cheque.ErrChequeNotIncreasing *)
| EExists.          (* Handshake: "overlay is exists" *)

Inductive res := Ok (amount : Z) | Err (e : err).

(** ---- chequestore.go ---- *)

Definition store := list (addr * signed).   (* key traffic_last_received_cheque__<issuer> *)

Definition last_payout (st : store) (a : addr) : Z :=
  match get a st with Some l => payout (chq l) | None => 0%Z end.

(** [chequeStore.ReceiveCheque] for a store whose expected recipient is [self] *)
Definition store_receive (self : addr) (st : store) (sc : signed) : res * store :=
  let c := chq sc in
  if negb (recipient c =? self) then (Err EWrongRecipient, st) else
  match rec sc with
  | None => (Err ERecover, st)
  | Some issuer =>
      if negb (issuer =? beneficiary c) then (Err EInvalid, st) else
      let amount := (payout c - last_payout st (beneficiary c))%Z in
      if (amount <=? 0)%Z then (Err ENotIncreasing, st)
      else (Ok amount, set (beneficiary c) sc st)
  end.

Fixpoint store_run (self : addr) (st : store) (h : list signed) : list res * store :=
  match h with
  | [] => ([], st)
  | sc :: t => let '(r, st1) := store_receive self st sc in
               let '(rs, st2) := store_run self st1 t in (r :: rs, st2)
  end.

(** ---- traffic.go ---- *)

Record state := {
  self : addr;                       (* Service.chainAddress = chequeStore.recipient *)
  book : list (peer * addr);         (* address book; PutBeneficiary prepends (newest wins in both directions) *)
  last_recv : store;
  credited : list (addr * Z)         (* Traffic records by chain address: transferChequeTraffic; presence = record exists *)
}.

Definition init (self_ : addr) : state :=
  {| self := self_; book := []; last_recv := []; credited := [] |}.

Definition beneficiary_of (p : peer) (b : list (peer * addr)) : option addr := get p b.
Fixpoint peer_of (a : addr) (b : list (peer * addr)) : option peer :=
  match b with
  | [] => None
  | (p, a') :: t => if a =? a' then Some p else peer_of a t
  end.

(** getTraffic: create a zero record on first use *)
Definition touch (a : addr) (cr : list (addr * Z)) : list (addr * Z) :=
  match get a cr with Some _ => cr | None => set a 0%Z cr end.

Definition credited_of (s : state) (a : addr) : Z :=
  match get a (credited s) with Some v => v | None => 0%Z end.

(** the guard of Service.ReceiveCheque. [orig = true] is the expression of the
    pinned tree ([&&], F-cheque-and-or); [orig = false] is the repaired code
    (proposed/C30/fix-cheque-and-or.patch), which is what the theorems are about. *)
Definition guard_rejects (orig : bool) (s : state) (chain_address : addr) (c : cheque) : bool :=
  let b := negb (beneficiary c =? chain_address) in
  let r := negb (recipient c =? self s) in
  if orig then b && r else b || r.

Definition svc_receive_gen (orig : bool) (s : state) (p : peer) (sc : signed) : res * state :=
  match beneficiary_of p (book s) with
  | None => (Err EUnknownPeer, s)
  | Some a =>
      if guard_rejects orig s a (chq sc) then (Err EAccount, s) else
      let cr := touch a (credited s) in
      match store_receive (self s) (last_recv s) sc with
      | (Err e, _) => (Err e, {| self := self s; book := book s; last_recv := last_recv s; credited := cr |})
      | (Ok am, st') =>
          (Ok am, {| self := self s; book := book s; last_recv := st'; credited := set a (payout (chq sc)) cr |})
      end
  end.
Definition svc_receive := svc_receive_gen false.

(** Handshake(peer, recipient, SignedCheque{}) — the registration path (nil signature):
    address-book update, then UpdatePeerBalance (which creates the Traffic record). *)
Definition svc_handshake (s : state) (p : peer) (a : addr) : res * state :=
  match beneficiary_of p (book s) with
  | None =>
      match peer_of a (book s) with
      | Some _ => (Err EExists, s)
      | None => (Ok 0, {| self := self s; book := (p, a) :: book s; last_recv := last_recv s;
                          credited := touch a (credited s) |})
      end
  | Some a' => (Ok 0, {| self := self s; book := book s; last_recv := last_recv s;
                         credited := touch a' (credited s) |})
  end.

Inductive op := OHandshake (p : peer) (a : addr) | OReceive (p : peer) (sc : signed).

Definition step_gen (orig : bool) (s : state) (o : op) : res * state :=
  match o with
  | OHandshake p a => svc_handshake s p a
  | OReceive p sc => svc_receive_gen orig s p sc
  end.
Definition step := step_gen false.

Fixpoint run_gen (orig : bool) (s : state) (h : list op) : list res * state :=
  match h with
  | [] => ([], s)
  | o :: t => let '(r, s1) := step_gen orig s o in
              let '(rs, s2) := run_gen orig s1 t in (r :: rs, s2)
  end.
Definition run := run_gen false.

(** ---- restart: traffic.New + Init over the same store (trafficInit at /repo HEAD) ----
    The records are rebuilt for the peer list (addresses with a stored last received cheque, then the
    chain's lists); transferChequeTraffic := max(transferChainTraffic, last stored cheque), where
    transferChainTraffic is the chain's TransAmount(peer, self) ([chain], absent = 0).  The address
    book is reloaded from the store (unchanged here). *)
Definition get0z (k : N) (l : list (N * Z)) : Z := match get k l with Some v => v | None => 0%Z end.
Definition restore_credited (chain : list (addr * Z)) (st : store) (l : list addr) : list (addr * Z) :=
  fold_left (fun cr a => set a (Z.max (get0z a chain) (last_payout st a)) cr) l [].
Definition restore (s : state) (chain : list (addr * Z)) (lists : list addr) : state :=
  {| self := self s; book := book s; last_recv := last_recv s;
     credited := restore_credited chain (last_recv s) (map fst (last_recv s) ++ lists) |}.

(** ---- specification objects (independent of the step functions) ---- *)

Definition is_ok (r : res) : bool := match r with Ok _ => true | Err _ => false end.
Definition amount_of (r : res) : Z := match r with Ok a => a | Err _ => 0%Z end.

(** payouts of the accepted cheques of issuer [a] in a trace (ops zipped with results) *)
Fixpoint accepted_payouts (a : addr) (h : list op) (rs : list res) : list Z :=
  match h, rs with
  | OReceive _ sc :: t, r :: rt =>
      if is_ok r && (beneficiary (chq sc) =? a) then payout (chq sc) :: accepted_payouts a t rt
      else accepted_payouts a t rt
  | _ :: t, _ :: rt => accepted_payouts a t rt
  | _, _ => []
  end.
(** sum of the amounts credited for issuer [a] *)
Fixpoint credited_amounts (a : addr) (h : list op) (rs : list res) : Z :=
  match h, rs with
  | OReceive _ sc :: t, r :: rt =>
      ((if is_ok r && (beneficiary (chq sc) =? a)%N then amount_of r else 0) + credited_amounts a t rt)%Z
  | _ :: t, _ :: rt => credited_amounts a t rt
  | _, _ => 0%Z
  end.
Definition zmax_list (l : list Z) : Z := fold_right Z.max 0%Z l.
