(** C30 — all interleavings of concurrent deliveries: invariant over schedules. *)
From Coq Require Import List NArith ZArith Bool Lia Arith.
Import ListNotations.
Require Import Aurora.C30.Model Aurora.C30.Proofs Aurora.C30.Conc.
Local Open Scope N_scope.

(** static lock discipline of an instruction order, over the flags
    (owns record lock, owns store lock, guarded, fresh, cmped, stored, put_done) *)
Fixpoint prog_ok (hT hS fg ff fc fs fp : bool) (r : list instr) : bool :=
  match r with
  | [] => negb hT && negb hS && negb fs && fp
  | IGuard :: r => negb hT && negb fs && negb fp && prog_ok hT hS true ff fc fs fp r
  | ILockT :: r => fg && negb hT && prog_ok true hS fg ff fc fs fp r
  | IPre :: r => negb fs && negb fp && prog_ok hT hS fg ff fc fs fp r
  | ILockS :: r => negb hS && prog_ok hT true fg ff fc fs fp r
  | ILoad :: r => prog_ok hT hS fg hS false fs fp r
  | ICmp :: r => negb fs && negb fp && prog_ok hT hS fg ff true fs fp r
  | IPut :: r => hS && hT && fg && ff && fc && negb fs && negb fp && prog_ok hT hS fg false fc true true r
  | IUnlockS :: r => hS && prog_ok hT false fg false fc fs fp r
  | ICredit :: r => hT && fg && fs && prog_ok hT hS fg ff fc false fp r
  | IUnlockT :: r => hT && negb fs && prog_ok false hS fg ff fc fs fp r
  end.
Definition disciplined (prog : list instr) : bool := prog_ok false false false false false false false prog.

Lemma head_disciplined : disciplined prog_head = true.
Proof. reflexivity. Qed.
Lemma narrow_not_disciplined : disciplined prog_narrow = false.
Proof. reflexivity. Qed.

(** ---- lists of threads ---- *)
Lemma nth_set_eq {A} (l : list A) i x y : nth_error l i = Some x -> nth_error (set_nth l i y) i = Some y.
Proof. revert i. induction l as [|h t IH]; intros [|i]; cbn; intros E; try discriminate; auto. Qed.
Lemma nth_set_neq {A} (l : list A) i j y : i <> j -> nth_error (set_nth l i y) j = nth_error l j.
Proof. revert i j. induction l as [|h t IH]; intros [|i] [|j] Hne; cbn; auto; try congruence. Qed.

Definition tsum (f : thread -> nat) (l : list thread) : nat := fold_right (fun th n => (f th + n)%nat) O l.
Lemma tsum_set f l i x y : nth_error l i = Some x -> (tsum f (set_nth l i y) + f x = tsum f l + f y)%nat.
Proof. unfold tsum. revert i. induction l as [|h t IH]; intros [|i]; cbn [set_nth fold_right nth_error]; intros E; try discriminate.
  - inversion E; subst. lia.
  - specialize (IH _ E). lia.
Qed.

(** ---- lock tables ---- *)
Lemma get_remove_same {V} k (l : list (N * V)) : get k (remove_key k l) = None.
Proof. induction l as [|[k' v] t IH]; cbn; auto. destruct (k =? k') eqn:E; auto. cbn. now rewrite E. Qed.
Lemma get_remove_other {V} k k' (l : list (N * V)) : k' <> k -> get k' (remove_key k l) = get k' l.
Proof.
  intros Hne. induction l as [|[k2 v] t IH]; cbn; auto. destruct (k =? k2) eqn:E.
  - apply N.eqb_eq in E; subst. apply N.eqb_neq in Hne. now rewrite Hne.
  - cbn. destruct (k' =? k2); auto.
Qed.

(** ---- the log ---- *)
Lemma lastlog_cons_same b p am l : lastlog b ((b, p, am) :: l) = p.
Proof. unfold lastlog. cbn. now rewrite N.eqb_refl. Qed.
Lemma lastlog_cons_other a b p am l : a <> b -> lastlog a ((b, p, am) :: l) = lastlog a l.
Proof. intros H. unfold lastlog. cbn. apply N.eqb_neq in H. rewrite N.eqb_sym in H. now rewrite H. Qed.

Lemma log_ok_facts l : log_ok l -> forall a, (0 <= lastlog a l)%Z /\ sumlog a l = lastlog a l /\ maxlog a l = lastlog a l.
Proof.
  induction l as [|[[b p] am] t IH]; intros Hok a.
  - cbn. unfold lastlog. cbn. lia.
  - destruct Hok as (Hpos & Hprev & Hok). specialize (IH Hok). cbn [sumlog maxlog].
    destruct (N.eq_dec b a) as [->|Hne].
    + rewrite N.eqb_refl, lastlog_cons_same. destruct (IH a) as (A & B & C). lia.
    + assert (E : (b =? a) = false) by now apply N.eqb_neq. rewrite E, lastlog_cons_other by congruence.
      destruct (IH a) as (A & B & C). lia.
Qed.

(** ---- the invariant ---- *)
Definition lp (g : cstate) (a : addr) : Z := last_payout (last_recv (base g)) a.
Definition cr (g : cstate) (a : addr) : Z := credited_of (base g) a.
Definition b2n (b : bool) : nat := if b then 1%nat else 0%nat.

Definition thread_ok (g : cstate) (i : nat) (th : thread) : Prop :=
  match job th with
  | None => rem th = [] /\ guarded th = false /\ fresh th = false /\ stored th = false /\ put_done th = false
  | Some (p, sc) =>
      let a := reg_a th in let b := beneficiary (chq sc) in
      prog_ok (owns_t g i a) (owns_s g i) (guarded th) (fresh th) (cmped th) (stored th) (put_done th) (rem th) = true /\
      (guarded th = true -> beneficiary_of p (book (base g)) = Some a /\ b = a) /\
      (fresh th = true -> owns_s g i = true /\ reg_last th = lp g b) /\
      (cmped th = true -> (reg_last th < payout (chq sc))%Z) /\
      (stored th = true -> owns_t g i a = true /\ guarded th = true /\ lp g b = payout (chq sc) /\ put_done th = true) /\
      (owns_t g i a = true -> stored th = false -> cr g a = lp g a)
  end.

Record Inv (g : cstate) : Prop := {
  inv_thr : forall i th, nth_error (thr g) i = Some th -> thread_ok g i th;
  inv_s : forall i, slock g = Some i -> exists th, nth_error (thr g) i = Some th /\ job th <> None;
  inv_t : forall a i, get a (tlocks g) = Some i ->
            exists th, nth_error (thr g) i = Some th /\ job th <> None /\ reg_a th = a /\ guarded th = true;
  inv_log : log_ok (log g) /\ forall a, lp g a = lastlog a (log g);
  inv_free : forall a, get a (tlocks g) = None -> cr g a = lp g a;
  inv_count : length (log g) = tsum (fun th => (count_ok (results th) + b2n (put_done th))%nat) (thr g)
}.

Lemma owns_s_true g i : owns_s g i = true <-> slock g = Some i.
Proof. unfold owns_s. destruct (slock g) as [j|]; split; intros E; try discriminate.
  - apply Nat.eqb_eq in E. now subst.
  - inversion E. apply Nat.eqb_refl.
Qed.
Lemma owns_t_true g i a : owns_t g i a = true <-> get a (tlocks g) = Some i.
Proof. unfold owns_t. destruct (get a (tlocks g)) as [j|]; split; intros E; try discriminate.
  - apply Nat.eqb_eq in E. now subst.
  - inversion E. apply Nat.eqb_refl.
Qed.

(** a step of thread [i] that changes payouts/credits only at addresses whose record lock [i]
    owns (payouts only while owning the store lock too) and leaves the other threads' locks alone
    preserves every other thread's facts *)
Definition changes_only (g g' : cstate) (i : nat) : Prop :=
  book (base g') = book (base g) /\
  (forall k, k <> i -> owns_s g' k = owns_s g k) /\
  (forall k a, k <> i -> owns_t g' k a = owns_t g k a) /\
  (forall a, cr g' a <> cr g a \/ lp g' a <> lp g a -> owns_t g i a = true) /\
  (forall a, lp g' a <> lp g a -> owns_s g i = true).

Lemma thread_ok_frame g g' i k th :
  changes_only g g' i -> k <> i -> thread_ok g k th -> thread_ok g' k th.
Proof.
  intros (Hb & Hs & Ht & Hc & Hl) Hne. unfold thread_ok. destruct (job th) as [[p sc]|]; auto.
  cbn zeta. rewrite Hb, (Hs k Hne), (Ht k _ Hne). intros (F0 & F1 & F2 & F3 & F4 & F6).
  assert (Ks : owns_s g k = true -> owns_s g i = false).
  { intros E. apply owns_s_true in E. unfold owns_s. rewrite E. apply Nat.eqb_neq. congruence. }
  assert (Kt : forall a, owns_t g k a = true -> owns_t g i a = false).
  { intros a E. apply owns_t_true in E. unfold owns_t. rewrite E. apply Nat.eqb_neq. congruence. }
  assert (Lp : forall a, owns_s g k = true -> lp g' a = lp g a).
  { intros a E. destruct (Z.eq_dec (lp g' a) (lp g a)) as [|D]; auto. specialize (Hl a D). rewrite (Ks E) in Hl. discriminate. }
  assert (Tp : forall a, owns_t g k a = true -> lp g' a = lp g a /\ cr g' a = cr g a).
  { intros a E. split.
    - destruct (Z.eq_dec (lp g' a) (lp g a)) as [|D]; auto. specialize (Hc a (or_intror D)). rewrite (Kt a E) in Hc. discriminate.
    - destruct (Z.eq_dec (cr g' a) (cr g a)) as [|D]; auto. specialize (Hc a (or_introl D)). rewrite (Kt a E) in Hc. discriminate. }
  split; [exact F0|]. split; [exact F1|]. split.
  { intros E. destruct (F2 E) as [A B]. split; auto. rewrite Lp; auto. }
  split; [exact F3|]. split.
  { intros E. destruct (F4 E) as (A & B & C & D). repeat split; auto. destruct (F1 B) as [_ Eb]. rewrite Eb in *.
    destruct (Tp _ A) as [-> _]. exact C. }
  intros A B. destruct (Tp _ A) as [-> ->]. auto.
Qed.

Definition cnt (th : thread) : nat := (count_ok (results th) + b2n (put_done th))%nat.

Lemma inv_rebuild g g' i th th' :
  Inv g -> nth_error (thr g) i = Some th -> thr g' = set_nth (thr g) i th' ->
  changes_only g g' i ->
  thread_ok g' i th' ->
  (slock g' = Some i -> job th' <> None) ->
  (forall k, k <> i -> slock g' = Some k -> slock g = Some k) ->
  (forall a, get a (tlocks g') = Some i -> job th' <> None /\ reg_a th' = a /\ guarded th' = true) ->
  (forall a k, k <> i -> get a (tlocks g') = Some k -> get a (tlocks g) = Some k) ->
  (log_ok (log g') /\ forall a, lp g' a = lastlog a (log g')) ->
  (forall a, get a (tlocks g') = None -> cr g' a = lp g' a) ->
  (length (log g') + cnt th = length (log g) + cnt th')%nat ->
  Inv g'.
Proof.
  intros I Hn Ht Hch Hok Hs1 Hs2 Ht1 Ht2 Hlog Hfree Hcnt. destruct I as [I1 I2 I3 I4 I5 I6]. constructor.
  - intros k thk Hk. rewrite Ht in Hk. destruct (Nat.eq_dec i k) as [<-|Hne].
    + rewrite (nth_set_eq _ _ _ _ Hn) in Hk. inversion Hk; subst. exact Hok.
    + rewrite nth_set_neq in Hk by auto. eapply thread_ok_frame; eauto.
  - intros k Hk. rewrite Ht. destruct (Nat.eq_dec i k) as [<-|Hne].
    + exists th'. split; [eapply nth_set_eq; eauto|auto].
    + rewrite nth_set_neq by auto. apply I2. apply Hs2; auto.
  - intros a k Hk. rewrite Ht. destruct (Nat.eq_dec i k) as [<-|Hne].
    + exists th'. split; [eapply nth_set_eq; eauto|]. apply Ht1; auto.
    + rewrite nth_set_neq by auto. apply I3. apply Ht2; auto.
  - exact Hlog.
  - exact Hfree.
  - rewrite Ht. pose proof (tsum_set cnt (thr g) i th th' Hn) as E. fold cnt in I6 |- *. lia.
Qed.

Lemma changes_only_same g g' i :
  base g' = base g -> slock g' = slock g -> tlocks g' = tlocks g -> changes_only g g' i.
Proof.
  intros Eb Es Et. unfold changes_only, owns_s, owns_t, cr, lp. rewrite Eb, Es, Et.
  repeat split; auto; intros; tauto.
Qed.

(** a step that only rewrites thread [i]'s private state *)
Lemma inv_local g i th th' :
  Inv g -> nth_error (thr g) i = Some th ->
  thread_ok (upd_thread g i th') i th' ->
  (job th' <> None \/ (slock g <> Some i /\ forall a, get a (tlocks g) <> Some i)) ->
  (forall a, get a (tlocks g) = Some i -> reg_a th' = a /\ guarded th' = true) ->
  cnt th' = cnt th ->
  Inv (upd_thread g i th').
Proof.
  intros I Hn Hok Hj Hr Hc.
  eapply inv_rebuild with (th := th) (th' := th');
    [exact I|exact Hn|reflexivity|apply changes_only_same; reflexivity|exact Hok| | | | | | |];
    cbn [upd_thread slock tlocks log base thr].
  - intros E. destruct Hj as [|[A _]]; congruence.
  - auto.
  - intros a E. destruct (Hr a E). destruct Hj as [|[_ B]]; [auto|]. exfalso. eapply B; eauto.
  - auto.
  - apply I.
  - apply I.
  - lia.
Qed.

Ltac split_andb :=
  repeat match goal with
  | H : (_ && _)%bool = true |- _ => apply andb_true_iff in H; destruct H
  | H : negb _ = true |- _ => apply negb_true_iff in H
  end.

Ltac facts I Hn Hj :=
  let TO := fresh "TO" in
  pose proof (inv_thr _ I _ _ Hn) as TO; unfold thread_ok in TO; rewrite Hj in TO; cbn zeta in TO;
  destruct TO as (F0 & F1 & F2 & F3 & F4 & F6).

Lemma owns_only_reg g i th a :
  Inv g -> nth_error (thr g) i = Some th -> get a (tlocks g) = Some i -> reg_a th = a /\ guarded th = true /\ job th <> None.
Proof.
  intros I Hn G. destruct (inv_t _ I _ _ G) as (th' & Hn' & J & R & Gd). rewrite Hn in Hn'. inversion Hn'; subst. auto.
Qed.

Lemma abort_inv g i th p sc e :
  Inv g -> nth_error (thr g) i = Some th -> job th = Some (p, sc) -> stored th = false -> put_done th = false ->
  Inv (abort g i th (p, sc) e).
Proof.
  intros I Hn Hj Hst Hpd. facts I Hn Hj.
  eapply inv_rebuild with (th := th); [exact I|exact Hn|reflexivity| | | | | | | | |]; cbn [abort base slock tlocks thr log].
  - (* changes_only *)
    unfold changes_only. split; [reflexivity|]. split; [|split; [|split]].
    + intros k Hk. unfold owns_s at 1. cbn [abort slock]. destruct (owns_s g i) eqn:Eo; [|reflexivity].
      apply owns_s_true in Eo. unfold owns_s. rewrite Eo. symmetry. apply Nat.eqb_neq. auto.
    + intros k a Hk. unfold owns_t at 1. cbn [abort tlocks]. destruct (owns_t g i (reg_a th)) eqn:Eo; [|reflexivity].
      apply owns_t_true in Eo. destruct (N.eq_dec a (reg_a th)) as [->|Hne].
      * rewrite get_remove_same. unfold owns_t. rewrite Eo. symmetry. apply Nat.eqb_neq. auto.
      * rewrite get_remove_other by auto. reflexivity.
    + intros a [E|E]; exfalso; apply E; reflexivity.
    + intros a E; exfalso; apply E; reflexivity.
  - unfold thread_ok. cbn. auto.
  - intros E. exfalso. destruct (owns_s g i) eqn:Eo; [discriminate|]. apply owns_s_true in E. congruence.
  - intros k Hk E. destruct (owns_s g i); [discriminate|exact E].
  - intros a E. exfalso. destruct (owns_t g i (reg_a th)) eqn:Eo.
    + destruct (N.eq_dec a (reg_a th)) as [->|Hne]; [rewrite get_remove_same in E; discriminate|].
      rewrite get_remove_other in E by auto. destruct (owns_only_reg _ _ _ _ I Hn E). congruence.
    + destruct (owns_only_reg _ _ _ _ I Hn E) as [<- _]. apply owns_t_true in E. congruence.
  - intros a k Hk E. destruct (owns_t g i (reg_a th)) eqn:Eo; [|exact E].
    destruct (N.eq_dec a (reg_a th)) as [->|Hne]; [rewrite get_remove_same in E; discriminate|].
    now rewrite get_remove_other in E by auto.
  - apply I.
  - intros a E. change (cr g a = lp g a). destruct (owns_t g i (reg_a th)) eqn:Eo.
    + destruct (N.eq_dec a (reg_a th)) as [->|Hne]; [apply F6; auto|].
      rewrite get_remove_other in E by auto. apply (inv_free _ I); auto.
    + apply (inv_free _ I); auto.
  - unfold cnt, count_ok. cbn [results put_done filter snd is_ok]. rewrite Hpd. cbn. lia.
Qed.

Lemma not_owner g i th a :
  Inv g -> nth_error (thr g) i = Some th -> owns_t g i (reg_a th) = false -> owns_t g i a = false.
Proof.
  intros I Hn E. destruct (owns_t g i a) eqn:Eo; auto. apply owns_t_true in Eo.
  destruct (owns_only_reg _ _ _ _ I Hn Eo) as [<- _]. apply owns_t_true in Eo. congruence.
Qed.

Section Exec.
Variables (g : cstate) (i : nat) (th : thread) (p : peer) (sc : signed) (r : list instr).
Hypothesis I : Inv g.
Hypothesis Hn : nth_error (thr g) i = Some th.
Hypothesis Hj : job th = Some (p, sc).

Lemma exec_guard : rem th = IGuard :: r -> Inv (exec g i th (p, sc) IGuard r).
Proof.
  intros Hr. facts I Hn Hj. rewrite Hr in F0. cbn [prog_ok] in F0. split_andb.
  cbn [exec]. destruct (beneficiary_of p (book (base g))) as [a|] eqn:Eb; [|apply abort_inv; auto].
  destruct (guard_rejects false (base g) a (chq sc)) eqn:Eg; [apply abort_inv; auto|].
  assert (Ea : beneficiary (chq sc) = a).
  { unfold guard_rejects in Eg. apply orb_false_iff in Eg as [Eg _]. apply negb_false_iff in Eg. now apply N.eqb_eq in Eg. }
  assert (No : owns_t g i a = false) by (eapply not_owner; eauto).
  match goal with H : owns_t g i (reg_a th) = false, H2 : prog_ok _ _ _ _ _ _ _ r = true |- _ => rewrite H in H2 end.
  eapply inv_local; eauto.
  - unfold thread_ok. cbn [job reg_a guarded fresh cmped stored put_done rem upd_thread base]. rewrite Hj. cbn zeta.
    change (owns_t (upd_thread g i _) i a) with (owns_t g i a). change (owns_s (upd_thread g i _) i) with (owns_s g i).
    rewrite No. split; [assumption|]. split; [auto|]. split; [exact F2|]. split; [exact F3|]. split; [congruence|discriminate].
  - left. cbn [job]. congruence.
  - intros a' E. exfalso. destruct (owns_only_reg _ _ _ _ I Hn E) as [<- _]. apply owns_t_true in E. congruence.
Qed.

Lemma exec_pre : rem th = IPre :: r -> Inv (exec g i th (p, sc) IPre r).
Proof.
  intros Hr. facts I Hn Hj. rewrite Hr in F0. cbn [prog_ok] in F0. split_andb.
  cbn [exec]. destruct (negb (recipient (chq sc) =? self (base g))); [apply abort_inv; auto|].
  destruct (rec sc) as [iss|]; [|apply abort_inv; auto].
  destruct (negb (iss =? beneficiary (chq sc))); [apply abort_inv; auto|].
  eapply inv_local; eauto.
  - unfold thread_ok. cbn [with_rem job reg_a guarded fresh cmped stored put_done rem]. rewrite Hj. cbn zeta.
    change (owns_t (upd_thread g i _) i (reg_a th)) with (owns_t g i (reg_a th)). change (owns_s (upd_thread g i _) i) with (owns_s g i).
    split; [assumption|]. split; [exact F1|]. split; [exact F2|]. split; [exact F3|]. split; [exact F4|exact F6].
  - left. cbn [with_rem job]. congruence.
  - intros a' E. destruct (owns_only_reg _ _ _ _ I Hn E) as (A & B & _). cbn [with_rem reg_a guarded]. auto.
Qed.

Lemma exec_load : rem th = ILoad :: r -> Inv (exec g i th (p, sc) ILoad r).
Proof.
  intros Hr. facts I Hn Hj. rewrite Hr in F0. cbn [prog_ok] in F0.
  cbn [exec]. eapply inv_local; eauto.
  - unfold thread_ok. cbn [job reg_a reg_last guarded fresh cmped stored put_done rem]. rewrite Hj. cbn zeta.
    change (owns_t (upd_thread g i _) i (reg_a th)) with (owns_t g i (reg_a th)). change (owns_s (upd_thread g i _) i) with (owns_s g i).
    split; [exact F0|]. split; [exact F1|]. split; [intros E; split; [exact E|reflexivity]|]. split; [discriminate|].
    split; [exact F4|exact F6].
  - left. cbn [job]. congruence.
  - intros a' E. destruct (owns_only_reg _ _ _ _ I Hn E) as (A & B & _). cbn [reg_a guarded]. auto.
Qed.

Lemma exec_cmp : rem th = ICmp :: r -> Inv (exec g i th (p, sc) ICmp r).
Proof.
  intros Hr. facts I Hn Hj. rewrite Hr in F0. cbn [prog_ok] in F0. split_andb.
  cbn [exec]. destruct (Z.leb_spec (payout (chq sc) - reg_last th) 0); [apply abort_inv; auto|].
  eapply inv_local; eauto.
  - unfold thread_ok. cbn [job reg_a reg_last guarded fresh cmped stored put_done rem]. rewrite Hj. cbn zeta.
    change (owns_t (upd_thread g i _) i (reg_a th)) with (owns_t g i (reg_a th)). change (owns_s (upd_thread g i _) i) with (owns_s g i).
    split; [assumption|]. split; [exact F1|]. split; [exact F2|]. split; [intros _; lia|]. split; [exact F4|exact F6].
  - left. cbn [job]. congruence.
  - intros a' E. destruct (owns_only_reg _ _ _ _ I Hn E) as (A & B & _). cbn [reg_a guarded]. auto.
Qed.
End Exec.

Lemma cr_touch g a a' : cred (touch a (credited (base g))) a' = cr g a'.
Proof. unfold cr. rewrite credited_of_cred. apply cred_touch. Qed.

Section Exec2.
Variables (g : cstate) (i : nat) (th : thread) (p : peer) (sc : signed) (r : list instr).
Hypothesis I : Inv g.
Hypothesis Hn : nth_error (thr g) i = Some th.
Hypothesis Hj : job th = Some (p, sc).

Ltac same_thread_facts :=
  intros a' E; destruct (owns_only_reg _ _ _ _ I Hn E) as (A & B & C); cbn [with_rem reg_a guarded job]; repeat split; auto; congruence.

Lemma exec_locks : rem th = ILockS :: r -> Inv (exec g i th (p, sc) ILockS r).
Proof.
  intros Hr. facts I Hn Hj. rewrite Hr in F0. cbn [prog_ok] in F0. split_andb.
  cbn [exec]. destruct (slock g) as [j|] eqn:Es; [exact I|].
  assert (Os : owns_s g i = false) by assumption.
  eapply inv_rebuild with (th := th); [exact I|exact Hn|reflexivity| | | | | | | | |]; cbn [base slock tlocks thr log].
  - unfold changes_only. split; [reflexivity|]. split; [|split; [reflexivity|split]].
    + intros k Hk. unfold owns_s. cbn [slock]. rewrite Es. apply Nat.eqb_neq. auto.
    + intros a [E|E]; exfalso; apply E; reflexivity.
    + intros a E; exfalso; apply E; reflexivity.
  - unfold thread_ok. cbn [with_rem job reg_a reg_last guarded fresh cmped stored put_done rem]. rewrite Hj. cbn zeta.
    match goal with |- context [owns_s ?g' i] => replace (owns_s g' i) with true by (unfold owns_s; cbn [slock]; now rewrite Nat.eqb_refl) end.
    match goal with |- context [owns_t ?g' i (reg_a th)] => change (owns_t g' i (reg_a th)) with (owns_t g i (reg_a th)) end.
    split; [assumption|]. split; [exact F1|]. split.
    { intros E. destruct (F2 E) as [A B]. split; [reflexivity|exact B]. }
    split; [exact F3|]. split; [exact F4|exact F6].
  - intros _. cbn [with_rem job]. congruence.
  - intros k Hk E. inversion E. congruence.
  - same_thread_facts.
  - auto.
  - apply I.
  - apply I.
  - unfold cnt. cbn [with_rem results put_done]. lia.
Qed.

Lemma exec_unlocks : rem th = IUnlockS :: r -> Inv (exec g i th (p, sc) IUnlockS r).
Proof.
  intros Hr. facts I Hn Hj. rewrite Hr in F0. cbn [prog_ok] in F0. split_andb.
  assert (Os : owns_s g i = true) by assumption. pose proof (proj1 (owns_s_true _ _) Os) as Es.
  cbn [exec]. rewrite Os.
  eapply inv_rebuild with (th := th); [exact I|exact Hn|reflexivity| | | | | | | | |]; cbn [base slock tlocks thr log].
  - unfold changes_only. split; [reflexivity|]. split; [|split; [reflexivity|split]].
    + intros k Hk. unfold owns_s. cbn [slock]. rewrite Es. symmetry. apply Nat.eqb_neq. auto.
    + intros a [E|E]; exfalso; apply E; reflexivity.
    + intros a E; exfalso; apply E; reflexivity.
  - unfold thread_ok. cbn [job reg_a reg_last guarded fresh cmped stored put_done rem]. rewrite Hj. cbn zeta.
    match goal with |- context [owns_s ?g' i] => replace (owns_s g' i) with false by reflexivity end.
    match goal with |- context [owns_t ?g' i (reg_a th)] => change (owns_t g' i (reg_a th)) with (owns_t g i (reg_a th)) end.
    split; [assumption|]. split; [exact F1|]. split; [discriminate|]. split; [exact F3|]. split; [exact F4|exact F6].
  - discriminate.
  - discriminate.
  - same_thread_facts.
  - auto.
  - apply I.
  - apply I.
  - unfold cnt. cbn [results put_done]. lia.
Qed.

Lemma exec_lockt : rem th = ILockT :: r -> Inv (exec g i th (p, sc) ILockT r).
Proof.
  intros Hr. facts I Hn Hj. rewrite Hr in F0. cbn [prog_ok] in F0. split_andb.
  assert (Gd : guarded th = true) by assumption. assert (Ot : owns_t g i (reg_a th) = false) by assumption.
  cbn [exec]. destruct (get (reg_a th) (tlocks g)) as [j|] eqn:Et; [exact I|].
  set (a := reg_a th) in *.
  assert (Own : forall g', tlocks g' = (a, i) :: tlocks g -> owns_t g' i a = true).
  { intros g' E. unfold owns_t. rewrite E. cbn [get]. now rewrite N.eqb_refl, Nat.eqb_refl. }
  eapply inv_rebuild with (th := th); [exact I|exact Hn|reflexivity| | | | | | | | |]; cbn [base slock tlocks thr log].
  - unfold changes_only. split; [reflexivity|]. split; [reflexivity|]. split; [|split].
    + intros k a' Hk. unfold owns_t. cbn [tlocks get]. destruct (a' =? a) eqn:Ea; [|reflexivity].
      apply N.eqb_eq in Ea. subst a'. rewrite Et. apply Nat.eqb_neq. auto.
    + intros a' [E|E]; exfalso; apply E; [|reflexivity]. unfold cr at 1. cbn [base]. rewrite credited_of_cred. cbn [credited]. apply cr_touch.
    + intros a' E; exfalso; apply E; reflexivity.
  - unfold thread_ok. cbn [with_rem job reg_a reg_last guarded fresh cmped stored put_done rem]. rewrite Hj. cbn zeta. fold a.
    rewrite Own by reflexivity.
    match goal with |- context [owns_s ?g' i] => change (owns_s g' i) with (owns_s g i) end.
    split; [assumption|]. split; [exact F1|]. split; [exact F2|]. split; [exact F3|]. split.
    { intros E. destruct (F4 E) as [A _]. congruence. }
    intros _ _. unfold cr at 1. cbn [base]. rewrite credited_of_cred. cbn [credited]. rewrite cr_touch. apply (inv_free _ I). exact Et.
  - intros _. cbn [with_rem job]. congruence.
  - auto.
  - intros a' E. cbn [get] in E. cbn [with_rem job reg_a guarded]. destruct (a' =? a) eqn:Ea.
    + apply N.eqb_eq in Ea. subst a'. repeat split; auto. congruence.
    + exfalso. destruct (owns_only_reg _ _ _ _ I Hn E) as [A _]. fold a in A. subst a'. congruence.
  - intros a' k Hk E. cbn [get] in E. destruct (a' =? a); [inversion E; congruence|exact E].
  - apply I.
  - intros a' E. cbn [get] in E. destruct (a' =? a) eqn:Ea; [discriminate|].
    unfold cr. cbn [base]. rewrite credited_of_cred. cbn [credited]. rewrite cr_touch. apply (inv_free _ I). exact E.
  - unfold cnt. cbn [with_rem results put_done]. lia.
Qed.

Lemma exec_unlockt : rem th = IUnlockT :: r -> Inv (exec g i th (p, sc) IUnlockT r).
Proof.
  intros Hr. facts I Hn Hj. rewrite Hr in F0. cbn [prog_ok] in F0. split_andb.
  assert (Ot : owns_t g i (reg_a th) = true) by assumption. assert (St : stored th = false) by assumption.
  pose proof (proj1 (owns_t_true _ _ _) Ot) as Et.
  cbn [exec]. rewrite Ot. set (a := reg_a th) in *.
  eapply inv_rebuild with (th := th); [exact I|exact Hn|reflexivity| | | | | | | | |]; cbn [base slock tlocks thr log].
  - unfold changes_only. split; [reflexivity|]. split; [reflexivity|]. split; [|split].
    + intros k a' Hk. unfold owns_t. cbn [tlocks]. destruct (N.eq_dec a' a) as [->|Hne].
      * rewrite get_remove_same, Et. symmetry. apply Nat.eqb_neq. auto.
      * now rewrite get_remove_other.
    + intros a' [E|E]; exfalso; apply E; reflexivity.
    + intros a' E; exfalso; apply E; reflexivity.
  - unfold thread_ok. cbn [with_rem job reg_a reg_last guarded fresh cmped stored put_done rem]. rewrite Hj. cbn zeta. fold a.
    match goal with |- context [owns_t ?g' i a] => replace (owns_t g' i a) with false by (unfold owns_t; cbn [tlocks]; now rewrite get_remove_same) end.
    match goal with |- context [owns_s ?g' i] => change (owns_s g' i) with (owns_s g i) end.
    split; [assumption|]. split; [exact F1|]. split; [exact F2|]. split; [exact F3|]. split; [congruence|discriminate].
  - intros _. cbn [with_rem job]. congruence.
  - auto.
  - intros a' E. exfalso. destruct (N.eq_dec a' a) as [->|Hne]; [rewrite get_remove_same in E; discriminate|].
    rewrite get_remove_other in E by auto. destruct (owns_only_reg _ _ _ _ I Hn E) as [A _]. fold a in A. congruence.
  - intros a' k Hk E. destruct (N.eq_dec a' a) as [->|Hne]; [rewrite get_remove_same in E; discriminate|].
    now rewrite get_remove_other in E.
  - apply I.
  - intros a' E. change (cr g a' = lp g a'). destruct (N.eq_dec a' a) as [->|Hne]; [apply F6; auto|].
    rewrite get_remove_other in E by auto. apply (inv_free _ I); auto.
  - unfold cnt. cbn [with_rem results put_done]. lia.
Qed.

Lemma exec_put : rem th = IPut :: r -> Inv (exec g i th (p, sc) IPut r).
Proof.
  intros Hr. facts I Hn Hj. rewrite Hr in F0. cbn [prog_ok] in F0. split_andb.
  assert (Os : owns_s g i = true) by assumption. assert (Ot : owns_t g i (reg_a th) = true) by assumption.
  assert (Gd : guarded th = true) by assumption. assert (Fr : fresh th = true) by assumption.
  assert (Cm : cmped th = true) by assumption. assert (St : stored th = false) by assumption.
  assert (Pd : put_done th = false) by assumption.
  destruct (F1 Gd) as [Bk Eb]. destruct (F2 Fr) as [_ El]. specialize (F3 Cm).
  set (a := reg_a th) in *. set (b := beneficiary (chq sc)) in *. subst b.
  cbn [exec]. fold a in Eb. rewrite Eb in *.
  assert (Lp : forall a', (lp {| base := {| self := self (base g); book := book (base g); last_recv := set a sc (last_recv (base g)); credited := credited (base g) |};
                                slock := slock g; tlocks := tlocks g; thr := thr g; log := log g |} a' = if N.eq_dec a' a then payout (chq sc) else lp g a')).
  { intros a'. unfold lp. cbn [base last_recv]. destruct (N.eq_dec a' a) as [->|Hne]; [apply last_payout_set_same|now apply last_payout_set_other]. }
  eapply inv_rebuild with (th := th); [exact I|exact Hn|reflexivity| | | | | | | | |]; cbn [base slock tlocks thr log].
  - unfold changes_only. split; [reflexivity|]. split; [reflexivity|]. split; [reflexivity|]. split.
    + intros a' [E|E].
      * exfalso; apply E; reflexivity.
      * unfold lp in E. cbn [base last_recv] in E. destruct (N.eq_dec a' a) as [->|Hne]; [exact Ot|].
        exfalso. apply E. now apply last_payout_set_other.
    + intros _ _. exact Os.
  - unfold thread_ok. cbn [job reg_a reg_last guarded fresh cmped stored put_done rem]. rewrite Hj. cbn zeta. fold a. rewrite Eb.
    match goal with |- context [owns_t ?g' i a] => change (owns_t g' i a) with (owns_t g i a) end.
    match goal with |- context [owns_s ?g' i] => change (owns_s g' i) with (owns_s g i) end.
    rewrite Ot, Os, Gd in *. split; [assumption|]. split; [auto|]. split; [discriminate|]. split; [auto|]. split.
    { intros _. repeat split; auto. unfold lp. cbn [base last_recv]. apply last_payout_set_same. }
    discriminate.
  - intros _. cbn [job]. congruence.
  - auto.
  - intros a' E. destruct (owns_only_reg _ _ _ _ I Hn E) as (A & B & C). cbn [reg_a guarded job]. repeat split; auto; congruence.
  - auto.
  - destruct (inv_log _ I) as [L1 L2]. split.
    + cbn [log_ok]. split; [lia|]. split; [|exact L1]. rewrite <- L2. lia.
    + intros a'. unfold lp. cbn [base last_recv]. destruct (N.eq_dec a' a) as [->|Hne].
      * now rewrite last_payout_set_same, lastlog_cons_same.
      * rewrite last_payout_set_other, lastlog_cons_other by auto. apply L2.
  - intros a' E. assert (Hne : a' <> a). { intros ->. apply owns_t_true in Ot. fold a in Ot. congruence. }
    unfold lp, cr. cbn [base last_recv]. rewrite last_payout_set_other by auto. apply (inv_free _ I); auto.
  - unfold cnt. cbn [results put_done log length]. rewrite Pd. cbn [b2n]. lia.
Qed.

Lemma exec_credit : rem th = ICredit :: r -> Inv (exec g i th (p, sc) ICredit r).
Proof.
  intros Hr. facts I Hn Hj. rewrite Hr in F0. cbn [prog_ok] in F0. split_andb.
  assert (Ot : owns_t g i (reg_a th) = true) by assumption. assert (Gd : guarded th = true) by assumption.
  assert (St : stored th = true) by assumption.
  destruct (F1 Gd) as [Bk Eb]. destruct (F4 St) as (_ & _ & Elp & Pd).
  set (a := reg_a th) in *. rewrite Eb in *.
  cbn [exec]. fold a.
  assert (Cr : forall a', cred (set a (payout (chq sc)) (touch a (credited (base g)))) a' = if N.eq_dec a' a then payout (chq sc) else cr g a').
  { intros a'. unfold cr. rewrite credited_of_cred. destruct (N.eq_dec a' a) as [->|Hne].
    - apply cred_set_same. - rewrite cred_set_other by auto. apply cred_touch. }
  assert (Cr' : forall g', credited (base g') = set a (payout (chq sc)) (touch a (credited (base g))) ->
                 forall a', cr g' a' = if N.eq_dec a' a then payout (chq sc) else cr g a').
  { intros g' E a'. unfold cr at 1. rewrite credited_of_cred, E. apply Cr. }
  eapply inv_rebuild with (th := th); [exact I|exact Hn|reflexivity| | | | | | | | |]; cbn [base slock tlocks thr log].
  - unfold changes_only. split; [reflexivity|]. split; [reflexivity|]. split; [reflexivity|]. split.
    + intros a' [E|E].
      * rewrite Cr' in E by reflexivity. destruct (N.eq_dec a' a) as [->|Hne]; [exact Ot|]. exfalso; apply E; reflexivity.
      * exfalso; apply E; reflexivity.
    + intros a' E; exfalso; apply E; reflexivity.
  - unfold thread_ok. cbn [job reg_a reg_last guarded fresh cmped stored put_done rem]. rewrite Hj. cbn zeta. fold a. rewrite Eb.
    match goal with |- context [owns_t ?g' i a] => change (owns_t g' i a) with (owns_t g i a) end.
    match goal with |- context [owns_s ?g' i] => change (owns_s g' i) with (owns_s g i) end.
    split; [assumption|]. split; [auto|]. split; [exact F2|]. split; [exact F3|]. split; [discriminate|].
    intros _ _. rewrite Cr' by reflexivity. destruct (N.eq_dec a a); [|congruence]. symmetry. exact Elp.
  - intros _. cbn [job]. congruence.
  - auto.
  - intros a' E. destruct (owns_only_reg _ _ _ _ I Hn E) as (A & B & C). cbn [reg_a guarded job]. repeat split; auto; congruence.
  - auto.
  - apply I.
  - intros a' E. assert (Hne : a' <> a). { intros ->. apply owns_t_true in Ot. fold a in Ot. congruence. }
    rewrite Cr' by reflexivity. destruct (N.eq_dec a' a); [congruence|]. apply (inv_free _ I); auto.
  - unfold cnt. cbn [results put_done]. lia.
Qed.
End Exec2.

Lemma idle_owns_nothing g i th :
  Inv g -> nth_error (thr g) i = Some th -> job th = None ->
  owns_s g i = false /\ forall a, owns_t g i a = false.
Proof.
  intros I Hn Hj. split.
  - destruct (owns_s g i) eqn:E; auto. apply owns_s_true in E. destruct (inv_s _ I _ E) as (th' & Hn' & J).
    rewrite Hn in Hn'. inversion Hn'; subst. congruence.
  - intros a. destruct (owns_t g i a) eqn:E; auto. apply owns_t_true in E.
    destruct (owns_only_reg _ _ _ _ I Hn E) as (_ & _ & J). congruence.
Qed.

Lemma step_inv prog g i : disciplined prog = true -> Inv g -> Inv (cstep prog g i).
Proof.
  intros Hd I. unfold cstep. destruct (nth_error (thr g) i) as [th|] eqn:Hn; [|exact I].
  destruct (job th) as [[p sc]|] eqn:Hj.
  - destruct (rem th) as [|ins r] eqn:Hr.
    + (* return nil *)
      facts I Hn Hj. rewrite Hr in F0. cbn [prog_ok] in F0. split_andb.
      assert (Ot : owns_t g i (reg_a th) = false) by assumption. assert (Os : owns_s g i = false) by assumption.
      assert (Pd : put_done th = true) by assumption.
      eapply inv_local; eauto.
      * unfold thread_ok. cbn. auto.
      * right. split.
        -- intros E. apply owns_s_true in E. congruence.
        -- intros a E. destruct (owns_only_reg _ _ _ _ I Hn E) as [<- _]. apply owns_t_true in E. congruence.
      * intros a E. exfalso. destruct (owns_only_reg _ _ _ _ I Hn E) as [<- _]. apply owns_t_true in E. congruence.
      * unfold cnt, count_ok. cbn [results put_done filter snd is_ok length]. rewrite Pd. cbn [b2n]. lia.
    + destruct ins.
      * eapply exec_guard; eauto.
      * eapply exec_lockt; eauto.
      * eapply exec_pre; eauto.
      * eapply exec_locks; eauto.
      * eapply exec_load; eauto.
      * eapply exec_cmp; eauto.
      * eapply exec_put; eauto.
      * eapply exec_unlocks; eauto.
      * eapply exec_credit; eauto.
      * eapply exec_unlockt; eauto.
  - destruct (todo th) as [|d more] eqn:Ht; [exact I|].
    destruct (idle_owns_nothing _ _ _ I Hn Hj) as [Os Ot].
    pose proof (inv_thr _ I _ _ Hn) as TO. unfold thread_ok in TO. rewrite Hj in TO. destruct TO as (_ & _ & _ & _ & Pd).
    eapply inv_local; eauto.
    * unfold thread_ok. cbn [job reg_a reg_last guarded fresh cmped stored put_done rem]. destruct d as [p sc]. cbn zeta.
      change (owns_t (upd_thread g i _) i (reg_a th)) with (owns_t g i (reg_a th)). change (owns_s (upd_thread g i _) i) with (owns_s g i).
      rewrite Os, Ot. split; [exact Hd|]. repeat split; try discriminate.
    * left. cbn [job]. discriminate.
    * intros a E. exfalso. apply owns_t_true in E. rewrite Ot in E. discriminate.
    * unfold cnt. cbn [results put_done]. rewrite Pd. reflexivity.
Qed.

Lemma run_inv prog sched : disciplined prog = true -> forall g, Inv g -> Inv (crun prog g sched).
Proof.
  intros Hd. unfold crun. induction sched as [|i t IH]; intros g I; cbn [fold_left]; auto.
  apply IH. apply step_inv; auto.
Qed.

Lemma boot_inv s progs :
  last_recv s = [] -> (forall a, credited_of s a = 0%Z) -> Inv (boot s progs).
Proof.
  intros Hl Hc. constructor; cbn [boot base slock tlocks thr log].
  - intros i th Hn. apply nth_error_In in Hn. apply in_map_iff in Hn as (ds & <- & _). unfold thread_ok. cbn. auto.
  - discriminate.
  - intros a i E. discriminate.
  - split; [exact Logic.I|]. intros a. unfold lp. cbn [boot base log]. rewrite Hl. reflexivity.
  - intros a _. unfold cr, lp. cbn [boot base]. rewrite Hl, Hc. reflexivity.
  - induction progs as [|x t IH]; cbn; auto.
Qed.

(** what the invariant says at any reachable state, and at quiescence *)
Lemma inv_consequences g : Inv g ->
  log_ok (log g) /\
  (forall a, lp g a = lastlog a (log g) /\ sumlog a (log g) = lp g a /\ maxlog a (log g) = lp g a) /\
  (forall a, get a (tlocks g) = None -> cr g a = lp g a).
Proof.
  intros I. destruct (inv_log _ I) as [L1 L2]. split; [exact L1|]. split.
  - intros a. destruct (log_ok_facts _ L1 a) as (_ & B & C). rewrite L2. auto.
  - apply I.
Qed.

Lemma tsum_ext f f' l : (forall th, In th l -> f th = f' th) -> tsum f l = tsum f' l.
Proof.
  unfold tsum. induction l as [|x t IH]; cbn [fold_right]; intros H; auto.
  rewrite (H x) by (left; auto). rewrite IH; auto. intros; apply H; right; auto.
Qed.

Lemma quiescent_count g : Inv g -> Forall (fun th => job th = None) (thr g) -> length (log g) = accepted_total g.
Proof.
  intros I Q. rewrite (inv_count _ I). unfold accepted_total. apply tsum_ext. intros th Hin.
  rewrite Forall_forall in Q. specialize (Q _ Hin). apply In_nth_error in Hin as [i Hn].
  pose proof (inv_thr _ I _ _ Hn) as TO. unfold thread_ok in TO. rewrite Q in TO. destruct TO as (_ & _ & _ & _ & Pd).
  rewrite Pd. cbn. lia.
Qed.

Theorem conc_credit_max prog s progs sched :
  disciplined prog = true -> last_recv s = [] -> (forall a, credited_of s a = 0%Z) ->
  let g := crun prog (boot s progs) sched in
  log_ok (log g) /\
  (forall a, lp g a = lastlog a (log g) /\ sumlog a (log g) = lp g a /\ maxlog a (log g) = lp g a) /\
  (forall a, get a (tlocks g) = None -> cr g a = lp g a) /\
  (Forall (fun th => job th = None) (thr g) -> length (log g) = accepted_total g).
Proof.
  intros Hd Hl Hc. cbn zeta. pose proof (run_inv prog sched Hd _ (boot_inv s progs Hl Hc)) as I.
  destruct (inv_consequences _ I) as (A & B & C). repeat split; auto; try apply B. apply quiescent_count; auto.
Qed.
