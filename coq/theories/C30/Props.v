(** C30 — property theorems only.  The model's signed cheque carries the result of
    the recovery function; here every theorem is stated for an ARBITRARY signature
    type and recovery function (no cryptographic hypothesis), over cheques paired
    with signatures.  The two last theorems add the idealised laws of a signature
    scheme as explicit premises. *)
From Coq Require Import List NArith ZArith Bool.
Import ListNotations.
Require Import Aurora.C30.Model Aurora.C30.Proofs Aurora.C30.Conc Aurora.C30.ConcProofs.
Local Open Scope N_scope.

Definition with_sig {Sig} (recover : cheque -> Sig -> option addr) (c : cheque) (sg : Sig) : signed :=
  {| chq := c; rec := recover c sg |}.

Inductive wop (Sig : Type) :=
| WHandshake (p : peer) (a : addr)
| WReceive (p : peer) (c : cheque) (sg : Sig).
Arguments WHandshake {Sig}. Arguments WReceive {Sig}.
Definition observe {Sig} (recover : cheque -> Sig -> option addr) (o : wop Sig) : op :=
  match o with
  | WHandshake p a => OHandshake p a
  | WReceive p c sg => OReceive p (with_sig recover c sg)
  end.

(** accepted by the cheque store  <->  made out to this node, signature recovers to the
    stated issuer, strictly above the issuer's last stored payout *)
Theorem C30_store_accept_iff : forall Sig (recover : cheque -> Sig -> option addr) self st c sg,
  is_ok (fst (store_receive self st (with_sig recover c sg))) = true <->
  recipient c = self /\ recover c sg = Some (beneficiary c) /\ (last_payout st (beneficiary c) < payout c)%Z.
Proof. intros Sig recover self st c sg. exact (store_accept_iff self st (with_sig recover c sg)). Qed.
Print Assumptions C30_store_accept_iff.

(** accepted by the service (repaired guard)  <->  the four conditions of the property *)
Theorem C30_accept_iff : forall Sig (recover : cheque -> Sig -> option addr) s p c sg,
  is_ok (fst (svc_receive s p (with_sig recover c sg))) = true <->
  recipient c = self s /\ recover c sg = Some (beneficiary c) /\
  (last_payout (last_recv s) (beneficiary c) < payout c)%Z /\
  beneficiary_of p (book s) = Some (beneficiary c).
Proof. intros Sig recover s p c sg. exact (svc_accept_iff s p (with_sig recover c sg)). Qed.
Print Assumptions C30_accept_iff.

(** over any history of registrations and cheques (any order, replays included): per issuer,
    the credited record = the sum of the credited amounts = the stored last cheque
    = the highest accepted cumulative payout *)
Theorem C30_credit_max : forall Sig (recover : cheque -> Sig -> option addr) self_ (h : list (wop Sig)) rs s',
  run (init self_) (map (observe recover) h) = (rs, s') ->
  forall a, credited_of s' a = zmax_list (accepted_payouts a (map (observe recover) h) rs)
         /\ credited_amounts a (map (observe recover) h) rs = zmax_list (accepted_payouts a (map (observe recover) h) rs)
         /\ last_payout (last_recv s') a = zmax_list (accepted_payouts a (map (observe recover) h) rs).
Proof. intros Sig recover self_ h rs s'. exact (run_credit_init self_ (map (observe recover) h) rs s'). Qed.
Print Assumptions C30_credit_max.

(** the same from an ARBITRARY initial state [s0] — in particular one restored by Init after a restart,
    [restore s chain lists], whose records are max(on-chain cashed amount, last stored cheque) for any chain
    values: the stored last cheque of an issuer is the maximum of what was stored and what was accepted since;
    as soon as one cheque of an issuer is accepted its credited record EQUALS its stored last cheque (the credit
    assigns the cheque's cumulative payout, it does not add the increment to the restored total); an issuer
    without an accepted cheque keeps its restored record; accepted payouts strictly increase from the stored one *)
Theorem C30_credit_max_restored : forall Sig (recover : cheque -> Sig -> option addr) (s0 : state) (h : list (wop Sig)) rs s',
  run s0 (map (observe recover) h) = (rs, s') ->
  forall a,
    let acc := accepted_payouts a (map (observe recover) h) rs in
    last_payout (last_recv s') a
      = Z.max (last_payout (last_recv s0) a) (fold_right Z.max (last_payout (last_recv s0) a) acc) /\
    (acc <> [] -> credited_of s' a = last_payout (last_recv s') a) /\
    (acc = [] -> credited_of s' a = credited_of s0 a) /\
    strictly_increasing_from (last_payout (last_recv s0) a) acc.
Proof. intros Sig recover s0 h rs s'. exact (run_restored s0 (map (observe recover) h) rs s'). Qed.
Print Assumptions C30_credit_max_restored.

(** non-vacuity of the restored case (the seeded change C30-3): the chain says issuer 2 cashed 100, nothing is
    stored; Init restores the record 100; cheques 150, 150 (replay), 120, 180 -> record 180 (not 100 + 180) *)
Example C30_restored_example :
  let s0 := restore (snd (run (init 1) [OHandshake 10 2])) [(2, 100%Z)] [2] in
  let sc z := {| chq := {| recipient := 1; beneficiary := 2; payout := z |}; rec := Some 2 |} in
  let '(rs, s') := run s0 [OReceive 10 (sc 150%Z); OReceive 10 (sc 150%Z); OReceive 10 (sc 120%Z); OReceive 10 (sc 180%Z)] in
  credited_of s0 2 = 100%Z /\ map is_ok rs = [true; false; false; true] /\ credited_of s' 2 = 180%Z.
Proof. vm_compute. repeat split. Qed.

(** the accepted payouts of one issuer are strictly increasing (and positive) along any
    history: a replayed or reordered cheque is never accepted a second time *)
Theorem C30_no_double_credit : forall Sig (recover : cheque -> Sig -> option addr) self_ (h : list (wop Sig)) rs s' a,
  run (init self_) (map (observe recover) h) = (rs, s') ->
  strictly_increasing_from 0 (accepted_payouts a (map (observe recover) h) rs).
Proof. intros Sig recover self_ h rs s' a. exact (run_increasing (map (observe recover) h) (init self_) rs s' a). Qed.
Print Assumptions C30_no_double_credit.

(** an accepted cheque arrived from the peer registered for its issuer, sets that issuer's
    record to its payout and touches no other issuer; a rejected cheque changes no amount *)
Theorem C30_right_peer : forall Sig (recover : cheque -> Sig -> option addr) s p c sg r s1,
  svc_receive s p (with_sig recover c sg) = (r, s1) ->
  (is_ok r = true ->
     beneficiary_of p (book s) = Some (beneficiary c) /\
     credited_of s1 (beneficiary c) = payout c /\
     forall a, a <> beneficiary c ->
       credited_of s1 a = credited_of s a /\ last_payout (last_recv s1) a = last_payout (last_recv s) a) /\
  (is_ok r = false ->
     forall a, credited_of s1 a = credited_of s a /\ last_payout (last_recv s1) a = last_payout (last_recv s) a).
Proof. intros Sig recover s p c sg r s1. exact (receive_right_peer s p (with_sig recover c sg) r s1). Qed.
Print Assumptions C30_right_peer.

(** the store alone, over any sequence of signed cheques: stored payout = highest accepted,
    returned amounts add up to it *)
Theorem C30_store_last_is_max : forall self_ (h : list signed) rs st',
  store_run self_ [] h = (rs, st') ->
  forall a, last_payout st' a = zmax_list (st_accepted a h rs) /\ st_amounts a h rs = zmax_list (st_accepted a h rs).
Proof. exact store_run_init. Qed.
Print Assumptions C30_store_last_is_max.

(** F-cheque-and-or: the guard as it stood in the pinned tree ([&&]) credits a
    foreign-issuer cheque to the registered peer that relayed it — and lowers that
    peer's record.  Witness replayed on the Go code (notes/C30.md); the repaired
    guard is the one all theorems above are about. *)
Theorem C30_orig_guard_refuted :
  exists h p sc, let s := snd (run_gen true (init 1) h) in
    is_ok (fst (svc_receive_gen true s p sc)) = true /\
    beneficiary_of p (book s) <> Some (beneficiary (chq sc)) /\
    credited_of s 2 = 100%Z /\ credited_of (snd (svc_receive_gen true s p sc)) 2 = 5%Z.
Proof.
  exists [OHandshake 10 2; OReceive 10 {| chq := {| recipient := 1; beneficiary := 2; payout := 100 |}; rec := Some 2 |}],
         10, {| chq := {| recipient := 1; beneficiary := 3; payout := 5 |}; rec := Some 3 |}.
  vm_compute. repeat split; congruence.
Qed.
Print Assumptions C30_orig_guard_refuted.


(** ---- concurrent deliveries ([Conc.v]: micro-steps of Service.ReceiveCheque / chequeStore.ReceiveCheque under
    the record lock and the store lock of the code at /repo HEAD; a schedule is any list of thread ids) ----

    For EVERY schedule of any number of threads delivering any cheques, started after registrations only, at
    every reachable state: every store Put raised its issuer's payout strictly and by exactly its amount; per
    issuer the stored last cheque = the last logged payout = the sum of the logged amounts = the highest accepted
    payout; the credited record of every issuer whose record lock is free equals it; and when no delivery is in
    flight the number of accepted deliveries is the number of Puts (no cheque is accepted without raising the payout,
    so a cheque delivered twice concurrently is accepted at most once). *)
Theorem C30_conc_credit_max : forall (s : state) (progs : list (list delivery)) (sched : list nat),
  last_recv s = [] -> (forall a, credited_of s a = 0%Z) ->
  let g := crun prog_head (boot s progs) sched in
  log_ok (log g) /\
  (forall a, lp g a = lastlog a (log g) /\ sumlog a (log g) = lp g a /\ maxlog a (log g) = lp g a) /\
  (forall a, get a (tlocks g) = None -> cr g a = lp g a) /\
  (Forall (fun th => job th = None) (thr g) -> length (log g) = accepted_total g).
Proof. intros s progs sched. exact (conc_credit_max prog_head s progs sched head_disciplined). Qed.
Print Assumptions C30_conc_credit_max.

(** the same for ANY instruction order that passes the static lock-discipline check [disciplined] *)
Theorem C30_conc_any_disciplined_order : forall prog (s : state) (progs : list (list delivery)) (sched : list nat),
  disciplined prog = true -> last_recv s = [] -> (forall a, credited_of s a = 0%Z) ->
  let g := crun prog (boot s progs) sched in
  log_ok (log g) /\
  (forall a, lp g a = lastlog a (log g) /\ sumlog a (log g) = lp g a /\ maxlog a (log g) = lp g a) /\
  (forall a, get a (tlocks g) = None -> cr g a = lp g a) /\
  (Forall (fun th => job th = None) (thr g) -> length (log g) = accepted_total g).
Proof. exact conc_credit_max. Qed.
Print Assumptions C30_conc_any_disciplined_order.

(** narrowed locks (load + compare before the store lock, record lock only around the credit): the order fails
    the discipline check, and a schedule exists in which one cheque of 100 delivered on two streams is accepted
    twice: 200 credited in total against a highest payout of 100 *)
Definition race_state : state := snd (run (init 1) [OHandshake 10 2]).
Definition race_cheque : signed := {| chq := {| recipient := 1; beneficiary := 2; payout := 100 |}; rec := Some 2 |}.
Definition race_sched : list nat := [0;0;0;0;0; 1;1;1;1;1; 0;0;0;0;0;0;0; 1;1;1;1;1;1;1]%nat.
Theorem C30_conc_narrow_refuted :
  disciplined prog_narrow = false /\
  let g := crun prog_narrow (boot race_state [[(10, race_cheque)]; [(10, race_cheque)]]) race_sched in
  finished g = true /\ accepted_total g = 2%nat /\ sumlog 2 (log g) = 200%Z /\ lp g 2 = 100%Z.
Proof. vm_compute. repeat split. Qed.
Print Assumptions C30_conc_narrow_refuted.

Definition drain_for_example : cstate :=
  crun prog_head (boot race_state [[(10, race_cheque)]; [(10, race_cheque)]])
       (race_sched ++ [0;0;0;0;0;0;0;0;0;0;0;0; 1;1;1;1;1;1;1;1;1;1;1;1]%nat).

(** non-vacuity: the same two deliveries under the code's locks, same schedule prefix: the second is refused *)
Example C30_conc_head_example :
  last_recv race_state = [] /\ (forall a, credited_of race_state a = 0%Z) /\
  let g := drain_for_example in
  finished g = true /\ accepted_total g = 1%nat /\ sumlog 2 (log g) = 100%Z /\ lp g 2 = 100%Z /\ cr g 2 = 100%Z.
Proof.
  split; [reflexivity|]. split.
  - intros a. unfold credited_of, race_state. cbn. destruct (a =? 2); reflexivity.
  - vm_compute. repeat split.
Qed.

(** with the law of a signature scheme: an honest cheque (signed by the issuer's key, made
    out to this node, increasing) sent by the registered peer is accepted *)
Theorem C30_accept_honest : forall Sig Key (recover : cheque -> Sig -> option addr)
    (sign : Key -> cheque -> Sig) (addr_of : Key -> addr),
  (forall k c, recover c (sign k c) = Some (addr_of k)) ->
  forall s p k c,
    recipient c = self s -> beneficiary c = addr_of k ->
    (last_payout (last_recv s) (addr_of k) < payout c)%Z ->
    beneficiary_of p (book s) = Some (addr_of k) ->
    is_ok (fst (svc_receive s p (with_sig recover c (sign k c)))) = true.
Proof.
  intros Sig Key recover sign addr_of Hlaw s p k c Hr Hb Hp Hbook.
  apply (proj2 (C30_accept_iff Sig recover s p c (sign k c))). rewrite Hb, Hlaw. auto.
Qed.
Print Assumptions C30_accept_honest.

(** with idealised unforgeability (a signature recovers to an address only if a holder of a
    key of that address signed exactly these fields): every accepted cheque was signed by
    its issuer over exactly the recipient, issuer and payout that were credited *)
Theorem C30_accept_only_signed_partial : forall Sig Key (recover : cheque -> Sig -> option addr)
    (sign : Key -> cheque -> Sig) (addr_of : Key -> addr),
  (forall c sg a, recover c sg = Some a -> exists k, addr_of k = a /\ sg = sign k c) ->
  forall s p c sg,
    is_ok (fst (svc_receive s p (with_sig recover c sg))) = true ->
    exists k, addr_of k = beneficiary c /\ sg = sign k c /\ beneficiary_of p (book s) = Some (addr_of k).
Proof.
  intros Sig Key recover sign addr_of Hunf s p c sg Hok.
  apply (proj1 (C30_accept_iff Sig recover s p c sg)) in Hok. destruct Hok as (_ & Hrec & _ & Hbook).
  destruct (Hunf _ _ _ Hrec) as (k & Hk & Hsg). exists k. rewrite Hk. auto.
Qed.
Print Assumptions C30_accept_only_signed_partial.

(** non-vacuity: a history in which cheques are accepted, replayed, reordered, relayed by the
    wrong peer; issuer 2 ends with the maximum 100 credited once *)
Example C30_history_example :
  let sc b z := {| chq := {| recipient := 1; beneficiary := b; payout := z |}; rec := Some b |} in
  let h := [OHandshake 10 2; OHandshake 11 3; OReceive 10 (sc 2 40%Z); OReceive 10 (sc 2 100%Z); OReceive 10 (sc 2 40%Z);
            OReceive 11 (sc 2 500%Z); OReceive 11 (sc 3 7%Z); OReceive 10 (sc 2 100%Z)] in
  let '(rs, s') := run (init 1) h in
  map is_ok rs = [true; true; true; true; false; false; true; false] /\
  credited_of s' 2 = 100%Z /\ credited_of s' 3 = 7%Z /\ accepted_payouts 2 h rs = [40; 100]%Z /\ credited_amounts 2 h rs = 100%Z.
Proof. vm_compute. repeat split. Qed.
