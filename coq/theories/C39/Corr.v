(** C39 — correspondence: the harness builds a vector with the real
    [bitvector.New]/[NewFromBytes], applies an operation sequence and records what
    every call returned; [check_case] replays the sequence on the model. *)
From Coq Require Import List NArith ZArith Bool.
Import ListNotations.
Require Import Aurora.Base.Corr.
Require Export Aurora.C39.Model.
Local Open Scope Z_scope.

Inductive ctor := KNew (l : Z) | KFromBytes (b : list N) (l : Z) | KNil.
(** how the constructor ended: vector, error, panic *)
Inductive cres := COk | CErr | CPanic.

Inductive case := Case (k : ctor) (c : cres) (ops : list op) (observed : list obs).

Definition obs_eqb (x y : obs) : bool :=
  match x, y with
  | VUnit, VUnit | VErr, VErr | VPanic, VPanic => true
  | VBool a, VBool b => Bool.eqb a b
  | VBytes a, VBytes b => bytes_eqb a b
  | VInt a, VInt b => Z.eqb a b
  | _, _ => false
  end.
Definition cres_eqb (x y : cres) : bool :=
  match x, y with COk, COk | CErr, CErr | CPanic, CPanic => true | _, _ => false end.

(** operations on a nil [*BitVector]: only [Equals] is defined (returns false) *)
Definition nil_step (o : op) : obs :=
  match o with OEquals => match equals_ptr None with Ok b => VBool b | _ => VPanic end | _ => VPanic end.

Definition model_out (k : ctor) (ops : list op) : cres * list obs :=
  match k with
  | KNil => (COk, map nil_step ops)
  | KNew l =>
      match new l with Ok v => (COk, snd (run v ops)) | Err => (CErr, []) | Panic => (CPanic, []) end
  | KFromBytes b l =>
      match new_from_bytes b l with Ok v => (COk, snd (run v ops)) | Err => (CErr, []) | Panic => (CPanic, []) end
  end.

Definition check_case (c : case) : bool :=
  let 'Case k cr ops observed := c in
  let '(mc, mo) := model_out k ops in
  cres_eqb mc cr && list_eqb obs_eqb mo observed.

Fixpoint first_diff (i : nat) (a b : list obs) : option (nat * option obs * option obs) :=
  match a, b with
  | [], [] => None
  | x :: a', y :: b' => if obs_eqb x y then first_diff (S i) a' b' else Some (i, Some x, Some y)
  | x :: _, [] => Some (i, Some x, None)
  | [], y :: _ => Some (i, None, Some y)
  end.

(** (constructor outcome model, observed), then (index of first differing call, model, observed) *)
Definition explain_case (c : case) :=
  let 'Case k cr ops observed := c in
  let '(mc, mo) := model_out k ops in
  ((mc, cr), first_diff 0 mo observed).
