(** C39 — proofs about the bit-vector model. *)
From Coq Require Import List NArith ZArith Bool Lia Arith.
From Coq Require Import ZifyBool ZifyNat ZifyN.
Import ListNotations.
Require Import Aurora.C39.Model.
Local Open Scope Z_scope.
Ltac Zify.zify_post_hook ::= Z.div_mod_to_equations.

(** * bytes *)

Lemma land_pow2_testbit (x r : N) :
  (N.land x (N.shiftl 1 r) =? 0)%N = negb (N.testbit x r).
Proof.
  rewrite N.shiftl_1_l.
  destruct (N.testbit x r) eqn:Hx; cbn [negb].
  - apply N.eqb_neq. intros H0.
    assert (Ht : N.testbit (N.land x (2 ^ r)) r = true).
    { rewrite N.land_spec, Hx, N.pow2_bits_true. reflexivity. }
    rewrite H0 in Ht. rewrite N.bits_0 in Ht. discriminate.
  - apply N.eqb_eq. apply N.bits_inj. intros k.
    rewrite N.land_spec, N.bits_0, N.pow2_bits_eqb.
    destruct (N.eqb_spec r k) as [->|Hne]; [now rewrite Hx | apply andb_false_r].
Qed.

Lemma lxor_pow2_testbit (x r k : N) :
  N.testbit (N.lxor x (N.shiftl 1 r)) k = xorb (N.testbit x k) (r =? k)%N.
Proof. now rewrite N.lxor_spec, N.shiftl_1_l, N.pow2_bits_eqb. Qed.

Lemma isbyte_high x : isbyte x <-> (forall k, (8 <= k)%N -> N.testbit x k = false).
Proof.
  unfold isbyte; split.
  - intros Hx k Hk. destruct (N.eq_dec x 0) as [->|Hnz]; [apply N.bits_0|].
    apply N.bits_above_log2. apply N.le_lt_trans with (m := 7%N); [|lia].
    apply N.lt_succ_r. apply N.log2_lt_pow2; [lia|]. exact Hx.
  - intros Hh. assert (Hm : x = (x mod 2 ^ 8)%N).
    { apply N.bits_inj. intros k. destruct (N.ltb_spec k 8) as [Hlt|Hge].
      - now rewrite N.mod_pow2_bits_low.
      - rewrite N.mod_pow2_bits_high by exact Hge. now apply Hh. }
    rewrite Hm. apply N.mod_lt. discriminate.
Qed.

Lemma isbyte_lxor_pow2 x r : isbyte x -> (r < 8)%N -> isbyte (N.lxor x (N.shiftl 1 r)).
Proof.
  intros Hx Hr. apply isbyte_high. intros k Hk. rewrite lxor_pow2_testbit.
  rewrite (proj1 (isbyte_high x) Hx k Hk).
  destruct (N.eqb_spec r k); [lia | reflexivity].
Qed.

(** all 256 byte values, for the few facts proved by complete enumeration *)
Definition all_bytes : list N := map N.of_nat (seq 0 256).
Lemma in_all_bytes x : isbyte x -> In x all_bytes.
Proof.
  unfold isbyte; intros Hx. unfold all_bytes. apply in_map_iff. exists (N.to_nat x).
  split; [apply N2Nat.id | apply in_seq; lia].
Qed.
Lemma bytes_sweep (P : N -> bool) : forallb P all_bytes = true -> forall x, isbyte x -> P x = true.
Proof. intros Hs x Hx. exact (proj1 (forallb_forall P all_bytes) Hs x (in_all_bytes x Hx)). Qed.

Lemma byte_255 x : isbyte x -> (x =? 255)%N = forallb (fun c => c) (byte_bits x).
Proof.
  intros Hx.
  apply (bytes_sweep (fun x => Bool.eqb (x =? 255)%N (forallb (fun c => c) (byte_bits x)))) in Hx.
  - now apply eqb_prop.
  - vm_compute. reflexivity.
Qed.

Lemma byte_of_bits x : isbyte x -> byte_of (byte_bits x) = x.
Proof.
  intros Hx. apply (bytes_sweep (fun x => (byte_of (byte_bits x) =? x)%N)) in Hx.
  - now apply N.eqb_eq.
  - vm_compute. reflexivity.
Qed.

Lemma bits_byte_of (l : list bool) : length l = 8%nat -> byte_bits (byte_of l) = l /\ isbyte (byte_of l).
Proof.
  intros Hl. do 8 (destruct l as [|? l]; [discriminate Hl|]). destruct l; [|discriminate Hl].
  repeat match goal with c : bool |- _ => destruct c end; split; vm_compute; reflexivity.
Qed.

Lemma byte_bits_length x : length (byte_bits x) = 8%nat.
Proof. reflexivity. Qed.

Lemma nth_byte_bits x k : (k < 8)%nat -> nth k (byte_bits x) false = N.testbit x (N.of_nat k).
Proof.
  intros Hk. unfold byte_bits.
  do 8 (destruct k as [|k]; [reflexivity|]). lia.
Qed.

(** * the array behind a byte slice *)

Lemma bits_length b : length (bits b) = (8 * length b)%nat.
Proof. unfold bits. induction b as [|x b IH]; cbn [flat_map length]; [reflexivity|]. rewrite app_length, IH, byte_bits_length. lia. Qed.

Lemma nth_bits b : forall j, (j < 8 * length b)%nat ->
  nth j (bits b) false = N.testbit (nth (j / 8) b 0%N) (N.of_nat (j mod 8)).
Proof.
  induction b as [|x b IH]; intros j Hj; cbn [length] in Hj; [lia|].
  unfold bits; cbn [flat_map]. fold (bits b).
  destruct (Nat.ltb_spec j 8) as [Hlt|Hge].
  - rewrite app_nth1 by (rewrite byte_bits_length; exact Hlt).
    rewrite nth_byte_bits by exact Hlt.
    replace (j / 8)%nat with 0%nat by lia. replace (j mod 8)%nat with j by lia. reflexivity.
  - rewrite app_nth2 by (rewrite byte_bits_length; exact Hge). rewrite byte_bits_length.
    rewrite IH by lia.
    replace (j / 8)%nat with (S ((j - 8) / 8)) by lia. cbn [nth].
    replace ((j - 8) mod 8)%nat with (j mod 8)%nat by lia. reflexivity.
Qed.

Lemma upd_length {A} (l : list A) n a : length (upd l n a) = length l.
Proof. revert n; induction l as [|x l IH]; intros [|n]; cbn [upd length]; auto. Qed.

Lemma nth_upd {A} (l : list A) n a d j :
  nth j (upd l n a) d = if Nat.eqb j n && Nat.ltb n (length l) then a else nth j l d.
Proof.
  revert n j; induction l as [|x l IH]; intros n j.
  - cbn [upd length]. destruct j, n; cbn; try reflexivity; now rewrite andb_false_r.
  - destruct n as [|n], j as [|j]; cbn [upd nth length]; try reflexivity.
    rewrite IH. reflexivity.
Qed.

Lemma Forall_upd {A} (P : A -> Prop) l n a : Forall P l -> P a -> Forall P (upd l n a).
Proof.
  intros Hl Ha; revert n; induction Hl as [|x l Hx Hl IH]; intros [|n]; cbn [upd]; constructor; auto.
Qed.

Lemma nth_error_nth {A} (l : list A) n d : (n < length l)%nat -> nth_error l n = Some (nth n l d).
Proof. revert n; induction l as [|x l IH]; intros [|n] Hn; cbn in *; try lia; [reflexivity | apply IH; lia]. Qed.

Lemma list_eq_nth {A} (d : A) (l1 l2 : list A) :
  length l1 = length l2 -> (forall j, (j < length l1)%nat -> nth j l1 d = nth j l2 d) -> l1 = l2.
Proof. intros Hlen Hn. apply (nth_ext l1 l2 d d Hlen Hn). Qed.

(** * Get / set *)

Lemma index_in (b : list N) (i : Z) :
  0 <= i < 8 * Z.of_nat (length b) ->
  idx b (Z.quot i 8) = Some (nth (Z.to_nat i / 8) b 0%N) /\
  mask i = N.shiftl 1 (N.of_nat (Z.to_nat i mod 8)) /\
  Z.to_nat (Z.quot i 8) = (Z.to_nat i / 8)%nat /\ (Z.to_nat i / 8 < length b)%nat.
Proof.
  intros Hi. assert (Hq : Z.quot i 8 = i / 8) by (apply Z.quot_div_nonneg; lia).
  assert (Hr : Z.rem i 8 = i mod 8) by (apply Z.rem_mod_nonneg; lia).
  assert (Hn : Z.to_nat (i / 8) = (Z.to_nat i / 8)%nat) by lia.
  assert (Hlt : (Z.to_nat i / 8 < length b)%nat) by lia.
  unfold idx, mask. rewrite Hq, Hr, Hn.
  destruct (Z.ltb_spec (i / 8) 0) as [Hneg|_]; [lia|].
  destruct (Z.ltb_spec (i mod 8) 0) as [Hneg|_]; [lia|].
  repeat split; try assumption.
  - now apply nth_error_nth.
  - f_equal. lia.
Qed.

Lemma get_in v i : 0 <= i < 8 * Z.of_nat (length (bb v)) ->
  get v i = Ok (nth (Z.to_nat i) (bits (bb v)) false).
Proof.
  intros Hi. destruct (index_in (bb v) i Hi) as (Hidx & Hm & _ & _).
  unfold get. rewrite Hidx, Hm, land_pow2_testbit, negb_involutive.
  rewrite nth_bits by lia. reflexivity.
Qed.

Lemma bits_upd_byte b n x' val :
  (n < 8 * length b)%nat ->
  (forall k, (k < 8)%nat -> N.testbit x' (N.of_nat k) =
      if Nat.eqb k (n mod 8) then val else N.testbit (nth (n / 8) b 0%N) (N.of_nat k)) ->
  bits (upd b (n / 8) x') = upd (bits b) n val.
Proof.
  intros Hn Hx. apply (list_eq_nth false).
  - now rewrite upd_length, !bits_length, upd_length.
  - intros j Hj. rewrite bits_length, upd_length in Hj.
    rewrite nth_bits by (rewrite upd_length; exact Hj).
    rewrite !nth_upd, bits_length.
    assert (Hlt : (n / 8 < length b)%nat) by lia.
    destruct (Nat.eqb_spec (j / 8) (n / 8)) as [Hq|Hq].
    + destruct (Nat.ltb_spec (n / 8) (length b)) as [_|Hge]; [|lia]. cbn [andb].
      rewrite Hx by lia.
      destruct (Nat.eqb_spec (j mod 8) (n mod 8)) as [Hr|Hr].
      * replace (j =? n)%nat with true by (symmetry; apply Nat.eqb_eq; lia).
        destruct (Nat.ltb_spec n (8 * length b)); [reflexivity | lia].
      * replace (j =? n)%nat with false by (symmetry; apply Nat.eqb_neq; lia). cbn [andb].
        rewrite nth_bits by exact Hj. now rewrite Hq.
    + cbn [andb]. replace (j =? n)%nat with false by (symmetry; apply Nat.eqb_neq; intros ->; lia).
      cbn [andb]. now rewrite nth_bits by exact Hj.
Qed.

Lemma upd_same_bits (a : list bool) n : upd a n (nth n a false) = a.
Proof.
  apply (list_eq_nth false); [apply upd_length|]. intros j _. rewrite nth_upd.
  destruct (Nat.eqb_spec j n) as [->|]; [|reflexivity]. now destruct (n <? length a)%nat.
Qed.

Lemma set_in v i val :
  Forall isbyte (bb v) -> 0 <= i < 8 * Z.of_nat (length (bb v)) ->
  exists b', set v i val = Ok (mkbv (blen v) b') /\ length b' = length (bb v) /\
             Forall isbyte b' /\ bits b' = upd (bits (bb v)) (Z.to_nat i) val.
Proof.
  intros Hb Hi. destruct (index_in (bb v) i Hi) as (Hidx & Hm & Hq & Hlt).
  unfold set. rewrite (get_in v i Hi).
  remember (nth (Z.to_nat i) (bits (bb v)) false) as cv eqn:Hcv.
  destruct (Bool.eqb cv val) eqn:Heq.
  - apply eqb_prop in Heq. exists (bb v). destruct v as [l b]; cbn [blen bb] in *.
    repeat split; try assumption. subst val cv. now rewrite upd_same_bits.
  - rewrite Hidx, Hq, Hm. eexists; split; [reflexivity|].
    assert (Hx : isbyte (nth (Z.to_nat i / 8) (bb v) 0%N)).
    { apply Forall_nth; assumption. }
    split; [apply upd_length|]. split.
    + apply Forall_upd; [assumption|]. apply isbyte_lxor_pow2; [assumption | lia].
    + apply bits_upd_byte; [lia|]. intros k Hk. rewrite lxor_pow2_testbit.
      destruct (Nat.eqb_spec k (Z.to_nat i mod 8)) as [->|Hne].
      * rewrite N.eqb_refl. rewrite <- nth_bits by lia. rewrite <- Hcv.
        destruct cv, val; cbn in *; congruence.
      * replace (N.of_nat (Z.to_nat i mod 8) =? N.of_nat k)%N with false by (symmetry; apply N.eqb_neq; lia).
        apply xorb_false_r.
Qed.

(** indices -7..-1: byte 0 is addressed with an all-zero mask *)
Lemma index_neg (b : list N) (i : Z) : -8 < i < 0 -> Z.quot i 8 = 0 /\ mask i = 0%N.
Proof.
  intros Hi. assert (Hq : Z.quot i 8 = 0) by (apply Z.quot_small_iff; lia || (right; lia)).
  split; [exact Hq|]. unfold mask.
  assert (Hr : Z.rem i 8 = i). { pose proof (Z.quot_rem' i 8) as H. rewrite Hq in H. lia. }
  rewrite Hr. destruct (Z.ltb_spec i 0); [reflexivity | lia].
Qed.

Lemma upd_same_N (b : list N) n : upd b n (nth n b 0%N) = b.
Proof.
  apply (list_eq_nth 0%N); [apply upd_length|]. intros j _. rewrite nth_upd.
  destruct (Nat.eqb_spec j n) as [->|]; [|reflexivity]. now destruct (n <? length b)%nat.
Qed.

Lemma get_neg v i : -8 < i < 0 -> bb v <> [] -> get v i = Ok false.
Proof.
  intros Hi Hne. destruct (index_neg (bb v) i Hi) as [Hq Hm]. unfold get. rewrite Hq, Hm.
  destruct (bb v) as [|x t]; [contradiction|]. cbn [idx Z.ltb Z.compare Z.to_nat nth_error].
  now rewrite N.land_0_r.
Qed.

Lemma set_neg v i val : -8 < i < 0 -> bb v <> [] -> set v i val = Ok v.
Proof.
  intros Hi Hne. unfold set. rewrite (get_neg v i Hi Hne).
  destruct (index_neg (bb v) i Hi) as [Hq Hm]. rewrite Hq, Hm.
  destruct val; cbn [Bool.eqb]; [|reflexivity].
  destruct v as [l b]; cbn [bb blen] in *. destruct b as [|x t]; [contradiction|].
  cbn [idx Z.ltb Z.compare Z.to_nat nth_error upd]. now rewrite N.lxor_0_r.
Qed.

Lemma get_out v i : i <= -8 \/ 8 * Z.of_nat (length (bb v)) <= i -> get v i = Panic.
Proof.
  intros Hi. unfold get, idx.
  destruct (Z.ltb_spec (Z.quot i 8) 0) as [|Hge]; [reflexivity|].
  assert (Hpos : 0 <= i).
  { destruct (Z.le_gt_cases 0 i) as [|Hneg]; [assumption|]. exfalso.
    assert (Z.quot i 8 <= Z.quot (-8) 8) by (apply Z.quot_le_mono; lia). cbn in H. lia. }
  rewrite Z.quot_div_nonneg in * by lia.
  replace (nth_error (bb v) (Z.to_nat (i / 8))) with (@None N); [reflexivity|].
  symmetry. apply nth_error_None. lia.
Qed.

Lemma set_out v i val : i <= -8 \/ 8 * Z.of_nat (length (bb v)) <= i -> set v i val = Panic.
Proof. intros Hi. unfold set. now rewrite get_out. Qed.

(** * SetBytes / UnsetBytes *)

Lemma mask_nat k : mask (Z.of_nat k) = N.shiftl 1 (N.of_nat (k mod 8)).
Proof.
  unfold mask. rewrite Z.rem_mod_nonneg by lia.
  destruct (Z.ltb_spec (Z.of_nat k mod 8) 0) as [Hneg|_]; [lia|]. f_equal. lia.
Qed.

Lemma mask_loop_spec val bs : forall fuel i v,
  Forall isbyte (bb v) -> length bs = length (bb v) -> (i + fuel = 8 * length (bb v))%nat ->
  exists b', mask_loop val bs v i fuel = Ok (mkbv (blen v) b') /\ length b' = length (bb v) /\
    Forall isbyte b' /\
    forall j, (j < 8 * length (bb v))%nat ->
      nth j (bits b') false =
      if Nat.leb i j && nth j (bits bs) false then val else nth j (bits (bb v)) false.
Proof.
  induction fuel as [|f IH]; intros i v Hb Hlen Hif.
  - exists (bb v). cbn [mask_loop]. destruct v as [l b]; cbn [bb blen] in *.
    repeat split; try assumption. intros j Hj.
    destruct (Nat.leb_spec i j); [lia | reflexivity].
  - cbn [mask_loop].
    assert (Hi : 0 <= Z.of_nat i < 8 * Z.of_nat (length bs)) by lia.
    destruct (index_in bs (Z.of_nat i) Hi) as (Hidx & _ & _ & _).
    rewrite Hidx, mask_nat, Nat2Z.id.
    assert (Hbit : (0 <? N.land (nth (i / 8) bs 0%N) (N.shiftl 1 (N.of_nat (i mod 8))))%N = nth i (bits bs) false).
    { rewrite nth_bits by lia.
      pose proof (land_pow2_testbit (nth (i / 8) bs 0%N) (N.of_nat (i mod 8))) as Hl.
      destruct (N.testbit (nth (i / 8) bs 0%N) (N.of_nat (i mod 8))); cbn [negb] in Hl.
      - apply N.eqb_neq in Hl. apply N.ltb_lt. lia.
      - apply N.eqb_eq in Hl. rewrite Hl. reflexivity. }
    rewrite Hbit.
    destruct (nth i (bits bs) false) eqn:Hm.
    + assert (Hi' : 0 <= Z.of_nat i < 8 * Z.of_nat (length (bb v))) by lia.
      destruct (set_in v (Z.of_nat i) val Hb Hi') as (b1 & Hset & Hl1 & Hb1 & Hbits1).
      rewrite Hset. rewrite Nat2Z.id in Hbits1.
      destruct (IH (S i) (mkbv (blen v) b1)) as (b' & Hrun & Hl' & Hb' & Hn'); cbn [bb blen]; try assumption; try lia.
      exists b'. cbn [bb blen] in *. split; [exact Hrun|]. split; [lia|]. split; [exact Hb'|].
      intros j Hj. rewrite Hn' by lia. rewrite Hbits1, nth_upd, bits_length.
      destruct (Nat.eqb_spec j i) as [->|Hne].
      * rewrite Hm. destruct (Nat.leb_spec (S i) i); [lia|]. cbn [andb].
        destruct (Nat.ltb_spec i (8 * length (bb v))); [|lia].
        destruct (Nat.leb_spec i i); [|lia]. reflexivity.
      * cbn [andb]. destruct (Nat.leb_spec (S i) j), (Nat.leb_spec i j); try lia; reflexivity.
    + destruct (IH (S i) v) as (b' & Hrun & Hl' & Hb' & Hn'); try assumption; try lia.
      exists b'. split; [exact Hrun|]. split; [exact Hl'|]. split; [exact Hb'|].
      intros j Hj. rewrite Hn' by lia.
      destruct (Nat.eqb_spec j i) as [->|Hne].
      * rewrite Hm, !andb_false_r. reflexivity.
      * destruct (Nat.leb_spec (S i) j), (Nat.leb_spec i j); try lia; reflexivity.
Qed.

Lemma nth_arr_mask val a m j : length a = length m -> (j < length a)%nat ->
  nth j (arr_mask val a m) false = if nth j m false then val else nth j a false.
Proof.
  unfold arr_mask. revert m j; induction a as [|x a IH]; intros [|y m] j Hl Hj; cbn [length] in *; try lia.
  destruct j as [|j]; cbn [combine map nth fst snd]; [reflexivity|]. apply IH; lia.
Qed.
Lemma arr_mask_length val a m : length a = length m -> length (arr_mask val a m) = length a.
Proof. intros Hl. unfold arr_mask. rewrite map_length, combine_length. lia. Qed.

Lemma set_bytes_gen_ok val v m : Forall isbyte (bb v) -> length m = length (bb v) ->
  exists b', set_bytes_gen val v m = Ok (mkbv (blen v) b') /\ length b' = length (bb v) /\
    Forall isbyte b' /\ bits b' = arr_mask val (bits (bb v)) (bits m).
Proof.
  intros Hb Hl. unfold set_bytes_gen. rewrite Hl, Nat.eqb_refl. cbn [negb].
  destruct (mask_loop_spec val m (length (bb v) * 8) 0 v Hb Hl) as (b' & Hrun & Hl' & Hb' & Hn); [lia|].
  exists b'. repeat split; try assumption.
  apply (list_eq_nth false).
  - rewrite arr_mask_length; rewrite !bits_length; lia.
  - intros j Hj. rewrite bits_length in Hj. rewrite Hn by lia.
    rewrite nth_arr_mask by (rewrite !bits_length; lia). reflexivity.
Qed.

Lemma set_bytes_gen_err val v m : length m <> length (bb v) -> set_bytes_gen val v m = Err.
Proof. intros Hl. unfold set_bytes_gen. apply Nat.eqb_neq in Hl. now rewrite Hl. Qed.

(** * Equals (all bits set) *)

Lemma forallb_nth (l : list bool) :
  forallb (fun c => c) l = true <-> (forall k, (k < length l)%nat -> nth k l false = true).
Proof.
  induction l as [|c l IH]; cbn [forallb length].
  - split; [intros _ k Hk; lia | reflexivity].
  - rewrite andb_true_iff, IH. split.
    + intros [Hc Hl] [|k] Hk; cbn [nth]; [exact Hc | apply Hl; lia].
    + intros H. split; [apply (H 0%nat); lia | intros k Hk; apply (H (S k)); lia].
Qed.

Lemma low_bits_set_spec x : forall k, (k <= 8)%nat ->
  (low_bits_set x k = true <-> forall t, (t < k)%nat -> N.testbit x (N.of_nat t) = true).
Proof.
  induction k as [|k IH]; intros Hk; cbn [low_bits_set].
  - split; [intros _ t Ht; lia | reflexivity].
  - rewrite mask_nat. replace (k mod 8)%nat with k by lia. rewrite land_pow2_testbit.
    destruct (N.testbit x (N.of_nat k)) eqn:Hx; cbn [negb].
    + rewrite IH by lia. split; intros H t Ht.
      * destruct (Nat.eq_dec t k) as [->|]; [exact Hx | apply H; lia].
      * apply H; lia.
    + split; [discriminate|]. intros H. rewrite (H k) in Hx by lia. discriminate.
Qed.

Lemma byte_full_spec x : isbyte x ->
  ((x =? 255)%N = true <-> forall t, (t < 8)%nat -> N.testbit x (N.of_nat t) = true).
Proof.
  intros Hx. rewrite (byte_255 x Hx), forallb_nth, byte_bits_length.
  split; intros H t Ht; [rewrite <- nth_byte_bits by exact Ht | rewrite nth_byte_bits by exact Ht]; now apply H.
Qed.

Lemma bits_of_byte_range b i : (i < length b)%nat -> forall P : nat -> Prop,
  ((forall t, (t < 8)%nat -> N.testbit (nth i b 0%N) (N.of_nat t) = true) <->
   (forall j, (8 * i <= j < 8 * i + 8)%nat -> nth j (bits b) false = true)).
Proof.
  intros Hi _. split.
  - intros H j Hj. rewrite nth_bits by lia. replace (j / 8)%nat with i by lia. apply H. lia.
  - intros H t Ht. specialize (H (8 * i + t)%nat). rewrite nth_bits in H by lia.
    replace ((8 * i + t) / 8)%nat with i in H by lia. replace ((8 * i + t) mod 8)%nat with t in H by lia.
    apply H. lia.
Qed.

Lemma eq_loop_spec b l r n :
  Forall isbyte b -> (l <= length b)%nat -> 0 <= r < 8 -> (1 <= l)%nat ->
  n = (if (r =? 0)%Z then 8 * l else 8 * (l - 1) + Z.to_nat r)%nat ->
  forall fuel i, (i + fuel = l)%nat ->
  exists bo, eq_loop b l r i fuel = Ok bo /\
    (bo = true <-> forall j, (8 * i <= j < n)%nat -> nth j (bits b) false = true).
Proof.
  intros Hb Hl Hr Hl1 Hn. induction fuel as [|f IH]; intros i Hif.
  - exists true. split; [reflexivity|]. split; [|reflexivity]. intros _ j Hj.
    destruct (Z.eqb_spec r 0); lia.
  - cbn [eq_loop].
    assert (Hi : (i < length b)%nat) by lia.
    rewrite (nth_error_nth b i 0%N Hi).
    assert (Hx : isbyte (nth i b 0%N)) by (apply Forall_nth; assumption).
    destruct (Z.eqb_spec r 0) as [Hr0|Hr0]; cbn [negb andb].
    + (* no partial byte *)
      destruct (N.eqb_spec (nth i b 0%N) 255) as [Hff|Hnf].
      * destruct (IH (S i)) as (bo & Hrun & Hbo); [lia|]. exists bo. split; [exact Hrun|].
        rewrite Hbo. split; intros H j Hj.
        -- destruct (Nat.lt_ge_cases j (8 * i + 8)) as [Hlt|Hge]; [|apply H; lia].
           apply (proj1 (bits_of_byte_range b i Hi (fun _ => True))); [|lia].
           apply byte_full_spec; [exact Hx|]. now apply N.eqb_eq.
        -- apply H. lia.
      * exists false. split; [reflexivity|]. split; [discriminate|]. intros H. exfalso. apply Hnf.
        apply N.eqb_eq. apply byte_full_spec; [exact Hx|].
        apply (proj2 (bits_of_byte_range b i Hi (fun _ => True))). intros j Hj. apply H. lia.
    + destruct (Nat.eqb_spec i (l - 1)) as [Hlast|Hnl].
      * (* the partial byte: f = 0 *)
        assert (Hf : f = 0%nat) by lia. subst f.
        destruct (low_bits_set (nth i b 0%N) (Z.to_nat r)) eqn:Hlow.
        -- exists true. split; [reflexivity|]. split; [|reflexivity]. intros _ j Hj.
           rewrite nth_bits by lia. replace (j / 8)%nat with i by lia.
           apply (proj1 (low_bits_set_spec (nth i b 0%N) (Z.to_nat r) ltac:(lia)) Hlow). lia.
        -- exists false. split; [reflexivity|]. split; [discriminate|]. intros H. exfalso.
           assert (Hall : low_bits_set (nth i b 0%N) (Z.to_nat r) = true).
           { apply low_bits_set_spec; [lia|]. intros t Ht.
             specialize (H (8 * i + t)%nat). rewrite nth_bits in H by lia.
             replace ((8 * i + t) / 8)%nat with i in H by lia.
             replace ((8 * i + t) mod 8)%nat with t in H by lia. apply H. lia. }
           congruence.
      * destruct (N.eqb_spec (nth i b 0%N) 255) as [Hff|Hnf].
        -- destruct (IH (S i)) as (bo & Hrun & Hbo); [lia|]. exists bo. split; [exact Hrun|].
           rewrite Hbo. split; intros H j Hj.
           ++ destruct (Nat.lt_ge_cases j (8 * i + 8)) as [Hlt|Hge]; [|apply H; lia].
              apply (proj1 (bits_of_byte_range b i Hi (fun _ => True))); [|lia].
              apply byte_full_spec; [exact Hx|]. now apply N.eqb_eq.
           ++ apply H. lia.
        -- exists false. split; [reflexivity|]. split; [discriminate|]. intros H. exfalso. apply Hnf.
           apply N.eqb_eq. apply byte_full_spec; [exact Hx|].
           apply (proj2 (bits_of_byte_range b i Hi (fun _ => True))). intros j Hj. apply H. lia.
Qed.

Lemma nth_firstn {A} (l : list A) n j d : (j < n)%nat -> nth j (firstn n l) d = nth j l d.
Proof.
  revert n j; induction l as [|x l IH]; intros [|n] [|j] Hj; cbn [firstn nth]; try lia; try reflexivity.
  apply IH; lia.
Qed.

Lemma equals_spec v : wf v -> equals v = Ok (forallb (fun c => c) (abs v)).
Proof.
  intros (Hpos & Hle & Hb). unfold equals, equals_l.
  assert (Hq : Z.quot (blen v + 7) 8 = (blen v + 7) / 8) by (apply Z.quot_div_nonneg; lia).
  assert (Hrm : Z.rem (blen v) 8 = blen v mod 8) by (apply Z.rem_mod_nonneg; lia).
  rewrite Hq, Hrm.
  remember (Z.to_nat ((blen v + 7) / 8)) as l eqn:El.
  remember (blen v mod 8) as r eqn:Er.
  destruct (eq_loop_spec (bb v) l r (Z.to_nat (blen v)) Hb) with (fuel := l) (i := 0%nat)
    as (bo & Hrun & Hbo); try lia.
  { destruct (Z.eqb_spec r 0); lia. }
  rewrite Hrun. f_equal.
  apply eq_true_iff_eq. rewrite Hbo, forallb_nth. unfold abs.
  rewrite firstn_length, bits_length.
  split; intros H j Hj.
  - rewrite nth_firstn by lia. apply H. lia.
  - rewrite <- (nth_firstn (bits (bb v)) (Z.to_nat (blen v))) by lia. apply H. lia.
Qed.

(** * encoding / decoding *)

Lemma firstn_app_exact {A} (l1 l2 : list A) n : length l1 = n -> firstn n (l1 ++ l2) = l1.
Proof. intros <-. rewrite firstn_app, Nat.sub_diag, firstn_all. cbn [firstn]. apply app_nil_r. Qed.
Lemma skipn_app_exact {A} (l1 l2 : list A) n : length l1 = n -> skipn n (l1 ++ l2) = l2.
Proof. intros <-. rewrite skipn_app, Nat.sub_diag, skipn_all. reflexivity. Qed.

Lemma pack_bits b : Forall isbyte b -> forall fuel, (length b <= fuel)%nat -> pack fuel (bits b) = b.
Proof.
  induction 1 as [|x b Hx Hb IH]; intros fuel Hf.
  - destruct fuel; reflexivity.
  - destruct fuel as [|f]; cbn [length] in Hf; [lia|].
    unfold bits; cbn [flat_map]; fold (bits b). cbn [pack].
    remember (byte_bits x ++ bits b) as a eqn:Ea.
    assert (Hne : a <> []) by (subst a; unfold byte_bits; cbn; discriminate).
    destruct a as [|c a']; [contradiction|]. rewrite Ea.
    rewrite (firstn_app_exact _ _ 8 (byte_bits_length x)), (skipn_app_exact _ _ 8 (byte_bits_length x)).
    rewrite (byte_of_bits x Hx), IH by lia. reflexivity.
Qed.

Lemma bits_pack : forall k a fuel, length a = (8 * k)%nat -> (k <= fuel)%nat ->
  bits (pack fuel a) = a /\ Forall isbyte (pack fuel a) /\ length (pack fuel a) = k.
Proof.
  induction k as [|k IH]; intros a fuel Ha Hf.
  - destruct a; [|discriminate Ha]. destruct fuel; cbn; repeat split; constructor.
  - destruct fuel as [|f]; [lia|]. cbn [pack].
    destruct a as [|c a'] eqn:Ea; [discriminate Ha|]. rewrite <- Ea in *. clear Ea c a'.
    assert (H8 : length (firstn 8 a) = 8%nat) by (rewrite firstn_length; lia).
    destruct (bits_byte_of (firstn 8 a) H8) as [Hbb Hib].
    destruct (IH (skipn 8 a) f) as (Hb & Hfa & Hl); [rewrite skipn_length; lia | lia |].
    unfold bits; cbn [flat_map length]; fold (bits (pack f (skipn 8 a))).
    rewrite Hbb, Hb, firstn_skipn, Hl. repeat split; [constructor; assumption].
Qed.

(** * constructors *)

Lemma new_from_bytes_ok b l : 0 < l <= 8 * Z.of_nat (length b) -> new_from_bytes b l = Ok (mkbv l b).
Proof.
  intros Hl. unfold new_from_bytes.
  destruct (Z.leb_spec l 0); [lia|]. destruct (Z.ltb_spec (Z.of_nat (length b) * 8) l); [lia | reflexivity].
Qed.
Lemma new_from_bytes_err b l : l <= 0 \/ 8 * Z.of_nat (length b) < l -> new_from_bytes b l = Err.
Proof.
  intros Hl. unfold new_from_bytes.
  destruct (Z.leb_spec l 0); [reflexivity|]. destruct (Z.ltb_spec (Z.of_nat (length b) * 8) l); [reflexivity | lia].
Qed.
Lemma new_from_bytes_inv b l v : new_from_bytes b l = Ok v ->
  v = mkbv l b /\ 0 < l <= 8 * Z.of_nat (length b).
Proof.
  unfold new_from_bytes. destruct (Z.leb_spec l 0); [discriminate|].
  destruct (Z.ltb_spec (Z.of_nat (length b) * 8) l); [discriminate|]. intros [= <-]. split; [reflexivity | lia].
Qed.

Lemma bits_zero n : bits (repeat 0%N n) = repeat false (8 * n).
Proof.
  induction n as [|n IH]; [reflexivity|]. cbn [repeat]. unfold bits; cbn [flat_map]; fold (bits (repeat 0%N n)).
  rewrite IH. replace (8 * S n)%nat with (8 + 8 * n)%nat by lia. rewrite repeat_app. reflexivity.
Qed.

Lemma Forall_repeat {A} (P : A -> Prop) a n : P a -> Forall P (repeat a n).
Proof. intros Ha; induction n; cbn; constructor; auto. Qed.

Lemma firstn_repeat {A} (a : A) n m : (n <= m)%nat -> firstn n (repeat a m) = repeat a n.
Proof.
  revert m; induction n as [|n IH]; intros [|m] Hm; cbn [firstn repeat]; try lia; try reflexivity.
  f_equal. apply IH. lia.
Qed.

(** number of bytes [New] allocates: ceil(l/8) for l >= 1 *)
Lemma new_nbytes_pos l : 1 <= l -> new_nbytes l = (l + 7) / 8.
Proof.
  intros Hl. unfold new_nbytes. rewrite Z.quot_div_nonneg, Z.rem_mod_nonneg by lia.
  destruct (Z.eqb_spec (l mod 8) 0), (Z.eqb_spec l 0); cbn [negb andb]; lia.
Qed.

Lemma new_ok l : 1 <= l ->
  let v := mkbv l (repeat 0%N (Z.to_nat ((l + 7) / 8))) in
  new l = Ok v /\ wf v /\ abs v = repeat false (Z.to_nat l).
Proof.
  intros Hl v. unfold new. rewrite new_nbytes_pos by exact Hl.
  destruct (Z.ltb_spec ((l + 7) / 8) 0); [lia|].
  assert (Hlen : length (repeat 0%N (Z.to_nat ((l + 7) / 8))) = Z.to_nat ((l + 7) / 8)) by apply repeat_length.
  split; [apply new_from_bytes_ok; rewrite Hlen; lia|].
  split.
  - unfold wf, v; cbn [blen bb]. rewrite Hlen. repeat split; try lia.
    apply Forall_repeat. unfold isbyte. lia.
  - unfold abs, v; cbn [blen bb]. rewrite bits_zero. apply firstn_repeat. lia.
Qed.

(** [New] never returns a vector for l <= 0 (error, or a makeslice panic) *)
Lemma new_nonpos l : l <= 0 -> new l = Err \/ new l = Panic.
Proof.
  intros Hl. unfold new. destruct (new_nbytes l <? 0); [now right|]. left.
  apply new_from_bytes_err. now left.
Qed.

(** * operation sequences: the model is a boolean array *)

Lemma wf_intro l b : 0 < l <= 8 * Z.of_nat (length b) -> Forall isbyte b -> wf (mkbv l b).
Proof. intros Hl Hb. unfold wf; cbn [blen bb]. repeat split; try lia; assumption. Qed.

Lemma in_range_bits b i : in_range (bits b) i = (0 <=? i) && (i <? 8 * Z.of_nat (length b)).
Proof. unfold in_range. rewrite bits_length. f_equal. f_equal. lia. Qed.

Lemma set_sim v i val : wf v ->
  let r := match set v i val with Ok v' => (v', VUnit) | _ => (v, VPanic) end in
  arr_set (bits (bb v)) i val = (bits (bb (fst r)), snd r) /\ wf (fst r) /\
  blen (fst r) = blen v /\ length (bb (fst r)) = length (bb v).
Proof.
  intros (Hpos & Hle & Hb). unfold arr_set. rewrite in_range_bits, bits_length.
  assert (Hne : bb v <> []) by (intros E; rewrite E in Hle; cbn in Hle; lia).
  destruct (Z.leb_spec 0 i) as [H0|H0]; destruct (Z.ltb_spec i (8 * Z.of_nat (length (bb v)))) as [H1|H1]; cbn [andb].
  - destruct (set_in v i val Hb (conj H0 H1)) as (b' & Hset & Hl' & Hb' & Hbits). rewrite Hset.
    cbn [fst snd bb blen]. rewrite Hbits. repeat split; try assumption; cbn [blen bb]; lia.
  - rewrite set_out by (right; lia). cbn [fst snd].
    destruct (Z.ltb_spec (-8) i), (Z.ltb_spec i 0); cbn [andb]; try lia;
      repeat split; try assumption; reflexivity.
  - destruct (Z.ltb_spec (-8) i) as [H8|H8]; destruct (Z.ltb_spec i 0); try lia; cbn [andb].
    + rewrite set_neg by (assumption || lia). cbn [fst snd].
      destruct (Nat.eqb_spec (8 * length (bb v)) 0) as [E|_]; [destruct (bb v); [contradiction | cbn in E; lia]|].
      cbn [negb]. repeat split; try assumption; reflexivity.
    + rewrite set_out by (left; lia). cbn [fst snd]. repeat split; try assumption; reflexivity.
  - lia.
Qed.

Lemma get_sim v i : wf v ->
  (if in_range (bits (bb v)) i then VBool (nth (Z.to_nat i) (bits (bb v)) false)
   else if (-8 <? i) && (i <? 0) && negb (Nat.eqb (length (bits (bb v))) 0) then VBool false else VPanic)
  = match get v i with Ok b => VBool b | _ => VPanic end.
Proof.
  intros (Hpos & Hle & Hb). rewrite in_range_bits, bits_length.
  assert (Hne : bb v <> []) by (intros E; rewrite E in Hle; cbn in Hle; lia).
  destruct (Z.leb_spec 0 i) as [H0|H0]; destruct (Z.ltb_spec i (8 * Z.of_nat (length (bb v)))) as [H1|H1]; cbn [andb].
  - now rewrite get_in by lia.
  - rewrite get_out by (right; lia).
    destruct (Z.ltb_spec (-8) i), (Z.ltb_spec i 0); cbn [andb]; try lia; reflexivity.
  - destruct (Z.ltb_spec (-8) i) as [H8|H8]; destruct (Z.ltb_spec i 0); try lia; cbn [andb].
    + rewrite get_neg by (assumption || lia).
      destruct (Nat.eqb_spec (8 * length (bb v)) 0) as [E|_]; [destruct (bb v); [contradiction | cbn in E; lia]|].
      reflexivity.
    + now rewrite get_out by (left; lia).
  - lia.
Qed.

Lemma step_sim v o : wf v ->
  spec_step (blen v) (bits (bb v)) o = (bits (bb (fst (step v o))), snd (step v o)) /\
  wf (fst (step v o)) /\ blen (fst (step v o)) = blen v /\ length (bb (fst (step v o))) = length (bb v).
Proof.
  intros Hwf. pose proof Hwf as (Hpos & Hle & Hb).
  destruct o as [i|i|i|m|m| | | |]; cbn [step spec_step].
  - cbn [fst snd]. rewrite get_sim by exact Hwf. repeat split; assumption.
  - pose proof (set_sim v i true Hwf) as H. cbn zeta in H.
    destruct (set v i true); cbn [fst snd] in *; exact H.
  - pose proof (set_sim v i false Hwf) as H. cbn zeta in H.
    destruct (set v i false); cbn [fst snd] in *; exact H.
  - rewrite bits_length. unfold set_bytes.
    destruct (Nat.eqb_spec (8 * length m) (8 * length (bb v))) as [E|E].
    + destruct (set_bytes_gen_ok true v m Hb ltac:(lia)) as (b' & Hrun & Hl' & Hb' & Hbits).
      rewrite Hrun. cbn [fst snd bb blen]. rewrite Hbits. repeat split; try assumption; cbn [blen bb]; lia.
    + rewrite set_bytes_gen_err by lia. cbn [fst snd]. repeat split; assumption.
  - rewrite bits_length. unfold unset_bytes.
    destruct (Nat.eqb_spec (8 * length m) (8 * length (bb v))) as [E|E].
    + destruct (set_bytes_gen_ok false v m Hb ltac:(lia)) as (b' & Hrun & Hl' & Hb' & Hbits).
      rewrite Hrun. cbn [fst snd bb blen]. rewrite Hbits. repeat split; try assumption; cbn [blen bb]; lia.
    + rewrite set_bytes_gen_err by lia. cbn [fst snd]. repeat split; assumption.
  - rewrite (equals_spec v Hwf). cbn [fst snd]. unfold abs. repeat split; assumption.
  - cbn [fst snd]. unfold bytes. rewrite bits_length, pack_bits by (assumption || lia).
    repeat split; assumption.
  - cbn [fst snd]. repeat split; assumption.
  - unfold bytes, len. rewrite new_from_bytes_ok by lia. cbn [fst snd bb blen].
    repeat split; try assumption; reflexivity.
Qed.

Lemma run_sim : forall ops v, wf v ->
  spec_run (blen v) (bits (bb v)) ops = (bits (bb (fst (run v ops))), snd (run v ops)) /\
  wf (fst (run v ops)) /\ blen (fst (run v ops)) = blen v.
Proof.
  induction ops as [|o ops IH]; intros v Hwf; cbn [run spec_run].
  - cbn [fst snd]. split; [reflexivity | split; [exact Hwf | reflexivity]].
  - destruct (step_sim v o Hwf) as (Hs & Hwf' & Hl' & _).
    rewrite Hs. destruct (step v o) as [v1 x] eqn:Est. cbn [fst snd] in *.
    destruct (IH v1 Hwf') as (Hr & Hwf'' & Hl''). rewrite Hl' in Hr. rewrite Hr.
    destruct (run v1 ops) as [v2 xs]. cbn [fst snd] in *.
    split; [reflexivity | split; [exact Hwf'' | lia]].
Qed.

(** * the defect of the code before the repair *)

Lemma equals_orig_defect :
  let v := mkbv 9 [255; 1; 0; 0]%N in
  wf v /\ forallb (fun c => c) (abs v) = true /\ equals_orig v = Ok false /\ equals v = Ok true.
Proof. cbn zeta. split; [|vm_compute; auto]. apply wf_intro; [cbn; lia|]. repeat constructor. Qed.

(** * statements used by Props.v *)

Lemma nth_abs v j : (j < Z.to_nat (blen v))%nat -> nth j (abs v) false = nth j (bits (bb v)) false.
Proof. intros Hj. unfold abs. now apply nth_firstn. Qed.

Lemma abs_length v : wf v -> length (abs v) = Z.to_nat (blen v).
Proof. intros (Hpos & Hle & _). unfold abs. rewrite firstn_length, bits_length. lia. Qed.

Lemma firstn_upd {A} (l : list A) n i a : firstn n (upd l i a) = upd (firstn n l) i a.
Proof.
  revert n i; induction l as [|x l IH]; intros [|n] [|i]; cbn [upd firstn]; try reflexivity.
  now rewrite IH.
Qed.

(** get/set: the vector is the array [abs v]; reading an index below [len]
    returns the cell, writing replaces exactly that cell, nothing panics *)
Lemma get_set_thm v i val : wf v -> 0 <= i < blen v ->
  get v i = Ok (nth (Z.to_nat i) (abs v) false) /\
  exists v', set v i val = Ok v' /\ wf v' /\ len v' = len v /\ length (bytes v') = length (bytes v) /\
             abs v' = upd (abs v) (Z.to_nat i) val /\
             (forall j, 0 <= j < blen v -> get v' j = Ok (if j =? i then val else nth (Z.to_nat j) (abs v) false)).
Proof.
  intros Hwf Hi. pose proof Hwf as (Hpos & Hle & Hb).
  split; [rewrite get_in by lia; now rewrite nth_abs by lia|].
  destruct (set_in v i val Hb ltac:(lia)) as (b' & Hset & Hl' & Hb' & Hbits).
  exists (mkbv (blen v) b'). split; [exact Hset|].
  assert (Hwf' : wf (mkbv (blen v) b')) by (apply wf_intro; [lia | assumption]).
  split; [exact Hwf'|]. split; [reflexivity|]. split; [exact Hl'|]. split.
  - unfold abs; cbn [blen bb]. rewrite Hbits. apply firstn_upd.
  - intros j Hj. rewrite get_in by (cbn [bb]; lia). cbn [bb]. rewrite Hbits, nth_upd, bits_length. f_equal.
    destruct (Z.eqb_spec j i) as [->|Hne].
    + rewrite Nat.eqb_refl. destruct (Nat.ltb_spec (Z.to_nat i) (8 * length (bb v))); [reflexivity | lia].
    + replace (Z.to_nat j =? Z.to_nat i)%nat with false by (symmetry; apply Nat.eqb_neq; lia).
      cbn [andb]. now rewrite nth_abs by lia.
Qed.

(** masks act on the whole backing array *)
Lemma masks_thm v m : wf v ->
  (length m = length (bytes v) ->
     exists v1 v2, set_bytes v m = Ok v1 /\ unset_bytes v m = Ok v2 /\ wf v1 /\ wf v2 /\
       len v1 = len v /\ len v2 = len v /\
       bits (bytes v1) = arr_mask true (bits (bytes v)) (bits m) /\
       bits (bytes v2) = arr_mask false (bits (bytes v)) (bits m)) /\
  (length m <> length (bytes v) -> set_bytes v m = Err /\ unset_bytes v m = Err).
Proof.
  intros Hwf. pose proof Hwf as (Hpos & Hle & Hb). unfold bytes, len. split.
  - intros Hl.
    destruct (set_bytes_gen_ok true v m Hb Hl) as (b1 & H1 & Hl1 & Hb1 & Hbits1).
    destruct (set_bytes_gen_ok false v m Hb Hl) as (b2 & H2 & Hl2 & Hb2 & Hbits2).
    exists (mkbv (blen v) b1), (mkbv (blen v) b2). cbn [bb blen].
    repeat split; try assumption; try (apply wf_intro; [lia | assumption]).
  - intros Hl. split; now apply set_bytes_gen_err.
Qed.

(** cell-wise reading of a mask operation *)
Lemma arr_mask_cell val a m j : length a = length m -> (j < length a)%nat ->
  nth j (arr_mask val a m) false = if nth j m false then val else nth j a false.
Proof. apply nth_arr_mask. Qed.

Lemma roundtrip_thm v extra : wf v -> Forall isbyte extra ->
  pack (length (bytes v)) (bits (bytes v)) = bytes v /\
  new_from_bytes (bytes v) (len v) = Ok v /\
  exists v', new_from_bytes (bytes v ++ extra) (len v) = Ok v' /\ wf v' /\ abs v' = abs v /\
             equals v' = equals v.
Proof.
  intros Hwf He. pose proof Hwf as (Hpos & Hle & Hb). unfold bytes, len.
  split; [apply pack_bits; [assumption | lia]|].
  split; [rewrite new_from_bytes_ok by lia; now destruct v|].
  exists (mkbv (blen v) (bb v ++ extra)).
  assert (Hwf' : wf (mkbv (blen v) (bb v ++ extra))).
  { apply wf_intro; [rewrite app_length; lia | apply Forall_app; split; assumption]. }
  split; [apply new_from_bytes_ok; rewrite app_length; lia|]. split; [exact Hwf'|].
  assert (Habs : abs (mkbv (blen v) (bb v ++ extra)) = abs v).
  { unfold abs; cbn [blen bb]. unfold bits. rewrite flat_map_app. fold (bits (bb v)) (bits extra).
    rewrite firstn_app. replace (Z.to_nat (blen v) - length (bits (bb v)))%nat with 0%nat by (rewrite bits_length; lia).
    cbn [firstn]. apply app_nil_r. }
  split; [exact Habs|]. now rewrite !equals_spec, Habs by assumption.
Qed.

(** decoding an encoded array gives the array back, for every array *)
Lemma decode_encode (a : list bool) :
  let k := ((length a + 7) / 8)%nat in
  let padded := a ++ repeat false (8 * k - length a) in
  a <> [] ->
  exists v, new_from_bytes (pack k padded) (Z.of_nat (length a)) = Ok v /\ wf v /\ abs v = a.
Proof.
  intros k padded Hne.
  assert (Hla : (1 <= length a)%nat) by (destruct a; [contradiction | cbn; lia]).
  assert (Hlp : length padded = (8 * k)%nat).
  { unfold padded. rewrite app_length, repeat_length. unfold k. lia. }
  destruct (bits_pack k padded k Hlp (le_n k)) as (Hbits & Hby & Hlen).
  exists (mkbv (Z.of_nat (length a)) (pack k padded)).
  assert (Hr : 0 < Z.of_nat (length a) <= 8 * Z.of_nat (length (pack k padded))) by (rewrite Hlen; unfold k; lia).
  split; [now apply new_from_bytes_ok|]. split; [now apply wf_intro|].
  unfold abs; cbn [blen bb]. rewrite Hbits, Nat2Z.id. unfold padded. now apply firstn_app_exact.
Qed.

Lemma sequences_thm b l v ops : Forall isbyte b -> new_from_bytes b l = Ok v ->
  spec_run l (bits b) ops = (bits (bytes (fst (run v ops))), snd (run v ops)) /\
  wf (fst (run v ops)) /\ len (fst (run v ops)) = l.
Proof.
  intros Hb Hnew. apply new_from_bytes_inv in Hnew as [-> Hl].
  assert (Hwf : wf (mkbv l b)) by (now apply wf_intro).
  destruct (run_sim ops (mkbv l b) Hwf) as (Hr & Hwf' & Hl'). cbn [blen bb] in *.
  unfold bytes, len. repeat split; try assumption; apply Hwf'.
Qed.
