(** C39 — model of pkg/bitvector/bitvector.go (with proposed/C39/fix-bitvector-equals.patch
    applied: [Equals] walks the ceil(len/8) bytes that hold the vector, not the whole
    backing slice).  Definitions only; proofs are in Proofs.v.

    Go [int] values (lengths, indices) are [Z]; bytes are [N]; a backing slice is
    [list N].  Go's [/] and [%] on [int] truncate toward zero: [Z.quot]/[Z.rem].
    A run-time panic (index out of range, makeslice with negative length) is the
    explicit outcome [Panic], an [error] return is [Err]. *)
From Coq Require Import List NArith ZArith Bool.
Import ListNotations.
Local Open Scope Z_scope.

Inductive res (A : Type) := Ok (a : A) | Err | Panic.
Arguments Ok {A} a.
Arguments Err {A}.
Arguments Panic {A}.

(** [type BitVector struct { len int; b []byte }] *)
Record bv := mkbv { blen : Z; bb : list N }.

(** [NewFromBytes(b, l)] *)
Definition new_from_bytes (b : list N) (l : Z) : res bv :=
  if l <=? 0 then Err
  else if Z.of_nat (length b) * 8 <? l then Err
  else Ok (mkbv l b).

(** [New(l)]: [make([]byte, n)] panics for n < 0 (l = -8, l <= -16). *)
Definition new_nbytes (l : Z) : Z :=
  if (Z.rem l 8 =? 0) && negb (l =? 0) then Z.quot l 8 else Z.quot l 8 + 1.
Definition new (l : Z) : res bv :=
  let n := new_nbytes l in
  if n <? 0 then Panic else new_from_bytes (repeat 0%N (Z.to_nat n)) l.

(** slice indexing [b[bi]] with a Go [int] index *)
Definition idx (b : list N) (bi : Z) : option N :=
  if bi <? 0 then None else nth_error b (Z.to_nat bi).

(** [0x1 << uint(i%8)] evaluated in type [byte] (the constant takes the type of
    the other operand of [&] / [^=]).  For a negative remainder the conversion to
    [uint]/[uint8] gives a shift count >= 8 and the byte result is 0. *)
Definition mask (i : Z) : N :=
  let r := Z.rem i 8 in
  if r <? 0 then 0%N else N.shiftl 1 (Z.to_N r).

(** [Get(i)] *)
Definition get (v : bv) (i : Z) : res bool :=
  match idx (bb v) (Z.quot i 8) with
  | None => Panic
  | Some x => Ok (negb (N.land x (mask i) =? 0)%N)
  end.

Fixpoint upd {A} (l : list A) (n : nat) (a : A) : list A :=
  match l, n with
  | [], _ => []
  | _ :: t, O => a :: t
  | x :: t, S n' => x :: upd t n' a
  end.

(** [set(i, v)]: [cv := Get(i); if cv != v { b[bi] ^= 0x1 << uint8(i%8) }] *)
Definition set (v : bv) (i : Z) (val : bool) : res bv :=
  match get v i with
  | Ok cv =>
      if Bool.eqb cv val then Ok v
      else
        match idx (bb v) (Z.quot i 8) with
        | Some x => Ok (mkbv (blen v) (upd (bb v) (Z.to_nat (Z.quot i 8)) (N.lxor x (mask i))))
        | None => Panic
        end
  | _ => Panic
  end.

(** the loop shared by [SetBytes]/[UnsetBytes]:
    [for i := 0; i < len(bv.b)*8; i++ { if bs[i/8]&(0x01<<uint(i%8)) > 0 { bv.set(i, val) } }] *)
Fixpoint mask_loop (val : bool) (bs : list N) (v : bv) (i : nat) (fuel : nat) : res bv :=
  match fuel with
  | O => Ok v
  | S f =>
      match idx bs (Z.quot (Z.of_nat i) 8) with
      | None => Panic
      | Some m =>
          if (0 <? N.land m (mask (Z.of_nat i)))%N then
            match set v (Z.of_nat i) val with
            | Ok v' => mask_loop val bs v' (S i) f
            | _ => Panic
            end
          else mask_loop val bs v (S i) f
      end
  end.

Definition set_bytes_gen (val : bool) (v : bv) (bs : list N) : res bv :=
  if negb (Nat.eqb (length bs) (length (bb v))) then Err
  else mask_loop val bs v 0 (length (bb v) * 8).
Definition set_bytes := set_bytes_gen true.
Definition unset_bytes := set_bytes_gen false.

(** [Equals] (all bits set), repaired.  Inner loop on the last, partial byte:
    [for length > 0 { length--; if b[i]&(0x01<<uint(length%8)) == 0 { return false } }] *)
Fixpoint low_bits_set (x : N) (length : nat) : bool :=
  match length with
  | O => true
  | S k => if (N.land x (mask (Z.of_nat k)) =? 0)%N then false else low_bits_set x k
  end.

Fixpoint eq_loop (b : list N) (l : nat) (length : Z) (i : nat) (fuel : nat) : res bool :=
  match fuel with
  | O => Ok true
  | S f =>
      if negb (length =? 0) && Nat.eqb i (l - 1) then
        match nth_error b i with
        | None => if 0 <? length then Panic else eq_loop b l length (S i) f
        | Some x =>
            if low_bits_set x (Z.to_nat length) then eq_loop b l (Z.min length 0) (S i) f
            else Ok false
        end
      else
        match nth_error b i with
        | None => Panic
        | Some x => if (x =? 255)%N then eq_loop b l length (S i) f else Ok false
        end
  end.

(** [l := (bv.len + 7) / 8] (the repair; before it: [l := len(bv.b)]) *)
Definition equals_l (v : bv) : nat := Z.to_nat (Z.quot (blen v + 7) 8).
Definition equals (v : bv) : res bool :=
  eq_loop (bb v) (equals_l v) (Z.rem (blen v) 8) 0 (equals_l v).
(** nil receiver: [if bv == nil { return false }] *)
Definition equals_ptr (p : option bv) : res bool :=
  match p with None => Ok false | Some v => equals v end.

(** the code before the repair, kept to state the defect (Proofs.v, [equals_orig_defect]) *)
Definition equals_orig (v : bv) : res bool :=
  eq_loop (bb v) (length (bb v)) (Z.rem (blen v) 8) 0 (length (bb v)).

Definition bytes (v : bv) : list N := bb v.
Definition len (v : bv) : Z := blen v.

(** ---- operation sequences (what the harness drives) ---- *)

Inductive op :=
| OGet (i : Z) | OSet (i : Z) | OUnset (i : Z)
| OSetBytes (m : list N) | OUnsetBytes (m : list N)
| OEquals | OBytes | OLen
| ORoundtrip.   (* v := NewFromBytes(copy of v.Bytes(), v.Len()), continue with the decoded vector *)

Inductive obs := VUnit | VBool (b : bool) | VErr | VPanic | VBytes (l : list N) | VInt (z : Z).

(** a panicking or failing call leaves the vector as it was (the panic is raised
    by the index expression of [Get], before any write) *)
Definition step (v : bv) (o : op) : bv * obs :=
  match o with
  | OGet i => (v, match get v i with Ok b => VBool b | _ => VPanic end)
  | OSet i => match set v i true with Ok v' => (v', VUnit) | _ => (v, VPanic) end
  | OUnset i => match set v i false with Ok v' => (v', VUnit) | _ => (v, VPanic) end
  | OSetBytes m => match set_bytes v m with Ok v' => (v', VUnit) | Err => (v, VErr) | Panic => (v, VPanic) end
  | OUnsetBytes m => match unset_bytes v m with Ok v' => (v', VUnit) | Err => (v, VErr) | Panic => (v, VPanic) end
  | OEquals => (v, match equals v with Ok b => VBool b | _ => VPanic end)
  | OBytes => (v, VBytes (bytes v))
  | OLen => (v, VInt (len v))
  | ORoundtrip => match new_from_bytes (bytes v) (len v) with Ok v' => (v', VUnit) | Err => (v, VErr) | Panic => (v, VPanic) end
  end.

Fixpoint run (v : bv) (ops : list op) : bv * list obs :=
  match ops with
  | [] => (v, [])
  | o :: t => let '(v', x) := step v o in let '(v'', xs) := run v' t in (v'', x :: xs)
  end.

(** ---- the specification object: a boolean array ---- *)

Definition byte_bits (x : N) : list bool := map (fun k => N.testbit x (N.of_nat k)) (seq 0 8).
(** the array a backing slice stands for, LSB-first inside each byte *)
Definition bits (b : list N) : list bool := flat_map byte_bits b.
(** the vector proper: the first [len] cells *)
Definition abs (v : bv) : list bool := firstn (Z.to_nat (blen v)) (bits (bb v)).

(** packing eight cells into a byte / an array into bytes (inverse of [bits]) *)
Fixpoint byte_of (l : list bool) : N :=
  match l with [] => 0%N | c :: t => ((if c then 1 else 0) + 2 * byte_of t)%N end.
Fixpoint pack (fuel : nat) (a : list bool) : list N :=
  match fuel with
  | O => []
  | S f => match a with [] => [] | _ => byte_of (firstn 8 a) :: pack f (skipn 8 a) end
  end.

Definition isbyte (x : N) : Prop := (x < 256)%N.
(** invariant of every value the constructors return *)
Definition wf (v : bv) : Prop :=
  0 < blen v /\ blen v <= 8 * Z.of_nat (length (bb v)) /\ Forall isbyte (bb v).

(** reference semantics of the operations on a boolean array [a] (whole backing)
    of which the first [l] cells are the vector *)
Definition in_range (a : list bool) (i : Z) : bool := (0 <=? i) && (i <? Z.of_nat (length a)).
Definition arr_set (a : list bool) (i : Z) (val : bool) : list bool * obs :=
  if in_range a i then (upd a (Z.to_nat i) val, VUnit)
  else if (-8 <? i) && (i <? 0) && negb (Nat.eqb (length a) 0) then (a, VUnit)   (* outside the property: no effect *)
  else (a, VPanic).
Definition arr_mask (val : bool) (a m : list bool) : list bool :=
  map (fun p : bool * bool => if snd p then val else fst p) (combine a m).

Definition spec_step (l : Z) (a : list bool) (o : op) : list bool * obs :=
  match o with
  | OGet i =>
      (a, if in_range a i then VBool (nth (Z.to_nat i) a false)
          else if (-8 <? i) && (i <? 0) && negb (Nat.eqb (length a) 0) then VBool false else VPanic)
  | OSet i => arr_set a i true
  | OUnset i => arr_set a i false
  | OSetBytes m => if Nat.eqb (8 * length m) (length a) then (arr_mask true a (bits m), VUnit) else (a, VErr)
  | OUnsetBytes m => if Nat.eqb (8 * length m) (length a) then (arr_mask false a (bits m), VUnit) else (a, VErr)
  | OEquals => (a, VBool (forallb (fun c => c) (firstn (Z.to_nat l) a)))
  | OBytes => (a, VBytes (pack (length a) a))
  | OLen => (a, VInt l)
  | ORoundtrip => (a, VUnit)
  end.

Fixpoint spec_run (l : Z) (a : list bool) (ops : list op) : list bool * list obs :=
  match ops with
  | [] => (a, [])
  | o :: t => let '(a', x) := spec_step l a o in let '(a'', xs) := spec_run l a' t in (a'', x :: xs)
  end.
