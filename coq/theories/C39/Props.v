(** C39 — property theorems only.  The model (Model.v) is the code of
    pkg/bitvector/bitvector.go with proposed/C39/fix-bitvector-equals.patch applied.
    A vector [v] stands for the boolean array [abs v] (its first [len v] cells of
    [bits (bytes v)], LSB-first in each byte); [wf] is the invariant of everything
    [New]/[NewFromBytes] return: 0 < len <= 8*|backing|, bytes < 256 — the backing
    slice may be longer than needed. *)
From Coq Require Import List NArith ZArith Bool.
Import ListNotations.
Require Import Aurora.C39.Model Aurora.C39.Proofs.
Local Open Scope Z_scope.

(** [New(l)] is the all-false array of length l, for every l >= 1 (no upper bound) *)
Theorem C39_new : forall l, 1 <= l ->
  let v := mkbv l (repeat 0%N (Z.to_nat ((l + 7) / 8))) in
  new l = Ok v /\ wf v /\ abs v = repeat false (Z.to_nat l).
Proof. exact new_ok. Qed.
Print Assumptions C39_new.

(** reading returns the cell; setting/clearing replaces exactly that cell; no panic *)
Theorem C39_get_set : forall v i val, wf v -> 0 <= i < len v ->
  get v i = Ok (nth (Z.to_nat i) (abs v) false) /\
  exists v', set v i val = Ok v' /\ wf v' /\ len v' = len v /\ length (bytes v') = length (bytes v) /\
             abs v' = upd (abs v) (Z.to_nat i) val /\
             (forall j, 0 <= j < len v -> get v' j = Ok (if j =? i then val else nth (Z.to_nat j) (abs v) false)).
Proof. exact get_set_thm. Qed.
Print Assumptions C39_get_set.

(** merging / clearing from a byte mask, over the whole backing array:
    cell j becomes true (resp. false) where the mask has cell j set, else is kept;
    a mask of another length is an error and changes nothing *)
Theorem C39_masks : forall v m, wf v ->
  (length m = length (bytes v) ->
     exists v1 v2, set_bytes v m = Ok v1 /\ unset_bytes v m = Ok v2 /\ wf v1 /\ wf v2 /\
       len v1 = len v /\ len v2 = len v /\
       bits (bytes v1) = arr_mask true (bits (bytes v)) (bits m) /\
       bits (bytes v2) = arr_mask false (bits (bytes v)) (bits m)) /\
  (length m <> length (bytes v) -> set_bytes v m = Err /\ unset_bytes v m = Err).
Proof. exact masks_thm. Qed.
Print Assumptions C39_masks.

(** the all-bits-set test is exactly "every cell of the array is true", whatever the backing length *)
Theorem C39_all_set : forall v, wf v -> equals v = Ok (forallb (fun c => c) (abs v)).
Proof. exact equals_spec. Qed.
Print Assumptions C39_all_set.

(** Bytes() is the packed array; decoding it (also with extra trailing bytes) gives the same
    array and the same all-set answer; and every non-empty array survives encode/decode *)
Theorem C39_roundtrip :
  (forall v extra, wf v -> Forall isbyte extra ->
     pack (length (bytes v)) (bits (bytes v)) = bytes v /\
     new_from_bytes (bytes v) (len v) = Ok v /\
     exists v', new_from_bytes (bytes v ++ extra) (len v) = Ok v' /\ wf v' /\ abs v' = abs v /\
                equals v' = equals v) /\
  (forall a : list bool, a <> [] ->
     let k := ((length a + 7) / 8)%nat in
     exists v, new_from_bytes (pack k (a ++ repeat false (8 * k - length a))) (Z.of_nat (length a)) = Ok v /\
               wf v /\ abs v = a).
Proof. exact (conj roundtrip_thm decode_encode). Qed.
Print Assumptions C39_roundtrip.

(** all operation sequences (any indices, any masks, reads, all-set tests, re-decoding)
    on any constructed vector return what the boolean-array reference returns, call by call *)
Theorem C39_sequences : forall b l v ops, Forall isbyte b -> new_from_bytes b l = Ok v ->
  spec_run l (bits b) ops = (bits (bytes (fst (run v ops))), snd (run v ops)) /\
  wf (fst (run v ops)) /\ len (fst (run v ops)) = l.
Proof. exact sequences_thm. Qed.
Print Assumptions C39_sequences.

(** non-vacuity, and the witness of F-bitvector-equals: 9 bits over a 4-byte slice *)
Example C39_hyps_satisfiable :
  let v := mkbv 9 [255; 1; 0; 0]%N in
  wf v /\ forallb (fun c => c) (abs v) = true /\ equals_orig v = Ok false /\ equals v = Ok true.
Proof. exact equals_orig_defect. Qed.
