(** C23 — the answers do not depend on the order in which the connected-peer index is walked.
    ClosestPeer / ClosestPeers iterate k.connectedPeers with EachBinRev; the property speaks of
    "the connected peer nearest to the target", i.e. of the SET of connected peers.  Here: for
    two nodes that differ only by a permutation of [k_conn], both functions answer the same. *)
From Coq Require Import List NArith ZArith Bool Lia Arith Sorted Permutation.
Import ListNotations.
Require Import Aurora.C20.Model Aurora.C23.Model Aurora.C23.Proofs.
Local Open Scope N_scope.

Definition with_conn (k : kad) (l : list addr) : kad :=
  {| k_base := k_base k; k_self_public := k_self_public k; k_conn := l; k_unreach := k_unreach k |}.

Lemma eligible_with_conn k l fr skip p : eligible (with_conn k l) fr skip p = eligible k fr skip p.
Proof. reflexivity. Qed.
Lemma self_eligible_with_conn k l inc : self_eligible (with_conn k l) inc = self_eligible k inc.
Proof. reflexivity. Qed.

Section Perm.
  Variable k : kad.
  Variable target : addr.
  Variable fr : bool.
  Variable L : nat.
  Variable l' : list addr.
  Hypothesis Lpos : (0 < L)%nat.
  Hypothesis Htarget : dom L target.
  Hypothesis Hconn : Forall (dom L) (k_conn k).
  Hypothesis Hbase : dom L (k_base k).
  Hypothesis Hself : ~ In (k_base k) (k_conn k).
  Hypothesis Hperm : Permutation (k_conn k) l'.

  Let k' := with_conn k l'.

  Lemma Hconn' : Forall (dom L) (k_conn k').
  Proof. cbn. rewrite Forall_forall in *. intros x Hx. apply Hconn. now apply (Permutation_in x (Permutation_sym Hperm)). Qed.
  Lemma Hself' : ~ In (k_base k') (k_conn k').
  Proof. cbn. intros Hin. apply Hself. now apply (Permutation_in _ (Permutation_sym Hperm)). Qed.

  Lemma in_iff x : In x (k_conn k) <-> In x l'.
  Proof. split; [apply (Permutation_in x Hperm) | apply (Permutation_in x (Permutation_sym Hperm))]. Qed.

  Lemma nil_iff : k_conn k = [] <-> l' = [].
  Proof.
    split; intros E.
    - rewrite E in Hperm. now apply Permutation_nil.
    - rewrite E in Hperm. now apply Permutation_nil, Permutation_sym.
  Qed.

  Lemma closest_peer_perm inc skip :
    closest_peer k' target inc fr skip = closest_peer k target inc fr skip.
  Proof.
    destruct (closest_peer k target inc fr skip) as [p| |] eqn:E.
    - apply (found_iff k target fr L Lpos Htarget Hconn Hbase Hself) in E as (Hin & He & Hmin & Hlt).
      apply (found_iff k' target fr L Lpos Htarget Hconn' Hbase Hself').
      unfold is_nearest in *. cbn [k_conn k' with_conn]. repeat split.
      + now apply in_iff.
      + exact He.
      + intros q Hq Heq. apply Hmin; [now apply in_iff | exact Heq].
      + exact Hlt.
    - apply (not_found_iff k target fr L Lpos Htarget Hconn Hbase Hself) in E.
      apply (not_found_iff k' target fr L Lpos Htarget Hconn' Hbase Hself').
      unfold nothing_eligible in *. cbn [k_conn k' with_conn].
      destruct E as [E|[Hs Hall]]; [left; now apply nil_iff | right; split; [exact Hs|]].
      intros q Hq. apply Hall. now apply in_iff.
    - apply (want_self_iff k target fr L Lpos Htarget Hconn Hbase Hself) in E as (Hne & Hs & Hall).
      apply (want_self_iff k' target fr L Lpos Htarget Hconn' Hbase Hself').
      unfold self_nearest in *. cbn [k_conn k' with_conn]. repeat split.
      + intros E. apply Hne. now apply nil_iff.
      + exact Hs.
      + intros q Hq Heq. apply Hall; [now apply in_iff | exact Heq].
  Qed.

  Lemma closest_peers_loop_perm fuel : forall skip out,
    closest_peers_loop k' target fr fuel skip out = closest_peers_loop k target fr fuel skip out.
  Proof.
    induction fuel as [|n IH]; intros skip out; cbn [closest_peers_loop]; [reflexivity|].
    rewrite closest_peer_perm.
    destruct (closest_peer k target false fr skip) as [p| |]; [apply IH | reflexivity | apply IH].
  Qed.

  Lemma closest_peers_perm limit skip :
    closest_peers k' target limit fr skip = closest_peers k target limit fr skip.
  Proof. unfold closest_peers. apply closest_peers_loop_perm. Qed.
End Perm.
