(** C23 — correspondence: one case is one real kademlia.Kad (base address, own reachability,
    connected peers in the order EachPeerRev visits them, the connected peers whose
    reachability was not reported public) with a list of ClosestPeer / ClosestPeers calls and
    what they returned. *)
From Coq Require Import List NArith ZArith Bool.
Import ListNotations.
Require Import Aurora.Base.Corr Aurora.C20.Model.
Require Export Aurora.C23.Model.
Local Open Scope N_scope.

Inductive obs := OFound (p : addr) | ONotFound | OWantSelf | OOtherError | OPanicked.

Inductive query :=
| QOne (target : addr) (include_self filter_reach : bool) (skip : list addr) (o : obs)
| QMany (target : addr) (limit : Z) (filter_reach : bool) (skip : list addr) (o : option (list addr)).  (* None: error/panic *)

Inductive case :=
| CKad (base : addr) (self_public : bool) (conn unreach : list addr) (qs : list query).

Definition obs_of (r : result) : obs :=
  match r with Found p => OFound p | NotFound => ONotFound | WantSelf => OWantSelf end.
Definition obs_eqb (a b : obs) : bool :=
  match a, b with
  | OFound p, OFound q => addr_eqb p q
  | ONotFound, ONotFound | OWantSelf, OWantSelf | OOtherError, OOtherError | OPanicked, OPanicked => true
  | _, _ => false
  end.

Definition check_query (k : kad) (q : query) : bool :=
  match q with
  | QOne t inc fr skip o => obs_eqb (obs_of (closest_peer k t inc fr skip)) o
  | QMany t limit fr skip o => option_eqb (list_eqb addr_eqb) (Some (closest_peers k t limit fr skip)) o
  end.

Definition mk (c : case) : kad * list query :=
  match c with CKad base pub conn unreach qs =>
    ({| k_base := base; k_self_public := pub; k_conn := conn; k_unreach := unreach |}, qs) end.

Definition check_case (c : case) : bool := let '(k, qs) := mk c in forallb (check_query k) qs.

(** index of the first disagreeing query and the model's answer(s) to it *)
Definition explain_case (c : case) : option (nat * obs * list addr) :=
  let '(k, qs) := mk c in
  match mismatch_idx (check_query k) qs with
  | [] => None
  | i :: _ =>
      match nth_error qs i with
      | Some (QOne t inc fr skip _) => Some (i, obs_of (closest_peer k t inc fr skip), [])
      | Some (QMany t limit fr skip _) => Some (i, ONotFound, closest_peers k t limit fr skip)
      | None => None
      end
  end.
