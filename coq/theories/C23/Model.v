(** C23 — model of Kad.ClosestPeer / Kad.ClosestPeers (pkg/topology/kademlia/kademlia.go).
    Definitions only.  The XOR metric, [closer] (= boson.Address.Closer) and [distance_cmp]
    are those of the C20 model (read-only import).

    What the two functions read from the Kad:
      - [k_base]         k.base
      - [k_self_public]  k.reachability == p2p.ReachabilityStatusPublic
      - [k_conn]         the connected peers in the order k.connectedPeers.EachBinRev visits them
                         (the theorems hold for EVERY order; the correspondence feeds the observed one)
      - [k_unreach]      the connected peers for which k.peerFilter answers true ("not reachable")
    boson.ZeroAddress is the address with no bytes; IsZero compares with it. *)
From Coq Require Import List NArith ZArith Bool.
Import ListNotations.
Require Import Aurora.C20.Model.
Local Open Scope N_scope.

Definition addr := list N.

Fixpoint addr_eqb (a b : addr) : bool :=
  match a, b with
  | [], [] => true
  | x :: a', y :: b' => (x =? y) && addr_eqb a' b'
  | _, _ => false
  end.

Definition mem (a : addr) (l : list addr) : bool := existsb (addr_eqb a) l.

Definition is_zero (a : addr) : bool := match a with [] => true | _ => false end.

Record kad := { k_base : addr; k_self_public : bool; k_conn : list addr; k_unreach : list addr }.

Inductive result := Found (p : addr) | NotFound | WantSelf.

(** the callback handed to EachPeerRev, including the reachability filter that EachPeerRev
    applies first; [Closer]'s error (length mismatch) is dropped by the code: not closer *)
Definition scan_step (k : kad) (target : addr) (filter_reach : bool) (skip : list addr) (closest peer : addr) : addr :=
  if filter_reach && mem peer (k_unreach k) then closest
  else if mem peer skip then closest
  else if is_zero closest then peer
  else match closer peer target closest with Some true => peer | _ => closest end.

Definition closest_peer (k : kad) (target : addr) (include_self filter_reach : bool) (skip : list addr) : result :=
  match k_conn k with
  | [] => NotFound                                       (* connectedPeers.Length() == 0 *)
  | _ =>
      let init := if include_self && k_self_public k then k_base k else [] in
      let c := fold_left (scan_step k target filter_reach skip) (k_conn k) init in
      if is_zero c then NotFound
      else if addr_eqb c (k_base k) then WantSelf
      else Found c
  end.

(** ClosestPeers: [fuel] = number of loop iterations left (limit - i) *)
Fixpoint closest_peers_loop (k : kad) (target : addr) (filter_reach : bool) (fuel : nat) (skip out : list addr) : list addr :=
  match fuel with
  | O => rev out
  | S fuel' =>
      match closest_peer k target false filter_reach skip with
      | NotFound => rev out                                                   (* break *)
      | WantSelf => closest_peers_loop k target filter_reach fuel' skip out   (* continue *)
      | Found p => closest_peers_loop k target filter_reach fuel' (skip ++ [p]) (p :: out)
      end
  end.

Definition closest_peers (k : kad) (target : addr) (limit : Z) (filter_reach : bool) (skip : list addr) : list addr :=
  closest_peers_loop k target filter_reach (Z.to_nat limit) skip [].

(** ---- specification vocabulary ---- *)
Definition dist (target p : addr) : N := be (xor_bytes p target).

Definition eligible (k : kad) (filter_reach : bool) (skip : list addr) (p : addr) : bool :=
  negb (filter_reach && mem p (k_unreach k)) && negb (mem p skip).

Definition self_eligible (k : kad) (include_self : bool) : bool := include_self && k_self_public k.
