(** C23 — property theorems only.  Addresses are byte strings of one common length [L > 0]
    (32 in the running system); the connected list is ANY list of such addresses in ANY
    order (the order in which the peer index is walked is irrelevant), not containing the
    node's own address.  [dist t p] is the XOR distance as a big-endian integer (C20). *)
From Coq Require Import List NArith ZArith Bool Sorted Permutation.
Import ListNotations.
Require Import Aurora.C20.Model Aurora.C23.Model Aurora.C23.Proofs Aurora.C23.Perm.
Local Open Scope N_scope.

(** the standing assumptions on one query *)
Definition well_formed (L : nat) (k : kad) (target : addr) : Prop :=
  (0 < L)%nat /\ dom L target /\ Forall (dom L) (k_conn k) /\ dom L (k_base k) /\ ~ In (k_base k) (k_conn k).

(** "returns the connected peer nearest to the target by XOR distance among those not skipped
    (and reachable, when requested)" — and only when self, if eligible, is not nearer *)
Theorem C23_nearest : forall L k target inc fr skip p, well_formed L k target ->
  (closest_peer k target inc fr skip = Found p <->
   In p (k_conn k) /\ eligible k fr skip p = true /\
   (forall q, In q (k_conn k) -> eligible k fr skip q = true -> dist target p <= dist target q) /\
   (self_eligible k inc = true -> dist target p < dist target (k_base k))).
Proof. intros L k target inc fr skip p (H0 & H1 & H2 & H3 & H4). exact (found_iff k target fr L H0 H1 H2 H3 H4 inc skip p). Qed.
Print Assumptions C23_nearest.

(** "'want self' exactly when self is eligible and strictly nearer" (than every eligible peer);
    the code additionally answers NotFound when nothing at all is connected — the reading of
    DESIGN 9a accepts both answers when no peer is eligible, so that clause is part of the statement *)
Theorem C23_want_self_iff : forall L k target inc fr skip, well_formed L k target ->
  (closest_peer k target inc fr skip = WantSelf <->
   k_conn k <> [] /\ self_eligible k inc = true /\
   forall q, In q (k_conn k) -> eligible k fr skip q = true -> dist target (k_base k) < dist target q).
Proof. intros L k target inc fr skip (H0 & H1 & H2 & H3 & H4). exact (want_self_iff k target fr L H0 H1 H2 H3 H4 inc skip). Qed.
Print Assumptions C23_want_self_iff.

(** "'not found' exactly when no peer is eligible" (and self is not, or nothing is connected) *)
Theorem C23_not_found_iff : forall L k target inc fr skip, well_formed L k target ->
  (closest_peer k target inc fr skip = NotFound <->
   k_conn k = [] \/ (self_eligible k inc = false /\ forall q, In q (k_conn k) -> eligible k fr skip q = false)).
Proof. intros L k target inc fr skip (H0 & H1 & H2 & H3 & H4). exact (not_found_iff k target fr L H0 H1 H2 H3 H4 inc skip). Qed.
Print Assumptions C23_not_found_iff.

(** "Selecting several closest peers returns distinct peers in non-decreasing distance order":
    eligible connected peers, no repetition, sorted, at most [limit] of them, all of them when
    fewer than [limit] come back, and nobody left out is nearer than anybody returned. *)
Theorem C23_n_closest : forall L k target limit fr skip, well_formed L k target ->
  let out := closest_peers k target limit fr skip in
  (forall x, In x out -> In x (k_conn k) /\ eligible k fr skip x = true) /\
  NoDup out /\
  StronglySorted (fun a b => dist target a <= dist target b) out /\
  (length out <= Z.to_nat limit)%nat /\
  ((length out < Z.to_nat limit)%nat -> forall q, In q (k_conn k) -> eligible k fr skip q = true -> In q out) /\
  (forall q x, In q (k_conn k) -> eligible k fr skip q = true -> ~ In q out -> In x out -> dist target x <= dist target q).
Proof. intros L k target limit fr skip (H0 & H1 & H2 & H3 & H4). exact (loop_spec k target fr L H0 H1 H2 H3 H4 (Z.to_nat limit) skip). Qed.
Print Assumptions C23_n_closest.

(** "the connected peer nearest to the target": the answers depend on the SET of connected peers
    only, never on the order in which the peer index happens to be walked (bins, insertion
    history).  [with_conn k l'] is [k] with its connected list replaced by [l']. *)
Theorem C23_order_independent : forall L k target inc fr skip limit l', well_formed L k target ->
  Permutation (k_conn k) l' ->
  closest_peer (with_conn k l') target inc fr skip = closest_peer k target inc fr skip /\
  closest_peers (with_conn k l') target limit fr skip = closest_peers k target limit fr skip.
Proof.
  intros L k target inc fr skip limit l' (H0 & H1 & H2 & H3 & H4) Hp. split.
  - exact (closest_peer_perm k target fr L l' H0 H1 H2 H3 H4 Hp inc skip).
  - exact (closest_peers_perm k target fr L l' H0 H1 H2 H3 H4 Hp limit skip).
Qed.
Print Assumptions C23_order_independent.

(** non-vacuity: a 4-peer node; every branch of the statement occurs *)
Example C23_hyps_satisfiable :
  let base := [0;0;0;1] in let a := [128;0;0;0] in let b := [0;64;0;0] in let c := [0;0;0;9] in let e := [0;0;0;3] in
  let k := {| k_base := base; k_self_public := true; k_conn := [a; b; c; e]; k_unreach := [e] |} in
  well_formed 4 k [0;0;0;2] /\
  closest_peer k [0;0;0;2] false false [] = Found e /\
  closest_peer k [0;0;0;2] false true [] = Found c /\
  closest_peer k [0;0;0;2] true true [] = WantSelf /\
  closest_peer k [0;0;0;2] false true [a; b; c] = NotFound /\
  closest_peers k [0;0;0;2] 3 false [b] = [e; c; a].
Proof.
  cbv zeta. split.
  - split; [repeat constructor|]. split; [split; [reflexivity | repeat constructor]|].
    split; [repeat constructor; vm_compute; reflexivity|]. split; [split; [reflexivity | repeat constructor]|].
    cbn. intros [H|[H|[H|[H|[]]]]]; discriminate.
  - vm_compute. repeat split; reflexivity.
Qed.
