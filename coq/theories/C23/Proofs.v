From Coq Require Import List NArith ZArith Bool Lia Arith Sorted.
From Coq Require Import ZifyBool ZifyNat ZifyN.
Import ListNotations.
Require Import Aurora.C20.Model Aurora.C20.Proofs Aurora.C23.Model.
Local Open Scope N_scope.

Lemma addr_eqb_eq a b : addr_eqb a b = true <-> a = b.
Proof.
  revert b; induction a as [|x a IH]; intros [|y b]; cbn; split; intros Hq; try reflexivity; try discriminate.
  - apply andb_true_iff in Hq as [H1 H2]. apply N.eqb_eq in H1. apply IH in H2. now subst.
  - inversion Hq; subst. apply andb_true_iff; split; [apply N.eqb_refl | now apply IH].
Qed.
Lemma addr_eqb_refl a : addr_eqb a a = true.
Proof. now apply addr_eqb_eq. Qed.
Lemma addr_eqb_neq a b : a <> b -> addr_eqb a b = false.
Proof. intros Hn. destruct (addr_eqb a b) eqn:E; [apply addr_eqb_eq in E; contradiction | reflexivity]. Qed.

Lemma mem_In a l : mem a l = true <-> In a l.
Proof.
  unfold mem. rewrite existsb_exists. split.
  - intros [x [Hin He]]. apply addr_eqb_eq in He. now subst.
  - intros Hin. exists a. split; [exact Hin | apply addr_eqb_refl].
Qed.
Lemma mem_app a l1 l2 : mem a (l1 ++ l2) = mem a l1 || mem a l2.
Proof. unfold mem. apply existsb_app. Qed.

(** addresses of the overlay: [L] bytes *)
Definition dom (L : nat) (a : addr) : Prop := length a = L /\ Forall isbyte a.

Lemma closer_dist L t p c : dom L t -> dom L p -> dom L c ->
  (closer p t c = Some true <-> dist t p < dist t c).
Proof.
  intros [Ht Ft] [Hp Fp] [Hc Fc]. unfold dist.
  apply (closer_to_spec t p c); auto; congruence.
Qed.

Lemma closer_not L t p c : dom L t -> dom L p -> dom L c ->
  closer p t c <> Some true -> dist t c <= dist t p.
Proof.
  intros Ht Hp Hc Hn. destruct (N.lt_ge_cases (dist t p) (dist t c)) as [Hlt|Hge]; [|exact Hge].
  exfalso. apply Hn. now apply (closer_dist L).
Qed.

Lemma dist_inj L t p q : dom L t -> dom L p -> dom L q -> dist t p = dist t q -> p = q.
Proof.
  intros [Ht Ft] [Hp Fp] [Hq Fq] He. unfold dist in He. rewrite !be_be_r in He.
  apply be_r_inj in He.
  - apply (xor_bytes_inj p q t); [congruence | congruence | exact He].
  - rewrite !xor_bytes_length by congruence. congruence.
  - now apply xor_bytes_isbyte.
  - now apply xor_bytes_isbyte.
Qed.

Section Scan.
  Variable k : kad.
  Variable target : addr.
  Variable fr : bool.
  Variable L : nat.
  Hypothesis Lpos : (0 < L)%nat.
  Hypothesis Htarget : dom L target.
  Hypothesis Hconn : Forall (dom L) (k_conn k).
  Hypothesis Hbase : dom L (k_base k).

  Notation d := (dist target).

  Lemma dom_nonzero a : dom L a -> a <> [].
  Proof. intros [Hl _] ->. cbn in Hl. lia. Qed.
  Lemma is_zero_false a : a <> [] -> is_zero a = false.
  Proof. destruct a; [congruence | reflexivity]. Qed.

  Lemma step_ineligible skip acc p : eligible k fr skip p = false -> scan_step k target fr skip acc p = acc.
  Proof.
    unfold eligible, scan_step. intros H. apply andb_false_iff in H as [H|H].
    - apply negb_false_iff in H. now rewrite H.
    - apply negb_false_iff in H. rewrite H. now destruct (fr && mem p (k_unreach k)).
  Qed.

  Lemma step_eligible skip acc p : eligible k fr skip p = true ->
    scan_step k target fr skip acc p =
      if is_zero acc then p else match closer p target acc with Some true => p | _ => acc end.
  Proof.
    unfold eligible, scan_step. intros H. apply andb_true_iff in H as [H1 H2].
    apply negb_true_iff in H1, H2. now rewrite H1, H2.
  Qed.

  (** the scan computes the minimum of the start value and the eligible peers *)
  Lemma scan_spec skip l : forall acc, Forall (dom L) l -> (acc = [] \/ dom L acc) ->
    let c := fold_left (scan_step k target fr skip) l acc in
    (c = acc \/ (In c l /\ eligible k fr skip c = true /\ (acc = [] \/ d c < d acc))) /\
    (acc <> [] -> d c <= d acc) /\
    (forall q, In q l -> eligible k fr skip q = true -> c <> [] /\ d c <= d q) /\
    (c = [] \/ dom L c).
  Proof.
    induction l as [|p l IH]; intros acc Hl Hacc; cbn [fold_left].
    - split; [now left|]. split; [lia|]. split; [intros q []|exact Hacc].
    - inversion Hl as [|? ? Hp Hl']; subst.
      set (acc' := scan_step k target fr skip acc p).
      assert (Hstep : (acc' = acc /\ (eligible k fr skip p = false \/ (acc <> [] /\ d acc <= d p))) \/
                      (acc' = p /\ eligible k fr skip p = true /\ (acc = [] \/ d p < d acc))).
      { unfold acc'. destruct (eligible k fr skip p) eqn:Ee.
        - rewrite step_eligible by exact Ee. destruct Hacc as [->|Hd].
          + cbn. right. auto.
          + rewrite (is_zero_false acc (dom_nonzero acc Hd)).
            destruct (closer p target acc) as [[|]|] eqn:Ec.
            * right. repeat split; auto. right. now apply (closer_dist L).
            * left. split; [reflexivity|]. right. split; [now apply dom_nonzero|].
              apply (closer_not L); auto. congruence.
            * left. split; [reflexivity|]. right. split; [now apply dom_nonzero|].
              apply (closer_not L); auto. congruence.
        - rewrite step_ineligible by exact Ee. left. auto. }
      assert (Hacc' : acc' = [] \/ dom L acc').
      { destruct Hstep as [[-> _]|[-> _]]; auto. }
      specialize (IH acc' Hl' Hacc'). cbv zeta in IH. destruct IH as (I1 & I2 & I3 & I4).
      set (c := fold_left (scan_step k target fr skip) l acc') in *.
      assert (Hc_le_acc' : acc' <> [] -> d c <= d acc') by exact I2.
      repeat split.
      + destruct Hstep as [[E _]|[E [Ee Hlt]]].
        * rewrite E in *. destruct I1 as [->|(Hin & He & Hd)]; [now left|]. right. repeat split; auto. now right.
        * rewrite E in *. right. destruct I1 as [->|(Hin & He & Hd)].
          -- repeat split; auto. now left.
          -- repeat split; auto; [now right|]. destruct Hlt as [->|Hlt]; [now left|]. right.
             destruct Hd as [->|Hd]; [exfalso; now apply (dom_nonzero [] Hp)|]. lia.
      + intros Hnz. destruct Hstep as [[E _]|[E [Ee Hlt]]]; rewrite E in *.
        * now apply I2.
        * destruct Hlt as [->|Hlt]; [congruence|]. specialize (I2 (dom_nonzero p Hp)). lia.
      + destruct H as [<-|Hin].
        * destruct Hstep as [[E [Ee|[Hnz Hle]]]|[E [Ee Hlt]]]; rewrite E in *; try congruence.
          -- destruct I1 as [->|(Hin & _ & _)]; [exact Hnz|].
             rewrite Forall_forall in Hl'. now apply dom_nonzero, Hl'.
          -- destruct I1 as [->|(Hin & _ & _)]; [now apply dom_nonzero|].
             rewrite Forall_forall in Hl'. now apply dom_nonzero, Hl'.
        * now apply (I3 q Hin).
      + destruct H as [<-|Hin].
        * destruct Hstep as [[E [Ee|[Hnz Hle]]]|[E [Ee Hlt]]]; rewrite E in *; try congruence.
          -- specialize (I2 Hnz). lia.
          -- apply I2. now apply dom_nonzero.
        * now apply (I3 q Hin).
      + exact I4.
  Qed.
End Scan.

Section Closest.
  Variable k : kad.
  Variable target : addr.
  Variable fr : bool.
  Variable L : nat.
  Hypothesis Lpos : (0 < L)%nat.
  Hypothesis Htarget : dom L target.
  Hypothesis Hconn : Forall (dom L) (k_conn k).
  Hypothesis Hbase : dom L (k_base k).
  (** a node is not connected to itself *)
  Hypothesis Hnoself : ~ In (k_base k) (k_conn k).

  Notation d := (dist target).

  Definition is_nearest (inc : bool) (skip : list addr) (p : addr) : Prop :=
    In p (k_conn k) /\ eligible k fr skip p = true /\
    (forall q, In q (k_conn k) -> eligible k fr skip q = true -> d p <= d q) /\
    (self_eligible k inc = true -> d p < d (k_base k)).
  Definition self_nearest (inc : bool) (skip : list addr) : Prop :=
    k_conn k <> [] /\ self_eligible k inc = true /\
    forall q, In q (k_conn k) -> eligible k fr skip q = true -> d (k_base k) < d q.
  Definition nothing_eligible (inc : bool) (skip : list addr) : Prop :=
    k_conn k = [] \/ (self_eligible k inc = false /\ forall q, In q (k_conn k) -> eligible k fr skip q = false).

  Lemma closest_peer_cases inc skip :
    (closest_peer k target inc fr skip = NotFound /\ nothing_eligible inc skip) \/
    (closest_peer k target inc fr skip = WantSelf /\ self_nearest inc skip) \/
    (exists p, closest_peer k target inc fr skip = Found p /\ is_nearest inc skip p).
  Proof.
    unfold closest_peer. destruct (k_conn k) as [|p0 l0] eqn:Ec.
    { left. split; [reflexivity|]. now left. }
    rewrite <- Ec in *.
    fold (self_eligible k inc).
    set (init := if self_eligible k inc then k_base k else []).
    assert (Hinit : init = [] \/ dom L init) by (unfold init; destruct (self_eligible k inc); auto).
    pose proof (scan_spec k target fr L Lpos Htarget skip (k_conn k) init Hconn Hinit) as HS.
    cbv zeta in HS. destruct HS as (S1 & S2 & S3 & S4).
    set (c := fold_left (scan_step k target fr skip) (k_conn k) init) in *.
    assert (Hne : k_conn k <> []) by (rewrite Ec; discriminate).
    destruct (self_eligible k inc) eqn:Es; unfold init in *.
    - (* self takes part *)
      assert (Hbnz : k_base k <> []) by (apply (dom_nonzero L Lpos); exact Hbase).
      destruct S1 as [E|(Hin & He & Hd)].
      + right. left. rewrite E, (is_zero_false _ Hbnz), addr_eqb_refl. split; [reflexivity|].
        repeat split; auto. intros q Hq Heq. destruct (S3 q Hq Heq) as [_ Hle]. rewrite E in Hle.
        assert (q <> k_base k) by (intros ->; contradiction).
        assert (d (k_base k) <> d q).
        { intros Hd. apply H. symmetry. apply (dist_inj L target); auto. rewrite Forall_forall in Hconn. now apply Hconn. }
        lia.
      + right. right. exists c.
        assert (Hcd : dom L c) by (rewrite Forall_forall in Hconn; now apply Hconn).
        rewrite (is_zero_false _ (dom_nonzero L Lpos c Hcd)).
        assert (c <> k_base k) by (intros E; rewrite E in Hin; contradiction).
        rewrite (addr_eqb_neq _ _ H). split; [reflexivity|].
        repeat split; auto.
        * intros q Hq Heq. now apply (S3 q Hq Heq).
        * intros _. destruct Hd as [Hd|Hd]; [contradiction | exact Hd].
    - (* self does not take part *)
      destruct S1 as [E|(Hin & He & Hd)].
      + left. rewrite E. cbn. split; [reflexivity|]. right. split; [exact Es|].
        intros q Hq. destruct (eligible k fr skip q) eqn:Eq; [|reflexivity].
        destruct (S3 q Hq Eq) as [Hnz _]. congruence.
      + right. right. exists c.
        assert (Hcd : dom L c) by (rewrite Forall_forall in Hconn; now apply Hconn).
        rewrite (is_zero_false _ (dom_nonzero L Lpos c Hcd)).
        assert (c <> k_base k) by (intros E; rewrite E in Hin; contradiction).
        rewrite (addr_eqb_neq _ _ H). split; [reflexivity|].
        repeat split; auto.
        * intros q Hq Heq. now apply (S3 q Hq Heq).
        * intros Hs. rewrite Es in Hs. discriminate.
  Qed.

  (** the three descriptions exclude one another *)
  Lemma nearest_found inc skip p : closest_peer k target inc fr skip = Found p -> is_nearest inc skip p.
  Proof.
    intros H. destruct (closest_peer_cases inc skip) as [[E _]|[[E _]|[p' [E Hn]]]]; try congruence.
  Qed.

  Lemma not_found_iff inc skip : closest_peer k target inc fr skip = NotFound <-> nothing_eligible inc skip.
  Proof.
    split.
    - intros H. destruct (closest_peer_cases inc skip) as [[_ Hn]|[[E _]|[p' [E _]]]]; auto; congruence.
    - intros Hn. destruct (closest_peer_cases inc skip) as [[E _]|[[_ (Hne & Hs & _)]|[p [_ (Hin & He & _)]]]]; auto; exfalso.
      + destruct Hn as [Hn|[Hn _]]; congruence.
      + destruct Hn as [Hn|[_ Hn]]; [rewrite Hn in Hin; contradiction|]. rewrite (Hn p Hin) in He. discriminate.
  Qed.

  Lemma want_self_iff inc skip : closest_peer k target inc fr skip = WantSelf <-> self_nearest inc skip.
  Proof.
    split.
    - intros H. destruct (closest_peer_cases inc skip) as [[E _]|[[_ Hn]|[p' [E _]]]]; auto; congruence.
    - intros (Hne & Hs & Hall). destruct (closest_peer_cases inc skip) as [[_ Hn]|[[E _]|[p [_ (Hin & He & _ & Hlt)]]]]; auto; exfalso.
      + destruct Hn as [Hn|[Hn _]]; congruence.
      + specialize (Hall p Hin He). specialize (Hlt Hs). lia.
  Qed.

  Lemma found_iff inc skip p : closest_peer k target inc fr skip = Found p <-> is_nearest inc skip p.
  Proof.
    split; [apply nearest_found|].
    intros (Hin & He & Hmin & Hlt).
    destruct (closest_peer_cases inc skip) as [[_ Hn]|[[_ (Hne & Hs & Hall)]|[p' [E (Hin' & He' & Hmin' & _)]]]].
    - exfalso. destruct Hn as [Hn|[_ Hn]]; [rewrite Hn in Hin; contradiction|]. rewrite (Hn p Hin) in He. discriminate.
    - exfalso. specialize (Hall p Hin He). specialize (Hlt Hs). lia.
    - rewrite E. f_equal. rewrite Forall_forall in Hconn.
      apply (dist_inj L target); auto. specialize (Hmin p' Hin' He'). specialize (Hmin' p Hin He). lia.
  Qed.

  (** without self-inclusion the answer is never WantSelf *)
  Lemma no_want_self skip : closest_peer k target false fr skip <> WantSelf.
  Proof. intros H. apply want_self_iff in H as (_ & Hs & _). discriminate. Qed.

  (** * ClosestPeers *)
  Lemma loop_acc fuel : forall skip out,
    closest_peers_loop k target fr fuel skip out = rev out ++ closest_peers_loop k target fr fuel skip [].
  Proof.
    induction fuel as [|n IH]; intros skip out; cbn [closest_peers_loop].
    - now rewrite app_nil_r.
    - destruct (closest_peer k target false fr skip) as [p| |].
      + rewrite (IH (skip ++ [p]) (p :: out)), (IH (skip ++ [p]) [p]). cbn. now rewrite <- app_assoc.
      + now rewrite app_nil_r.
      + apply IH.
  Qed.

  Lemma eligible_snoc skip p q : eligible k fr (skip ++ [p]) q = eligible k fr skip q && negb (addr_eqb q p).
  Proof.
    unfold eligible. rewrite mem_app. cbn. rewrite orb_false_r, negb_orb. now rewrite andb_assoc.
  Qed.

  Lemma loop_spec fuel : forall skip,
    let T := closest_peers_loop k target fr fuel skip [] in
    (forall x, In x T -> In x (k_conn k) /\ eligible k fr skip x = true) /\
    NoDup T /\
    StronglySorted (fun a b => d a <= d b) T /\
    (length T <= fuel)%nat /\
    ((length T < fuel)%nat -> forall q, In q (k_conn k) -> eligible k fr skip q = true -> In q T) /\
    (forall q x, In q (k_conn k) -> eligible k fr skip q = true -> ~ In q T -> In x T -> d x <= d q).
  Proof.
    induction fuel as [|n IH]; intros skip; cbn [closest_peers_loop].
    - cbn. split; [|split; [|split; [|split; [|split]]]]; try constructor; try lia; intros; contradiction.
    - destruct (closest_peer k target false fr skip) as [p| |] eqn:E.
      + apply nearest_found in E as (Hin & He & Hmin & _).
        rewrite (loop_acc n (skip ++ [p]) [p]). cbn [rev app].
        specialize (IH (skip ++ [p])). cbv zeta in IH. destruct IH as (I1 & I2 & I3 & I4 & I5 & I6).
        set (T := closest_peers_loop k target fr n (skip ++ [p]) []) in *.
        assert (HT : forall x, In x T -> In x (k_conn k) /\ eligible k fr skip x = true /\ x <> p).
        { intros x Hx. destruct (I1 x Hx) as [H1 H2]. rewrite eligible_snoc in H2.
          apply andb_true_iff in H2 as [H2 H3]. repeat split; auto. intros ->. now rewrite addr_eqb_refl in H3. }
        split; [|split; [|split; [|split; [|split]]]].
        * intros x [<-|Hx]; [auto|]. destruct (HT x Hx) as (? & ? & ?). auto.
        * constructor; [|exact I2]. intros Hp. destruct (HT p Hp) as (_ & _ & Hn). congruence.
        * constructor; [exact I3|]. rewrite Forall_forall. intros x Hx. destruct (HT x Hx) as (H1 & H2 & _). now apply Hmin.
        * cbn. lia.
        * cbn. intros Hlen q Hq Heq. destruct (list_eq_dec N.eq_dec q p) as [->|Hne]; [now left|]. right.
          apply I5; [lia | exact Hq |]. rewrite eligible_snoc, Heq, (addr_eqb_neq _ _ Hne). reflexivity.
        * intros q x Hq Heq Hnin [<-|Hx]; [now apply Hmin|].
          apply (I6 q x Hq); auto.
          -- rewrite eligible_snoc, Heq. cbn. apply negb_true_iff, addr_eqb_neq. intros ->. apply Hnin. now left.
          -- intros Hq'. apply Hnin. now right.
      + apply not_found_iff in E. cbn. split; [|split; [|split; [|split; [|split]]]]; try constructor; try lia; try (intros; contradiction).
        intros _ q Hq Heq. destruct E as [E|[_ E]]; [rewrite E in Hq; contradiction|]. rewrite (E q Hq) in Heq. discriminate.
      + exfalso. now apply (no_want_self skip).
  Qed.
End Closest.
