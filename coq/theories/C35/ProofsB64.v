(** C35 — base64.StdEncoding: DecodeString (EncodeToString d) = d. *)
From Coq Require Import List NArith ZArith Bool Lia ZifyBool ZifyN.
Import ListNotations.
Require Import Aurora.C35.Model.
Local Open Scope N_scope.
Ltac Zify.zify_post_hook ::= Z.div_mod_to_equations.

Definition isbyte (b : N) : Prop := b < 256.

Definition sextets : list N := map N.of_nat (seq 0 64).

Lemma in_sextets s : s < 64 -> In s sextets.
Proof.
  intros Hs. unfold sextets. rewrite <- (N2Nat.id s). apply in_map. apply in_seq. lia.
Qed.

Lemma b64_char_sweep :
  forallb (fun s => match b64val (b64char s) with Some v => v =? s | None => false end
                    && negb (is_nl (b64char s))) sextets = true.
Proof. vm_compute. reflexivity. Qed.

Lemma b64val_char s : s < 64 -> b64val (b64char s) = Some s.
Proof.
  intros Hs. pose proof (proj1 (forallb_forall _ _) b64_char_sweep s (in_sextets s Hs)) as H.
  apply andb_true_iff in H as [H _]. destruct (b64val (b64char s)) as [v|]; [|discriminate].
  apply N.eqb_eq in H. now subst.
Qed.

Lemma b64char_not_nl s : s < 64 -> is_nl (b64char s) = false.
Proof.
  intros Hs. pose proof (proj1 (forallb_forall _ _) b64_char_sweep s (in_sextets s Hs)) as H.
  apply andb_true_iff in H as [_ H]. now apply negb_true_iff in H.
Qed.

Lemma list_ind3 {A} (P : list A -> Prop) :
  P [] -> (forall a, P [a]) -> (forall a b, P [a; b]) ->
  (forall a b c r, P r -> P (a :: b :: c :: r)) -> forall l, P l.
Proof.
  intros H0 H1 H2 H3. fix IH 1. intros [|a [|b [|c r]]].
  - exact H0.
  - apply H1.
  - apply H2.
  - apply H3. apply IH.
Qed.

Lemma sext_bounds a b c : a < 256 -> b < 256 -> c < 256 ->
  a / 4 < 64 /\ (a mod 4) * 16 + b / 16 < 64 /\ (b mod 16) * 4 + c / 64 < 64 /\ c mod 64 < 64 /\
  (a mod 4) * 16 < 64 /\ (b mod 16) * 4 < 64.
Proof. intros. repeat split; lia. Qed.

Lemma strip_enc l : Forall isbyte l -> strip_nl (b64enc l) = b64enc l.
Proof.
  unfold strip_nl, isbyte. induction l as [| a | a b | a b c r IH] using list_ind3; intros Hl.
  - reflexivity.
  - inversion Hl as [|? ? Ha _]; subst.
    destruct (sext_bounds a 0 0 Ha) as (H1 & _ & _ & _ & H5 & _); try lia.
    cbn [b64enc filter]. rewrite !b64char_not_nl by assumption. reflexivity.
  - inversion Hl as [|? ? Ha Hl']; subst. inversion Hl' as [|? ? Hb _]; subst.
    destruct (sext_bounds a b 0 Ha Hb) as (H1 & H2 & _ & _ & _ & H6); try lia.
    cbn [b64enc filter]. rewrite !b64char_not_nl by assumption. reflexivity.
  - inversion Hl as [|? ? Ha Hl']; subst. inversion Hl' as [|? ? Hb Hl'']; subst.
    inversion Hl'' as [|? ? Hc Hr]; subst.
    destruct (sext_bounds a b c Ha Hb Hc) as (H1 & H2 & H3 & H4 & _ & _).
    cbn [b64enc filter]. rewrite !b64char_not_nl by assumption. cbn [negb]. rewrite IH by assumption. reflexivity.
Qed.

Lemma b64val_pad : b64val pad = None.
Proof. reflexivity. Qed.

Lemma dec_q_enc l : Forall isbyte l -> b64dec_q (b64enc l) = Some l.
Proof.
  unfold isbyte. induction l as [| a | a b | a b c r IH] using list_ind3; intros Hl.
  - reflexivity.
  - inversion Hl as [|? ? Ha _]; subst.
    destruct (sext_bounds a 0 0 Ha) as (H1 & _ & _ & _ & H5 & _); try lia.
    cbn [b64enc b64dec_q]. rewrite !b64val_char by assumption. rewrite b64val_pad.
    cbn [is_nil andb]. rewrite N.eqb_refl. cbn [andb]. f_equal. f_equal. lia.
  - inversion Hl as [|? ? Ha Hl']; subst. inversion Hl' as [|? ? Hb _]; subst.
    destruct (sext_bounds a b 0 Ha Hb) as (H1 & H2 & _ & _ & _ & H6); try lia.
    cbn [b64enc b64dec_q]. rewrite !b64val_char by assumption. rewrite b64val_pad.
    cbn [is_nil andb]. rewrite N.eqb_refl. cbn [andb]. f_equal. f_equal; [lia|]. f_equal. lia.
  - inversion Hl as [|? ? Ha Hl']; subst. inversion Hl' as [|? ? Hb Hl'']; subst.
    inversion Hl'' as [|? ? Hc Hr]; subst.
    destruct (sext_bounds a b c Ha Hb Hc) as (H1 & H2 & H3 & H4 & _ & _).
    cbn [b64enc b64dec_q]. rewrite !b64val_char by assumption. rewrite IH by assumption.
    f_equal. f_equal; [lia|]. f_equal; [lia|]. f_equal. lia.
Qed.

Theorem b64_roundtrip l : Forall isbyte l -> b64dec (b64enc l) = Some l.
Proof. intros Hl. unfold b64dec. rewrite strip_enc by assumption. now apply dec_q_enc. Qed.

(** decoding never yields more bytes than 3/4 of the text: short texts decode to short data *)
Lemma dec_q_length s d : b64dec_q s = Some d -> (4 * length d <= 3 * length s)%nat.
Proof.
  revert d. assert (H : forall n s, (length s <= n)%nat -> forall d, b64dec_q s = Some d -> (4 * length d <= 3 * length s)%nat).
  { induction n as [|n IH]; intros s0 Hn d0.
    - destruct s0; [|simpl in Hn; lia]. simpl. intros H; inversion H. simpl. lia.
    - destruct s0 as [|a [|b [|c [|d rest]]]]; try (simpl; discriminate).
      + simpl. intros H; inversion H. simpl. lia.
      + cbn [b64dec_q]. destruct (b64val a); [|discriminate]. destruct (b64val b); [|discriminate].
        destruct (b64val c).
        * destruct (b64val d).
          -- destruct (b64dec_q rest) as [t|] eqn:Ht; [|discriminate]. intros H; inversion H; subst.
             assert (Hr : (length rest <= n)%nat) by (simpl in Hn; lia).
             specialize (IH rest Hr t Ht). simpl. lia.
          -- destruct (_ && _); [|discriminate]. intros H; inversion H. simpl. lia.
        * destruct (_ && _); [|discriminate]. intros H; inversion H. simpl. lia. }
  intros d. apply (H (length s)). lia.
Qed.
