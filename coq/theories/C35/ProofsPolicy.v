(** C35 — the casbin matcher over the policy table against a declarative
    specification, and strings.Split against concatenation. *)
From Coq Require Import List NArith ZArith Bool Lia.
Import ListNotations.
Require Import Aurora.C35.Model.
Local Open Scope N_scope.

Lemma beqb_eq a b : beqb a b = true <-> a = b.
Proof.
  revert b; induction a as [|x a IH]; intros [|y b]; simpl; split; intros H; try reflexivity; try discriminate.
  - apply andb_true_iff in H as [H1 H2]. apply N.eqb_eq in H1. apply IH in H2. now subst.
  - inversion H; subst. apply andb_true_iff; split; [apply N.eqb_refl | now apply IH].
Qed.

Definition prefix_of (p s : bytes) : Prop := exists r, s = p ++ r.
Definition infix_of (p s : bytes) : Prop := exists a b, s = a ++ p ++ b.

Lemma is_prefix_spec p s : is_prefix p s = true <-> prefix_of p s.
Proof.
  unfold prefix_of. revert s; induction p as [|x p IH]; intros s; simpl.
  - split; eauto.
  - destruct s as [|y s].
    + split; [discriminate|]. intros [r H]; discriminate.
    + rewrite andb_true_iff, N.eqb_eq, IH. split.
      * intros [-> [r ->]]. eauto.
      * intros [r H]. inversion H; subst. eauto.
Qed.

Lemma is_infix_spec p s : is_infix p s = true <-> infix_of p s.
Proof.
  unfold infix_of. induction s as [|c s IH].
  - cbn [is_infix]. rewrite orb_false_r, is_prefix_spec. split.
    + intros [r H]. exists [], r. exact H.
    + intros (a & b & H). destruct a; [|discriminate]. simpl in H. exists b. exact H.
  - cbn [is_infix]. rewrite orb_true_iff, is_prefix_spec, IH. split.
    + intros [[r H]|(a & b & H)].
      * exists [], r. exact H.
      * exists (c :: a), b. simpl. now rewrite H.
    + intros (a & b & H). destruct a as [|c' a].
      * left. exists b. exact H.
      * right. simpl in H. inversion H; subst. eauto.
Qed.

Lemma index_star_app pre post : ~ In star pre -> index_star (pre ++ star :: post) = Some (length pre).
Proof.
  induction pre as [|c pre IH]; intros Hn; simpl.
  - reflexivity.
  - destruct (c =? star) eqn:Hc.
    + apply N.eqb_eq in Hc. exfalso. apply Hn. left; auto.
    + rewrite IH; [reflexivity|]. intros H; apply Hn; right; auto.
Qed.

Lemma index_star_none s : index_star s = None <-> ~ In star s.
Proof.
  induction s as [|c s IH]; simpl.
  - tauto.
  - destruct (c =? star) eqn:Hc.
    + apply N.eqb_eq in Hc. split; [discriminate|]. intros H; exfalso; apply H; left; auto.
    + apply N.eqb_neq in Hc. destruct (index_star s) as [i|]; simpl.
      * split; [discriminate|]. intros H. exfalso.
        assert (Hs : ~ In star s) by (intros Hi; apply H; right; exact Hi).
        apply IH in Hs. discriminate.
      * split; [|reflexivity]. intros _ [H|H]; [congruence|]. now apply (proj1 IH).
Qed.

Lemma index_star_some s i : index_star s = Some i ->
  exists post, s = firstn i s ++ star :: post /\ ~ In star (firstn i s) /\ length (firstn i s) = i.
Proof.
  revert i; induction s as [|c s IH]; intros i; simpl; [discriminate|].
  destruct (c =? star) eqn:Hc.
  - apply N.eqb_eq in Hc. intros H; inversion H; subst. exists s. simpl. auto.
  - apply N.eqb_neq in Hc. destruct (index_star s) as [j|]; [|discriminate]. simpl.
    intros H; inversion H; subst. destruct (IH j eq_refl) as (post & H1 & H2 & H3).
    exists post. simpl. repeat split.
    + f_equal. exact H1.
    + intros [Hx|Hx]; [congruence|contradiction].
    + now rewrite H3.
Qed.

Lemma firstn_len_app {A} (a b : list A) : firstn (length a) (a ++ b) = a.
Proof. induction a as [|x a IH]; simpl; [reflexivity|now rewrite IH]. Qed.
Lemma skipn_len_app {A} (a b : list A) : skipn (length a) (a ++ b) = b.
Proof. induction a as [|x a IH]; simpl; [reflexivity|exact IH]. Qed.

Definition key_match_spec (k1 k2 : bytes) : Prop :=
  (~ In star k2 /\ k1 = k2) \/
  (exists pre post, k2 = pre ++ star :: post /\ ~ In star pre /\ prefix_of pre k1).

Lemma key_match_ok k1 k2 : key_match k1 k2 = true <-> key_match_spec k1 k2.
Proof.
  unfold key_match, key_match_spec. destruct (index_star k2) as [i|] eqn:Hi.
  - destruct (index_star_some _ _ Hi) as (post & H1 & H2 & H3).
    remember (firstn i k2) as pre eqn:Hpre.
    assert (Hiff : (if Nat.ltb i (length k1) then beqb (firstn i k1) pre else beqb k1 pre) = true <-> prefix_of pre k1).
    { unfold prefix_of. destruct (Nat.ltb i (length k1)) eqn:Hl; rewrite beqb_eq.
      - split.
        + intros H. exists (skipn i k1). rewrite <- H. symmetry. apply firstn_skipn.
        + intros [r ->]. rewrite <- H3. apply firstn_len_app.
      - apply Nat.ltb_ge in Hl. split.
        + intros ->. exists []. now rewrite app_nil_r.
        + intros [r ->]. rewrite app_length in Hl. destruct r; [now rewrite app_nil_r|]. simpl in Hl. lia. }
    rewrite Hiff. split.
    + intros Hp. right. exists pre, post. auto.
    + intros [[Hn _]|(pre' & post' & Hk & Hn & Hp)].
      * apply index_star_none in Hn. congruence.
      * pose proof (index_star_app pre' post' Hn) as Hi'. rewrite <- Hk, Hi in Hi'. inversion Hi' as [Hlen].
        assert (Heq : pre = pre').
        { rewrite Hpre, Hlen, Hk. apply firstn_len_app. }
        rewrite Heq. exact Hp.
  - rewrite beqb_eq. apply index_star_none in Hi. split.
    + intros ->. left. auto.
    + intros [[_ H]|(pre & post & Hk & _)]; [exact H|]. exfalso. apply Hi. rewrite Hk. apply in_or_app. right. left. reflexivity.
Qed.

Definition rule_spec (role obj act : bytes) (p : rule) : Prop :=
  (role = r_sub p \/ role = master) /\
  (key_match_spec obj (r_obj p) \/ key_match_spec obj (v1 ++ r_obj p)) /\
  exists a, In a (r_alts p) /\ infix_of a act.

(** some policy line of the role (every line, for "master") has a path
    pattern matching the object (as is or behind /v1) and an alternative
    occurring in the method *)
Definition allowed_spec (role obj act : bytes) : Prop :=
  exists p, In p policies /\ rule_spec role obj act p.

Lemma rule_matches_ok role obj act p : rule_matches role obj act p = true <-> rule_spec role obj act p.
Proof.
  unfold rule_matches, rule_spec, regex_match.
  rewrite !andb_true_iff, !orb_true_iff, !beqb_eq, !key_match_ok, existsb_exists.
  split.
  - intros [[H1 H2] (a & Ha & Hi)]. repeat split; auto. exists a. split; auto. now apply is_infix_spec.
  - intros (H1 & H2 & a & Ha & Hi). repeat split; auto. exists a. split; auto. now apply is_infix_spec.
Qed.

Theorem policy_allows_spec role obj act : policy_allows role obj act = true <-> allowed_spec role obj act.
Proof.
  unfold policy_allows, allowed_spec. rewrite existsb_exists. split.
  - intros (p & Hp & Hm). exists p. split; auto. now apply rule_matches_ok.
  - intros (p & Hp & Hm). exists p. split; auto. now apply rule_matches_ok.
Qed.

(** ---- strings.Split ---- *)

Fixpoint join (sep : bytes) (l : list bytes) : bytes :=
  match l with
  | [] => []
  | x :: r => match r with [] => x | _ :: _ => x ++ sep ++ join sep r end
  end.

Lemma split_go_nonnil sep fuel s cur : split_go sep s cur fuel <> [].
Proof.
  revert s cur; induction fuel as [|f IH]; intros s cur; simpl; [discriminate|].
  destruct s as [|c s']; [discriminate|]. destruct (is_prefix sep (c :: s')); [discriminate|apply IH].
Qed.

Lemma split_go_join sep fuel : forall s cur, join sep (split_go sep s cur fuel) = rev cur ++ s.
Proof.
  induction fuel as [|f IH]; intros s cur; simpl; [reflexivity|].
  destruct s as [|c s']; [simpl; now rewrite app_nil_r|].
  destruct (is_prefix sep (c :: s')) eqn:Hp.
  - apply is_prefix_spec in Hp as [r Hr].
    pose proof (split_go_nonnil sep f (skipn (length sep) (c :: s')) []) as Hnn.
    cbn [join]. destruct (split_go sep (skipn (length sep) (c :: s')) [] f) as [|y l] eqn:Hs; [congruence|].
    rewrite <- Hs, IH. simpl rev. rewrite app_nil_l.
    rewrite Hr. rewrite skipn_len_app. reflexivity.
  - rewrite IH. simpl. now rewrite <- app_assoc.
Qed.

Lemma split_join sep s : join sep (split sep s) = s.
Proof. unfold split. now rewrite split_go_join. Qed.

Lemma split_prefix_head sep s : sep <> [] -> is_prefix sep s = true -> exists r, split sep s = [] :: r.
Proof.
  intros Hne Hp. unfold split. destruct s as [|c s'].
  - destruct sep; [congruence|discriminate].
  - cbn [length split_go]. rewrite Hp. eexists. reflexivity.
Qed.
