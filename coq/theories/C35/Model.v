(** C35 — model of pkg/auth/auth.go (GenerateKey / RefreshKey / Enforce, the
    encrypter, the casbin policy) and pkg/auth/handler.go
    (PermissionCheckHandler).  Definitions only; proofs are in Proofs*.v.

    Strings and byte slices are [list N] (bytes).  Instants are [Z]
    (nanoseconds since the Unix epoch); the clock reads of the code
    ([time.Now()]) are explicit inputs.

    Abstract (Section variables): the AEAD of the encrypter ([seal]/[open_],
    AES-GCM with the md5-hex derived key), and encoding/json on [authRecord]
    ([enc_rec]/[dec_rec]).  Concrete: base64.StdEncoding (encode and the
    non-strict padded decoder that skips CR/LF), the nonce-size slicing of
    [decrypt], the expiry arithmetic (int64 wrap of
    [time.Second * time.Duration(n)]), the expiry test, the casbin matcher
    over the policy table of [applyPolicies] (keyMatch, unanchored regexMatch
    over alternations of literals), and the header parsing / status mapping
    of the HTTP middleware. *)
From Coq Require Import List NArith ZArith Bool String Ascii.
Import ListNotations.
Local Open Scope N_scope.

Definition bytes := list N.

Definition B (s : string) : bytes := map N_of_ascii (list_ascii_of_string s).

Fixpoint beqb (a b : bytes) : bool :=
  match a, b with
  | [], [] => true
  | x :: a', y :: b' => (x =? y) && beqb a' b'
  | _, _ => false
  end.

(** error classes the code can return (what the harness can tell apart) *)
Inductive err :=
| EDecode        (* base64.CorruptInputError *)
| EDecrypt       (* cipher: message authentication failed / malformed ciphertext *)
| EJson          (* json.Unmarshal of the record failed *)
| EExpired       (* ErrTokenExpired *)
| EZeroExpiry    (* ErrExpiry *)
| EOther.        (* any other error (casbin evaluation); never produced by the model *)

Inductive res (A : Type) :=
| Ok (a : A)
| Err (e : err)
| Panic.
Arguments Ok {A} a.
Arguments Err {A} e.
Arguments Panic {A}.

(** ---------------------------------------------------------------- base64.StdEncoding *)

Definition b64char (s : N) : N :=
  if s <? 26 then 65 + s
  else if s <? 52 then 97 + (s - 26)
  else if s <? 62 then 48 + (s - 52)
  else if s =? 62 then 43 else 47.

Definition b64val (c : N) : option N :=
  if (65 <=? c) && (c <=? 90) then Some (c - 65)
  else if (97 <=? c) && (c <=? 122) then Some (c - 97 + 26)
  else if (48 <=? c) && (c <=? 57) then Some (c - 48 + 52)
  else if c =? 43 then Some 62
  else if c =? 47 then Some 63
  else None.

Definition pad : N := 61.

(** EncodeToString *)
Fixpoint b64enc (l : bytes) : bytes :=
  match l with
  | [] => []
  | [a] => [b64char (a / 4); b64char ((a mod 4) * 16); pad; pad]
  | [a; b] => [b64char (a / 4); b64char ((a mod 4) * 16 + b / 16); b64char ((b mod 16) * 4); pad]
  | a :: b :: c :: r =>
      b64char (a / 4) :: b64char ((a mod 4) * 16 + b / 16) ::
      b64char ((b mod 16) * 4 + c / 64) :: b64char (c mod 64) :: b64enc r
  end.

Definition is_nl (c : N) : bool := (c =? 10) || (c =? 13).
Definition strip_nl (s : bytes) : bytes := filter (fun c => negb (is_nl c)) s.
Definition is_nil {A} (l : list A) : bool := match l with [] => true | _ => false end.

(** one quantum at a time, on the input with CR/LF removed (decodeQuantum skips
    them wherever they occur).  [None] = CorruptInputError.  Not strict:
    the unused low bits of a final partial quantum are ignored. *)
Fixpoint b64dec_q (s : bytes) : option bytes :=
  match s with
  | [] => Some []
  | a :: b :: c :: d :: rest =>
      match b64val a, b64val b with
      | Some va, Some vb =>
          let b0 := va * 4 + vb / 16 in
          match b64val c with
          | Some vc =>
              let b1 := (vb mod 16) * 16 + vc / 4 in
              match b64val d with
              | Some vd =>
                  match b64dec_q rest with
                  | Some t => Some (b0 :: b1 :: ((vc mod 4) * 64 + vd) :: t)
                  | None => None
                  end
              | None => if (d =? pad) && is_nil rest then Some [b0; b1] else None
              end
          | None => if (c =? pad) && (d =? pad) && is_nil rest then Some [b0] else None
          end
      | _, _ => None
      end
  | _ => None
  end.

(** DecodeString *)
Definition b64dec (s : bytes) : option bytes := b64dec_q (strip_nl s).

(** ---------------------------------------------------------------- casbin policy *)

Record rule := { r_sub : bytes; r_obj : bytes; r_alts : list bytes }.
Definition R (sub obj : string) (alts : list string) : rule :=
  {| r_sub := B sub; r_obj := B obj; r_alts := map B alts |}.

Definition GDP := ["GET"; "DELETE"; "POST"]%string.   (* "(GET)|(DELETE)|(POST)" *)
Definition DP := ["DELETE"; "POST"]%string.           (* "(DELETE)|(POST)" *)
Definition GD := ["GET"; "DELETE"]%string.            (* "(GET)|(DELETE)" *)
Definition GP := ["GET"; "POST"]%string.              (* "(GET)|(POST)" *)

(** [applyPolicies], in source order *)
Definition policies : list rule := Eval vm_compute in [
  R "consumer" "/apiPort" ["GET"];
  R "consumer" "/bytes/*" ["GET"];
  R "creator" "/bytes" ["POST"];
  R "consumer" "/chunks/*" ["GET"];
  R "creator" "/chunks" ["POST"];
  R "creator" "/soc/*/*" ["POST"];
  R "consumer" "/aurora" ["GET"];
  R "creator" "/aurora" ["POST"];
  R "consumer" "/aurora/*" ["GET"];
  R "creator" "/aurora/*" ["DELETE"];
  R "consumer" "/aurora/*/*" ["GET"];
  R "consumer" "/manifest/*" ["GET"];
  R "consumer" "/manifest/*/*" ["GET"];
  R "creator" "/pins/*" GDP;
  R "consumer" "/group/peers/*" ["GET"];
  R "consumer" "/group/multicast/*" ["POST"];
  R "consumer" "/group/send/*/*" ["POST"];
  R "consumer" "/group/notify/*/*" ["POST"];
  R "consumer" "/group/join/*" DP;
  R "consumer" "/group/observe/*" DP;
  R "maintainer" "/pins" ["GET"];
  R "maintainer" "/addresses" ["GET"];
  R "maintainer" "/pingpong/*" ["POST"];
  R "maintainer" "/connect/*" ["POST"];
  R "maintainer" "/peers" ["GET"];
  R "maintainer" "/peers/*" ["DELETE"];
  R "maintainer" "/blocklist" ["GET"];
  R "maintainer" "/blocklist/*" DP;
  R "maintainer" "/chunks/*" GD;
  R "maintainer" "/topology" ["GET"];
  R "maintainer" "/route/*" GDP;
  R "maintainer" "/route/findunderlay/*" ["GET"];
  R "maintainer" "/welcome-message" GP;
  R "maintainer" "/chunk/discover/*" ["GET"];
  R "maintainer" "/chunk/server/*" ["GET"];
  R "maintainer" "/chunk/init/*" ["GET"];
  R "maintainer" "/chunk/source/*" ["GET"];
  R "maintainer" "/aco/*" ["GET"];
  R "maintainer" "/keystore" GP;
  R "maintainer" "/privatekey" ["GET"];
  R "maintainer" "/transaction" ["POST"];
  R "maintainer" "/topology/group" ["GET"]
]%string.

Definition star : N := 42.

(** strings.Index(s, "*") *)
Fixpoint index_star (s : bytes) : option nat :=
  match s with
  | [] => None
  | c :: s' => if c =? star then Some O else option_map S (index_star s')
  end.

(** casbin util.KeyMatch (v2.35.0): only the FIRST '*' of the pattern matters *)
Definition key_match (key1 key2 : bytes) : bool :=
  match index_star key2 with
  | None => beqb key1 key2
  | Some i =>
      if Nat.ltb i (List.length key1) then beqb (firstn i key1) (firstn i key2)
      else beqb key1 (firstn i key2)
  end.

Fixpoint is_prefix (p s : bytes) : bool :=
  match p, s with
  | [], _ => true
  | x :: p', y :: s' => (x =? y) && is_prefix p' s'
  | _ :: _, [] => false
  end.

Fixpoint is_infix (p s : bytes) : bool :=
  is_prefix p s || match s with [] => false | _ :: s' => is_infix p s' end.

(** util.RegexMatch = regexp.MatchString(pattern, act), unanchored; every
    pattern of the table is a literal or an alternation of parenthesised literals *)
Definition regex_match (act : bytes) (alts : list bytes) : bool :=
  existsb (fun a => is_infix a act) alts.

Definition master : bytes := Eval vm_compute in B "master".
Definition v1 : bytes := Eval vm_compute in B "/v1".

(** the matcher [m = (r.sub == p.sub || r.sub == "master") &&
    (keyMatch(r.obj, p.obj) || keyMatch(r.obj, '/v1'+p.obj)) && regexMatch(r.act, p.act)] *)
Definition rule_matches (role obj act : bytes) (p : rule) : bool :=
  (beqb role (r_sub p) || beqb role master) &&
  (key_match obj (r_obj p) || key_match obj (v1 ++ r_obj p)) &&
  regex_match act (r_alts p).

(** policy effect [some(where (p.eft == allow))] *)
Definition policy_allows (role obj act : bytes) : bool :=
  existsb (rule_matches role obj act) policies.

(** ---------------------------------------------------------------- time arithmetic *)

Local Open Scope Z_scope.

Definition wrap64 (z : Z) : Z := (z + 2 ^ 63) mod 2 ^ 64 - 2 ^ 63.

(** [time.Second * time.Duration(expiryDuration)]: int64 multiplication *)
Definition dur_ns (d : Z) : Z := wrap64 (d * 1000000000).

Definition nonce_size : nat := 12.   (* cipher.NewGCM: standard nonce size *)

(** ---------------------------------------------------------------- Authenticator *)

Section Auth.
  Variable K : Type.                                   (* the encrypter's key *)
  Variable seal : K -> bytes -> bytes -> bytes.        (* gcm.Seal(nil, nonce, pt, nil) *)
  Variable open_ : K -> bytes -> bytes -> option bytes. (* gcm.Open(nil, nonce, ct, nil) *)
  Variable enc_rec : bytes -> Z -> bytes.              (* json.Marshal(authRecord{role, expiry}) *)
  Variable dec_rec : bytes -> option (bytes * Z).      (* json.Unmarshal into authRecord *)

  (** [encrypter.encrypt]: the fresh nonce is an input *)
  Definition encrypt (k : K) (nonce data : bytes) : bytes := nonce ++ seal k nonce data.

  (** [encrypter.decrypt].  [checked = true] is the code after
      fix-auth-short-token (List.length test before slicing); [checked = false] is
      the pinned code, where [data[:nonceSize]] on a shorter slice panics. *)
  Definition decrypt (checked : bool) (k : K) (data : bytes) : res bytes :=
    if Nat.ltb (List.length data) nonce_size then (if checked then Err EDecrypt else Panic)
    else match open_ k (firstn nonce_size data) (skipn nonce_size data) with
         | Some p => Ok p
         | None => Err EDecrypt
         end.

  (** GenerateKey(role, d) with clock read [now] and nonce [nonce] *)
  Definition generate (k : K) (now : Z) (nonce role : bytes) (d : Z) : res bytes :=
    if d =? 0 then Err EZeroExpiry
    else Ok (b64enc (encrypt k nonce (enc_rec role (now + dur_ns d)))).

  (** decode, decrypt, unmarshal: the common prefix of RefreshKey and Enforce *)
  Definition read_token (checked : bool) (k : K) (tok : bytes) : res (bytes * Z) :=
    match b64dec tok with
    | None => Err EDecode
    | Some data =>
        match decrypt checked k data with
        | Ok p => match dec_rec p with Some re => Ok re | None => Err EJson end
        | Err e => Err e
        | Panic => Panic
        end
    end.

  (** RefreshKey(tok, d): first clock read [now1] (expiry test), second
      [now2] (new expiry), fresh nonce [nonce] *)
  Definition refresh (checked : bool) (k : K) (now1 now2 : Z) (nonce tok : bytes) (d : Z) : res bytes :=
    if d =? 0 then Err EZeroExpiry
    else match read_token checked k tok with
         | Ok (role, exp) =>
             if exp <? now1 then Err EExpired                     (* time.Now().After(ar.Expiry) *)
             else Ok (b64enc (encrypt k nonce (enc_rec role (now2 + dur_ns d))))
         | Err e => Err e
         | Panic => Panic
         end.

  (** Enforce(tok, obj, act) with clock read [now] *)
  Definition enforce (checked : bool) (k : K) (now : Z) (tok obj act : bytes) : res bool :=
    match read_token checked k tok with
    | Ok (role, exp) =>
        if exp <? now then Err EExpired else Ok (policy_allows role obj act)
    | Err e => Err e
    | Panic => Panic
    end.

  (** ---- handler.go: PermissionCheckHandler ---- *)

  Inductive hres :=
  | HNoBearer      (* 403 "Missing bearer token" *)
  | HNoToken       (* 401 "Missing security token" *)
  | HExpired       (* 401 "Token expired" *)
  | HError         (* 500 *)
  | HDenied        (* 403 "Provided security token does not grant access" *)
  | HPass          (* next handler runs *)
  | HPanic.

  Definition bearer : bytes := Eval vm_compute in B "Bearer ".

  (** strings.Split(s, sep) for non-empty [sep]: non-overlapping, left to right.
      [cur] is the current piece, reversed. *)
  Fixpoint split_go (sep s cur : bytes) (fuel : nat) : list bytes :=
    match fuel with
    | O => [rev cur ++ s]
    | S f =>
        match s with
        | [] => [rev cur]
        | c :: s' =>
            if is_prefix sep s then rev cur :: split_go sep (skipn (List.length sep) s) [] f
            else split_go sep s' (c :: cur) f
        end
    end.
  Definition split (sep s : bytes) : list bytes := split_go sep s [] (S (List.length s)).

  Definition all_spaces (s : bytes) : bool := forallb (fun c => (c =? 32)%N) s.

  Definition handler (checked : bool) (k : K) (now : Z) (header path method : bytes) : hres :=
    if negb (is_prefix bearer header) then HNoBearer
    else
      match split bearer header with
      | [_; key] =>
          if all_spaces key then HNoToken                (* strings.Trim(keys[1], " ") == "" *)
          else match enforce checked k now key path method with
               | Err EExpired => HExpired
               | Err _ => HError
               | Ok false => HDenied
               | Ok true => HPass
               | Panic => HPanic
               end
      | _ => HNoToken
      end.

  (** ---- calls as threads: the code's steps with their thread-LOCAL state ----

      Enforce and RefreshKey keep everything they compute in locals (the
      decoded bytes, the plaintext, the record); the Authenticator's fields
      (cipher, casbin enforcer, password hash) are only read.  A call is
      therefore a thread whose step function maps its own state to its own
      next state; there is no shared component.  [ProofsConc] lifts this to
      all interleavings. *)

  Inductive call :=
  | CallEnforce (now : Z) (tok obj act : bytes)
  | CallRefresh (now1 now2 : Z) (nonce tok : bytes) (d : Z).

  Inductive answer :=
  | AEnforce (r : res bool)
  | ARefresh (r : res bytes).

  Inductive tstate :=
  | TStart (c : call)
  | TDecoded (c : call) (data : bytes)              (* after base64.DecodeString *)
  | TOpened (c : call) (pt : bytes)                 (* after ciph.decrypt *)
  | TParsed (c : call) (role : bytes) (exp : Z)     (* after json.Unmarshal *)
  | TDone (a : answer).

  Definition fail (c : call) (e : err) : tstate :=
    TDone (match c with CallEnforce _ _ _ _ => AEnforce (Err e) | CallRefresh _ _ _ _ _ => ARefresh (Err e) end).
  Definition crash (c : call) : tstate :=
    TDone (match c with CallEnforce _ _ _ _ => AEnforce Panic | CallRefresh _ _ _ _ _ => ARefresh Panic end).
  Definition call_tok (c : call) : bytes :=
    match c with CallEnforce _ t _ _ => t | CallRefresh _ _ _ t _ => t end.

  Definition tstep (checked : bool) (k : K) (s : tstate) : tstate :=
    match s with
    | TStart c =>
        match c with
        | CallRefresh _ _ _ _ d => if d =? 0 then fail c EZeroExpiry
                                   else match b64dec (call_tok c) with Some data => TDecoded c data | None => fail c EDecode end
        | CallEnforce _ _ _ _ => match b64dec (call_tok c) with Some data => TDecoded c data | None => fail c EDecode end
        end
    | TDecoded c data =>
        match decrypt checked k data with
        | Ok p => TOpened c p
        | Err e => fail c e
        | Panic => crash c
        end
    | TOpened c pt =>
        match dec_rec pt with Some (role, exp) => TParsed c role exp | None => fail c EJson end
    | TParsed c role exp =>
        match c with
        | CallEnforce now _ obj act =>
            TDone (AEnforce (if exp <? now then Err EExpired else Ok (policy_allows role obj act)))
        | CallRefresh now1 now2 nonce _ d =>
            TDone (ARefresh (if exp <? now1 then Err EExpired
                             else Ok (b64enc (encrypt k nonce (enc_rec role (now2 + dur_ns d))))))
        end
    | TDone a => TDone a
    end.

  (** the sequential answer of a call *)
  Definition answer_of (checked : bool) (k : K) (c : call) : answer :=
    match c with
    | CallEnforce now tok obj act => AEnforce (enforce checked k now tok obj act)
    | CallRefresh now1 now2 nonce tok d => ARefresh (refresh checked k now1 now2 nonce tok d)
    end.

  (** a system of concurrent calls: the scheduler picks which thread steps next *)
  Fixpoint upd {A} (i : nat) (f : A -> A) (l : list A) : list A :=
    match l, i with
    | [], _ => []
    | x :: t, O => f x :: t
    | x :: t, S i' => x :: upd i' f t
    end.

  Definition run_sched (checked : bool) (k : K) (sched : list nat) (threads : list tstate) : list tstate :=
    fold_left (fun s i => upd i (tstep checked k) s) sched threads.
End Auth.
