(** C35 — correspondence.  The harness runs the real [auth.Authenticator]
    (GenerateKey / RefreshKey / Enforce) and the real
    [auth.PermissionCheckHandler], and records for each case the results of
    the real primitives the model abstracts (the GCM instance of the
    authenticator through a verif hook, encoding/json on a mirror of
    [authRecord]) as small tables.  [check_case] instantiates the model's
    Section variables with these tables and compares the model's outcome
    with what the code returned.  The clock is bracketed: the harness reads
    the wall clock before ([tlo]) and after ([thi]) the call and the model
    must agree for one of the two (they differ only when an expiry lies
    inside the bracket). *)
From Coq Require Import List NArith ZArith Bool String.
Import ListNotations.
Require Import Aurora.Base.Corr.
Require Export Aurora.C35.Model.
Local Open Scope Z_scope.

(** compact byte-string literals: [X 0x1<hex>] is the byte string <hex>
    (the leading 1 keeps leading zero bytes); one numeral parses much faster
    than a list of numerals *)
Fixpoint unhex_go (fuel : nat) (n : N) (acc : bytes) : bytes :=
  match fuel with
  | O => acc
  | S f => if (n <=? 1)%N then acc else unhex_go f (N.shiftr n 8) (N.land n 255 :: acc)
  end.
Definition X (n : N) : bytes := unhex_go (N.size_nat n) n [].

Record tables := {
  t_nonce : bytes;            (* data[:12] as the harness slices the decoded token *)
  t_ct : bytes;               (* data[12:] *)
  t_open : option bytes;      (* real gcm.Open(nonce, ct) *)
  t_rec : option (bytes * Z)  (* real json.Unmarshal of the opened plaintext: role, expiry (ns) *)
}.

Record sealed := {
  s_nonce : bytes;            (* first 12 bytes of the issued token *)
  s_ct : bytes;               (* the rest *)
  s_pt : bytes;               (* real gcm.Open of it *)
  s_role : bytes;             (* real json.Unmarshal of s_pt *)
  s_exp : Z
}.

Definition open_tbl (T : tables) : unit -> bytes -> bytes -> option bytes :=
  fun _ n c => if beqb n (t_nonce T) && beqb c (t_ct T) then t_open T else None.
Definition dec_tbl (T : tables) : bytes -> option (bytes * Z) :=
  fun p => match t_open T with
           | Some p' => if beqb p p' then t_rec T else None
           | None => None
           end.
(** a miss in the seal / marshal tables yields a value that cannot equal the observation *)
Definition seal_tbl (SL : sealed) : unit -> bytes -> bytes -> bytes :=
  fun _ n m => if beqb n (s_nonce SL) && beqb m (s_pt SL) then s_ct SL else [999%N].
Definition enc_tbl (SL : sealed) : bytes -> Z -> bytes :=
  fun r e => if beqb r (s_role SL) && (e =? s_exp SL) then s_pt SL else [998%N].

Definition no_seal : unit -> bytes -> bytes -> bytes := fun _ _ _ => [999%N].
Definition no_enc : bytes -> Z -> bytes := fun _ _ => [998%N].

Definition err_eqb (a b : err) : bool :=
  match a, b with
  | EDecode, EDecode | EDecrypt, EDecrypt | EJson, EJson | EExpired, EExpired | EZeroExpiry, EZeroExpiry | EOther, EOther => true
  | _, _ => false
  end.
Definition res_eqb {A} (e : A -> A -> bool) (a b : res A) : bool :=
  match a, b with
  | Ok x, Ok y => e x y
  | Err x, Err y => err_eqb x y
  | Panic, Panic => true
  | _, _ => false
  end.
Definition hres_eqb (a b : hres) : bool :=
  match a, b with
  | HNoBearer, HNoBearer | HNoToken, HNoToken | HExpired, HExpired | HError, HError
  | HDenied, HDenied | HPass, HPass | HPanic, HPanic => true
  | _, _ => false
  end.

Inductive case :=
| CB64Dec (s : bytes) (obs : option bytes)                 (* base64.StdEncoding.DecodeString *)
| CB64Enc (d : bytes) (obs : bytes)                        (* base64.StdEncoding.EncodeToString *)
| CEnforce (tok : bytes) (T : tables) (tlo thi : Z)
           (qs : list (bytes * bytes * res bool))          (* (obj, act, Enforce result) *)
| CGenerate (role : bytes) (d : Z) (tlo thi : Z) (SL : sealed) (obs : res bytes)
| CRefresh (tok : bytes) (T : tables) (d : Z) (tlo thi : Z) (SL : sealed) (obs : res bytes)
| CHandler (header : bytes) (T : tables) (tlo thi : Z) (path method : bytes) (obs : hres)
(** answers observed while 8 goroutines were calling Enforce / RefreshKey on the
    one Authenticator ([tlo], [thi] bracket the whole concurrent stage): by
    [C35_interleaving] they must be the model's sequential answers *)
| CConcEnforce (tok : bytes) (T : tables) (tlo thi : Z) (qs : list (bytes * bytes * res bool))
| CConcRefresh (tok : bytes) (T : tables) (d : Z) (tlo thi : Z) (SL : sealed) (obs : res bytes).

Definition m_enforce (T : tables) now tok obj act : res bool :=
  enforce unit (open_tbl T) (dec_tbl T) true tt now tok obj act.

Definition m_generate (SL : sealed) role d : res bytes :=
  generate unit (seal_tbl SL) (enc_tbl SL) tt (s_exp SL - dur_ns d) (s_nonce SL) role d.

Definition m_refresh (T : tables) (SL : sealed) now1 tok d : res bytes :=
  refresh unit (seal_tbl SL) (open_tbl T) (enc_tbl SL) (dec_tbl T) true tt now1 (s_exp SL - dur_ns d) (s_nonce SL) tok d.

Definition m_handler (T : tables) now header path method : hres :=
  handler unit (open_tbl T) (dec_tbl T) true tt now header path method.

(** the concurrent kinds are evaluated through the thread model: the call's own four steps *)
Definition iter4 {A} (f : A -> A) (x : A) : A := f (f (f (f x))).
Definition t_enforce (T : tables) now tok obj act : res bool :=
  match iter4 (tstep unit no_seal (open_tbl T) no_enc (dec_tbl T) true tt) (TStart (CallEnforce now tok obj act)) with
  | TDone (AEnforce r) => r
  | _ => Panic
  end.
Definition t_refresh (T : tables) (SL : sealed) now1 tok d : res bytes :=
  match iter4 (tstep unit (seal_tbl SL) (open_tbl T) (enc_tbl SL) (dec_tbl T) true tt)
              (TStart (CallRefresh now1 (s_exp SL - dur_ns d) (s_nonce SL) tok d)) with
  | TDone (ARefresh r) => r
  | _ => Panic
  end.

Definition in_bracket (tlo thi : Z) (SL : sealed) (d : Z) : bool :=
  (tlo <=? s_exp SL - dur_ns d) && (s_exp SL - dur_ns d <=? thi).

Definition is_ok {A} (r : res A) : bool := match r with Ok _ => true | _ => false end.

Definition check_case (c : case) : bool :=
  match c with
  | CB64Dec s obs => option_eqb beqb (b64dec s) obs
  | CB64Enc d obs => beqb (b64enc d) obs
  | CEnforce tok T tlo thi qs =>
      forallb (fun q => match q with (obj, act, obs) =>
        if res_eqb Bool.eqb (m_enforce T tlo tok obj act) obs then true
        else res_eqb Bool.eqb (m_enforce T thi tok obj act) obs end) qs
  | CGenerate role d tlo thi SL obs =>
      res_eqb beqb (m_generate SL role d) obs && (negb (is_ok obs) || in_bracket tlo thi SL d)
  | CRefresh tok T d tlo thi SL obs =>
      (if res_eqb beqb (m_refresh T SL tlo tok d) obs then true else res_eqb beqb (m_refresh T SL thi tok d) obs)
      && (negb (is_ok obs) || in_bracket tlo thi SL d)
  | CHandler header T tlo thi path method obs =>
      if hres_eqb (m_handler T tlo header path method) obs then true
      else hres_eqb (m_handler T thi header path method) obs
  | CConcEnforce tok T tlo thi qs =>
      forallb (fun q => match q with (obj, act, obs) =>
        if res_eqb Bool.eqb (t_enforce T tlo tok obj act) obs then true
        else res_eqb Bool.eqb (t_enforce T thi tok obj act) obs end) qs
  | CConcRefresh tok T d tlo thi SL obs =>
      (if res_eqb beqb (t_refresh T SL tlo tok d) obs then true else res_eqb beqb (t_refresh T SL thi tok d) obs)
      && (negb (is_ok obs) || in_bracket tlo thi SL d)
  end.

(** what is printed on a mismatch: the model's outcome(s) next to the observation *)
Inductive explain :=
| XB64Dec (m o : option bytes)
| XB64Enc (m o : bytes)
| XEnforce (l : list (bytes * bytes * res bool * res bool * res bool))
| XTok (m1 m2 o : res bytes) (bracket : bool)
| XHandler (m1 m2 o : hres).

Definition explain_case (c : case) : explain :=
  match c with
  | CB64Dec s obs => XB64Dec (b64dec s) obs
  | CB64Enc d obs => XB64Enc (b64enc d) obs
  | CEnforce tok T tlo thi qs =>
      XEnforce (flat_map (fun q => match q with (obj, act, obs) =>
        let m1 := m_enforce T tlo tok obj act in
        let m2 := m_enforce T thi tok obj act in
        if res_eqb Bool.eqb m1 obs || res_eqb Bool.eqb m2 obs then [] else [(obj, act, m1, m2, obs)] end) qs)
  | CGenerate role d tlo thi SL obs => XTok (m_generate SL role d) (m_generate SL role d) obs (in_bracket tlo thi SL d)
  | CRefresh tok T d tlo thi SL obs => XTok (m_refresh T SL tlo tok d) (m_refresh T SL thi tok d) obs (in_bracket tlo thi SL d)
  | CHandler header T tlo thi path method obs =>
      XHandler (m_handler T tlo header path method) (m_handler T thi header path method) obs
  | CConcEnforce tok T tlo thi qs =>
      XEnforce (flat_map (fun q => match q with (obj, act, obs) =>
        let m1 := t_enforce T tlo tok obj act in
        let m2 := t_enforce T thi tok obj act in
        if res_eqb Bool.eqb m1 obs || res_eqb Bool.eqb m2 obs then [] else [(obj, act, m1, m2, obs)] end) qs)
  | CConcRefresh tok T d tlo thi SL obs => XTok (t_refresh T SL tlo tok d) (t_refresh T SL thi tok d) obs (in_bracket tlo thi SL d)
  end.
