(** C35 — concurrent calls.  In the model a call's steps read and write only
    the call's own state, so under EVERY schedule each call ends with the
    answer it gives when run alone. *)
From Coq Require Import List NArith ZArith Bool Lia.
Import ListNotations.
Require Import Aurora.C35.Model.
Local Open Scope Z_scope.

Set Default Proof Using "Type".

Fixpoint iter {A} (n : nat) (f : A -> A) (x : A) : A :=
  match n with O => x | S n' => iter n' f (f x) end.

Lemma iter_fix {A} (f : A -> A) x n : f x = x -> iter n f x = x.
Proof. intros H. induction n as [|n IH]; simpl; [reflexivity|]. now rewrite H. Qed.

Lemma iter_add {A} (f : A -> A) n m x : iter (n + m) f x = iter m f (iter n f x).
Proof. revert x; induction n as [|n IH]; intros x; simpl; [reflexivity|apply IH]. Qed.

Lemma nth_upd_same {A} (f : A -> A) : forall l i, nth_error (upd i f l) i = option_map f (nth_error l i).
Proof. induction l as [|x l IH]; intros [|i]; simpl; auto. Qed.

Lemma nth_upd_other {A} (f : A -> A) : forall l i j, i <> j -> nth_error (upd j f l) i = nth_error l i.
Proof.
  induction l as [|x l IH]; intros [|i] [|j] H; simpl; auto; try congruence.
Qed.

Section Conc.
  Variable K : Type.
  Variable seal : K -> bytes -> bytes -> bytes.
  Variable open_ : K -> bytes -> bytes -> option bytes.
  Variable enc_rec : bytes -> Z -> bytes.
  Variable dec_rec : bytes -> option (bytes * Z).
  Variable checked : bool.
  Variable k : K.

  Notation tstep := (tstep K seal open_ enc_rec dec_rec checked k).
  Notation answer_of := (answer_of K seal open_ enc_rec dec_rec checked k).
  Notation run_sched := (run_sched K seal open_ enc_rec dec_rec checked k).

  (** a call run alone: four steps reach the sequential answer ... *)
  Lemma alone_four c : iter 4 tstep (TStart c) = TDone (answer_of c).
  Proof.
    destruct c as [now tok obj act|now1 now2 nonce tok d]; cbn [iter answer_of].
    - unfold Model.enforce, Model.read_token. cbn [Model.tstep call_tok].
      destruct (b64dec tok) as [data|]; [|reflexivity]. cbn [Model.tstep].
      destruct (decrypt K open_ checked k data) as [p|e|]; try reflexivity. cbn [Model.tstep].
      destruct (dec_rec p) as [[role exp]|]; reflexivity.
    - unfold Model.refresh, Model.read_token. cbn [Model.tstep call_tok].
      destruct (d =? 0); [reflexivity|].
      destruct (b64dec tok) as [data|]; [|reflexivity]. cbn [Model.tstep].
      destruct (decrypt K open_ checked k data) as [p|e|]; try reflexivity. cbn [Model.tstep].
      destruct (dec_rec p) as [[role exp]|]; [|reflexivity]. cbn [Model.tstep].
      destruct (exp <? now1); reflexivity.
  Qed.

  (** ... and further steps change nothing *)
  Lemma alone_enough c n : (4 <= n)%nat -> iter n tstep (TStart c) = TDone (answer_of c).
  Proof.
    intros H. replace n with (4 + (n - 4))%nat by lia. rewrite iter_add, alone_four. now apply iter_fix.
  Qed.

  (** under any schedule, thread i has simply taken as many of ITS OWN steps as
      the schedule gave it: nothing another thread does reaches it *)
  Lemma thread_isolated sched : forall threads i,
    nth_error (run_sched sched threads) i =
    option_map (iter (count_occ Nat.eq_dec sched i) tstep) (nth_error threads i).
  Proof.
    unfold Model.run_sched. induction sched as [|j sched IH]; intros threads i; cbn [fold_left count_occ].
    - destruct (nth_error threads i); reflexivity.
    - rewrite IH. destruct (Nat.eq_dec j i) as [->|Hne].
      + rewrite nth_upd_same. destruct (nth_error threads i); reflexivity.
      + rewrite nth_upd_other by congruence. reflexivity.
  Qed.

  (** every interleaving gives each call its sequential answer *)
  Theorem interleaving calls sched i c :
    nth_error calls i = Some c -> (4 <= count_occ Nat.eq_dec sched i)%nat ->
    nth_error (run_sched sched (map TStart calls)) i = Some (TDone (answer_of c)).
  Proof.
    intros Hc Hn. rewrite thread_isolated, nth_error_map, Hc. cbn [option_map]. f_equal. now apply alone_enough.
  Qed.

  (** and a thread that has finished under some schedule holds exactly that answer *)
  Theorem finished_is_sequential calls sched i c a :
    nth_error calls i = Some c ->
    nth_error (run_sched sched (map TStart calls)) i = Some (TDone a) -> a = answer_of c.
  Proof.
    intros Hc. rewrite thread_isolated, nth_error_map, Hc. cbn [option_map].
    remember (count_occ Nat.eq_dec sched i) as n eqn:En. clear En. intros H. inversion H as [H1]. clear H.
    destruct (Nat.le_gt_cases 4 n) as [Hge|Hlt].
    - rewrite (alone_enough c n Hge) in H1. now inversion H1.
    - pose proof (alone_four c) as H4.
      assert (Hm : iter (n + (4 - n)) tstep (TStart c) = TDone (answer_of c)) by (replace (n + (4 - n))%nat with 4%nat by lia; exact H4).
      rewrite iter_add, H1 in Hm. rewrite iter_fix in Hm by reflexivity. now inversion Hm.
  Qed.
End Conc.
