(** C35 — lemmas about the authenticator model (all for arbitrary AEAD / JSON
    functions; the laws needed are explicit hypotheses of each lemma). *)
From Coq Require Import List NArith ZArith Bool Lia.
Import ListNotations.
Require Import Aurora.C35.Model Aurora.C35.ProofsB64 Aurora.C35.ProofsPolicy.
Local Open Scope Z_scope.

Set Default Proof Using "Type".

Section AuthProofs.
  Variable K : Type.
  Variable seal : K -> bytes -> bytes -> bytes.
  Variable open_ : K -> bytes -> bytes -> option bytes.
  Variable enc_rec : bytes -> Z -> bytes.
  Variable dec_rec : bytes -> option (bytes * Z).

  Notation decrypt := (decrypt K open_).
  Notation read_token := (read_token K open_ dec_rec).
  Notation enforce := (enforce K open_ dec_rec).
  Notation refresh := (refresh K seal open_ enc_rec dec_rec).
  Notation generate := (generate K seal enc_rec).
  Notation handler := (handler K open_ dec_rec).
  Notation encrypt := (encrypt K seal).

  (** ---- totality of the repaired code: no primitive law needed ---- *)

  Lemma decrypt_total k data : decrypt true k data <> Panic.
  Proof. unfold Model.decrypt. destruct (Nat.ltb _ _); [discriminate|]. destruct (open_ _ _ _); discriminate. Qed.

  Lemma read_token_total k tok : read_token true k tok <> Panic.
  Proof.
    unfold Model.read_token. destruct (b64dec tok) as [data|]; [|discriminate].
    pose proof (decrypt_total k data) as Hd. destruct (decrypt true k data) as [p|e|]; try discriminate; [|congruence].
    destruct (dec_rec p); discriminate.
  Qed.

  Lemma enforce_total k now tok obj act : enforce true k now tok obj act <> Panic.
  Proof.
    unfold Model.enforce. pose proof (read_token_total k tok) as Hr.
    destruct (read_token true k tok) as [[role exp]|e|]; try discriminate; [|congruence].
    destruct (exp <? now); discriminate.
  Qed.

  Lemma refresh_total k now1 now2 nonce tok d : refresh true k now1 now2 nonce tok d <> Panic.
  Proof.
    unfold Model.refresh. destruct (d =? 0); [discriminate|]. pose proof (read_token_total k tok) as Hr.
    destruct (read_token true k tok) as [[role exp]|e|]; try discriminate; [|congruence].
    destruct (exp <? now1); discriminate.
  Qed.

  Lemma handler_total k now header path method : handler true k now header path method <> HPanic.
  Proof.
    unfold Model.handler. destruct (negb _); [discriminate|].
    destruct (split bearer header) as [|x [|key [|y l]]]; try discriminate.
    destruct (all_spaces key); [discriminate|].
    pose proof (enforce_total k now key path method) as He.
    destruct (enforce true k now key path method) as [[|]|[]|]; try discriminate. congruence.
  Qed.

  (** the pinned code (no length test): every token that decodes to fewer than
      12 bytes panics, whatever the primitives do *)
  Lemma unchecked_short_panics k now tok obj act data :
    b64dec tok = Some data -> (length data < nonce_size)%nat ->
    enforce false k now tok obj act = Panic /\
    forall now2 nonce d, d <> 0 -> refresh false k now now2 nonce tok d = Panic.
  Proof.
    intros Hd Hl. apply Nat.ltb_lt in Hl.
    assert (Hr : read_token false k tok = Panic).
    { unfold Model.read_token, Model.decrypt. rewrite Hd, Hl. reflexivity. }
    split.
    - unfold Model.enforce. rewrite Hr. reflexivity.
    - intros now2 nonce d Hd0. unfold Model.refresh. apply Z.eqb_neq in Hd0. rewrite Hd0, Hr. reflexivity.
  Qed.

  (** ---- what a token "is": the record it carries under key k ---- *)

  (** [carries k tok nonce pt role exp]: the token is the base64 text of
      nonce ‖ ciphertext, the ciphertext opens under [k] to [pt], which
      unmarshals to (role, exp) *)
  Definition carries (k : K) (tok nonce ct pt role : bytes) (exp : Z) : Prop :=
    b64dec tok = Some (nonce ++ ct) /\ length nonce = nonce_size /\
    open_ k nonce ct = Some pt /\ dec_rec pt = Some (role, exp).

  Lemma read_token_ok checked k tok role exp :
    read_token checked k tok = Ok (role, exp) <->
    exists nonce ct pt, carries k tok nonce ct pt role exp.
  Proof. clear seal enc_rec.
    unfold Model.read_token, Model.decrypt, carries. split.
    - destruct (b64dec tok) as [data|] eqn:Hd; [|discriminate].
      destruct (Nat.ltb (length data) nonce_size) eqn:Hl; [destruct checked; discriminate|].
      destruct (open_ k _ _) as [p|] eqn:Ho; [|discriminate].
      destruct (dec_rec p) as [re|] eqn:Hj; [|discriminate].
      intros H; inversion H; subst re; clear H.
      exists (firstn nonce_size data), (skipn nonce_size data), p.
      rewrite firstn_skipn. repeat split; auto.
      apply Nat.ltb_ge in Hl. rewrite firstn_length. lia.
    - intros (nonce & ct & pt & Hd & Hn & Ho & Hj). rewrite Hd.
      assert (Hl : Nat.ltb (length (nonce ++ ct)) nonce_size = false).
      { apply Nat.ltb_ge. rewrite app_length. lia. }
      rewrite Hl. rewrite <- Hn, firstn_app, Nat.sub_diag, firstn_all, firstn_O, app_nil_r.
      rewrite skipn_app, Nat.sub_diag, skipn_all, skipn_O. simpl. rewrite Ho, Hj. reflexivity.
  Qed.

  (** Enforce, completely characterised *)
  Lemma enforce_spec checked k now tok obj act b :
    enforce checked k now tok obj act = Ok b <->
    exists nonce ct pt role exp, carries k tok nonce ct pt role exp /\ now <= exp /\ policy_allows role obj act = b.
  Proof. clear seal enc_rec.
    unfold Model.enforce. split.
    - destruct (read_token checked k tok) as [[role exp]|e|] eqn:Hr; try discriminate.
      destruct (exp <? now) eqn:He; [discriminate|]. intros H; inversion H; subst b; clear H.
      apply read_token_ok in Hr as (nonce & ct & pt & Hc).
      exists nonce, ct, pt, role, exp. split; [exact Hc|]. split; [|reflexivity]. apply Z.ltb_ge in He. lia.
    - intros (nonce & ct & pt & role & exp & Hc & Hle & Hp).
      assert (Hr : read_token checked k tok = Ok (role, exp)) by (apply read_token_ok; eauto).
      rewrite Hr. assert (He : (exp <? now) = false) by (apply Z.ltb_ge; lia). rewrite He. now subst b.
  Qed.

  Lemma enforce_expired checked k now tok obj act :
    enforce checked k now tok obj act = Err EExpired <->
    exists nonce ct pt role exp, carries k tok nonce ct pt role exp /\ exp < now.
  Proof. clear seal enc_rec.
    unfold Model.enforce. split.
    - destruct (read_token checked k tok) as [[role exp]|e|] eqn:Hr; try discriminate.
      + destruct (exp <? now) eqn:He; [|discriminate]. intros _.
        apply read_token_ok in Hr as (nonce & ct & pt & Hc).
        exists nonce, ct, pt, role, exp. split; auto. apply Z.ltb_lt in He. lia.
      + intros H; inversion H; subst e. exfalso.
        unfold Model.read_token, Model.decrypt in Hr.
        destruct (b64dec tok); [|discriminate].
        destruct (Nat.ltb _ _); [destruct checked; discriminate|].
        destruct (open_ k _ _) as [p|]; [|discriminate]. destruct (dec_rec p); discriminate.
    - intros (nonce & ct & pt & role & exp & Hc & Hlt).
      assert (Hr : read_token checked k tok = Ok (role, exp)) by (apply read_token_ok; eauto).
      rewrite Hr. assert (He : (exp <? now) = true) by (apply Z.ltb_lt; lia). now rewrite He.
  Qed.

  (** ---- laws of the primitives ---- *)

  (** AEAD correctness *)
  Definition aead_correct : Prop := forall k n m, open_ k n (seal k n m) = Some m.
  (** only seals open: for AES-GCM this is a functional fact (CTR keystream and
      tag are determined by key, nonce and ciphertext); the cryptographic
      idealisation is that nobody without [k] can compute [seal k] *)
  Definition aead_only_seals : Prop := forall k n c m, open_ k n c = Some m -> c = seal k n m.
  (** primitives produce byte strings *)
  Definition seal_bytes : Prop :=
    forall k n m, Forall isbyte n -> Forall isbyte m -> Forall isbyte (seal k n m).
  (** JSON round trip on the records of interest ([rec_ok]: valid UTF-8 role,
      expiry within the years time.Time can marshal), producing bytes *)
  Definition json_roundtrip (rec_ok : bytes -> Z -> Prop) : Prop :=
    forall r e, rec_ok r e -> dec_rec (enc_rec r e) = Some (r, e) /\ Forall isbyte (enc_rec r e).

  (** soundness in the property's words: an honoured token is the text of a
      seal under this node's key of a record whose role's policy allows the
      request and whose expiry has not passed *)
  Lemma enforce_sound k now tok obj act :
    aead_only_seals ->
    enforce true k now tok obj act = Ok true ->
    exists nonce pt role exp,
      b64dec tok = Some (nonce ++ seal k nonce pt) /\ length nonce = nonce_size /\
      dec_rec pt = Some (role, exp) /\ now <= exp /\ allowed_spec role obj act.
  Proof.
    intros Hos He. apply enforce_spec in He as (nonce & ct & pt & role & exp & (Hd & Hn & Ho & Hj) & Hle & Hp).
    apply Hos in Ho. subst ct. exists nonce, pt, role, exp. repeat split; auto.
    now apply policy_allows_spec.
  Qed.

  (** an issued token carries exactly the record it was issued for *)
  Lemma issued_carries k nonce role e (rec_ok : bytes -> Z -> Prop) :
    aead_correct -> seal_bytes -> json_roundtrip rec_ok -> rec_ok role e ->
    length nonce = nonce_size -> Forall isbyte nonce ->
    carries k (b64enc (encrypt k nonce (enc_rec role e))) nonce (seal k nonce (enc_rec role e)) (enc_rec role e) role e.
  Proof.
    intros Hc Hb Hj Hr Hn Hnb. destruct (Hj role e Hr) as [Hj1 Hj2].
    unfold carries, Model.encrypt. repeat split; auto.
    apply b64_roundtrip. apply Forall_app; split; auto.
  Qed.

  Lemma generate_ok k now nonce role d tok :
    generate k now nonce role d = Ok tok <->
    d <> 0 /\ tok = b64enc (encrypt k nonce (enc_rec role (now + dur_ns d))).
  Proof.
    unfold Model.generate. destruct (d =? 0) eqn:Hd.
    - apply Z.eqb_eq in Hd. split; [discriminate|]. intros [H _]. contradiction.
    - apply Z.eqb_neq in Hd. split; [intros H; inversion H; auto|]. intros [_ ->]. reflexivity.
  Qed.

  (** issue then use: honoured exactly per role policy until the expiry *)
  Lemma issue_then_enforce k now nonce role d tok (rec_ok : bytes -> Z -> Prop) :
    aead_correct -> seal_bytes -> json_roundtrip rec_ok -> rec_ok role (now + dur_ns d) ->
    length nonce = nonce_size -> Forall isbyte nonce ->
    generate k now nonce role d = Ok tok ->
    forall now' obj act,
      enforce true k now' tok obj act =
      if now + dur_ns d <? now' then Err EExpired else Ok (policy_allows role obj act).
  Proof.
    intros Hc Hb Hj Hr Hn Hnb Hg now' obj act. apply generate_ok in Hg as [_ ->].
    pose proof (issued_carries k nonce role (now + dur_ns d) rec_ok Hc Hb Hj Hr Hn Hnb) as Hcar.
    assert (Hrt : read_token true k (b64enc (encrypt k nonce (enc_rec role (now + dur_ns d)))) = Ok (role, now + dur_ns d))
      by (apply read_token_ok; eauto).
    unfold Model.enforce. rewrite Hrt. reflexivity.
  Qed.

  (** ---- refresh ---- *)

  Lemma refresh_ok checked k now1 now2 nonce tok d tok' :
    refresh checked k now1 now2 nonce tok d = Ok tok' <->
    d <> 0 /\ exists role exp, read_token checked k tok = Ok (role, exp) /\ now1 <= exp /\
                               tok' = b64enc (encrypt k nonce (enc_rec role (now2 + dur_ns d))).
  Proof.
    unfold Model.refresh. destruct (d =? 0) eqn:Hd.
    - apply Z.eqb_eq in Hd. split; [discriminate|]. intros [H _]. contradiction.
    - apply Z.eqb_neq in Hd. destruct (read_token checked k tok) as [[role exp]|e|].
      + destruct (exp <? now1) eqn:He.
        * split; [discriminate|]. intros (_ & r & e & H & Hle & _). inversion H; subst. apply Z.ltb_lt in He. lia.
        * split.
          -- intros H; inversion H; subst. split; auto. exists role, exp. apply Z.ltb_ge in He. repeat split; auto; lia.
          -- intros (_ & r & e & H & _ & ->). inversion H; subst. reflexivity.
      + split; [discriminate|]. intros (_ & r & e' & H & _). discriminate.
      + split; [discriminate|]. intros (_ & r & e' & H & _). discriminate.
  Qed.

  (** an expired token is never refreshed *)
  Lemma refresh_no_revive checked k now1 now2 nonce tok d role exp :
    read_token checked k tok = Ok (role, exp) -> exp < now1 ->
    refresh checked k now1 now2 nonce tok d = Err (if d =? 0 then EZeroExpiry else EExpired).
  Proof.
    intros Hr Hlt. unfold Model.refresh. destruct (d =? 0); [reflexivity|]. rewrite Hr.
    assert (He : (exp <? now1) = true) by (apply Z.ltb_lt; lia). now rewrite He.
  Qed.

  (** a successful refresh re-issues the SAME role, with the new expiry, and
      only happens while the old token is alive *)
  Lemma refresh_keeps_role k now1 now2 nonce tok d tok' role exp (rec_ok : bytes -> Z -> Prop) :
    aead_correct -> seal_bytes -> json_roundtrip rec_ok -> rec_ok role (now2 + dur_ns d) ->
    length nonce = nonce_size -> Forall isbyte nonce ->
    read_token true k tok = Ok (role, exp) ->
    refresh true k now1 now2 nonce tok d = Ok tok' ->
    now1 <= exp /\ d <> 0 /\ read_token true k tok' = Ok (role, now2 + dur_ns d).
  Proof.
    intros Hc Hb Hj Hrec Hn Hnb Hr Hf. apply refresh_ok in Hf as (Hd & role' & exp' & Hr' & Hle & ->).
    rewrite Hr in Hr'. inversion Hr'; subst role' exp'. repeat split; auto.
    apply read_token_ok.
    pose proof (issued_carries k nonce role (now2 + dur_ns d) rec_ok Hc Hb Hj Hrec Hn Hnb). eauto.
  Qed.

  (** ---- refresh sequences ---- *)

  Record rop := { o_now1 : Z; o_now2 : Z; o_nonce : bytes; o_d : Z }.

  Fixpoint refresh_chain (k : K) (tok : bytes) (ops : list rop) : res bytes :=
    match ops with
    | [] => Ok tok
    | o :: r =>
        match refresh true k (o_now1 o) (o_now2 o) (o_nonce o) tok (o_d o) with
        | Ok t => refresh_chain k t r
        | Err e => Err e
        | Panic => Panic
        end
    end.

  (** the specification: expiry after a sequence of refreshes, [None] as soon
      as one refresh comes after the then-current expiry (or asks for 0) *)
  Fixpoint chain_exp (exp : Z) (ops : list rop) : option Z :=
    match ops with
    | [] => Some exp
    | o :: r => if (o_d o =? 0) || (exp <? o_now1 o) then None else chain_exp (o_now2 o + dur_ns (o_d o)) r
    end.

  Definition op_wf (rec_ok : bytes -> Z -> Prop) (role : bytes) (o : rop) : Prop :=
    length (o_nonce o) = nonce_size /\ Forall isbyte (o_nonce o) /\ rec_ok role (o_now2 o + dur_ns (o_d o)).

  Lemma refresh_chain_spec (rec_ok : bytes -> Z -> Prop) :
    aead_correct -> seal_bytes -> json_roundtrip rec_ok ->
    forall ops k tok role exp, Forall (op_wf rec_ok role) ops ->
      read_token true k tok = Ok (role, exp) ->
      match refresh_chain k tok ops with
      | Ok tok' => exists exp', chain_exp exp ops = Some exp' /\ read_token true k tok' = Ok (role, exp')
      | Err _ => chain_exp exp ops = None
      | Panic => False
      end.
  Proof.
    intros Hc Hb Hj. induction ops as [|o r IH]; intros k tok role exp Hwf Hr.
    - simpl. eauto.
    - inversion Hwf as [|? ? (Hn & Hnb & Hrole) Hwf']; subst. cbn [refresh_chain chain_exp].
      destruct (refresh true k (o_now1 o) (o_now2 o) (o_nonce o) tok (o_d o)) as [t|e|] eqn:Hf.
      + apply refresh_ok in Hf as (Hd & role' & exp' & Hr' & Hle & ->).
        rewrite Hr in Hr'. inversion Hr'; subst role' exp'; clear Hr'.
        apply Z.eqb_neq in Hd. rewrite Hd. assert (He : (exp <? o_now1 o) = false) by (apply Z.ltb_ge; lia).
        rewrite He. cbn [orb].
        apply IH; auto. apply read_token_ok.
        pose proof (issued_carries k (o_nonce o) role (o_now2 o + dur_ns (o_d o)) rec_ok Hc Hb Hj Hrole Hn Hnb). eauto.
      + unfold Model.refresh in Hf. destruct (o_d o =? 0); [reflexivity|]. rewrite Hr in Hf.
        destruct (exp <? o_now1 o); [reflexivity|discriminate].
      + exact (refresh_total _ _ _ _ _ _ Hf).
  Qed.

  (** ---- handler ---- *)

  Lemma handler_pass checked k now header path method :
    handler checked k now header path method = HPass ->
    exists key, header = bearer ++ key /\ enforce checked k now key path method = Ok true.
  Proof.
    unfold Model.handler. destruct (is_prefix bearer header) eqn:Hp; [|discriminate]. cbn [negb].
    destruct (split bearer header) as [|x [|key [|y l]]] eqn:Hs; try discriminate.
    destruct (all_spaces key); [discriminate|].
    destruct (enforce checked k now key path method) as [[|]|[]|] eqn:He; try discriminate.
    intros _. exists key. split; auto.
    assert (Hne : bearer <> []) by discriminate.
    destruct (split_prefix_head bearer header Hne Hp) as [r Hr]. rewrite Hs in Hr. inversion Hr; subst x r.
    pose proof (split_join bearer header) as Hj. rewrite Hs in Hj. cbn [join] in Hj. now rewrite <- Hj.
  Qed.
End AuthProofs.
