(** C35 — property theorems only.  Every theorem is closed: the AEAD of the
    encrypter ([seal]/[open_], any key type [K]) and encoding/json on the
    record ([enc_rec]/[dec_rec]) are universally quantified, with the laws a
    theorem needs as explicit premises:
      [aead_correct]     open (seal m) = m
      [aead_only_seals]  whatever opens is a seal under that key and nonce
                         (authenticity; functional for AES-GCM — the
                         cryptographic idealisation is that [seal k] cannot be
                         computed without [k])
      [seal_bytes]       seal maps bytes to bytes
      [json_roundtrip]   unmarshal (marshal r) = r on the records [rec_ok]
    The model is instantiated at [checked = true], i.e. the code after
    proposed/C35/fix-auth-short-token.patch; [C35_short_token_unpatched]
    documents the defect of the pinned code. *)
From Coq Require Import List NArith ZArith Bool String Lia.
Import ListNotations.
Require Import Aurora.C35.Model Aurora.C35.ProofsB64 Aurora.C35.ProofsPolicy Aurora.C35.Proofs Aurora.C35.ProofsConc.
Local Open Scope Z_scope.

(** "honoured only if issued with this node's key and not altered, not
    expired, and the role's policy allows path and method" *)
Theorem C35_enforce_sound :
  forall K seal open_ dec_rec, aead_only_seals K seal open_ ->
  forall (k : K) now tok obj act,
    enforce K open_ dec_rec true k now tok obj act = Ok true ->
    exists nonce pt role exp,
      b64dec tok = Some (nonce ++ seal k nonce pt) /\ List.length nonce = nonce_size /\
      dec_rec pt = Some (role, exp) /\ now <= exp /\ allowed_spec role obj act.
Proof. intros K seal open_ dec_rec H k now tok obj act He. eapply enforce_sound; eassumption. Qed.
Print Assumptions C35_enforce_sound.

(** Enforce completely characterised (no law needed): verdict [b] iff the
    token carries some record (role, exp) under this key, exp has not passed,
    and b is the policy's answer for that role *)
Theorem C35_enforce_iff :
  forall K open_ dec_rec (k : K) now tok obj act b,
    enforce K open_ dec_rec true k now tok obj act = Ok b <->
    exists nonce ct pt role exp,
      carries K open_ dec_rec k tok nonce ct pt role exp /\ now <= exp /\ policy_allows role obj act = b.
Proof. intros K open_ dec_rec k now tok obj act b. apply enforce_spec. Qed.
Print Assumptions C35_enforce_iff.

(** the casbin matcher over the policy table, declaratively *)
Theorem C35_policy_spec : forall role obj act,
  policy_allows role obj act = true <-> allowed_spec role obj act.
Proof. exact policy_allows_spec. Qed.
Print Assumptions C35_policy_spec.

(** an issued token is honoured exactly according to its role's policy until
    its expiry (issue time + int64-wrapped duration), and reported expired after *)
Theorem C35_issue_then_enforce :
  forall K seal open_ enc_rec dec_rec (rec_ok : bytes -> Z -> Prop),
    aead_correct K seal open_ -> seal_bytes K seal -> json_roundtrip enc_rec dec_rec rec_ok ->
  forall (k : K) now nonce role d tok,
    rec_ok role (now + dur_ns d) -> List.length nonce = nonce_size -> Forall isbyte nonce ->
    generate K seal enc_rec k now nonce role d = Ok tok ->
    forall now' obj act,
      enforce K open_ dec_rec true k now' tok obj act =
      if now + dur_ns d <? now' then Err EExpired else Ok (policy_allows role obj act).
Proof.
  intros K seal open_ enc_rec dec_rec rec_ok Hc Hb Hj k now nonce role d tok Hr Hn Hnb Hg.
  eapply issue_then_enforce; eassumption.
Qed.
Print Assumptions C35_issue_then_enforce.

(** "refreshing keeps the role": the refreshed token carries the same role
    with expiry = second clock read + duration, and the refresh happened
    while the old token was alive *)
Theorem C35_refresh_keeps_role :
  forall K seal open_ enc_rec dec_rec (rec_ok : bytes -> Z -> Prop),
    aead_correct K seal open_ -> seal_bytes K seal -> json_roundtrip enc_rec dec_rec rec_ok ->
  forall (k : K) now1 now2 nonce tok d tok' role exp,
    rec_ok role (now2 + dur_ns d) -> List.length nonce = nonce_size -> Forall isbyte nonce ->
    read_token K open_ dec_rec true k tok = Ok (role, exp) ->
    refresh K seal open_ enc_rec dec_rec true k now1 now2 nonce tok d = Ok tok' ->
    now1 <= exp /\ d <> 0 /\ read_token K open_ dec_rec true k tok' = Ok (role, now2 + dur_ns d).
Proof.
  intros K seal open_ enc_rec dec_rec rec_ok Hc Hb Hj k now1 now2 nonce tok d tok' role exp Hr Hn Hnb Ht Hf.
  eapply refresh_keeps_role; eassumption.
Qed.
Print Assumptions C35_refresh_keeps_role.

(** "refreshing cannot revive an expired token" (no law needed) *)
Theorem C35_refresh_no_revive :
  forall K seal open_ enc_rec dec_rec (k : K) now1 now2 nonce tok d role exp,
    read_token K open_ dec_rec true k tok = Ok (role, exp) -> exp < now1 ->
    refresh K seal open_ enc_rec dec_rec true k now1 now2 nonce tok d =
    Err (if d =? 0 then EZeroExpiry else EExpired).
Proof. intros K seal open_ enc_rec dec_rec k now1 now2 nonce tok d role exp. apply refresh_no_revive. Qed.
Print Assumptions C35_refresh_no_revive.

(** all refresh sequences: the chain succeeds exactly when every refresh comes
    no later than the expiry current at that moment (and asks a non-zero
    duration); the final token carries the ORIGINAL role and the last expiry;
    it never panics *)
Theorem C35_refresh_chain :
  forall K seal open_ enc_rec dec_rec (rec_ok : bytes -> Z -> Prop),
    aead_correct K seal open_ -> seal_bytes K seal -> json_roundtrip enc_rec dec_rec rec_ok ->
  forall ops (k : K) tok role exp,
    Forall (op_wf rec_ok role) ops ->
    read_token K open_ dec_rec true k tok = Ok (role, exp) ->
    match refresh_chain K seal open_ enc_rec dec_rec k tok ops with
    | Ok tok' => exists exp', chain_exp exp ops = Some exp' /\
                              read_token K open_ dec_rec true k tok' = Ok (role, exp')
    | Err _ => chain_exp exp ops = None
    | Panic => False
    end.
Proof. intros K seal open_ enc_rec dec_rec rec_ok Hc Hb Hj ops k tok role exp. apply refresh_chain_spec; assumption. Qed.
Print Assumptions C35_refresh_chain.

(** "any malformed token is rejected with an error rather than a crash":
    for ALL strings and ALL primitives, none of the three entry points panics *)
Theorem C35_total :
  forall K seal open_ enc_rec dec_rec (k : K) now now2 nonce tok obj act d header,
    enforce K open_ dec_rec true k now tok obj act <> Panic /\
    refresh K seal open_ enc_rec dec_rec true k now now2 nonce tok d <> Panic /\
    handler K open_ dec_rec true k now header obj act <> HPanic.
Proof.
  intros K seal open_ enc_rec dec_rec k now now2 nonce tok obj act d header.
  split; [apply enforce_total|]. split; [apply refresh_total|apply handler_total].
Qed.
Print Assumptions C35_total.

(** the HTTP middleware lets a request through only with a header
    "Bearer <token>" whose token Enforce honours for the request's path and method *)
Theorem C35_handler_sound :
  forall K open_ dec_rec (k : K) now header path method,
    handler K open_ dec_rec true k now header path method = HPass ->
    exists key, header = bearer ++ key /\ enforce K open_ dec_rec true k now key path method = Ok true.
Proof. intros K open_ dec_rec k now header path method. apply handler_pass. Qed.
Print Assumptions C35_handler_sound.

(** purity under concurrency: a call is a thread whose steps (decode, decrypt,
    unmarshal, test + policy) work on the call's own state only — the model has
    no state shared between calls.  For ALL sets of concurrent Enforce /
    RefreshKey calls and ALL schedules, a call that got its four steps holds
    exactly the answer it gives when run alone, which is a function of
    (key, token, clock reads, path, method[, nonce, duration]) ... *)
Theorem C35_interleaving :
  forall K seal open_ enc_rec dec_rec (k : K) (calls : list call) (sched : list nat) i c,
    nth_error calls i = Some c -> (4 <= count_occ Nat.eq_dec sched i)%nat ->
    nth_error (run_sched K seal open_ enc_rec dec_rec true k sched (map TStart calls)) i =
    Some (TDone (answer_of K seal open_ enc_rec dec_rec true k c)).
Proof. intros K seal open_ enc_rec dec_rec k calls sched i c. apply interleaving. Qed.
Print Assumptions C35_interleaving.

(** ... and whatever answer a call holds under any schedule, complete or not, is that one *)
Theorem C35_finished_is_sequential :
  forall K seal open_ enc_rec dec_rec (k : K) (calls : list call) (sched : list nat) i c a,
    nth_error calls i = Some c ->
    nth_error (run_sched K seal open_ enc_rec dec_rec true k sched (map TStart calls)) i = Some (TDone a) ->
    a = answer_of K seal open_ enc_rec dec_rec true k c.
Proof. intros K seal open_ enc_rec dec_rec k calls sched i c a. apply finished_is_sequential. Qed.
Print Assumptions C35_finished_is_sequential.

(** F-auth-short-token, on the model of the PINNED code ([checked = false]):
    the 4-character token "AAAA" (3 bytes after base64) panics in Enforce and
    RefreshKey whatever the primitives are.  Repaired by fix-auth-short-token. *)
Theorem C35_short_token_unpatched :
  forall K seal open_ enc_rec dec_rec (k : K) now obj act,
    enforce K open_ dec_rec false k now (B "AAAA") obj act = Panic /\
    forall now2 nonce d, d <> 0 ->
      refresh K seal open_ enc_rec dec_rec false k now now2 nonce (B "AAAA") d = Panic.
Proof.
  intros K seal open_ enc_rec dec_rec k now obj act.
  apply unchecked_short_panics with (data := [0; 0; 0]%N).
  - vm_compute. reflexivity.
  - vm_compute. repeat constructor.
Qed.
Print Assumptions C35_short_token_unpatched.

(** non-vacuity: toy primitives satisfying every law (seal = identity, a two-byte
    record encoding), a live token honoured for its role and refused for
    another path, then expired, refreshed, and the refreshed token alive.  The
    duration 20211507185753197 s is one whose int64 product with 10^9 wraps to 512 ns. *)
Definition toy_seal (_ : unit) (_ m : bytes) : bytes := m.
Definition toy_open (_ : unit) (_ c : bytes) : option bytes := Some c.
Definition toy_enc (_ : bytes) (e : Z) : bytes := [Z.to_N (e / 256); Z.to_N (e mod 256)].
Definition toy_dec (p : bytes) : option (bytes * Z) :=
  match p with [x; y] => Some (B "consumer", Z.of_N x * 256 + Z.of_N y) | _ => None end.
Definition toy_ok (r : bytes) (e : Z) : Prop := r = B "consumer" /\ 0 <= e < 65536.
Definition wrapd : Z := 20211507185753197.

Example C35_hyps_satisfiable :
  aead_correct unit toy_seal toy_open /\ aead_only_seals unit toy_seal toy_open /\
  seal_bytes unit toy_seal /\ json_roundtrip toy_enc toy_dec toy_ok /\
  let nonce := [1; 2; 3; 4; 5; 6; 7; 8; 9; 10; 11; 12]%N in
  exists tok tok',
    generate unit toy_seal toy_enc tt 100 nonce (B "consumer") wrapd = Ok tok /\
    dur_ns wrapd = 512 /\
    enforce unit toy_open toy_dec true tt 612 tok (B "/v1/bytes/abc") (B "GET") = Ok true /\
    enforce unit toy_open toy_dec true tt 612 tok (B "/bytes") (B "POST") = Ok false /\
    enforce unit toy_open toy_dec true tt 613 tok (B "/bytes/abc") (B "GET") = Err EExpired /\
    refresh unit toy_seal toy_open toy_enc toy_dec true tt 610 611 nonce tok wrapd = Ok tok' /\
    enforce unit toy_open toy_dec true tt 1123 tok' (B "/aurora/x/y") (B "GET") = Ok true /\
    refresh unit toy_seal toy_open toy_enc toy_dec true tt 613 614 nonce tok 5 = Err EExpired.
Proof.
  split; [intros k n m; reflexivity|].
  split; [intros k n c m H; inversion H; reflexivity|].
  split; [intros k n m _ Hm; exact Hm|].
  split.
  { intros r e [-> He]. unfold toy_enc, toy_dec.
    assert (H1 : 0 <= e / 256 < 256) by (split; [apply Z.div_pos; lia | apply Z.div_lt_upper_bound; lia]).
    assert (H2 : 0 <= e mod 256 < 256) by (apply Z.mod_pos_bound; lia).
    split.
    - rewrite !Z2N.id by lia. f_equal. f_equal. rewrite Z.mul_comm. symmetry. apply Z.div_mod. lia.
    - repeat constructor; unfold isbyte; lia. }
  eexists. eexists. vm_compute. repeat split; reflexivity.
Qed.
