(** C19 — toolkit: splitting a strictly ascending association list at a
    threshold, cursor positions after Seek/Prev/Last in terms of the split,
    takeWhile on such pieces. *)
From Coq Require Import List NArith Bool Lia Arith Sorting.Sorted.
Import ListNotations.
Require Import Aurora.C18.KV.
Local Open Scope N_scope.

Definition klt (t : bytes) (e : kv) : bool := blt (fst e) t.      (* key < t *)
Definition kge (t : bytes) (e : kv) : bool := ble t (fst e).      (* key >= t *)

Lemma kge_negb_klt t e : kge t e = negb (klt t e).
Proof. unfold kge, klt. apply ble_spec. Qed.

Lemma blt_trans a b c : blt a b = true -> blt b c = true -> blt a c = true.
Proof. rewrite !blt_lt. apply bcmp_lt_trans. Qed.
Lemma ble_blt_trans a b c : ble a b = true -> blt b c = true -> blt a c = true.
Proof.
  intros H1 H2. apply ble_lt_or_eq in H1 as [H1| ->]; [|exact H2].
  apply blt_lt. apply blt_lt in H2. eapply bcmp_lt_trans; eauto.
Qed.
Lemma blt_ble_trans a b c : blt a b = true -> ble b c = true -> blt a c = true.
Proof.
  intros H1 H2. apply ble_lt_or_eq in H2 as [H2| <-]; [|exact H1].
  apply blt_lt. apply blt_lt in H1. eapply bcmp_lt_trans; eauto.
Qed.
Lemma ble_trans a b c : ble a b = true -> ble b c = true -> ble a c = true.
Proof.
  intros H1 H2. apply ble_lt_or_eq in H1 as [H1| ->]; [|exact H2].
  apply ble_lt_or_eq. left. apply ble_lt_or_eq in H2 as [H2| <-]; [eapply bcmp_lt_trans; eauto | exact H1].
Qed.
Lemma ble_refl a : ble a a = true.
Proof. apply ble_lt_or_eq. now right. Qed.
Lemma blt_irrefl a : blt a a = false.
Proof. unfold blt. now rewrite bcmp_refl. Qed.
Lemma blt_ble a b : blt a b = true -> ble a b = true.
Proof. intros H. apply ble_lt_or_eq. left. now apply blt_lt. Qed.
Lemma ble_antisym a b : ble a b = true -> ble b a = true -> a = b.
Proof.
  intros H1 H2. apply ble_lt_or_eq in H1 as [H1|H1]; [|exact H1].
  rewrite ble_spec in H2. apply blt_lt in H1. rewrite H1 in H2. discriminate.
Qed.
Lemma blt_false_ble a b : blt a b = false -> ble b a = true.
Proof. intros H. rewrite ble_spec, H. reflexivity. Qed.
Lemma ble_false_blt a b : ble a b = false -> blt b a = true.
Proof. rewrite ble_spec. destruct (blt b a); [reflexivity | discriminate]. Qed.

Definition all_b (f : kv -> bool) (l : list kv) : Prop := forall e, In e l -> f e = true.
Definition none_b (f : kv -> bool) (l : list kv) : Prop := forall e, In e l -> f e = false.

Lemma filter_all f l : all_b f l -> filter f l = l.
Proof.
  induction l as [|x l IH]; cbn; intros H; [reflexivity|].
  rewrite (H x) by now left. f_equal. apply IH. intros e He. apply H. now right.
Qed.
Lemma filter_none f l : none_b f l -> filter f l = [].
Proof.
  induction l as [|x l IH]; cbn; intros H; [reflexivity|].
  rewrite (H x) by now left. apply IH. intros e He. apply H. now right.
Qed.

Lemma sorted_db_tail e l : sorted_db (e :: l) -> sorted_db l /\ all_b (fun x => blt (fst e) (fst x)) l.
Proof.
  unfold sorted_db, sorted_keys. cbn. intros H. inversion H as [|? ? Hs Hall]; subst. split; [exact Hs|].
  rewrite Forall_forall in Hall. intros x Hx. apply blt_lt. apply Hall. now apply in_map.
Qed.

Lemma sorted_db_app_inv a b : sorted_db (a ++ b) -> sorted_db a /\ sorted_db b.
Proof.
  induction a as [|x a IH]; cbn; intros H.
  - split; [constructor | exact H].
  - destruct (sorted_db_tail _ _ H) as [Hs Hall]. destruct (IH Hs) as [Ha Hb]. split; [|exact Hb].
    unfold sorted_db, sorted_keys in *. cbn. constructor; [exact Ha|].
    rewrite Forall_forall. intros k Hk. unfold keys_of in Hk. apply in_map_iff in Hk as [e [<- He]].
    apply blt_lt. apply Hall. apply in_or_app. now left.
Qed.

(** split of a sorted list at a threshold *)
Lemma sorted_split t : forall l, sorted_db l ->
  l = filter (klt t) l ++ filter (kge t) l.
Proof.
  induction l as [|x l IH]; intros Hs; [reflexivity|].
  destruct (sorted_db_tail _ _ Hs) as [Hs' Hall]. cbn [filter]. rewrite kge_negb_klt.
  destruct (klt t x) eqn:E; cbn [negb].
  - cbn. f_equal. now apply IH.
  - assert (Hge : all_b (kge t) l).
    { intros e He. unfold kge. unfold klt in E. apply blt_false_ble in E.
      eapply ble_trans; [exact E|]. apply blt_ble. now apply Hall. }
    rewrite (filter_all _ _ Hge).
    assert (Hn : none_b (klt t) l).
    { intros e He. specialize (Hge e He). rewrite kge_negb_klt in Hge. now destruct (klt t e). }
    rewrite (filter_none _ _ Hn). reflexivity.
Qed.

Lemma filter_klt_all t l : all_b (klt t) (filter (klt t) l).
Proof. intros e He. apply filter_In in He. tauto. Qed.
Lemma filter_kge_all t l : all_b (kge t) (filter (kge t) l).
Proof. intros e He. apply filter_In in He. tauto. Qed.

(** Seek on [lo ++ hi], everything in [lo] below the key, [hi] starting at or above it *)
Definition hd_ge (k : bytes) (hi : list kv) : Prop :=
  match hi with [] => True | x :: _ => ble k (fst x) = true end.

Lemma seek_app k : forall lo b hi, all_b (klt k) lo -> hd_ge k hi ->
  seek_from b (lo ++ hi) k = match hi with [] => CEOI (rev lo ++ b) | x :: a => CAt (rev lo ++ b) x a end.
Proof.
  induction lo as [|y lo IH]; intros b hi Hlo Hhi; cbn [app seek_from].
  - destruct hi as [|x a]; cbn; [reflexivity|]. cbn in Hhi. now rewrite Hhi.
  - pose proof (Hlo y (or_introl eq_refl)) as Hy. unfold klt in Hy.
    assert (E : ble k (fst y) = false) by (rewrite ble_spec, Hy; reflexivity). rewrite E.
    rewrite IH; [| intros e He; apply Hlo; now right | exact Hhi].
    cbn [rev]. destruct hi; now rewrite <- app_assoc.
Qed.

Lemma hd_ge_filter k l : hd_ge k (filter (kge k) l).
Proof.
  destruct (filter (kge k) l) as [|x a] eqn:E; cbn; [exact I|].
  assert (H : In x (filter (kge k) l)) by (rewrite E; now left). apply filter_In in H. tauto.
Qed.

(** position after [Seek(k)] on a sorted list *)
Lemma seek_sorted k l : sorted_db l ->
  seek_from [] l k = match filter (kge k) l with
                     | [] => CEOI (rev (filter (klt k) l))
                     | x :: a => CAt (rev (filter (klt k) l)) x a
                     end.
Proof.
  intros Hs. rewrite (sorted_split k l Hs) at 1.
  rewrite seek_app; [| apply filter_klt_all | apply hd_ge_filter].
  destruct (filter (kge k) l); now rewrite app_nil_r.
Qed.

(** entries from the cursor backwards *)
Definition cur_back (c : cursor) : list kv := match c with CAt b x _ => x :: b | _ => [] end.

Lemma cur_items_last l : cur_items (cur_last l) = l.
Proof.
  unfold cur_last. destruct (rev l) as [|x b] eqn:E.
  - cbn. apply (f_equal (@rev kv)) in E. rewrite rev_involutive in E. now rewrite E.
  - cbn. apply (f_equal (@rev kv)) in E. rewrite rev_involutive in E. cbn in E. now rewrite E.
Qed.
Lemma cur_back_last l : cur_back (cur_last l) = rev l.
Proof. unfold cur_last. destruct (rev l); reflexivity. Qed.
Lemma cur_valid_last l : cur_valid (cur_last l) = negb (match l with [] => true | _ => false end).
Proof.
  unfold cur_last. destruct l as [|x l]; [reflexivity|]. cbn [rev].
  destruct (rev l ++ [x]) eqn:E; [|reflexivity]. now apply app_eq_nil in E as [_ E].
Qed.

(** stepping back from a positioned cursor / from the end *)
Lemma cur_back_prev_at b x a : cur_back (cur_prev (CAt b x a)) = b.
Proof. destruct b; reflexivity. Qed.
Lemma cur_back_prev_eoi r : cur_back (cur_prev (CEOI r)) = r.
Proof. cbn. rewrite cur_back_last. apply rev_involutive. Qed.
Lemma cur_rest_next_at b x a : cur_rest (cur_next (CAt b x a)) = a.
Proof. destruct a; reflexivity. Qed.
Lemma cur_valid_back c : cur_valid c = match cur_back c with [] => false | _ => true end.
Proof. destruct c; reflexivity. Qed.
Lemma cur_valid_rest c : cur_valid c = match cur_rest c with [] => false | _ => true end.
Proof. destruct c; reflexivity. Qed.
Lemma cur_key_back c : cur_key c = match cur_back c with [] => [] | x :: _ => fst x end.
Proof. destruct c; reflexivity. Qed.
Lemma cur_key_rest c : cur_key c = match cur_rest c with [] => [] | x :: _ => fst x end.
Proof. destruct c; reflexivity. Qed.

(** takeWhile *)
Fixpoint take_while (f : kv -> bool) (l : list kv) : list kv :=
  match l with [] => [] | x :: t => if f x then x :: take_while f t else [] end.

Lemma take_while_app f a b : all_b f a -> (match b with [] => True | x :: _ => f x = false end) ->
  take_while f (a ++ b) = a.
Proof.
  induction a as [|x a IH]; cbn; intros Ha Hb.
  - destruct b as [|y b]; [reflexivity|]. cbn. now rewrite Hb.
  - rewrite (Ha x) by now left. f_equal. apply IH; [|exact Hb]. intros e He. apply Ha. now right.
Qed.

Lemma hd_none f b : none_b f b -> match b with [] => True | x :: _ => f x = false end.
Proof. destruct b; [auto|]. intros H. apply H. now left. Qed.

Lemma all_b_rev f l : all_b f l -> all_b f (rev l).
Proof. intros H e He. apply H. now apply in_rev. Qed.
Lemma none_b_rev f l : none_b f l -> none_b f (rev l).
Proof. intros H e He. apply H. now apply in_rev. Qed.
Lemma all_b_app f a b : all_b f a -> all_b f b -> all_b f (a ++ b).
Proof. intros Ha Hb e He. apply in_app_or in He as [He|He]; auto. Qed.
Lemma none_b_app f a b : none_b f a -> none_b f b -> none_b f (a ++ b).
Proof. intros Ha Hb e He. apply in_app_or in He as [He|He]; auto. Qed.
