(** C19 — the positional operations of shed.Index (Iterate, First, Last, Count,
    CountFrom) against filters of the sorted backend. *)
From Coq Require Import List NArith ZArith Bool Lia Arith Sorting.Sorted.
From Coq Require Import ZifyBool ZifyNat ZifyN.
Import ListNotations.
Require Import Aurora.C18.KV Aurora.C18.Proofs Aurora.C19.Model Aurora.C19.Sorted.
Local Open Scope N_scope.

(** * take_while on sorted lists *)

Lemma sorted_db_app_lt a b : sorted_db (a ++ b) ->
  forall e e', In e a -> In e' b -> blt (fst e) (fst e') = true.
Proof.
  induction a as [|x a IH]; cbn; intros Hs e e' He He'; [contradiction|].
  destruct (sorted_db_tail _ _ Hs) as [Hs' Hall]. destruct He as [->|He].
  - apply Hall. apply in_or_app. now right.
  - now apply IH.
Qed.

Lemma take_while_down (f : kv -> bool) : forall l, sorted_db l ->
  (forall e e', In e l -> In e' l -> f e = true -> blt (fst e') (fst e) = true -> f e' = true) ->
  take_while f l = filter f l.
Proof.
  induction l as [|x l IH]; intros Hs Hc; [reflexivity|].
  destruct (sorted_db_tail _ _ Hs) as [Hs' Hall]. cbn.
  destruct (f x) eqn:E.
  - f_equal. apply IH; [exact Hs'|]. intros e e' He He'. apply Hc; now right.
  - symmetry. apply filter_none. intros e He. destruct (f e) eqn:Ee; [|reflexivity].
    rewrite <- E. symmetry. apply (Hc e x); [now right | now left | exact Ee | now apply Hall].
Qed.

Lemma take_while_up_rev (f : kv -> bool) : forall l, sorted_db l ->
  (forall e e', In e l -> In e' l -> f e = true -> blt (fst e) (fst e') = true -> f e' = true) ->
  take_while f (rev l) = rev (filter f l).
Proof.
  induction l as [|y t IH] using rev_ind; intros Hs Hc; [reflexivity|].
  rewrite rev_app_distr. cbn [rev app take_while]. rewrite filter_app. cbn [filter].
  destruct (sorted_db_app_inv _ _ Hs) as [Hst _].
  destruct (f y) eqn:E.
  - rewrite rev_app_distr. cbn. f_equal. apply IH; [exact Hst|].
    intros e e' He He'. apply Hc; apply in_or_app; now left.
  - rewrite app_nil_r. symmetry. rewrite (filter_none f t); [reflexivity|].
    intros e He. destruct (f e) eqn:Ee; [|reflexivity].
    rewrite <- E. symmetry. apply (Hc e y); [apply in_or_app; now left | apply in_or_app; right; now left | exact Ee |].
    apply (sorted_db_app_lt t [y] Hs); [exact He | now left].
Qed.

(** * the loop of Iterate *)

Definition to_res (r : list kv * option N) : list kv * iter_res :=
  (fst r, match snd r with None => IterNil | Some e => IterCb e end).
Definition dir_list (rv : bool) (c : cursor) : list kv := if rv then cur_back c else cur_rest c.
Definition seeker (rv : bool) : cursor -> cursor := if rv then cur_prev else cur_next.
Definition pfx_of (total : bytes) (e : kv) : bool := has_prefix total (fst e).

Lemma iter_loop_walk rv total cb : forall fuel n c, (length (dir_list rv c) < fuel)%nat ->
  iter_loop fuel (seeker rv) total cb n c =
  to_res (walk cb n (map strip (take_while (pfx_of total) (dir_list rv c)))).
Proof.
  induction fuel as [|f IH]; intros n c Hf; [lia|].
  destruct c as [l|r|b [k v] a]; try (destruct rv; reflexivity).
  assert (Hd : exists l', dir_list rv (CAt b (k, v) a) = (k, v) :: l' /\
                          dir_list rv (seeker rv (CAt b (k, v) a)) = l').
  { destruct rv; cbn [dir_list seeker cur_back cur_rest]; eexists; (split; [reflexivity|]).
    - apply cur_back_prev_at.
    - apply cur_rest_next_at. }
  destruct Hd as (l' & Hd1 & Hd2). rewrite Hd1 in *. cbn [iter_loop cur_valid].
  unfold item_from_iterator. cbn [cur_key cur_value fst snd take_while]. unfold pfx_of at 1. cbn [fst].
  destruct (has_prefix total k) eqn:Ep; [|reflexivity].
  cbn [map strip fst snd walk]. destruct (cb n (tl k) v) as [stop [e|]]; [reflexivity|].
  destruct stop; [reflexivity|].
  rewrite IH by (rewrite Hd2; cbn in Hf; lia). rewrite Hd2.
  destruct (walk cb (S n) (map strip (take_while (pfx_of total) l'))) as [vis r]. reflexivity.
Qed.

Lemma filter_filter_and (f g : kv -> bool) l : filter f (filter g l) = filter (fun e => f e && g e) l.
Proof.
  induction l as [|x l IH]; [reflexivity|]. cbn. destruct (g x); cbn; rewrite ?andb_false_r, ?andb_true_r.
  - destruct (f x); [f_equal|]; exact IH.
  - exact IH.
Qed.

(** * prefix membership as a key range *)

Section Range.
  Variables (db : list kv) (total : bytes).
  Hypothesis Hs : sorted_db db.
  Hypothesis Hkb : keys_bytes db.
  Hypothesis Htot : isbytes total.

  Let lim := prefix_limit total.

  Lemma pfx_range e : In e db -> pfx_of total e = kge total e && below (fst e) lim.
  Proof.
    intros He. unfold pfx_of, kge. symmetry. apply prefix_range; [exact Htot|].
    unfold keys_bytes in Hkb. rewrite Forall_forall in Hkb. apply Hkb. now apply in_map.
  Qed.

  Lemma below_down k k' : below k lim = true -> ble k' k = true -> below k' lim = true.
  Proof. unfold below. destruct lim as [l|]; [|reflexivity]. intros H1 H2. eapply ble_blt_trans; eauto. Qed.

  (** elements of [db] at or above a threshold [t >= total]: prefix = below the limit, downward closed *)
  Lemma take_while_hi (d : kv -> bool) :
    (forall e, In e db -> d e = false -> kge total e = true) ->
    take_while (pfx_of total) (filter (fun e => negb (d e)) db) = filter (fun e => pfx_of total e && negb (d e)) db.
  Proof.
    intros Hd. rewrite take_while_down.
    - apply filter_filter_and.
    - now apply filter_sorted.
    - intros e e' He He' Hp Hlt. apply filter_In in He as [He Hde], He' as [He' Hde'].
      rewrite pfx_range in * by assumption. apply andb_true_iff in Hp as [_ Hb].
      rewrite (Hd e' He') by (now destruct (d e')). cbn.
      eapply below_down; [exact Hb | now apply blt_ble].
  Qed.

  (** elements of [db] below a threshold under the limit: prefix = at or above [total], upward closed *)
  Lemma take_while_lo (d : kv -> bool) :
    (forall e, In e db -> d e = true -> below (fst e) lim = true) ->
    take_while (pfx_of total) (rev (filter d db)) = rev (filter (fun e => pfx_of total e && d e) db).
  Proof.
    intros Hd. rewrite take_while_up_rev.
    - f_equal. apply filter_filter_and.
    - now apply filter_sorted.
    - intros e e' He He' Hp Hlt. apply filter_In in He as [He Hde], He' as [He' Hde'].
      rewrite pfx_range in * by assumption. apply andb_true_iff in Hp as [Hg _].
      rewrite (Hd e' He' Hde'). rewrite andb_true_r. unfold kge in *.
      eapply ble_trans; [exact Hg | now apply blt_ble].
  Qed.
End Range.

(** * cursor positions *)

Definition kle (t : bytes) (e : kv) : bool := ble (fst e) t.      (* key <= t *)
Definition kgt (t : bytes) (e : kv) : bool := blt t (fst e).      (* key > t *)

Lemma kgt_negb_kle t e : kgt t e = negb (kle t e).
Proof. unfold kgt, kle. rewrite ble_spec. now destruct (blt t (fst e)). Qed.

Lemma filter_ext_kv (f g : kv -> bool) l : (forall e, f e = g e) -> filter f l = filter g l.
Proof. intros H. apply filter_ext_in'. intros; apply H. Qed.

Section Position.
  Variables (db : list kv) (sk : bytes).
  Hypothesis Hs : sorted_db db.

  Let LT := filter (klt sk) db.
  Let GE := filter (kge sk) db.
  Let LE := filter (kle sk) db.
  Let GT := filter (kgt sk) db.

  Lemma ge_shape : match GE with
                   | [] => True
                   | x :: a => ble sk (fst x) = true /\ all_b (kgt sk) a
                   end.
  Proof.
    assert (Hsg : sorted_db GE) by now apply filter_sorted.
    assert (Hall : all_b (kge sk) GE) by apply filter_kge_all.
    destruct GE as [|x a]; [exact I|]. split; [apply Hall; now left|].
    destruct (sorted_db_tail _ _ Hsg) as [_ Hlt]. intros e He. unfold kgt.
    eapply ble_blt_trans; [apply (Hall x); now left | now apply Hlt].
  Qed.

  Lemma lt_not_others : none_b (kgt sk) LT /\ all_b (kle sk) LT /\ none_b (fun e => beq sk (fst e)) LT.
  Proof.
    assert (H : all_b (klt sk) LT) by apply filter_klt_all. repeat split; intros e He; specialize (H e He); unfold klt, kgt, kle in *.
    - destruct (blt sk (fst e)) eqn:E; [|reflexivity]. pose proof (blt_trans _ _ _ H E) as Hc. now rewrite blt_irrefl in Hc.
    - now apply blt_ble.
    - destruct (beq sk (fst e)) eqn:E; [|reflexivity]. apply beq_eq in E. rewrite <- E in H. now rewrite blt_irrefl in H.
  Qed.

  Lemma gt_of_ge : GT = match GE with x :: a => if beq sk (fst x) then a else GE | [] => [] end.
  Proof.
    unfold GT. rewrite (sorted_split sk db Hs) at 1. rewrite filter_app. fold LT GE.
    destruct lt_not_others as [Hn _]. rewrite (filter_none _ _ Hn). cbn [app].
    pose proof ge_shape as Hg. destruct GE as [|x a]; [reflexivity|]. destruct Hg as [Hx Ha].
    cbn [filter]. rewrite (filter_all _ _ Ha). unfold kgt at 1.
    destruct (beq sk (fst x)) eqn:E.
    - apply beq_eq in E. rewrite <- E. now rewrite blt_irrefl.
    - apply ble_lt_or_eq in Hx as [Hx|Hx]; [|apply beq_neq in E; contradiction].
      apply blt_lt in Hx. now rewrite Hx.
  Qed.

  Lemma le_of_lt : LE = LT ++ match GE with x :: _ => if beq sk (fst x) then [x] else [] | [] => [] end.
  Proof.
    unfold LE. rewrite (sorted_split sk db Hs) at 1. rewrite filter_app. fold LT GE.
    destruct lt_not_others as (_ & Hl & _). rewrite (filter_all _ _ Hl). f_equal.
    pose proof ge_shape as Hg. destruct GE as [|x a]; [reflexivity|]. destruct Hg as [Hx Ha].
    cbn [filter]. rewrite (filter_none (kle sk) a).
    - unfold kle at 1. destruct (beq sk (fst x)) eqn:E.
      + apply beq_eq in E. rewrite <- E. now rewrite ble_refl.
      + apply ble_lt_or_eq in Hx as [Hx|Hx]; [|apply beq_neq in E; contradiction].
        rewrite ble_spec. apply blt_lt in Hx. now rewrite Hx.
    - intros e He. specialize (Ha e He). rewrite kgt_negb_kle in Ha. now destruct (kle sk e).
  Qed.

  Lemma rev_lt_of_le : rev LT = match rev LE with x :: b => if beq sk (fst x) then b else rev LE | [] => [] end.
  Proof.
    rewrite le_of_lt. destruct lt_not_others as (_ & _ & Hne).
    assert (Hplain : rev LT = match rev LT with x :: b => if beq sk (fst x) then b else rev LT | [] => [] end).
    { destruct (rev LT) as [|x b] eqn:E; [reflexivity|].
      rewrite (none_b_rev _ _ Hne x); [reflexivity|]. rewrite E. now left. }
    destruct GE as [|x a]; [now rewrite app_nil_r|].
    destruct (beq sk (fst x)) eqn:E.
    - rewrite rev_app_distr. cbn. now rewrite E.
    - now rewrite app_nil_r.
  Qed.

  (** forward: after Search(sk) and the optional skip step *)
  Lemma fwd_position (skip : bool) :
    let it0 := search db sk in
    sk <> [] ->
    cur_rest (if skip && beq sk (cur_key it0) then cur_next it0 else it0) = if skip then GT else GE.
  Proof.
    intros it0 Hne. unfold it0, search. rewrite (seek_sorted sk db Hs). fold LT GE.
    rewrite gt_of_ge. destruct GE as [|x a].
    - cbn [cur_key]. destruct skip; cbn; [|reflexivity].
      destruct (beq sk []) eqn:E; [apply beq_eq in E; contradiction | reflexivity].
    - cbn [cur_key]. destruct skip; cbn [andb]; [|reflexivity].
      destruct (beq sk (fst x)); [apply cur_rest_next_at | reflexivity].
  Qed.

  (** reverse with a start item (repaired positioning), then the optional skip step *)
  Lemma rev_position (total : bytes) (skip : bool) :
    sk <> [] ->
    match iter_position db total sk true true with
    | inr _ => False
    | inl it => cur_back (if skip && beq sk (cur_key it) then cur_prev it else it) = rev (if skip then LT else LE)
    end.
  Proof.
    intros Hne. unfold iter_position, search. cbn [negb]. rewrite (seek_sorted sk db Hs). fold LT GE.
    assert (Hskip : forall it, cur_back it = rev LE ->
              cur_back (if skip && beq sk (cur_key it) then cur_prev it else it) = rev (if skip then LT else LE)).
    { intros it Hb. rewrite cur_key_back, Hb. destruct skip; cbn [andb]; [|exact Hb].
      rewrite rev_lt_of_le. destruct (rev LE) as [|x b] eqn:E.
      - destruct (beq sk []) eqn:E2; [apply beq_eq in E2; contradiction | exact Hb].
      - destruct (beq sk (fst x)); [|exact Hb].
        destruct it as [l|r|b' y a']; cbn in Hb; try discriminate. inversion Hb; subst. apply cur_back_prev_at. }
    pose proof le_of_lt as Hle. destruct GE as [|x a] eqn:EG.
    - cbn [cur_valid negb]. apply Hskip. unfold cur_to_last. cbn [cur_items]. rewrite rev_involutive.
      rewrite cur_back_last. f_equal. rewrite Hle. now rewrite app_nil_r.
    - cbn [cur_valid negb cur_key]. destruct (beq sk (fst x)) eqn:E; cbn [negb].
      + apply Hskip. cbn [cur_back]. rewrite Hle, rev_app_distr. reflexivity.
      + apply Hskip. rewrite cur_back_prev_at. rewrite Hle. now rewrite app_nil_r.
  Qed.
End Position.

(** * Iterate *)

Lemma has_prefix_ble p : forall k, has_prefix p k = true -> ble p k = true.
Proof.
  induction p as [|x p IH]; intros k H; [destruct k; reflexivity|].
  destruct k as [|y k]; [discriminate|]. cbn in H. apply andb_true_iff in H as [H1 H2].
  apply N.eqb_eq in H1; subst y. unfold ble in *. cbn. rewrite N.compare_refl. now apply IH.
Qed.

(** the reference: the entries under the total prefix, from the start item
    (strictly after / before it when it is to be skipped), in the asked order *)
Definition ref_select (db : list kv) (total : bytes) (start : option bytes) (skip rv : bool) : list kv :=
  match start with
  | None => if rv then rev (filter (pfx_of total) db) else filter (pfx_of total) db
  | Some sk =>
      if rv then rev (filter (fun e => pfx_of total e && (if skip then klt sk e else kle sk e)) db)
      else filter (fun e => pfx_of total e && (if skip then kgt sk e else kge sk e)) db
  end.

Section Iterate.
  Variables (db : list kv) (total : bytes).
  Hypothesis Hs : sorted_db db.
  Hypothesis Hkb : keys_bytes db.
  Hypothesis Htot : isbytes total.
  Hypothesis Hne : total <> [].

  Let lim := prefix_limit total.

  Lemma len_filter_lt (f : kv -> bool) : (length (filter f db) < S (length db))%nat.
  Proof. pose proof (@filter_length_le kv f db) as H. unfold kv in *. lia. Qed.

  (** forward, with or without a start item under the prefix *)
  Lemma iterate_fwd sk skip cb : has_prefix total sk = true -> sk <> [] ->
    let it0 := search db sk in
    iter_loop (S (length db)) cur_next total cb 0 (if skip && beq sk (cur_key it0) then cur_next it0 else it0) =
    to_res (walk cb 0 (map strip (filter (fun e => pfx_of total e && (if skip then kgt sk e else kge sk e)) db))).
  Proof.
    intros Hp Hsk it0. pose proof (fwd_position db sk Hs skip Hsk) as Hpos. cbn zeta in Hpos. fold it0 in Hpos.
    change cur_next with (seeker false) at 1. rewrite iter_loop_walk; unfold dir_list; rewrite Hpos.
    2:{ destruct skip; apply len_filter_lt. }
    do 3 f_equal. apply has_prefix_ble in Hp.
    destruct skip.
    - rewrite (filter_ext_kv (kgt sk) (fun e => negb (kle sk e))) by (intros; apply kgt_negb_kle).
      rewrite (take_while_hi db total Hs Hkb Htot (kle sk)).
      + apply filter_ext_kv. intros e. now rewrite kgt_negb_kle.
      + intros e He Hd. unfold kle in Hd. unfold kge. apply ble_false_blt in Hd. apply blt_ble.
        eapply ble_blt_trans; eauto.
    - rewrite (filter_ext_kv (kge sk) (fun e => negb (klt sk e))) by (intros; apply kge_negb_klt).
      rewrite (take_while_hi db total Hs Hkb Htot (klt sk)).
      + apply filter_ext_kv. intros e. now rewrite kge_negb_klt.
      + intros e He Hd. unfold klt in Hd. unfold kge. apply blt_false_ble in Hd. eapply ble_trans; eauto.
  Qed.

  Lemma sk_below sk : has_prefix total sk = true -> isbytes sk -> below sk lim = true.
  Proof.
    intros Hp Hb. pose proof (prefix_range total sk Htot Hb) as H. rewrite Hp in H.
    unfold in_range in H. now apply andb_true_iff in H as [_ H].
  Qed.

  (** reverse from a start item under the prefix *)
  Lemma iterate_rev_start sk skip cb : has_prefix total sk = true -> isbytes sk -> sk <> [] ->
    match iter_position db total sk true true with
    | inr _ => False
    | inl it =>
        iter_loop (S (length db)) cur_prev total cb 0 (if skip && beq sk (cur_key it) then cur_prev it else it) =
        to_res (walk cb 0 (map strip (rev (filter (fun e => pfx_of total e && (if skip then klt sk e else kle sk e)) db))))
    end.
  Proof.
    intros Hp Hb Hsk. pose proof (rev_position db sk Hs total skip Hsk) as Hpos.
    destruct (iter_position db total sk true true) as [it|r]; [|exact Hpos].
    change cur_prev with (seeker true) at 1. rewrite iter_loop_walk; unfold dir_list; rewrite Hpos.
    2:{ rewrite rev_length. destruct skip; apply len_filter_lt. }
    do 3 f_equal. pose proof (sk_below sk Hp Hb) as Hbl.
    destruct skip; rewrite (take_while_lo db total Hs Hkb Htot); try reflexivity.
    - intros e He Hd. unfold klt in Hd. eapply below_down; [exact Hbl | now apply blt_ble].
    - intros e He Hd. unfold kle in Hd. eapply below_down; [exact Hbl | exact Hd].
  Qed.

  (** every entry with the prefix is below the increment; with the increment as threshold *)
  Lemma pfx_below e : In e db -> pfx_of total e = true -> below (fst e) lim = true.
  Proof. intros He Hp. rewrite (pfx_range db total Hkb Htot e He) in Hp. now apply andb_true_iff in Hp as [_ Hp]. Qed.

  Lemma last_in_rev (l : list kv) x b : rev l = x :: b -> In x l /\ forall e, In e l -> ble (fst e) (fst x) = true \/ False -> True.
  Proof. intros H. split; [apply in_rev; rewrite H; now left | auto]. Qed.

  Lemma sorted_last_max : forall (l : list kv) x b, sorted_db l -> rev l = x :: b ->
    forall e, In e l -> ble (fst e) (fst x) = true.
  Proof.
    intros l x b Hsl Hr e He.
    assert (Hl : l = rev b ++ [x]) by (rewrite <- (rev_involutive l), Hr; reflexivity).
    subst l. apply in_app_or in He as [He|[<-|[]]]; [|apply ble_refl].
    apply blt_ble. apply (sorted_db_app_lt (rev b) [x] Hsl); [exact He | now left].
  Qed.

  (** reverse without a start item *)
  Lemma iterate_rev_nostart inc cb : lim = Some inc ->
    match iter_position db total total false true with
    | inr r => r = IterNil /\ filter (pfx_of total) db = []
    | inl it =>
        iter_loop (S (length db)) cur_prev total cb 0 it =
        to_res (walk cb 0 (map strip (rev (filter (pfx_of total) db))))
    end.
  Proof.
    intros Hlim. unfold iter_position, search. cbn [negb].
    set (it0 := seek_from [] db total).
    assert (Hitems : cur_items it0 = db) by (unfold it0; now rewrite seek_from_items).
    unfold cur_to_last. rewrite Hitems. rewrite cur_valid_last.
    (* the filter of the prefix equals the filter restricted to keys below the increment *)
    assert (Hloeq : filter (pfx_of total) db = filter (fun e => pfx_of total e && klt inc e) db).
    { apply filter_ext_in'. intros e He. destruct (pfx_of total e) eqn:Ep; [|reflexivity].
      pose proof (pfx_below e He Ep) as Hb. fold lim in Hb. rewrite Hlim in Hb. cbn in Hb. unfold klt. now rewrite Hb. }
    assert (Hwalk : forall it, cur_back it = rev (filter (klt inc) db) ->
              iter_loop (S (length db)) cur_prev total cb 0 it =
              to_res (walk cb 0 (map strip (rev (filter (pfx_of total) db))))).
    { intros it Hb. change cur_prev with (seeker true) at 1. rewrite iter_loop_walk; unfold dir_list; rewrite Hb.
      2:{ rewrite rev_length. apply len_filter_lt. }
      do 3 f_equal. rewrite (take_while_lo db total Hs Hkb Htot); [now rewrite Hloeq|].
      intros e He Hd. fold lim. rewrite Hlim. exact Hd. }
    destruct db as [|e0 db'] eqn:Edb; [cbn; auto|]. rewrite <- Edb in *. cbn [negb].
    destruct (rev db) as [|x b] eqn:Erev.
    { apply (f_equal (@rev kv)) in Erev. rewrite rev_involutive in Erev. rewrite Erev in Edb. discriminate. }
    assert (Hlast : cur_last db = CAt b x []) by (unfold cur_last; now rewrite Erev).
    rewrite Hlast. cbn [cur_key].
    pose proof (sorted_last_max db x b Hs Erev) as Hmax.
    assert (Hxin : In x db) by (apply in_rev; rewrite Erev; now left).
    destruct (has_prefix total (fst x)) eqn:Epx.
    - (* the last key of the database has the prefix: everything is below the increment *)
      apply Hwalk. cbn [cur_back]. rewrite <- Erev. f_equal. symmetry. apply filter_all.
      intros e He. unfold klt. pose proof (pfx_below x Hxin Epx) as Hb. fold lim in Hb. rewrite Hlim in Hb. cbn in Hb.
      eapply ble_blt_trans; [apply Hmax; exact He | exact Hb].
    - unfold bytes_increment. fold lim. rewrite Hlim.
      unfold cur_seek. rewrite <- Hlast, cur_items_last. rewrite (seek_sorted inc db Hs).
      destruct (filter (kge inc) db) as [|c C'] eqn:EHi.
      + (* nothing at or above the increment: the last key is below it and lacks the prefix, so it is below total *)
        cbn [cur_valid negb]. split; [reflexivity|]. apply filter_none. intros e He.
        destruct (pfx_of total e) eqn:Ep; [|reflexivity]. exfalso.
        assert (Hxlt : klt inc x = true).
        { destruct (klt inc x) eqn:E; [reflexivity|]. assert (Hin : In x (filter (kge inc) db)).
          { apply filter_In. split; [exact Hxin|]. rewrite kge_negb_klt, E. reflexivity. }
          rewrite EHi in Hin. contradiction. }
        pose proof (pfx_range db total Hkb Htot x Hxin) as Hrx. unfold pfx_of in Hrx at 1. rewrite Epx in Hrx.
        fold lim in Hrx. rewrite Hlim in Hrx. cbn [below] in Hrx. unfold klt in Hxlt. rewrite Hxlt, andb_true_r in Hrx.
        rewrite (pfx_range db total Hkb Htot e He) in Ep. apply andb_true_iff in Ep as [Ege _].
        unfold kge in *. pose proof (ble_trans _ _ _ Ege (Hmax e He)) as Hc. congruence.
      + cbn [cur_valid negb].
        destruct (rev (filter (klt inc) db)) as [|p b'] eqn:ELo.
        * cbn. split; [reflexivity|]. rewrite Hloeq. apply filter_none. intros e He.
          destruct (klt inc e) eqn:E; [|now rewrite andb_false_r]. exfalso.
          assert (Hin : In e (rev (filter (klt inc) db))) by (rewrite <- in_rev; apply filter_In; auto).
          rewrite ELo in Hin. contradiction.
        * cbn [cur_prev cur_valid negb]. apply Hwalk. cbn [cur_back]. reflexivity.
  Qed.
End Iterate.

Lemma prefix_limit_some x rest : x < 255 -> exists inc, prefix_limit (x :: rest) = Some inc.
Proof.
  intros Hx. cbn. destruct (prefix_limit rest); [eauto|]. apply N.ltb_lt in Hx. rewrite Hx. eauto.
Qed.

Lemma ikey_prefix i p s : has_prefix (ikey i p) (ikey i s) = has_prefix p s.
Proof. unfold ikey. cbn. now rewrite N.eqb_refl. Qed.

Theorem shed_iterate_spec db i start skip pfx rv cb :
  sorted_db db -> keys_bytes db -> isbytes (ikey i pfx) -> i < 255 ->
  (forall s, start = Some s -> has_prefix pfx s = true /\ isbytes (ikey i s)) ->
  (start = None -> skip = false) ->
  shed_iterate db i start skip pfx rv cb =
  to_res (walk cb 0 (map strip (ref_select db (ikey i pfx) (option_map (ikey i) start) skip rv))).
Proof.
  intros Hs Hkb Htot Hi Hstart Hskip. unfold shed_iterate.
  assert (Hne : ikey i pfx <> []) by discriminate.
  destruct start as [s|]; cbn [option_map ref_select].
  - destruct (Hstart s eq_refl) as [Hp Hsb].
    assert (Hp' : has_prefix (ikey i pfx) (ikey i s) = true) by now rewrite ikey_prefix.
    assert (Hsne : ikey i s <> []) by discriminate.
    destruct rv.
    + pose proof (iterate_rev_start db (ikey i pfx) Hs Hkb Htot (ikey i s) skip cb Hp' Hsb Hsne) as H.
      destruct (iter_position db (ikey i pfx) (ikey i s) true true); [exact H | contradiction].
    + unfold iter_position. exact (iterate_fwd db (ikey i pfx) Hs Hkb Htot (ikey i s) skip cb Hp' Hsne).
  - rewrite (Hskip eq_refl). cbn [andb]. destruct rv.
    + destruct (prefix_limit_some i pfx Hi) as [inc Hinc].
      pose proof (iterate_rev_nostart db (ikey i pfx) Hs Hkb Htot inc cb Hinc) as H.
      destruct (iter_position db (ikey i pfx) (ikey i pfx) false true) as [it|r]; [exact H|].
      destruct H as [-> Hnil]. rewrite Hnil. reflexivity.
    + unfold iter_position.
      pose proof (iterate_fwd db (ikey i pfx) Hs Hkb Htot (ikey i pfx) false cb (has_prefix_refl _) Hne) as H.
      cbn [andb] in H. rewrite H. do 3 f_equal. apply filter_ext_kv. intros e.
      unfold pfx_of, kge. destruct (has_prefix (ikey i pfx) (fst e)) eqn:E; [|reflexivity].
      now rewrite (has_prefix_ble _ _ E).
Qed.

(** * First, Last, Count, CountFrom *)

Section FirstLast.
  Variables (db : list kv) (total : bytes).
  Hypothesis Hs : sorted_db db.
  Hypothesis Hkb : keys_bytes db.
  Hypothesis Htot : isbytes total.
  Hypothesis Hne : total <> [].

  Lemma take_while_ge_total : take_while (pfx_of total) (filter (kge total) db) = filter (pfx_of total) db.
  Proof.
    rewrite (filter_ext_kv (kge total) (fun e => negb (klt total e))) by (intros; apply kge_negb_klt).
    rewrite (take_while_hi db total Hs Hkb Htot (klt total)).
    - apply filter_ext_kv. intros e. rewrite <- kge_negb_klt. unfold pfx_of, kge.
      destruct (has_prefix total (fst e)) eqn:E; [|reflexivity]. now rewrite (has_prefix_ble _ _ E).
    - intros e He Hd. now rewrite kge_negb_klt, Hd.
  Qed.

  Lemma item_from_cursor c (l : list kv) :
    (cur_valid c = true -> exists x t, l = x :: t /\ cur_key c = fst x /\ cur_value c = snd x) ->
    (cur_valid c = false -> l = []) ->
    item_from_iterator c total = option_map strip (hd_error (take_while (pfx_of total) l)).
  Proof.
    intros Hv Hi. unfold item_from_iterator. destruct c as [l0|r|b x a].
    - rewrite (Hi eq_refl). cbn. destruct total; [contradiction | reflexivity].
    - rewrite (Hi eq_refl). cbn. destruct total; [contradiction | reflexivity].
    - destruct (Hv eq_refl) as (y & t & -> & Hk & Hvv). rewrite Hk, Hvv. cbn [take_while]. unfold pfx_of.
      destruct (has_prefix total (fst y)); [|reflexivity]. cbn. now destruct y.
  Qed.

  Lemma first_spec : item_from_iterator (search db total) total = option_map strip (hd_error (filter (pfx_of total) db)).
  Proof.
    rewrite <- take_while_ge_total. apply item_from_cursor; unfold search; rewrite (seek_sorted total db Hs);
      destruct (filter (kge total) db) as [|x a]; cbn; try discriminate; auto.
    intros _. exists x, a. auto.
  Qed.

  Lemma last_spec inc it : prefix_limit total = Some inc -> cur_items it = db ->
    item_from_iterator (cur_prev (cur_seek it inc)) total = option_map strip (hd_error (rev (filter (pfx_of total) db))).
  Proof.
    intros Hlim Hit.
    assert (Hloeq : filter (pfx_of total) db = filter (fun e => pfx_of total e && klt inc e) db).
    { apply filter_ext_in'. intros e He. destruct (pfx_of total e) eqn:Ep; [|reflexivity].
      pose proof (pfx_below db total Hkb Htot e He Ep) as Hb. rewrite Hlim in Hb. cbn in Hb. unfold klt. now rewrite Hb. }
    rewrite Hloeq. rewrite <- (take_while_lo db total Hs Hkb Htot (klt inc)).
    2:{ intros e He Hd. rewrite Hlim. exact Hd. }
    unfold cur_seek. rewrite Hit, (seek_sorted inc db Hs).
    set (c := cur_prev match filter (kge inc) db with
                       | [] => CEOI (rev (filter (klt inc) db))
                       | x :: a => CAt (rev (filter (klt inc) db)) x a
                       end).
    assert (Hb : cur_back c = rev (filter (klt inc) db)).
    { unfold c. destruct (filter (kge inc) db); [apply cur_back_prev_eoi | apply cur_back_prev_at]. }
    apply item_from_cursor.
    - intros Hv. destruct c as [l0|r|b x a]; try discriminate. cbn in Hb. exists x, b. rewrite <- Hb. auto.
    - intros Hv. rewrite <- Hb. destruct c; try reflexivity. discriminate.
  Qed.
End FirstLast.

Theorem shed_first_spec db i p : sorted_db db -> keys_bytes db -> isbytes (ikey i p) ->
  shed_first db i p = option_map strip (hd_error (filter (pfx_of (ikey i p)) db)).
Proof. intros Hs Hkb Hb. apply first_spec; auto. discriminate. Qed.

Theorem shed_last_spec db i p : sorted_db db -> keys_bytes db -> isbytes (ikey i p) -> i < 255 ->
  shed_last db i p = option_map strip (hd_error (rev (filter (pfx_of (ikey i p)) db))).
Proof.
  intros Hs Hkb Hb Hi. unfold shed_last, bytes_increment. destruct (prefix_limit_some i p Hi) as [inc Hinc].
  unfold ikey in *. rewrite Hinc. apply last_spec; auto; [discriminate|].
  unfold search. now rewrite seek_from_items.
Qed.

Lemma count_loop_spec i : forall fuel c acc, (length (cur_rest c) < fuel)%nat ->
  (forall e, In e (cur_rest c) -> fst e <> []) ->
  count_loop fuel i c acc = Some (acc + N.of_nat (length (take_while (pfx_of [i]) (cur_rest c)))).
Proof.
  induction fuel as [|f IH]; intros c acc Hf Hne; [lia|].
  destruct c as [l|r|b x a]; cbn [count_loop cur_valid cur_rest take_while length]; try (f_equal; lia).
  cbn [cur_key]. pose proof (Hne x (or_introl eq_refl)) as Hx. destruct x as [[|b0 k] v]; [contradiction|].
  cbn [fst]. unfold pfx_of at 1. cbn [fst has_prefix]. rewrite andb_true_r, (N.eqb_sym i b0).
  destruct (b0 =? i); [|cbn; f_equal; lia].
  rewrite IH.
  - rewrite cur_rest_next_at. cbn [length]. f_equal. lia.
  - rewrite cur_rest_next_at. cbn in Hf. lia.
  - rewrite cur_rest_next_at. intros e He. apply Hne. now right.
Qed.

Lemma ge_nonempty t db e : t <> [] -> In e (filter (kge t) db) -> fst e <> [].
Proof.
  intros Ht He. apply filter_In in He as [_ He]. unfold kge in He. intros E. rewrite E in He.
  destruct t; [contradiction | discriminate].
Qed.

Theorem shed_count_from_spec db i k : sorted_db db -> keys_bytes db -> isbyte i ->
  shed_count_from db i k = Some (N.of_nat (length (filter (fun e => pfx_of [i] e && kge (ikey i k) e) db))).
Proof.
  intros Hs Hkb Hi. unfold shed_count_from, search. rewrite (seek_sorted (ikey i k) db Hs).
  assert (Hrest : cur_rest (match filter (kge (ikey i k)) db with
                            | [] => CEOI (rev (filter (klt (ikey i k)) db))
                            | x :: a => CAt (rev (filter (klt (ikey i k)) db)) x a
                            end) = filter (kge (ikey i k)) db) by (destruct (filter (kge (ikey i k)) db); reflexivity).
  rewrite count_loop_spec; rewrite Hrest.
  - cbn [N.add]. do 3 f_equal.
    rewrite (filter_ext_kv (kge (ikey i k)) (fun e => negb (klt (ikey i k) e))) by (intros; apply kge_negb_klt).
    assert (Hib : isbytes [i]) by (constructor; [exact Hi | constructor]).
    rewrite (take_while_hi db [i] Hs Hkb Hib (klt (ikey i k))).
    + apply filter_ext_kv. intros e. now rewrite kge_negb_klt.
    + intros e He Hd. unfold klt in Hd. apply blt_false_ble in Hd. unfold kge.
      eapply ble_trans; [|exact Hd]. apply has_prefix_ble. unfold ikey. cbn. now rewrite N.eqb_refl.
  - pose proof (@filter_length_le kv (kge (ikey i k)) db) as H. unfold kv in *. lia.
  - intros e He. eapply ge_nonempty; [|exact He]. discriminate.
Qed.

Theorem shed_count_spec db i : sorted_db db -> keys_bytes db -> isbyte i ->
  shed_count db i = Some (N.of_nat (length (filter (pfx_of [i]) db))).
Proof.
  intros Hs Hkb Hi. pose proof (shed_count_from_spec db i [] Hs Hkb Hi) as H.
  unfold shed_count_from, ikey in H. unfold shed_count. rewrite H. do 3 f_equal.
  apply filter_ext_kv. intros e. unfold pfx_of, kge.
  destruct (has_prefix [i] (fst e)) eqn:E; [|reflexivity]. now rewrite (has_prefix_ble _ _ E).
Qed.
