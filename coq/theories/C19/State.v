(** C19 — histories: what every operation writes, last write wins (batches
    included), batches are invisible until committed, fields, schema prefixes. *)
From Coq Require Import List NArith ZArith Bool Lia Arith Sorting.Sorted.
From Coq Require Import ZifyBool ZifyNat ZifyN.
Import ListNotations.
Require Import Aurora.C18.KV Aurora.C18.Proofs Aurora.C19.Model Aurora.C19.Sorted Aurora.C19.Proofs Aurora.C19.Abs.
Local Open Scope N_scope.
Ltac Zify.zify_post_hook ::= Z.div_mod_to_equations.

(** * the writes an operation applies to the committed database *)

Definition field_write (db : list kv) (fk : bytes) (f : N -> N) : list bwrite :=
  match field_get db fk with FVal v => [WPut fk (be64 (f v))] | FPanic => [] end.

(** writes that reach the database when [o] runs in state [s] *)
Definition db_writes (s : state) (o : op) : list bwrite :=
  match o with
  | OPut i k v => [WPut (ikey i k) v]
  | ODelete i k => [WDel (ikey i k)]
  | OBCommit => st_batch s
  | OFPut fk v => [WPut fk (be64 v)]
  | OFInc fk => field_write (st_db s) fk inc_val
  | OFDec fk => field_write (st_db s) fk dec_val
  | OSPut fk v => [WPut fk v]
  | _ => []
  end.

(** writes appended to the pending batch *)
Definition batch_writes (s : state) (o : op) : list bwrite :=
  match o with
  | OBPut i k v => [WPut (ikey i k) v]
  | OBDelete i k => [WDel (ikey i k)]
  | OFPutB fk v => [WPut fk (be64 v)]
  | OFIncB fk => field_write (st_db s) fk inc_val
  | OFDecB fk => field_write (st_db s) fk dec_val
  | OSPutB fk v => [WPut fk v]
  | OBBulk i1 i2 count nkeys stride offset => bulk_writes i1 i2 count nkeys stride offset
  | _ => []
  end.

Lemma step_db s o : st_db (fst (step s o)) = commit (st_db s) (db_writes s o).
Proof.
  destruct o; cbn [step db_writes commit fold_left fst st_db with_db with_batch]; try reflexivity.
  - destruct (create_index name (st_schema s)). reflexivity.
  - unfold field_write. destruct (field_get (st_db s) fk); reflexivity.
  - unfold field_write. destruct (field_get (st_db s) fk); reflexivity.
  - destruct (field_get (st_db s) fk); reflexivity.
  - destruct (field_get (st_db s) fk); reflexivity.
Qed.

Lemma step_batch s o : st_batch (fst (step s o)) =
  match o with
  | OBatchNew | OReopen => []
  | _ => st_batch s ++ batch_writes s o
  end.
Proof.
  destruct o; cbn [step batch_writes fst st_batch with_db with_batch]; rewrite ?app_nil_r; try reflexivity.
  - destruct (create_index name (st_schema s)). reflexivity.
  - destruct (field_get (st_db s) fk); cbn; now rewrite ?app_nil_r.
  - destruct (field_get (st_db s) fk); cbn; now rewrite ?app_nil_r.
  - unfold field_write. destruct (field_get (st_db s) fk); cbn; now rewrite ?app_nil_r.
  - unfold field_write. destruct (field_get (st_db s) fk); cbn; now rewrite ?app_nil_r.
Qed.

(** all the writes that reached the database along a history *)
Fixpoint trace (s : state) (h : list op) : list bwrite :=
  match h with
  | [] => []
  | o :: t => db_writes s o ++ trace (fst (step s o)) t
  end.

Lemma commit_app db a b : commit (commit db a) b = commit db (a ++ b).
Proof. unfold commit. now rewrite fold_left_app. Qed.

Lemma run_fst_cons s o t : fst (run s (o :: t)) = fst (run (fst (step s o)) t).
Proof. cbn [run]. destruct (step s o) as [s1 b]. cbn [fst]. destruct (run s1 t) as [s2 bs]. reflexivity. Qed.

Lemma run_db : forall h s, st_db (fst (run s h)) = commit (st_db s) (trace s h).
Proof.
  induction h as [|o t IH]; intros s; [reflexivity|].
  rewrite run_fst_cons, IH, step_db. cbn [trace]. apply commit_app.
Qed.

(** * well-formed databases *)

Definition wf_db (db : list kv) : Prop := sorted_db db /\ keys_bytes db.
Definition wkey (w : bwrite) : bytes := match w with WPut k _ | WDel k => k end.
Definition wf_writes (ws : list bwrite) : Prop := Forall (fun w => isbytes (wkey w)) ws.

Lemma apply_write_wf db w : wf_db db -> isbytes (wkey w) -> wf_db (apply_write db w).
Proof.
  intros [Hs Hk] Hw. destruct w as [k v|k]; cbn in *; split.
  - now apply db_put_sorted.
  - now apply keys_bytes_put.
  - now apply db_del_sorted.
  - now apply keys_bytes_del.
Qed.

Lemma commit_wf : forall ws db, wf_db db -> wf_writes ws -> wf_db (commit db ws).
Proof.
  induction ws as [|w t IH]; intros db Hd Hw; [exact Hd|].
  inversion Hw; subst. cbn. apply IH; [now apply apply_write_wf | assumption].
Qed.

(** last write to a key in a list of writes *)
Fixpoint last_write (k : bytes) (ws : list bwrite) (acc : option (option bytes)) : option (option bytes) :=
  match ws with
  | [] => acc
  | WPut k' v :: t => last_write k t (if beq k k' then Some (Some v) else acc)
  | WDel k' :: t => last_write k t (if beq k k' then Some None else acc)
  end.

Lemma last_write_acc k : forall ws acc,
  last_write k ws acc = match last_write k ws None with Some w => Some w | None => acc end.
Proof.
  induction ws as [|w t IH]; intros acc; [reflexivity|].
  destruct w as [k' v|k']; cbn [last_write]; destruct (beq k k'); try apply IH;
    rewrite (IH (Some _)); destruct (last_write k t None); reflexivity.
Qed.

Theorem commit_last_write k : forall ws db, wf_db db -> wf_writes ws ->
  db_get k (commit db ws) = match last_write k ws None with Some w => w | None => db_get k db end.
Proof.
  induction ws as [|w t IH]; intros db Hd Hw; [reflexivity|].
  inversion Hw as [|? ? Hw1 Hw2]; subst. pose proof (apply_write_wf db w Hd Hw1) as Hd'.
  destruct Hd as [Hs Hk]. pose proof (sorted_nodup _ Hs) as Hnd.
  cbn [commit fold_left]. fold (commit (apply_write db w) t). rewrite (IH _ Hd' Hw2).
  destruct w as [k' v|k']; cbn [last_write apply_write].
  - rewrite (last_write_acc k t (if beq k k' then Some (Some v) else None)).
    destruct (last_write k t None); [reflexivity|].
    rewrite db_get_put. destruct (beq k k'); reflexivity.
  - rewrite (last_write_acc k t (if beq k k' then Some None else None)).
    destruct (last_write k t None); [reflexivity|].
    rewrite db_get_del by exact Hnd. destruct (beq k k'); reflexivity.
Qed.

(** * operations with byte-string arguments keep the database well formed *)

Definition op_ok (o : op) : Prop :=
  match o with
  | OPut i k _ | ODelete i k | OBPut i k _ | OBDelete i k => isbytes (ikey i k)
  | OFPut fk _ | OFInc fk | OFDec fk | OFPutB fk _ | OFIncB fk | OFDecB fk | OSPut fk _ | OSPutB fk _ => isbytes fk
  | OBBulk i1 i2 _ nkeys _ _ => i1 < 256 /\ i2 < 256 /\ 0 < nkeys <= 65536
  | _ => True
  end.

Definition wf_state (s : state) : Prop := wf_db (st_db s) /\ wf_writes (st_batch s).

Lemma field_write_wf db fk f : isbytes fk -> wf_writes (field_write db fk f).
Proof. intros H. unfold field_write, wf_writes. destruct (field_get db fk); [apply Forall_cons; [exact H | apply Forall_nil] | apply Forall_nil]. Qed.

Lemma bulk_writes_wf i1 i2 count nkeys stride offset : i1 < 256 -> i2 < 256 -> 0 < nkeys <= 65536 ->
  wf_writes (bulk_writes i1 i2 count nkeys stride offset).
Proof.
  intros H1 H2 Hn. unfold bulk_writes, wf_writes. apply Forall_rev.
  apply (N.iter_invariant count _ _ (fun st : N * list bwrite => Forall (fun w => isbytes (wkey w)) (snd st))); [|constructor].
  intros [n acc] Hacc. cbn [bulk_step fst snd]. constructor; [|exact Hacc].
  unfold bulk_write. set (j := (n * stride + offset) mod nkeys).
  assert (Hj : j < nkeys) by (apply N.mod_lt; lia).
  assert (Hk : isbytes (ikey (if N.even n then i1 else i2) [j / 256; j mod 256])).
  { unfold ikey. constructor; [destruct (N.even n); assumption|]. constructor.
    - unfold isbyte. apply N.div_lt_upper_bound; [discriminate | lia].
    - constructor; [|constructor]. unfold isbyte. apply N.mod_lt. discriminate. }
  destruct (n mod 3 =? 2); exact Hk.
Qed.

Lemma db_writes_wf s o : wf_state s -> op_ok o -> wf_writes (db_writes s o).
Proof.
  intros [_ Hb] Ho. destruct o; cbn [db_writes op_ok] in *; try exact Hb; try (now apply field_write_wf);
    unfold wf_writes; first [ apply Forall_nil | (apply Forall_cons; [exact Ho | apply Forall_nil]) ].
Qed.
Lemma batch_writes_wf s o : op_ok o -> wf_writes (batch_writes s o).
Proof.
  intros Ho. destruct o; cbn [batch_writes op_ok] in *; try (now apply field_write_wf);
    try (destruct Ho as (H1 & H2 & H3); now apply bulk_writes_wf);
    unfold wf_writes; first [ apply Forall_nil | (apply Forall_cons; [exact Ho | apply Forall_nil]) ].
Qed.

Lemma step_wf s o : wf_state s -> op_ok o -> wf_state (fst (step s o)).
Proof.
  intros Hs Ho. split.
  - rewrite step_db. apply commit_wf; [apply Hs | now apply db_writes_wf].
  - rewrite step_batch. destruct Hs as [_ Hb].
    destruct o; try constructor; apply Forall_app; split; auto; now apply batch_writes_wf.
Qed.

Lemma run_wf : forall h s, wf_state s -> Forall op_ok h -> wf_state (fst (run s h)).
Proof.
  induction h as [|o t IH]; intros s Hs Ho; [exact Hs|].
  inversion Ho; subst. rewrite run_fst_cons. apply IH; [now apply step_wf | assumption].
Qed.

Lemma trace_wf : forall h s, wf_state s -> Forall op_ok h -> wf_writes (trace s h).
Proof.
  induction h as [|o t IH]; intros s Hs Ho; [constructor|].
  inversion Ho; subst. cbn [trace]. apply Forall_app. split; [now apply db_writes_wf|].
  apply IH; [now apply step_wf | assumption].
Qed.

Lemma init_wf : wf_state init_state.
Proof.
  split; [|constructor]. split.
  - unfold sorted_db, sorted_keys. cbn. repeat constructor.
  - unfold keys_bytes. cbn. repeat constructor.
Qed.

(** after any history: last write wins, batched writes counted where they were committed *)
Theorem history_last_write s h k : wf_state s -> Forall op_ok h ->
  db_get k (st_db (fst (run s h))) =
  match last_write k (trace s h) None with Some w => w | None => db_get k (st_db s) end.
Proof.
  intros Hs Ho. rewrite run_db. apply commit_last_write; [apply Hs | now apply trace_wf].
Qed.

(** * batches *)

Definition pure_batch_write (o : op) : Prop :=
  match o with OBPut _ _ _ | OBDelete _ _ | OFPutB _ _ | OSPutB _ _ => True | _ => False end.
Definition direct (o : op) : op :=
  match o with
  | OBPut i k v => OPut i k v
  | OBDelete i k => ODelete i k
  | OFPutB fk v => OFPut fk v
  | OSPutB fk v => OSPut fk v
  | _ => o
  end.

Lemma batch_writes_pure s s' o : pure_batch_write o -> batch_writes s o = batch_writes s' o.
Proof. destruct o; cbn; intros H; try contradiction; reflexivity. Qed.
Lemma flat_batch_pure s s' : forall bs, Forall pure_batch_write bs ->
  flat_map (fun o => batch_writes s o) bs = flat_map (fun o => batch_writes s' o) bs.
Proof.
  induction bs as [|o t IH]; intros H; [reflexivity|]. inversion H; subst. cbn.
  rewrite (batch_writes_pure s s' o) by assumption. now rewrite IH.
Qed.

Lemma batch_run_invisible : forall bs s, Forall pure_batch_write bs ->
  st_db (fst (run s bs)) = st_db s /\
  st_batch (fst (run s bs)) = st_batch s ++ flat_map (fun o => batch_writes s o) bs.
Proof.
  induction bs as [|o t IH]; intros s Hb; [cbn; now rewrite app_nil_r|].
  inversion Hb as [|? ? Ho Ht]; subst. rewrite run_fst_cons.
  destruct (IH (fst (step s o)) Ht) as [Hdb Hbt]. rewrite Hdb, Hbt, step_db, step_batch.
  rewrite (flat_batch_pure (fst (step s o)) s t Ht).
  destruct o; cbn in Ho; try contradiction; cbn [db_writes commit fold_left batch_writes flat_map];
    (split; [reflexivity|]); rewrite <- app_assoc; reflexivity.
Qed.

Lemma direct_run : forall bs s, Forall pure_batch_write bs ->
  st_db (fst (run s (map direct bs))) = commit (st_db s) (flat_map (fun o => batch_writes s o) bs).
Proof.
  induction bs as [|o t IH]; intros s Hb; [reflexivity|].
  inversion Hb as [|? ? Ho Ht]; subst. cbn [map]. rewrite run_fst_cons, (IH _ Ht), step_db.
  rewrite (flat_batch_pure (fst (step s (direct o))) s t Ht).
  destruct o; cbn in Ho; try contradiction; cbn [direct db_writes batch_writes flat_map];
    rewrite commit_app; reflexivity.
Qed.

(** every observation is a function of the committed database (and, for NewIndex, the schema) *)
Lemma obs_db_only s s' o : st_db s = st_db s' -> st_schema s = st_schema s' -> snd (step s o) = snd (step s' o).
Proof.
  intros Hd Hsc. destruct o; cbn [step snd]; rewrite <- ?Hd, <- ?Hsc; try reflexivity.
  - destruct (create_index name (st_schema s)); reflexivity.
  - destruct (field_get (st_db s) fk); reflexivity.
  - destruct (field_get (st_db s) fk); reflexivity.
  - destruct (field_get (st_db s) fk); reflexivity.
  - destruct (field_get (st_db s) fk); reflexivity.
Qed.

Lemma run_schema_batch : forall bs s, Forall pure_batch_write bs -> st_schema (fst (run s bs)) = st_schema s.
Proof.
  induction bs as [|o t IH]; intros s Hb; [reflexivity|].
  inversion Hb as [|? ? Ho Ht]; subst. rewrite run_fst_cons, (IH _ Ht).
  destruct o; cbn in Ho; try contradiction; reflexivity.
Qed.

Theorem batch_atomic s bs : Forall pure_batch_write bs ->
  let s0 := fst (step s OBatchNew) in
  let s1 := fst (run s0 bs) in
  st_db s1 = st_db s /\
  (forall r, snd (step s1 r) = snd (step s r)) /\
  st_db (fst (step s1 OBCommit)) = st_db (fst (run s (map direct bs))).
Proof.
  intros Hb s0 s1.
  destruct (batch_run_invisible bs s0 Hb) as [Hdb Hbt]. fold s1 in Hdb, Hbt.
  assert (Hdb0 : st_db s0 = st_db s) by reflexivity.
  assert (Hsc : st_schema s1 = st_schema s) by (unfold s1; now rewrite run_schema_batch).
  split; [congruence|]. split.
  - intros r. apply obs_db_only; congruence.
  - rewrite step_db. cbn [db_writes]. rewrite Hbt, Hdb. cbn [s0 step fst with_batch st_batch app].
    rewrite (direct_run bs s Hb). reflexivity.
Qed.

(** * uint64 fields *)

Lemma be_bytes_length : forall n v, length (be_bytes n v) = n.
Proof. induction n as [|n IH]; intros v; cbn; [reflexivity|]. rewrite app_length, IH. cbn. lia. Qed.

Lemma be_value_snoc l x : be_value (l ++ [x]) = be_value l * 256 + x.
Proof. unfold be_value. now rewrite fold_left_app. Qed.

Lemma be_value_bytes : forall n v, be_value (be_bytes n v) = v mod 256 ^ N.of_nat n.
Proof.
  induction n as [|n IH]; intros v.
  - cbn. now rewrite N.mod_1_r.
  - cbn [be_bytes]. rewrite be_value_snoc, IH, Nat2N.inj_succ, N.pow_succ_r'.
    rewrite (N.mod_mul_r v 256 (256 ^ N.of_nat n)) by (try discriminate; apply N.pow_nonzero; discriminate). lia.
Qed.

Lemma dec64_be64 v : v < 18446744073709551616 -> dec64 (be64 v) = Some v.
Proof.
  intros Hv. unfold dec64, be64. rewrite be_bytes_length. cbn [Nat.ltb Nat.leb].
  rewrite firstn_all2 by (rewrite be_bytes_length; lia). rewrite be_value_bytes.
  f_equal. apply N.mod_small. exact Hv.
Qed.

Lemma field_get_put db fk v : v < 18446744073709551616 -> field_get (db_put fk (be64 v) db) fk = FVal v.
Proof. intros Hv. unfold field_get. rewrite db_get_put, beq_refl. now rewrite dec64_be64. Qed.

Lemma u64_lt v : u64 v < 18446744073709551616.
Proof. unfold u64. apply N.mod_lt. discriminate. Qed.
Lemma dec_val_lt v : v < 18446744073709551616 -> dec_val v < 18446744073709551616.
Proof. unfold dec_val. destruct (v =? 0); lia. Qed.

(** * schema: prefixes of index names *)

Definition seq_schema (sc : schema) : Prop := map snd sc = map N.of_nat (seq (N.to_nat prefix_index_start) (length sc)).

Lemma create_loop_found name : forall sc nid p, In (name, p) sc -> NoDup (map fst sc) ->
  create_index_loop name sc nid = inl p.
Proof.
  induction sc as [|[n q] t IH]; intros nid p Hin Hnd; [contradiction|]. cbn [create_index_loop].
  inversion Hnd as [|? ? Hni Hnd']; subst. destruct Hin as [E|Hin].
  - inversion E; subst. now rewrite beq_refl.
  - destruct (beq n name) eqn:E; [|now apply IH].
    apply beq_eq in E; subst n. exfalso. apply Hni. change name with (fst (name, p)). now apply in_map.
Qed.

Lemma create_loop_fresh name : forall (n : nat) (a : nat) sc nid,
  map snd sc = map N.of_nat (seq a n) -> ~ In name (map fst sc) -> (a + n <= 255)%nat ->
  nid = N.of_nat a ->
  create_index_loop name sc nid = inr (N.of_nat (a + n)).
Proof.
  induction n as [|n IH]; intros a sc nid Hm Hni Hle ->.
  - destruct sc; [|discriminate]. cbn. now rewrite Nat.add_0_r.
  - destruct sc as [|[m p] t]; [discriminate|]. cbn [map seq snd] in Hm. inversion Hm as [[Hp Ht]]. subst p.
    cbn [create_index_loop]. rewrite N.leb_refl.
    assert (E : beq m name = false). { apply beq_neq. intros ->. apply Hni. now left. }
    rewrite E. rewrite (IH (S a) t); try reflexivity.
    + f_equal. f_equal. lia.
    + exact Ht.
    + intros H. apply Hni. now right.
    + lia.
    + unfold u8. rewrite N.mod_small by lia. lia.
Qed.

Theorem create_index_spec name sc : seq_schema sc -> NoDup (map fst sc) -> (length sc < 253)%nat ->
  prefix_index_start = 2 ->
  let '(sc', p) := create_index name sc in
  seq_schema sc' /\ NoDup (map fst sc') /\ In (name, p) sc' /\
  (In name (map fst sc) -> sc' = sc) /\
  (~ In name (map fst sc) -> sc' = sc ++ [(name, p)] /\ p = N.of_nat (2 + length sc) /\ ~ In p (map snd sc)).
Proof.
  intros Hseq Hnd Hlen Hstart. unfold create_index.
  destruct (in_dec (list_eq_dec N.eq_dec) name (map fst sc)) as [Hin|Hni].
  - pose proof Hin as Hin0. apply in_map_iff in Hin as [[n p] [Hn Hin]]. cbn in Hn; subst n.
    rewrite (create_loop_found name sc _ p Hin Hnd).
    split; [exact Hseq|]. split; [exact Hnd|]. split; [exact Hin|]. split; [reflexivity|].
    intros Hc. contradiction.
  - unfold seq_schema in Hseq. rewrite Hstart in *. change (N.to_nat 2) with 2%nat in Hseq.
    rewrite (create_loop_fresh name (length sc) 2 sc 2 Hseq Hni); [|lia|reflexivity].
    assert (Hfresh : ~ In (N.of_nat (2 + length sc)) (map snd sc)).
    { rewrite Hseq. intros H. apply in_map_iff in H as [x [Hx Hin]]. apply in_seq in Hin. lia. }
    split; [|split; [|split; [|split]]].
    + unfold seq_schema. rewrite Hstart. change (N.to_nat 2) with 2%nat.
      rewrite map_app, app_length, Hseq. cbn [length map snd]. rewrite Nat.add_1_r, seq_S, map_app. reflexivity.
    + rewrite map_app. cbn [map fst].
      rewrite <- (rev_involutive (map fst sc ++ [name])). apply NoDup_rev. rewrite rev_app_distr. cbn [rev app].
      constructor; [now rewrite <- in_rev | now apply NoDup_rev].
    + apply in_or_app. right. now left.
    + intros Hc. contradiction.
    + intros _. split; [reflexivity|]. split; [reflexivity | exact Hfresh].
Qed.
