(** C19 — correspondence: one history of shed operations run on a real
    [shed.DB] over the leveldb driver; [check_case] re-runs it on the model. *)
From Coq Require Import List NArith Bool.
Import ListNotations.
Require Import Aurora.Base.Corr.
Require Export Aurora.C18.KV Aurora.C19.Model.
Local Open Scope N_scope.

Inductive case := Case (h : list op) (o : list obs).

Definition kv_eqb : kv -> kv -> bool := pair_eqb bytes_eqb bytes_eqb.
Definition iter_res_eqb (a b : iter_res) : bool :=
  match a, b with
  | IterNil, IterNil | IterBadPrefix, IterBadPrefix => true
  | IterCb x, IterCb y => N.eqb x y
  | _, _ => false
  end.
Definition obs_eqb (a b : obs) : bool :=
  match a, b with
  | BOk, BOk | BNotFound, BNotFound | BPanic, BPanic => true
  | BPrefix x, BPrefix y | BCount x, BCount y | BU64 x, BU64 y => N.eqb x y
  | BVal x, BVal y => bytes_eqb x y
  | BBool x, BBool y => Bool.eqb x y
  | BBools x, BBools y => list_eqb Bool.eqb x y
  | BFill v1 o1, BFill v2 o2 => list_eqb bytes_eqb v1 v2 && Bool.eqb o1 o2
  | BIter v1 r1, BIter v2 r2 => list_eqb kv_eqb v1 v2 && iter_res_eqb r1 r2
  | BItem k1 v1, BItem k2 v2 => bytes_eqb k1 k2 && bytes_eqb v1 v2
  | _, _ => false
  end.

Definition model_obs (c : case) : list obs := match c with Case h _ => snd (run init_state h) end.
Definition seen_obs (c : case) : list obs := match c with Case _ o => o end.
Definition check_case (c : case) : bool := list_eqb obs_eqb (model_obs c) (seen_obs c).

Fixpoint first_diff (i : nat) (a b : list obs) : option (nat * option obs * option obs) :=
  match a, b with
  | [], [] => None
  | x :: a', y :: b' => if obs_eqb x y then first_diff (S i) a' b' else Some (i, Some x, Some y)
  | x :: _, [] => Some (i, Some x, None)
  | [], y :: _ => Some (i, None, Some y)
  end.
Definition explain_case (c : case) := first_diff 0 (model_obs c) (seen_obs c).
