(** C19 — correspondence: one history of shed operations run on a real
    [shed.DB] over the leveldb driver; [check_case] re-runs it on the model. *)
From Coq Require Import List NArith Bool.
Import ListNotations.
Require Import Aurora.Base.Corr.
Require Export Aurora.C18.KV Aurora.C19.Model Aurora.C19.Conc.
Local Open Scope N_scope.

Inductive case :=
| Case (h : list op) (o : list obs)
(* a bulk reader (thread 0: snapshot program over the complete keys [ks]) against a writer
   (thread 1: one atomic commit per element of [wss]) under the schedule the harness forced,
   after the sequential set-up history [pre]; observed: what Fill / HasMulti returned *)
| CaseFill (pre : list op) (ks : list bytes) (wss : list (list bwrite)) (sched : list nat) (vals : list bytes) (ok : bool)
| CaseHasMulti (pre : list op) (ks : list bytes) (wss : list (list bwrite)) (sched : list nat) (have : list bool).

Definition kv_eqb : kv -> kv -> bool := pair_eqb bytes_eqb bytes_eqb.
Definition iter_res_eqb (a b : iter_res) : bool :=
  match a, b with
  | IterNil, IterNil | IterBadPrefix, IterBadPrefix => true
  | IterCb x, IterCb y => N.eqb x y
  | _, _ => false
  end.
Definition obs_eqb (a b : obs) : bool :=
  match a, b with
  | BOk, BOk | BNotFound, BNotFound | BPanic, BPanic => true
  | BPrefix x, BPrefix y | BCount x, BCount y | BU64 x, BU64 y => N.eqb x y
  | BVal x, BVal y => bytes_eqb x y
  | BBool x, BBool y => Bool.eqb x y
  | BBools x, BBools y => list_eqb Bool.eqb x y
  | BFill v1 o1, BFill v2 o2 => list_eqb bytes_eqb v1 v2 && Bool.eqb o1 o2
  | BIter v1 r1, BIter v2 r2 => list_eqb kv_eqb v1 v2 && iter_res_eqb r1 r2
  | BItem k1 v1, BItem k2 v2 => bytes_eqb k1 k2 && bytes_eqb v1 v2
  | _, _ => false
  end.

(** result list of the reader after the schedule; [None] when it has not finished *)
Definition conc_res (pre : list op) (ks : list bytes) (wss : list (list bwrite)) (sched : list nat) : option (list (option bytes)) :=
  let db0 := st_db (fst (run init_state pre)) in
  match nth_error (snd (run_sched (db0, [snapshot_reader ks; writer wss]) sched)) 0 with
  | Some t => match prog t with [] => Some (res t) | _ => None end
  | None => None
  end.

Definition model_obs (c : case) : list obs :=
  match c with
  | Case h _ => snd (run init_state h)
  | CaseFill pre ks wss sched _ _ =>
      match conc_res pre ks wss sched with
      | Some r => let '(vs, ok) := fill_result r in [BFill vs ok]
      | None => [BStuck]
      end
  | CaseHasMulti pre ks wss sched _ =>
      match conc_res pre ks wss sched with
      | Some r => [BBools (hasmulti_result r)]
      | None => [BStuck]
      end
  end.
Definition seen_obs (c : case) : list obs :=
  match c with
  | Case _ o => o
  | CaseFill _ _ _ _ vals ok => [BFill vals ok]
  | CaseHasMulti _ _ _ _ have => [BBools have]
  end.
Definition check_case (c : case) : bool := list_eqb obs_eqb (model_obs c) (seen_obs c).

Fixpoint first_diff (i : nat) (a b : list obs) : option (nat * option obs * option obs) :=
  match a, b with
  | [], [] => None
  | x :: a', y :: b' => if obs_eqb x y then first_diff (S i) a' b' else Some (i, Some x, Some y)
  | x :: _, [] => Some (i, Some x, None)
  | [], y :: _ => Some (i, None, Some y)
  end.
Definition explain_case (c : case) := first_diff 0 (model_obs c) (seen_obs c).
